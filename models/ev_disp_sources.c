/*
 * Abstract event sources for the dispatcher proofs (events/events.c, C05): events_immediate_get,
 * events_network_get, events_network_select, events_timer_min, events_timer_get as the dispatcher sees them.
 * Each stub = the assumed contract of the real function projected onto the ghost monitor (models/ev_disp.h):
 * its precondition is ASSERTED (an obligation of events_run_internal), its result is arbitrary within the
 * postcondition.  The order monitor (DESIGN.md 3.5):
 *   events_network_get requires "immediate queue known empty since the last callback";
 *   events_timer_get additionally requires "socket scan known exhausted after a zero-timeout poll since the last
 *   callback"; a get returning NULL establishes its fact, doevent (contracts/events__events.c.spec) clears them all.
 * Records handed out are fresh objects holding the abstract callback ev_cb_model and an arbitrary cookie.
 * (Executable models rather than DFCC contracts: with six replaced callees the instrumented events_run_internal
 * exceeded 512 addressed objects and 15 M variables; the semantics are the same: assert requires, assume ensures.)
 */
#include <signal.h>
#include <stdlib.h>
#include <sys/time.h>
#include "ev_disp.h"

int __VERIFIER_nondet_int(void);
long __VERIFIER_nondet_long(void);
void * __VERIFIER_nondet_ptr(void);

static struct eventrec *
ev_src_mkrec(int src)
{
	/* at most one record is pending at any time (asserted by every source), so one object serves them all */
	static struct ev_recview slot;
	struct ev_recview * r = &slot;

	/* the record handed out is one of the live records */
	__CPROVER_assume(g_live > 0);
	r->func = ev_cb_model;
	r->cookie = __VERIFIER_nondet_ptr();
	g_d.pending = (struct eventrec *)r;
	g_d.pending_src = src;
	return ((struct eventrec *)r);
}

struct eventrec *
events_immediate_get(void)
{
	int have = __VERIFIER_nondet_int();

	__CPROVER_assert(g_d.pending == NULL, "protocol: the record taken before was run before the next one is taken");
	if (g_d.first_imm == -1)
		g_d.first_imm = have ? 1 : 0;
	if (!have) {
		g_d.imm_empty = 1;
		return (NULL);
	}
	return (ev_src_mkrec(1));
}

struct eventrec *
events_network_get(void)
{

	__CPROVER_assert(g_d.pending == NULL, "protocol: the record taken before was run before the next one is taken");
	__CPROVER_assert(g_d.imm_empty, "ORDER: a socket callback is taken only when the immediate queue is known empty since the last callback");
	if (__VERIFIER_nondet_int())
		return (ev_src_mkrec(2));
	if (g_d.sel_zero)
		g_d.net_exh = 1;
	return (NULL);
}

int
events_network_select(const struct timeval * tv, const volatile sig_atomic_t * intr)
{

	(void)intr;
	__CPROVER_assert(g_d.pending == NULL, "protocol: no record is pending while polling");
	__CPROVER_assert(tv == NULL || (__CPROVER_r_ok(tv, sizeof(struct timeval)) && tv->tv_sec >= 0 && tv->tv_usec >= 0 && tv->tv_usec < 1000000),
	    "events_network_select: timeout is NULL or a normalised timeval");
	if (g_d.nsel == 0)
		g_d.sel_tv_first = tv;
	if (g_d.nsel < 1000000)
		g_d.nsel++;
	g_d.net_exh = 0;
	g_d.sel_zero = (tv != NULL && tv->tv_sec == 0 && tv->tv_usec == 0) ? 1 : 0;
	if (__VERIFIER_nondet_int()) {
		g_d.src_err = 1;
		return (-1);
	}
	return (0);
}

int
events_timer_min(struct timeval ** timeo)
{

	__CPROVER_assert(g_d.pending == NULL, "protocol: no record is pending");
	g_d.tmin_called = 1;
	if (__VERIFIER_nondet_int()) {
		g_d.src_err = 1;
		return (-1);
	}
	if (__VERIFIER_nondet_int()) {
		*timeo = NULL;		/* no timer */
	} else {
		struct timeval * t = malloc(sizeof(struct timeval));

		__CPROVER_assume(t != NULL);
		t->tv_sec = __VERIFIER_nondet_long();
		t->tv_usec = __VERIFIER_nondet_long();
		__CPROVER_assume(t->tv_sec >= 0 && t->tv_usec >= 0 && t->tv_usec < 1000000);
		*timeo = t;
	}
	g_d.tmin_ptr = *timeo;
	return (0);
}

int
events_timer_get(struct eventrec ** r)
{

	__CPROVER_assert(g_d.pending == NULL, "protocol: the record taken before was run before the next one is taken");
	__CPROVER_assert(g_d.imm_empty, "ORDER: a timer callback is taken only when the immediate queue is known empty since the last callback");
	__CPROVER_assert(g_d.net_exh, "ORDER: a timer callback is taken only when the socket scan is known exhausted after a zero-timeout poll since the last callback");
	if (__VERIFIER_nondet_int()) {
		g_d.src_err = 1;
		return (-1);
	}
	if (__VERIFIER_nondet_int())
		*r = ev_src_mkrec(3);
	else
		*r = NULL;
	return (0);
}
