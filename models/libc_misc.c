/*
 * models/libc_misc.c -- assumed contracts of small libc/POSIX functions (DFCC turns a body-less function into
 * "assert(false)", so every external function needs a model).
 */
#include <stddef.h>
int nondet_int(void);

/* atexit(3): registers the handler or fails; the handler is not run inside any proof */
int
atexit(void (* f)(void))
{

	(void)f;
	return (nondet_int());
}
