#ifndef IO_STDIO_H_
#define IO_STDIO_H_
#include <stddef.h>
/* what a FILE * points to in the model */
struct verif_file { int open; int err; int eof; };
extern size_t verif_io_open;		/* ghost: streams currently open */
extern size_t verif_io_remaining;	/* ghost: bytes left in the (finite) file */
#endif
