/*
 * models/http_env.c -- executable abstract models (assumed contracts, G6) of everything http/http.c calls
 * outside itself and libc's string functions (those are in models/libc_string.c):
 *
 *   netbuf_read_init/_peek/_wait/_wait_cancel/_consume/_free   (contract of netbuf/netbuf_read.c)
 *   netbuf_write_init/_write/_free                            (contract of netbuf/netbuf_write.c)
 *   network_connect/_cancel                                   (contract of network/network_connect.c)
 *   SSL function-pointer targets, close(2), warn/warnx
 *   sscanf("HTTP/%d.%d %d ")  -- reads a NUL-terminated string, writes up to three ints, returns -1..3
 *   strtoumax                 -- C11 7.22.1.4: requires a NUL-terminated string inside the object
 *   the user's callback       -- counting stub
 *
 * Preconditions of the modelled functions are stated with __CPROVER_precondition: they are the assert()s of
 * the real functions (or the standard's "shall point to a string") and become callee-requires obligations at
 * the call sites in http.c.
 */
#include <errno.h>
#include <inttypes.h>
#include <stddef.h>
#include <stdint.h>
#include <stdlib.h>

#include "http.h"
#include "http_env.h"

#ifndef HTTP_STRMAX
#ifdef VERIF_STRMAX
#define HTTP_STRMAX VERIF_STRMAX
#else
#define HTTP_STRMAX 72
#endif
#endif
#ifndef HTTP_RBUF
#define HTTP_RBUF 8		/* size of the buffer a freshly created model reader owns */
#endif

/* locals assigned inside model loops must be address-taken under DFCC --apply-loop-contracts (cbmc 6.11) */
#ifdef VERIF_NO_DIRTY
#define VERIF_DIRTY(v) do {} while (0)
#else
#define VERIF_DIRTY(v) do { void * volatile verif_dirty_p = &(v); (void)verif_dirty_p; } while (0)
#endif

int nondet_int(void);
size_t nondet_size_t(void);
uintmax_t nondet_uintmax(void);

/* ------------------------------------------------------------------ ghost state */
struct http_ghost g_http;
struct http_ghost_in g_http_in;

/* allocation inside the environment: may fail independently of cbmc's --malloc-may-fail */
static void *
http_model_alloc(size_t n)
{
	void * p;

	if (nondet_int()) {
		g_http_envfail = 1;
		return (NULL);
	}
	if ((p = malloc(n)) == NULL)
		g_http_envfail = 1;
	return (p);
}

/* ------------------------------------------------------------------ the user's callback */
int
http_cb_stub(void * cookie, struct http_response * res)
{

	g_http_ncb++;
	g_http_cb_cookie = cookie;
	if (res == NULL) {
		g_http_cb_null = 1;
	} else {
		g_http_cb_null = 0;
		g_http_cb_status = res->status;
		g_http_cb_nheaders = res->nheaders;
		g_http_cb_bodylen = res->bodylen;
		g_http_cb_body = res->body;	/* the callback owns the body from here on */
		/*
		 * C09 / C08: the header strings handed to the caller are valid strings; the name holds no ':', the value
		 * neither starts nor ends with optional white space (one arbitrary header, chosen by the harness).
		 */
		if (g_http_in.check_headers && g_http_in.hi < res->nheaders) {
			const char * n = res->headers[g_http_in.hi].header;
			const char * v = res->headers[g_http_in.hi].value;
			size_t k, nl = 0, vl = 0;
			int n_end = 0, v_end = 0, colon = 0;

			for (k = 0; k < HTTP_STRMAX; k++) {
				if (!n_end && n[k] == '\0') { n_end = 1; nl = k; }
				if (!n_end && n[k] == ':') colon = 1;
				if (!v_end && v[k] == '\0') { v_end = 1; vl = k; }
			}
			__CPROVER_assert(n_end && v_end, "C09: header name and value are NUL-terminated strings");
			__CPROVER_assert(!colon, "C09: header name ends at the first ':'");
			__CPROVER_assert(vl == 0 || (v[0] != ' ' && v[0] != '\t' && v[vl - 1] != ' ' && v[vl - 1] != '\t'),
			    "C09: optional white space around the header value is trimmed");
			__CPROVER_assert(v >= n + nl, "C09: the value follows the name");
			(void)nl;
		}
	}
	return (g_http_cb_rv);
}

/* ------------------------------------------------------------------ buffered reader */
struct netbuf_read *
netbuf_read_init(int s)
{
	struct netbuf_read * R;

	(void)s;
	if ((R = http_model_alloc(sizeof(struct netbuf_read))) == NULL)
		return (NULL);
	if ((R->buf = http_model_alloc(HTTP_RBUF)) == NULL) {
		free(R);
		return (NULL);
	}
	R->buflen = HTTP_RBUF;
	R->bufpos = 0;
	R->datalen = 0;
	R->waiting = 0;
	R->wait_cb = NULL;
	R->wait_cookie = NULL;
	R->wait_len = 0;
	return (R);
}

void
netbuf_read_peek(struct netbuf_read * R, uint8_t ** data, size_t * datalen)
{

	/* Exactly the real function: an interior pointer into the reader's buffer. */
	*data = &R->buf[R->bufpos];
	*datalen = R->datalen - R->bufpos;
}

int
netbuf_read_wait(struct netbuf_read * R, size_t len, int (* callback)(void *, int), void * cookie)
{

	__CPROVER_precondition(R->waiting == 0, "netbuf_read_wait: no read may be in progress (assert in netbuf_read.c)");
	R->wait_cb = callback;
	R->wait_cookie = cookie;
	R->wait_len = len;
	/* events_immediate_register / buffer resize / network_read may fail (allocation). */
	if (nondet_int()) {
		g_http_envfail = 1;
		return (-1);
	}
	R->waiting = 1;
	return (0);
}

void
netbuf_read_wait_cancel(struct netbuf_read * R)
{

	g_http_nwaitcancel++;
	R->waiting = 0;
}

void
netbuf_read_consume(struct netbuf_read * R, size_t len)
{

	__CPROVER_precondition(R->datalen - R->bufpos >= len,
	    "netbuf_read_consume: cannot consume more than is buffered (assert in netbuf_read.c)");
	R->bufpos += len;
}

void
netbuf_read_free(struct netbuf_read * R)
{

	if (R == NULL)
		return;
	__CPROVER_precondition(R->waiting == 0, "netbuf_read_free: reader must not be busy (assert in netbuf_read.c)");
	g_http_nrfree++;
	free(R->buf);
	free(R);
}

/* ------------------------------------------------------------------ buffered writer */
struct netbuf_write *
netbuf_write_init(int s, int (* fail_callback)(void *), void * fail_cookie)
{
	struct netbuf_write * W;

	(void)s;
	if ((W = http_model_alloc(sizeof(struct netbuf_write))) == NULL)
		return (NULL);
	W->failed = 0;
	W->fail_cb = fail_callback;
	W->fail_cookie = fail_cookie;
	return (W);
}

int
netbuf_write_write(struct netbuf_write * W, const uint8_t * buf, size_t buflen)
{
	size_t k;

	(void)W;
	/* The real function copies buf[0 .. buflen) into its queue: the bytes must be readable. */
	__CPROVER_precondition(buflen == 0 || __CPROVER_r_ok(buf, buflen), "netbuf_write_write: buf[0..buflen) readable");
	if (g_http_nwrite < 2) {
		g_http_wbuf[g_http_nwrite] = buf;
		g_http_wlen[g_http_nwrite] = buflen;
	}
	g_http_nwrite++;
	(void)k;
	/* netbuf_write_reserve may fail to allocate. */
	if (nondet_int()) {
		g_http_envfail = 1;
		return (-1);
	}
	return (0);
}

void
netbuf_write_free(struct netbuf_write * W)
{

	if (W == NULL)
		return;
	g_http_nwfree++;
	free(W);
}

/* ------------------------------------------------------------------ SSL stand-ins (targets of the four function pointers) */
struct network_ssl_ctx {
	int s;
};

struct network_ssl_ctx *
http_model_ssl_open(int s, const char * host)
{
	struct network_ssl_ctx * ctx;

	(void)host;
	if ((ctx = http_model_alloc(sizeof(struct network_ssl_ctx))) == NULL)
		return (NULL);
	ctx->s = s;
	return (ctx);
}

void
http_model_ssl_close(struct network_ssl_ctx * ctx)
{

	g_http_nsslclose++;
	free(ctx);
}

struct netbuf_read *
http_model_ssl_read_init(struct network_ssl_ctx * ctx)
{

	return (netbuf_read_init(ctx->s));
}

struct netbuf_write *
http_model_ssl_write_init(struct network_ssl_ctx * ctx, int (* fail_callback)(void *), void * fail_cookie)
{

	return (netbuf_write_init(ctx->s, fail_callback, fail_cookie));
}

/* ------------------------------------------------------------------ network_connect */
struct sock_addr;

void *
network_connect(struct sock_addr * const * sas, int (* callback)(void *, int), void * cookie)
{

	(void)sas; (void)callback; (void)cookie;
	/* a connect cookie, or NULL on (allocation / socket) failure */
	return (http_model_alloc(1));
}

void
network_connect_cancel(void * cookie)
{

	g_http_nconncancel++;
	free(cookie);
}

/* ------------------------------------------------------------------ POSIX / libcperciva odds and ends */
int
close(int fd)
{

	g_http_nclose++;
	g_http_closed_fd = fd;
	return (nondet_int() ? -1 : 0);
}

void
libcperciva_warn(const char * fmt, ...)
{

	(void)fmt;
}

void
libcperciva_warnx(const char * fmt, ...)
{

	(void)fmt;
}

/* ------------------------------------------------------------------ sscanf: three %d conversions */
static void
http_model_string_required(const char * s, const char * what)
{
	size_t i;

	VERIF_DIRTY(i);
	(void)what;
	for (i = 0; i < HTTP_STRMAX; i++) {
		__CPROVER_precondition(__CPROVER_r_ok(s + i, 1),
		    "string argument must be NUL-terminated inside its object");
		__CPROVER_assume(__CPROVER_r_ok(s + i, 1));
		if (s[i] == '\0')
			return;
	}
	__CPROVER_assert(0, "MODEL-BOUND string scan reached HTTP_STRMAX");
	__CPROVER_assume(0);
}

int
http_model_sscanf3(const char * s, int * a, int * b, int * c)
{
	int k = nondet_int();

	http_model_string_required(s, "sscanf");
	__CPROVER_assume(-1 <= k && k <= 3);
	if (k >= 1)
		*a = nondet_int();
	if (k >= 2)
		*b = nondet_int();
	if (k >= 3)
		*c = nondet_int();
	g_http.sscanf_k = k;
	if (k >= 3)
		g_http.sscanf_c = *c;
	return (k);
}

/* ------------------------------------------------------------------ strtoumax, C11 7.22.1.4 (bases 10 and 16 as used by http.c) */
static int
http_model_digit(char c, int base)
{
	int d;

	if (c >= '0' && c <= '9')
		d = c - '0';
	else if (c >= 'a' && c <= 'z')
		d = c - 'a' + 10;
	else if (c >= 'A' && c <= 'Z')
		d = c - 'A' + 10;
	else
		return (-1);
	return (d < base ? d : -1);
}

static char
strtoumax_read(const char * p)
{

	__CPROVER_precondition(__CPROVER_r_ok(p, 1),
	    "strtoumax: nptr must point to a NUL-terminated string inside its object (C11 7.22.1.4)");
	__CPROVER_assume(__CPROVER_r_ok(p, 1));	/* behaviour past a violated precondition is not explored */
	return (*p);
}
#define HTTP_RD(p) strtoumax_read(p)

uintmax_t
strtoumax(const char * nptr, char ** endptr, int base)
{
	size_t i = 0, k;
	int neg = 0, any = 0, ovf = 0;
	uintmax_t val = 0;
	char c;

	VERIF_DIRTY(i); VERIF_DIRTY(k); VERIF_DIRTY(any); VERIF_DIRTY(ovf); VERIF_DIRTY(val); VERIF_DIRTY(c);
	__CPROVER_precondition(base == 10 || base == 16, "strtoumax model: base 10 or 16");

	/* white space (isspace in the "C" locale) */
	for (k = 0; k < HTTP_STRMAX; k++) {
		c = HTTP_RD(nptr + i);
		if (!(c == ' ' || (c >= '\t' && c <= '\r')))
			break;
		i++;
	}
	if (k == HTTP_STRMAX) {
		__CPROVER_assert(0, "MODEL-BOUND strtoumax scan reached HTTP_STRMAX");
		__CPROVER_assume(0);
	}
	/* sign */
	c = HTTP_RD(nptr + i);
	if (c == '+' || c == '-') {
		neg = (c == '-');
		i++;
	}
	/* optional 0x for base 16, taken only if a hex digit follows */
	if (base == 16) {
		c = HTTP_RD(nptr + i);
		if (c == '0') {
			char x = HTTP_RD(nptr + i + 1);
			if (x == 'x' || x == 'X') {
				char y = HTTP_RD(nptr + i + 2);
				if (http_model_digit(y, 16) >= 0)
					i += 2;
			}
		}
	}
	/* digits */
	for (k = 0; k < HTTP_STRMAX; k++) {
		int d;

		c = HTTP_RD(nptr + i);
		d = http_model_digit(c, base);
		if (d < 0)
			break;
		any = 1;
		if (val > (UINTMAX_MAX - (uintmax_t)d) / (uintmax_t)base)
			ovf = 1;
		else
			val = val * (uintmax_t)base + (uintmax_t)d;
		i++;
	}
	if (k == HTTP_STRMAX) {
		__CPROVER_assert(0, "MODEL-BOUND strtoumax scan reached HTTP_STRMAX");
		__CPROVER_assume(0);
	}
	if (!any) {
		if (endptr != NULL)
			*endptr = (char *)(uintptr_t)nptr;
		return (0);
	}
	if (endptr != NULL)
		*endptr = (char *)(uintptr_t)(nptr + i);
	if (ovf) {
		errno = ERANGE;
		return (UINTMAX_MAX);
	}
	return (neg ? (uintmax_t)0 - val : val);
}
