/*
 * models/bn_model.c -- see bn_model.h.  Used only in groups built WITHOUT --apply-loop-contracts
 * (crypto/crypto_dh.c has no loops); the loops below have bounds that are compile-time constants at every
 * call site (len = 32, 33, 256; BN_OUT_BYTES), so CBMC unwinds them completely.
 */
#include <stdlib.h>
#include <string.h>
#include "bn_model.h"

struct bn_state g_bn;

int nondet_int(void);
bn_val_t nondet_bn_val(void);

#define BN_BOUND(c, what) do { __CPROVER_assert(c, "MODEL-BOUND bn_model: " what); __CPROVER_assume(c); } while (0)
#define BN_CAP	((bn_val_t)1 << 2100)		/* operands stay far below the vector width */
#define BN_LIVE(a, who) __CPROVER_assert((a) != NULL && g_bn.alive[(a)->id], who ": operand is a live BIGNUM (no use after free)")

/*
 * Failure schedule.  g_bn.fail_at == BN_FAIL_ANY: every constructor / operation / entropy call fails or not,
 * independently (fully nondeterministic).  g_bn.fail_at == BN_FAIL_NONE: none fails.  g_bn.fail_at == k >= 0:
 * the k-th such call (counted by g_bn.opcount) is the FIRST one to fail, later ones fail or not arbitrarily.
 * The union over k of the scheduled behaviours is exactly the fully nondeterministic behaviour; a harness that
 * fixes k per instance (matrix) therefore splits the proof by the position of the first failure -- a complete
 * case split provided the BN_FAIL_NONE instance also shows opcount <= number of instances (it asserts that).
 * It keeps each instance a single path up to the failure, which is what makes 2112-bit values affordable.
 */
int
bn_sched_fail(void)
{
	int k = g_bn.opcount++;

	if (g_bn.fail_at == BN_FAIL_ANY)
		return (nondet_int() != 0);
	if (g_bn.fail_at == BN_FAIL_NONE || k < g_bn.fail_at)
		return (0);
	if (k == g_bn.fail_at)
		return (1);
	return (nondet_int() != 0);
}

static int
bn_mayfail(void)
{

	if (bn_sched_fail()) {
		g_bn.nfail++;
		return (1);
	}
	return (0);
}

BIGNUM *
BN_new(void)
{
	int k;

	if (bn_mayfail())
		return (NULL);
	BN_BOUND(g_bn.nalloc >= 0 && g_bn.nalloc < BN_MAXOBJ, "BIGNUM table full");
	k = g_bn.nalloc++;
	g_bn.obj[k].id = k;
	g_bn.v[k] = 0;
	g_bn.neg[k] = 0;
	g_bn.tainted[k] = 0;
	g_bn.alive[k] = 1;
	g_bn.live++;
	return (&g_bn.obj[k]);
}

BN_CTX *
BN_CTX_new(void)
{

	if (bn_mayfail())
		return (NULL);
	BN_BOUND(!g_bn.ctx_alive, "one BN_CTX at a time");
	g_bn.ctx_alive = 1;
	g_bn.live++;
	return (&g_bn.ctx);
}

void
BN_CTX_free(BN_CTX * c)
{

	if (c == NULL)
		return;
	__CPROVER_assert(c == &g_bn.ctx && g_bn.ctx_alive, "BN_CTX_free: a live BN_CTX (no double free)");
	g_bn.ctx_alive = 0;
	g_bn.live--;
}

void
BN_free(BIGNUM * a)
{

	if (a == NULL)
		return;
	BN_LIVE(a, "BN_free");
	/* C20: memory that held the private exponent or the blinding value goes back to the allocator unwiped */
	if (g_bn.tainted[a->id])
		g_bn.dirty_free++;
	__CPROVER_assert(!g_bn.tainted[a->id], "C20: BN_free() on a bignum derived from the private or blinding value (BN_clear_free required)");
	g_bn.alive[a->id] = 0;
	g_bn.live--;
}

void
BN_clear_free(BIGNUM * a)
{

	if (a == NULL)
		return;
	BN_LIVE(a, "BN_clear_free");
	/* assumed: OpenSSL zeroes the limbs before releasing them */
	g_bn.v[a->id] = 0;
	g_bn.tainted[a->id] = 0;
	g_bn.alive[a->id] = 0;
	g_bn.live--;
}

BIGNUM *
BN_bin2bn(const unsigned char * s, int len, BIGNUM * ret)
{
	bn_val_t v = 0;
	int i;

	__CPROVER_assert(len >= 0 && len <= 256, "MODEL-BOUND bn_model: BN_bin2bn length");
	if (ret == NULL) {
		if ((ret = BN_new()) == NULL)
			return (NULL);
	} else {
		BN_LIVE(ret, "BN_bin2bn");
		if (bn_mayfail())
			return (NULL);
	}
	for (i = 0; i < len; i++)
		v = (v << 8) | (bn_val_t)s[i];
	g_bn.v[ret->id] = v;
	g_bn.neg[ret->id] = 0;
	g_bn.tainted[ret->id] = (s == g_bn.secret_priv || s == g_bn.secret_rand);
	return (ret);
}

int
BN_set_word(BIGNUM * a, BN_ULONG w)
{

	BN_LIVE(a, "BN_set_word");
	if (bn_mayfail())
		return (0);
	g_bn.v[a->id] = (bn_val_t)w;
	g_bn.neg[a->id] = 0;
	g_bn.tainted[a->id] = 0;
	return (1);
}

int
BN_add(BIGNUM * r, const BIGNUM * a, const BIGNUM * b)
{
	bn_val_t av, bv;
	int t;

	BN_LIVE(r, "BN_add"); BN_LIVE(a, "BN_add"); BN_LIVE(b, "BN_add");
	av = BN_VAL(a); bv = BN_VAL(b);
	t = g_bn.tainted[a->id] || g_bn.tainted[b->id];
	BN_BOUND(!g_bn.neg[a->id] && !g_bn.neg[b->id] && av < BN_CAP && bv < BN_CAP, "BN_add operands non-negative and in range");
	if (bn_mayfail())
		return (0);
	g_bn.v[r->id] = av + bv;
	g_bn.neg[r->id] = 0;
	g_bn.tainted[r->id] = t;
	return (1);
}

int
BN_sub(BIGNUM * r, const BIGNUM * a, const BIGNUM * b)
{
	bn_val_t av, bv;
	int t;

	BN_LIVE(r, "BN_sub"); BN_LIVE(a, "BN_sub"); BN_LIVE(b, "BN_sub");
	av = BN_VAL(a); bv = BN_VAL(b);
	t = g_bn.tainted[a->id] || g_bn.tainted[b->id];
	BN_BOUND(!g_bn.neg[a->id] && !g_bn.neg[b->id] && av < BN_CAP && bv < BN_CAP, "BN_sub operands non-negative and in range");
	if (bn_mayfail())
		return (0);
	if (av >= bv) {
		g_bn.v[r->id] = av - bv;
		g_bn.neg[r->id] = 0;
	} else {
		g_bn.v[r->id] = bv - av;
		g_bn.neg[r->id] = 1;
	}
	g_bn.tainted[r->id] = t;
	return (1);
}

static bn_val_t
bn_abstract(int op, const BIGNUM * a, const BIGNUM * b, const BIGNUM * m)
{
	bn_val_t out = nondet_bn_val();
	size_t k = g_bn.ncalls;

	BN_BOUND(k < BN_LOGN, "log of abstract operations full");
	BN_BOUND(!g_bn.neg[m->id] && BN_VAL(m) != 0, "modulus positive");
	__CPROVER_assume(out < BN_VAL(m));
	g_bn.log[k].op = op;
	g_bn.log[k].a = BN_VAL(a);
	g_bn.log[k].b = BN_VAL(b);
	g_bn.log[k].m = BN_VAL(m);
	g_bn.log[k].out = out;
	g_bn.ncalls = k + 1;
	return (out);
}

int
BN_mod_exp(BIGNUM * r, const BIGNUM * a, const BIGNUM * p, const BIGNUM * m, BN_CTX * ctx)
{
	int t;

	BN_LIVE(r, "BN_mod_exp"); BN_LIVE(a, "BN_mod_exp"); BN_LIVE(p, "BN_mod_exp"); BN_LIVE(m, "BN_mod_exp");
	__CPROVER_assert(ctx == &g_bn.ctx && g_bn.ctx_alive, "BN_mod_exp: a live BN_CTX is supplied");
	/* obligations of the caller (BN_mod_exp(3): negative exponents are an error) */
	__CPROVER_assert(!g_bn.neg[p->id], "C10: the exponent handed to BN_mod_exp is non-negative");
	__CPROVER_assert(!g_bn.neg[a->id], "C10: the base handed to BN_mod_exp is non-negative");
	t = g_bn.tainted[a->id] || g_bn.tainted[p->id] || g_bn.tainted[m->id];
	if (bn_mayfail()) {
		g_bn.tainted[r->id] = g_bn.tainted[r->id] || t;
		return (0);
	}
	g_bn.v[r->id] = bn_abstract(BN_OP_MODEXP, a, p, m);
	g_bn.neg[r->id] = 0;
	g_bn.tainted[r->id] = t;
	return (1);
}

int
BN_mod_mul(BIGNUM * r, const BIGNUM * a, const BIGNUM * b, const BIGNUM * m, BN_CTX * ctx)
{
	int t;

	BN_LIVE(r, "BN_mod_mul"); BN_LIVE(a, "BN_mod_mul"); BN_LIVE(b, "BN_mod_mul"); BN_LIVE(m, "BN_mod_mul");
	__CPROVER_assert(ctx == &g_bn.ctx && g_bn.ctx_alive, "BN_mod_mul: a live BN_CTX is supplied");
	__CPROVER_assert(!g_bn.neg[a->id] && !g_bn.neg[b->id], "C10: the factors handed to BN_mod_mul are non-negative");
	t = g_bn.tainted[a->id] || g_bn.tainted[b->id] || g_bn.tainted[m->id];
	if (bn_mayfail()) {
		g_bn.tainted[r->id] = g_bn.tainted[r->id] || t;
		return (0);
	}
	g_bn.v[r->id] = bn_abstract(BN_OP_MODMUL, a, b, m);
	g_bn.neg[r->id] = 0;
	g_bn.tainted[r->id] = t;
	return (1);
}

/*
 * exact, stated declaratively (BN_num_bits(3): "if 2^(n-1) <= a < 2^n, BN_num_bits returns n"; 0 for a == 0).
 * With by[k] = byte k of the value (k = 0 least significant): the byte length nby is the unique number with
 * by[k] == 0 for all k >= nby and by[nby - 1] != 0 (nby == 0 for the value 0); the result is
 * 8 * (nby - 1) + bit length of by[nby - 1].  Only constant shifts are used (cheap for the verifier).
 * The DH code asks only for results of BN_mod_mul, below the 2048-bit modulus (MODEL-BOUND otherwise).
 */
#define BN_OUT_BYTES 257
int
BN_num_bits(const BIGNUM * a)
{
	bn_val_t v;
	uint8_t by[BN_OUT_BYTES], topbyte;
	int nby = nondet_int();
	int k, top = 0, bits;

	BN_LIVE(a, "BN_num_bits");
	v = BN_VAL(a);
	BN_BOUND(v < ((bn_val_t)1 << (8 * BN_OUT_BYTES)), "BN_num_bits operand below 2^2056");
	/* a function of the value: the same value gets the same answer as last time (spares the verifier a
	   uniqueness proof over 2112 bits when the caller and BN_bn2bin both ask) */
	if (g_bn.nb_valid && v == g_bn.nb_val)
		return (g_bn.nb_bits);
	__CPROVER_assume(nby >= 0 && nby <= BN_OUT_BYTES);
	for (k = 0; k < BN_OUT_BYTES; k++) {
		by[k] = (uint8_t)((v >> (8 * k)) & 0xff);
		__CPROVER_assume(k < nby || by[k] == 0);
	}
	if (nby == 0)
		bits = 0;
	else {
		topbyte = by[nby - 1];
		__CPROVER_assume(topbyte != 0);
		for (k = 0; k < 8; k++)
			if ((topbyte >> k) & 1)
				top = k + 1;
		bits = 8 * (nby - 1) + top;
	}
	g_bn.nb_valid = 1;
	g_bn.nb_val = v;
	g_bn.nb_bits = bits;
	return (bits);
}

/*
 * exact: big-endian magnitude in exactly n = BN_num_bytes(a) bytes at to[0 .. n), returns n.
 * Byte j of the value (j = 0 least significant) goes to to[n - 1 - j].  Two equivalent ways of storing them:
 *  - window form (default), for a destination whose 256 bytes ENDING at to + n are all inside the object (a
 *    MODEL-BOUND assertion checks that): the window is loaded, bytes 256 - n .. 255 of the copy are replaced
 *    (position 255 - j is a constant), and the window is stored back in one assignment -- the bytes in front of
 *    `to` are rewritten with their own values;
 *  - general form (-DBN_BN2BIN_GENERAL): n guarded single-byte stores.
 * The window form exists only because 257 stores at symbolic positions, each frame-checked by DFCC, cost
 * millions of SAT variables; the memory afterwards is the same in both forms.
 */
struct bn_win256 {
	uint8_t b[256];
};

int
BN_bn2bin(const BIGNUM * a, unsigned char * to)
{
	int n = BN_num_bytes(a);
	bn_val_t v = BN_VAL(a);
	int j;

#ifndef BN_BN2BIN_GENERAL
	/* the DH code always stores at the end of a 256-byte buffer: only the window form is kept in the formula */
	/* memory safety of the call itself (a genuine obligation on the caller, not a model limit) */
	__CPROVER_assert(__CPROVER_POINTER_OFFSET(to) + (size_t)n <= __CPROVER_OBJECT_SIZE(to),
	    "BN_bn2bin: the BN_num_bytes(a) bytes written at `to` stay inside the destination object");
	BN_BOUND(n <= 256 && __CPROVER_POINTER_OFFSET(to) + (size_t)n >= 256 &&
	    __CPROVER_POINTER_OFFSET(to) + (size_t)n <= __CPROVER_OBJECT_SIZE(to), "BN_bn2bin destination ends a 256-byte window");
	{
		struct bn_win256 * win = (struct bn_win256 *)(to + n - 256);
		struct bn_win256 w = *win;

		for (j = 0; j < 256; j++)
			if (j < n)
				w.b[255 - j] = (uint8_t)((v >> (8 * j)) & 0xff);
		*win = w;
	}
#else
	for (j = 0; j < BN_OUT_BYTES; j++)
		if (j < n)
			to[n - 1 - j] = (uint8_t)((v >> (8 * j)) & 0xff);
#endif
	return (n);
}

unsigned long
ERR_get_error(void)
{
	unsigned long e;	/* arbitrary */

	return (e);
}

char *
ERR_error_string(unsigned long e, char * buf)
{

	(void)e;
	(void)buf;
	return ((char *)(uintptr_t)"E");
}

/* diagnostics: no effect on anything the contracts talk about */
void
libcperciva_warn(const char * fmt, ...)
{

	(void)fmt;
}

void
libcperciva_warnx(const char * fmt, ...)
{

	(void)fmt;
}
