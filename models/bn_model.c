/*
 * models/bn_model.c -- see bn_model.h.  Used only in groups built WITHOUT --apply-loop-contracts
 * (crypto/crypto_dh.c has no loops); the loops below have bounds that are compile-time constants at every
 * call site (len = 32, 33, 256; BN_VAL_BYTES), so CBMC unwinds them completely.
 */
#include <stdlib.h>
#include <string.h>
#include "bn_model.h"

struct bn_state g_bn;
const uint8_t * g_bn_secret_priv;
const uint8_t * g_bn_secret_rand;
bn_val_t g_dh_rand_val;
size_t g_dh_rand_fail;
size_t g_dh_rand_calls;

int nondet_int(void);
bn_val_t nondet_bn_val(void);

#define BN_BOUND(c, what) do { __CPROVER_assert(c, "MODEL-BOUND bn_model: " what); __CPROVER_assume(c); } while (0)
#define BN_CAP	((bn_val_t)1 << 2100)		/* operands stay far below the vector width */

static int
bn_mayfail(void)
{

	if (nondet_int()) {
		g_bn.nfail++;
		return (1);
	}
	return (0);
}

BIGNUM *
BN_new(void)
{
	BIGNUM * a;

	if (bn_mayfail())
		return (NULL);
	a = malloc(sizeof(BIGNUM));
	__CPROVER_assume(a != NULL);
	a->v = 0;
	a->neg = 0;
	a->tainted = 0;
	g_bn.live++;
	return (a);
}

BN_CTX *
BN_CTX_new(void)
{
	BN_CTX * c;

	if (bn_mayfail())
		return (NULL);
	c = malloc(sizeof(BN_CTX));
	__CPROVER_assume(c != NULL);
	g_bn.live++;
	return (c);
}

void
BN_CTX_free(BN_CTX * c)
{

	if (c == NULL)
		return;
	g_bn.live--;
	free(c);
}

void
BN_free(BIGNUM * a)
{

	if (a == NULL)
		return;
	/* C20: memory that held the private exponent or the blinding value goes back to the allocator unwiped */
	if (a->tainted)
		g_bn.dirty_free++;
	__CPROVER_assert(!a->tainted, "C20: BN_free() on a bignum derived from the private or blinding value (BN_clear_free required)");
	g_bn.live--;
	free(a);
}

void
BN_clear_free(BIGNUM * a)
{

	if (a == NULL)
		return;
	/* assumed: OpenSSL zeroes the limbs before releasing them */
	a->v = 0;
	a->neg = 0;
	a->tainted = 0;
	g_bn.live--;
	free(a);
}

BIGNUM *
BN_bin2bn(const unsigned char * s, int len, BIGNUM * ret)
{
	bn_val_t v = 0;
	int i;

	__CPROVER_assert(len >= 0 && len <= BN_VAL_BYTES - 8, "MODEL-BOUND bn_model: BN_bin2bn length");
	if (ret == NULL) {
		if ((ret = BN_new()) == NULL)
			return (NULL);
	} else if (bn_mayfail())
		return (NULL);
	for (i = 0; i < len; i++)
		v = (v << 8) | (bn_val_t)s[i];
	ret->v = v;
	ret->neg = 0;
	ret->tainted = (s == g_bn_secret_priv || s == g_bn_secret_rand);
	return (ret);
}

int
BN_set_word(BIGNUM * a, BN_ULONG w)
{

	if (bn_mayfail())
		return (0);
	a->v = (bn_val_t)w;
	a->neg = 0;
	a->tainted = 0;
	return (1);
}

int
BN_add(BIGNUM * r, const BIGNUM * a, const BIGNUM * b)
{
	bn_val_t av = a->v, bv = b->v;
	int t = a->tainted || b->tainted;

	BN_BOUND(!a->neg && !b->neg && av < BN_CAP && bv < BN_CAP, "BN_add operands non-negative and in range");
	if (bn_mayfail())
		return (0);
	r->v = av + bv;
	r->neg = 0;
	r->tainted = t;
	return (1);
}

int
BN_sub(BIGNUM * r, const BIGNUM * a, const BIGNUM * b)
{
	bn_val_t av = a->v, bv = b->v;
	int t = a->tainted || b->tainted;

	BN_BOUND(!a->neg && !b->neg && av < BN_CAP && bv < BN_CAP, "BN_sub operands non-negative and in range");
	if (bn_mayfail())
		return (0);
	if (av >= bv) {
		r->v = av - bv;
		r->neg = 0;
	} else {
		r->v = bv - av;
		r->neg = 1;
	}
	r->tainted = t;
	return (1);
}

static bn_val_t
bn_abstract(int op, const BIGNUM * a, const BIGNUM * b, const BIGNUM * m)
{
	bn_val_t out = nondet_bn_val();

	BN_BOUND(g_bn.ncalls < BN_LOGN, "log of abstract operations full");
	BN_BOUND(!m->neg && m->v != 0, "modulus positive");
	__CPROVER_assume(out < m->v);
	g_bn.log[g_bn.ncalls].op = op;
	g_bn.log[g_bn.ncalls].a = a->v;
	g_bn.log[g_bn.ncalls].b = b->v;
	g_bn.log[g_bn.ncalls].m = m->v;
	g_bn.log[g_bn.ncalls].out = out;
	g_bn.ncalls++;
	return (out);
}

int
BN_mod_exp(BIGNUM * r, const BIGNUM * a, const BIGNUM * p, const BIGNUM * m, BN_CTX * ctx)
{
	int t = a->tainted || p->tainted || m->tainted;

	__CPROVER_assert(ctx != NULL, "BN_mod_exp: a BN_CTX is supplied");
	/* obligations of the caller (BN_mod_exp(3): negative exponents are an error) */
	__CPROVER_assert(!p->neg, "C10: the exponent handed to BN_mod_exp is non-negative");
	__CPROVER_assert(!a->neg, "C10: the base handed to BN_mod_exp is non-negative");
	if (bn_mayfail()) {
		r->tainted = r->tainted || t;
		return (0);
	}
	r->v = bn_abstract(BN_OP_MODEXP, a, p, m);
	r->neg = 0;
	r->tainted = t;
	return (1);
}

int
BN_mod_mul(BIGNUM * r, const BIGNUM * a, const BIGNUM * b, const BIGNUM * m, BN_CTX * ctx)
{
	int t = a->tainted || b->tainted || m->tainted;

	__CPROVER_assert(ctx != NULL, "BN_mod_mul: a BN_CTX is supplied");
	__CPROVER_assert(!a->neg && !b->neg, "C10: the factors handed to BN_mod_mul are non-negative");
	if (bn_mayfail()) {
		r->tainted = r->tainted || t;
		return (0);
	}
	r->v = bn_abstract(BN_OP_MODMUL, a, b, m);
	r->neg = 0;
	r->tainted = t;
	return (1);
}

/*
 * exact: position of the highest set bit + 1 (0 for the value 0).  The DH code asks only for results of
 * BN_mod_mul, which are below the 2048-bit modulus; BN_OUT_BYTES bounds the scan (MODEL-BOUND otherwise).
 */
#define BN_OUT_BYTES 257
int
BN_num_bits(const BIGNUM * a)
{
	int i, bits = 0;

	BN_BOUND(a->v < ((bn_val_t)1 << (8 * BN_OUT_BYTES)), "BN_num_bits operand below 2^2056");
	for (i = 0; i < 0/*EXPERIMENT*/; i++) {
		uint8_t byte = (uint8_t)((a->v >> (8 * i)) & 0xff);
		if (byte != 0) {
			int top = 0, k;
			for (k = 0; k < 8; k++)
				if ((byte >> k) & 1)
					top = k + 1;
			bits = 8 * i + top;
		}
	}
	return (bits);
}

/* exact: big-endian magnitude in exactly BN_num_bytes(a) bytes, returns that count */
int
BN_bn2bin(const BIGNUM * a, unsigned char * to)
{
	int n = BN_num_bytes(a);
	uint8_t be[BN_OUT_BYTES];	/* the value, most significant byte first, in BN_OUT_BYTES bytes */
	int j;

	for (j = 0; j < BN_OUT_BYTES; j++)
		be[BN_OUT_BYTES - 1 - j] = (uint8_t)((a->v >> (8 * j)) & 0xff);
	/*EXPERIMENT*/
	return (n);
}

unsigned long
ERR_get_error(void)
{
	unsigned long e;	/* arbitrary */

	return (e);
}

char *
ERR_error_string(unsigned long e, char * buf)
{

	(void)e;
	(void)buf;
	return ((char *)(uintptr_t)"E");
}

/* diagnostics: no effect on anything the contracts talk about */
void
libcperciva_warn(const char * fmt, ...)
{

	(void)fmt;
}

void
libcperciva_warnx(const char * fmt, ...)
{

	(void)fmt;
}
