/*
 * models/aws_hash.h -- ghost state of the abstract SHA256_Buf / HMAC_SHA256_Buf used by the C19 proofs.
 *
 * G2 (lockstep trace abstraction, DESIGN 2.3): the two hash primitives are uninterpreted leaves.  The k-th
 * call (k = g_aws_n at the time of the call) records its kind, the key bytes and the message bytes (and the
 * addresses they were read from) in g_aws_log[k] and returns 32 fresh nondeterministic bytes, also recorded.  Whatever the real functions are
 * (their conformance to FIPS 180-4 / RFC 2104 is C01's business), they are one of the behaviours of this model,
 * so a statement about the *trace* of calls ("the implementation hashed exactly these byte strings, in this
 * order, chaining these outputs") holds for the real functions.
 */
#ifndef AWS_HASH_H_
#define AWS_HASH_H_
#include <stddef.h>
#include <stdint.h>

#ifndef AWS_LOG_N
#define AWS_LOG_N 8		/* calls that can be logged (a front end makes 7) */
#endif
#ifndef AWS_MMAX
#define AWS_MMAX 32		/* longest message that can be logged (>= AWS_ABSMAX, >= the longest input) */
#endif
#ifndef AWS_KMAX
#define AWS_KMAX 32		/* longest key that can be logged ("AWS4" || secret, or a 32-byte MAC) */
#endif

#define AWS_K_SHA256	1
#define AWS_K_HMAC	2

struct aws_hcall {
	int kind;			/* AWS_K_SHA256 | AWS_K_HMAC */
	const void * kptr;		/* HMAC only: where the key was read from (identity only) */
	size_t klen;
	uint8_t key[AWS_KMAX];
	const void * mptr;		/* where the message was read from (identity only) */
	size_t mlen;
	uint8_t msg[AWS_MMAX];
	uint8_t out[32];		/* the digest that was returned */
};

extern struct aws_hcall g_aws_log[AWS_LOG_N];
extern size_t g_aws_n;			/* number of hash calls made so far */

#endif /* !AWS_HASH_H_ */
