/*
 * models/net_os.c -- assumed contracts (G6, POSIX.1-2008) of the kernel interface used by network/*.c and
 * netbuf_write.c, written as nondeterministic C: recv, send, accept, getsockopt(SO_ERROR), setsockopt, close;
 * plus the model of util/sock.c:sock_connect_bind_nb (socket+fcntl+connect: outside this slice) and of the
 * warn functions.  Every answer the standard allows is possible in every call ("however the kernel fragments
 * the transfer"): -1 with an arbitrary errno, 0 (recv only: end of stream), or any partial length.
 *
 * Ghost peer stream (net_ghost.h): recv delivers "the next n bytes of the stream" -- all bytes arbitrary, the one
 * at the ghost position g_peer_idx is g_peer_byte; send records the byte accepted at the ghost position.
 * Since g_peer_idx and g_peer_byte are arbitrary, a statement proved about them holds for every stream position.
 */
#include <sys/types.h>
#include <sys/socket.h>

#include <errno.h>
#include <limits.h>
#include <stddef.h>
#include <stdint.h>

#include "net_ghost.h"

int nondet_int(void);
size_t nondet_size_t(void);

size_t g_peer_pos;
size_t g_peer_idx;
uint8_t g_peer_byte;
unsigned g_recv_calls;
int g_recv_fd;
int g_recv_flags;
int g_recv_last;
int g_recv_errno;
size_t g_sent_pos;
int g_sent_seen;
uint8_t g_sent_byte;
unsigned g_sent_dup;
unsigned g_send_calls;
int g_send_fd;
int g_send_flags;
int g_send_last;
int g_send_errno;
int g_send_allflags_ok = 1;
unsigned g_accept_calls;
int g_accept_fd;
int g_accept_ret;
int g_accept_errno;
struct sock_addr * const * g_conn_base;
const struct sock_addr * g_conn_sab;
size_t g_conn_next;
int g_conn_sock = -1;
int g_conn_sock_open;
unsigned g_close_calls;
unsigned g_sockopt_calls;
int g_sockopt_err;
unsigned g_setsockopt_calls;

/*
 * recv: "Upon successful completion, recv() shall return the length of the message in bytes.  If no messages are
 * available to be received and the peer has performed an orderly shutdown, recv() shall return 0.  Otherwise, -1
 * shall be returned and errno set."  At most `length` bytes are stored, from the start of `buffer`.
 */
ssize_t
recv(int fd, void * buf, size_t len, int flags)
{
	int kind = nondet_int();
	size_t n = nondet_size_t();
	uint8_t * b = buf;

	__CPROVER_assert(len == 0 || __CPROVER_w_ok(buf, len), "recv: buffer writable for the whole requested length");
	g_recv_calls++;
	g_recv_fd = fd;
	g_recv_flags = flags;
	if (kind < 0) {
		g_recv_errno = nondet_int();
		errno = g_recv_errno;
		g_recv_last = -1;
		return (-1);
	}
	if (kind == 0 || len == 0) {
		g_recv_last = 0;
		return (0);
	}
	__CPROVER_assume(n >= 1 && n <= len && n <= (size_t)SSIZE_MAX);
	__CPROVER_havoc_slice(b, n);
	if (g_peer_idx >= g_peer_pos && g_peer_idx - g_peer_pos < n)
		b[g_peer_idx - g_peer_pos] = g_peer_byte;
	g_peer_pos += n;
	g_recv_last = 1;
	return ((ssize_t)n);
}

/*
 * send: "Upon successful completion, send() shall return the number of bytes sent.  Otherwise, -1 shall be
 * returned and errno set."  The accepted bytes are a prefix of the message.  A stream socket never accepts 0 bytes
 * of a non-empty message (it blocks or fails with EAGAIN instead).
 */
ssize_t
send(int fd, const void * buf, size_t len, int flags)
{
	int kind = nondet_int();
	size_t n = nondet_size_t();
	const uint8_t * b = buf;

	__CPROVER_assert(len == 0 || __CPROVER_r_ok(buf, len), "send: buffer readable for the whole requested length");
	g_send_calls++;
	g_send_fd = fd;
	g_send_flags = flags;
	if (flags != MSG_NOSIGNAL)
		g_send_allflags_ok = 0;
	if (kind < 0) {
		g_send_errno = nondet_int();
		errno = g_send_errno;
		g_send_last = -1;
		return (-1);
	}
	if (len == 0) {
		g_send_last = 0;
		return (0);
	}
	g_send_last = 1;
	__CPROVER_assume(n >= 1 && n <= len && n <= (size_t)SSIZE_MAX);
	if (g_peer_idx >= g_sent_pos && g_peer_idx - g_sent_pos < n) {
		if (g_sent_seen)
			g_sent_dup++;
		g_sent_seen = 1;
		g_sent_byte = b[g_peer_idx - g_sent_pos];
	}
	g_sent_pos += n;
	return ((ssize_t)n);
}

/* accept: a new non-negative descriptor, or -1 and errno. */
int
accept(int fd, struct sockaddr * addr, socklen_t * addrlen)
{
	int s = nondet_int();

	__CPROVER_assert(addr == NULL || addrlen != NULL, "accept: address_len given when address is");
	g_accept_calls++;
	g_accept_fd = fd;
	if (s < 0) {
		g_accept_errno = nondet_int();
		errno = g_accept_errno;
		g_accept_ret = -1;
		return (-1);
	}
	g_accept_ret = s;
	return (s);
}

/* getsockopt(SO_ERROR): 0 and the pending error in *option_value, or -1 and errno. */
int
getsockopt(int s, int level, int optname, void * optval, socklen_t * optlen)
{
	int rc = nondet_int();

	__CPROVER_assert(level == SOL_SOCKET && optname == SO_ERROR, "getsockopt: only SO_ERROR is modelled");
	__CPROVER_assert(*optlen >= sizeof(int) && __CPROVER_w_ok(optval, sizeof(int)), "getsockopt: room for an int");
	__CPROVER_assert(s == g_conn_sock && g_conn_sock_open, "getsockopt: on the open socket of the current attempt");
	g_sockopt_calls++;
	if (rc) {
		errno = nondet_int();
		return (-1);
	}
	g_sockopt_err = nondet_int();
	*(int *)optval = g_sockopt_err;
	*optlen = sizeof(int);
	return (0);
}

/* setsockopt: 0 or -1; no effect the modules can observe. */
int
setsockopt(int s, int level, int optname, const void * optval, socklen_t optlen)
{
	int rc = nondet_int();

	__CPROVER_assert(optlen == 0 || __CPROVER_r_ok(optval, optlen), "setsockopt: option value readable");
	(void)s; (void)level; (void)optname;
	g_setsockopt_calls++;
	if (rc) {
		errno = nondet_int();
		return (-1);
	}
	return (0);
}

/* close: only ever applied to the open socket of the current connection attempt, exactly once. */
int
close(int fd)
{
	int rc = nondet_int();

	__CPROVER_assert(fd == g_conn_sock && g_conn_sock_open && fd != -1,
	    "close: the open socket of the current attempt (no double close, no foreign descriptor)");
	g_close_calls++;
	g_conn_sock_open = 0;
	if (rc) {
		errno = nondet_int();
		return (-1);
	}
	return (0);
}

/*
 * util/sock.c:sock_connect_bind_nb(sa, sa_b): -1 (nothing left open) or a new open non-blocking socket that is
 * connected or connecting.  The model also checks the order in which the address list is walked: the k-th call
 * must be for the k-th address of the caller's list (ghost g_conn_base / g_conn_next).
 */
int
sock_connect_bind_nb(const struct sock_addr * sa, const struct sock_addr * sa_b)
{
	int s = nondet_int();

	__CPROVER_assert(sa != NULL, "sock_connect_bind_nb: address is not the list terminator");
	__CPROVER_assert(sa == g_conn_base[g_conn_next],
	    "sock_connect_bind_nb: addresses are tried in list order, none skipped, none repeated");
	__CPROVER_assert(sa_b == g_conn_sab, "sock_connect_bind_nb: the caller's bind address");
	__CPROVER_assert(!g_conn_sock_open, "sock_connect_bind_nb: previous attempt's socket was closed (no descriptor leak)");
	g_conn_next++;
	if (s < 0) {
		errno = nondet_int();
		g_conn_sock = -1;
		return (-1);
	}
	g_conn_sock = s;
	g_conn_sock_open = 1;
	return (s);
}

/* atexit (C11 7.22.4.2), called by mpool_malloc the first time a pool has to go to malloc: records the handler. */
unsigned g_atexit_calls;
void (* g_atexit_func)(void);
int
atexit(void (* func)(void))
{

	g_atexit_calls++;
	g_atexit_func = func;
	return (nondet_int() ? -1 : 0);
}

/* util/warnp.c: diagnostics only. */
void
libcperciva_warn(const char * fmt, ...)
{

	(void)fmt;
}

void
libcperciva_warnx(const char * fmt, ...)
{

	(void)fmt;
}
