/*
 * models/num_asprintf.c -- assumed contract (G6) of asprintf() as humansize() uses it, with ghost outputs,
 * and do-nothing bodies for warn()/warnx() of util/warnp.c.
 *
 * asprintf(&s, fmt, ...) either fails (returns -1, *ret unspecified) or stores a fresh NUL-terminated string
 * and returns its length.  The text itself is not modelled; what the caller asked to be printed is recorded:
 *   g_asp_kind  0 = "%d B"   1 = "%d.%d %cB"   2 = "%d %cB"   (any other format is a failed MODEL assertion)
 *   g_asp_a1, g_asp_a2, g_asp_pfx   the int / int / char arguments in order
 * so "the string printed" is <a1> " B", <a1> "." <a2> " " <pfx> "B" or <a1> " " <pfx> "B" by the C11 7.21.6.1
 * meaning of %d and %c.
 */
#include <stdarg.h>
#include <stddef.h>
#include <stdint.h>

#include "num_hs_ghost.h"

unsigned g_asp_calls;
int g_asp_kind;
int g_asp_a1;
int g_asp_a2;
int g_asp_pfx;
int g_asp_fail;
char * g_asp_ret;

#ifndef VERIF_NATIVE
int nondet_int(void);
size_t nondet_size_t(void);
void * malloc(size_t);
int strcmp(const char *, const char *);

int
libcperciva_asprintf(char ** ret, const char * format, ...)
{
	va_list ap;
	size_t n;
	char * p;

	__CPROVER_precondition(ret != NULL && format != NULL, "asprintf: non-NULL arguments");
	g_asp_calls++;
	g_asp_a1 = g_asp_a2 = g_asp_pfx = 0;
	va_start(ap, format);
	if (strcmp(format, "%d B") == 0) {
		g_asp_kind = 0;
		g_asp_a1 = va_arg(ap, int);
	} else if (strcmp(format, "%d.%d %cB") == 0) {
		g_asp_kind = 1;
		g_asp_a1 = va_arg(ap, int);
		g_asp_a2 = va_arg(ap, int);
		g_asp_pfx = va_arg(ap, int) & 0xff;	/* %c prints (unsigned char)arg; also: cbmc passes a char vararg unpromoted */
	} else if (strcmp(format, "%d %cB") == 0) {
		g_asp_kind = 2;
		g_asp_a1 = va_arg(ap, int);
		g_asp_pfx = va_arg(ap, int) & 0xff;	/* %c prints (unsigned char)arg; also: cbmc passes a char vararg unpromoted */
	} else {
		g_asp_kind = -1;
		__CPROVER_assert(0, "MODEL asprintf: format string not one of the three used by humansize()");
	}
	va_end(ap);

	/* failure: -1, *ret unspecified */
	n = nondet_size_t();
	__CPROVER_assume(n >= 3 && n <= 16);
	p = malloc(n + 1);
	if (p == NULL || nondet_int()) {
		g_asp_fail = 1;
		g_asp_ret = NULL;
		return (-1);
	}
	p[n] = '\0';
	*ret = p;
	g_asp_fail = 0;
	g_asp_ret = p;
	return ((int)n);
}

void
libcperciva_warn(const char * fmt, ...)
{

	(void)fmt;
}

void
libcperciva_warnx(const char * fmt, ...)
{

	(void)fmt;
}
#endif
