/*
 * models/num_asprintf.c -- assumed contract (G6) of asprintf() as humansize() uses it, with ghost outputs,
 * and do-nothing bodies for warn()/warnx() of util/warnp.c.
 *
 * asprintf(&s, fmt, ...) either fails (returns -1, *ret unspecified) or stores a fresh NUL-terminated string
 * and returns its length.  The text itself is not modelled; what the caller asked to be printed is recorded:
 *   g_asp_kind  0 = "%d B"   1 = "%d.%d %cB"   2 = "%d %cB"   (any other format is a failed MODEL assertion)
 *   g_asp_a1, g_asp_a2, g_asp_pfx   the int / int / char arguments in order
 * so "the string printed" is <a1> " B", <a1> "." <a2> " " <pfx> "B" or <a1> " " <pfx> "B" by the C11 7.21.6.1
 * meaning of %d and %c.
 */
#include <stddef.h>
#include <stdint.h>

#include "num_hs_ghost.h"

unsigned g_asp_calls;
int g_asp_kind;
int g_asp_a1;
int g_asp_a2;
int g_asp_pfx;
int g_asp_fail;
char * g_asp_ret;

#ifndef VERIF_NATIVE
int nondet_int(void);
void * malloc(size_t);
int strcmp(const char *, const char *);

/*
 * goto-instrument --dfcc cannot instrument variadic functions (the write-set parameter it appends collides with
 * the variable arguments: measured here, the write set is corrupted and bit-blasting runs out of memory), so
 * contracts/util__humansize.c.spec routes the three asprintf(...) calls of humansize() -- by argument count,
 * with a macro, the call text itself is untouched -- to these three fixed-arity entry points.
 */
static int
num_asprintf_common(char ** ret, const char * format, const char * expected, int kind, int a1, int a2, int pfx)
{
	char * p;

	__CPROVER_precondition(ret != NULL && format != NULL, "asprintf: non-NULL arguments");
	g_asp_calls++;
	g_asp_kind = kind;
	g_asp_a1 = a1;
	g_asp_a2 = a2;
	g_asp_pfx = pfx & 0xff;		/* %c prints (unsigned char)arg */
	__CPROVER_assert(strcmp(format, expected) == 0,
	    "MODEL asprintf: the format string is the one this arity is used with in humansize()");

	/* failure: -1, *ret unspecified */
	p = malloc(16);		/* (room for the longest of the three forms, "999 XB" + NUL; the text is not modelled) */
	if (p == NULL || nondet_int()) {
		g_asp_fail = 1;
		g_asp_ret = NULL;
		return (-1);
	}
	p[15] = '\0';
	*ret = p;
	g_asp_fail = 0;
	g_asp_ret = p;
	return (15);
}

int
num_asprintf1(char ** ret, const char * format, int a1)
{

	return (num_asprintf_common(ret, format, "%d B", 0, a1, 0, 0));
}

int
num_asprintf2(char ** ret, const char * format, int a1, int pfx)
{

	return (num_asprintf_common(ret, format, "%d %cB", 2, a1, 0, pfx));
}

int
num_asprintf3(char ** ret, const char * format, int a1, int a2, int pfx)
{

	return (num_asprintf_common(ret, format, "%d.%d %cB", 1, a1, a2, pfx));
}

void
libcperciva_warn(const char * fmt, ...)
{

	(void)fmt;
}

void
libcperciva_warnx(const char * fmt, ...)
{

	(void)fmt;
}
#endif
