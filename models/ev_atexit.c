/* Assumed contract of atexit(3): registers the handler (counted) and returns 0, or fails with non-zero. */
#include <stdlib.h>
unsigned g_atexit_calls;
int __VERIFIER_nondet_int(void);
int
atexit(void (* f)(void))
{
	__CPROVER_assert(f != NULL, "atexit: handler is not NULL");
	if (g_atexit_calls < 1000000)
		g_atexit_calls++;
	if (__VERIFIER_nondet_int())
		return (-1);
	return (0);
}
