/*
 * models/aws_stdio.c -- assumed contracts (G6) of fopen/fgets/ferror/fclose (C11 7.21.5.3, 7.21.7.2, 7.21.10.3,
 * 7.21.5.1) as aws/aws_readkeys.c uses them: ONE stream at a time, read line by line.
 *
 * fopen:   fails (NULL, errno set) or opens "the" stream (address of a model object).
 * fgets(s, n, f): either returns NULL -- end of file or read error, which of the two is remembered for ferror --
 *          leaving s untouched, or stores an ARBITRARY line: L characters, 1 <= L <= min(n - 1, KEYS_LINEMAX),
 *          arbitrary bytes (NUL bytes included: a binary file) except that a '\n' can only be the last one (fgets
 *          stops after a newline), then a NUL; returns s.  At most KEYS_NLINES lines are delivered, then NULL
 *          (-DKEYS_UNBOUNDED: any number of lines; the ghost `remaining`, arbitrary at the start, counts the lines
 *          the file still holds and is the termination measure of the caller's loop).
 *          So every key file of at most KEYS_NLINES lines with lines of at most KEYS_LINEMAX characters is
 *          covered, including an unterminated last line and a line that fills the caller's buffer (when
 *          KEYS_LINEMAX >= n - 1).
 * ferror:  non-zero iff the last NULL of fgets was a read error.
 * fclose:  0 or EOF (errno set), arbitrarily; the stream is closed either way.  Closing twice, or reading / closing
 *          a stream that is not open, fails a MODEL precondition.
 */
#include <stddef.h>
#include <stdio.h>
#include <errno.h>
#include "aws_stdio.h"

struct aws_stdio_ghost g_aws_stdio;
static FILE aws_the_file;

#ifndef VERIF_NATIVE
int nondet_int(void);
size_t nondet_size_t(void);
char nondet_char(void);

FILE *
fopen(const char * path, const char * mode)
{

	__CPROVER_precondition(path != NULL && mode != NULL, "fopen: non-NULL arguments");
	__CPROVER_precondition(!g_aws_stdio.open, "MODEL aws_stdio: one stream at a time");
	g_aws_stdio.fopen_calls++;
	if (nondet_int()) {
		errno = nondet_int();
		return (NULL);
	}
	g_aws_stdio.open = 1;
	g_aws_stdio.err = 0;
	return (&aws_the_file);
}

char *
fgets(char * s, int n, FILE * f)
{
	size_t L, i, cap;
	(void)&i;

	__CPROVER_precondition(f == &aws_the_file && g_aws_stdio.open, "fgets: the stream is open");
	__CPROVER_precondition(n >= 2 && __CPROVER_w_ok(s, (size_t)n), "fgets: buffer of n >= 2 writable bytes");
	/*
	 * the bound is on the number of CALLS (a counter that does not depend on the path taken), so that the
	 * symbolic execution sees the (KEYS_NLINES + 1)-th call return NULL as a constant and stops unwinding the
	 * caller's line loop there; a counter of delivered lines is symbolic after the first merge.
	 */
	g_aws_stdio.fgets_calls++;
#ifdef KEYS_UNBOUNDED
	/* files of any length: `remaining` (arbitrary at the start) counts the lines the file still holds */
	if (g_aws_stdio.remaining == 0 || nondet_int()) {
#else
	if (g_aws_stdio.fgets_calls > KEYS_NLINES || nondet_int()) {
#endif
		/* end of file, or a read error */
		g_aws_stdio.err = (nondet_int() != 0);
		if (g_aws_stdio.err)
			errno = nondet_int();
		return (NULL);
	}
	g_aws_stdio.lines++;
#ifdef KEYS_UNBOUNDED
	g_aws_stdio.remaining--;
#endif
	cap = ((size_t)n - 1 < KEYS_LINEMAX) ? (size_t)n - 1 : KEYS_LINEMAX;
	L = nondet_size_t();
	__CPROVER_assume(L >= 1 && L <= cap);
	for (i = 0; i < KEYS_LINEMAX; i++) {
		if (i < L) {
			char c = nondet_char();

			__CPROVER_assume(c != '\n' || i == L - 1);
			s[i] = c;
		}
	}
	s[L] = '\0';
	return (s);
}

int
ferror(FILE * f)
{

	__CPROVER_precondition(f == &aws_the_file && g_aws_stdio.open, "ferror: the stream is open");
	return (g_aws_stdio.err);
}

int
fclose(FILE * f)
{

	__CPROVER_precondition(f == &aws_the_file && g_aws_stdio.open, "fclose: the stream is open (not closed twice)");
	g_aws_stdio.open = 0;
	g_aws_stdio.fclose_calls++;
	if (nondet_int()) {
		errno = nondet_int();
		return (EOF);
	}
	return (0);
}

/* util/warnp.c prints to stderr: no effect on any property */
void
libcperciva_warn(const char * fmt, ...)
{

	(void)fmt;
}

void
libcperciva_warnx(const char * fmt, ...)
{

	(void)fmt;
}
#endif
