/*
 * models/aws_fmt.h -- ghost state of the asprintf model (models/aws_fmt.c): one record per call.
 */
#ifndef AWS_FMT_H_
#define AWS_FMT_H_
#include <stddef.h>
#include <stdint.h>
#include "aws_stream.h"

#ifndef AWS_NREC
#define AWS_NREC 4		/* asprintf calls that can be recorded (a front end makes at most 4) */
#endif
#ifndef AWS_FMTMAX
#define AWS_FMTMAX 320		/* longest format string */
#endif
#ifndef AWS_ABSMAX
#define AWS_ABSMAX 24		/* longest abstract stand-in for a formatted string */
#endif

struct aws_snap {
	uint8_t b[AWS_ABSMAX + 1];
};

struct aws_fmt_rec {
	struct aws_stream s;		/* what was asked to be printed, in normal form */
	int failed;			/* the call returned -1 */
	size_t len;			/* length of the stand-in */
	const char * result;		/* the block handed to the caller */
	struct aws_snap snap;		/* its bytes at that moment (NUL included) */
};

struct aws_fmt_ghost {
	size_t n;
	struct aws_fmt_rec rec[AWS_NREC];
};
extern struct aws_fmt_ghost g_aws_fmt;

#endif /* !AWS_FMT_H_ */
