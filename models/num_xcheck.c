/*
 * models/num_xcheck.c -- NATIVE cross-check of the integer part of models/num_strto.c against the libc in use (G6:
 * supports the assumption, decides no property).  Not linked into any proof.  Run by hand:
 *   gcc -O1 -std=c11 -DVERIF_NATIVE -DNUM_MAXLEN=64 -I/verif/models models/num_xcheck.c models/num_strto.c -o /tmp/xck && /tmp/xck
 * (3,000,000 random strings over white space, signs, prefixes, digits, letters and junk, bases 0 and 2..36: end offset,
 * value and errno of strtoumax and strtoimax equal what the model derives from its ghosts; 0 mismatches with glibc, C11 mode.)
 */
#define _GNU_SOURCE
#include <stdio.h>
#include <stdlib.h>
#include <string.h>
#include <errno.h>
#include <inttypes.h>
#include "num_ghost.h"
int main(void) {
	const char alpha[] = " \t\n\v-+00xX1179afzAFZg_.";
	unsigned long n, bad = 0;
	srand(12345);
	for (n = 0; n < 3000000; n++) {
		char s[40]; int len = rand() % 26, i, base;
		for (i = 0; i < len; i++) s[i] = alpha[rand() % (sizeof(alpha) - 1)];
		s[len] = 0;
		if (rand() % 4 == 0) { /* long digit runs */
			int st = rand() % 3; for (i = st; i < len; i++) s[i] = "0123456789abcdefz"[rand() % 17]; if (st) s[0] = " -+"[rand()%3];
		}
		base = rand() % 37; if (base == 1) base = 0;
		char *e1, *e2; uintmax_t u; intmax_t v; int eu, ei;
		errno = 0; u = strtoumax(s, &e1, base); eu = errno;
		errno = 0; v = strtoimax(s, &e2, base); ei = errno;
		num_scan(s, base);
		/* expected from the ghosts, as models/num_strto.c computes them */
		uintmax_t xu; int xeu = 0; intmax_t xv; int xei = 0;
		if (!g_num_nd) { xu = 0; xv = 0; }
		else {
			if (g_num_ovf) { xu = UINTMAX_MAX; xeu = ERANGE; } else xu = g_num_neg ? (uintmax_t)0 - g_num_mag : g_num_mag;
			if (g_num_neg) { if (g_num_ovf || g_num_mag > (uintmax_t)INTMAX_MAX + 1) { xv = INTMAX_MIN; xei = ERANGE; } else if (g_num_mag == (uintmax_t)INTMAX_MAX + 1) xv = INTMAX_MIN; else xv = -(intmax_t)g_num_mag; }
			else { if (g_num_ovf || g_num_mag > (uintmax_t)INTMAX_MAX) { xv = INTMAX_MAX; xei = ERANGE; } else xv = (intmax_t)g_num_mag; }
		}
		int ok = (size_t)(e1 - s) == g_num_end && (size_t)(e2 - s) == g_num_end && u == xu && v == xv &&
		    (eu == xeu || (!g_num_nd && eu == EINVAL)) && (ei == xei || (!g_num_nd && ei == EINVAL));
		if (!ok && bad++ < 10) printf("MISMATCH base=%d s=\"%s\" glibc: end=%zd u=%ju eu=%d v=%jd ei=%d  model: end=%zu nd=%d neg=%d ovf=%d mag=%ju\n", base, s, e1 - s, u, eu, v, ei, g_num_end, g_num_nd, g_num_neg, g_num_ovf, g_num_mag);
	}
	printf("%lu strings, %lu mismatches\n", n, bad);
	return bad != 0;
}
