/*
 * x86_selftest.c -- native cross-check of the instruction models in models/x86_*.c against the real instructions of
 * the build CPU (needs AES-NI, SHA-NI, SSSE3, SSE4.2; this sandbox's CPU has them).  It SUPPORTS the assumption
 * "the models are the SDM semantics"; it decides no property and is not run by /verif/check.
 *   gcc -O1 -maes -msha -mssse3 -msse4.2 -I/verif/spec -I/verif/models -o /tmp/x86_selftest /verif/models/x86_selftest.c && /tmp/x86_selftest
 * Last run while building the framework: all models agree with the hardware on 20 000 random inputs each
 * (AESENC, AESENCLAST, AESKEYGENASSIST with the rcon values of the tree; SHA256RNDS2, SHA256MSG1, SHA256MSG2;
 * PSHUFD, PSHUFLW, PSHUFHW, PSLL/PSRL W/D/Q, PSLLDQ, PSRLDQ, MOVSS, PUNPCKL/HQDQ, PSHUFB, PALIGNR; CRC32 8/32/64).
 */
#include <stdio.h>
#include <stdlib.h>
#include <string.h>
#include <stdint.h>
#include <immintrin.h>
#include <wmmintrin.h>
#include <smmintrin.h>
/* the models define the GCC builtins themselves; rename them so that they can coexist with the real ones */
#define __builtin_ia32_aesenc128 m_aesenc
#define __builtin_ia32_aesenclast128 m_aesenclast
#define __builtin_ia32_aeskeygenassist128 m_keygen
#define __builtin_ia32_sha256rnds2 m_rnds2
#define __builtin_ia32_sha256msg1 m_msg1
#define __builtin_ia32_sha256msg2 m_msg2
#define __builtin_ia32_pshufd m_pshufd
#define __builtin_ia32_pshuflw m_pshuflw
#define __builtin_ia32_pshufhw m_pshufhw
#define __builtin_ia32_psllwi128 m_psllwi
#define __builtin_ia32_psrlwi128 m_psrlwi
#define __builtin_ia32_pslldi128 m_pslldi
#define __builtin_ia32_psrldi128 m_psrldi
#define __builtin_ia32_psllqi128 m_psllqi
#define __builtin_ia32_psrlqi128 m_psrlqi
#define __builtin_ia32_pslldqi128 m_pslldqi
#define __builtin_ia32_psrldqi128 m_psrldqi
#define __builtin_ia32_movss m_movss
#define __builtin_ia32_punpcklqdq128 m_punpckl
#define __builtin_ia32_punpckhqdq128 m_punpckh
#define __builtin_ia32_pshufb128 m_pshufb
#define __builtin_ia32_palignr128 m_palignr
#include "x86_aesni.c"
#include "x86_sha.c"
#include "x86_sse2.c"
#include "c03_crc32c_spec.h"
/* the CRC32 builtin models are N/8 applications of spec_crc32c_byte (x86_crc32.c also carries the SDM text in a
   CBMC-only bit-vector type, proved equal to them in harness/C03/crc_insn_leaf.c) */
static unsigned int m8(unsigned int c, unsigned char v){ return spec_crc32c_byte(c,v);}
static unsigned int m32(unsigned int c, unsigned int v){ uint32_t s=c; for(int k=0;k<4;k++) s=spec_crc32c_byte(s,(v>>(8*k))&0xff); return s;}
static unsigned long long m64(unsigned long long c, unsigned long long v){ uint32_t s=c; for(int k=0;k<8;k++) s=spec_crc32c_byte(s,(v>>(8*k))&0xff); return s;}
#define RND(v) do { for (int q=0;q<16;q++) ((uint8_t*)&v)[q]=rand(); } while(0)
#define CK(bit, real, model) do { __m128i r_=(real); __m128i m_=(__m128i)(model); if (memcmp(&r_,&m_,16)) bad|=(bit); } while(0)
#define KG(I) CK(4,_mm_aeskeygenassist_si128(a,I), m_keygen((x86a_v2di)a,I))
int main(void){ int bad=0; for(int t=0;t<20000;t++){ __m128i a,b,c; RND(a); RND(b); RND(c);
  CK(1,_mm_aesenc_si128(a,b), m_aesenc((x86a_v2di)a,(x86a_v2di)b)); CK(2,_mm_aesenclast_si128(a,b), m_aesenclast((x86a_v2di)a,(x86a_v2di)b));
  KG(0x01); KG(0x00); KG(0x02); KG(0x04); KG(0x08); KG(0x10); KG(0x20); KG(0x40); KG(0x80); KG(0x1b); KG(0x36); KG(0xff);
  CK(8,_mm_sha256rnds2_epu32(a,b,c), m_rnds2((x86s_v4si)a,(x86s_v4si)b,(x86s_v4si)c));
  CK(16,_mm_sha256msg1_epu32(a,b), m_msg1((x86s_v4si)a,(x86s_v4si)b)); CK(32,_mm_sha256msg2_epu32(a,b), m_msg2((x86s_v4si)a,(x86s_v4si)b));
  CK(64,_mm_shuffle_epi32(a,0x1b), m_pshufd((x86_v4si)a,0x1b)); CK(64,_mm_shuffle_epi32(a,0x50), m_pshufd((x86_v4si)a,0x50)); CK(64,_mm_shuffle_epi32(a,0xfa), m_pshufd((x86_v4si)a,0xfa));
  CK(64,_mm_shuffle_epi32(a,0x88), m_pshufd((x86_v4si)a,0x88)); CK(64,_mm_shuffle_epi32(a,0x39), m_pshufd((x86_v4si)a,0x39)); CK(64,_mm_shuffle_epi32(a,0xff), m_pshufd((x86_v4si)a,0xff)); CK(64,_mm_shuffle_epi32(a,0xaa), m_pshufd((x86_v4si)a,0xaa));
  CK(128,_mm_shufflelo_epi16(a,0xb1), m_pshuflw((x86_v8hi)a,0xb1)); CK(128,_mm_shufflehi_epi16(a,0xb1), m_pshufhw((x86_v8hi)a,0xb1));
  CK(256,_mm_slli_epi16(a,8), m_psllwi((x86_v8hi)a,8)); CK(256,_mm_srli_epi16(a,8), m_psrlwi((x86_v8hi)a,8));
  CK(512,_mm_slli_epi32(a,25), m_pslldi((x86_v4si)a,25)); CK(512,_mm_slli_epi32(a,14), m_pslldi((x86_v4si)a,14)); CK(512,_mm_srli_epi32(a,7), m_psrldi((x86_v4si)a,7)); CK(512,_mm_srli_epi32(a,18), m_psrldi((x86_v4si)a,18)); CK(512,_mm_srli_epi32(a,3), m_psrldi((x86_v4si)a,3)); CK(512,_mm_srli_epi32(a,10), m_psrldi((x86_v4si)a,10));
  CK(1024,_mm_srli_epi64(a,17), m_psrlqi((x86_v2di)a,17)); CK(1024,_mm_srli_epi64(a,19), m_psrlqi((x86_v2di)a,19)); CK(1024,_mm_slli_epi64(a,19), m_psllqi((x86_v2di)a,19));
  CK(2048,_mm_slli_si128(a,8), m_pslldqi((x86_v2di)a,64)); CK(2048,_mm_srli_si128(a,8), m_psrldqi((x86_v2di)a,64)); CK(2048,_mm_slli_si128(a,4), m_pslldqi((x86_v2di)a,32));
  CK(4096,_mm_castps_si128(_mm_move_ss(_mm_castsi128_ps(a),_mm_castsi128_ps(b))), m_movss((x86_v4sf)a,(x86_v4sf)b));
  CK(8192,_mm_unpacklo_epi64(a,b), m_punpckl((x86_v2di)a,(x86_v2di)b)); CK(8192,_mm_unpackhi_epi64(a,b), m_punpckh((x86_v2di)a,(x86_v2di)b));
  CK(16384,_mm_shuffle_epi8(a,b), m_pshufb((x86_v16qi)a,(x86_v16qi)b)); CK(32768,_mm_alignr_epi8(a,b,4), m_palignr((x86_v2di)a,(x86_v2di)b,32)); CK(32768,_mm_alignr_epi8(a,b,12), m_palignr((x86_v2di)a,(x86_v2di)b,96));
  { unsigned cs=(unsigned)rand()*65536u+(unsigned)rand(); unsigned long long v=((unsigned long long)rand()<<40)^((unsigned long long)rand()<<20)^(unsigned long long)rand();
    if(_mm_crc32_u8(cs,(unsigned char)v)!=m8(cs,(unsigned char)v)) bad|=65536; if(_mm_crc32_u32(cs,(unsigned)v)!=m32(cs,(unsigned)v)) bad|=65536; if(_mm_crc32_u64(cs,v)!=m64(cs,v)) bad|=65536; } }
  printf("x86 models vs hardware: %s (mask %d)\n", bad ? "MISMATCH" : "all agree", bad); return bad ? 1 : 0; }
