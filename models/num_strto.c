/*
 * models/num_strto.c -- assumed contract (G6) of strtoumax, strtoimax (C11 7.8.2.3 -> 7.22.1.4) and strtod
 * (C11 7.22.1.3), "C" locale, with ghost outputs (models/num_ghost.h).
 *
 * Integer conversions: a rendering of 7.22.1.4 paragraphs 2-8:
 *   - initial white space (isspace in the "C" locale: space \t \n \v \f \r), optional sign,
 *   - base 16: optional 0x/0X (only when a hexadecimal digit follows); base 0: 0x/0X -> 16, leading 0 -> 8, else 10,
 *   - the longest run of digits/letters whose value is < base is the subject sequence,
 *   - no digits: no conversion, *endptr = nptr, value 0 (POSIX: errno may become EINVAL -> nondeterministic here),
 *   - value outside the range of the return type: UINTMAX_MAX resp. INTMAX_MAX/INTMAX_MIN and errno = ERANGE,
 *   - otherwise the value, negated *in the return type* when the sign is '-' (this is what makes
 *     strtoumax("-1") == UINTMAX_MAX with errno untouched).
 * All of the above is executed on the real bytes, EXCEPT the magnitude sum(digit_k * base^k) of a numeral of two
 * or more digits, which under CBMC is an uninterpreted value (nondeterministic 64-bit magnitude or "overflow",
 * non-zero exactly when some digit is non-zero): exact accumulation is a chain of symbolic 72-bit
 * multiplications on which the SAT back end does not terminate (measured: > 300 s for 8 characters).  The
 * proofs therefore hold for every value the numeral could have.  With -DNUM_EXACT (always natively) the
 * accumulation is exact; that variant is what the native replay uses to recompute the ghosts.
 * Every byte is read through an ordinary dereference, left to right, stopping at the first byte that is not
 * part of the subject sequence: a string that is not NUL-terminated inside its object fails a pointer check
 * at the call site.  All scans are loops with the compile-time bound NUM_STRMAX (completely unwound); reaching
 * the bound is reported as "MODEL-BOUND" (driver: undecided, never a violation).
 *
 * strtod is abstract: the end offset, the value and the range-error class are nondeterministic within what
 * 7.22.1.3 allows (end inside the string, no conversion <=> end == nptr, overflow => +-HUGE_VAL and ERANGE,
 * underflow => magnitude <= DBL_MIN); the value of a decimal numeral is a real number and is not modelled.
 *
 * Natively (-DVERIF_NATIVE) only num_scan() and the ghosts exist; libc keeps its own strto*.
 */
#include <errno.h>
#include <float.h>
#include <inttypes.h>
#include <math.h>
#include <stddef.h>
#include <stdint.h>

#include "num_ghost.h"

#ifndef NUM_STRMAX
#define NUM_STRMAX (NUM_MAXLEN + 2)
#endif

unsigned g_num_calls;
int g_num_nd;
int g_num_neg;
int g_num_ovf;
uintmax_t g_num_mag;
size_t g_num_end;
int g_num_base;
int g_num_ndig;
int g_num_reqbase;
const char * g_num_sptr;
double g_num_fval;
int g_num_frange;
size_t g_num_slen;

#ifdef VERIF_NATIVE
#define NUM_EXACT 1
#define MODEL_BOUND(what) do {} while (0)
#else
#define MODEL_BOUND(what) do { __CPROVER_assert(0, "MODEL-BOUND " what ": scan reached NUM_STRMAX"); __CPROVER_assume(0); } while (0)
#endif

#ifndef VERIF_NATIVE
int nondet_int(void);
uintmax_t nondet_uintmax(void);
#endif

static int
num_isspace(char c)
{

	return (c == ' ' || c == '\t' || c == '\n' || c == '\v' || c == '\f' || c == '\r');
}

/* value of a digit or letter, 36 for anything else */
static int
num_digit(char c)
{

	if (c >= '0' && c <= '9')
		return (c - '0');
	if (c >= 'a' && c <= 'z')
		return (c - 'a' + 10);
	if (c >= 'A' && c <= 'Z')
		return (c - 'A' + 10);
	return (36);
}

/* 7.22.1.4: decompose the string, fill the ghosts.  base must be 0 or 2..36. */
void
num_scan(const char * s, int base)
{
	size_t i, k;
	int d, stop, ndig, allzero, first;
	num_umath_t t;

	g_num_nd = 0;
	g_num_neg = 0;
	g_num_ovf = 0;
	g_num_mag = 0;
	g_num_end = 0;

	/* initial white space */
	i = 0;
	stop = 0;
	for (k = 0; k < NUM_STRMAX; k++) {
		if (!num_isspace(s[i])) {
			stop = 1;
			break;
		}
		i++;
	}
	if (!stop)
		MODEL_BOUND("strto*max");

	/* optional sign */
	if (s[i] == '+' || s[i] == '-') {
		g_num_neg = (s[i] == '-');
		i++;
	}

	/* base prefix */
	if ((base == 0 || base == 16) && s[i] == '0' && (s[i + 1] == 'x' || s[i + 1] == 'X') &&
	    num_digit(s[i + 2]) < 16) {
		i += 2;
		base = 16;
	} else if (base == 0)
		base = (s[i] == '0') ? 8 : 10;
	g_num_base = base;

	/* subject sequence: the longest run of digits of that base */
	stop = 0;
	ndig = 0;
	allzero = 1;
	first = 0;
	for (k = 0; k < NUM_STRMAX; k++) {
		d = num_digit(s[i]);
		if (d >= base) {
			stop = 1;
			break;
		}
#ifdef NUM_EXACT
		/* mag * base + d < 2^64 * 36 + 36 < 2^72: exact in the ghost type */
		t = (num_umath_t)g_num_mag * (num_umath_t)(unsigned)base + (num_umath_t)(unsigned)d;
		if (g_num_ovf || t > (num_umath_t)UINTMAX_MAX)
			g_num_ovf = 1;
		else
			g_num_mag = (uintmax_t)t;
#endif
		if (ndig == 0)
			first = d;
		if (d != 0)
			allzero = 0;
		if (ndig < 2)
			ndig++;
		g_num_nd = 1;
		i++;
	}
	if (!stop)
		MODEL_BOUND("strto*max");
#ifndef NUM_EXACT
	/*
	 * The magnitude sum(digit_k * base^k) of a numeral of two or more digits is left uninterpreted (an
	 * arbitrary 64-bit value or "too large"): chains of symbolic 72-bit multiplications do not terminate in
	 * the SAT back end.  What is kept: no digits -> 0; a single digit is its own value; the magnitude is zero
	 * exactly when every digit is '0' (so "-0", "000" are zero and "-1" is not).
	 */
	if (g_num_nd) {
		g_num_mag = nondet_uintmax();
		g_num_ovf = nondet_int() ? 1 : 0;
		if (ndig == 1) {
			g_num_mag = (uintmax_t)first;
			g_num_ovf = 0;
		}
		if (allzero) {
			g_num_mag = 0;
			g_num_ovf = 0;
		} else if (!g_num_ovf)
			__CPROVER_assume(g_num_mag != 0);
		if (g_num_ovf)
			g_num_mag = 0;
	}
#endif

	g_num_ndig = ndig;
	if (g_num_nd)
		g_num_end = i;
	else {
		/* no conversion: the value is zero and has no sign */
		g_num_neg = 0;
		g_num_end = 0;
	}
}

#ifndef VERIF_NATIVE
int nondet_int(void);
size_t nondet_size_t(void);
double nondet_double(void);
size_t strlen(const char *);

uintmax_t
strtoumax(const char * nptr, char ** endptr, int base)
{
	uintmax_t r;

	__CPROVER_precondition(nptr != NULL, "strtoumax: nptr != NULL");
	__CPROVER_precondition(base == 0 || (base >= 2 && base <= 36), "strtoumax: base is 0 or 2..36");
	g_num_calls++;
	g_num_reqbase = base;
	g_num_sptr = nptr;
	num_scan(nptr, base);
	if (endptr != NULL)
		*endptr = (char *)(uintptr_t)(nptr + g_num_end);
	if (!g_num_nd) {
		if (nondet_int())
			errno = EINVAL;
		return (0);
	}
	if (g_num_ovf) {
		errno = ERANGE;
		return (UINTMAX_MAX);
	}
	r = g_num_mag;
	if (g_num_neg)
		r = (uintmax_t)0 - r;	/* "negated (in the return type)" */
	return (r);
}

intmax_t
strtoimax(const char * nptr, char ** endptr, int base)
{

	__CPROVER_precondition(nptr != NULL, "strtoimax: nptr != NULL");
	__CPROVER_precondition(base == 0 || (base >= 2 && base <= 36), "strtoimax: base is 0 or 2..36");
	g_num_calls++;
	g_num_reqbase = base;
	g_num_sptr = nptr;
	num_scan(nptr, base);
	if (endptr != NULL)
		*endptr = (char *)(uintptr_t)(nptr + g_num_end);
	if (!g_num_nd) {
		if (nondet_int())
			errno = EINVAL;
		return (0);
	}
	if (g_num_neg) {
		if (g_num_ovf || g_num_mag > (uintmax_t)INTMAX_MAX + 1) {
			errno = ERANGE;
			return (INTMAX_MIN);
		}
		if (g_num_mag == (uintmax_t)INTMAX_MAX + 1)
			return (INTMAX_MIN);
		return (-(intmax_t)g_num_mag);
	}
	if (g_num_ovf || g_num_mag > (uintmax_t)INTMAX_MAX) {
		errno = ERANGE;
		return (INTMAX_MAX);
	}
	return ((intmax_t)g_num_mag);
}

double
strtod(const char * nptr, char ** endptr)
{
	size_t len, k;
	double v;
	int rng;

	__CPROVER_precondition(nptr != NULL, "strtod: nptr != NULL");
	g_num_calls++;
	g_num_reqbase = 0;
	g_num_sptr = nptr;
	len = strlen(nptr);		/* the input must be a string */
	k = nondet_size_t();
	__CPROVER_assume(k <= len);
	v = nondet_double();
	rng = nondet_int();
	__CPROVER_assume(rng >= 0 && rng <= 2);
	if (k == 0) {
		/* no conversion */
		v = 0;
		rng = 0;
	}
	if (rng == 1) {
		__CPROVER_assume(v == HUGE_VAL || v == -HUGE_VAL);
		errno = ERANGE;
	} else if (rng == 2) {
		__CPROVER_assume(v <= DBL_MIN && v >= -DBL_MIN);
		errno = ERANGE;
	} else if (k == 0 && nondet_int())
		errno = EINVAL;
	g_num_nd = (k != 0);
	g_num_end = k;
	g_num_neg = 0;
	g_num_ovf = 0;
	g_num_mag = 0;
	g_num_fval = v;
	g_num_frange = rng;
	g_num_ndig = 0;
	if (endptr != NULL)
		*endptr = (char *)(uintptr_t)(nptr + k);
	return (v);
}
#endif /* !VERIF_NATIVE */
