/*
 * models/drbg_os.c -- assumed contracts (G6, POSIX.1-2008) of open(2), read(2), close(2) for util/entropy.c,
 * plus empty bodies for libcperciva's warn()/warnx() (diagnostics only).
 *
 *  open : returns -1 with errno set, or a new descriptor >= 0 positioned at stream offset 0.
 *  read : n <= SSIZE_MAX and fd open are the caller's obligations (plain assertions, not model bounds);
 *         returns -1 (errno set, buffer untouched), or r in [0, n] after storing exactly r arbitrary bytes
 *         at buf[0 .. r) -- short reads at the kernel's whim, 0 = end of file.
 *  close: returns 0 (closed), or -1 with errno = EINTR (state unspecified: the caller may retry) or another
 *         error (descriptor gone; must not be used again).
 * The byte delivered at the ghost stream offset g_er_idx is remembered in g_er_snap.
 */
#include <errno.h>
#include <fcntl.h>
#include <limits.h>
#include <stdarg.h>
#include <stddef.h>
#include <stdint.h>
#include <unistd.h>
#include "drbg_os.h"

struct os_state g_os;
size_t g_er_idx;
uint8_t g_er_snap;
/*
 * Optional pointer monitor for read(2) inside a loop under contract: CBMC loses the points-to information of a
 * pointer that a loop contract havocs (HOWTO trap 1).  When the harness sets g_rd_base (the address at which
 * stream offset g_rd_base_pos is expected to land), read() PROVES that the buffer it is given is exactly
 * g_rd_base + (pos - g_rd_base_pos) and stores through that equal pointer.
 */
uint8_t * g_rd_base;
size_t g_rd_base_pos;

int nondet_int(void);
size_t nondet_size_t(void);

static int
os_nonzero_errno(void)
{
	int e = nondet_int();

	__CPROVER_assume(e > 0);
	return (e);
}

int
open(const char * path, int flags, ...)
{
	int fd;

	g_os.opens++;
	if (nondet_int()) {
		errno = os_nonzero_errno();
		return (-1);
	}
	if (g_os.fd_state == OS_FD_OPEN)
		g_os.leaks++;
	fd = nondet_int();
	__CPROVER_assume(fd >= 0);
	g_os.fd = fd;
	g_os.fd_state = OS_FD_OPEN;
	g_os.pos = 0;
	g_os.failed = 0;
	g_os.path_ok = (flags == O_RDONLY) &&
	    path[0] == '/' && path[1] == 'd' && path[2] == 'e' && path[3] == 'v' && path[4] == '/' &&
	    path[5] == 'u' && path[6] == 'r' && path[7] == 'a' && path[8] == 'n' && path[9] == 'd' &&
	    path[10] == 'o' && path[11] == 'm' && path[12] == '\0';
	return (fd);
}

ssize_t
read(int fd, void * buf, size_t n)
{
	size_t r;

	__CPROVER_assert(g_os.fd_state == OS_FD_OPEN && fd == g_os.fd, "read(2): the descriptor is the open one");
	__CPROVER_assert(n <= SSIZE_MAX, "read(2): nbyte <= SSIZE_MAX");
	__CPROVER_assert(g_os.failed == 0, "read(2): no read after a failed read or EOF");
	g_os.reads++;
	if (nondet_int()) {
		errno = os_nonzero_errno();
		g_os.failed = 1;
		return (-1);
	}
	r = nondet_size_t();
	__CPROVER_assume(r <= n);
	if (r == 0) {
		g_os.failed = 1;
		return (0);
	}
	if (g_rd_base != NULL) {
		__CPROVER_assert(__CPROVER_same_object(buf, g_rd_base) && __CPROVER_POINTER_OFFSET(buf) ==
		    __CPROVER_POINTER_OFFSET(g_rd_base) + (g_os.pos - g_rd_base_pos),
		    "read(2) monitor: the buffer is the next unfilled byte of the caller's buffer");
		buf = g_rd_base + (g_os.pos - g_rd_base_pos);
	}
	__CPROVER_havoc_slice(buf, r);
	if ((size_t)(g_er_idx - g_os.pos) < r)
		g_er_snap = ((const uint8_t *)buf)[g_er_idx - g_os.pos];
	g_os.pos += r;
	return ((ssize_t)r);
}

int
close(int fd)
{

	__CPROVER_assert((g_os.fd_state == OS_FD_OPEN || g_os.fd_state == OS_FD_EINTR) && fd == g_os.fd,
	    "close(2): the descriptor is open (or a close was interrupted) -- no double close");
	g_os.closes++;
	if (nondet_int()) {
		g_os.fd_state = OS_FD_CLOSED;
		return (0);
	}
	errno = os_nonzero_errno();
	g_os.fd_state = (errno == EINTR) ? OS_FD_EINTR : OS_FD_CLOSEFAILED;
	return (-1);
}

/* diagnostics: no effect on anything the contracts talk about */
void
libcperciva_warn(const char * fmt, ...)
{

	(void)fmt;
}

void
libcperciva_warnx(const char * fmt, ...)
{

	(void)fmt;
}
