/*
 * models/net_ghost.h -- ghost state shared by the event-loop model (net_events.c), the POSIX socket model
 * (net_os.c), the contracts of network/*.c and netbuf/*.c (contracts/network__*.spec, netbuf__*.spec) and the
 * C06/C07 harnesses.  Everything here is specification state: the real code never sees it.
 */
#ifndef NET_GHOST_H_
#define NET_GHOST_H_
#include <stddef.h>
#include <stdint.h>
#include <sys/types.h>

/* ---------------------------------------------------------------------------------------------------------
 * Event loop (abstract model of events_network_*, events_immediate_*, events_timer_*).
 * One slot per direction: the modules verified here have at most one descriptor in flight per direction; a
 * registration for a second descriptor while the slot is taken is outside the model (MODEL-BOUND -> undecided).
 */
struct net_reg {
	int active;			/* a callback is registered for (fd, direction) */
	int fd;
	int (* func)(void *);
	void * cookie;
};
extern struct net_reg g_net_reg[2];	/* index = EVENTS_NETWORK_OP_READ (0) / _WRITE (1) */
extern unsigned g_net_nreg[2];		/* successful events_network_register calls */
extern unsigned g_net_nregfail[2];	/* failed ones */
extern unsigned g_net_ncancel[2];	/* successful events_network_cancel calls */
extern unsigned g_net_ncancelmiss;	/* events_network_cancel calls that found nothing (ENOENT) */

struct net_ev {
	int active;
	int (* func)(void *);
	void * cookie;
	unsigned nreg;			/* successful registrations */
	unsigned ncancel;		/* cancellations */
};
extern struct net_ev g_imm;		/* the (single) pending immediate event */
extern struct net_ev g_tmr;		/* the (single) pending timer */
extern char g_imm_handle[1];		/* what events_immediate_register returns */
extern char g_tmr_handle[1];		/* what events_timer_register returns */
extern long g_tmr_sec, g_tmr_usec;	/* timeout passed to events_timer_register */

/* ---------------------------------------------------------------------------------------------------------
 * Peer stream seen through recv(2): an infinite sequence of bytes of which one arbitrary position is named
 * (G1: ghost point).  g_peer_pos = number of stream bytes the kernel has delivered so far.
 */
extern size_t g_peer_pos;
extern size_t g_peer_idx;		/* ghost position, chosen by the harness */
extern uint8_t g_peer_byte;		/* the stream byte at g_peer_idx */
extern unsigned g_recv_calls;
extern int g_recv_fd;			/* arguments of the last recv call */
extern int g_recv_flags;
extern int g_recv_last;			/* the last recv: -1 error, 0 end of stream, 1 delivered >= 1 byte */
extern int g_recv_errno;		/* errno set by the last failing recv */

/* Bytes handed to send(2): g_sent_pos = number of bytes the kernel accepted so far; at the ghost position
 * g_peer_idx the accepted byte is recorded. */
extern size_t g_sent_pos;
extern int g_sent_seen;			/* the byte at stream position g_peer_idx has been accepted */
extern uint8_t g_sent_byte;		/* ... and this is it */
extern unsigned g_sent_dup;		/* position g_peer_idx accepted more than once (never, by construction) */
extern unsigned g_send_calls;
extern int g_send_fd;
extern int g_send_flags;		/* flags of the last send call */
extern int g_send_last;			/* the last send: -1 error, 1 accepted >= 1 byte */
extern int g_send_errno;		/* errno set by the last failing send */
extern int g_send_allflags_ok;		/* every send call so far carried exactly MSG_NOSIGNAL */

/* accept(2) */
extern unsigned g_accept_calls;
extern int g_accept_fd;
extern int g_accept_ret;
extern int g_accept_errno;

/* connect path: sock_connect_bind_nb / getsockopt(SO_ERROR) / close */
struct sock_addr;
extern struct sock_addr * const * g_conn_base;	/* the caller's NULL-terminated address list */
extern const struct sock_addr * g_conn_sab;	/* the bind address */
extern size_t g_conn_next;		/* index of the next address that has to be tried */
extern int g_conn_sock;			/* socket of the current attempt (-1: none) */
extern int g_conn_sock_open;		/* ... and it is open */
extern unsigned g_close_calls;
extern unsigned g_sockopt_calls;
extern int g_sockopt_err;		/* SO_ERROR value delivered by the last getsockopt */
extern unsigned g_setsockopt_calls;

/* ---------------------------------------------------------------------------------------------------------
 * Network layer as seen by netbuf (models/net_netapi.c): the pending read / write request of one connection.
 */
struct network_ssl_ctx;
struct net_rq {
	int active;			/* a request is PENDING */
	int fd;
	void * ssl;			/* non-NULL: started through the SSL variant */
	const uint8_t * buf;
	size_t buflen;
	size_t minlen;
	int (* callback)(void *, ssize_t);
	void * cookie;
	unsigned nstart;		/* requests started */
	unsigned nfail;			/* failed attempts to start one */
	unsigned ncancel;		/* requests cancelled */
};
extern struct net_rq g_nrd, g_nwr;
extern char g_nrd_handle[1], g_nwr_handle[1];
void * h_ssl_read(struct network_ssl_ctx *, uint8_t *, size_t, size_t, int (*)(void *, ssize_t), void *);
void h_ssl_read_cancel(void *);
void * h_ssl_write(struct network_ssl_ctx *, const uint8_t *, size_t, size_t, int (*)(void *, ssize_t), void *);
void h_ssl_write_cancel(void *);

/* atexit */
extern unsigned g_atexit_calls;
extern void (* g_atexit_func)(void);

#endif /* !NET_GHOST_H_ */
