/*
 * models/bn_entropy.c -- stand-in for crypto_entropy_read() in the Diffie-Hellman groups (C10, C20-DH):
 * "returns any 32 bytes, or fails".  This is what C11's contract of crypto_entropy_read guarantees a caller
 * (frame: buf[0 .. buflen) and the generator's own statics; result 0 or -1); the bytes are arbitrary here so that
 * every statement proved holds for EVERY blinding value.  The value delivered is remembered in g_bn.rand_val.
 * The buffer is registered as secret for the C20 taint tracking of models/bn_model.c.
 */
#include <string.h>
#include "bn_model.h"
#include "crypto_entropy.h"

int
crypto_entropy_read(uint8_t * buf, size_t buflen)
{
	uint8_t fresh[32];	/* arbitrary */
	bn_val_t v = 0;
	int i;

	__CPROVER_assert(buflen == 32, "MODEL-BOUND bn_entropy: 32-byte requests only");
	__CPROVER_assume(buflen == 32);
	g_bn.rand_calls++;
	g_bn.secret_rand = buf;
	memcpy(buf, fresh, 32);
	if (bn_sched_fail()) {
		g_bn.rand_fail++;
		return (-1);
	}
	for (i = 0; i < 32; i++)
		v = (v << 8) | (bn_val_t)fresh[i];
	g_bn.rand_val = v;
	return (0);
}
