/*
 * x86_crc32.c -- C models of the SSE4.2 CRC32 instruction (GCC builtins behind _mm_crc32_u8/_u32/_u64).
 * TRUSTED (assumed contracts, G6).  Intel SDM vol. 2A, CRC32 -- Accumulate CRC32 Value, operation for an
 * N-bit source (N = 8, 32, 64):
 *     TEMP1[N-1:0]  <- BIT_REFLECT_N(SRC)          TEMP2[31:0] <- BIT_REFLECT32(DEST[31:0])
 *     TEMP3[N+31:0] <- TEMP1 << 32                 TEMP4[N+31:0] <- TEMP2 << N
 *     TEMP5 <- TEMP3 XOR TEMP4                     TEMP6[31:0] <- TEMP5 MOD2 11EDC6F41H
 *     DEST[31:0] <- BIT_REFLECT32(TEMP6)           (64-bit form: DEST[63:32] <- 0)
 * x86sdm_crc32() below is that text, bit for bit (with loops).  The builtins themselves must be loop-free
 * (they are called from inside functions proved with DFCC loop contracts) and are written as N/8 applications of
 * the bit-serial byte step of spec/c03_crc32c_spec.h to the source bytes, least significant byte first;
 * harness/C03/crc_insn_leaf.c PROVES  builtin == SDM text  for all (DEST, SRC) of all three widths, so the trusted
 * statement is only the SDM pseudo-code.  models/x86_selftest.c cross-checks against the real instruction.
 */
#include <stdint.h>
#include "c03_crc32c_spec.h"
#pragma CPROVER check push
#pragma CPROVER check disable "bounds"
#pragma CPROVER check disable "pointer"
#pragma CPROVER check disable "pointer-overflow"
#pragma CPROVER check disable "conversion"

/* the SDM pseudo-code, for a source of n bits (n = 8, 32, 64); used only by the leaf lemma */
uint32_t
x86sdm_crc32(uint32_t dest, uint64_t src, int n)
{
	unsigned __CPROVER_bitvector[97] t1 = 0, t2 = 0, t5, poly = 0x11EDC6F41ULL;
	uint32_t t6, r = 0;

	for (int i = 0; i < n; i++)		/* BIT_REFLECT_N(SRC) */
		if ((src >> i) & 1)
			t1 |= (unsigned __CPROVER_bitvector[97])1 << (n - 1 - i);
	for (int i = 0; i < 32; i++)		/* BIT_REFLECT32(DEST) */
		if ((dest >> i) & 1)
			t2 |= (unsigned __CPROVER_bitvector[97])1 << (31 - i);
	t5 = (t1 << 32) ^ (t2 << n);
	for (int i = n + 31; i >= 32; i--)	/* MOD2 11EDC6F41H: polynomial long division over GF(2) */
		if ((t5 >> i) & 1)
			t5 ^= poly << (i - 32);
	t6 = (uint32_t)t5;
	for (int i = 0; i < 32; i++)		/* BIT_REFLECT32(TEMP6) */
		if ((t6 >> i) & 1)
			r |= (uint32_t)1 << (31 - i);
	return (r);
}

#define X86_CRC_B(s, v, k) spec_crc32c_byte(s, (uint8_t)(((v) >> (8 * (k))) & 0xff))
unsigned int
__builtin_ia32_crc32qi(unsigned int c, unsigned char v)
{

	return (spec_crc32c_byte(c, v));
}

unsigned int
__builtin_ia32_crc32si(unsigned int c, unsigned int v)
{
	uint32_t s = c;

	s = X86_CRC_B(s, v, 0);
	s = X86_CRC_B(s, v, 1);
	s = X86_CRC_B(s, v, 2);
	s = X86_CRC_B(s, v, 3);
	return (s);
}

unsigned long long
__builtin_ia32_crc32di(unsigned long long c, unsigned long long v)
{
	uint32_t s = (uint32_t)(c & 0xffffffffu);

	s = X86_CRC_B(s, v, 0);
	s = X86_CRC_B(s, v, 1);
	s = X86_CRC_B(s, v, 2);
	s = X86_CRC_B(s, v, 3);
	s = X86_CRC_B(s, v, 4);
	s = X86_CRC_B(s, v, 5);
	s = X86_CRC_B(s, v, 6);
	s = X86_CRC_B(s, v, 7);
	return ((unsigned long long)s);
}
#pragma CPROVER check pop
