/*
 * models/drbg_hmac.h -- ghost state of the abstract HMAC-SHA256 used by the C11 (HMAC_DRBG) proofs.
 *
 * G2 (lockstep trace abstraction): HMAC is an uninterpreted leaf.  Every completed HMAC computation
 * (Init/Update* /Final, or Buf) gets the next call index g_hm.n, records (key bytes, concatenated message
 * bytes) and returns 32 fresh nondeterministic bytes.  Whatever the real HMAC is (its conformance is C01's
 * business), it is one of the behaviours of this model, so a statement proved about the *trace* of calls
 * holds for the real function.
 *
 * The log is a sliding window of HM_LOGN consecutive call indices starting at the ghost index g_hm_base,
 * which the harness chooses arbitrarily (G1: every relation of SP 800-90A links calls at distance <= 3, so a
 * window of 4 placed anywhere covers "for all calls").  Call indices live in Z/2^64; all comparisons are on
 * differences, so a wrap of the counter is harmless.
 */
#ifndef DRBG_HMAC_H_
#define DRBG_HMAC_H_
#include <stddef.h>
#include <stdint.h>

#ifndef HM_DMAX
#define HM_DMAX 64			/* longest provided_data the model can log */
#endif
#define HM_MMAX (33 + HM_DMAX)		/* V || 0x0? || provided_data */
#ifndef HM_LOGN
#define HM_LOGN 4
#endif

struct hm_entry {
	size_t klen;
	uint8_t key[32];
	size_t mlen;
	uint8_t msg[HM_MMAX];
	uint8_t out[32];
};

struct hm_state {
	size_t n;			/* completed HMAC computations so far */
	int open;			/* a streaming computation is in progress */
	const void * ctx;		/* its context (identity only) */
	struct hm_entry cur;		/* its key and the message absorbed so far */
	struct hm_entry log[HM_LOGN];	/* calls g_hm_base .. g_hm_base + HM_LOGN - 1 */
};

extern struct hm_state g_hm;
extern size_t g_hm_base;

#define HM_D(k)		((size_t)((size_t)(k) - g_hm_base))
#define HM_INWIN(k)	(HM_D(k) < HM_LOGN)
#define HM_E(k)		(g_hm.log[HM_D(k)])

#endif /* !DRBG_HMAC_H_ */
