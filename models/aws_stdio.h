/*
 * models/aws_stdio.h -- ghost state of the fopen/fgets/ferror/fclose model (models/aws_stdio.c).
 */
#ifndef AWS_STDIO_H_
#define AWS_STDIO_H_
#include <stddef.h>

#ifndef KEYS_NLINES
#define KEYS_NLINES 3		/* lines a file can deliver */
#endif
#ifndef KEYS_LINEMAX
#define KEYS_LINEMAX 40		/* characters per line (newline included) */
#endif

struct aws_stdio_ghost {
	int open;		/* the stream is open */
	int err;		/* error indicator */
	size_t lines;		/* lines delivered so far */
	size_t remaining;	/* KEYS_UNBOUNDED: lines the file still holds */
	size_t fopen_calls, fgets_calls, fclose_calls;
};
extern struct aws_stdio_ghost g_aws_stdio;

#endif /* !AWS_STDIO_H_ */
