#ifndef EV_MONOCLOCK_H_
#define EV_MONOCLOCK_H_
#include <sys/time.h>
/* seconds bound that keeps deadline arithmetic far from time_t overflow (assumed) */
#define EV_SEC_MAX ((time_t)1 << 60)
extern struct timeval g_mc_now;	/* latest value handed out by monoclock_get (the "current time" of the monitor) */
extern unsigned g_mc_calls;
#define EV_TV_OK(tv)	((tv).tv_sec >= 0 && (tv).tv_sec <= EV_SEC_MAX && (tv).tv_usec >= 0 && (tv).tv_usec < 1000000)
#define EV_TV_LE(a, b)	((a).tv_sec < (b).tv_sec || ((a).tv_sec == (b).tv_sec && (a).tv_usec <= (b).tv_usec))
#endif
