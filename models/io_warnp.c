/*
 * models/io_warnp.c -- util/warnp.c replaced by silence: warn()/warnx() format a message to stderr/syslog.  Their
 * "%s" arguments in the verified callers are the caller's own NUL-terminated file name.  Assumed: no other effect.
 */
void
libcperciva_warn(const char * fmt, ...)
{

	(void)fmt;
}

void
libcperciva_warnx(const char * fmt, ...)
{

	(void)fmt;
}
