/*
 * models/heap_memcpy.c -- model of memcpy(3) for the C13 pointer-heap groups (assumed contract of external
 * code, C11 7.24.2.1), specialised to the two sizes that ptrheap.c / timerqueue.c / elasticarray.c (as the
 * storage of a PTRLIST) ever copy: one pointer (elasticarray_append of one void *) and one struct timeval.
 *
 * Why not CBMC's built-in memcpy: it copies through a char array (__CPROVER_array_replace); a pointer that went
 * through it loses its points-to set, every later store through an element pointer is then expanded over all
 * address-taken objects of the program (measured: an 80 MB SSA program and > 12 GB for a 3-element heap under
 * DFCC).  A typed word copy keeps the points-to sets exact.  Any other size hits a MODEL-BOUND assertion (the
 * group is then undecided, never silently wrong).
 */
#include <stddef.h>
#include <stdint.h>

void *
memcpy(void * dst, const void * src, size_t n)
{

	if (n == sizeof(void *)) {
		*(void **)dst = *(void * const *)src;
	} else if (n == 2 * sizeof(uint64_t)) {
		((uint64_t *)dst)[0] = ((const uint64_t *)src)[0];
		((uint64_t *)dst)[1] = ((const uint64_t *)src)[1];
	} else if (n != 0) {
		__CPROVER_assert(0, "MODEL-BOUND memcpy: size other than one pointer / one struct timeval");
		__CPROVER_assume(0);
	}
	return (dst);
}
