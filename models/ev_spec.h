/*
 * EV_SPEC_BEGIN / EV_SPEC_END: bracket specification text (assumed invariants, harness assertions over ghost
 * indices) in a harness.  Like the driver does for inserted contract clauses, pointer/bounds/conversion checks
 * are switched off for these expressions only (an invariant evaluated at an arbitrary ghost index is not program
 * text); the program's own statements keep every check.
 */
#ifndef EV_SPEC_H_
#define EV_SPEC_H_
#ifdef VERIF_NATIVE
#define EV_SPEC_BEGIN
#define EV_SPEC_END
#else
#define EV_SPEC_BEGIN _Pragma("CPROVER check push") _Pragma("CPROVER check disable \"pointer\"") \
	_Pragma("CPROVER check disable \"pointer-overflow\"") _Pragma("CPROVER check disable \"conversion\"") \
	_Pragma("CPROVER check disable \"bounds\"") _Pragma("CPROVER check disable \"pointer-primitive\"")
#define EV_SPEC_END _Pragma("CPROVER check pop")
#endif
#endif
