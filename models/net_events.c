/*
 * models/net_events.c -- abstract model (assumed contract, G6) of the event-loop API used by network/*.c and
 * netbuf/*.c: events_network_register/_cancel, events_immediate_register/_cancel, events_timer_register/_cancel.
 *
 * The real implementations are verified against the same statements by C04 (events/*.c); here they are the
 * interface the I/O modules are verified against:
 *   - events_network_register(func, cookie, s, op): fails (-1, nothing changed) when s < 0, when op is not
 *     READ/WRITE, when (s, op) already has a registration (EEXIST), or for any other reason (allocation failure:
 *     nondeterministic); otherwise records exactly (func, cookie) for (s, op) and returns 0.
 *     => "at most one registration per (fd, direction)".
 *   - events_network_cancel(s, op): ENOENT / -1 if nothing is registered, otherwise removes the registration.
 *   - events_immediate_register / events_timer_register: NULL (nothing registered) or a handle; _cancel takes
 *     that handle and removes the registration; cancelling anything else is a caller error (assertion).
 * The event loop itself (taking a registration out of the table and running its callback) is played by the
 * harness: it clears `active` before it calls the callback, exactly like events_network_get / doevent (C04).
 */
#include <errno.h>
#include <stddef.h>
#include <sys/time.h>

#include "net_ghost.h"

#ifndef VERIF_NATIVE
#define MODEL_BOUND(what) do { __CPROVER_assert(0, "MODEL-BOUND " what); __CPROVER_assume(0); } while (0)
int nondet_int(void);
#else
#define MODEL_BOUND(what) do {} while (0)
#endif

struct net_reg g_net_reg[2];
unsigned g_net_nreg[2];
unsigned g_net_nregfail[2];
unsigned g_net_ncancel[2];
unsigned g_net_ncancelmiss;
struct net_ev g_imm;
struct net_ev g_tmr;
char g_imm_handle[1];
char g_tmr_handle[1];
long g_tmr_sec, g_tmr_usec;

int
events_network_register(int (* func)(void *), void * cookie, int s, int op)
{
	int fail = nondet_int();

	/* The I/O modules only ever pass the two directions; anything else is their bug. */
	__CPROVER_assert(op == 0 || op == 1, "events_network_register: op is EVENTS_NETWORK_OP_READ or _WRITE");
	if (op != 0 && op != 1) {
		errno = 0;
		return (-1);
	}

	/* Invalid descriptor. */
	if (s < 0) {
		errno = 0;
		g_net_nregfail[op]++;
		return (-1);
	}

	/* A second descriptor in the same direction is outside this model. */
	if (g_net_reg[op].active && g_net_reg[op].fd != s)
		MODEL_BOUND("events_network_register: second descriptor in one direction");

	/* Already registered. */
	if (g_net_reg[op].active) {
		errno = EEXIST;
		g_net_nregfail[op]++;
		return (-1);
	}

	/* Out of memory (record, socket list, pollfd array). */
	if (fail) {
		errno = ENOMEM;
		g_net_nregfail[op]++;
		return (-1);
	}

	g_net_reg[op].active = 1;
	g_net_reg[op].fd = s;
	g_net_reg[op].func = func;
	g_net_reg[op].cookie = cookie;
	g_net_nreg[op]++;
	return (0);
}

int
events_network_cancel(int s, int op)
{

	__CPROVER_assert(op == 0 || op == 1, "events_network_cancel: op is EVENTS_NETWORK_OP_READ or _WRITE");
	if (op != 0 && op != 1)
		return (-1);
	if (s < 0 || !g_net_reg[op].active || g_net_reg[op].fd != s) {
		errno = ENOENT;
		g_net_ncancelmiss++;
		return (-1);
	}
	g_net_reg[op].active = 0;
	g_net_ncancel[op]++;
	return (0);
}

void *
events_immediate_register(int (* func)(void *), void * cookie, int prio)
{
	int fail = nondet_int();

	__CPROVER_assert(prio >= 0 && prio < 32, "events_immediate_register: 0 <= prio < 32");
	if (g_imm.active)
		MODEL_BOUND("events_immediate_register: second pending immediate event");
	if (fail)
		return (NULL);
	g_imm.active = 1;
	g_imm.func = func;
	g_imm.cookie = cookie;
	g_imm.nreg++;
	return (g_imm_handle);
}

void
events_immediate_cancel(void * cookie)
{

	__CPROVER_assert(cookie == (void *)g_imm_handle && g_imm.active,
	    "events_immediate_cancel: the handle of a pending immediate event");
	g_imm.active = 0;
	g_imm.ncancel++;
}

void *
events_timer_register(int (* func)(void *), void * cookie, const struct timeval * timeo)
{
	int fail = nondet_int();

	if (g_tmr.active)
		MODEL_BOUND("events_timer_register: second pending timer");
	/* The timeout is read even when the registration fails later. */
	g_tmr_sec = timeo->tv_sec;
	g_tmr_usec = timeo->tv_usec;
	if (fail)
		return (NULL);
	g_tmr.active = 1;
	g_tmr.func = func;
	g_tmr.cookie = cookie;
	g_tmr.nreg++;
	return (g_tmr_handle);
}

void
events_timer_cancel(void * cookie)
{

	__CPROVER_assert(cookie == (void *)g_tmr_handle && g_tmr.active,
	    "events_timer_cancel: the handle of a pending timer");
	g_tmr.active = 0;
	g_tmr.ncancel++;
}
