/*
 * models/heap_realloc.c -- model of realloc(3) for the C13 pointer-heap groups (assumed contract of external
 * code, C11 7.22.3.5): returns NULL and leaves the old object alone, or returns a new object whose first
 * min(old size, size) bytes equal the old contents (the rest indeterminate) and releases the old object.
 *
 * Why not CBMC's built-in realloc: it allocates an object of *symbolic* size; an array of pointers of symbolic
 * size is encoded byte-wise through the array theory and the propositional formula for a 3-element heap already
 * exceeds 16 GB; a case split into exact constant sizes makes the points-to set of the buffer pointer so large
 * that the SSA program explodes (80 MB at 3 elements).  Therefore: every pointer-list buffer is a heap object of
 * constant *capacity* HEAP_RA_CAPSLOTS pointers, and its *logical* size (what was requested) is tracked in the
 * ghost pair (g_heap_ra_buf, g_heap_ra_size).  Accesses are checked against the logical size by the ghost
 * assertions of contracts/c13_elasticarray_bounds.spec, not by CBMC's object bounds.
 * Requests that are not a multiple of sizeof(void *) or exceed the capacity hit a MODEL-BOUND assertion (group
 * undecided).  Failure comes from malloc (--malloc-may-fail --malloc-fail-null).  realloc(p, 0) is not
 * special-cased (elasticarray.c never calls it: it frees instead).
 */
#include <stdlib.h>

#ifndef HEAP_RA_CAPSLOTS
#ifdef HP_MAXN
#define HEAP_RA_CAPSLOTS (2 * (HP_MAXN + 1))
#else
#define HEAP_RA_CAPSLOTS 32
#endif
#endif
/* the pointer-wise copy list below covers old logical sizes up to 32 pointers (checked at run time) */

/* capacity of the objects the harness hands in (defaults to the capacity of the objects made here) */
#ifndef HEAP_RA_OLDCAPSLOTS
#define HEAP_RA_OLDCAPSLOTS HEAP_RA_CAPSLOTS
#endif

void * g_heap_ra_buf;		/* ghost: the tracked buffer ... */
size_t g_heap_ra_size;		/* ... and its logical size in bytes */

#define RA_CP_(j) if ((j) < HEAP_RA_CAPSLOTS && (j) < HEAP_RA_OLDCAPSLOTS && (j) < ncopy) nw[j] = old[j];

void *
realloc(void * ptr, size_t size)
{
	void ** nw;

	if (size % sizeof(void *) != 0 || size / sizeof(void *) > HEAP_RA_CAPSLOTS) {
		__CPROVER_assert(0, "MODEL-BOUND realloc: size is not a multiple of sizeof(void *) within the capacity");
		__CPROVER_assume(0);
	}
	if (ptr == NULL) {
		nw = malloc(HEAP_RA_CAPSLOTS * sizeof(void *));
		if (nw == NULL)
			return (NULL);
	} else {
		void ** old = ptr;
		size_t osize, ncopy;

		__CPROVER_assert(__CPROVER_DYNAMIC_OBJECT(ptr) && __CPROVER_POINTER_OFFSET(ptr) == 0,
		    "realloc argument is the start of a live heap object");
		__CPROVER_assert(ptr == g_heap_ra_buf, "MODEL-BOUND realloc: only the tracked pointer-list buffer is modelled");
		osize = g_heap_ra_size;
		ncopy = (osize < size ? osize : size) / sizeof(void *);
		if (ncopy > 32) {
			__CPROVER_assert(0, "MODEL-BOUND realloc: more than 32 pointers to copy");
			__CPROVER_assume(0);
		}
		nw = malloc(HEAP_RA_CAPSLOTS * sizeof(void *));
		if (nw == NULL)
			return (NULL);
		RA_CP_(0) RA_CP_(1) RA_CP_(2) RA_CP_(3) RA_CP_(4) RA_CP_(5) RA_CP_(6) RA_CP_(7)
		RA_CP_(8) RA_CP_(9) RA_CP_(10) RA_CP_(11) RA_CP_(12) RA_CP_(13) RA_CP_(14) RA_CP_(15)
		RA_CP_(16) RA_CP_(17) RA_CP_(18) RA_CP_(19) RA_CP_(20) RA_CP_(21) RA_CP_(22) RA_CP_(23)
		RA_CP_(24) RA_CP_(25) RA_CP_(26) RA_CP_(27) RA_CP_(28) RA_CP_(29) RA_CP_(30) RA_CP_(31)
		free(ptr);
	}
	g_heap_ra_buf = nw;
	g_heap_ra_size = size;
	return (nw);
}
