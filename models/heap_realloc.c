/*
 * models/heap_realloc.c -- model of realloc(3) for the C13 pointer-heap groups (assumed contract of external
 * code, C11 7.22.3.5): returns NULL and leaves the old object alone, or returns a new object of `size` bytes
 * whose first min(old size, size) bytes equal the old contents and releases the old object.
 *
 * Why not CBMC's built-in realloc: it allocates an object of *symbolic* size; an array of pointers of symbolic
 * size is encoded through the array theory byte by byte and the propositional formula for a 3-element heap
 * already exceeds 16 GB.  This model case-splits sizes that are a multiple of sizeof(void *) (the only sizes a
 * PTRLIST elastic array ever requests) up to HEAP_RA_MAXSLOTS pointers into constant-size allocations and
 * copies pointer-wise; every other size takes the generic path (symbolic-size object, byte copy).
 * Allocation failure comes from malloc (--malloc-may-fail --malloc-fail-null), realloc(p, 0) is not special-cased
 * (elasticarray.c never calls it: it frees instead).
 */
#include <stdlib.h>
#include <string.h>

#ifndef HEAP_RA_MAXSLOTS
#define HEAP_RA_MAXSLOTS 32
#endif

#define RA_CASE_(k) if ((k) <= HEAP_RA_MAXSLOTS && slots == (k)) { nw = malloc((k) * sizeof(void *)); } else
#define RA_COPY_(k) if ((k) < HEAP_RA_MAXSLOTS && (k) < ncopy) nw[k] = old[k];

void *
realloc(void * ptr, size_t size)
{
	size_t osize = (ptr != NULL) ? __CPROVER_OBJECT_SIZE(ptr) : 0;
	size_t slots = size / sizeof(void *);

	if (ptr != NULL)
		__CPROVER_assert(__CPROVER_DYNAMIC_OBJECT(ptr) && __CPROVER_POINTER_OFFSET(ptr) == 0,
		    "realloc argument is the start of a live heap object");
	if (size % sizeof(void *) == 0 && slots <= HEAP_RA_MAXSLOTS && osize % sizeof(void *) == 0 &&
	    osize / sizeof(void *) <= HEAP_RA_MAXSLOTS) {
		void ** nw;
		void ** old = ptr;
		size_t ncopy = (osize < size ? osize : size) / sizeof(void *);

		RA_CASE_(0) RA_CASE_(1) RA_CASE_(2) RA_CASE_(3) RA_CASE_(4) RA_CASE_(5) RA_CASE_(6) RA_CASE_(7)
		RA_CASE_(8) RA_CASE_(9) RA_CASE_(10) RA_CASE_(11) RA_CASE_(12) RA_CASE_(13) RA_CASE_(14) RA_CASE_(15)
		RA_CASE_(16) RA_CASE_(17) RA_CASE_(18) RA_CASE_(19) RA_CASE_(20) RA_CASE_(21) RA_CASE_(22) RA_CASE_(23)
		RA_CASE_(24) RA_CASE_(25) RA_CASE_(26) RA_CASE_(27) RA_CASE_(28) RA_CASE_(29) RA_CASE_(30) RA_CASE_(31)
		RA_CASE_(32) { nw = NULL; }
		if (nw == NULL)
			return (NULL);
		RA_COPY_(0) RA_COPY_(1) RA_COPY_(2) RA_COPY_(3) RA_COPY_(4) RA_COPY_(5) RA_COPY_(6) RA_COPY_(7)
		RA_COPY_(8) RA_COPY_(9) RA_COPY_(10) RA_COPY_(11) RA_COPY_(12) RA_COPY_(13) RA_COPY_(14) RA_COPY_(15)
		RA_COPY_(16) RA_COPY_(17) RA_COPY_(18) RA_COPY_(19) RA_COPY_(20) RA_COPY_(21) RA_COPY_(22) RA_COPY_(23)
		RA_COPY_(24) RA_COPY_(25) RA_COPY_(26) RA_COPY_(27) RA_COPY_(28) RA_COPY_(29) RA_COPY_(30) RA_COPY_(31)
		free(ptr);
		return (nw);
	} else {
		void * nw = malloc(size);

		if (nw == NULL)
			return (NULL);
		if (ptr != NULL) {
			memcpy(nw, ptr, osize < size ? osize : size);
			free(ptr);
		}
		return (nw);
	}
}
