/*
 * models/heap_realloc.c -- model of realloc(3) for the C13 pointer-heap groups (assumed contract of external
 * code, C11 7.22.3.5): returns NULL and leaves the old object alone, or returns a new object of `size` bytes
 * whose first min(old size, size) bytes equal the old contents and releases the old object.
 *
 * Why not CBMC's built-in realloc: it allocates an object of *symbolic* size; an array of pointers of symbolic
 * size is encoded through the array theory byte by byte and the propositional formula for a 3-element heap
 * already exceeds 16 GB.  This model case-splits sizes that are a multiple of sizeof(void *) (the only sizes a
 * PTRLIST elastic array ever requests) up to HEAP_RA_MAXSLOTS pointers into constant-size allocations and
 * copies pointer-wise; every other size hits a MODEL-BOUND assertion (the group is then undecided).
 * Allocation failure comes from malloc (--malloc-may-fail --malloc-fail-null), realloc(p, 0) is not special-cased
 * (elasticarray.c never calls it: it frees instead).
 */
#include <stdlib.h>

#ifndef HEAP_RA_MAXSLOTS
#ifdef HP_MAXN
#define HEAP_RA_MAXSLOTS (2 * (HP_MAXN + 1))
#else
#define HEAP_RA_MAXSLOTS 32
#endif
#endif
#if HEAP_RA_MAXSLOTS > 32
#error "HEAP_RA_MAXSLOTS > 32: extend the case list"
#endif

/* copy the first min(k, ncopy) pointers into the (single, constant-size) new object */
#define RA_CP_(j, k) if ((j) < (k) && (j) < ncopy) nw[j] = old[j];
#define RA_COPY_(k) \
	RA_CP_(0, k) RA_CP_(1, k) RA_CP_(2, k) RA_CP_(3, k) RA_CP_(4, k) RA_CP_(5, k) RA_CP_(6, k) RA_CP_(7, k) \
	RA_CP_(8, k) RA_CP_(9, k) RA_CP_(10, k) RA_CP_(11, k) RA_CP_(12, k) RA_CP_(13, k) RA_CP_(14, k) RA_CP_(15, k) \
	RA_CP_(16, k) RA_CP_(17, k) RA_CP_(18, k) RA_CP_(19, k) RA_CP_(20, k) RA_CP_(21, k) RA_CP_(22, k) RA_CP_(23, k) \
	RA_CP_(24, k) RA_CP_(25, k) RA_CP_(26, k) RA_CP_(27, k) RA_CP_(28, k) RA_CP_(29, k) RA_CP_(30, k) RA_CP_(31, k)
#define RA_CASE_(k) if ((k) <= HEAP_RA_MAXSLOTS && slots == (k)) { \
		nw = malloc((k) * sizeof(void *)); \
		if (nw != NULL && old != NULL) { RA_COPY_(k) } \
	} else

void *
realloc(void * ptr, size_t size)
{
	size_t osize = (ptr != NULL) ? __CPROVER_OBJECT_SIZE(ptr) : 0;
	size_t slots = size / sizeof(void *);

	if (ptr != NULL)
		__CPROVER_assert(__CPROVER_DYNAMIC_OBJECT(ptr) && __CPROVER_POINTER_OFFSET(ptr) == 0,
		    "realloc argument is the start of a live heap object");
	if (size % sizeof(void *) == 0 && slots <= HEAP_RA_MAXSLOTS && osize % sizeof(void *) == 0 &&
	    osize / sizeof(void *) <= HEAP_RA_MAXSLOTS) {
		void ** nw;
		void ** old = ptr;
		size_t ncopy = (osize < size ? osize : size) / sizeof(void *);

		RA_CASE_(0) RA_CASE_(1) RA_CASE_(2) RA_CASE_(3) RA_CASE_(4) RA_CASE_(5) RA_CASE_(6) RA_CASE_(7)
		RA_CASE_(8) RA_CASE_(9) RA_CASE_(10) RA_CASE_(11) RA_CASE_(12) RA_CASE_(13) RA_CASE_(14) RA_CASE_(15)
		RA_CASE_(16) RA_CASE_(17) RA_CASE_(18) RA_CASE_(19) RA_CASE_(20) RA_CASE_(21) RA_CASE_(22) RA_CASE_(23)
		RA_CASE_(24) RA_CASE_(25) RA_CASE_(26) RA_CASE_(27) RA_CASE_(28) RA_CASE_(29) RA_CASE_(30) RA_CASE_(31)
		RA_CASE_(32) { nw = NULL; }
		if (nw == NULL)
			return (NULL);
		free(ptr);
		return (nw);
	} else {
		/* outside the modelled range: reported as a model bound (group undecided), never silently cut off */
		__CPROVER_assert(0, "MODEL-BOUND realloc: size is not a multiple of sizeof(void *) <= HEAP_RA_MAXSLOTS pointers");
		__CPROVER_assume(0);
		return (NULL);
	}
}
