/*
 * models/getopt_stdio.c -- stand-in for the diagnostics channel of util/getopt.c (PRINTMSG = up to three
 * fprintf(stderr, ...) calls).  What is written to stderr is not part of any property; the model only records THAT
 * a message was printed (ghost flag g_go_warned), so that the contracts can say when getopt() complains (opterr != 0
 * and no GETOPT_MISSING_ARG handler) and when it must stay silent.
 *
 * goto-instrument --dfcc cannot pass its write-set parameter through a variadic callee (measured: the parameter is
 * garbage inside a user-defined fprintf(FILE *, const char *, ...) and every assignment in it fails its frame check),
 * so the getopt harnesses map the call at preprocessing time (harness/C18/go_pre.h):
 *     #define fprintf(f, ...) ((void)(f), (void)(__VA_ARGS__), go_msg())
 * All argument expressions are still evaluated (their pointer checks stay); the strings behind %s are not read.
 * abort() is CBMC's built-in (the path ends: DIE() never returns).
 */
int g_go_warned;

int
go_msg(void)
{

	g_go_warned = 1;
	return (0);
}
