/*
 * models/bn_model.h -- model of the OpenSSL BIGNUM interface used by crypto/crypto_dh.c (C10, C20-DH).
 *
 * G6 (assumed contracts, from the OpenSSL manual pages BN_new(3), BN_bin2bn(3), BN_add(3), BN_mod_mul(3),
 * BN_num_bytes(3), BN_set_word(3), BN_CTX_new(3)):
 *  - a BIGNUM is a handle (slot number) into a ghost table; slot k carries a mathematical value v[k] (unsigned
 *    2112-bit vector: every value the DH code can form is below 2^2049; MODEL-BOUND assertions guard the
 *    capacity), a sign, a liveness flag and a taint flag;
 *  - BN_bin2bn / BN_bn2bin / BN_add / BN_sub / BN_num_bits / BN_set_word are EXACT on the value;
 *  - BN_mod_exp / BN_mod_mul are ABSTRACT (G2): call k of the two logs (operation, operand values, modulus
 *    value) and returns a fresh value in [0, m).  The only algebra used about them is on paper:
 *    a^x * a^y == a^(x+y) (mod m);
 *  - every constructor may return NULL, every operation may return 0 (failure);
 *  - using a BIGNUM after it was released, or releasing it twice, is a failed assertion;
 *  - C20: the taint flag marks bignums derived from the private or the blinding value (set by BN_bin2bn when
 *    the source bytes are one of the registered secret buffers, propagated through add/sub/mod_exp/mod_mul);
 *    BN_free() REQUIRES !tainted (plain assertion = obligation of the caller), BN_clear_free() wipes.
 * The whole ghost state is one object (g_bn), so that it is a single assigns-clause target; slots are handed
 * out in order, so every table index is a constant along the success path (cheap for the verifier).
 */
#ifndef BN_MODEL_H_
#define BN_MODEL_H_
#include <stddef.h>
#include <stdint.h>
#include <openssl/bn.h>
#include <openssl/err.h>

typedef unsigned __CPROVER_bitvector[2112] bn_val_t;

struct bignum_st {
	int id;			/* slot number, fixed at creation */
};
struct bignum_ctx {
	int unused;
};

enum { BN_OP_MODEXP = 1, BN_OP_MODMUL = 2 };
struct bn_call {
	int op;
	bn_val_t a, b, m;	/* mod_exp: base, exponent, modulus; mod_mul: factors, modulus */
	bn_val_t out;		/* fresh result, < m */
};
#define BN_LOGN 3
#define BN_MAXOBJ 10

struct bn_state {
	size_t ncalls;			/* abstract operations logged so far */
	struct bn_call log[BN_LOGN];
	/* the table */
	int nalloc;			/* slots handed out so far */
	struct bignum_st obj[BN_MAXOBJ];
	bn_val_t v[BN_MAXOBJ];		/* |value| */
	int neg[BN_MAXOBJ];		/* value < 0 */
	int alive[BN_MAXOBJ];		/* created and not yet released */
	int tainted[BN_MAXOBJ];		/* derived from the private or the blinding value */
	struct bignum_ctx ctx;
	int ctx_alive;
	/* memo of the last BN_num_bits question */
	int nb_valid;
	bn_val_t nb_val;
	int nb_bits;
	/* failure schedule (see bn_sched_fail) */
	int fail_at;
	int opcount;			/* constructor / operation / entropy calls that may fail, so far */
	/* counters */
	size_t live;			/* BIGNUMs and BN_CTXs created and not yet released */
	size_t nfail;			/* constructor / operation failures reported to the caller */
	size_t dirty_free;		/* BN_free() calls on a tainted bignum (C20) */
	/* the secret byte buffers (C20): the caller's private value, the buffer last filled by crypto_entropy_read */
	const uint8_t * secret_priv;
	const uint8_t * secret_rand;
	/* the entropy stand-in: value of the 32 bytes it delivered last (big-endian), failures, calls */
	bn_val_t rand_val;
	size_t rand_fail;
	size_t rand_calls;
};
extern struct bn_state g_bn;
#define BN_FAIL_ANY	(-2)
#define BN_FAIL_NONE	(-1)
int bn_sched_fail(void);

#define BN_VAL(a)	(g_bn.v[(a)->id])

#endif /* !BN_MODEL_H_ */
