/*
 * models/bn_model.h -- model of the OpenSSL BIGNUM interface used by crypto/crypto_dh.c (C10, C20-DH).
 *
 * G6 (assumed contracts, from the OpenSSL manual pages BN_new(3), BN_bin2bn(3), BN_add(3), BN_mod_mul(3),
 * BN_num_bytes(3), BN_set_word(3), BN_CTX_new(3)):
 *  - a BIGNUM carries a ghost mathematical value v (unsigned 2112-bit vector: every value the DH code can form
 *    is below 2^2049; a MODEL-BOUND assertion guards the capacity) and a sign;
 *  - BN_bin2bn / BN_bn2bin / BN_add / BN_sub / BN_num_bits / BN_set_word are EXACT on v;
 *  - BN_mod_exp / BN_mod_mul are ABSTRACT (G2): call k of the two logs (operation, operand values, modulus
 *    value) and returns a fresh value in [0, m).  The only algebra used about them is on paper:
 *    a^x * a^y == a^(x+y) (mod m);
 *  - every constructor may return NULL, every operation may return 0 (failure);
 *  - C20: a ghost `tainted` bit marks bignums derived from the private or the blinding value (set by BN_bin2bn
 *    when the source bytes are the registered secret buffers, propagated through add/sub/mod_exp/mod_mul);
 *    BN_free() REQUIRES !tainted (plain assertion = obligation of the caller), BN_clear_free() clears.
 */
#ifndef BN_MODEL_H_
#define BN_MODEL_H_
#include <stddef.h>
#include <stdint.h>
#include <openssl/bn.h>
#include <openssl/err.h>

typedef unsigned __CPROVER_bitvector[2112] bn_val_t;
#define BN_VAL_BYTES 264

struct bignum_st {
	bn_val_t v;		/* |value| */
	int neg;		/* value < 0 */
	int tainted;		/* derived from the private or the blinding value */
};
struct bignum_ctx {
	int unused;
};

enum { BN_OP_MODEXP = 1, BN_OP_MODMUL = 2 };
struct bn_call {
	int op;
	bn_val_t a, b, m;	/* mod_exp: base, exponent, modulus; mod_mul: factors, modulus */
	bn_val_t out;		/* fresh result, < m */
};
#define BN_LOGN 3

struct bn_state {
	size_t ncalls;			/* abstract operations logged so far */
	struct bn_call log[BN_LOGN];
	size_t live;			/* BIGNUMs and BN_CTXs allocated and not yet released */
	size_t nfail;			/* constructor / operation failures reported to the caller */
	size_t dirty_free;		/* BN_free() calls on a tainted bignum (C20) */
};
extern struct bn_state g_bn;

/* the secret byte buffers (C20): the caller's private value and the buffer last filled by crypto_entropy_read */
extern const uint8_t * g_bn_secret_priv;
extern const uint8_t * g_bn_secret_rand;
/* what the entropy stub delivered (value of the 32 blinding bytes, big-endian) and whether it failed */
extern bn_val_t g_dh_rand_val;
extern size_t g_dh_rand_fail;
extern size_t g_dh_rand_calls;

#endif /* !BN_MODEL_H_ */
