#ifndef EV_SELECTSTATS_H_
#define EV_SELECTSTATS_H_
/* call counters of the selectstats stand-in (models/ev_selectstats.c) */
extern unsigned g_ss_start, g_ss_stop, g_ss_select;
#define EV_SS_TARGETS g_ss_start, g_ss_stop, g_ss_select
#endif
