/*
 * Abstract model (assumed contract) of datastruct/timerqueue.c for the events_timer.c proofs; the real
 * timer queue / pointer heap is C13's subject.  G1 for a container: ONE element is tracked exactly
 * (g_tq: deadline, pointer, cookie), the remaining g_tq_others elements are anonymous.
 */
#ifndef EV_TIMERQUEUE_H_
#define EV_TIMERQUEUE_H_
#include <stddef.h>
#include <sys/time.h>
#include "ev_monoclock.h"

struct ev_tq_elem {
	int in;			/* the tracked element is in the queue */
	struct timeval tv;	/* its deadline */
	void * ptr;		/* its pointer */
	void * cookie;		/* its handle */
};
extern struct ev_tq_elem g_tq;
extern size_t g_tq_others;		/* number of anonymous elements */
extern int g_tq_track_next;		/* the next successful timerqueue_add becomes the tracked element */
extern struct timeval g_tq_lastmin;	/* value behind the pointer returned by the latest timerqueue_getmin */
extern struct timeval g_tq_lastgot;	/* deadline of the element removed by the latest timerqueue_getptr */
extern int g_tq_freed;			/* timerqueue_free was called */
/* size of the objects handed back for anonymous elements: must equal sizeof(struct timerrec) of the client */
#ifndef EV_TQ_PTRSZ
#define EV_TQ_PTRSZ 32
#endif
#define EV_TQ_TARGETS g_tq, g_tq_others, g_tq_track_next, g_tq_lastmin, g_tq_lastgot, g_tq_freed
#endif
