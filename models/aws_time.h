/*
 * models/aws_time.h -- ghost state of the time()/gmtime_r()/strftime() models used by the C19 proofs.
 */
#ifndef AWS_TIME_H_
#define AWS_TIME_H_
#include <stddef.h>
#include <time.h>

struct aws_time_ghost {
	size_t time_calls;	/* calls of time() */
	int gm_valid;		/* gmtime_r has been evaluated at gm_arg */
	time_t gm_arg;
	struct tm gm_val;	/* its (arbitrary, well-formed) value there */
	size_t fmt_calls;	/* successful strftime calls */
	size_t fmt_len[4];	/* what the first four of them produced (length, bytes incl. NUL) */
	char fmt_out[4][32];
};
extern struct aws_time_ghost g_aws_time;

#endif /* !AWS_TIME_H_ */
