/*
 * models/io_inet.c -- assumed contracts (G6, POSIX) of the address functions used by util/sock.c:
 *   inet_pton(af, src, dst)  reads the string src up to its NUL; af == AF_INET: returns 1 and stores 4 bytes at dst, or
 *                            returns 0 (dst untouched); af == AF_INET6: same with 16 bytes; other af: -1, errno.
 *                            WHICH address the text denotes is the library's business (not modelled).
 *   htons(x)                 byte swap on this little-endian target.
 *   getaddrinfo              host-name forms go to the system resolver and are EXCLUDED by the property: the stub fails.
 */
#include <sys/socket.h>
#include <netinet/in.h>
#include <arpa/inet.h>
#include <netdb.h>
#include <stddef.h>
#include <stdint.h>
#include <string.h>

_Bool nondet_bool(void);
unsigned char nondet_uchar(void);

int
inet_pton(int af, const char * src, void * dst)
{
	size_t n, k;
	unsigned char * d = dst;
	(void)&k;

	(void)strlen(src);
	if (af != AF_INET && af != AF_INET6)
		return (-1);
	if (nondet_bool())
		return (0);
	n = (af == AF_INET) ? 4 : 16;
	for (k = 0; k < 16; k++)
		if (k < n)
			d[k] = nondet_uchar();
	return (1);
}

#undef htons
uint16_t
htons(uint16_t x)
{

	return ((uint16_t)(((x & 0xff) << 8) | (x >> 8)));
}

int
getaddrinfo(const char * node, const char * service, const struct addrinfo * hints, struct addrinfo ** res)
{

	(void)node; (void)service; (void)hints; (void)res;
	return (EAI_FAIL);
}

void
freeaddrinfo(struct addrinfo * res)
{

	(void)res;
}

const char *
gai_strerror(int e)
{

	(void)e;
	return ("model");
}
