/*
 * models/io_inet.c -- assumed contracts (G6, POSIX) of the address functions used by util/sock.c:
 *   inet_pton(af, src, dst)  reads the string src up to its NUL; af == AF_INET: returns 1 and stores 4 bytes at dst, or
 *                            returns 0 (dst untouched); af == AF_INET6: same with 16 bytes; other af: -1, errno.
 *                            WHICH address the text denotes is the library's business (not modelled).
 *   htons(x)                 byte swap on this little-endian target.
 *   getaddrinfo              host-name forms go to the system resolver and are EXCLUDED by the property: the stub fails.
 */
#include <sys/socket.h>
#include <netinet/in.h>
#include <arpa/inet.h>
#include <netdb.h>
#include <stddef.h>
#include <stdint.h>
#include <string.h>

_Bool nondet_bool(void);
unsigned char nondet_uchar(void);

int
inet_pton(int af, const char * src, void * dst)
{
	size_t n, k;
	unsigned char * d = dst;
	(void)&k;

	(void)strlen(src);
	if (af != AF_INET && af != AF_INET6)
		return (-1);
	if (nondet_bool())
		return (0);
	n = (af == AF_INET) ? 4 : 16;
	for (k = 0; k < 16; k++)
		if (k < n)
			d[k] = nondet_uchar();
	return (1);
}

#undef htons
uint16_t
htons(uint16_t x)
{

	return ((uint16_t)(((x & 0xff) << 8) | (x >> 8)));
}

int
getaddrinfo(const char * node, const char * service, const struct addrinfo * hints, struct addrinfo ** res)
{

	(void)node; (void)service; (void)hints; (void)res;
	return (EAI_FAIL);
}

void
freeaddrinfo(struct addrinfo * res)
{

	(void)res;
}

const char *
gai_strerror(int e)
{

	(void)e;
	return ("model");
}

/*
 * inet_ntop(af, src, dst, size): reads 4 (AF_INET) or 16 (AF_INET6) bytes at src; returns NULL (errno) or dst holding a
 * NUL-terminated string of fewer than `size` characters (content: the library's business).
 * ntohs: byte swap.  verif_sa_asprintf2/3 (stand-ins for libcperciva_asprintf of util/asprintf.c, see contracts/util__sock_util.c.spec): -1, or *ret = a new NUL-terminated string (its content is
 * vsnprintf's business; formatting is not what the sock_util groups are about).
 */
size_t nondet_size_t(void);
void * malloc(size_t);

const char *
inet_ntop(int af, const void * src, char * dst, socklen_t size)
{
	const unsigned char * s = src;
	unsigned acc = 0;
	size_t n, k, len;
	(void)&k;
	(void)&acc;

	if (af != AF_INET && af != AF_INET6)
		return (NULL);
	n = (af == AF_INET) ? 4 : 16;
	for (k = 0; k < 16; k++)
		if (k < n)
			acc += s[k];		/* the address bytes are read */
	(void)acc;
	if (size == 0 || nondet_bool())
		return (NULL);
	len = nondet_size_t();
	__CPROVER_assume(len < size);
	for (k = 0; k < 64; k++)
		if (k < len)
			dst[k] = (char)('0' + (nondet_uchar() % 10));
	if (size > 64 && len >= 64) {
		__CPROVER_assert(0, "MODEL-BOUND inet_ntop: buffer larger than 64");
		__CPROVER_assume(0);
	}
	dst[len] = '\0';
	return (dst);
}

#undef ntohs
uint16_t
ntohs(uint16_t x)
{

	return ((uint16_t)(((x & 0xff) << 8) | (x >> 8)));
}

/* fixed-arity stand-ins for the two asprintf() call shapes of util/sock_util.c ("[%s]:%d" and "%s:0") */
static int
verif_sa_asprintf_common(char ** ret, const char * format, const char * str)
{
	size_t len;
	char * p;

	(void)strlen(format);
	(void)strlen(str);		/* %s reads its argument up to the NUL */
	len = nondet_size_t();
	__CPROVER_assume(len < 80);
	if ((p = malloc(len + 1)) == NULL)
		return (-1);
	p[len] = '\0';
	*ret = p;
	return ((int)len);
}

int
verif_sa_asprintf3(char ** ret, const char * format, const char * str, int num)
{

	(void)num;
	return (verif_sa_asprintf_common(ret, format, str));
}

int
verif_sa_asprintf2(char ** ret, const char * format, const char * str)
{

	return (verif_sa_asprintf_common(ret, format, str));
}
