/*
 * models/drbg_hmac.c -- abstract HMAC_SHA256_{Init,Update,Final,Buf} for the C11 proofs (see drbg_hmac.h).
 * Assumed contract (G6/G2): HMAC writes exactly 32 bytes to the digest, reads exactly the key and message
 * bytes it is given, has no other effect.  The real alg/sha256.c is NOT linked (C01 owns its conformance).
 * MODEL-BOUND assertions guard the model's own capacity (key 32 bytes, message HM_MMAX bytes, one streaming
 * computation at a time): if one fails the group is undecided, never "violated".
 */
#include <stddef.h>
#include <stdint.h>
#include <string.h>
#include "sha256.h"
#include "drbg_hmac.h"

struct hm_state g_hm;
size_t g_hm_base;

#define HM_BOUND(c, what) do { __CPROVER_assert(c, "MODEL-BOUND drbg_hmac: " what); __CPROVER_assume(c); } while (0)

/* loop-free on purpose (memcpy/memset are CBMC built-ins without loops): DFCC with --apply-loop-contracts
 * cannot handle contract-less loops in instrumented code */
static void
hm_setkey(struct hm_entry * e, const void * K, size_t Klen)
{

	HM_BOUND(Klen <= 32, "key longer than 32 bytes");
	e->klen = Klen;
	memset(e->key, 0, 32);
	if (Klen > 0)
		memcpy(e->key, K, Klen);
	e->mlen = 0;
}

static void
hm_absorb(struct hm_entry * e, const void * in, size_t len)
{

	HM_BOUND(len <= HM_MMAX && e->mlen <= HM_MMAX - len, "message longer than HM_MMAX");
	if (len > 0)
		memcpy(&e->msg[e->mlen], in, len);
	e->mlen += len;
}

static void
hm_finish(struct hm_entry * e, uint8_t digest[32])
{
	uint8_t fresh[32];	/* uninitialised: arbitrary */

	memcpy(e->out, fresh, 32);
	if (HM_INWIN(g_hm.n))
		HM_E(g_hm.n) = *e;
	g_hm.n += 1;
	memcpy(digest, e->out, 32);
}

void
HMAC_SHA256_Init(HMAC_SHA256_CTX * ctx, const void * K, size_t Klen)
{

	HM_BOUND(g_hm.open == 0, "two streaming HMAC computations at once");
	g_hm.open = 1;
	g_hm.ctx = ctx;
	hm_setkey(&g_hm.cur, K, Klen);
}

void
HMAC_SHA256_Update(HMAC_SHA256_CTX * ctx, const void * in, size_t len)
{

	HM_BOUND(g_hm.open == 1 && g_hm.ctx == ctx, "Update on a context that is not open");
	hm_absorb(&g_hm.cur, in, len);
}

void
HMAC_SHA256_Final(uint8_t digest[32], HMAC_SHA256_CTX * ctx)
{

	HM_BOUND(g_hm.open == 1 && g_hm.ctx == ctx, "Final on a context that is not open");
	hm_finish(&g_hm.cur, digest);
	g_hm.open = 0;
	g_hm.ctx = NULL;
}

void
HMAC_SHA256_Buf(const void * K, size_t Klen, const void * in, size_t len, uint8_t digest[32])
{
	struct hm_entry e;

	hm_setkey(&e, K, Klen);
	hm_absorb(&e, in, len);		/* message is copied before the digest is written: in may alias digest */
	hm_finish(&e, digest);
}
