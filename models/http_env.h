/*
 * models/http_env.h -- abstract environment of http/http.c (C08, C09, C14 obligations of http.c).
 *
 * http.c sees `struct netbuf_read`, `struct netbuf_write` only as opaque types; here they get an abstract
 * definition that keeps exactly the state the contracts of netbuf/netbuf_read.c, netbuf_write.c talk about
 * (assumed contracts, G6; the real reader/writer are C07's business):
 *
 *   reader: the buffer state of the real struct (buf, buflen, bufpos, datalen) -- the window handed out by
 *           netbuf_read_peek is buf[bufpos .. datalen), an INTERIOR pointer into a harness-allocated object of
 *           exactly `buflen` bytes (slack = buflen - datalen; datalen == buflen is the exact-fit case) -- plus
 *           "a wait is registered" (read_cookie / immediate_cookie of the real struct) with its callback,
 *           cookie and length.
 *   writer: the trace of netbuf_write_write calls (pointer, length, order).
 *
 * The model functions are in models/http_env.c.  Their preconditions are the assert()s of the real functions
 * (__CPROVER_precondition => "callee-requires" obligations at the call sites in http.c).
 */
#ifndef HTTP_ENV_H_
#define HTTP_ENV_H_
#include <stddef.h>
#include <stdint.h>

struct http_response;

struct netbuf_read {
	uint8_t * buf;			/* Current read buffer (object of exactly buflen bytes). */
	size_t buflen;			/* Length of buf. */
	size_t datalen;			/* Position of write pointer in buf. */
	/* fields a response-parsing step may change: contiguous, so that they are ONE assigns target */
	size_t bufpos;			/* Position of read pointer in buf. */
	int waiting;			/* ghost: read_cookie != NULL || immediate_cookie != NULL */
	int (* wait_cb)(void *, int);	/* callback of the registered wait */
	void * wait_cookie;
	size_t wait_len;
};

struct netbuf_write {
	int failed;
	int (* fail_cb)(void *);
	void * fail_cookie;
};

/*
 * ghost observation state (defined in models/http_env.c).  One struct, so that it is ONE object and ONE assigns target:
 * DFCC checks every assignment against every target of the assigns clause and its bookkeeping is proportional to
 * 2^object-bits (30 separate globals push the groups over 256 objects).  A contract that replaces a call therefore
 * havocs the whole struct and must say which fields keep their value.
 */
struct http_ghost {
	unsigned ncb;			/* invocations of the user's callback */
	int cb_null;			/* last invocation had response == NULL */
	int cb_status;			/* fields of the response seen by the last invocation */
	size_t cb_nheaders;
	size_t cb_bodylen;
	uint8_t * cb_body;
	void * cb_cookie;
	unsigned ncancel;		/* http_request_cancel calls (ghost statement in http.c) */
	unsigned ndie;			/* die() calls (ghost statement in http.c) */
	int envfail;			/* an environment call reported (allocation) failure: wait, write, init, connect */
	int sscanf_k, sscanf_c;		/* what the sscanf model returned / wrote to its third output */
	int seen1xx;			/* gotheaders took the 1xx restart (ghost statement in http.c); never reset */
	unsigned nclose;		/* close() calls */
	int closed_fd;
	unsigned nconncancel;		/* network_connect_cancel calls */
	unsigned nwaitcancel;		/* netbuf_read_wait_cancel calls */
	unsigned nrfree, nwfree, nsslclose;
	unsigned nwrite;		/* netbuf_write_write calls and their arguments, in order */
	const uint8_t * wbuf[2];
	size_t wlen[2];
};
extern struct http_ghost g_http;
/* ghost INPUTS, chosen by the harness and never assigned by http.c or the models */
struct http_ghost_in {
	int cb_rv;			/* what the user's callback returns */
	size_t i, j;			/* ghost indices (G1) */
	size_t eol;			/* ghost witness: position of an EOL (sgetline's requires) */
	int check_headers;		/* the callback stub inspects header number hi of the response (C09) */
	size_t hi;
};
extern struct http_ghost_in g_http_in;
#define g_http_ncb g_http.ncb
#define g_http_cb_null g_http.cb_null
#define g_http_cb_status g_http.cb_status
#define g_http_cb_nheaders g_http.cb_nheaders
#define g_http_cb_bodylen g_http.cb_bodylen
#define g_http_cb_body g_http.cb_body
#define g_http_cb_cookie g_http.cb_cookie
#define g_http_cb_rv g_http_in.cb_rv
#define g_http_ncancel g_http.ncancel
#define g_http_ndie g_http.ndie
#define g_http_envfail g_http.envfail
#define g_http_nclose g_http.nclose
#define g_http_closed_fd g_http.closed_fd
#define g_http_nconncancel g_http.nconncancel
#define g_http_nwaitcancel g_http.nwaitcancel
#define g_http_nrfree g_http.nrfree
#define g_http_nwfree g_http.nwfree
#define g_http_nsslclose g_http.nsslclose
#define g_http_nwrite g_http.nwrite
#define g_http_wbuf g_http.wbuf
#define g_http_wlen g_http.wlen
#define g_http_i g_http_in.i
#define g_http_j g_http_in.j
#define g_http_eol g_http_in.eol

int http_cb_stub(void *, struct http_response *);

/* SSL function-pointer stand-ins */
struct network_ssl_ctx;
struct network_ssl_ctx * http_model_ssl_open(int, const char *);
void http_model_ssl_close(struct network_ssl_ctx *);
struct netbuf_read * http_model_ssl_read_init(struct network_ssl_ctx *);
struct netbuf_write * http_model_ssl_write_init(struct network_ssl_ctx *, int (*)(void *), void *);

#endif /* !HTTP_ENV_H_ */
