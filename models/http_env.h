/*
 * models/http_env.h -- abstract environment of http/http.c (C08, C09, C14 obligations of http.c).
 *
 * http.c sees `struct netbuf_read`, `struct netbuf_write` only as opaque types; here they get an abstract
 * definition that keeps exactly the state the contracts of netbuf/netbuf_read.c, netbuf_write.c talk about
 * (assumed contracts, G6; the real reader/writer are C07's business):
 *
 *   reader: the buffer state of the real struct (buf, buflen, bufpos, datalen) -- the window handed out by
 *           netbuf_read_peek is buf[bufpos .. datalen), an INTERIOR pointer into a harness-allocated object of
 *           exactly `buflen` bytes (slack = buflen - datalen; datalen == buflen is the exact-fit case) -- plus
 *           "a wait is registered" (read_cookie / immediate_cookie of the real struct) with its callback,
 *           cookie and length.
 *   writer: the trace of netbuf_write_write calls (pointer, length, order).
 *
 * The model functions are in models/http_env.c.  Their preconditions are the assert()s of the real functions
 * (__CPROVER_precondition => "callee-requires" obligations at the call sites in http.c).
 */
#ifndef HTTP_ENV_H_
#define HTTP_ENV_H_
#include <stddef.h>
#include <stdint.h>

struct http_response;

struct netbuf_read {
	uint8_t * buf;			/* Current read buffer (object of exactly buflen bytes). */
	size_t buflen;			/* Length of buf. */
	size_t bufpos;			/* Position of read pointer in buf. */
	size_t datalen;			/* Position of write pointer in buf. */
	int waiting;			/* ghost: read_cookie != NULL || immediate_cookie != NULL */
	int (* wait_cb)(void *, int);	/* callback of the registered wait */
	void * wait_cookie;
	size_t wait_len;
};

struct netbuf_write {
	int failed;
	int (* fail_cb)(void *);
	void * fail_cookie;
};

/* ghost observation state (defined in models/http_env.c) */
extern unsigned g_http_ncb;		/* invocations of the user's callback */
extern int g_http_cb_null;		/* last invocation had response == NULL */
extern int g_http_cb_status;		/* fields of the response seen by the last invocation */
extern size_t g_http_cb_nheaders;
extern size_t g_http_cb_bodylen;
extern uint8_t * g_http_cb_body;
extern void * g_http_cb_cookie;
extern int g_http_cb_rv;		/* what the user's callback returns (chosen by the harness) */
extern unsigned g_http_ncancel;		/* http_request_cancel calls (ghost statement in http.c) */
extern unsigned g_http_ndie;		/* die() calls (ghost statement in http.c) */
extern int g_http_envfail;		/* an environment call reported (allocation) failure: wait, write, init, connect */
extern unsigned g_http_nclose;		/* close() calls */
extern int g_http_closed_fd;
extern unsigned g_http_nconncancel;	/* network_connect_cancel calls */
extern unsigned g_http_nwaitcancel;	/* netbuf_read_wait_cancel calls */
extern unsigned g_http_nrfree, g_http_nwfree, g_http_nsslclose;
extern unsigned g_http_nwrite;		/* netbuf_write_write calls and their arguments, in order */
extern const uint8_t * g_http_wbuf[2];
extern size_t g_http_wlen[2];
extern int g_http_wait_fail;		/* harness: may netbuf_read_wait fail? (always nondeterministic) */
extern size_t g_http_i, g_http_j;	/* ghost indices (G1) */
extern size_t g_http_fe_i, g_http_fe_j;	/* findeol's ghost positions (set by callers through ghost statements) */
extern size_t g_http_eol;		/* ghost witness: position of an EOL (sgetline's requires) */

int http_cb_stub(void *, struct http_response *);

/* SSL function-pointer stand-ins */
struct network_ssl_ctx;
struct network_ssl_ctx * http_model_ssl_open(int, const char *);
void http_model_ssl_close(struct network_ssl_ctx *);
struct netbuf_read * http_model_ssl_read_init(struct network_ssl_ctx *);
struct netbuf_write * http_model_ssl_write_init(struct network_ssl_ctx *, int (*)(void *), void *);

#endif /* !HTTP_ENV_H_ */
