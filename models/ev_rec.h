/*
 * Event records as seen from outside events/events.c (struct eventrec is opaque there), the ghost
 * bookkeeping of live records, and the contract of events_mkrec / events_freerec.
 * The SAME clause text (macros below) is enforced on the real functions in events/events.c
 * (contracts/events__events.c.spec, harness/C04/rec_*.c) and used to replace calls in the other modules.
 */
#ifndef EV_REC_H_
#define EV_REC_H_
#include "verif.h"
#include "ev_bounds.h"

struct eventrec;
struct ev_recview {
	int (* func)(void *);
	void * cookie;
};
#define EV_RECSZ	sizeof(struct ev_recview)
#define EV_REC(r)	((struct ev_recview *)(r))

extern size_t g_live;			/* number of event records handed out and not yet released */
extern struct eventrec * g_lastrec;	/* record made by the latest successful events_mkrec (compare only) */
extern struct eventrec * g_lastfreed;	/* argument of the latest events_freerec (compare only) */

#ifndef VERIF_NATIVE
#define EV_MKREC_CONTRACT(func, cookie) \
	__CPROVER_assigns(g_live, g_lastrec) \
	__CPROVER_ensures(__CPROVER_return_value == NULL ? \
	    (g_live == __CPROVER_old(g_live) && g_lastrec == __CPROVER_old(g_lastrec)) : \
	    (__CPROVER_is_fresh(__CPROVER_return_value, EV_RECSZ) && g_live == __CPROVER_old(g_live) + 1 && \
	     g_lastrec == __CPROVER_return_value && \
	     EV_REC(__CPROVER_return_value)->func == func && EV_REC(__CPROVER_return_value)->cookie == cookie))
#define EV_FREEREC_CONTRACT(r) \
	__CPROVER_requires(r == NULL || __CPROVER_rw_ok(r, EV_RECSZ)) \
	__CPROVER_requires(r == NULL || g_live > 0) \
	__CPROVER_assigns(g_live, g_lastfreed) \
	__CPROVER_frees(r) \
	__CPROVER_ensures(g_lastfreed == r && g_live == __CPROVER_old(g_live) - (r != NULL ? 1 : 0))
#else
#define EV_MKREC_CONTRACT(func, cookie)
#define EV_FREEREC_CONTRACT(r)
#endif

#ifndef EV_REC_NO_DECL
struct eventrec * events_mkrec(int (* func)(void *), void * cookie)
EV_MKREC_CONTRACT(func, cookie);
void events_freerec(struct eventrec * r)
EV_FREEREC_CONTRACT(r);
#endif

#endif /* !EV_REC_H_ */
