/*
 * Assumed contract of poll(2) (POSIX.1-2008), as an executable model.
 *  - reads fd/events, writes only revents of entries 0 .. nfds-1;
 *  - success: revents is a subset of events + {POLLERR, POLLHUP}; the result is the number of entries with
 *    non-zero revents (0 = timed out);
 *  - failure (-1, errno != 0, e.g. EINTR): every revents is either left as it was or zeroed (POSIX does not
 *    say; Linux zeroes);
 *  - ASSUMPTION: POLLNVAL is never reported, i.e. the program keeps every registered descriptor open
 *    (events_network_get asserts this); a negative fd (never produced by the library) reports 0.
 * Ghost side: records the arguments, and drives the "due" monitor of the ghost descriptor g_ns:
 *    g_rdy_r / g_rdy_w become 1 when this poll reports POLLIN / POLLOUT for g_ns, g_errhup says whether this
 *    (successful) poll reported POLLERR|POLLHUP for g_ns.
 *  - g_poll_eintr_left (default: unlimited) lets a harness bound the number of EINTR results.
 * The loop runs to the constant NF_Q (object-size parameter); a larger nfds trips MODEL-BOUND (= undecided).
 */
#include <errno.h>
#include <poll.h>
#include <stddef.h>
#include "ev_poll.h"
int __VERIFIER_nondet_int(void);
short __VERIFIER_nondet_short(void);

unsigned g_poll_calls;
unsigned g_poll_eintr_left = EV_POLL_EINTR_UNLIMITED;
int g_poll_timeout;
size_t g_poll_nfds;
int g_poll_lastrc;
int g_poll_lasterrno;

int
poll(struct pollfd * fds, nfds_t nfds, int timeout)
{
	int fail, eh = 0, cnt = 0;
	size_t k;

	if (g_poll_calls < 1000000)
		g_poll_calls++;
	g_poll_timeout = timeout;
	g_poll_nfds = (size_t)nfds;
	__CPROVER_assert(nfds <= NF_Q, "MODEL-BOUND poll: nfds <= NF_Q");
	__CPROVER_assert(nfds == 0 || __CPROVER_rw_ok(fds, nfds * sizeof(struct pollfd)), "poll: fds[0..nfds) is a valid array");
	__CPROVER_assert(timeout >= -1, "poll: timeout >= -1");

	fail = __VERIFIER_nondet_int();
	for (k = 0; k < NF_Q; k++) {
		short rev;

		if (k >= nfds)
			continue;
		rev = __VERIFIER_nondet_short();
		if (fail) {
			if (rev != 0)
				rev = fds[k].revents;
		} else {
			__CPROVER_assume((rev & ~(fds[k].events | POLLERR | POLLHUP)) == 0);
			if (fds[k].fd < 0)
				rev = 0;
			if (rev != 0)
				cnt++;
			if (fds[k].fd >= 0 && (size_t)fds[k].fd == g_ns) {
				if (rev & (POLLERR | POLLHUP))
					eh = 1;
				if (rev & POLLIN)
					g_rdy_r = 1;
				if (rev & POLLOUT)
					g_rdy_w = 1;
			}
		}
		fds[k].revents = rev;
	}
	if (fail) {
		int e = __VERIFIER_nondet_int();

		__CPROVER_assume(e > 0);
		/* optional budget of EINTR results (set by harnesses that unwind an EINTR retry loop; bounded stand-in) */
		if (e == EINTR && g_poll_eintr_left != EV_POLL_EINTR_UNLIMITED) {
			__CPROVER_assume(g_poll_eintr_left > 0);
			g_poll_eintr_left--;
		}
		errno = e;
		g_poll_lasterrno = e;
		g_poll_lastrc = -1;
		return (-1);
	}
	g_errhup = eh;
	g_poll_lastrc = cnt;
	return (cnt);
}
