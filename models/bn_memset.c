/*
 * models/bn_memset.c -- memset per C11 7.24.6.1 for the Diffie-Hellman groups (the only call is
 * memset(r, 0, 256 - rlen) in blinded_modexp).  CBMC's built-in memset handles a symbolic length through
 * symbolic-size array operations, and 256 guarded single-byte stores are each frame-checked by DFCC; both cost
 * millions of SAT variables here.  So (default): the 256 bytes starting at s must be inside the object (MODEL-BOUND
 * assertion); they are loaded, the first n bytes of the copy are set, and the window is stored back in one
 * assignment (bytes n .. 255 are rewritten with their own values).  -DBN_MEMSET_GENERAL: n guarded stores.
 * The memory afterwards is the same either way.
 * A length above 256 is a MODEL-BOUND failure (group undecided), never silently truncated.
 */
#include <stddef.h>
#include <stdint.h>

struct bn_memset_win256 {
	unsigned char b[256];
};

void *
memset(void * s, int c, size_t n)
{
	unsigned char * p = s;
	size_t i;

	__CPROVER_assert(n <= 256, "MODEL-BOUND bn_memset: length above 256");
	__CPROVER_assume(n <= 256);
#ifndef BN_MEMSET_GENERAL
	__CPROVER_assert(__CPROVER_POINTER_OFFSET(s) + 256 <= __CPROVER_OBJECT_SIZE(s), "MODEL-BOUND bn_memset: 256 bytes available at the destination");
	__CPROVER_assume(__CPROVER_POINTER_OFFSET(s) + 256 <= __CPROVER_OBJECT_SIZE(s));
	{
		struct bn_memset_win256 * win = s;
		struct bn_memset_win256 w = *win;

		for (i = 0; i < 256; i++)
			if (i < n)
				w.b[i] = (unsigned char)(c & 0xff);
		*win = w;
	}
	(void)p;
#else
	for (i = 0; i < 256; i++)
		if (i < n)
			p[i] = (unsigned char)(c & 0xff);
#endif
	return (s);
}
