/*
 * models/bn_memset.c -- memset per C11 7.24.6.1 for the Diffie-Hellman groups, as a loop with the constant bound
 * 256 (the only call is memset(r, 0, 256 - rlen) in blinded_modexp; CBMC's built-in memset handles a symbolic
 * length through symbolic-size array operations, which cost millions of SAT variables here).  A length above
 * 256 is a MODEL-BOUND failure (group undecided), never silently truncated.
 */
#include <stddef.h>

void *
memset(void * s, int c, size_t n)
{
	unsigned char * p = s;
	size_t i;

	__CPROVER_assert(n <= 256, "MODEL-BOUND bn_memset: length above 256");
	__CPROVER_assume(n <= 256);
	for (i = 0; i < 256; i++)
		if (i < n)
			p[i] = (unsigned char)(c & 0xff);
	return (s);
}
