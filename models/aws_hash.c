/*
 * models/aws_hash.c -- abstract SHA256_Buf / HMAC_SHA256_Buf for the C19 proofs (see aws_hash.h).
 * Assumed contract (G6/G2): each function reads exactly the key / message bytes it is given (a NULL pointer is
 * tolerated for a zero length, as in the real code, which never dereferences it then), writes exactly 32 bytes
 * to the digest and has no other effect.  The real alg/sha256.c is NOT linked.
 * MODEL-BOUND assertions guard the model's own capacity; if one fails the group is undecided, never "violated".
 * All loops have compile-time-constant bounds.
 */
#include <stddef.h>
#include <stdint.h>
#include "sha256.h"
#include "aws_hash.h"

struct aws_hcall g_aws_log[AWS_LOG_N];
size_t g_aws_n;

#ifndef VERIF_NATIVE
uint8_t nondet_uint8_t(void);
#define AWS_BOUND(c, what) do { __CPROVER_assert(c, "MODEL-BOUND aws_hash: " what); __CPROVER_assume(c); } while (0)

static void
aws_log_call(int kind, const uint8_t * K, size_t Klen, const uint8_t * in, size_t len, uint8_t digest[32])
{
	struct aws_hcall e;	/* local, copied to the log in one assignment (one DFCC write check instead of one per byte) */
	size_t i;

	AWS_BOUND(g_aws_n < AWS_LOG_N, "more than AWS_LOG_N hash calls");
	AWS_BOUND(Klen <= AWS_KMAX, "key longer than AWS_KMAX");
	AWS_BOUND(len <= AWS_MMAX, "message longer than AWS_MMAX");
	e.kind = kind;
	e.kptr = K;
	e.klen = Klen;
	for (i = 0; i < AWS_KMAX; i++)
		e.key[i] = (i < Klen) ? K[i] : 0;
	e.mptr = in;
	e.mlen = len;
	for (i = 0; i < AWS_MMAX; i++)
		e.msg[i] = (i < len) ? in[i] : 0;
	for (i = 0; i < 32; i++) {
		e.out[i] = nondet_uint8_t();
		digest[i] = e.out[i];
	}
	g_aws_log[g_aws_n] = e;
	g_aws_n++;
}

void
SHA256_Buf(const void * in, size_t len, uint8_t digest[32])
{

	aws_log_call(AWS_K_SHA256, NULL, 0, in, len, digest);
}

void
HMAC_SHA256_Buf(const void * K, size_t Klen, const void * in, size_t len, uint8_t digest[32])
{

	aws_log_call(AWS_K_HMAC, K, Klen, in, len, digest);
}
#endif
