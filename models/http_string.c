/*
 * models/http_string.c -- the libc string functions http/http.c uses (C11 7.24), as executable models whose scanning
 * loops carry LOOP CONTRACTS (assumed contracts, G6; the invariants are discharged as obligations of every group that
 * links this file).  Used by the http groups that apply loop contracts, instead of models/libc_string.c, because
 *   - a libc_string.c loop is unwound VERIF_STRMAX times per call under DFCC instrumentation, and
 *   - its address-taken loop counters (needed with --apply-loop-contracts, HOWTO trap 12) make every call instance an
 *     addressed object: gotheaders alone makes > 250 calls and exhausts cbmc's object numbering.
 * Here a scan costs one symbolic iteration.  Reads are ordinary dereferences: a string that is not NUL-terminated
 * inside its object makes a pointer check FAIL at the iteration that leaves the object -- the obligation C08 needs.
 * The "everything before position i ..." invariants are quantified over k < VERIF_STRMAX (compile-time constant:
 * expanded by cbmc); for longer strings they are silent beyond that position (imprecise, never unsound).
 *
 * Groups with "loop_contracts": false must use models/libc_string.c (-DVERIF_NO_DIRTY) instead.
 */
#include <stddef.h>
#include <stdint.h>
#ifndef VERIF_STRMAX
#define VERIF_STRMAX 72
#endif
#define SMAX VERIF_STRMAX
/* bytes left in the object behind p (loop variants) */
#define LEFT(p) (__CPROVER_OBJECT_SIZE(p) - __CPROVER_POINTER_OFFSET(p))
#define MODEL_BOUND(what) do { __CPROVER_assert(0, "MODEL-BOUND " what); __CPROVER_assume(0); } while (0)
/* contract clauses are specification text: no pointer checks on them (as the driver does for .spec files) */
#define SPEC_BEGIN _Pragma("CPROVER check push") _Pragma("CPROVER check disable \"pointer\"") \
	_Pragma("CPROVER check disable \"pointer-overflow\"") _Pragma("CPROVER check disable \"conversion\"")
#define SPEC_END _Pragma("CPROVER check pop")

#pragma CPROVER check push
#pragma CPROVER check disable "conversion"

size_t
strlen(const char * s)
{
	size_t i;

	for (i = 0; s[i] != '\0'; i++)
SPEC_BEGIN
	__CPROVER_assigns(i)
	__CPROVER_loop_invariant(i < LEFT(s))	/* step fails <=> the string is not NUL-terminated inside its object */
	__CPROVER_loop_invariant(__CPROVER_forall { size_t k; (k < SMAX) ==> (k < i ==> s[k] != '\0') })
	__CPROVER_decreases(LEFT(s) - i)
SPEC_END
	{
	}
	return (i);
}

int
strcmp(const char * a, const char * b)
{
	size_t i;

	for (i = 0; a[i] == b[i] && a[i] != '\0'; i++)
SPEC_BEGIN
	__CPROVER_assigns(i)
	__CPROVER_loop_invariant(i < LEFT(a) && i < LEFT(b))
	__CPROVER_loop_invariant(__CPROVER_forall { size_t k; (k < SMAX) ==> (k < i ==> (a[k] == b[k] && a[k] != '\0')) })
	__CPROVER_decreases(LEFT(a) - i)
SPEC_END
	{
	}
	if ((unsigned char)a[i] < (unsigned char)b[i])
		return (-1);
	return ((unsigned char)a[i] > (unsigned char)b[i] ? 1 : 0);
}

int
memcmp(const void * a, const void * b, size_t n)
{
	const unsigned char * x = a, * y = b;
	size_t i;

	for (i = 0; i < n && x[i] == y[i]; i++)
SPEC_BEGIN
	__CPROVER_assigns(i)
	__CPROVER_loop_invariant(i <= n && __CPROVER_forall { size_t k; (k < SMAX) ==> (k < i ==> x[k] == y[k]) })
	__CPROVER_decreases(n - i)
SPEC_END
	{
	}
	if (i == n)
		return (0);
	return (x[i] < y[i] ? -1 : 1);
}

/* c is one of the (at most 3) characters of the string set */
#define INSET(c, set) ((set)[0] != '\0' && ((set)[0] == (c) || ((set)[1] != '\0' && ((set)[1] == (c) || \
	((set)[2] != '\0' && (set)[2] == (c))))))
#define SET_TOO_LONG(set) ((set)[0] != '\0' && (set)[1] != '\0' && (set)[2] != '\0' && (set)[3] != '\0')

size_t
strcspn(const char * s, const char * reject)
{
	size_t i;

	if (SET_TOO_LONG(reject))
		MODEL_BOUND("strcspn: reject set longer than 3 characters");
	for (i = 0; s[i] != '\0' && !INSET(s[i], reject); i++)
SPEC_BEGIN
	__CPROVER_assigns(i)
	__CPROVER_loop_invariant(i < LEFT(s))
	__CPROVER_loop_invariant(__CPROVER_forall { size_t k; (k < SMAX) ==> (k < i ==> (s[k] != '\0' && !INSET(s[k], reject))) })
	__CPROVER_decreases(LEFT(s) - i)
SPEC_END
	{
	}
	return (i);
}

size_t
strspn(const char * s, const char * accept)
{
	size_t i;

	if (SET_TOO_LONG(accept))
		MODEL_BOUND("strspn: accept set longer than 3 characters");
	for (i = 0; s[i] != '\0' && INSET(s[i], accept); i++)
SPEC_BEGIN
	__CPROVER_assigns(i)
	__CPROVER_loop_invariant(i < LEFT(s))
	__CPROVER_loop_invariant(__CPROVER_forall { size_t k; (k < SMAX) ==> (k < i ==> (s[k] != '\0' && INSET(s[k], accept))) })
	__CPROVER_decreases(LEFT(s) - i)
SPEC_END
	{
	}
	return (i);
}

/* the (at most 8 character) string n is a prefix of the string at h */
#define M1(h, n, j, rest) ((n)[j] == '\0' || ((h)[j] == (n)[j] && (rest)))
#define MATCH(h, n) M1(h, n, 0, M1(h, n, 1, M1(h, n, 2, M1(h, n, 3, M1(h, n, 4, M1(h, n, 5, M1(h, n, 6, M1(h, n, 7, 1))))))))
#define NEEDLE_TOO_LONG(n) ((n)[0] && (n)[1] && (n)[2] && (n)[3] && (n)[4] && (n)[5] && (n)[6] && (n)[7] && (n)[8])

char *
strstr(const char * h, const char * n)
{
	size_t i;

	if (NEEDLE_TOO_LONG(n))
		MODEL_BOUND("strstr: needle longer than 8 characters");
	/*
	 * Over-approximation: the invariant does not record "no match before i" (with the 8-deep MATCH expression under a
	 * quantifier cbmc needs minutes per call), so a non-NULL result is a genuine occurrence of n in h, while NULL is
	 * not proved to mean "no occurrence".  Sound for every safety obligation; http.c only tests the result for NULL.
	 */
	for (i = 0; !MATCH(h + i, n) && h[i] != '\0'; i++)
SPEC_BEGIN
	__CPROVER_assigns(i)
	__CPROVER_loop_invariant(i < LEFT(h))
	__CPROVER_loop_invariant(__CPROVER_forall { size_t k; (k < SMAX) ==> (k < i ==> h[k] != '\0') })
	__CPROVER_decreases(LEFT(h) - i)
SPEC_END
	{
	}
	return (MATCH(h + i, n) ? (char *)(uintptr_t)(h + i) : NULL);
}

char *
stpcpy(char * dst, const char * src)
{
	size_t i;

	for (i = 0; src[i] != '\0'; i++)
SPEC_BEGIN
	__CPROVER_assigns(i, __CPROVER_object_from(dst))
	__CPROVER_loop_invariant(i < LEFT(src))
	__CPROVER_loop_invariant(__CPROVER_forall { size_t k; (k < SMAX) ==> (k < i ==> (src[k] != '\0' && dst[k] == src[k])) })
	__CPROVER_decreases(LEFT(src) - i)
SPEC_END
	{
		dst[i] = src[i];
	}
	dst[i] = '\0';
	return (dst + i);
}
#pragma CPROVER check pop
