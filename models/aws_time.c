/*
 * models/aws_time.c -- assumed contracts (G6) of time(2), gmtime_r(3), strftime(3) as aws/aws_sign.c uses them.
 *
 * time(t):      success path only: the k-th call returns the constant AWS_TIME_BASE + k (distinct values for
 *               distinct calls, never (time_t)-1) and stores it in *t when t != NULL.  Because gmtime_r below is an
 *               uninterpreted function, "some constant, different for each call" is as general as "arbitrary": the
 *               value is used for nothing else.  A constant is needed because the symbolic execution must decide
 *               `time(&t) == (time_t)-1` (otherwise the error path rejoins at the caller's return and the merged
 *               ghost state is symbolic, see models/aws_fmt.c).  -DAWS_TIME_MAYFAIL: arbitrary, -1 included.
 * gmtime_r(t,r):an UNINTERPRETED deterministic function of *t: the first evaluation at a given argument picks an
 *               arbitrary well-formed broken-down time (year 1000..9999, month 0..11, day 1..31, hour 0..23,
 *               minute 0..59, second 0..60); a repeated evaluation at the SAME argument returns the same value;
 *               an evaluation at a different argument picks a fresh arbitrary value (one-entry memo: enough
 *               for "two consecutive calls", over-approximates everything else).  Never returns NULL (assumption:
 *               the clock is between the years 1000 and 9999, so the year fits and prints as four digits).
 * strftime(s,max,fmt,tm): C11 7.27.3.5 for the conversions %Y %m %d %H %M %S and ordinary characters (all that
 *               aws_sign.c uses: "%Y%m%d" and "%Y%m%dT%H%M%SZ"); returns the number of characters stored
 *               (NUL excluded), or 0 with unspecified buffer contents when the result including the NUL does
 *               not fit in max.  Other conversions fail a MODEL assertion.
 *               Ghost: registers the result in g_aws_fix as a string of fixed known length (aws_stream.h).
 * So "date" and "datetime" are arbitrary strings of the documented shapes, and they agree on the date part
 * exactly when they were formatted from the same time() sample.
 */
#include <stddef.h>
#include <time.h>
#include "aws_time.h"
#include "aws_stream.h"

struct aws_time_ghost g_aws_time;

#ifndef AWS_TIME_BASE
#define AWS_TIME_BASE 1700000000
#endif

#ifndef VERIF_NATIVE
time_t nondet_time_t(void);
int nondet_int(void);
#define AWS_TM_BAD(what) do { __CPROVER_assert(0, "MODEL aws_time: " what); __CPROVER_assume(0); } while (0)
#pragma CPROVER check push
#pragma CPROVER check disable "conversion"

time_t
time(time_t * t)
{
	time_t v;

#ifdef AWS_TIME_MAYFAIL
	v = nondet_time_t();			/* failure-path groups: anything, (time_t)-1 included */
#else
	v = (time_t)(AWS_TIME_BASE + g_aws_time.time_calls);
#endif
	g_aws_time.time_calls++;
	if (t != NULL)
		*t = v;
	return (v);
}

struct tm *
gmtime_r(const time_t * t, struct tm * r)
{

	if (!(g_aws_time.gm_valid && g_aws_time.gm_arg == *t)) {
		struct tm v;

		v.tm_year = nondet_int();
		v.tm_mon = nondet_int();
		v.tm_mday = nondet_int();
		v.tm_hour = nondet_int();
		v.tm_min = nondet_int();
		v.tm_sec = nondet_int();
		v.tm_wday = nondet_int();
		v.tm_yday = nondet_int();
		v.tm_isdst = 0;
		__CPROVER_assume(v.tm_year >= 1000 - 1900 && v.tm_year <= 9999 - 1900);
		__CPROVER_assume(v.tm_mon >= 0 && v.tm_mon <= 11);
		__CPROVER_assume(v.tm_mday >= 1 && v.tm_mday <= 31);
		__CPROVER_assume(v.tm_hour >= 0 && v.tm_hour <= 23);
		__CPROVER_assume(v.tm_min >= 0 && v.tm_min <= 59);
		__CPROVER_assume(v.tm_sec >= 0 && v.tm_sec <= 60);
		__CPROVER_assume(v.tm_wday >= 0 && v.tm_wday <= 6);
		__CPROVER_assume(v.tm_yday >= 0 && v.tm_yday <= 365);
		g_aws_time.gm_val = v;
		g_aws_time.gm_arg = *t;
		g_aws_time.gm_valid = 1;
	}
	*r = g_aws_time.gm_val;
	return (r);
}

#define AWS_TM_PUT(ch) do { if (pos < 31) tmp[pos] = (char)(ch); pos++; } while (0)
#define AWS_TM_2(v) do { AWS_TM_PUT('0' + ((v) / 10) % 10); AWS_TM_PUT('0' + (v) % 10); } while (0)

size_t
strftime(char * s, size_t max, const char * fmt, const struct tm * tm)
{
	char tmp[32];
	size_t pos = 0;
	size_t fi;
	(void)&pos;
	(void)&fi;

	for (fi = 0; fi < 32; fi++) {
		char c = fmt[fi];

		if (c == '\0')
			break;
		if (c != '%') {
			AWS_TM_PUT(c);
			continue;
		}
		c = fmt[++fi];
		if (c == 'Y') {
			int y = tm->tm_year + 1900;

			AWS_TM_PUT('0' + (y / 1000) % 10);
			AWS_TM_PUT('0' + (y / 100) % 10);
			AWS_TM_PUT('0' + (y / 10) % 10);
			AWS_TM_PUT('0' + y % 10);
		} else if (c == 'm') {
			AWS_TM_2(tm->tm_mon + 1);
		} else if (c == 'd') {
			AWS_TM_2(tm->tm_mday);
		} else if (c == 'H') {
			AWS_TM_2(tm->tm_hour);
		} else if (c == 'M') {
			AWS_TM_2(tm->tm_min);
		} else if (c == 'S') {
			AWS_TM_2(tm->tm_sec);
		} else {
			AWS_TM_BAD("strftime conversion other than %Y %m %d %H %M %S");
		}
	}
	if (fi == 32 || pos > 31)
		AWS_TM_BAD("strftime format too long for the model");
	if (pos + 1 > max)
		return (0);	/* does not fit: contents unspecified (left untouched here; the caller must not look) */
	for (fi = 0; fi < 32; fi++)
		if (fi < pos)
			s[fi] = tmp[fi];
	s[pos] = '\0';
	/* ghost: the result is an internal string of fixed, known length (see aws_stream.h) */
	__CPROVER_assert(g_aws_nfix < AWS_NFIX, "MODEL-BOUND aws_time: more than AWS_NFIX fixed-length strings");
	__CPROVER_assume(g_aws_nfix < AWS_NFIX);
	g_aws_fix[g_aws_nfix].ptr = s;
	g_aws_fix[g_aws_nfix].len = pos;
	g_aws_nfix++;
	/* ghost: remember the text (the caller's buffer is usually a local that dies with its frame) */
	if (g_aws_time.fmt_calls < 4) {
		g_aws_time.fmt_len[g_aws_time.fmt_calls] = pos;
		for (fi = 0; fi < 32; fi++)
			g_aws_time.fmt_out[g_aws_time.fmt_calls][fi] = (fi < pos) ? tmp[fi] : '\0';
	}
	g_aws_time.fmt_calls++;
	return (pos);
}
#pragma CPROVER check pop
#endif
