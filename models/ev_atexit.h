#ifndef EV_ATEXIT_H_
#define EV_ATEXIT_H_
extern unsigned g_atexit_calls;	/* number of atexit() calls seen by models/ev_atexit.c */
#endif
