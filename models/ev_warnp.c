/* Assumed: the warnp.h diagnostics only write to stderr/syslog (no effect on program state). */
void libcperciva_warn(const char * fmt, ...) { (void)fmt; }
void libcperciva_warnx(const char * fmt, ...) { (void)fmt; }
