/*
 * models/drbg_os.h -- ghost state of the POSIX open/read/close model used by the C11 proofs of util/entropy.c.
 * One descriptor is tracked (the module opens one at a time).
 */
#ifndef DRBG_OS_H_
#define DRBG_OS_H_
#include <stddef.h>
#include <stdint.h>

enum { OS_FD_CLOSED = 0, OS_FD_OPEN = 1, OS_FD_EINTR = 2, OS_FD_CLOSEFAILED = 3 };

struct os_state {
	int fd_state;		/* OS_FD_* of the tracked descriptor */
	int fd;			/* its number */
	int path_ok;		/* it was opened as "/dev/urandom", O_RDONLY */
	size_t pos;		/* bytes delivered from it so far */
	int failed;		/* a read() on it returned -1 or 0 */
	size_t leaks;		/* open() calls made while the tracked descriptor was still open */
	size_t opens, reads, closes;
};
extern struct os_state g_os;
/* ghost stream offset chosen by the harness and the byte the kernel delivered there (G1) */
extern size_t g_er_idx;
extern uint8_t g_er_snap;
extern uint8_t * g_rd_base;
extern size_t g_rd_base_pos;

#endif /* !DRBG_OS_H_ */
