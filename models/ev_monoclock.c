/*
 * Assumed contract of monoclock_get (util/monoclock.c over clock_gettime(CLOCK_MONOTONIC)):
 * fails with -1 leaving *tv alone, or stores a normalised time (0 <= tv_usec < 1000000, 0 <= tv_sec <= 2^60)
 * that is not earlier than any time returned before (monotone), and returns 0.
 */
#include <sys/time.h>
#include "monoclock.h"
#include "ev_monoclock.h"
int __VERIFIER_nondet_int(void);
long __VERIFIER_nondet_long(void);
struct timeval g_mc_now;
unsigned g_mc_calls;
int
monoclock_get(struct timeval * tv)
{
	struct timeval n;

	if (__VERIFIER_nondet_int())
		return (-1);
	n.tv_sec = __VERIFIER_nondet_long();
	n.tv_usec = __VERIFIER_nondet_long();
	__CPROVER_assume(EV_TV_OK(n) && EV_TV_LE(g_mc_now, n));
	g_mc_now = n;
	g_mc_calls++;	/* ghost: "a clock read happened" (wrap-around is harmless: only compared for change) */
	*tv = n;
	return (0);
}
