/*
 * models/aws_fmt.c -- model (assumed contract, G6) of asprintf(3) for exactly the conversions aws/aws_sign.c uses:
 * %s  %d  %%  and ordinary characters (C11 7.21.6.1).  Any other conversion fails a MODEL assertion.
 *
 * WHAT IS MODELLED.  asprintf stores a fresh NUL-terminated string in *ret (success path only; the failure paths
 * are the business of the -DAWS_FMT_MAYFAIL mode, see the function body).  The model records WHAT WAS ASKED
 * TO BE PRINTED, in normal form (models/aws_stream.h): the literal text of the format, each %s argument (a
 * registered input as a REF token, a fixed-length internal string or a string literal as text), each %d argument.
 * By C11 the result is the concatenation of exactly these pieces; that is the assumed contract.  The BYTES of the
 * result are not computed: the block handed back is an abstract STAND-IN for the rendering -- an arbitrary string
 * of arbitrary length 0..AWS_ABSMAX (non-NUL bytes, then NUL) -- and the model keeps a snapshot of it, so that a
 * later consumer (the hash model's log) can be recognised as "the whole, unmodified result of the k-th asprintf
 * call".  Rendering into bytes would put every byte behind the first argument at a symbolic position, which the SAT
 * back end cannot handle at these sizes (see aws_stream.h), and even copying 300-byte strings around costs minutes
 * of symbolic execution; nothing is lost, because aws_sign.c never looks inside a formatted string: it passes it
 * to strlen, to the hash functions, to free, or to its caller, so its behaviour cannot depend on the bytes.
 *
 * NOT variadic (goto-instrument --dfcc appends its write-set parameter to every function and thereby breaks
 * functions with "..." -- measured: every assignment inside the callee is reported "not assignable").  The harness
 * redefines the asprintf macro (util/asprintf.h: #define asprintf libcperciva_asprintf) so that the calls in the
 * unchanged text of aws_sign.c become calls of the fixed-arity  aws_asprintf9(ret, fmt, a1 .. a9)  with every
 * variable argument converted to const void * (an int through intptr_t; converted back here), missing ones padded
 * with 0 (harness/C19/c19.h).  The real util/asprintf.c (two vsnprintf calls + malloc) is therefore NOT part of
 * these proofs.
 *
 * The block has the FIXED capacity AWS_ABSMAX + 1 instead of length + 1 bytes: objects of symbolic size send every
 * byte access through CBMC's array theory (measured: > 16 GB); a too large block only over-approximates which
 * accesses are valid, and C19 makes no memory-safety claim.
 * Also: do-nothing warn()/warnx() (util/warnp.c prints to stderr, no effect on any property).
 * Supporting evidence for the assumed contract (not a proof): harness/C19/native_selftest.sh runs the REAL
 * util/asprintf.c + glibc under aws_sign.c and compares its output byte for byte with the flattened normal forms.
 */
#include <stddef.h>
#include <stdint.h>
#include <stdlib.h>
#include "aws_stream.h"
#include "aws_fmt.h"

struct aws_var g_aws_in[AWS_NIN];
struct aws_var g_aws_fix[AWS_NFIX];
size_t g_aws_nfix;
struct aws_fmt_ghost g_aws_fmt;

#ifndef VERIF_NATIVE
int nondet_int(void);
size_t nondet_size_t(void);
#define AWS_FMT_BOUND(c, what) do { __CPROVER_assert(c, "MODEL-BOUND aws_fmt: " what); __CPROVER_assume(c); } while (0)
#define AWS_FMT_BAD(what) do { __CPROVER_assert(0, "MODEL aws_fmt: " what); __CPROVER_assume(0); } while (0)
#pragma CPROVER check push
#pragma CPROVER check disable "conversion"

int
aws_asprintf9(char ** ret, const char * fmt, const void * a1, const void * a2, const void * a3, const void * a4,
    const void * a5, const void * a6, const void * a7, const void * a8, const void * a9)
{
	const void * av[9];
	struct aws_fmt_rec * r;
	char * str;
	size_t ai = 0;
	size_t fi, i, L;
	struct aws_snap snap;	/* locals, copied to the record in one assignment each: a write to a local is cheap
				 * for DFCC's write-set check, a write to a global in the assigns clause is not */
	struct aws_stream st;

	av[0] = a1; av[1] = a2; av[2] = a3; av[3] = a4; av[4] = a5; av[5] = a6; av[6] = a7; av[7] = a8; av[8] = a9;
#ifdef AWS_FMT_MAYFAIL
	/* failure-path groups: no recording at all, only "fails, or yields some fresh NUL-terminated string" */
	if (nondet_int() || (str = malloc(AWS_ABSMAX + 1)) == NULL) {
		/*
		 * *ret is unspecified after a failure.  The three things util/asprintf.c can leave there: the old
		 * value (vsnprintf failed first), NULL (malloc failed), a pointer to a block already freed again
		 * (the second vsnprintf failed).  A caller that frees or reads *ret after a failure is caught.
		 */
		int how = nondet_int();

		if (how == 1)
			*ret = NULL;
		else if (how == 2) {
			char * gone = malloc(1);

			if (gone != NULL) {
				free(gone);
				*ret = gone;
			}
		}
		return (-1);
	}
	(void)av; (void)fmt; (void)r; (void)fi; (void)ai;
	L = nondet_size_t();
	__CPROVER_assume(L <= AWS_ABSMAX);
	for (i = 0; i < AWS_ABSMAX; i++)
		__CPROVER_assume(i >= L || str[i] != '\0');
	str[L] = '\0';
	*ret = str;
	return ((int)L);
#else
	/*
	 * SUCCESS PATH ONLY, and the value returned is the constant 0 ("some non-negative value") instead of the
	 * length.  Reason: CBMC's symbolic execution merges the states of the paths that rejoin after
	 * `if (asprintf(...) == -1) goto err;` (they rejoin at the caller's return); ghost state written on one path
	 * only -- the record counter, the token counts of later records -- is symbolic from then on, and the
	 * comparison of normal forms, which relies on that structure being constant, no longer terminates in reasonable
	 * time (measured: > 15 min).  The test `== -1` can only be decided by the symbolic execution when the returned
	 * value is a constant.  Sound for aws_sign.c because all ten call sites use the value only in `== -1`
	 * (checked by eye; a caller that used the length would need the other mode).  The failure paths (asprintf
	 * returning -1, malloc returning NULL) are covered separately by the AWS_FMT_MAYFAIL groups.
	 */
	str = malloc(AWS_ABSMAX + 1);
	__CPROVER_assume(str != NULL);

	AWS_FMT_BOUND(g_aws_fmt.n < AWS_NREC, "more than AWS_NREC asprintf calls");
	r = &g_aws_fmt.rec[g_aws_fmt.n];
	g_aws_fmt.n++;
	aws_stream_init(&st);
	for (fi = 0; fi < AWS_FMTMAX; fi++) {
		char c = fmt[fi];

		if (c == '\0')
			break;
		if (c != '%') {
			aws_stream_c(&st, (uint8_t)c);
			continue;
		}
		c = fmt[++fi];
		if (c == '%') {
			aws_stream_c(&st, '%');
		} else if (c == 's') {
			if (ai >= 9)
				AWS_FMT_BAD("more than 9 conversions");
			aws_stream_cstr(&st, (const char *)av[ai++]);
		} else if (c == 'd') {
			if (ai >= 9)
				AWS_FMT_BAD("more than 9 conversions");
			aws_stream_int(&st, (int)(intptr_t)av[ai++]);
		} else {
			AWS_FMT_BAD("conversion other than %s %d %%");
		}
	}
	AWS_FMT_BOUND(fi < AWS_FMTMAX, "format longer than AWS_FMTMAX");

	/* the stand-in for the rendering: L <= AWS_ABSMAX arbitrary non-NUL bytes, then NUL; remembered */
	L = nondet_size_t();
	__CPROVER_assume(L <= AWS_ABSMAX);
	for (i = 0; i < AWS_ABSMAX; i++)
		__CPROVER_assume(i >= L || str[i] != '\0');
	str[L] = '\0';
	for (i = 0; i <= AWS_ABSMAX; i++)
		snap.b[i] = (uint8_t)str[i];
	r->snap = snap;
	r->s = st;
	r->failed = 0;
	r->len = L;
	r->result = str;
	*ret = str;
	return (0);
#endif
}

#pragma CPROVER check pop

void
libcperciva_warn(const char * fmt, ...)
{

	(void)fmt;
}

void
libcperciva_warnx(const char * fmt, ...)
{

	(void)fmt;
}
#endif
