/*
 * models/aws_fmt.c -- executable model (assumed contract, G6) of asprintf(3) for exactly the conversions
 * aws/aws_sign.c uses:  %s  %d  %%  and ordinary characters (C11 7.21.6.1):
 *   - fails (returns -1, *ret unspecified = left untouched) -- nondeterministically, or when malloc fails --,
 *     or stores a fresh NUL-terminated string in *ret and returns its length;
 *   - %s copies the bytes of the argument up to its NUL; %d prints the int in decimal, '-' for negative values,
 *     no padding; %% prints '%'; any other conversion fails a MODEL assertion.
 *
 * NOT variadic (HOWTO trap: goto-instrument --dfcc appends its write-set parameter to every function and thereby
 * breaks functions with "..." -- measured: every assignment inside the callee is reported "not assignable").
 * The harness redefines the asprintf macro (util/asprintf.h: #define asprintf libcperciva_asprintf) so that the
 * calls in the unchanged text of aws_sign.c become calls of the fixed-arity
 *     aws_asprintf9(ret, fmt, a1 .. a9)
 * with every variable argument converted to const void * (an int through intptr_t; converted back here) and
 * missing ones padded with 0 (harness/C19/c19.h).  The real util/asprintf.c (two vsnprintf calls + malloc) is
 * therefore NOT part of these proofs.
 *
 * The block has the FIXED capacity AWS_OUTMAX instead of length + 1 bytes: objects of symbolic size send every
 * byte access through CBMC's array theory, which does not scale to these strings (measured: > 16 GB); a too large
 * block only over-approximates which accesses are valid, and C19 makes no memory-safety claim.
 * Loops have compile-time-constant bounds (AWS_FMTMAX format characters, AWS_ARGMAX characters per %s argument);
 * reaching a bound is a MODEL-BOUND failure (undecided), never a pass.
 * Also: do-nothing warn()/warnx() (util/warnp.c prints to stderr, no effect on any property).
 * Cross-checked natively against glibc's asprintf by harness/C19/native_selftest.sh.
 */
#include <stddef.h>
#include <stdint.h>
#include <stdlib.h>

#ifndef AWS_FMTMAX
#define AWS_FMTMAX 320
#endif
#ifndef AWS_ARGMAX
#define AWS_ARGMAX 72
#endif
#ifndef AWS_OUTMAX
#define AWS_OUTMAX 320
#endif

#ifdef VERIF_NATIVE
#define AWS_FMT_FAIL() 0
#define AWS_FMT_BOUND(what) abort()
#define AWS_FMT_BAD(what) abort()
#else
int nondet_int(void);
#define AWS_FMT_FAIL() nondet_int()
#define AWS_FMT_BOUND(what) do { __CPROVER_assert(0, "MODEL-BOUND aws_fmt: " what); __CPROVER_assume(0); } while (0)
#define AWS_FMT_BAD(what) do { __CPROVER_assert(0, "MODEL aws_fmt: " what); __CPROVER_assume(0); } while (0)
#pragma CPROVER check push
#pragma CPROVER check disable "conversion"
#endif

#define AWS_PUT(ch) do { if (pos < AWS_OUTMAX - 1) str[pos] = (ch); pos++; } while (0)

int
aws_asprintf9(char ** ret, const char * fmt, const void * a1, const void * a2, const void * a3, const void * a4,
    const void * a5, const void * a6, const void * a7, const void * a8, const void * a9)
{
	const void * av[9];
	char * str;
	size_t pos = 0;
	size_t ai = 0;
	size_t fi, k;
	(void)&fi;
	(void)&k;
	(void)&pos;
	(void)&ai;

	av[0] = a1; av[1] = a2; av[2] = a3; av[3] = a4; av[4] = a5; av[5] = a6; av[6] = a7; av[7] = a8; av[8] = a9;
	if (AWS_FMT_FAIL())
		return (-1);
	if ((str = malloc(AWS_OUTMAX)) == NULL)
		return (-1);

	for (fi = 0; fi < AWS_FMTMAX; fi++) {
		char c = fmt[fi];

		if (c == '\0')
			break;
		if (c != '%') {
			AWS_PUT(c);
			continue;
		}
		c = fmt[++fi];
		if (c == '%') {
			AWS_PUT('%');
		} else if (c == 's') {
			const char * s;

			if (ai >= 9)
				AWS_FMT_BAD("more than 9 conversions");
			s = (const char *)av[ai++];
			for (k = 0; k < AWS_ARGMAX; k++) {
				if (s[k] == '\0')
					break;
				AWS_PUT(s[k]);
			}
			if (k == AWS_ARGMAX)
				AWS_FMT_BOUND("%s argument longer than AWS_ARGMAX");
		} else if (c == 'd') {
			int v;
			unsigned int u;
			char dig[10];
			size_t nd = 0;

			if (ai >= 9)
				AWS_FMT_BAD("more than 9 conversions");
			v = (int)(intptr_t)av[ai++];
			u = (v < 0) ? 0u - (unsigned int)v : (unsigned int)v;
			for (k = 0; k < 10; k++) {
				dig[k] = (char)('0' + (u % 10));
				u /= 10;
				if (dig[k] != '0' || k == 0)
					nd = k + 1;	/* index of the most significant non-zero digit, + 1 */
			}
			if (v < 0)
				AWS_PUT('-');
			for (k = 0; k < 10; k++)
				if (k < nd)
					AWS_PUT(dig[nd - 1 - k]);
		} else {
			AWS_FMT_BAD("conversion other than %s %d %%");
		}
	}
	if (fi == AWS_FMTMAX)
		AWS_FMT_BOUND("format longer than AWS_FMTMAX");
	if (pos > AWS_OUTMAX - 1)
		AWS_FMT_BOUND("asprintf result longer than AWS_OUTMAX - 1");
	str[pos] = '\0';
	*ret = str;
	return ((int)pos);
}

#ifndef VERIF_NATIVE
#pragma CPROVER check pop

void
libcperciva_warn(const char * fmt, ...)
{

	(void)fmt;
}

void
libcperciva_warnx(const char * fmt, ...)
{

	(void)fmt;
}
#endif
