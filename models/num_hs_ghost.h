/*
 * models/num_hs_ghost.h -- ghost state for util/humansize.c (C16): the specification automaton of
 * humansize_parse() and the recorded arguments of asprintf() in humansize().
 */
#ifndef NUM_HS_GHOST_H_
#define NUM_HS_GHOST_H_
#include <stddef.h>
#include <stdint.h>

#ifdef VERIF_NATIVE
typedef unsigned __int128 hs_wide_t;
#else
typedef unsigned __CPROVER_bitvector[128] hs_wide_t;
#endif

/*
 * Specification of the language  [0-9]+ ?[kMGTPE]?B?  as a deterministic automaton with a dead state, plus the
 * value of the digit string (exact while < 2^64, then "big", which is final: more digits or a multiplier
 * only make it larger) and the exponent k of the SI prefix.
 */
#define HS_S0 0		/* nothing read yet				(not accepting) */
#define HS_SD 1		/* [0-9]+					(accepting) */
#define HS_SS 2		/* [0-9]+ ' '					(accepting) */
#define HS_SP 3		/* [0-9]+ ?[kMGTPE]				(accepting) */
#define HS_SB 4		/* [0-9]+ ?[kMGTPE]?B				(accepting) */
#define HS_SX 5		/* dead: no continuation is in the language	(not accepting) */
struct hs_spec {
	int st;		/* automaton state */
	uint64_t acc;	/* value of the digits read so far, when !big */
	int big;	/* value of the digits >= 2^64 */
	int k;		/* exponent: multiplier is 1000^k, 0 = no prefix */
	size_t i;	/* characters consumed */
};
#define HS_ISDIG(c) ((c) >= '0' && (c) <= '9')
#define HS_PFX(c) ((c) == 'k' ? 1 : (c) == 'M' ? 2 : (c) == 'G' ? 3 : (c) == 'T' ? 4 : (c) == 'P' ? 5 : (c) == 'E' ? 6 : 0)
#define HS_SPEC_INIT(G) do { (G).st = HS_S0; (G).acc = 0; (G).big = 0; (G).k = 0; (G).i = 0; } while (0)
/* one transition on character c */
#define HS_SPEC_STEP(G, c) do { \
	char hs_c = (c); \
	int hs_n; \
	if ((G).st == HS_S0) \
		hs_n = HS_ISDIG(hs_c) ? HS_SD : HS_SX; \
	else if ((G).st == HS_SD) \
		hs_n = HS_ISDIG(hs_c) ? HS_SD : (hs_c == ' ') ? HS_SS : HS_PFX(hs_c) ? HS_SP : (hs_c == 'B') ? HS_SB : HS_SX; \
	else if ((G).st == HS_SS) \
		hs_n = HS_PFX(hs_c) ? HS_SP : (hs_c == 'B') ? HS_SB : HS_SX; \
	else if ((G).st == HS_SP) \
		hs_n = (hs_c == 'B') ? HS_SB : HS_SX; \
	else \
		hs_n = HS_SX; \
	if (hs_n == HS_SD) { \
		hs_wide_t hs_t = (hs_wide_t)(G).acc * 10 + (hs_wide_t)(hs_c - '0'); \
		if ((G).big || hs_t > (hs_wide_t)UINT64_MAX) \
			(G).big = 1; \
		else \
			(G).acc = (uint64_t)hs_t; \
	} \
	if (hs_n == HS_SP) \
		(G).k = HS_PFX(hs_c); \
	(G).st = hs_n; \
	(G).i++; \
} while (0)
#define HS_ACCEPTING(G) ((G).st == HS_SD || (G).st == HS_SS || (G).st == HS_SP || (G).st == HS_SB)
/* digits * 1000^k, exact in 128 bits (multiplications by constants only) */
#define HS_VALUE(G) ((G).k == 0 ? (hs_wide_t)(G).acc : \
	(G).k == 1 ? (hs_wide_t)(G).acc * (hs_wide_t)1000ULL : \
	(G).k == 2 ? (hs_wide_t)(G).acc * (hs_wide_t)1000000ULL : \
	(G).k == 3 ? (hs_wide_t)(G).acc * (hs_wide_t)1000000000ULL : \
	(G).k == 4 ? (hs_wide_t)(G).acc * (hs_wide_t)1000000000000ULL : \
	(G).k == 5 ? (hs_wide_t)(G).acc * (hs_wide_t)1000000000000000ULL : \
	(hs_wide_t)(G).acc * (hs_wide_t)1000000000000000000ULL)
/* the verdict of the specification once the whole string has been consumed */
#define HS_ACCEPT(G) (HS_ACCEPTING(G) && !(G).big && HS_VALUE(G) <= (hs_wide_t)UINT64_MAX)
/* 1000^k */
#define HS_POW(k) ((k) == 0 ? 1ULL : (k) == 1 ? 1000ULL : (k) == 2 ? 1000000ULL : (k) == 3 ? 1000000000ULL : \
	(k) == 4 ? 1000000000000ULL : (k) == 5 ? 1000000000000000ULL : 1000000000000000000ULL)

extern struct hs_spec g_hs;	/* lockstep ghost inside humansize_parse() */
extern size_t g_hs_len;		/* strlen of the input (set by the harness) */
extern uint64_t g_hs_sz, g_hs_mult;	/* the code's *size and multiplier at the end of the loop */

/* asprintf ghosts (models/num_asprintf.c) */
extern unsigned g_asp_calls;
extern int g_asp_kind, g_asp_a1, g_asp_a2, g_asp_pfx, g_asp_fail;
extern char * g_asp_ret;
int num_asprintf1(char **, const char *, int);
int num_asprintf2(char **, const char *, int, int);
int num_asprintf3(char **, const char *, int, int, int);
#define HS_ASP_GHOSTS g_asp_calls, g_asp_kind, g_asp_a1, g_asp_a2, g_asp_pfx, g_asp_fail, g_asp_ret

#ifndef HS_MAXLEN
#define HS_MAXLEN 28		/* bound on the symbolic string object (strlen < HS_MAXLEN) */
#endif
#endif
