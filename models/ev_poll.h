/* Ghost observation of the poll(2) model (models/ev_poll.c). */
#ifndef EV_POLL_H_
#define EV_POLL_H_
#include <stddef.h>
#include "ev_bounds.h"
extern unsigned g_poll_calls;	/* number of poll calls (saturating) */
extern int g_poll_timeout;	/* timeout argument of the latest call */
extern size_t g_poll_nfds;	/* nfds argument of the latest call */
extern int g_poll_lastrc;	/* result of the latest call */
extern int g_poll_lasterrno;
#define EV_POLL_EINTR_UNLIMITED 0xffffffffu
extern unsigned g_poll_eintr_left;	/* EINTR results poll may still produce (EV_POLL_EINTR_UNLIMITED: no limit) */	/* errno set by the latest failed call */
/* due monitor of descriptor g_ns (see contracts/events__events_network.c.spec) */
extern size_t g_ns;
extern int g_rdy_r, g_rdy_w, g_errhup;
#endif
