/*
 * STATUS: not linked by any group at present (readpass_file with the real 2048-byte buffer still exceeded 16 GB with it;
 * the group in harness/C15/file_readpass.c uses a scaled buffer and models/libc_string.c instead).  Kept for a later round.
 *
 * models/io_bigstr.c -- assumed contracts (G6, C11 7.24) of strlen / strcspn / strchr / strcmp / strdup for callers
 * whose buffers are too large for the loop models of models/libc_string.c (readpass_file: 2048 bytes, aws_readkeys:
 * 1024): the result is specified logically instead of being computed by an unwound loop.
 *
 * Each function first ASSERTS that its string argument is NUL-terminated inside its object (an unterminated buffer is
 * a failed obligation at the call site, exactly as with the loop models), then returns the least index with the
 * required property.  Quantifiers range over the constant VERIF_BIGSTR (instantiated by the SAT back end); an object
 * larger than that makes the "MODEL-BOUND" assertion fail (driver: undecided, never a violation).
 */
#include <stddef.h>
#include <stdint.h>
#ifndef VERIF_BIGSTR
#define VERIF_BIGSTR 2049
#endif
size_t nondet_size_t(void);
int nondet_int(void);
void * malloc(size_t);
void * memcpy(void *, const void *, size_t);

#define AVAIL(s) (__CPROVER_OBJECT_SIZE(s) - __CPROVER_POINTER_OFFSET(s))
/* common part: s is a string; returns its length */
static size_t
verif_str_len(const char * s)
{
	size_t avail, n;

	__CPROVER_assert(__CPROVER_r_ok(s, 1), "string argument: readable");
	avail = AVAIL(s);
	if (avail > VERIF_BIGSTR) {
		__CPROVER_assert(0, "MODEL-BOUND string object larger than VERIF_BIGSTR");
		__CPROVER_assume(0);
	}
	__CPROVER_assert(__CPROVER_exists { size_t k; (0 <= k && k < VERIF_BIGSTR) && (k < avail && s[k] == '\0') },
	    "string argument: NUL-terminated inside its object");
	n = nondet_size_t();
	__CPROVER_assume(n < avail && s[n] == '\0');
	__CPROVER_assume(__CPROVER_forall { size_t k; (0 <= k && k < VERIF_BIGSTR) ==> (k < n ==> s[k] != '\0') });
	return (n);
}

size_t
strlen(const char * s)
{

	return (verif_str_len(s));
}

/* the reject sets used by the verified callers have at most 2 characters; general sets are not modelled */
size_t
strcspn(const char * s, const char * reject)
{
	size_t n = verif_str_len(s), r;
	size_t rl = verif_str_len(reject);
	char r0, r1;

	if (rl > 2) {
		__CPROVER_assert(0, "MODEL-BOUND strcspn: reject set larger than 2");
		__CPROVER_assume(0);
	}
	r0 = rl >= 1 ? reject[0] : '\0';
	r1 = rl >= 2 ? reject[1] : r0;
	r = nondet_size_t();
	__CPROVER_assume(r <= n && (r == n || s[r] == r0 || s[r] == r1));
	__CPROVER_assume(__CPROVER_forall { size_t k; (0 <= k && k < VERIF_BIGSTR) ==> (k < r ==> (rl == 0 || (s[k] != r0 && s[k] != r1))) });
	return (r);
}

char *
strchr(const char * s, int c)
{
	size_t n = verif_str_len(s), r;
	char ch;
#pragma CPROVER check push
#pragma CPROVER check disable "conversion"
	ch = (char)c;
#pragma CPROVER check pop
	r = nondet_size_t();
	__CPROVER_assume(r <= n && (r == n || s[r] == ch));
	__CPROVER_assume(__CPROVER_forall { size_t k; (0 <= k && k < VERIF_BIGSTR) ==> (k < r ==> s[k] != ch) });
	if (s[r] != ch)
		return (NULL);
	return ((char *)(uintptr_t)&s[r]);
}

int
strcmp(const char * a, const char * b)
{
	size_t na = verif_str_len(a), nb = verif_str_len(b), d;

	/* d = first index where they differ (or the common length + NUL position) */
	d = nondet_size_t();
	__CPROVER_assume(d <= na && d <= nb && (a[d] != b[d] || (d == na && d == nb)));
	__CPROVER_assume(__CPROVER_forall { size_t k; (0 <= k && k < VERIF_BIGSTR) ==> (k < d ==> a[k] == b[k]) });
	if (a[d] == b[d])
		return (0);
	return ((unsigned char)a[d] < (unsigned char)b[d] ? -1 : 1);
}

char *
strdup(const char * s)
{
	size_t n = verif_str_len(s);
	char * r = malloc(n + 1);

	if (r == NULL)
		return (NULL);
	memcpy(r, s, n + 1);
	return (r);
}
