/*
 * models/aws_stream.h -- byte strings in NORMAL FORM for the C19 proofs ("what was asked to be printed"), shared
 * by the asprintf model (models/aws_fmt.c), by the specification side (spec/sigv4_spec.h) and by the lockstep
 * comparison (harness/C19/c19.h).
 *
 * Why: a string such as the SigV4 canonical request is a concatenation of constant text and of arguments of
 * symbolic length.  Rendered into a byte buffer, every byte after the first argument sits at a symbolic position;
 * comparing two such buffers byte for byte is a SAT problem over all combinations of lengths (measured here: 486 s
 * and 7.4 M clauses for the smallest group with arguments of <= 2 characters; > 16 GB with heap objects of symbolic
 * size).  In normal form a string is a short sequence of tokens
 *     TEXT  a maximal run of bytes whose POSITIONS inside the run are constants: literal format text, string-literal
 *           arguments, and internal strings of fixed known length (8-digit date, 16-character timestamp, 64 hex
 *           digits -- their CONTENT is symbolic, their length is not);
 *     REF   one of the registered input strings (key id, secret, region, ...) as a whole -- its length and content
 *           are arbitrary and never looked at;
 *     INT   an int printed with %d.
 * Two strings with equal normal forms are equal byte for byte (the normal form determines the rendering: TEXT bytes,
 * then the bytes of the referenced input, ...); the converse is not needed.  Normal forms are compared token by
 * token with constant indices only, so the proof no longer depends on argument lengths at all.
 *
 * Registries (ghost state set up by the harness / by the models that create the strings):
 *     g_aws_in[id]   the variable-length input objects: pointer and length (strlen, or the byte count of the body)
 *     g_aws_fix[k]   internal strings whose length is fixed by construction: pointer and length; registered by the
 *                    strftime model and by the harness-level hexify wrapper
 */
#ifndef AWS_STREAM_H_
#define AWS_STREAM_H_
#include <stddef.h>
#include <stdint.h>

#ifndef AWS_TKMAX
#define AWS_TKMAX 16		/* tokens per string */
#endif
#ifndef AWS_TXMAX
#define AWS_TXMAX 256		/* bytes per TEXT run */
#endif
#ifndef AWS_ARGMAX
#define AWS_ARGMAX 72		/* longest unregistered %s argument / literal the scanner will follow */
#endif
#define AWS_NIN 12
#define AWS_NFIX 8

#define AWS_TK_TEXT	1
#define AWS_TK_REF	2
#define AWS_TK_INT	3

struct aws_tok {
	int kind;
	int id;				/* REF: index into g_aws_in */
	int ival;			/* INT */
	size_t len;			/* TEXT: bytes in the run */
	uint8_t text[AWS_TXMAX];
};

struct aws_stream {
	size_t n;
	struct aws_tok t[AWS_TKMAX];
};

struct aws_var {
	const void * ptr;
	size_t len;
	int blob;			/* not a string (the request body): never matched by the string look-up */
};

extern struct aws_var g_aws_in[AWS_NIN];
extern struct aws_var g_aws_fix[AWS_NFIX];
extern size_t g_aws_nfix;

#ifdef VERIF_NATIVE
#include <stdio.h>
#include <stdlib.h>
#define AWS_ST_BOUND(c, what) do { if (!(c)) { fprintf(stderr, "MODEL-BOUND %s\n", what); abort(); } } while (0)
#else
#define AWS_ST_BOUND(c, what) do { __CPROVER_assert(c, "MODEL-BOUND aws_stream: " what); __CPROVER_assume(c); } while (0)
#pragma CPROVER check push
#pragma CPROVER check disable "conversion"
#endif

/*
 * pointer identity in a form the symbolic execution can decide: `p == q` between the address of an array and the
 * address of a string literal is NOT folded to a constant by CBMC's simplifier (measured), same_object/offset are.
 * An undecided comparison here makes the token structure symbolic (see the NOTE below).
 */
#ifdef VERIF_NATIVE
#define AWS_SAME_PTR(p, q) ((const void *)(p) == (const void *)(q))
#else
#define AWS_SAME_PTR(p, q) (__CPROVER_same_object((p), (q)) && __CPROVER_POINTER_OFFSET(p) == __CPROVER_POINTER_OFFSET(q))
#endif

static inline void
aws_stream_init(struct aws_stream * S)
{

	S->n = 0;
}

/*
 * NOTE for all writers below: tokens are addressed as S->t[j] with j a local copy of the (constant) index, never
 * through a pointer to the element.  A write through `struct aws_tok * t = &S->t[j]` is dereferenced by CBMC as
 * "some element of S->t" and expands into a guarded update of every field of all AWS_TKMAX elements (measured:
 * 75 M propositional variables for one front end instead of < 1 M).
 */
/* append one byte of text (opens a TEXT run when the last token is not one) */
static inline void
aws_stream_c(struct aws_stream * S, uint8_t c)
{
	size_t j;

	if (S->n == 0 || S->t[S->n - 1].kind != AWS_TK_TEXT) {
		AWS_ST_BOUND(S->n < AWS_TKMAX, "more than AWS_TKMAX tokens");
		j = S->n;
		S->t[j].kind = AWS_TK_TEXT;
		S->t[j].id = 0;
		S->t[j].ival = 0;
		S->t[j].len = 0;
		S->n = j + 1;
	}
	j = S->n - 1;
	AWS_ST_BOUND(S->t[j].len < AWS_TXMAX, "TEXT run longer than AWS_TXMAX");
	S->t[j].text[S->t[j].len] = c;
	S->t[j].len = S->t[j].len + 1;
}

static inline void
aws_stream_ref(struct aws_stream * S, int id)
{
	size_t j;

	AWS_ST_BOUND(S->n < AWS_TKMAX, "more than AWS_TKMAX tokens");
	j = S->n;
	S->t[j].kind = AWS_TK_REF;
	S->t[j].id = id;
	S->t[j].ival = 0;
	S->t[j].len = 0;
	S->n = j + 1;
}

static inline void
aws_stream_int(struct aws_stream * S, int v)
{
	size_t j;

	AWS_ST_BOUND(S->n < AWS_TKMAX, "more than AWS_TKMAX tokens");
	j = S->n;
	S->t[j].kind = AWS_TK_INT;
	S->t[j].id = 0;
	S->t[j].ival = v;
	S->t[j].len = 0;
	S->n = j + 1;
}

/* `n` bytes of fixed-length text from memory */
static inline void
aws_stream_mem(struct aws_stream * S, const void * p, size_t n)
{
	size_t k;

	AWS_ST_BOUND(n <= AWS_ARGMAX, "fixed-length string longer than AWS_ARGMAX");
	for (k = 0; k < AWS_ARGMAX && k < n; k++)
		aws_stream_c(S, ((const uint8_t *)p)[k]);
}

/*
 * a NUL-terminated string: a registered input -> REF; a registered fixed-length internal string -> its bytes;
 * anything else (string literals) -> its bytes up to the NUL.
 */
static inline void
aws_stream_cstr(struct aws_stream * S, const char * s)
{
	size_t k;

	for (k = 0; k < AWS_NIN; k++) {
		if (!g_aws_in[k].blob && g_aws_in[k].ptr != NULL && AWS_SAME_PTR(g_aws_in[k].ptr, s)) {
			aws_stream_ref(S, (int)k);
			return;
		}
	}
	for (k = 0; k < AWS_NFIX; k++) {
		if (k < g_aws_nfix && AWS_SAME_PTR(g_aws_fix[k].ptr, s)) {
			aws_stream_mem(S, s, g_aws_fix[k].len);
			return;
		}
	}
	for (k = 0; k < AWS_ARGMAX; k++) {
		if (s[k] == '\0')
			return;
		aws_stream_c(S, (uint8_t)s[k]);
	}
	AWS_ST_BOUND(0, "unregistered string longer than AWS_ARGMAX");
}

static inline void
aws_stream_cat(struct aws_stream * S, const struct aws_stream * A)
{
	size_t i, k;

	for (i = 0; i < AWS_TKMAX; i++) {
		if (i >= A->n)
			break;
		if (A->t[i].kind == AWS_TK_REF)
			aws_stream_ref(S, A->t[i].id);
		else if (A->t[i].kind == AWS_TK_INT)
			aws_stream_int(S, A->t[i].ival);
		else
			for (k = 0; k < AWS_TXMAX && k < A->t[i].len; k++)
				aws_stream_c(S, A->t[i].text[k]);
	}
}

/* equality of normal forms */
static inline int
aws_stream_eq(const struct aws_stream * A, const struct aws_stream * B)
{
	size_t i, k;
	int eq = 1;

	if (A->n != B->n)
		return (0);
	for (i = 0; i < AWS_TKMAX; i++) {
		if (i >= A->n)
			break;
		if (A->t[i].kind != B->t[i].kind)
			return (0);
		if (A->t[i].kind == AWS_TK_REF) {
			if (A->t[i].id != B->t[i].id)
				eq = 0;
		} else if (A->t[i].kind == AWS_TK_INT) {
			if (A->t[i].ival != B->t[i].ival)
				eq = 0;
		} else {
			if (A->t[i].len != B->t[i].len)
				return (0);
			/* the lengths are constants for the symbolic execution: the loop ends there */
			for (k = 0; k < AWS_TXMAX && k < A->t[i].len; k++)
				if (A->t[i].text[k] != B->t[i].text[k])
					eq = 0;
		}
	}
	return (eq);
}

#ifndef VERIF_NATIVE
#pragma CPROVER check pop
#endif

#endif /* !AWS_STREAM_H_ */
