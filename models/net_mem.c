/*
 * models/net_mem.c -- memmove (C11 7.24.2.2) as a byte-wise copy with the compile-time bound NET_MEMMOVE_MAX
 * (fully unwound by CBMC: complete for n <= NET_MEMMOVE_MAX; a longer move fails the MODEL-BOUND assertion and the
 * group is reported undecided, never violated).  Used instead of CBMC's built-in memmove because the built-in
 * (array_copy / array_replace on a temporary of symbolic size) does not terminate in the propositional reduction
 * when source and destination lie in the same heap object of symbolic size -- exactly the compaction in
 * netbuf_read_wait (measured: buflen <= 8 already hangs; a constant-size object is instantaneous).
 * Semantics: "copying takes place as if the n characters from the object pointed to by s2 are first copied into a
 * temporary array ... and then the n characters from the temporary array are copied into the object pointed to by s1".
 */
#include <stddef.h>
#include <stdint.h>
#ifndef NET_MEMMOVE_MAX
#define NET_MEMMOVE_MAX 64
#endif

void *
memmove(void * dst, const void * src, size_t n)
{
	uint8_t * d = dst;
	const uint8_t * s = src;
	size_t i;

	if (n == 0)
		return (dst);
	__CPROVER_precondition(__CPROVER_r_ok(src, n), "memmove source region readable");
	__CPROVER_precondition(__CPROVER_w_ok(dst, n), "memmove destination region writeable");
	if (n > NET_MEMMOVE_MAX) {
		__CPROVER_assert(0, "MODEL-BOUND memmove: length exceeds NET_MEMMOVE_MAX");
		__CPROVER_assume(0);
	}
	if (__CPROVER_same_object(dst, src) && __CPROVER_POINTER_OFFSET(dst) > __CPROVER_POINTER_OFFSET(src)) {
		/* destination above source: copy from the top down */
		for (i = NET_MEMMOVE_MAX; i > 0; i--)
			if (i - 1 < n)
				d[i - 1] = s[i - 1];
	} else {
		for (i = 0; i < NET_MEMMOVE_MAX; i++)
			if (i < n)
				d[i] = s[i];
	}
	return (dst);
}
