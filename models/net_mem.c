/*
 * models/net_mem.c -- memmove (C11 7.24.2.2) as a sound over-approximation that is exact at one ghost offset (G1):
 * the destination region dst[0 .. n) receives ARBITRARY bytes, except that dst[g_mm_k] receives the byte that
 * src[g_mm_k] held before the call (g_mm_k is chosen by the harness; it is arbitrary, so every statement of the form
 * "for all k < n: dst'[k] == src[k]" that a proof needs is available at that k).  The real memmove is one of the
 * behaviours of this model, therefore everything proved with the model holds for the real function.
 * Used instead of CBMC's built-in memmove because the built-in (array_copy / array_replace through a temporary of
 * symbolic size) does not get through the propositional reduction when source and destination lie in the same heap
 * object of symbolic size -- exactly the compaction in netbuf_read_wait (measured: buflen <= 8 already hangs;
 * a byte-wise loop model produces 47 M clauses at buflen <= 32).
 * Preconditions (checked at every call): source readable and destination writable for n bytes; overlap is allowed.
 */
#include <stddef.h>
#include <stdint.h>

size_t g_mm_k;
unsigned g_mm_calls;

void *
memmove(void * dst, const void * src, size_t n)
{
	uint8_t * d = dst;
	const uint8_t * s = src;
	uint8_t keep = 0;

	g_mm_calls++;
	if (n == 0)
		return (dst);
	__CPROVER_precondition(__CPROVER_r_ok(src, n), "memmove source region readable");
	__CPROVER_precondition(__CPROVER_w_ok(dst, n), "memmove destination region writeable");
	if (g_mm_k < n)
		keep = s[g_mm_k];
	__CPROVER_havoc_slice(d, n);
	if (g_mm_k < n)
		d[g_mm_k] = keep;
	return (dst);
}
