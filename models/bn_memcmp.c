/*
 * models/bn_memcmp.c -- memcmp per C11 7.24.4.1 / 7.24.4 p1: compares the first n bytes as unsigned char and
 * returns the sign of the difference of the first differing pair.  The only caller in the C10 groups passes
 * n = 256 (compile-time constant), so the loop is unwound completely.
 */
#include <stddef.h>

int
memcmp(const void * s1, const void * s2, size_t n)
{
	const unsigned char * a = s1, * b = s2;
	size_t i;

	for (i = 0; i < n; i++) {
		if (a[i] != b[i])
			return (a[i] < b[i] ? -1 : 1);
	}
	return (0);
}
