/*
 * models/libc_string.c -- executable models of the libc string functions (C11 7.24), used instead of CBMC's
 * built-in ones, whose scanning loops are unbounded.  Every scan is a loop with the compile-time bound
 * VERIF_STRMAX (fully unwound by CBMC: complete for strings shorter than the bound).  Reads go through ordinary
 * dereferences, so a string that is not NUL-terminated inside its object makes a pointer check FAIL at the call
 * site -- which is the point for C08/C15.  If a scan reaches VERIF_STRMAX the harness is mis-sized: the
 * "MODEL-BOUND" assertion fails and the driver reports the group as undecided (exit 2), never as a violation.
 *
 * Assumed contract (G6): these are the C11 semantics.  Cross-checked against glibc by models/selftest (setup).
 */
#include <stddef.h>
#include <stdint.h>
/*
 * DFCC (with --apply-loop-contracts) tracks a local that is assigned inside an un-contracted loop only when it is
 * address-taken ("dirty").  Every call instance then costs one addressed object in symex, so groups that do not
 * apply loop contracts and make hundreds of calls may build with -DVERIF_NO_DIRTY.
 */
#ifdef VERIF_NO_DIRTY
#define VERIF_DIRTY(v) do {} while (0)
#else
#define VERIF_DIRTY(v) (void)&(v)
#endif
#ifndef VERIF_STRMAX
#define VERIF_STRMAX 72
#endif
#ifndef VERIF_NATIVE
#pragma CPROVER check push
#pragma CPROVER check disable "conversion"
#endif
#ifdef VERIF_NATIVE
#define MODEL_BOUND(what) do {} while (0)
#define M(name) verif_model_##name
#else
#define MODEL_BOUND(what) do { __CPROVER_assert(0, "MODEL-BOUND " what ": scan reached VERIF_STRMAX"); __CPROVER_assume(0); } while (0)
#define M(name) name
void * malloc(size_t);
#endif

size_t
M(strlen)(const char * s)
{
	size_t i;
	VERIF_DIRTY(i);

	for (i = 0; i < VERIF_STRMAX; i++)
		if (s[i] == '\0')
			return (i);
	MODEL_BOUND("strlen");
	return (i);
}

char *
M(strchr)(const char * s, int c)
{
	size_t i;
	VERIF_DIRTY(i);

	for (i = 0; i < VERIF_STRMAX; i++) {
		if (s[i] == (char)c)
			return ((char *)(uintptr_t)&s[i]);
		if (s[i] == '\0')
			return (NULL);
	}
	MODEL_BOUND("strchr");
	return (NULL);
}

char *
M(strrchr)(const char * s, int c)
{
	size_t i;
	VERIF_DIRTY(i);
	const char * r = NULL;
	VERIF_DIRTY(r);

	for (i = 0; i < VERIF_STRMAX; i++) {
		if (s[i] == (char)c)
			r = &s[i];
		if (s[i] == '\0')
			return ((char *)(uintptr_t)r);
	}
	MODEL_BOUND("strrchr");
	return (NULL);
}

int
M(strcmp)(const char * a, const char * b)
{
	size_t i;
	VERIF_DIRTY(i);

	for (i = 0; i < VERIF_STRMAX; i++) {
		unsigned char x = (unsigned char)a[i], y = (unsigned char)b[i];
		if (x != y)
			return (x < y ? -1 : 1);
		if (x == 0)
			return (0);
	}
	MODEL_BOUND("strcmp");
	return (0);
}

int
M(strncmp)(const char * a, const char * b, size_t n)
{
	size_t i;
	VERIF_DIRTY(i);

	for (i = 0; i < VERIF_STRMAX; i++) {
		if (i >= n)
			return (0);
		unsigned char x = (unsigned char)a[i], y = (unsigned char)b[i];
		if (x != y)
			return (x < y ? -1 : 1);
		if (x == 0)
			return (0);
	}
	MODEL_BOUND("strncmp");
	return (0);
}

int
M(memcmp)(const void * a, const void * b, size_t n)
{
	size_t i;
	VERIF_DIRTY(i);
	const unsigned char * x = a, * y = b;

	for (i = 0; i < VERIF_STRMAX; i++) {
		if (i >= n)
			return (0);
		if (x[i] != y[i])
			return (x[i] < y[i] ? -1 : 1);
	}
	MODEL_BOUND("memcmp");
	return (0);
}

void *
M(memchr)(const void * s, int c, size_t n)
{
	size_t i;
	VERIF_DIRTY(i);
	const unsigned char * x = s;

	for (i = 0; i < VERIF_STRMAX; i++) {
		if (i >= n)
			return (NULL);
		if (x[i] == (unsigned char)c)
			return ((void *)(uintptr_t)&x[i]);
	}
	MODEL_BOUND("memchr");
	return (NULL);
}

size_t
M(strspn)(const char * s, const char * accept)
{
	size_t i;
	VERIF_DIRTY(i);

	for (i = 0; i < VERIF_STRMAX; i++) {
		if (s[i] == '\0' || M(strchr)(accept, s[i]) == NULL)
			return (i);
	}
	MODEL_BOUND("strspn");
	return (i);
}

size_t
M(strcspn)(const char * s, const char * reject)
{
	size_t i;
	VERIF_DIRTY(i);

	for (i = 0; i < VERIF_STRMAX; i++) {
		if (s[i] == '\0' || M(strchr)(reject, s[i]) != NULL)
			return (i);
	}
	MODEL_BOUND("strcspn");
	return (i);
}

char *
M(strstr)(const char * h, const char * n)
{
	size_t i, nl = M(strlen)(n);
	VERIF_DIRTY(i);

	for (i = 0; i < VERIF_STRMAX; i++) {
		if (M(strncmp)(&h[i], n, nl) == 0)
			return ((char *)(uintptr_t)&h[i]);
		if (h[i] == '\0')
			return (NULL);
	}
	MODEL_BOUND("strstr");
	return (NULL);
}

char *
M(stpcpy)(char * dst, const char * src)
{
	size_t i;
	VERIF_DIRTY(i);

	for (i = 0; i < VERIF_STRMAX; i++) {
		dst[i] = src[i];
		if (src[i] == '\0')
			return (&dst[i]);
	}
	MODEL_BOUND("stpcpy");
	return (dst);
}

char *
M(strcpy)(char * dst, const char * src)
{

	M(stpcpy)(dst, src);
	return (dst);
}

#ifndef VERIF_NATIVE
char *
strdup(const char * s)
{
	size_t n = strlen(s);
	char * r = malloc(n + 1);
	size_t i;
	VERIF_DIRTY(i);

	if (r == NULL)
		return (NULL);
	for (i = 0; i < VERIF_STRMAX; i++) {
		r[i] = s[i];
		if (i == n)
			break;
	}
	return (r);
}
#endif
#ifndef VERIF_NATIVE
#pragma CPROVER check pop
#endif
