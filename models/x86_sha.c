/*
 * x86_sha.c -- C models of the three SHA-NI instructions used by alg/sha256_shani.c
 * (GCC builtins behind _mm_sha256rnds2_epu32, _mm_sha256msg1_epu32, _mm_sha256msg2_epu32).
 * TRUSTED (assumed contracts, G6), written from the Intel SDM vol. 2B pseudo-code:
 *   SHA256RNDS2 xmm1, xmm2, <XMM0>:  A0 <- SRC2[127:96]; B0 <- SRC2[95:64]; C0 <- SRC1[127:96]; D0 <- SRC1[95:64];
 *        E0 <- SRC2[63:32]; F0 <- SRC2[31:0]; G0 <- SRC1[63:32]; H0 <- SRC1[31:0]; WK0 <- XMM0[31:0]; WK1 <- XMM0[63:32];
 *        for i = 0..1:  A(i+1) <- Ch(Ei,Fi,Gi) + S1(Ei) + WKi + Hi + Maj(Ai,Bi,Ci) + S0(Ai);  B(i+1) <- Ai; C(i+1) <- Bi;
 *                       D(i+1) <- Ci; E(i+1) <- Ch(Ei,Fi,Gi) + S1(Ei) + WKi + Hi + Di; F(i+1) <- Ei; G(i+1) <- Fi; H(i+1) <- Gi
 *        DEST[127:96] <- A2; DEST[95:64] <- B2; DEST[63:32] <- E2; DEST[31:0] <- F2
 *   SHA256MSG1 xmm1, xmm2:  W4 <- SRC2[31:0]; W3..W0 <- SRC1 dwords 3..0;  DEST dword k <- Wk + s0(W(k+1))
 *   SHA256MSG2 xmm1, xmm2:  W14 <- SRC2[95:64]; W15 <- SRC2[127:96]; W16 <- SRC1[31:0] + s1(W14);
 *        W17 <- SRC1[63:32] + s1(W15); W18 <- SRC1[95:64] + s1(W16); W19 <- SRC1[127:96] + s1(W17); DEST <- W19:W18:W17:W16
 * with Ch, Maj, S0 = Sigma0, S1 = Sigma1, s0 = sigma0, s1 = sigma1 as the SDM spells them out (= FIPS 180-4 4.1.2).
 * Loop-free (see models/x86_sse2.c).  models/x86_selftest.c cross-checks against the real instructions.
 */
#include <stdint.h>
#pragma CPROVER check push
#pragma CPROVER check disable "bounds"
#pragma CPROVER check disable "pointer"
#pragma CPROVER check disable "pointer-overflow"
#pragma CPROVER check disable "conversion"
typedef int x86s_v4si __attribute__((vector_size(16)));
typedef union {
	x86s_v4si v;
	uint32_t u32[4];
} x86s_V;
#define X86S_ROR(x, n) ((uint32_t)(((x) >> (n)) | ((x) << (32 - (n)))))
#define X86S_CH(e, f, g) (((e) & (f)) ^ (~(e) & (g)))
#define X86S_MAJ(a, b, c) (((a) & (b)) ^ ((a) & (c)) ^ ((b) & (c)))
#define X86S_BS0(a) (X86S_ROR(a, 2) ^ X86S_ROR(a, 13) ^ X86S_ROR(a, 22))
#define X86S_BS1(e) (X86S_ROR(e, 6) ^ X86S_ROR(e, 11) ^ X86S_ROR(e, 25))
#define X86S_SS0(w) (X86S_ROR(w, 7) ^ X86S_ROR(w, 18) ^ ((w) >> 3))
#define X86S_SS1(w) (X86S_ROR(w, 17) ^ X86S_ROR(w, 19) ^ ((w) >> 10))

x86s_v4si
__builtin_ia32_sha256rnds2(x86s_v4si src1, x86s_v4si src2, x86s_v4si xmm0)
{
	x86s_V s1, s2, wk, r;
	uint32_t a0, b0, c0, d0, e0, f0, g0, h0, a1, b1, c1, d1, e1, f1, g1, h1, a2, b2, e2, f2, t;

	s1.v = src1;
	s2.v = src2;
	wk.v = xmm0;
	a0 = s2.u32[3]; b0 = s2.u32[2]; c0 = s1.u32[3]; d0 = s1.u32[2];
	e0 = s2.u32[1]; f0 = s2.u32[0]; g0 = s1.u32[1]; h0 = s1.u32[0];
	t = X86S_CH(e0, f0, g0) + X86S_BS1(e0) + wk.u32[0] + h0;
	a1 = t + X86S_MAJ(a0, b0, c0) + X86S_BS0(a0);
	b1 = a0; c1 = b0; d1 = c0;
	e1 = t + d0;
	f1 = e0; g1 = f0; h1 = g0;
	t = X86S_CH(e1, f1, g1) + X86S_BS1(e1) + wk.u32[1] + h1;
	a2 = t + X86S_MAJ(a1, b1, c1) + X86S_BS0(a1);
	b2 = a1;
	e2 = t + d1;
	f2 = e1;
	r.u32[3] = a2;
	r.u32[2] = b2;
	r.u32[1] = e2;
	r.u32[0] = f2;
	return (r.v);
}

x86s_v4si
__builtin_ia32_sha256msg1(x86s_v4si src1, x86s_v4si src2)
{
	x86s_V s1, s2, r;

	s1.v = src1;
	s2.v = src2;
	r.u32[0] = s1.u32[0] + X86S_SS0(s1.u32[1]);
	r.u32[1] = s1.u32[1] + X86S_SS0(s1.u32[2]);
	r.u32[2] = s1.u32[2] + X86S_SS0(s1.u32[3]);
	r.u32[3] = s1.u32[3] + X86S_SS0(s2.u32[0]);
	return (r.v);
}

x86s_v4si
__builtin_ia32_sha256msg2(x86s_v4si src1, x86s_v4si src2)
{
	x86s_V s1, s2, r;
	uint32_t w14, w15, w16, w17;

	s1.v = src1;
	s2.v = src2;
	w14 = s2.u32[2];
	w15 = s2.u32[3];
	w16 = s1.u32[0] + X86S_SS1(w14);
	w17 = s1.u32[1] + X86S_SS1(w15);
	r.u32[0] = w16;
	r.u32[1] = w17;
	r.u32[2] = s1.u32[2] + X86S_SS1(w16);
	r.u32[3] = s1.u32[3] + X86S_SS1(w17);
	return (r.v);
}
#pragma CPROVER check pop
