/*
 * models/net_netapi.c -- the C06 contracts of network_read / network_write / their cancels, as seen by netbuf/*.c
 * (C07: "network layer replaced by its C06 contracts").  Written as nondeterministic C so that the handle that is
 * returned is a real object (HOWTO trap 1); the `MODEL-REQUIRES` assertions are exactly the requires clauses of the
 * contracts enforced on the real functions in contracts/network__network_read.c.spec / _write.c.spec
 * (buflen != 0, buflen <= SSIZE_MAX, min <= buflen, buffer valid for buflen bytes), the effects are the projection
 * of their ensures clauses on what a caller can observe: NULL and nothing started, or a handle and exactly one
 * pending request holding the arguments.  The SSL variants (network_ssl_read/_write, reached through the
 * netbuf_*_ssl_func pointers) have the same interface and are modelled by the same code (ssl != NULL recorded).
 */
#include <sys/types.h>

#include <limits.h>
#include <stddef.h>
#include <stdint.h>

#include "net_ghost.h"

int nondet_int(void);
#define MODEL_BOUND(what) do { __CPROVER_assert(0, "MODEL-BOUND " what); __CPROVER_assume(0); } while (0)

struct net_rq g_nrd, g_nwr;
char g_nrd_handle[1], g_nwr_handle[1];

static void *
rq_start(struct net_rq * Q, char * handle, int fd, void * ssl, const uint8_t * buf, size_t buflen, size_t minlen,
    int (* callback)(void *, ssize_t), void * cookie)
{
	int fail = nondet_int();

	if (Q->active)
		MODEL_BOUND("second request in one direction on one connection");
	if (fail) {
		Q->nfail++;
		return (NULL);
	}
	Q->active = 1;
	Q->fd = fd;
	Q->ssl = ssl;
	Q->buf = buf;
	Q->buflen = buflen;
	Q->minlen = minlen;
	Q->callback = callback;
	Q->cookie = cookie;
	Q->nstart++;
	return (handle);
}

void *
network_read(int fd, uint8_t * buf, size_t buflen, size_t minread, int (* callback)(void *, ssize_t), void * cookie)
{

	__CPROVER_assert(buflen != 0 && buflen <= SSIZE_MAX, "MODEL-REQUIRES network_read: buflen != 0 && buflen <= SSIZE_MAX");
	__CPROVER_assert(minread <= buflen, "MODEL-REQUIRES network_read: minread <= buflen");
	__CPROVER_assert(__CPROVER_w_ok(buf, buflen), "MODEL-REQUIRES network_read: buf writable for buflen bytes");
	return (rq_start(&g_nrd, g_nrd_handle, fd, NULL, buf, buflen, minread, callback, cookie));
}

void
network_read_cancel(void * cookie)
{

	__CPROVER_assert(cookie == (void *)g_nrd_handle && g_nrd.active && g_nrd.ssl == NULL,
	    "MODEL-REQUIRES network_read_cancel: the handle of a pending read");
	g_nrd.active = 0;
	g_nrd.ncancel++;
}

void *
network_write(int fd, const uint8_t * buf, size_t buflen, size_t minwrite, int (* callback)(void *, ssize_t), void * cookie)
{

	__CPROVER_assert(buflen != 0 && buflen <= SSIZE_MAX, "MODEL-REQUIRES network_write: buflen != 0 && buflen <= SSIZE_MAX");
	__CPROVER_assert(minwrite <= buflen, "MODEL-REQUIRES network_write: minwrite <= buflen");
	__CPROVER_assert(__CPROVER_r_ok(buf, buflen), "MODEL-REQUIRES network_write: buf readable for buflen bytes");
	return (rq_start(&g_nwr, g_nwr_handle, fd, NULL, buf, buflen, minwrite, callback, cookie));
}

void
network_write_cancel(void * cookie)
{

	__CPROVER_assert(cookie == (void *)g_nwr_handle && g_nwr.active && g_nwr.ssl == NULL,
	    "MODEL-REQUIRES network_write_cancel: the handle of a pending write");
	g_nwr.active = 0;
	g_nwr.ncancel++;
}

/* network_ssl_read / network_ssl_write and their cancels: what the harness stores in the netbuf_*_ssl_func pointers. */
void *
h_ssl_read(struct network_ssl_ctx * ssl, uint8_t * buf, size_t buflen, size_t minread,
    int (* callback)(void *, ssize_t), void * cookie)
{

	__CPROVER_assert(ssl != NULL, "MODEL-REQUIRES network_ssl_read: an SSL context");
	__CPROVER_assert(buflen != 0 && buflen <= SSIZE_MAX, "MODEL-REQUIRES network_ssl_read: buflen != 0 && buflen <= SSIZE_MAX");
	__CPROVER_assert(minread <= buflen, "MODEL-REQUIRES network_ssl_read: minread <= buflen");
	__CPROVER_assert(__CPROVER_w_ok(buf, buflen), "MODEL-REQUIRES network_ssl_read: buf writable for buflen bytes");
	return (rq_start(&g_nrd, g_nrd_handle, -1, ssl, buf, buflen, minread, callback, cookie));
}

void
h_ssl_read_cancel(void * cookie)
{

	__CPROVER_assert(cookie == (void *)g_nrd_handle && g_nrd.active && g_nrd.ssl != NULL,
	    "MODEL-REQUIRES network_ssl_read_cancel: the handle of a pending SSL read");
	g_nrd.active = 0;
	g_nrd.ncancel++;
}

void *
h_ssl_write(struct network_ssl_ctx * ssl, const uint8_t * buf, size_t buflen, size_t minwrite,
    int (* callback)(void *, ssize_t), void * cookie)
{

	__CPROVER_assert(ssl != NULL, "MODEL-REQUIRES network_ssl_write: an SSL context");
	__CPROVER_assert(buflen != 0 && buflen <= SSIZE_MAX, "MODEL-REQUIRES network_ssl_write: buflen != 0 && buflen <= SSIZE_MAX");
	__CPROVER_assert(minwrite <= buflen, "MODEL-REQUIRES network_ssl_write: minwrite <= buflen");
	__CPROVER_assert(__CPROVER_r_ok(buf, buflen), "MODEL-REQUIRES network_ssl_write: buf readable for buflen bytes");
	return (rq_start(&g_nwr, g_nwr_handle, -1, ssl, buf, buflen, minwrite, callback, cookie));
}

void
h_ssl_write_cancel(void * cookie)
{

	__CPROVER_assert(cookie == (void *)g_nwr_handle && g_nwr.active && g_nwr.ssl != NULL,
	    "MODEL-REQUIRES network_ssl_write_cancel: the handle of a pending SSL write");
	g_nwr.active = 0;
	g_nwr.ncancel++;
}
