/*
 * Stand-in for events/events_network_selectstats.c in the events_network.c proofs: the three hooks only keep
 * inter-select timing statistics in file-local variables of their own (checked separately on the real file in
 * harness/C04/selectstats.c: they assign nothing else).  Here they count calls.
 */
unsigned g_ss_start, g_ss_stop, g_ss_select;
void events_network_selectstats_startclock(void) { if (g_ss_start < 1000000) g_ss_start++; }
void events_network_selectstats_stopclock(void) { if (g_ss_stop < 1000000) g_ss_stop++; }
void events_network_selectstats_select(void) { if (g_ss_select < 1000000) g_ss_select++; }
