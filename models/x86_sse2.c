/*
 * x86_sse2.c -- C models of the GCC builtins behind the SSE2 / SSSE3 intrinsics used by libcperciva
 * (alg/sha256_sse2.c, alg/sha256_shani.c, crypto/crypto_aesctr_aesni.c, crypto/crypto_aes_aesni.c).
 *
 * TRUSTED (assumed contracts, G6): written from the Intel SDM vol. 2 instruction descriptions
 * (PSHUFD, PSHUFLW, PSHUFHW, PSLLW/D/Q, PSRLW/D/Q, PSLLDQ, PSRLDQ, MOVSS, PUNPCKLQDQ, PUNPCKHQDQ,
 * PSHUFB, PALIGNR).  The real sources are compiled unchanged with GCC's own <emmintrin.h> etc.; only these
 * __builtin_ia32_* functions have no body there.  Everything else in the headers (loads, stores, add, xor, or,
 * set) is plain GCC vector C that CBMC interprets itself.
 * models/x86_selftest.c cross-checks every model against the real instruction on the build CPU
 * (supports the assumption; decides no property).
 */
#include <stdint.h>

typedef int x86_v4si __attribute__((vector_size(16)));
typedef float x86_v4sf __attribute__((vector_size(16)));
typedef short x86_v8hi __attribute__((vector_size(16)));
typedef char x86_v16qi __attribute__((vector_size(16)));
typedef long long x86_v2di __attribute__((vector_size(16)));
typedef union {
	x86_v4si v;
	x86_v4sf f;
	x86_v8hi h;
	x86_v16qi q;
	x86_v2di d;
	uint8_t u8[16];
	uint16_t u16[8];
	uint32_t u32[4];
	uint64_t u64[2];
} x86_V;

/* PSHUFD: dst.dword[i] = src.dword[imm8[2i+1:2i]] */
x86_v4si
__builtin_ia32_pshufd(x86_v4si a, int imm)
{
	x86_V x, r;

	x.v = a;
	for (int i = 0; i < 4; i++)
		r.u32[i] = x.u32[(imm >> (2 * i)) & 3];
	return (r.v);
}

/* PSHUFLW: low four words shuffled by imm8, high quadword copied */
x86_v8hi
__builtin_ia32_pshuflw(x86_v8hi a, int imm)
{
	x86_V x, r;

	x.h = a;
	r = x;
	for (int i = 0; i < 4; i++)
		r.u16[i] = x.u16[(imm >> (2 * i)) & 3];
	return (r.h);
}

/* PSHUFHW: high four words shuffled by imm8, low quadword copied */
x86_v8hi
__builtin_ia32_pshufhw(x86_v8hi a, int imm)
{
	x86_V x, r;

	x.h = a;
	r = x;
	for (int i = 0; i < 4; i++)
		r.u16[4 + i] = x.u16[4 + ((imm >> (2 * i)) & 3)];
	return (r.h);
}

/* PSLLW / PSRLW imm8: logical shift of each word; count > 15 gives 0 */
x86_v8hi
__builtin_ia32_psllwi128(x86_v8hi a, int c)
{
	x86_V x;

	x.h = a;
	for (int i = 0; i < 8; i++)
		x.u16[i] = ((unsigned)c > 15) ? 0 : (uint16_t)(((uint32_t)x.u16[i] << c) & 0xffff);
	return (x.h);
}

x86_v8hi
__builtin_ia32_psrlwi128(x86_v8hi a, int c)
{
	x86_V x;

	x.h = a;
	for (int i = 0; i < 8; i++)
		x.u16[i] = ((unsigned)c > 15) ? 0 : (uint16_t)(x.u16[i] >> c);
	return (x.h);
}

/* PSLLD / PSRLD imm8: logical shift of each doubleword; count > 31 gives 0 */
x86_v4si
__builtin_ia32_pslldi128(x86_v4si a, int c)
{
	x86_V x;

	x.v = a;
	for (int i = 0; i < 4; i++)
		x.u32[i] = ((unsigned)c > 31) ? 0 : (x.u32[i] << c);
	return (x.v);
}

x86_v4si
__builtin_ia32_psrldi128(x86_v4si a, int c)
{
	x86_V x;

	x.v = a;
	for (int i = 0; i < 4; i++)
		x.u32[i] = ((unsigned)c > 31) ? 0 : (x.u32[i] >> c);
	return (x.v);
}

/* PSLLQ / PSRLQ imm8: logical shift of each quadword; count > 63 gives 0 */
x86_v2di
__builtin_ia32_psllqi128(x86_v2di a, int c)
{
	x86_V x;

	x.d = a;
	for (int i = 0; i < 2; i++)
		x.u64[i] = ((unsigned)c > 63) ? 0 : (x.u64[i] << c);
	return (x.d);
}

x86_v2di
__builtin_ia32_psrlqi128(x86_v2di a, int c)
{
	x86_V x;

	x.d = a;
	for (int i = 0; i < 2; i++)
		x.u64[i] = ((unsigned)c > 63) ? 0 : (x.u64[i] >> c);
	return (x.d);
}

/* PSLLDQ / PSRLDQ: byte shift of the whole register (GCC passes the count in BITS); count > 15 bytes gives 0 */
x86_v2di
__builtin_ia32_pslldqi128(x86_v2di a, int bits)
{
	x86_V x, r;
	int n = bits / 8;

	x.d = a;
	for (int i = 0; i < 16; i++)
		r.u8[i] = (n >= 0 && n <= 15 && i - n >= 0) ? x.u8[i - n] : 0;
	return (r.d);
}

x86_v2di
__builtin_ia32_psrldqi128(x86_v2di a, int bits)
{
	x86_V x, r;
	int n = bits / 8;

	x.d = a;
	for (int i = 0; i < 16; i++)
		r.u8[i] = (n >= 0 && n <= 15 && i + n < 16) ? x.u8[i + n] : 0;
	return (r.d);
}

/* MOVSS xmm, xmm: dst[31:0] = src[31:0], dst[127:32] unchanged */
x86_v4sf
__builtin_ia32_movss(x86_v4sf a, x86_v4sf b)
{
	x86_V x, y;

	x.f = a;
	y.f = b;
	x.u32[0] = y.u32[0];
	return (x.f);
}

/* PUNPCKLQDQ: dst = src2.low64 : src1.low64;  PUNPCKHQDQ: dst = src2.high64 : src1.high64 */
x86_v2di
__builtin_ia32_punpcklqdq128(x86_v2di a, x86_v2di b)
{
	x86_V x, y, r;

	x.d = a;
	y.d = b;
	r.u64[0] = x.u64[0];
	r.u64[1] = y.u64[0];
	return (r.d);
}

x86_v2di
__builtin_ia32_punpckhqdq128(x86_v2di a, x86_v2di b)
{
	x86_V x, y, r;

	x.d = a;
	y.d = b;
	r.u64[0] = x.u64[1];
	r.u64[1] = y.u64[1];
	return (r.d);
}

/* PSHUFB (SSSE3): dst.byte[i] = (mask.byte[i] & 0x80) ? 0 : src.byte[mask.byte[i] & 15] */
x86_v16qi
__builtin_ia32_pshufb128(x86_v16qi a, x86_v16qi m)
{
	x86_V x, y, r;

	x.q = a;
	y.q = m;
	for (int i = 0; i < 16; i++)
		r.u8[i] = (y.u8[i] & 0x80) ? 0 : x.u8[y.u8[i] & 15];
	return (r.q);
}

/* PALIGNR (SSSE3): (dst:src) >> (imm8 * 8), low 128 bits (GCC passes the count in BITS) */
x86_v2di
__builtin_ia32_palignr128(x86_v2di a, x86_v2di b, int bits)
{
	x86_V hi, lo, r;
	int n = bits / 8;

	hi.d = a;
	lo.d = b;
	for (int i = 0; i < 16; i++) {
		int j = i + n;
		r.u8[i] = (n < 0 || j >= 32) ? 0 : (j < 16) ? lo.u8[j] : hi.u8[j - 16];
	}
	return (r.d);
}
