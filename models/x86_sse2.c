/*
 * x86_sse2.c -- C models of the GCC builtins behind the SSE2 / SSSE3 intrinsics used by libcperciva
 * (alg/sha256_sse2.c, alg/sha256_shani.c, crypto/crypto_aesctr_aesni.c, crypto/crypto_aes_aesni.c).
 *
 * TRUSTED (assumed contracts, G6): written from the Intel SDM vol. 2 instruction descriptions
 * (PSHUFD, PSHUFLW, PSHUFHW, PSLLW/D/Q, PSRLW/D/Q, PSLLDQ, PSRLDQ, MOVSS, PUNPCKLQDQ, PUNPCKHQDQ,
 * PSHUFB, PALIGNR).  The real sources are compiled unchanged with GCC's own <emmintrin.h> etc.; only these
 * __builtin_ia32_* functions have no body there.  Everything else in the headers (loads, stores, add, xor, or,
 * set) is plain GCC vector C that CBMC interprets itself.
 * models/x86_selftest.c cross-checks every model against the real instruction on the build CPU
 * (supports the assumption; decides no property).
 *
 * The models are written WITHOUT loops (macros expanded per lane): the intrinsic headers call the builtins
 * through implicit built-in declarations, DFCC (cbmc 6.11) does not pass its write-set argument at such call
 * sites, and a loop counter inside the callee then fails a spurious "is assignable" check.
 */
#include <stdint.h>
/* model text (trusted): no safety obligations are generated for it */
#pragma CPROVER check push
#pragma CPROVER check disable "bounds"
#pragma CPROVER check disable "pointer"
#pragma CPROVER check disable "pointer-overflow"
#pragma CPROVER check disable "conversion"
#pragma CPROVER check disable "div-by-zero"

typedef int x86_v4si __attribute__((vector_size(16)));
typedef float x86_v4sf __attribute__((vector_size(16)));
typedef short x86_v8hi __attribute__((vector_size(16)));
typedef char x86_v16qi __attribute__((vector_size(16)));
typedef long long x86_v2di __attribute__((vector_size(16)));
typedef union {
	x86_v4si v;
	x86_v4sf f;
	x86_v8hi h;
	x86_v16qi q;
	x86_v2di d;
	uint8_t u8[16];
	uint16_t u16[8];
	uint32_t u32[4];
	uint64_t u64[2];
} x86_V;

/* PSHUFD: dst.dword[i] = src.dword[imm8[2i+1:2i]] */
x86_v4si
__builtin_ia32_pshufd(x86_v4si a, int imm)
{
	x86_V x, r;

	x.v = a;
	r.u32[0] = x.u32[(imm >> (2 * 0)) & 3];
	r.u32[1] = x.u32[(imm >> (2 * 1)) & 3];
	r.u32[2] = x.u32[(imm >> (2 * 2)) & 3];
	r.u32[3] = x.u32[(imm >> (2 * 3)) & 3];
	return (r.v);
}

/* PSHUFLW: low four words shuffled by imm8, high quadword copied */
x86_v8hi
__builtin_ia32_pshuflw(x86_v8hi a, int imm)
{
	x86_V x, r;

	x.h = a;
	r = x;
	r.u16[0] = x.u16[(imm >> (2 * 0)) & 3];
	r.u16[1] = x.u16[(imm >> (2 * 1)) & 3];
	r.u16[2] = x.u16[(imm >> (2 * 2)) & 3];
	r.u16[3] = x.u16[(imm >> (2 * 3)) & 3];
	return (r.h);
}

/* PSHUFHW: high four words shuffled by imm8, low quadword copied */
x86_v8hi
__builtin_ia32_pshufhw(x86_v8hi a, int imm)
{
	x86_V x, r;

	x.h = a;
	r = x;
	r.u16[4 + 0] = x.u16[4 + ((imm >> (2 * 0)) & 3)];
	r.u16[4 + 1] = x.u16[4 + ((imm >> (2 * 1)) & 3)];
	r.u16[4 + 2] = x.u16[4 + ((imm >> (2 * 2)) & 3)];
	r.u16[4 + 3] = x.u16[4 + ((imm >> (2 * 3)) & 3)];
	return (r.h);
}

/* PSLLW / PSRLW imm8: logical shift of each word; count > 15 gives 0 */
x86_v8hi
__builtin_ia32_psllwi128(x86_v8hi a, int c)
{
	x86_V x;

	x.h = a;
	x.u16[0] = ((unsigned)c > 15) ? 0 : (uint16_t)(((uint32_t)x.u16[0] << (c & 15)) & 0xffff);
	x.u16[1] = ((unsigned)c > 15) ? 0 : (uint16_t)(((uint32_t)x.u16[1] << (c & 15)) & 0xffff);
	x.u16[2] = ((unsigned)c > 15) ? 0 : (uint16_t)(((uint32_t)x.u16[2] << (c & 15)) & 0xffff);
	x.u16[3] = ((unsigned)c > 15) ? 0 : (uint16_t)(((uint32_t)x.u16[3] << (c & 15)) & 0xffff);
	x.u16[4] = ((unsigned)c > 15) ? 0 : (uint16_t)(((uint32_t)x.u16[4] << (c & 15)) & 0xffff);
	x.u16[5] = ((unsigned)c > 15) ? 0 : (uint16_t)(((uint32_t)x.u16[5] << (c & 15)) & 0xffff);
	x.u16[6] = ((unsigned)c > 15) ? 0 : (uint16_t)(((uint32_t)x.u16[6] << (c & 15)) & 0xffff);
	x.u16[7] = ((unsigned)c > 15) ? 0 : (uint16_t)(((uint32_t)x.u16[7] << (c & 15)) & 0xffff);
	return (x.h);
}

x86_v8hi
__builtin_ia32_psrlwi128(x86_v8hi a, int c)
{
	x86_V x;

	x.h = a;
	x.u16[0] = ((unsigned)c > 15) ? 0 : (uint16_t)(x.u16[0] >> (c & 15));
	x.u16[1] = ((unsigned)c > 15) ? 0 : (uint16_t)(x.u16[1] >> (c & 15));
	x.u16[2] = ((unsigned)c > 15) ? 0 : (uint16_t)(x.u16[2] >> (c & 15));
	x.u16[3] = ((unsigned)c > 15) ? 0 : (uint16_t)(x.u16[3] >> (c & 15));
	x.u16[4] = ((unsigned)c > 15) ? 0 : (uint16_t)(x.u16[4] >> (c & 15));
	x.u16[5] = ((unsigned)c > 15) ? 0 : (uint16_t)(x.u16[5] >> (c & 15));
	x.u16[6] = ((unsigned)c > 15) ? 0 : (uint16_t)(x.u16[6] >> (c & 15));
	x.u16[7] = ((unsigned)c > 15) ? 0 : (uint16_t)(x.u16[7] >> (c & 15));
	return (x.h);
}

/* PSLLD / PSRLD imm8: logical shift of each doubleword; count > 31 gives 0 */
x86_v4si
__builtin_ia32_pslldi128(x86_v4si a, int c)
{
	x86_V x;

	x.v = a;
	x.u32[0] = ((unsigned)c > 31) ? 0 : (x.u32[0] << (c & 31));
	x.u32[1] = ((unsigned)c > 31) ? 0 : (x.u32[1] << (c & 31));
	x.u32[2] = ((unsigned)c > 31) ? 0 : (x.u32[2] << (c & 31));
	x.u32[3] = ((unsigned)c > 31) ? 0 : (x.u32[3] << (c & 31));
	return (x.v);
}

x86_v4si
__builtin_ia32_psrldi128(x86_v4si a, int c)
{
	x86_V x;

	x.v = a;
	x.u32[0] = ((unsigned)c > 31) ? 0 : (x.u32[0] >> (c & 31));
	x.u32[1] = ((unsigned)c > 31) ? 0 : (x.u32[1] >> (c & 31));
	x.u32[2] = ((unsigned)c > 31) ? 0 : (x.u32[2] >> (c & 31));
	x.u32[3] = ((unsigned)c > 31) ? 0 : (x.u32[3] >> (c & 31));
	return (x.v);
}

/* PSLLQ / PSRLQ imm8: logical shift of each quadword; count > 63 gives 0 */
x86_v2di
__builtin_ia32_psllqi128(x86_v2di a, int c)
{
	x86_V x;

	x.d = a;
	x.u64[0] = ((unsigned)c > 63) ? 0 : (x.u64[0] << (c & 63));
	x.u64[1] = ((unsigned)c > 63) ? 0 : (x.u64[1] << (c & 63));
	return (x.d);
}

x86_v2di
__builtin_ia32_psrlqi128(x86_v2di a, int c)
{
	x86_V x;

	x.d = a;
	x.u64[0] = ((unsigned)c > 63) ? 0 : (x.u64[0] >> (c & 63));
	x.u64[1] = ((unsigned)c > 63) ? 0 : (x.u64[1] >> (c & 63));
	return (x.d);
}

/* PSLLDQ / PSRLDQ: byte shift of the whole register (GCC passes the count in BITS); count > 15 bytes gives 0 */
x86_v2di
__builtin_ia32_pslldqi128(x86_v2di a, int bits)
{
	x86_V x, r;
	int n = bits / 8;

	x.d = a;
	r.u8[0] = (n >= 0 && n <= 15 && 0 - n >= 0) ? x.u8[(0 - n) & 15] : 0;
	r.u8[1] = (n >= 0 && n <= 15 && 1 - n >= 0) ? x.u8[(1 - n) & 15] : 0;
	r.u8[2] = (n >= 0 && n <= 15 && 2 - n >= 0) ? x.u8[(2 - n) & 15] : 0;
	r.u8[3] = (n >= 0 && n <= 15 && 3 - n >= 0) ? x.u8[(3 - n) & 15] : 0;
	r.u8[4] = (n >= 0 && n <= 15 && 4 - n >= 0) ? x.u8[(4 - n) & 15] : 0;
	r.u8[5] = (n >= 0 && n <= 15 && 5 - n >= 0) ? x.u8[(5 - n) & 15] : 0;
	r.u8[6] = (n >= 0 && n <= 15 && 6 - n >= 0) ? x.u8[(6 - n) & 15] : 0;
	r.u8[7] = (n >= 0 && n <= 15 && 7 - n >= 0) ? x.u8[(7 - n) & 15] : 0;
	r.u8[8] = (n >= 0 && n <= 15 && 8 - n >= 0) ? x.u8[(8 - n) & 15] : 0;
	r.u8[9] = (n >= 0 && n <= 15 && 9 - n >= 0) ? x.u8[(9 - n) & 15] : 0;
	r.u8[10] = (n >= 0 && n <= 15 && 10 - n >= 0) ? x.u8[(10 - n) & 15] : 0;
	r.u8[11] = (n >= 0 && n <= 15 && 11 - n >= 0) ? x.u8[(11 - n) & 15] : 0;
	r.u8[12] = (n >= 0 && n <= 15 && 12 - n >= 0) ? x.u8[(12 - n) & 15] : 0;
	r.u8[13] = (n >= 0 && n <= 15 && 13 - n >= 0) ? x.u8[(13 - n) & 15] : 0;
	r.u8[14] = (n >= 0 && n <= 15 && 14 - n >= 0) ? x.u8[(14 - n) & 15] : 0;
	r.u8[15] = (n >= 0 && n <= 15 && 15 - n >= 0) ? x.u8[(15 - n) & 15] : 0;
	return (r.d);
}

x86_v2di
__builtin_ia32_psrldqi128(x86_v2di a, int bits)
{
	x86_V x, r;
	int n = bits / 8;

	x.d = a;
	r.u8[0] = (n >= 0 && n <= 15 && 0 + n < 16) ? x.u8[(0 + n) & 15] : 0;
	r.u8[1] = (n >= 0 && n <= 15 && 1 + n < 16) ? x.u8[(1 + n) & 15] : 0;
	r.u8[2] = (n >= 0 && n <= 15 && 2 + n < 16) ? x.u8[(2 + n) & 15] : 0;
	r.u8[3] = (n >= 0 && n <= 15 && 3 + n < 16) ? x.u8[(3 + n) & 15] : 0;
	r.u8[4] = (n >= 0 && n <= 15 && 4 + n < 16) ? x.u8[(4 + n) & 15] : 0;
	r.u8[5] = (n >= 0 && n <= 15 && 5 + n < 16) ? x.u8[(5 + n) & 15] : 0;
	r.u8[6] = (n >= 0 && n <= 15 && 6 + n < 16) ? x.u8[(6 + n) & 15] : 0;
	r.u8[7] = (n >= 0 && n <= 15 && 7 + n < 16) ? x.u8[(7 + n) & 15] : 0;
	r.u8[8] = (n >= 0 && n <= 15 && 8 + n < 16) ? x.u8[(8 + n) & 15] : 0;
	r.u8[9] = (n >= 0 && n <= 15 && 9 + n < 16) ? x.u8[(9 + n) & 15] : 0;
	r.u8[10] = (n >= 0 && n <= 15 && 10 + n < 16) ? x.u8[(10 + n) & 15] : 0;
	r.u8[11] = (n >= 0 && n <= 15 && 11 + n < 16) ? x.u8[(11 + n) & 15] : 0;
	r.u8[12] = (n >= 0 && n <= 15 && 12 + n < 16) ? x.u8[(12 + n) & 15] : 0;
	r.u8[13] = (n >= 0 && n <= 15 && 13 + n < 16) ? x.u8[(13 + n) & 15] : 0;
	r.u8[14] = (n >= 0 && n <= 15 && 14 + n < 16) ? x.u8[(14 + n) & 15] : 0;
	r.u8[15] = (n >= 0 && n <= 15 && 15 + n < 16) ? x.u8[(15 + n) & 15] : 0;
	return (r.d);
}

/* MOVSS xmm, xmm: dst[31:0] = src[31:0], dst[127:32] unchanged */
x86_v4sf
__builtin_ia32_movss(x86_v4sf a, x86_v4sf b)
{
	x86_V x, y;

	x.f = a;
	y.f = b;
	x.u32[0] = y.u32[0];
	return (x.f);
}

/* PUNPCKLQDQ: dst = src2.low64 : src1.low64;  PUNPCKHQDQ: dst = src2.high64 : src1.high64 */
x86_v2di
__builtin_ia32_punpcklqdq128(x86_v2di a, x86_v2di b)
{
	x86_V x, y, r;

	x.d = a;
	y.d = b;
	r.u64[0] = x.u64[0];
	r.u64[1] = y.u64[0];
	return (r.d);
}

x86_v2di
__builtin_ia32_punpckhqdq128(x86_v2di a, x86_v2di b)
{
	x86_V x, y, r;

	x.d = a;
	y.d = b;
	r.u64[0] = x.u64[1];
	r.u64[1] = y.u64[1];
	return (r.d);
}

/* PSHUFB (SSSE3): dst.byte[i] = (mask.byte[i] & 0x80) ? 0 : src.byte[mask.byte[i] & 15] */
x86_v16qi
__builtin_ia32_pshufb128(x86_v16qi a, x86_v16qi m)
{
	x86_V x, y, r;

	x.q = a;
	y.q = m;
	r.u8[0] = (y.u8[0] & 0x80) ? 0 : x.u8[y.u8[0] & 15];
	r.u8[1] = (y.u8[1] & 0x80) ? 0 : x.u8[y.u8[1] & 15];
	r.u8[2] = (y.u8[2] & 0x80) ? 0 : x.u8[y.u8[2] & 15];
	r.u8[3] = (y.u8[3] & 0x80) ? 0 : x.u8[y.u8[3] & 15];
	r.u8[4] = (y.u8[4] & 0x80) ? 0 : x.u8[y.u8[4] & 15];
	r.u8[5] = (y.u8[5] & 0x80) ? 0 : x.u8[y.u8[5] & 15];
	r.u8[6] = (y.u8[6] & 0x80) ? 0 : x.u8[y.u8[6] & 15];
	r.u8[7] = (y.u8[7] & 0x80) ? 0 : x.u8[y.u8[7] & 15];
	r.u8[8] = (y.u8[8] & 0x80) ? 0 : x.u8[y.u8[8] & 15];
	r.u8[9] = (y.u8[9] & 0x80) ? 0 : x.u8[y.u8[9] & 15];
	r.u8[10] = (y.u8[10] & 0x80) ? 0 : x.u8[y.u8[10] & 15];
	r.u8[11] = (y.u8[11] & 0x80) ? 0 : x.u8[y.u8[11] & 15];
	r.u8[12] = (y.u8[12] & 0x80) ? 0 : x.u8[y.u8[12] & 15];
	r.u8[13] = (y.u8[13] & 0x80) ? 0 : x.u8[y.u8[13] & 15];
	r.u8[14] = (y.u8[14] & 0x80) ? 0 : x.u8[y.u8[14] & 15];
	r.u8[15] = (y.u8[15] & 0x80) ? 0 : x.u8[y.u8[15] & 15];
	return (r.q);
}

/* PALIGNR (SSSE3): (dst:src) >> (imm8 * 8), low 128 bits (GCC passes the count in BITS) */
#define X86_CAT(hi, lo, j) (((j) < 0 || (j) >= 32) ? 0 : ((j) < 16) ? (lo).u8[(j) & 15] : (hi).u8[((j) - 16) & 15])
x86_v2di
__builtin_ia32_palignr128(x86_v2di a, x86_v2di b, int bits)
{
	x86_V hi, lo, r;
	int n = bits / 8;

	hi.d = a;
	lo.d = b;
	r.u8[0] = (n < 0) ? 0 : X86_CAT(hi, lo, 0 + n);
	r.u8[1] = (n < 0) ? 0 : X86_CAT(hi, lo, 1 + n);
	r.u8[2] = (n < 0) ? 0 : X86_CAT(hi, lo, 2 + n);
	r.u8[3] = (n < 0) ? 0 : X86_CAT(hi, lo, 3 + n);
	r.u8[4] = (n < 0) ? 0 : X86_CAT(hi, lo, 4 + n);
	r.u8[5] = (n < 0) ? 0 : X86_CAT(hi, lo, 5 + n);
	r.u8[6] = (n < 0) ? 0 : X86_CAT(hi, lo, 6 + n);
	r.u8[7] = (n < 0) ? 0 : X86_CAT(hi, lo, 7 + n);
	r.u8[8] = (n < 0) ? 0 : X86_CAT(hi, lo, 8 + n);
	r.u8[9] = (n < 0) ? 0 : X86_CAT(hi, lo, 9 + n);
	r.u8[10] = (n < 0) ? 0 : X86_CAT(hi, lo, 10 + n);
	r.u8[11] = (n < 0) ? 0 : X86_CAT(hi, lo, 11 + n);
	r.u8[12] = (n < 0) ? 0 : X86_CAT(hi, lo, 12 + n);
	r.u8[13] = (n < 0) ? 0 : X86_CAT(hi, lo, 13 + n);
	r.u8[14] = (n < 0) ? 0 : X86_CAT(hi, lo, 14 + n);
	r.u8[15] = (n < 0) ? 0 : X86_CAT(hi, lo, 15 + n);
	return (r.d);
}
#pragma CPROVER check pop
