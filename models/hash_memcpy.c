/*
 * models/hash_memcpy.c -- model of memcpy (C11 7.24.2.1) for the hash-layer proofs of C01/C20.
 *
 * Why: CBMC's built-in memcpy model copies through a variable-length array; with a symbolic length AND a
 * symbolic destination offset (memcpy(&ctx->buf[r], src, len) in *_Update / *_Pad) the encoding is quadratic
 * and a single call costs ~500 k SAT variables (measured: the SHA256_Update_internal group needed 400 s at an
 * input object of 70 bytes).  All contracts of the hash layer observe the 64-byte block buffer at ONE
 * arbitrary ghost index, so an exact copy of every byte is not needed.
 *
 * Semantics (a sound over-approximation of memcpy: every behaviour of the real function is a behaviour of
 * the model):
 *   - preconditions of the standard checked at every call: source readable, destination writeable for n
 *     bytes, no overlap;
 *   - if the destination lies in the *registered* 64-byte buffer g_mc_buf (set by the harness to ctx->buf):
 *     the n destination bytes receive arbitrary values, except the byte at the registered observation index
 *     g_mc_obs, which (if it is inside the copied range) receives the corresponding source byte; bytes outside
 *     [dst, dst+n) are untouched; the copy must stay inside the 64-byte buffer (assertion);
 *   - any other destination: the ordinary copy (CBMC's own model text), used for constant-size copies.
 * Since g_mc_obs is arbitrary (the harness sets it to the arbitrary ghost index of the contracts), a property
 * proved for the observed byte holds for every byte.
 */
#include <stddef.h>
#include <stdint.h>

uint8_t * g_mc_buf;	/* registered 64-byte destination buffer (or NULL) */
size_t g_mc_obs;	/* observed index into g_mc_buf, < 64 */

uint8_t nondet_hash_memcpy_u8(void);

#pragma CPROVER check push
#pragma CPROVER check disable "conversion"
void *
memcpy(void * dst, const void * src, size_t n)
{
	size_t k;
	(void)&k;	/* address-taken: DFCC tracks only 'dirty' locals assigned inside un-contracted loops */

	if (n == 0)
		return (dst);
	__CPROVER_precondition(__CPROVER_r_ok(src, n), "memcpy source region readable");
	__CPROVER_precondition(__CPROVER_w_ok(dst, n), "memcpy destination region writeable");
	__CPROVER_precondition(!__CPROVER_same_object(dst, src) ||
	    __CPROVER_POINTER_OFFSET(src) >= __CPROVER_POINTER_OFFSET(dst) + n ||
	    __CPROVER_POINTER_OFFSET(dst) >= __CPROVER_POINTER_OFFSET(src) + n, "memcpy src/dst overlap");
	if (g_mc_buf != NULL && __CPROVER_same_object(dst, g_mc_buf) &&
	    __CPROVER_POINTER_OFFSET(dst) >= __CPROVER_POINTER_OFFSET(g_mc_buf) &&
	    __CPROVER_POINTER_OFFSET(dst) - __CPROVER_POINTER_OFFSET(g_mc_buf) < 64) {
		size_t off = __CPROVER_POINTER_OFFSET(dst) - __CPROVER_POINTER_OFFSET(g_mc_buf);
		uint8_t v = 0;
		_Bool seen = (g_mc_obs < 64 && g_mc_obs >= off && g_mc_obs - off < n);

		__CPROVER_assert(n <= 64 - off, "memcpy into the block buffer stays inside its 64 bytes");
		if (seen)
			v = ((const uint8_t *)src)[g_mc_obs - off];
		for (k = 0; k < 64; k++)
			if (k >= off && k - off < n)
				g_mc_buf[k] = (seen && k == g_mc_obs) ? v : nondet_hash_memcpy_u8();
	} else {
#ifdef HASH_MEMCPY_ONLY_BUF
		/* groups in which every memcpy targets the registered buffer: do not even encode the general copy
		   (its byte_update on the context object is expensive although unreachable) */
		__CPROVER_assert(0, "MODEL-BOUND memcpy: destination is not the registered block buffer");
		__CPROVER_assume(0);
#else
		/* CBMC's built-in model */
		char src_n[n];
		__CPROVER_array_copy(src_n, (char *)src);
		__CPROVER_array_replace((char *)dst, src_n);
#endif
	}
	return (dst);
}
#pragma CPROVER check pop
