/*
 * openssl_aes.c -- ASSUMED contract (G6) of the two OpenSSL functions behind the software path of
 * crypto/crypto_aes.c:  AES_set_encrypt_key / AES_encrypt  =  FIPS-197 (spec/aes_spec.h).
 * OpenSSL is external code and is not verified; this executable model states what is assumed of it:
 *   AES_set_encrypt_key(userKey, bits, key): -1 for NULL arguments, -2 unless bits is 128, 192 or 256; otherwise
 *       0, key->rounds = Nr and key->rd_key holds the key schedule w of KeyExpansion(userKey) (as bytes, in the
 *       order of the standard -- the internal word packing of the real library is irrelevant to callers, who may
 *       only hand the object back to AES_encrypt);
 *   AES_encrypt(in, out, key): out = Cipher(in, w), in and out may be the same block.
 * 192-bit keys are not used by libcperciva (crypto_aes_key_expand asserts len 16 or 32) and are rejected here
 * with an assertion so that a caller that starts using them is noticed.
 * Included by the harness (not linked as a separate translation unit) because it shares the static functions of
 * aes_spec.h.
 */
#include <stddef.h>
#include <stdint.h>
#include <openssl/aes.h>
#include "aes_spec.h"

#pragma CPROVER check push
#pragma CPROVER check disable "bounds"
#pragma CPROVER check disable "pointer"
#pragma CPROVER check disable "pointer-overflow"
#pragma CPROVER check disable "conversion"
int
AES_set_encrypt_key(const unsigned char * userKey, const int bits, AES_KEY * key)
{

	if (userKey == NULL || key == NULL)
		return (-1);
	if (bits != 128 && bits != 192 && bits != 256)
		return (-2);
	__CPROVER_assert(bits != 192, "MODEL-LIMIT: AES-192 is not modelled (unused by libcperciva)");
	__CPROVER_assert(__CPROVER_r_ok(userKey, bits / 8), "AES_set_encrypt_key: userKey readable for bits/8 bytes");
	__CPROVER_assert(__CPROVER_w_ok(key, sizeof(AES_KEY)), "AES_set_encrypt_key: key object writable");
#ifdef OPENSSL_AES_G3
	/* G3 variant: an opaque expanded key (arbitrary content) */
	__CPROVER_havoc_object(key);
#else
	spec_aes_key_expansion(userKey, bits / 32, (uint8_t *)key->rd_key);
#endif
	key->rounds = bits / 32 + 6;
	return (0);
}

#ifdef OPENSSL_AES_G3
/*
 * G3 variant for the dispatcher proofs: AES_encrypt is SOME function of (key object, input block) -- at the ghost
 * point (g_aes_key, g_aes_X) its value is g_aes_Y, elsewhere it is unconstrained.  (What function it is -- FIPS-197
 * Cipher over the schedule stored by AES_set_encrypt_key -- is the assumption stated by the default variant below.)
 */
void
AES_encrypt(const unsigned char * in, unsigned char * out, const AES_KEY * key)
{
	uint8_t t[16];
	int atpoint;

	__CPROVER_assert(__CPROVER_r_ok(in, 16) && __CPROVER_w_ok(out, 16), "AES_encrypt: 16-byte blocks");
	__CPROVER_assert(__CPROVER_r_ok(key, sizeof(AES_KEY)) && (key->rounds == 10 || key->rounds == 14),
	    "AES_encrypt: key is an expanded AES_KEY");
	atpoint = ((const void *)key == (const void *)g_aes_key);
	for (int i = 0; i < 16; i++)
		atpoint = atpoint && (in[i] == g_aes_X[i]);
	for (int i = 0; i < 16; i++)
		out[i] = atpoint ? g_aes_Y[i] : t[i];
}
#else
void
AES_encrypt(const unsigned char * in, unsigned char * out, const AES_KEY * key)
{
	uint8_t t[16];

	__CPROVER_assert(__CPROVER_r_ok(in, 16) && __CPROVER_w_ok(out, 16), "AES_encrypt: 16-byte blocks");
	__CPROVER_assert(__CPROVER_r_ok(key, sizeof(AES_KEY)) && (key->rounds == 10 || key->rounds == 14),
	    "AES_encrypt: key is an expanded AES_KEY");
	spec_aes_cipher(in, t, (const uint8_t *)key->rd_key, key->rounds);
	for (int i = 0; i < 16; i++)
		out[i] = t[i];
}
#endif
#pragma CPROVER check pop
