/*
 * models/libc_mem.c -- memcpy with CBMC's built-in semantics, except that a zero-length copy does not require
 * valid pointers.  C11 7.24.1p2 formally makes memcpy(p, NULL, 0) undefined, glibc and every libc in use
 * accept it, and none of the properties is about it (no byte is read or written); with the built-in model it
 * shows up as "memcpy source region readable" at elasticarray_exportdup on an empty array (DESIGN §4-F7).
 */
#include <stddef.h>
#ifndef VERIF_NATIVE
void *
memcpy(void * dst, const void * src, size_t n)
{

	if (n > 0) {
		__CPROVER_precondition(__CPROVER_r_ok(src, n), "memcpy source region readable");
		__CPROVER_precondition(__CPROVER_w_ok(dst, n), "memcpy destination region writeable");
		__CPROVER_precondition(!__CPROVER_same_object(src, dst) ||
		    __CPROVER_POINTER_OFFSET(src) >= __CPROVER_POINTER_OFFSET(dst) + n ||
		    __CPROVER_POINTER_OFFSET(dst) >= __CPROVER_POINTER_OFFSET(src) + n,
		    "memcpy src/dst overlap");
		char src_n[n];
		__CPROVER_array_copy(src_n, (char *)src);
		__CPROVER_array_replace((char *)dst, src_n);
	}
	return (dst);
}
#endif
