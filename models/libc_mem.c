/*
 * models/libc_mem.c -- memcpy with CBMC's built-in semantics, except that a zero-length copy does not require
 * valid pointers.  C11 7.24.1p2 formally makes memcpy(p, NULL, 0) undefined, glibc and every libc in use
 * accept it, and none of the properties is about it (no byte is read or written); with the built-in model it
 * shows up as "memcpy source region readable" at elasticarray_exportdup on an empty array (DESIGN §4-F7).
 */
#include <stddef.h>
#ifndef VERIF_NATIVE
void *
memcpy(void * dst, const void * src, size_t n)
{

	if (n > 0) {
		__CPROVER_precondition(__CPROVER_r_ok(src, n), "memcpy source region readable");
		__CPROVER_precondition(__CPROVER_w_ok(dst, n), "memcpy destination region writeable");
		__CPROVER_precondition(!__CPROVER_same_object(src, dst) ||
		    __CPROVER_POINTER_OFFSET(src) >= __CPROVER_POINTER_OFFSET(dst) + n ||
		    __CPROVER_POINTER_OFFSET(dst) >= __CPROVER_POINTER_OFFSET(src) + n,
		    "memcpy src/dst overlap");
#ifdef VERIF_MEMCPY_BYTES
		/*
		 * byte-wise copy with a compile-time bound (complete for n <= VERIF_MEMCPY_BYTES, MODEL-BOUND otherwise):
		 * CBMC's array_copy/array_replace primitives lose the content when source and destination objects have
		 * different element types (e.g. copying an array of pointers into a fresh malloc'ed array, mpool_free).
		 */
		size_t verif_i;
		(void)&verif_i;
		for (verif_i = 0; verif_i < VERIF_MEMCPY_BYTES; verif_i++) {
			if (verif_i >= n)
				break;
			((char *)dst)[verif_i] = ((const char *)src)[verif_i];
		}
		if (n > VERIF_MEMCPY_BYTES) {
			__CPROVER_assert(0, "MODEL-BOUND memcpy: length exceeds VERIF_MEMCPY_BYTES");
			__CPROVER_assume(0);
		}
#else
		char src_n[n];
		__CPROVER_array_copy(src_n, (char *)src);
		__CPROVER_array_replace((char *)dst, src_n);
#endif
	}
	return (dst);
}
#endif
