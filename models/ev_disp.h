/*
 * Ghost state of the dispatcher proofs (events/events.c, C05): the order monitor, the protocol between the
 * event sources and doevent, and the abstract callback.
 */
#ifndef EV_DISP_H_
#define EV_DISP_H_
#include <sys/time.h>
#include "ev_rec.h"

/*
 * All monitor variables live in ONE struct so that assigns clauses name a single target: DFCC's write-set checks
 * grow quadratically with the number of targets (30 scalar targets made symbolic execution of events_run_internal
 * run for > 5 min).
 */
struct ev_disp_state {
	/* order monitor (DESIGN.md 3.5) */
	int imm_empty;		/* events_immediate_get returned NULL since the last callback ran */
	int sel_zero;		/* the latest events_network_select since the last callback had a zero timeout */
	int net_exh;		/* events_network_get returned NULL after such a zero-timeout select, since the last callback */
	/* protocol */
	struct eventrec * pending;	/* record taken from a source and not yet run */
	int pending_src;		/* 1 immediate, 2 network, 3 timer */
	unsigned ndo;			/* callbacks run so far in this events_run_internal */
	int last_rc;			/* result of the latest callback (0 before the first) */
	unsigned nsel;			/* events_network_select calls so far */
	int first_imm;			/* first events_immediate_get of the run: -1 not yet called, 0 NULL, 1 a record */
	const struct timeval * sel_tv_first;	/* timeout argument of the first select */
	struct timeval * tmin_ptr;	/* pointer handed out by events_timer_min (NULL: no timer) */
	int tmin_called;
	int src_err;			/* a source reported an error (-1) */
	/* abstract callback */
	unsigned cb_calls;
	void * cb_cookie;
	int spin_intr;			/* value of interrupt_requested when events_spin left its loop */
};
extern struct ev_disp_state g_d;
#define g_imm_empty	g_d.imm_empty
#define g_sel_zero	g_d.sel_zero
#define g_net_exh	g_d.net_exh
#define g_pending	g_d.pending
#define g_pending_src	g_d.pending_src
#define g_ndo		g_d.ndo
#define g_last_rc	g_d.last_rc
#define g_nsel		g_d.nsel
#define g_first_imm	g_d.first_imm
#define g_sel_tv_first	g_d.sel_tv_first
#define g_tmin_ptr	g_d.tmin_ptr
#define g_tmin_called	g_d.tmin_called
#define g_src_err	g_d.src_err
#define g_cb_calls	g_d.cb_calls
#define g_cb_cookie	g_d.cb_cookie
#define g_spin_intr	g_d.spin_intr
/* abstract callback */
int ev_cb_model(void *);
/* user's "done" flag for events_spin (a callback may set it) */
extern int * g_user_done;

#define EV_DISP_GHOSTS struct ev_disp_state g_d; int * g_user_done

/* start of a new run of events_run_internal: the per-run monitor state */
#define EV_DISP_RESET do { g_ndo = 0; g_last_rc = 0; g_nsel = 0; g_first_imm = -1; g_tmin_called = 0; g_src_err = 0; \
	g_imm_empty = 0; g_net_exh = 0; g_sel_zero = 0; } while (0)
#define EV_DISP_AT_START (g_pending == NULL && g_ndo == 0 && g_last_rc == 0 && g_nsel == 0 && g_first_imm == -1 && \
	g_tmin_called == 0 && g_src_err == 0 && g_imm_empty == 0 && g_net_exh == 0 && g_sel_zero == 0)
#endif
