/*
 * models/num_ghost.h -- ghost outputs of the assumed contract of strtoumax / strtoimax / strtod
 * (C11 7.22.1.3, 7.22.1.4, 7.8.2.3).  Shared by models/num_strto.c, contracts/util__parsenum.h.spec and the
 * C16 / C15 harnesses.
 *
 * The contract of the integer conversions is stated through what the standard calls the "subject sequence":
 *   g_num_nd   the subject sequence is non-empty (a conversion was performed)
 *   g_num_neg  it starts with a minus sign
 *   g_num_ovf  its magnitude exceeds UINTMAX_MAX
 *   g_num_mag  its magnitude (sum of digit * base^k) when !g_num_ovf
 *   g_num_end  offset of the "final string" from nptr (0 when no conversion was performed)
 * The *mathematical value* of the numeral is NUM_V = (neg ? -mag : mag), a ghost of 72 bits: wider than every
 * C integer type involved, so that "-1", "18446744073709551615" and "-9223372036854775808" are three different
 * values and none of the comparisons below can wrap.
 */
#ifndef NUM_GHOST_H_
#define NUM_GHOST_H_
#include <stddef.h>
#include <stdint.h>

#ifdef VERIF_NATIVE
typedef __int128 num_math_t;
typedef unsigned __int128 num_umath_t;
#else
typedef signed __CPROVER_bitvector[72] num_math_t;
typedef unsigned __CPROVER_bitvector[72] num_umath_t;
#endif

extern unsigned g_num_calls;		/* number of strto* calls made so far */
extern int g_num_nd;
extern int g_num_neg;
extern int g_num_ovf;
extern uintmax_t g_num_mag;
extern size_t g_num_end;
extern int g_num_base;		/* base actually used (after prefix / base-0 resolution) */
extern int g_num_ndig;		/* number of digits in the subject sequence: 0, 1, or 2 meaning "two or more" */
extern int g_num_reqbase;	/* the base argument the conversion function was called with (0 for strtod) */
extern const char * g_num_sptr;	/* the nptr argument the conversion function was called with */
/* strtod only */
extern double g_num_fval;	/* the correctly rounded value of the numeral (or +-HUGE_VAL / tiny on range error) */
extern int g_num_frange;	/* 0 = no range error, 1 = overflow (ERANGE, +-HUGE_VAL), 2 = underflow reported by ERANGE */
/* length of the NUL-terminated input string (set by the harness; G1-style ghost) */
extern size_t g_num_slen;

/* the mathematical value of the numeral (meaningful when g_num_nd && !g_num_ovf) */
#define NUM_V		(g_num_neg ? -(num_math_t)g_num_mag : (num_math_t)g_num_mag)
/* widening of C values to the ghost domain (exact for every 64-bit signed or unsigned value) */
#define NUM_W(x)	((num_math_t)(x))

#ifndef NUM_MAXLEN
#define NUM_MAXLEN 24		/* bound on the size of the symbolic string *object* (strlen < NUM_MAXLEN) */
#endif

#define NUM_GHOSTS g_num_calls, g_num_nd, g_num_neg, g_num_ovf, g_num_mag, g_num_end, g_num_base, g_num_ndig, g_num_reqbase, g_num_sptr, \
	g_num_fval, g_num_frange

/* executable scan shared by the three integer entry points (and by native cross-checks) */
void num_scan(const char * s, int base);

#endif /* !NUM_GHOST_H_ */
