/*
 * Assumed contract of datastruct/timerqueue.h, as an executable abstract model (see ev_timerqueue.h).
 *   timerqueue_init      : fresh empty queue, or NULL
 *   timerqueue_add       : NULL and nothing changed (allocation failure), or a fresh cookie and the pair is in the queue
 *   timerqueue_delete    : requires a cookie of an element in the queue; removes exactly that element; cannot fail
 *   timerqueue_increase  : requires such a cookie and a new deadline >= the old one; changes exactly that deadline
 *   timerqueue_getmin    : NULL iff empty, else a pointer to the least deadline (<= every deadline in the queue)
 *   timerqueue_getptr    : if the least deadline is <= *tv: removes that element and returns its pointer; else NULL
 *   timerqueue_free      : releases the queue
 * Anonymous elements have arbitrary deadlines; the pointer returned for one of them is a live object of
 * EV_TQ_PTRSZ bytes with arbitrary content except a non-NULL first pointer field (some struct timerrec the client
 * registered earlier: its event record pointer is never NULL).
 */
#include <stdint.h>
#include <stdlib.h>
#include "timerqueue.h"
#include "ev_timerqueue.h"

int __VERIFIER_nondet_int(void);
long __VERIFIER_nondet_long(void);

struct timerqueue { char dummy; };
struct ev_tq_elem g_tq;
size_t g_tq_others;
int g_tq_track_next;
struct timeval g_tq_lastmin;
struct timeval g_tq_lastgot;
int g_tq_freed;

struct timerqueue *
timerqueue_init(void)
{
	struct timerqueue * Q = malloc(sizeof(struct timerqueue));

	if (Q != NULL) {
		g_tq.in = 0;
		g_tq_others = 0;
	}
	return (Q);
}

void *
timerqueue_add(struct timerqueue * Q, const struct timeval * tv, void * ptr)
{
	void * cookie;

	__CPROVER_assert(Q != NULL, "timerqueue_add: queue exists");
	if ((cookie = malloc(1)) == NULL)
		return (NULL);
	if (__VERIFIER_nondet_int()) {
		/* an allocation inside the heap failed: nothing changed */
		free(cookie);
		return (NULL);
	}
	if (g_tq_track_next && !g_tq.in) {
		g_tq.in = 1;
		g_tq.tv = *tv;
		g_tq.ptr = ptr;
		g_tq.cookie = cookie;
		g_tq_track_next = 0;
	} else {
		__CPROVER_assume(g_tq_others < SIZE_MAX - 1);
		g_tq_others++;
	}
	return (cookie);
}

void
timerqueue_delete(struct timerqueue * Q, void * cookie)
{

	__CPROVER_assert(Q != NULL, "timerqueue_delete: queue exists");
	if (g_tq.in && cookie == g_tq.cookie) {
		g_tq.in = 0;
		free(g_tq.cookie);
	} else {
		__CPROVER_assert(g_tq_others > 0, "timerqueue_delete: the cookie belongs to an element of the queue");
		g_tq_others--;
	}
}

void
timerqueue_increase(struct timerqueue * Q, void * cookie, const struct timeval * tv)
{

	__CPROVER_assert(Q != NULL, "timerqueue_increase: queue exists");
	if (g_tq.in && cookie == g_tq.cookie) {
		__CPROVER_assert(EV_TV_LE(g_tq.tv, *tv), "timerqueue_increase: the new deadline is not earlier than the old one");
		g_tq.tv = *tv;
	} else {
		__CPROVER_assert(g_tq_others > 0, "timerqueue_increase: the cookie belongs to an element of the queue");
	}
}

const struct timeval *
timerqueue_getmin(struct timerqueue * Q)
{
	struct timeval m;

	__CPROVER_assert(Q != NULL, "timerqueue_getmin: queue exists");
	if (!g_tq.in && g_tq_others == 0)
		return (NULL);
	if (g_tq_others == 0)
		m = g_tq.tv;
	else {
		m.tv_sec = __VERIFIER_nondet_long();
		m.tv_usec = __VERIFIER_nondet_long();
		__CPROVER_assume(EV_TV_OK(m));
		if (g_tq.in) {
			/* the least deadline: the tracked one, or an anonymous one that is not later */
			if (__VERIFIER_nondet_int())
				m = g_tq.tv;
			else
				__CPROVER_assume(EV_TV_LE(m, g_tq.tv));
		}
	}
	g_tq_lastmin = m;
	return (&g_tq_lastmin);
}

void *
timerqueue_getptr(struct timerqueue * Q, const struct timeval * tv)
{
	void * p;

	__CPROVER_assert(Q != NULL, "timerqueue_getptr: queue exists");
	if (!g_tq.in && g_tq_others == 0)
		return (NULL);
	/* is the least element the tracked one? (always, if there is no other) */
	if (g_tq.in && (g_tq_others == 0 || __VERIFIER_nondet_int())) {
		if (!EV_TV_LE(g_tq.tv, *tv))
			return (NULL);		/* least deadline is in the future */
		g_tq.in = 0;
		g_tq_lastgot = g_tq.tv;
		free(g_tq.cookie);
		return (g_tq.ptr);
	}
	/* an anonymous element is least */
	if (__VERIFIER_nondet_int()) {
		/* its deadline is in the future; then so is the tracked one (it is not earlier) */
		__CPROVER_assume(!g_tq.in || !EV_TV_LE(g_tq.tv, *tv));
		return (NULL);
	}
	g_tq_lastgot.tv_sec = __VERIFIER_nondet_long();
	g_tq_lastgot.tv_usec = __VERIFIER_nondet_long();
	__CPROVER_assume(EV_TV_OK(g_tq_lastgot) && EV_TV_LE(g_tq_lastgot, *tv));
	__CPROVER_assume(!g_tq.in || EV_TV_LE(g_tq_lastgot, g_tq.tv));
	g_tq_others--;
	p = malloc(EV_TQ_PTRSZ);
	__CPROVER_assume(p != NULL);
	/* client invariant of events_timer.c: a registered struct timerrec has a non-NULL event record (first field) */
	__CPROVER_assume(*(void **)p != NULL);
	return (p);
}

void
timerqueue_free(struct timerqueue * Q)
{

	if (Q == NULL)
		return;
	__CPROVER_assert(!g_tq.in && g_tq_others == 0, "timerqueue_free: queue is empty (events_timer_shutdown frees only empty queues)");
	g_tq_freed = 1;
	free(Q);
}
