/* Object-size parameters shared by the events_* contracts, harnesses and models (C04/C05). */
#ifndef EV_BOUNDS_H_
#define EV_BOUNDS_H_
#ifndef NS_Q
#define NS_Q 4		/* descriptors 0 .. NS_Q-1 may have a record in S */
#endif
#ifndef NF_Q
#define NF_Q 4		/* at most NF_Q initialised pollfd entries */
#endif
#ifndef NF_A
#define NF_A 6		/* at most NF_A allocated pollfd entries in a pre-state */
#endif
#endif
