/*
 * x86_aesni.c -- C models of the three AES-NI instructions used by crypto/crypto_aes_aesni.c
 * (GCC builtins behind _mm_aesenc_si128, _mm_aesenclast_si128, _mm_aeskeygenassist_si128).
 *
 * TRUSTED (assumed contracts, G6), written from the Intel SDM vol. 2A pseudo-code:
 *   AESENC      xmm1, xmm2:  STATE <- SRC1; RoundKey <- SRC2; STATE <- ShiftRows(STATE); STATE <- SubBytes(STATE);
 *                            STATE <- MixColumns(STATE); DEST <- STATE XOR RoundKey
 *   AESENCLAST  xmm1, xmm2:  the same without MixColumns
 *   AESKEYGENASSIST xmm1, xmm2, imm8:  X3:X2:X1:X0 <- SRC; RCON <- ZeroExtend(imm8);
 *                            DEST[31:0]   <- SubWord(X1);  DEST[63:32]  <- RotWord(SubWord(X1)) XOR RCON;
 *                            DEST[95:64]  <- SubWord(X3);  DEST[127:96] <- RotWord(SubWord(X3)) XOR RCON
 * where the SDM defines ShiftRows/SubBytes/MixColumns/SubWord/RotWord as the FIPS-197 transformations on the
 * state whose byte i is bits [8i+7:8i] of the register -- so they are written with the primitives of
 * spec/aes_spec.h.  RotWord on a little-endian dword {a0,a1,a2,a3} (a0 = bits 7:0) gives {a1,a2,a3,a0}.
 * models/x86_selftest.c cross-checks the three models against the real instructions on the build CPU.
 */
#include <stdint.h>
#include "aes_spec.h"

typedef long long x86a_v2di __attribute__((vector_size(16)));
typedef union {
	x86a_v2di d;
	uint8_t u8[16];
	uint32_t u32[4];
} x86a_V;

x86a_v2di
__builtin_ia32_aesenc128(x86a_v2di a, x86a_v2di k)
{
	x86a_V s, rk;

	s.d = a;
	rk.d = k;
	spec_aes_shift_rows(s.u8);
	spec_aes_sub_bytes(s.u8);
	spec_aes_mix_columns(s.u8);
	spec_aes_add_round_key(s.u8, rk.u8);
	return (s.d);
}

x86a_v2di
__builtin_ia32_aesenclast128(x86a_v2di a, x86a_v2di k)
{
	x86a_V s, rk;

	s.d = a;
	rk.d = k;
	spec_aes_shift_rows(s.u8);
	spec_aes_sub_bytes(s.u8);
	spec_aes_add_round_key(s.u8, rk.u8);
	return (s.d);
}

x86a_v2di
__builtin_ia32_aeskeygenassist128(x86a_v2di a, int imm)
{
	x86a_V s, r;
	uint8_t rcon = (uint8_t)(imm & 0xff);

	s.d = a;
	for (int h = 0; h < 2; h++) {
		/* X1 = dword 1 (h = 0), X3 = dword 3 (h = 1) */
		uint8_t b0 = SPEC_AES_SBOX(s.u8[8 * h + 4]);
		uint8_t b1 = SPEC_AES_SBOX(s.u8[8 * h + 5]);
		uint8_t b2 = SPEC_AES_SBOX(s.u8[8 * h + 6]);
		uint8_t b3 = SPEC_AES_SBOX(s.u8[8 * h + 7]);

		/* SubWord(X) */
		r.u8[8 * h + 0] = b0;
		r.u8[8 * h + 1] = b1;
		r.u8[8 * h + 2] = b2;
		r.u8[8 * h + 3] = b3;
		/* RotWord(SubWord(X)) XOR RCON */
		r.u8[8 * h + 4] = (uint8_t)(b1 ^ rcon);
		r.u8[8 * h + 5] = b2;
		r.u8[8 * h + 6] = b3;
		r.u8[8 * h + 7] = b0;
	}
	return (r.d);
}
