/*
 * x86_aesni.c -- C models of the three AES-NI instructions used by crypto/crypto_aes_aesni.c
 * (GCC builtins behind _mm_aesenc_si128, _mm_aesenclast_si128, _mm_aeskeygenassist_si128).
 *
 * TRUSTED (assumed contracts, G6), written from the Intel SDM vol. 2A pseudo-code:
 *   AESENC      xmm1, xmm2:  STATE <- SRC1; RoundKey <- SRC2; STATE <- ShiftRows(STATE); STATE <- SubBytes(STATE);
 *                            STATE <- MixColumns(STATE); DEST <- STATE XOR RoundKey
 *   AESENCLAST  xmm1, xmm2:  the same without MixColumns
 *   AESKEYGENASSIST xmm1, xmm2, imm8:  X3:X2:X1:X0 <- SRC; RCON <- ZeroExtend(imm8);
 *                            DEST[31:0]   <- SubWord(X1);  DEST[63:32]  <- RotWord(SubWord(X1)) XOR RCON;
 *                            DEST[95:64]  <- SubWord(X3);  DEST[127:96] <- RotWord(SubWord(X3)) XOR RCON
 * where the SDM defines ShiftRows/SubBytes/MixColumns/SubWord/RotWord as the FIPS-197 transformations on the
 * state whose byte i is bits [8i+7:8i] of the register -- so they are written with the primitives of
 * spec/aes_spec.h.  RotWord on a little-endian dword {a0,a1,a2,a3} (a0 = bits 7:0) gives {a1,a2,a3,a0}.
 * models/x86_selftest.c cross-checks the three models against the real instructions on the build CPU.
 *
 * Written WITHOUT loops (see models/x86_sse2.c for why); multiplication by {02} and {03} in MixColumns is
 * xtime(a) and xtime(a) ^ a (FIPS-197 4.2.1), ShiftRows is the index map s'[r + 4c] = s[r + 4((c + r) mod 4)].
 */
#include <stdint.h>
/* model text (trusted): no safety obligations are generated for it */
#pragma CPROVER check push
#pragma CPROVER check disable "bounds"
#pragma CPROVER check disable "pointer"
#pragma CPROVER check disable "pointer-overflow"
#pragma CPROVER check disable "conversion"
#pragma CPROVER check disable "div-by-zero"
#include "aes_spec.h"

typedef long long x86a_v2di __attribute__((vector_size(16)));
typedef union {
	x86a_v2di d;
	uint8_t u8[16];
	uint32_t u32[4];
} x86a_V;

#ifdef C02_AES_G2
/*
 * G2 lock-step variant of AESENC / AESENCLAST (structure proofs only): the specification side ran first and
 * logged, for its k-th round, the state and round key it was applied to and an ARBITRARY result g2_out[k];
 * the k-th instruction executed by the implementation must be of the same kind and be applied to the same
 * state and round key, and returns the same arbitrary result.  Equality under every interpretation of the round.
 */
extern uint8_t g2_in[16][32];
extern uint8_t g2_out[16][16];
extern int g2_kind[16];		/* 1 = full round, 2 = final round */
extern int g2_nspec, g2_nimpl;
#define G2_B(i) (x.u8[i] == g2_in[idx][i] && rk.u8[i] == g2_in[idx][16 + (i)])
#define G2_SAME (G2_B(0) && G2_B(1) && G2_B(2) && G2_B(3) && G2_B(4) && G2_B(5) && G2_B(6) && G2_B(7) && \
	G2_B(8) && G2_B(9) && G2_B(10) && G2_B(11) && G2_B(12) && G2_B(13) && G2_B(14) && G2_B(15))
#define G2_O(i) r.u8[i] = g2_out[idx][i]
#define G2_STEP(kind) \
	x86a_V x, rk, r; \
	int idx = g2_nimpl; \
	x.d = a; \
	rk.d = k; \
	__CPROVER_assert(idx >= 0 && idx < g2_nspec && idx < 16, "G2: the implementation executes no more rounds than FIPS-197 Cipher"); \
	idx = idx & 15; \
	__CPROVER_assert(g2_kind[idx] == (kind), "G2: same kind of round (full / final) as FIPS-197 Cipher at this position"); \
	__CPROVER_assert(G2_SAME, "G2: round applied to the same state and round key as in FIPS-197 Cipher"); \
	g2_nimpl = g2_nimpl + 1; \
	G2_O(0); G2_O(1); G2_O(2); G2_O(3); G2_O(4); G2_O(5); G2_O(6); G2_O(7); \
	G2_O(8); G2_O(9); G2_O(10); G2_O(11); G2_O(12); G2_O(13); G2_O(14); G2_O(15); \
	return (r.d)

x86a_v2di
__builtin_ia32_aesenc128(x86a_v2di a, x86a_v2di k)
{
	G2_STEP(1);
}

x86a_v2di
__builtin_ia32_aesenclast128(x86a_v2di a, x86a_v2di k)
{
	G2_STEP(2);
}
#define __builtin_ia32_aesenc128 x86m_real_aesenc128
#define __builtin_ia32_aesenclast128 x86m_real_aesenclast128
#endif /* C02_AES_G2 */

#define X2(a) spec_aes_xtime(a)
#define X3(a) ((uint8_t)(spec_aes_xtime(a) ^ (a)))

x86a_v2di
__builtin_ia32_aesenc128(x86a_v2di a, x86a_v2di k)
{
	x86a_V x, s, m, rk;

	x.d = a;
	rk.d = k;
	/* ShiftRows, then SubBytes */
	s.u8[0] = SPEC_AES_SBOX(x.u8[0]);
	s.u8[1] = SPEC_AES_SBOX(x.u8[5]);
	s.u8[2] = SPEC_AES_SBOX(x.u8[10]);
	s.u8[3] = SPEC_AES_SBOX(x.u8[15]);
	s.u8[4] = SPEC_AES_SBOX(x.u8[4]);
	s.u8[5] = SPEC_AES_SBOX(x.u8[9]);
	s.u8[6] = SPEC_AES_SBOX(x.u8[14]);
	s.u8[7] = SPEC_AES_SBOX(x.u8[3]);
	s.u8[8] = SPEC_AES_SBOX(x.u8[8]);
	s.u8[9] = SPEC_AES_SBOX(x.u8[13]);
	s.u8[10] = SPEC_AES_SBOX(x.u8[2]);
	s.u8[11] = SPEC_AES_SBOX(x.u8[7]);
	s.u8[12] = SPEC_AES_SBOX(x.u8[12]);
	s.u8[13] = SPEC_AES_SBOX(x.u8[1]);
	s.u8[14] = SPEC_AES_SBOX(x.u8[6]);
	s.u8[15] = SPEC_AES_SBOX(x.u8[11]);
	/* MixColumns */
	m.u8[0] = (uint8_t)(X2(s.u8[0]) ^ X3(s.u8[1]) ^ s.u8[2] ^ s.u8[3]);
	m.u8[1] = (uint8_t)(s.u8[0] ^ X2(s.u8[1]) ^ X3(s.u8[2]) ^ s.u8[3]);
	m.u8[2] = (uint8_t)(s.u8[0] ^ s.u8[1] ^ X2(s.u8[2]) ^ X3(s.u8[3]));
	m.u8[3] = (uint8_t)(X3(s.u8[0]) ^ s.u8[1] ^ s.u8[2] ^ X2(s.u8[3]));
	m.u8[4] = (uint8_t)(X2(s.u8[4]) ^ X3(s.u8[5]) ^ s.u8[6] ^ s.u8[7]);
	m.u8[5] = (uint8_t)(s.u8[4] ^ X2(s.u8[5]) ^ X3(s.u8[6]) ^ s.u8[7]);
	m.u8[6] = (uint8_t)(s.u8[4] ^ s.u8[5] ^ X2(s.u8[6]) ^ X3(s.u8[7]));
	m.u8[7] = (uint8_t)(X3(s.u8[4]) ^ s.u8[5] ^ s.u8[6] ^ X2(s.u8[7]));
	m.u8[8] = (uint8_t)(X2(s.u8[8]) ^ X3(s.u8[9]) ^ s.u8[10] ^ s.u8[11]);
	m.u8[9] = (uint8_t)(s.u8[8] ^ X2(s.u8[9]) ^ X3(s.u8[10]) ^ s.u8[11]);
	m.u8[10] = (uint8_t)(s.u8[8] ^ s.u8[9] ^ X2(s.u8[10]) ^ X3(s.u8[11]));
	m.u8[11] = (uint8_t)(X3(s.u8[8]) ^ s.u8[9] ^ s.u8[10] ^ X2(s.u8[11]));
	m.u8[12] = (uint8_t)(X2(s.u8[12]) ^ X3(s.u8[13]) ^ s.u8[14] ^ s.u8[15]);
	m.u8[13] = (uint8_t)(s.u8[12] ^ X2(s.u8[13]) ^ X3(s.u8[14]) ^ s.u8[15]);
	m.u8[14] = (uint8_t)(s.u8[12] ^ s.u8[13] ^ X2(s.u8[14]) ^ X3(s.u8[15]));
	m.u8[15] = (uint8_t)(X3(s.u8[12]) ^ s.u8[13] ^ s.u8[14] ^ X2(s.u8[15]));
	/* XOR RoundKey */
	m.d = m.d ^ rk.d;
	return (m.d);
}

x86a_v2di
__builtin_ia32_aesenclast128(x86a_v2di a, x86a_v2di k)
{
	x86a_V x, s, rk;

	x.d = a;
	rk.d = k;
	/* ShiftRows, then SubBytes */
	s.u8[0] = SPEC_AES_SBOX(x.u8[0]);
	s.u8[1] = SPEC_AES_SBOX(x.u8[5]);
	s.u8[2] = SPEC_AES_SBOX(x.u8[10]);
	s.u8[3] = SPEC_AES_SBOX(x.u8[15]);
	s.u8[4] = SPEC_AES_SBOX(x.u8[4]);
	s.u8[5] = SPEC_AES_SBOX(x.u8[9]);
	s.u8[6] = SPEC_AES_SBOX(x.u8[14]);
	s.u8[7] = SPEC_AES_SBOX(x.u8[3]);
	s.u8[8] = SPEC_AES_SBOX(x.u8[8]);
	s.u8[9] = SPEC_AES_SBOX(x.u8[13]);
	s.u8[10] = SPEC_AES_SBOX(x.u8[2]);
	s.u8[11] = SPEC_AES_SBOX(x.u8[7]);
	s.u8[12] = SPEC_AES_SBOX(x.u8[12]);
	s.u8[13] = SPEC_AES_SBOX(x.u8[1]);
	s.u8[14] = SPEC_AES_SBOX(x.u8[6]);
	s.u8[15] = SPEC_AES_SBOX(x.u8[11]);
	/* XOR RoundKey */
	s.d = s.d ^ rk.d;
	return (s.d);
}

#define KGA_HALF(h) do { \
	/* X1 = dword 1 (h = 0), X3 = dword 3 (h = 1) */ \
	uint8_t b0 = SPEC_AES_SBOX(s.u8[8 * (h) + 4]); \
	uint8_t b1 = SPEC_AES_SBOX(s.u8[8 * (h) + 5]); \
	uint8_t b2 = SPEC_AES_SBOX(s.u8[8 * (h) + 6]); \
	uint8_t b3 = SPEC_AES_SBOX(s.u8[8 * (h) + 7]); \
	/* SubWord(X) */ \
	r.u8[8 * (h) + 0] = b0; \
	r.u8[8 * (h) + 1] = b1; \
	r.u8[8 * (h) + 2] = b2; \
	r.u8[8 * (h) + 3] = b3; \
	/* RotWord(SubWord(X)) XOR RCON */ \
	r.u8[8 * (h) + 4] = (uint8_t)(b1 ^ rcon); \
	r.u8[8 * (h) + 5] = b2; \
	r.u8[8 * (h) + 6] = b3; \
	r.u8[8 * (h) + 7] = b0; \
} while (0)

x86a_v2di
__builtin_ia32_aeskeygenassist128(x86a_v2di a, int imm)
{
	x86a_V s, r;
	uint8_t rcon = (uint8_t)(imm & 0xff);

	s.d = a;
	KGA_HALF(0);
	KGA_HALF(1);
	return (r.d);
}
#pragma CPROVER check pop
