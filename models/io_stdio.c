/*
 * models/io_stdio.c -- assumed contracts (G6) of the C11 stream functions used by util/readpass_file.c and
 * aws/aws_readkeys.c, written from C11 7.21.5.1 (fclose), 7.21.5.3 (fopen), 7.21.7.1 (fgetc), 7.21.7.2 (fgets),
 * 7.21.10.3 (ferror).  The file is an arbitrary finite byte sequence: lines of any length, NUL bytes, no final newline.
 *
 *   fopen   reads its two string arguments up to their NULs; returns NULL or a new stream.
 *   fgets   n > 0 required.  Returns NULL on end-of-file with nothing read (array unchanged) or on a read error (array
 *           contents indeterminate, error indicator set); otherwise stores k characters, 1 <= k <= n - 1, of ARBITRARY
 *           content followed by a NUL, and returns s.  (Over-approximation: the real function additionally stops at
 *           the first newline; allowing newlines anywhere only adds behaviours.)  A line longer than n - 1 characters
 *           simply yields k == n - 1 with no newline.
 *   fgetc   EOF (end-of-file or error) or one arbitrary byte.
 *   ferror  the error indicator.
 *   fclose  the stream is gone; returns 0 or EOF.
 *
 * Ghost state: verif_io_open (number of open streams: "every opened file is closed" is a postcondition of the callers),
 * verif_io_remaining (bytes left in the file; finite, chosen by the harness: gives the reading loops a variant).
 */
#include <stdio.h>
#include <stdlib.h>
#include <string.h>
#include "io_stdio.h"

size_t verif_io_open;
size_t verif_io_remaining;

_Bool nondet_bool(void);
size_t nondet_size_t(void);
int nondet_int(void);

char nondet_char(void);

/* store k arbitrary bytes at s (k <= cap; cap is the caller's compile-time constant buffer size, which bounds the loop) */
static void
verif_io_fill(char * s, size_t k, size_t cap)
{
	size_t i;
	(void)&i;	/* address-taken: DFCC tracks only 'dirty' locals assigned inside un-contracted loops */

	for (i = 0; i < cap; i++) {
		if (i >= k)
			break;
		s[i] = nondet_char();
	}
}

FILE *
fopen(const char * path, const char * mode)
{
	struct verif_file * vf;

	/* both arguments are strings: read up to and including the NUL */
	(void)strlen(path);
	(void)strlen(mode);
	if (nondet_bool())
		return (NULL);		/* errno is set by the real function; callers only print it */
	if ((vf = malloc(sizeof(struct verif_file))) == NULL)
		return (NULL);
	vf->open = 1;
	vf->err = 0;
	vf->eof = 0;
	verif_io_open++;
	return ((FILE *)vf);
}

char *
fgets(char * s, int n, FILE * f)
{
	struct verif_file * vf = (struct verif_file *)f;
	size_t k;

	__CPROVER_assert(vf != NULL && vf->open == 1, "fgets: stream is open");
	__CPROVER_assert(n > 0, "fgets: n > 0");
	if (n == 1) {
		s[0] = '\0';
		return (s);
	}
	if (vf->err || vf->eof || verif_io_remaining == 0 || nondet_bool()) {
		if (!vf->eof && verif_io_remaining > 0) {
			/* read error: array contents indeterminate */
			vf->err = 1;
			verif_io_fill(s, (size_t)n, (size_t)n);
		} else
			vf->eof = 1;
		return (NULL);
	}
	k = nondet_size_t();
	__CPROVER_assume(k >= 1 && k <= (size_t)n - 1 && k <= verif_io_remaining);
	verif_io_remaining -= k;
	verif_io_fill(s, k, (size_t)n);
	s[k] = '\0';
	return (s);
}

int
fgetc(FILE * f)
{
	struct verif_file * vf = (struct verif_file *)f;
	int c;

	__CPROVER_assert(vf != NULL && vf->open == 1, "fgetc: stream is open");
	if (vf->err || vf->eof || verif_io_remaining == 0 || nondet_bool()) {
		if (verif_io_remaining == 0)
			vf->eof = 1;
		else
			vf->err = 1;
		return (EOF);
	}
	verif_io_remaining--;
	c = nondet_int();
	__CPROVER_assume(c >= 0 && c <= 255);
	return (c);
}

int
ferror(FILE * f)
{
	struct verif_file * vf = (struct verif_file *)f;

	__CPROVER_assert(vf != NULL && vf->open == 1, "ferror: stream is open");
	return (vf->err);
}

int
fclose(FILE * f)
{
	struct verif_file * vf = (struct verif_file *)f;

	__CPROVER_assert(vf != NULL && vf->open == 1, "fclose: stream is open (no double close)");
	vf->open = 0;
	verif_io_open--;
	free(vf);
	return (nondet_bool() ? 0 : EOF);
}
