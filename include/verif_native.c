/* native side of verif.h: feeds a harness the harness-level values of a CBMC counterexample */
#define _GNU_SOURCE
#include <stdio.h>
#include <stdlib.h>
#include <string.h>
#include <stdint.h>

struct kv { char * k; char * v; int used; };
static struct kv * tab; static size_t ntab;

static void
load(void)
{
	static int done;
	const char * p = getenv("VERIF_INPUTS");
	char * line = NULL; size_t cap = 0; FILE * f;
	if (done) return;
	done = 1;
	if (p == NULL || (f = fopen(p, "r")) == NULL) return;
	while (getline(&line, &cap, f) > 0) {
		char * t = strchr(line, '\t');
		if (!t) continue;
		*t++ = 0; t[strcspn(t, "\n")] = 0;
		tab = realloc(tab, (ntab + 1) * sizeof(*tab));
		tab[ntab].k = strdup(line); tab[ntab].v = strdup(t); tab[ntab].used = 0; ntab++;
	}
	fclose(f);
}

/* CBMC prints bit patterns: "data" is decimal for integers in json-ui; accept "123", "-5", "\"0x..\"" */
static unsigned long long
parse(const char * v)
{
	while (*v == '"' || *v == ' ') v++;
	if (!strncmp(v, "true", 4)) return 1;
	if (!strncmp(v, "false", 5)) return 0;
	if (*v == '-') return (unsigned long long)strtoll(v, NULL, 0);
	return strtoull(v, NULL, 0);
}

/* each read of a name consumes the next recorded assignment to that name (sequence = call order) */
unsigned long long
verif_native_scalar(const char * name)
{
	size_t i; long last = -1;
	load();
	for (i = 0; i < ntab; i++)
		if (!strcmp(tab[i].k, name)) {
			last = (long)i;
			if (!tab[i].used) { tab[i].used = 1; return parse(tab[i].v); }
		}
	return last >= 0 ? parse(tab[last].v) : 0;
}

void
verif_native_bytes(const char * name, void * dst, size_t n)
{
	size_t i, klen = strlen(name); uint8_t * d = dst;
	load();
	memset(dst, 0, n);
	for (i = 0; i < ntab; i++) {
		/* whole-array form:  name \t [v0, v1, ...] */
		if (!strcmp(tab[i].k, name) && tab[i].v[0] == '[') {
			const char * p = tab[i].v + 1; size_t k = 0;
			while (*p && *p != ']' && k < n) {
				while (*p == ' ' || *p == ',' || *p == '"') p++;
				if (*p == ']' || !*p) break;
				d[k++] = (uint8_t)parse(p);
				while (*p && *p != ',' && *p != ']') p++;
			}
		}
		/* element form:  name[12] \t v   (or name[12l]) */
		if (!strncmp(tab[i].k, name, klen) && tab[i].k[klen] == '[') {
			size_t k = strtoull(tab[i].k + klen + 1, NULL, 10);
			if (k < n) d[k] = (uint8_t)parse(tab[i].v);
		}
	}
}

void
verif_native_assume(int c, const char * txt)
{
	if (!c) { printf("VERIF-NATIVE-ASSUME-UNMET %s\n", txt); fflush(stdout); exit(77); }
}

void
verif_native_assert(int c, const char * txt)
{
	if (!c) { printf("VERIF-NATIVE-ASSERT-FAILED %s\n", txt); fflush(stdout); }
}

void VERIF_ENTRY(void);
int
main(void)
{
	VERIF_ENTRY();
	printf("VERIF-NATIVE-DONE\n");
	return 0;
}
