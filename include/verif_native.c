/* native side of verif.h: feeds a harness the harness-level values of a CBMC counterexample */
#define _GNU_SOURCE
#include <stdio.h>
#include <stdlib.h>
#include <string.h>
#include <stdint.h>

struct kv { char * k; char * v; int used; };
static struct kv * tab; static size_t ntab;

static void
load(void)
{
	static int done;
	const char * p = getenv("VERIF_INPUTS");
	char * line = NULL; size_t cap = 0; FILE * f;
	if (done) return;
	done = 1;
	if (p == NULL || (f = fopen(p, "r")) == NULL) return;
	while (getline(&line, &cap, f) > 0) {
		char * t = strchr(line, '\t');
		if (!t) continue;
		*t++ = 0; t[strcspn(t, "\n")] = 0;
		tab = realloc(tab, (ntab + 1) * sizeof(*tab));
		tab[ntab].k = strdup(line); tab[ntab].v = strdup(t); tab[ntab].used = 0; ntab++;
	}
	fclose(f);
}

/* CBMC prints bit patterns: "data" is decimal for integers in json-ui; accept "123", "-5", "\"0x..\"" */
static unsigned long long
parse(const char * v)
{
	while (*v == '"' || *v == ' ') v++;
	if (!strncmp(v, "true", 4)) return 1;
	if (!strncmp(v, "false", 5)) return 0;
	if (*v == '-') return (unsigned long long)strtoll(v, NULL, 0);
	return strtoull(v, NULL, 0);
}

/* each read of a name consumes the next recorded assignment to that name (sequence = call order) */
unsigned long long
verif_native_scalar(const char * name)
{
	size_t i; long last = -1;
	load();
	for (i = 0; i < ntab; i++)
		if (!strcmp(tab[i].k, name)) {
			last = (long)i;
			if (!tab[i].used) { tab[i].used = 1; return parse(tab[i].v); }
		}
	return last >= 0 ? parse(tab[last].v) : 0;
}

void
verif_native_bytes(const char * name, void * dst, size_t n)
{
	size_t i, klen = strlen(name); uint8_t * d = dst;
	load();
	memset(dst, 0, n);
	for (i = 0; i < ntab; i++) {
		/* whole-array form:  name \t [v0, v1, ...] */
		if (!strcmp(tab[i].k, name) && tab[i].v[0] == '[') {
			const char * p = tab[i].v + 1; size_t k = 0;
			while (*p && *p != ']' && k < n) {
				while (*p == ' ' || *p == ',' || *p == '"') p++;
				if (*p == ']' || !*p) break;
				d[k++] = (uint8_t)parse(p);
				while (*p && *p != ',' && *p != ']') p++;
			}
		}
		/* element form:  name[12] \t v   (or name[12l]) */
		if (!strncmp(tab[i].k, name, klen) && tab[i].k[klen] == '[') {
			size_t k = strtoull(tab[i].k + klen + 1, NULL, 10);
			if (k < n) d[k] = (uint8_t)parse(tab[i].v);
		}
	}
}

void
verif_native_assume(int c, const char * txt)
{
	if (!c) { printf("VERIF-NATIVE-ASSUME-UNMET %s\n", txt); fflush(stdout); exit(77); }
}

void
verif_native_assert(int c, const char * txt)
{
	if (!c) { printf("VERIF-NATIVE-ASSERT-FAILED %s\n", txt); fflush(stdout); }
}

/*
 * Allocation-failure replay: the counterexample's sequence of should_malloc_fail decisions (one per malloc /
 * realloc / calloc call of CBMC's library models, in call order) is re-applied to the k-th native allocation call.
 */
static int armed;
static int
next_alloc_fails(void)
{
	size_t i;

	if (!armed)
		return (0);
	for (i = 0; i < ntab; i++)
		if (!strcmp(tab[i].k, "should_malloc_fail") && !tab[i].used) {
			tab[i].used = 1;
			return (parse(tab[i].v) != 0);
		}
	return (0);
}
void * __real_malloc(size_t);
void * __real_realloc(void *, size_t);
void * __real_calloc(size_t, size_t);
void * __wrap_malloc(size_t n) { return (next_alloc_fails() ? NULL : __real_malloc(n)); }
void * __wrap_realloc(void * p, size_t n) { return (next_alloc_fails() ? NULL : __real_realloc(p, n)); }
void * __wrap_calloc(size_t a, size_t b) { return (next_alloc_fails() ? NULL : __real_calloc(a, b)); }

void VERIF_ENTRY(void);
int
main(void)
{
	load();
	armed = 1;
	VERIF_ENTRY();
	armed = 0;
	printf("VERIF-NATIVE-DONE\n");
	return 0;
}
