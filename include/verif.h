/*
 * verif.h -- shared by every proof harness and by the contract text inserted into the real sources.
 *
 * Build modes:
 *   (default, goto-cc)   CBMC proof build.  VCOVER(c) is a reachability marker: an assertion that MUST FAIL
 *                        (the driver counts a marker that does not fail as vacuity -> exit 2).
 *   -DVERIF_TRACE        CBMC re-run that produces the counterexample trace (markers compiled out).
 *   -DVERIF_NATIVE       gcc + ASan/UBSan replay build of the same harness against the real sources:
 *                        contract clauses vanish, inputs come from the recorded counterexample.
 */
#ifndef VERIF_H_
#define VERIF_H_
#include <stddef.h>
#include <stdint.h>

#ifdef VERIF_NATIVE
#include <stdio.h>
#include <stdlib.h>
#include <string.h>
/* contract clauses disappear natively */
#define PRE_OBJ(p, n) 1
#define __CPROVER_requires(x)
#define __CPROVER_ensures(x)
#define __CPROVER_assigns(...)
#define __CPROVER_frees(...)
#define __CPROVER_loop_invariant(x)
#define __CPROVER_decreases(...)
void verif_native_assume(int c, const char * txt);
void verif_native_assert(int c, const char * txt);
#define __CPROVER_assume(c) verif_native_assume(!!(c), #c)
#define __CPROVER_assert(c, msg) verif_native_assert(!!(c), msg)
#define VCOVER(c) do {} while (0)
/* named inputs: value taken from the counterexample (0 if the trace does not mention it) */
unsigned long long verif_native_scalar(const char * name);
void verif_native_bytes(const char * name, void * dst, size_t n);
#define IN(type, name) type name = (type)verif_native_scalar(#name)
/* exact-size heap block filled from the counterexample's bytes for <name>_b[] */
#define IN_BYTES(name, len, MAX) \
	uint8_t * name = malloc((len) ? (len) : 1); \
	if ((len) == 0) { free(name); name = malloc(0); } \
	verif_native_bytes(#name "_b", name, (len))
#else /* CBMC */
#ifdef VERIF_TRACE
#define VCOVER(c) do {} while (0)
#else
#define VCOVER(c) __CPROVER_assert(!(c), "VCOVER " #c)
#endif
/*
 * PRE_OBJ(p, n): "p points to an object of n bytes" in a requires clause.  Harnesses that allocate the
 * pre-state themselves (so that they can observe the post-state and be replayed natively) are built with
 * -DVERIF_HALLOC and the clause is a validity assumption on the harness's own objects; otherwise it is
 * __CPROVER_is_fresh (DFCC allocates the object when the contract is enforced and checks validity and
 * separation when the contract replaces a call).
 */
#ifdef VERIF_HALLOC
#define PRE_OBJ(p, n) __CPROVER_rw_ok(p, n)
#else
#define PRE_OBJ(p, n) __CPROVER_is_fresh(p, n)
#endif
/* errno as an assigns-clause target (the libc macro expands to a call, which assigns clauses reject) */
extern int __CPROVER_errno;
#define VERIF_ERRNO __CPROVER_errno
/* named nondeterministic scalar input */
#define IN(type, name) type name
/*
 * exact-size heap object of `len` arbitrary bytes (len <= MAX required by the caller).
 * In the trace build the content is routed through a named array so that the counterexample shows it.
 */
#ifdef VERIF_TRACE
#define IN_BYTES(name, len, MAX) \
	uint8_t * name = malloc(len); \
	__CPROVER_assume(name != NULL); \
	uint8_t name##_b[MAX]; \
	for (size_t name##_k = 0; name##_k < (MAX); name##_k++) \
		if (name##_k < (len)) name[name##_k] = name##_b[name##_k]
#else
#define IN_BYTES(name, len, MAX) \
	uint8_t * name = malloc(len); \
	__CPROVER_assume(name != NULL)
#endif
#endif /* VERIF_NATIVE */

#endif /* !VERIF_H_ */
