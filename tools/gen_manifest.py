#!/usr/bin/env python3
"""gen_manifest.py: writes /verif/MANIFEST.json from the table below (claimed properties, level texts) --
the table is maintained by hand from the builders' reports; not_applicable lists every property not claimed."""
import json, os
V = "/verif"
props = [json.loads(l) for l in open(V + "/properties.jsonl") if l.strip()]
TECH = "contract-based deductive verification of the real C sources: CBMC 6.11 function contracts enforced/replaced with goto-instrument --dfcc, loop contracts, ghost state"
# id -> (category, text, design_ref, level_note)
CLAIMS = json.load(open(V + "/tools/claims.json"))
m = {"version": 1,
     "setup_cmd": "mkdir -p /verif/evidence /verif/replay-out && /verif/check --list >/dev/null",
     "hooks": {"guard": "TARSNAP_LIBCPERCIVA_VERIF",
               "enable": "checks pass -DTARSNAP_LIBCPERCIVA_VERIF to goto-cc; contract clauses and ghost statements are inserted into a scratch copy of the real sources on every run (contracts/*.spec); /repo itself carries no hooks",
               "baseline_off_cmd": "make -C /repo test", "source_commits": [], "add_only": True},
     "engines": [{"name": "check", "path": "/verif/check", "serves_properties": sorted(CLAIMS),
                  "kind_free_text": "CBMC 6.11 code contracts (goto-instrument --dfcc enforce/replace + loop contracts) on the real sources, per-function deductive verification; native ASan/UBSan replay of counterexamples"}],
     "checks": [], "notes": "see DESIGN.md (approach, per-property contracts, as-built deviations, seeded-change matrix) and HOWTO.md", "not_applicable": []}
for p in props:
    pid = p["id"]
    if pid in CLAIMS:
        c = CLAIMS[pid]
        m["checks"].append({"property_id": pid, "quick_cmd": "./check %s --tier quick" % pid,
                            "thorough_cmd": "./check %s --tier thorough" % pid,
                            "evidence_file": "/verif/evidence/%s.json" % pid,
                            "replay_cmd_template": "./check --replay {path}", "engine": "check",
                            "level_claimed": {"category": c["category"], "text": c["text"], "design_ref": "DESIGN.md " + c["ref"]},
                            "level_note": c["note"], "technique": c.get("technique", TECH)})
    else:
        m["not_applicable"].append({"property_id": pid, "reason": CLAIMS.get("_na", {}).get(pid, "not claimed: the contract checks for this property are not complete (see DESIGN.md section 7)")})
json.dump(m, open(V + "/MANIFEST.json", "w"), indent=1)
print("claimed:", sorted(k for k in CLAIMS if not k.startswith("_")))
