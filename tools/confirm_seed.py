#!/usr/bin/env python3
"""confirm_seed.py <seed-dir> <property> [--tests] [--check]
Confirms a seeded breaking change in a scratch worktree of /repo (never in /repo itself):
  demo on the unchanged tree exits 0, demo with the patch exits non-zero, (--tests) `make test` passes with the
  patch, (--check) /verif/check <property> reports a VIOLATION with the patch.  Prints a JSON summary.
"""
import sys, os, json, subprocess, shutil, re, tempfile

def sh(cmd, cwd=None, timeout=3600, env=None):
    p = subprocess.run(["bash", "-c", cmd], cwd=cwd, stdout=subprocess.PIPE, stderr=subprocess.STDOUT, timeout=timeout, env=env)
    return p.returncode, p.stdout.decode(errors="replace")

def run_demo(seed, repo):
    meta = json.load(open(os.path.join(seed, "meta.json")))
    work = tempfile.mkdtemp(prefix="seed-demo-")
    for f in os.listdir(seed):
        if f not in ("meta.json",) and os.path.isfile(os.path.join(seed, f)):
            shutil.copy(os.path.join(seed, f), work)
    cmds = []
    for c in meta.get("commands", []):
        if re.match(r"^\s*REPO=", c) or re.search(r"\bgit\b.*\b(apply|checkout|stash|reset)\b", c) or re.search(r"\bpatch\b\s+-p", c):
            continue                      # the patch is applied by this tool, in a scratch worktree only
        c = re.sub(r"echo\s+\"?\$\?\"?", "echo exit=$?", c)
        c = c.replace("/tmp/seed-out/%s/" % os.path.basename(os.path.dirname(seed.rstrip("/"))), "/nonexistent-seed-out/")
        cmds.append(c)
    script = "export REPO=%s\n" % repo + "\n".join(cmds) + "\n"
    rc, out = sh(script, cwd=work, timeout=900)
    m = re.findall(r"exit=(\d+)", out)
    code = int(m[-1]) if m else rc
    shutil.rmtree(work, ignore_errors=True)
    return code, out[-1500:]

def main():
    seed, pid = sys.argv[1], sys.argv[2]
    tests = "--tests" in sys.argv
    check = "--check" in sys.argv
    wt = tempfile.mkdtemp(prefix="confirm-wt-")
    os.rmdir(wt)
    res = {"seed": seed, "property": pid}
    try:
        rc, out = sh("git -C /repo worktree add --detach %s HEAD" % wt)
        assert rc == 0, out
        clean = wt + "-clean"
        rc, out = sh("git -C /repo worktree add --detach %s HEAD" % clean)
        assert rc == 0, out
        c0, o0 = run_demo(seed, clean)
        res["demo_unchanged_exit"] = c0
        res["demo_unchanged_tail"] = o0[-200:]
        rc, out = sh("git apply %s" % os.path.join(seed, "patch.diff"), cwd=wt)
        res["patch_applies"] = (rc == 0)
        c1, o1 = run_demo(seed, wt)
        res["demo_changed_exit"] = c1
        res["demo_changed_tail"] = o1[-400:]
        if check:
            rc, out = sh("VERIF_REPO=%s /verif/check %s --jobs 6" % (wt, pid), cwd="/verif", timeout=7200)
            res["check_exit"] = rc
            res["check_failed_obligations"] = sorted(set(re.findall(r"failed obligation (\S+ \[[^\]]+\])", out)))[:12]
            res["check_groups_failed"] = sorted(set(re.findall(r"FAILED\s+(\S+)", out)))
        if tests:
            rc, out = sh("make test 2>&1 | tail -40", cwd=wt, timeout=3600)
            res["tests_pass"] = (rc == 0 and "FAILED" not in out)
            res["tests_tail"] = out[-300:]
    finally:
        sh("git -C /repo worktree remove --force %s-clean" % wt)
        shutil.rmtree(wt + "-clean", ignore_errors=True)
        rc, out = sh("git -C /repo status --porcelain --untracked-files=no")
        if out.strip():
            res["REPO_WAS_TOUCHED"] = out
            sh("git -C /repo checkout -- .")
        sh("git -C /repo worktree remove --force %s" % wt)
        shutil.rmtree(wt, ignore_errors=True)
    print(json.dumps(res, indent=1))

main()
