#!/bin/bash
# confirm_all.sh <pid>...  : confirm every delivered seed of the given properties and keep the confirmed ones
for pid in "$@"; do
  for d in /tmp/seed-out/$pid/*/; do
    k=$(basename $d)
    out=/verif/seeded/$pid-$k
    [ -f $out/confirm.json ] && continue
    mkdir -p $out
    cp -r $d/* $out/ 2>/dev/null
    rm -f $out/test.log $out/demo $out/*.o
    /verif/tools/confirm_seed.py $d $pid --tests $CHECKFLAG > $out/confirm.json 2>&1
  done
done
