#!/usr/bin/env python3
"""keep_seeds.py Cxx [Cyy ...] : copy confirmed deliveries from /tmp/seed-out into /verif/seeded/<Cxx>-<k>/ after
re-confirming them here: run.sh exits 0 on a pristine scratch worktree, non-zero on a patched scratch worktree, and
`make test` passes in the patched worktree.  /repo itself is never modified (checked at the end)."""
import sys, os, json, subprocess, shutil, tempfile, glob

def sh(cmd, cwd=None, timeout=3600):
    p = subprocess.run(["bash", "-c", cmd], cwd=cwd, stdout=subprocess.PIPE, stderr=subprocess.STDOUT, timeout=timeout)
    return p.returncode, p.stdout.decode(errors="replace")

def main():
    base = tempfile.mkdtemp(prefix="keepseed-")
    clean = os.path.join(base, "clean")
    sh("git -C /repo worktree add --detach %s HEAD" % clean)
    for pid in sys.argv[1:]:
        for d in sorted(glob.glob("/tmp/seed-out/%s/[0-9]*/" % pid)):
            k = os.path.basename(d.rstrip("/"))
            out = "/verif/seeded/%s-%s" % (pid, k)
            if not os.path.exists(d + "run.sh") or not os.path.exists(d + "patch.diff"):
                print(pid, k, "SKIP: no run.sh/patch.diff"); continue
            chg = os.path.join(base, "chg-%s-%s" % (pid, k))
            sh("git -C /repo worktree add --detach %s HEAD" % chg)
            rc, o = sh("git apply %spatch.diff" % d, cwd=chg)
            if rc != 0:
                print(pid, k, "SKIP: patch does not apply", o[-200:]); sh("git -C /repo worktree remove --force %s" % chg); continue
            c0, o0 = sh("REPO=%s sh %srun.sh" % (clean, d), timeout=900)
            c1, o1 = sh("REPO=%s sh %srun.sh" % (chg, d), timeout=900)
            t, ot = sh("make test > maketest.out 2>&1; echo rc=$?; grep -c FAILED maketest.out", cwd=chg, timeout=3600)
            ok_tests = "rc=0" in ot and ot.strip().split("\n")[-1].strip() == "0"
            sh("git -C /repo worktree remove --force %s" % chg); shutil.rmtree(chg, ignore_errors=True)
            good = (c0 == 0 and c1 != 0 and ok_tests)
            print(pid, k, "clean=%d changed=%d tests_ok=%s -> %s" % (c0, c1, ok_tests, "KEEP" if good else "DROP"))
            if not good:
                continue
            os.makedirs(out, exist_ok=True)
            for f in os.listdir(d):
                p = os.path.join(d, f)
                if os.path.isfile(p) and (f in ("patch.diff", "run.sh", "meta.json") or f.endswith((".c", ".h"))) and os.path.getsize(p) < 400000:
                    shutil.copy(p, out)
            meta = json.load(open(os.path.join(out, "meta.json")))
            meta["property"] = pid
            meta["confirmed_in_scratch_worktree"] = {"run_sh_unchanged_exit": c0, "run_sh_changed_exit": c1, "make_test_with_change": "passes (0 FAILED)",
                "ran": ["REPO=<pristine worktree> sh run.sh", "REPO=<worktree with patch.diff applied> sh run.sh", "make test (in the patched worktree)"],
                "changed_output_tail": o1[-300:]}
            json.dump(meta, open(os.path.join(out, "meta.json"), "w"), indent=1)
    sh("git -C /repo worktree remove --force %s" % clean); shutil.rmtree(base, ignore_errors=True)
    rc, o = sh("git -C /repo status --porcelain --untracked-files=no")
    if o.strip():
        print("!!! /repo was touched:", o); sh("git -C /repo checkout -- .")
main()
