#!/usr/bin/env python3
"""run_seeds.py [pid ...]: run /verif/check against every kept seeded change (in a scratch worktree, never /repo)
and record which obligations/groups catch it in seeded/<id>/check.json; prints a table."""
import sys, os, json, subprocess, re, glob, tempfile, shutil
want = sys.argv[1:]
ONLY = set(a for a in want if '-' in a)
want = [a for a in want if '-' not in a]
rows = []
for d in sorted(glob.glob("/verif/seeded/*/")):
    name = os.path.basename(d.rstrip("/"))
    pid = name.split("-")[0]
    if (want or ONLY) and pid not in want and name not in ONLY:
        continue
    meta = json.load(open(d + "meta.json")) if os.path.exists(d + "meta.json") else {}
    props = meta.get("check_properties", [pid])
    wt = tempfile.mkdtemp(prefix="seedrun-"); os.rmdir(wt)
    subprocess.run(["git", "-C", "/repo", "worktree", "add", "--detach", wt, "HEAD"], stdout=subprocess.DEVNULL, stderr=subprocess.DEVNULL)
    res = {"seed": name, "properties": {}}
    try:
        a = subprocess.run(["git", "apply", d + "patch.diff"], cwd=wt, stdout=subprocess.PIPE, stderr=subprocess.STDOUT)
        if a.returncode != 0:
            a = subprocess.run(["git", "apply", "--3way", d + "patch.diff"], cwd=wt, stdout=subprocess.PIPE, stderr=subprocess.STDOUT)
        if a.returncode != 0:
            a = subprocess.run(["patch", "-p1", "--fuzz=3", "-i", d + "patch.diff"], cwd=wt, stdout=subprocess.PIPE, stderr=subprocess.STDOUT)
        if a.returncode != 0:
            rows.append("%-8s patch does not apply to the current HEAD: %s" % (name, a.stdout.decode()[-120:].replace(chr(10), " ")))
            continue
        runs = meta.get("check_runs") or [[p, ""] for p in props]
        for p, grp in runs:
            cmdl = ["/verif/check", p, "--jobs", os.environ.get("VERIF_JOBS", "8")] + (["--group", grp] if grp else [])
            pr = subprocess.run(cmdl, cwd="/verif", env=dict(os.environ, VERIF_REPO=wt),
                                stdout=subprocess.PIPE, stderr=subprocess.STDOUT)
            out = pr.stdout.decode(errors="replace")
            res["properties"][p + ("/" + grp if grp else "")] = {"exit": pr.returncode, "restricted_to_group": grp,
                "failed_obligations": sorted(set(re.findall(r"failed obligation (\S+ \[[^\]]+\])", out)))[:15],
                "groups_failed": sorted(set(re.findall(r"FAILED\s+(\S+)", out))),
                "groups_undecided": sorted(set(re.findall(r"UNDECIDED (\S+/\S+)", out))),
                "native_confirmed": bool(re.search(r"^VIOLATION property=\S+ replay=\S+$", out, re.M))}
    finally:
        subprocess.run(["git", "-C", "/repo", "worktree", "remove", "--force", wt], stdout=subprocess.DEVNULL, stderr=subprocess.DEVNULL)
        shutil.rmtree(wt, ignore_errors=True)
    json.dump(res, open(d + "check.json", "w"), indent=1)
    for p, r in res["properties"].items():
        rows.append("%-8s %-4s exit=%d native=%s groups=%s" % (name, p, r["exit"], r["native_confirmed"], ",".join(r["groups_failed"])[:120]))
print("\n".join(rows))
