/*
 * c03_crc32c_spec.h -- CRC-32C (Castagnoli, polynomial 0x1EDC6F41) byte step, bit-serial, reflected
 * (RFC 3720 appendix B.4 / the comment of alg/crc32c.c: bits are taken least-significant first).
 * One step = "xor the byte into the low 8 bits of the state, then 8 times: shift right, and subtract the
 * reflected polynomial 0x82F63B78 when a 1 fell out".  Loop-free on purpose (it is executed as a ghost statement
 * inside functions proved with DFCC loop contracts).
 */
#ifndef C03_CRC32C_SPEC_H_
#define C03_CRC32C_SPEC_H_
#include <stdint.h>
#define SPEC_CRC32C_POLY_REFLECTED 0x82F63B78u	/* bit reversal of 0x1EDC6F41 */
#define SPEC_CRC32C_BIT(s) (((s) >> 1) ^ (((s) & 1u) ? SPEC_CRC32C_POLY_REFLECTED : 0u))
#define SPEC_CRC32C_BIT2(s) SPEC_CRC32C_BIT(SPEC_CRC32C_BIT(s))
#define SPEC_CRC32C_BIT4(s) SPEC_CRC32C_BIT2(SPEC_CRC32C_BIT2(s))
static inline uint32_t
spec_crc32c_byte(uint32_t s, uint8_t b)
{
	uint32_t t = s ^ b;
	uint32_t u = SPEC_CRC32C_BIT4(t);

	return (SPEC_CRC32C_BIT4(u));
}
#endif
