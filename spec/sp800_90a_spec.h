/*
 * spec/sp800_90a_spec.h -- NIST SP 800-90A Rev. 1, section 10.1.2 (HMAC_DRBG), written from the text of the
 * standard over an ABSTRACT HMAC (spec_HMAC), for outlen = 256 (SHA-256), no personalization string, no
 * additional input (exactly the configuration property C11 names).
 *
 * The specification side of the lockstep trace abstraction (G2): spec_HMAC() is call number g_spec_k of the
 * specification; it demands that the implementation's call with the same number (logged by
 * models/drbg_hmac.c) had exactly this key and exactly this message, and then returns the very output the
 * implementation's call returned.  If every demand holds and the final (Key, V, reseed_counter, output) agree,
 * implementation == specification under every interpretation of HMAC.
 *
 * Nothing in this file was derived from crypto/crypto_entropy.c.
 */
#ifndef SP800_90A_SPEC_H_
#define SP800_90A_SPEC_H_
#include <stddef.h>
#include <stdint.h>
#include "drbg_hmac.h"

#define SPEC_OUTLEN		32		/* bytes: outlen = 256 bits (Table 2, SHA-256) */
#define SPEC_SEEDLEN_INST	48		/* entropy_input (256 bits) || nonce (128 bits), 10.1.2.3 / 8.6.7 */
#define SPEC_SEEDLEN_RESEED	32		/* entropy_input, 10.1.2.4 */
#define SPEC_MAX_REQUEST	65536		/* max_number_of_bits_per_request = 2^19 bits (Table 2) */

struct spec_drbg {
	uint8_t K[SPEC_OUTLEN];
	uint8_t V[SPEC_OUTLEN];
	uint64_t reseed_counter;
};

size_t g_spec_k;	/* next call index of the specification side */

static void
spec_HMAC(const uint8_t K[SPEC_OUTLEN], const uint8_t * msg, size_t mlen, uint8_t out[SPEC_OUTLEN])
{
	size_t k = g_spec_k++;
	size_t i;

	__CPROVER_assert(HM_INWIN(k), "MODEL-BOUND sp800_90a_spec: lockstep call outside the log window");
	__CPROVER_assume(HM_INWIN(k));
	__CPROVER_assert(HM_E(k).klen == SPEC_OUTLEN, "SP800-90A lockstep: HMAC key length is outlen");
	for (i = 0; i < SPEC_OUTLEN; i++)
		__CPROVER_assert(HM_E(k).key[i] == K[i], "SP800-90A lockstep: HMAC key bytes equal the specification's K");
	__CPROVER_assert(HM_E(k).mlen == mlen, "SP800-90A lockstep: HMAC message length equals the specification's");
	for (i = 0; i < HM_MMAX; i++)
		if (i < mlen)
			__CPROVER_assert(HM_E(k).msg[i] == msg[i], "SP800-90A lockstep: HMAC message bytes equal the specification's");
	for (i = 0; i < SPEC_OUTLEN; i++)
		out[i] = HM_E(k).out[i];
}

/*
 * 10.1.2.2  HMAC_DRBG_Update (provided_data, K, V):
 *   1. K = HMAC (K, V || 0x00 || provided_data).
 *   2. V = HMAC (K, V).
 *   3. If (provided_data = Null), then return K and V.
 *   4. K = HMAC (K, V || 0x01 || provided_data).
 *   5. V = HMAC (K, V).
 *   6. Return (K, V).
 */
static void
spec_drbg_update(struct spec_drbg * s, const uint8_t * provided_data, size_t dlen)
{
	uint8_t m[HM_MMAX];
	size_t i;
	unsigned round;

	for (round = 0; round < 2; round++) {
		for (i = 0; i < SPEC_OUTLEN; i++)
			m[i] = s->V[i];
		m[SPEC_OUTLEN] = (uint8_t)round;		/* 0x00, then 0x01 */
		for (i = 0; i < HM_DMAX; i++)
			if (i < dlen)
				m[SPEC_OUTLEN + 1 + i] = provided_data[i];
		spec_HMAC(s->K, m, SPEC_OUTLEN + 1 + dlen, s->K);	/* steps 1, 4 */
		for (i = 0; i < SPEC_OUTLEN; i++)
			m[i] = s->V[i];
		spec_HMAC(s->K, m, SPEC_OUTLEN, s->V);			/* steps 2, 5 */
		if (dlen == 0)						/* step 3 */
			return;
	}
}

/*
 * 10.1.2.3  HMAC_DRBG_Instantiate_algorithm (entropy_input, nonce, personalization_string = ""):
 *   1. seed_material = entropy_input || nonce || personalization_string.
 *   2. Key = 0x00 00...00.   3. V = 0x01 01...01.
 *   4. (Key, V) = HMAC_DRBG_Update (seed_material, Key, V).
 *   5. reseed_counter = 1.
 */
static void
spec_drbg_instantiate(struct spec_drbg * s, const uint8_t seed_material[SPEC_SEEDLEN_INST])
{
	size_t i;

	for (i = 0; i < SPEC_OUTLEN; i++) {
		s->K[i] = 0x00;
		s->V[i] = 0x01;
	}
	spec_drbg_update(s, seed_material, SPEC_SEEDLEN_INST);
	s->reseed_counter = 1;
}

/*
 * 10.1.2.4  HMAC_DRBG_Reseed_algorithm (working_state, entropy_input, additional_input = ""):
 *   1. seed_material = entropy_input || additional_input.
 *   2. (Key, V) = HMAC_DRBG_Update (seed_material, Key, V).
 *   3. reseed_counter = 1.
 */
static void
spec_drbg_reseed(struct spec_drbg * s, const uint8_t entropy_input[SPEC_SEEDLEN_RESEED])
{

	spec_drbg_update(s, entropy_input, SPEC_SEEDLEN_RESEED);
	s->reseed_counter = 1;
}

/*
 * 10.1.2.5  HMAC_DRBG_Generate_algorithm (working_state, requested_number_of_bits, additional_input = Null):
 *   1. If reseed_counter > reseed_interval, then return "Reseed required".
 *   2. (additional_input = Null: nothing.)
 *   3. temp = Null.
 *   4. While (len (temp) < requested_number_of_bits) do
 *        4.1 V = HMAC (Key, V).      4.2 temp = temp || V.
 *   5. returned_bits = leftmost (temp, requested_number_of_bits).
 *   6. (Key, V) = HMAC_DRBG_Update (additional_input = Null, Key, V).
 *   7. reseed_counter = reseed_counter + 1.
 * Reference text: the unbounded statement checked by the framework is generate()'s contract, which states the
 * same steps at a ghost block index; this executable form (requested bytes <= 32 * nblocks_max) is kept for a
 * bounded lockstep run and is not used by any group at present.
 */
static void
spec_drbg_generate(struct spec_drbg * s, uint8_t * returned, size_t nbytes, size_t nblocks_max)
{
	uint8_t m[SPEC_OUTLEN];
	size_t i, b, len_temp = 0;

	for (b = 0; b < nblocks_max; b++) {
		if (!(len_temp < nbytes))			/* step 4 */
			break;
		for (i = 0; i < SPEC_OUTLEN; i++)
			m[i] = s->V[i];
		spec_HMAC(s->K, m, SPEC_OUTLEN, s->V);		/* 4.1 */
		for (i = 0; i < SPEC_OUTLEN; i++)		/* 4.2 + 5 */
			if (len_temp + i < nbytes)
				returned[len_temp + i] = s->V[i];
		len_temp += SPEC_OUTLEN;
	}
	spec_drbg_update(s, NULL, 0);				/* step 6 */
	s->reseed_counter += 1;					/* step 7 */
}

#endif /* !SP800_90A_SPEC_H_ */
