/*
 * spec/getopt_spec.h -- the option grammar documented in the comment block at the top of util/getopt.h, written
 * independently of util/getopt.c as function-call-free C expressions (usable in contract clauses, loop invariants
 * and harness assertions alike).
 *
 *   registered option names:  "-X" (X any character except '-' and NUL)  or  "--name" (name non-empty)
 *   an argument word W *is* the registered option N  iff  N is a prefix of W and the character of W that follows
 *   the prefix is NUL ("--foo") or '=' ("--foo=bar").  No abbreviations: "--fo" is not "--foo", and "--foobar"
 *   is not "--foo".
 *   words:  W[0] != '-'            operand: stop, not consumed
 *           "-"                    operand: stop, not consumed
 *           "--"                   stop, consumed
 *           "--" + at least 1 char long option word (looked up as a whole)
 *           "-" + c1 c2 ... cn     pack of short options: looked up one at a time as "-c1", "-c2", ...; when
 *                                  "-ck" takes an argument the rest of the pack (if non-empty) is the argument,
 *                                  otherwise the next word is.
 *
 * Names are compared character by character up to GSPEC_NAMEMAX characters (constant bound; all harnesses keep
 * strings shorter than that).
 */
#ifndef GETOPT_SPEC_H_
#define GETOPT_SPEC_H_

#ifndef GSPEC_NAMEMAX
#define GSPEC_NAMEMAX 16	/* 8 or 16 */
#endif

/* (n <= k) or a[k] == b[k] */
#define GSPEC_EQ1(a, b, n, k) ((n) <= (k) || (a)[k] == (b)[k])
/* a[0 .. n) == b[0 .. n), n <= GSPEC_NAMEMAX */
#define GSPEC_PREFIX_EQ8(a, b, n) ( \
	GSPEC_EQ1(a, b, n, 0) && GSPEC_EQ1(a, b, n, 1) && GSPEC_EQ1(a, b, n, 2) && GSPEC_EQ1(a, b, n, 3) && \
	GSPEC_EQ1(a, b, n, 4) && GSPEC_EQ1(a, b, n, 5) && GSPEC_EQ1(a, b, n, 6) && GSPEC_EQ1(a, b, n, 7))
#if GSPEC_NAMEMAX == 8
#define GSPEC_PREFIX_EQ(a, b, n) GSPEC_PREFIX_EQ8(a, b, n)
#elif GSPEC_NAMEMAX == 16
#define GSPEC_PREFIX_EQ(a, b, n) (GSPEC_PREFIX_EQ8(a, b, n) && \
	GSPEC_EQ1(a, b, n, 8) && GSPEC_EQ1(a, b, n, 9) && GSPEC_EQ1(a, b, n, 10) && GSPEC_EQ1(a, b, n, 11) && \
	GSPEC_EQ1(a, b, n, 12) && GSPEC_EQ1(a, b, n, 13) && GSPEC_EQ1(a, b, n, 14) && GSPEC_EQ1(a, b, n, 15))
#else
#error GSPEC_NAMEMAX must be 8 or 16
#endif

/* word w is the option called name (of nlen characters): name, then NUL or '=' */
#define GSPEC_IS_OPTION(name, nlen, w) ((nlen) <= GSPEC_NAMEMAX && GSPEC_PREFIX_EQ(name, w, nlen) && \
	((w)[nlen] == '\0' || (w)[nlen] == '='))

/* a well-formed registered name: "-X" or "--name" */
#define GSPEC_VALID_NAME(s, len) ((len) >= 2 && (s)[0] == '-' && \
	(((s)[1] == '-') ? ((len) >= 3) : ((len) == 2)))

/* classification of an argv word (when no pack is in progress) */
#define GSPEC_W_OPERAND(w)	((w)[0] != '-' || (w)[1] == '\0')		/* "foo", "", "-" */
#define GSPEC_W_DASHDASH(w)	((w)[0] == '-' && (w)[1] == '-' && (w)[2] == '\0')
#define GSPEC_W_LONG(w)		((w)[0] == '-' && (w)[1] == '-' && (w)[2] != '\0')
#define GSPEC_W_PACK(w)		((w)[0] == '-' && (w)[1] != '-' && (w)[1] != '\0')

#endif /* !GETOPT_SPEC_H_ */
