/*
 * hash_selftest.c -- native sanity check of the specification functions in this directory against published
 * vectors (FIPS 180-4 / NIST examples, RFC 1321 A.5, RFC 3720 B.4 CRC32C) and against the defining formulas of
 * the constant tables (cube/square roots of primes, sines).  Supports the specs; decides no property.
 *   gcc -O1 -I/verif/spec -o /tmp/hash_selftest /verif/spec/hash_selftest.c -lm && /tmp/hash_selftest
 */
#include <math.h>
#include <stdio.h>
#include <string.h>
#include "sha256_spec.h"
#include "sha1_spec.h"
#include "md5_spec.h"
#include "crc32c_spec.h"

static int fails;
static void
check(const char * what, const uint8_t * got, const char * hex, size_t n)
{
	char buf[129];
	size_t i;

	for (i = 0; i < n; i++)
		sprintf(buf + 2 * i, "%02x", got[i]);
	if (strcmp(buf, hex) != 0) {
		printf("FAIL %s: got %s want %s\n", what, buf, hex);
		fails++;
	}
}

int
main(void)
{
	uint8_t d[32];
	static uint8_t big[1000];
	const char * abc = "abc";
	const char * m448 = "abcdbcdecdefdefgefghfghighijhijkijkljklmklmnlmnomnopnopq";
	int primes[64], np = 0, n, i, k;

	spec_sha256((const uint8_t *)abc, 3, d);
	check("sha256 abc", d, "ba7816bf8f01cfea414140de5dae2223b00361a396177a9cb410ff61f20015ad", 32);
	spec_sha256((const uint8_t *)"", 0, d);
	check("sha256 empty", d, "e3b0c44298fc1c149afbf4c8996fb92427ae41e4649b934ca495991b7852b855", 32);
	spec_sha256((const uint8_t *)m448, 56, d);
	check("sha256 448 bits", d, "248d6a61d20638b8e5c026930c3e6039a33ce45964ff2167f6ecedd419db06c1", 32);
	memset(big, 'a', 1000);
	spec_sha256(big, 1000, d);
	check("sha256 1000 a", d, "41edece42d63e8d9bf515a9ba6932e1c20cbc9f5a5d134645adb5db1b9737ea3", 32);
	spec_sha1((const uint8_t *)abc, 3, d);
	check("sha1 abc", d, "a9993e364706816aba3e25717850c26c9cd0d89d", 20);
	spec_sha1((const uint8_t *)"", 0, d);
	check("sha1 empty", d, "da39a3ee5e6b4b0d3255bfef95601890afd80709", 20);
	spec_sha1((const uint8_t *)m448, 56, d);
	check("sha1 448 bits", d, "84983e441c3bd26ebaae4aa1f95129e5e54670f1", 20);
	spec_md5((const uint8_t *)"", 0, d);
	check("md5 empty", d, "d41d8cd98f00b204e9800998ecf8427e", 16);
	spec_md5((const uint8_t *)abc, 3, d);
	check("md5 abc", d, "900150983cd24fb0d6963f7d28e17f72", 16);
	spec_md5((const uint8_t *)"message digest", 14, d);
	check("md5 message digest", d, "f96b697d7cb7938d525a2f31aaf161d0", 16);
	spec_md5((const uint8_t *)"12345678901234567890123456789012345678901234567890123456789012345678901234567890", 80, d);
	check("md5 80 digits", d, "57edf4a22be3c955ac49da2e2107b67a", 16);
	/* RFC 3720 B.4: CRC32C of 32 zero bytes is aa 36 91 8a on the wire = ~state, least significant byte first;
	   libcperciva's variant has no final inversion and starts from the implicit 1 bit instead of all-ones, so
	   compare with the library's own documented example instead: "hello world" -> ca 13 0b aa (alg/crc32c.c) */
	spec_crc32c((const uint8_t *)"hello world", 11, d);
	check("crc32c hello world", d, "ca130baa", 4);
	/* the algebraic meaning itself, on that example: 1 || data || crc is a multiple of p */
	{
		uint32_t R = 1;
		for (i = 0; i < 11; i++)
			R = spec_poly_feed_byte(R, (uint8_t)"hello world"[i]);
		for (i = 0; i < 4; i++)
			R = spec_poly_feed_byte(R, d[i]);
		if (R != 0) { printf("FAIL crc32c divisibility\n"); fails++; }
	}
	/* constants from their definitions */
	for (n = 2; np < 64; n++) {
		for (k = 2; k * k <= n; k++)
			if (n % k == 0)
				break;
		if (k * k > n)
			primes[np++] = n;
	}
	for (i = 0; i < 64; i++) {
		long double c = cbrtl((long double)primes[i]);
		uint32_t v = (uint32_t)((c - floorl(c)) * 4294967296.0L);
		if (v != spec_sha256_K[i]) { printf("FAIL sha256 K[%d]\n", i); fails++; }
	}
	for (i = 0; i < 8; i++) {
		long double c = sqrtl((long double)primes[i]);
		uint32_t v = (uint32_t)((c - floorl(c)) * 4294967296.0L);
		if (v != spec_sha256_IV[i]) { printf("FAIL sha256 IV[%d]\n", i); fails++; }
	}
	for (i = 0; i < 64; i++) {
		uint32_t v = (uint32_t)floorl(fabsl(sinl((long double)(i + 1))) * 4294967296.0L);
		if (v != spec_md5_T[i]) { printf("FAIL md5 T[%d]\n", i); fails++; }
	}
	{
		long double s2 = sqrtl(2.0L), s3 = sqrtl(3.0L), s5 = sqrtl(5.0L), s10 = sqrtl(10.0L);
		if ((uint32_t)(s2 * 1073741824.0L) != spec_sha1_K(0) || (uint32_t)(s3 * 1073741824.0L) != spec_sha1_K(20) ||
		    (uint32_t)(s5 * 1073741824.0L) != spec_sha1_K(40) || (uint32_t)(s10 * 1073741824.0L) != spec_sha1_K(60)) {
			printf("FAIL sha1 K\n"); fails++;
		}
	}
	printf(fails ? "hash_selftest: %d FAILURES\n" : "hash_selftest: all specification self-tests passed\n", fails);
	return (fails != 0);
}
