/*
 * sha1_spec.h -- SHA-1 written from FIPS 180-4 (4.1.1 functions, 4.2.1 constants, 5.3.1 initial value,
 * 6.1.2 computation; padding 5.1.1 shared with SHA-256 in sha256_spec.h).  Independent of /repo.
 * The per-t step is reached through SPEC_SHA1_STEP so that a harness can make it an uninterpreted leaf (G2).
 */
#ifndef SHA1_SPEC_H_
#define SHA1_SPEC_H_
#include "sha256_spec.h"	/* spec_rotl32, SPEC_MD_PADDED_LEN, SPEC_SHA_PAD_BYTE, SPEC_BE32_BYTE */

/* 4.1.1 */
static inline uint32_t
spec_sha1_f(int t, uint32_t x, uint32_t y, uint32_t z)
{

	if (t <= 19)
		return ((x & y) ^ (~x & z));		/* Ch */
	if (t <= 39)
		return (x ^ y ^ z);			/* Parity */
	if (t <= 59)
		return ((x & y) ^ (x & z) ^ (y & z));	/* Maj */
	return (x ^ y ^ z);				/* Parity */
}

/* 4.2.1 */
static inline uint32_t
spec_sha1_K(int t)
{

	return (t <= 19 ? 0x5a827999u : t <= 39 ? 0x6ed9eba1u : t <= 59 ? 0x8f1bbcdcu : 0xca62c1d6u);
}

/* 5.3.1 */
static const uint32_t spec_sha1_IV[5] = { 0x67452301u, 0xefcdab89u, 0x98badcfeu, 0x10325476u, 0xc3d2e1f0u };
#define SPEC_SHA1_IV(i) ((i) == 0 ? 0x67452301u : (i) == 1 ? 0xefcdab89u : (i) == 2 ? 0x98badcfeu : \
	(i) == 3 ? 0x10325476u : 0xc3d2e1f0u)

/*
 * 6.1.2 step 3 for one t: T = ROTL5(a) + f_t(b,c,d) + e + K_t + W_t; e = d; d = c; c = ROTL30(b); b = a; a = T.
 * The two new values (T and ROTL30(b)) are returned.
 */
static inline void
spec_sha1_step(int t, uint32_t a, uint32_t b, uint32_t c, uint32_t d, uint32_t e, uint32_t w,
    uint32_t * T, uint32_t * b30)
{

	*T = spec_rotl32(a, 5) + spec_sha1_f(t, b, c, d) + e + spec_sha1_K(t) + w;
	*b30 = spec_rotl32(b, 30);
}
#ifndef SPEC_SHA1_STEP
#define SPEC_SHA1_STEP(t, a, b, c, d, e, w, T, b30) spec_sha1_step(t, a, b, c, d, e, w, T, b30)
#endif

static inline void
spec_sha1_compress(uint32_t H[5], const uint8_t M[64])
{
	uint32_t W[80];
	uint32_t a, b, c, d, e, T, b30;
	int t;

	for (t = 0; t < 16; t++)
		W[t] = ((uint32_t)M[4 * t] << 24) | ((uint32_t)M[4 * t + 1] << 16) |
		    ((uint32_t)M[4 * t + 2] << 8) | (uint32_t)M[4 * t + 3];
	for (t = 16; t < 80; t++)
		W[t] = spec_rotl32(W[t - 3] ^ W[t - 8] ^ W[t - 14] ^ W[t - 16], 1);
	a = H[0]; b = H[1]; c = H[2]; d = H[3]; e = H[4];
	for (t = 0; t < 80; t++) {
		SPEC_SHA1_STEP(t, a, b, c, d, e, W[t], &T, &b30);
		e = d; d = c; c = b30; b = a; a = T;
	}
	H[0] += a; H[1] += b; H[2] += c; H[3] += d; H[4] += e;
}

static inline void
spec_sha1(const uint8_t * msg, size_t len, uint8_t digest[20])
{
	uint32_t H[5];
	uint8_t M[64];
	uint64_t bits = (uint64_t)len * 8;
	uint64_t plen = SPEC_MD_PADDED_LEN(bits);
	uint64_t q;
	int i;

	for (i = 0; i < 5; i++)
		H[i] = spec_sha1_IV[i];
	for (q = 0; q < plen; q++) {
		M[q % 64] = (uint8_t)((q < len) ? msg[q] : SPEC_SHA_PAD_BYTE(bits, q));
		if (q % 64 == 63)
			spec_sha1_compress(H, M);
	}
	for (i = 0; i < 20; i++)
		digest[i] = (uint8_t)SPEC_BE32_BYTE(H[i / 4], i % 4);
}

#endif /* !SHA1_SPEC_H_ */
