/*
 * spec/hex_spec.h -- base-16 (RFC 4648 section 8) as side-effect-free C expressions, written independently of
 * util/hexify.c.  Encoding: two digits per byte, high nibble first, digits 0-9 then LOWER-case a-f (the documented
 * behaviour of hexify).  Decoding: either case accepted, nothing else.
 */
#ifndef HEX_SPEC_H_
#define HEX_SPEC_H_
#include <stddef.h>
#include <stdint.h>
#define HEX_SPEC_DIGIT(v) ((char)((v) < 10 ? '0' + (v) : 'a' + ((v) - 10)))
#define HEX_SPEC_ISHEX(c) (((c) >= '0' && (c) <= '9') || ((c) >= 'a' && (c) <= 'f') || ((c) >= 'A' && (c) <= 'F'))
#define HEX_SPEC_VAL(c) ((unsigned)(((c) >= '0' && (c) <= '9') ? (c) - '0' : ((c) >= 'a' && (c) <= 'f') ? (c) - 'a' + 10 : \
	((c) >= 'A' && (c) <= 'F') ? (c) - 'A' + 10 : 0))
#define HEX_SPEC_BYTE(c0, c1) ((uint8_t)((HEX_SPEC_VAL(c0) << 4) | HEX_SPEC_VAL(c1)))
#endif /* !HEX_SPEC_H_ */
