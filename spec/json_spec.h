/*
 * spec/json_spec.h -- independent reference for util/json.c: a plain recursive-descent recogniser of RFC 8259 JSON
 * texts working on offsets, and spec_json_find(): on a valid object, the offset of the value of the first top-level
 * member whose name -- after decoding the simple escapes \" \\ \/ \b \f \n \r \t -- equals the key (a name containing
 * a \u escape never matches), else the document length.  -1: not a valid object.
 * STATUS: used only by a native cross-check so far.  The bounded symbolic comparison planned in DESIGN 3.17 (json_find /
 * skip_value against this reference on all documents of <= 7..12 bytes) does not finish in cbmc 6.11 (symex > 10 min
 * even for 7-byte documents with one bracket), so no obligation group includes this file yet.
 * Loops are bounded by JSS_MAX (the harness's bound on the document size); nesting by JSS_DEPTH (-2: too deep).
 */
#ifndef JSON_SPEC_H_
#define JSON_SPEC_H_
#include <stddef.h>
#include <stdint.h>
#ifndef JSS_MAX
#define JSS_MAX 12
#endif
#ifndef JSS_DEPTH
#define JSS_DEPTH 2
#endif
#define JSS_WS(c) ((c) == 0x20 || (c) == 0x09 || (c) == 0x0A || (c) == 0x0D)
#define JSS_DIGIT(c) ((c) >= '0' && (c) <= '9')
#define JSS_HEX(c) (JSS_DIGIT(c) || ((c) >= 'a' && (c) <= 'f') || ((c) >= 'A' && (c) <= 'F'))

static long jss_value(const uint8_t *, long, long, int);

static long
jss_ws(const uint8_t * d, long n, long i)
{
	int k;

	for (k = 0; k <= JSS_MAX; k++) {
		if (i < n && JSS_WS(d[i]))
			i++;
		else
			break;
	}
	return (i);
}

/* d[i] is the opening quote; returns the offset after the closing quote, or -1 */
static long
jss_string(const uint8_t * d, long n, long i)
{
	int k, h;
	uint8_t c;

	i++;
	for (k = 0; k <= JSS_MAX; k++) {
		if (i >= n)
			return (-1);
		c = d[i++];
		if (c == '"')
			return (i);
		if (c < 0x20)
			return (-1);
		if (c == '\\') {
			if (i >= n)
				return (-1);
			c = d[i++];
			if (c == 'u') {
				for (h = 0; h < 4; h++) {
					if (i >= n || !JSS_HEX(d[i]))
						return (-1);
					i++;
				}
			} else if (!(c == '"' || c == '\\' || c == '/' || c == 'b' || c == 'f' || c == 'n' ||
			    c == 'r' || c == 't'))
				return (-1);
		}
	}
	return (-1);
}

static long
jss_digits(const uint8_t * d, long n, long i)
{
	int k;

	for (k = 0; k <= JSS_MAX; k++) {
		if (i < n && JSS_DIGIT(d[i]))
			i++;
		else
			break;
	}
	return (i);
}

/* number = [ "-" ] ( "0" / digit1-9 *digit ) [ "." 1*digit ] [ ("e"/"E") [ "-"/"+" ] 1*digit ] */
static long
jss_number(const uint8_t * d, long n, long i)
{
	long j;

	if (i < n && d[i] == '-')
		i++;
	if (i >= n || !JSS_DIGIT(d[i]))
		return (-1);
	if (d[i] == '0')
		i++;
	else
		i = jss_digits(d, n, i);
	if (i < n && d[i] == '.') {
		j = jss_digits(d, n, i + 1);
		if (j == i + 1)
			return (-1);
		i = j;
	}
	if (i < n && (d[i] == 'e' || d[i] == 'E')) {
		i++;
		if (i < n && (d[i] == '-' || d[i] == '+'))
			i++;
		j = jss_digits(d, n, i);
		if (j == i)
			return (-1);
		i = j;
	}
	return (i);
}

static long
jss_literal(const uint8_t * d, long n, long i)
{

	if (n - i >= 4 && d[i] == 't' && d[i + 1] == 'r' && d[i + 2] == 'u' && d[i + 3] == 'e')
		return (i + 4);
	if (n - i >= 4 && d[i] == 'n' && d[i + 1] == 'u' && d[i + 2] == 'l' && d[i + 3] == 'l')
		return (i + 4);
	if (n - i >= 5 && d[i] == 'f' && d[i + 1] == 'a' && d[i + 2] == 'l' && d[i + 3] == 's' && d[i + 4] == 'e')
		return (i + 5);
	return (-1);
}

/* d[i] is '[' (obj == 0) or '{' (obj == 1); returns the offset after the matching close, -1 invalid, -2 too deep */
static long
jss_container(const uint8_t * d, long n, long i, int depth, int obj)
{
	int k;
	uint8_t close = obj ? '}' : ']';

	if (depth >= JSS_DEPTH)
		return (-2);
	i = jss_ws(d, n, i + 1);
	if (i < n && d[i] == close)
		return (i + 1);
	for (k = 0; k <= JSS_MAX; k++) {
		if (obj) {
			if (i >= n || d[i] != '"')
				return (-1);
			if ((i = jss_string(d, n, i)) < 0)
				return (-1);
			i = jss_ws(d, n, i);
			if (i >= n || d[i] != ':')
				return (-1);
			i = jss_ws(d, n, i + 1);
		}
		if ((i = jss_value(d, n, i, depth + 1)) < 0)
			return (i);
		i = jss_ws(d, n, i);
		if (i >= n)
			return (-1);
		if (d[i] == close)
			return (i + 1);
		if (d[i] != ',')
			return (-1);
		i = jss_ws(d, n, i + 1);
	}
	return (-1);
}

/* value starting exactly at i; returns the offset after it, -1 invalid, -2 too deep */
static long
jss_value(const uint8_t * d, long n, long i, int depth)
{

	if (i >= n)
		return (-1);
	switch (d[i]) {
	case '"':
		return (jss_string(d, n, i));
	case '[':
		return (jss_container(d, n, i, depth, 0));
	case '{':
		return (jss_container(d, n, i, depth, 1));
	case 't':
	case 'f':
	case 'n':
		return (jss_literal(d, n, i));
	default:
		return (jss_number(d, n, i));
	}
}

/* does the member name in d[i .. ) (i at the opening quote, known to be a valid string) decode to key? */
static int
jss_name_is(const uint8_t * d, long i, const char * key)
{
	int k;
	uint8_t c;
	size_t j = 0;

	i++;
	for (k = 0; k <= JSS_MAX; k++) {
		c = d[i++];
		if (c == '"')
			return (key[j] == '\0');
		if (c == '\\') {
			c = d[i++];
			switch (c) {
			case 'u': return (0);
			case 'b': c = 0x08; break;
			case 'f': c = 0x0C; break;
			case 'n': c = 0x0A; break;
			case 'r': c = 0x0D; break;
			case 't': c = 0x09; break;
			default: break;		/* \" \\ \/ stand for themselves */
			}
		}
		if (key[j] == '\0' || (uint8_t)key[j] != c)
			return (0);
		j++;
	}
	return (0);
}

/* see the head of the file */
static long
spec_json_find(const uint8_t * d, long n, const char * key)
{
	long i, objend, v, found = -1;
	int k;

	i = jss_ws(d, n, 0);
	if (i >= n || d[i] != '{')
		return (-1);
	/* the whole object must be valid */
	objend = jss_container(d, n, i, 0, 1);
	if (objend < 0)
		return (objend);
	i = jss_ws(d, n, i + 1);
	if (d[i] == '}')
		return (n);
	for (k = 0; k <= JSS_MAX; k++) {
		int match = jss_name_is(d, i, key);
		i = jss_string(d, n, i);
		i = jss_ws(d, n, i);		/* at ':' */
		v = jss_ws(d, n, i + 1);	/* value start */
		if (match && found < 0)
			found = v;
		i = jss_value(d, n, v, 1);
		i = jss_ws(d, n, i);
		if (d[i] == '}')
			break;
		i = jss_ws(d, n, i + 1);	/* past ',' */
	}
	return (found >= 0 ? found : n);
}
#endif /* !JSON_SPEC_H_ */
