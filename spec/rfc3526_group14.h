/*
 * spec/rfc3526_group14.h -- RFC 3526 section 3, "2048-bit MODP Group" (group id 14): the prime as the hex text
 * printed in the RFC, and its evaluation.  The RFC also gives the closed form
 *     p = 2^2048 - 2^1984 - 1 + 2^64 * { [2^1918 pi] + 124476 },   generator 2;
 * at set-up the text below was cross-checked against that formula (big-integer Machin evaluation of pi) and
 * against OpenSSL's BN_get_rfc3526_prime_2048() -- that supports the specification, it decides no property.
 * Nothing here is derived from crypto/crypto_dh_group14.c.
 */
#ifndef RFC3526_GROUP14_H_
#define RFC3526_GROUP14_H_
#include <stddef.h>
#include <stdint.h>

typedef unsigned __CPROVER_bitvector[2112] spec_big_t;

static const char rfc3526_group14_hex[] =
    "      FFFFFFFF FFFFFFFF C90FDAA2 2168C234 C4C6628B 80DC1CD1\n"
    "      29024E08 8A67CC74 020BBEA6 3B139B22 514A0879 8E3404DD\n"
    "      EF9519B3 CD3A431B 302B0A6D F25F1437 4FE1356D 6D51C245\n"
    "      E485B576 625E7EC6 F44C42E9 A637ED6B 0BFF5CB6 F406B7ED\n"
    "      EE386BFB 5A899FA5 AE9F2411 7C4B1FE6 49286651 ECE45B3D\n"
    "      C2007CB8 A163BF05 98DA4836 1C55D39A 69163FA8 FD24CF5F\n"
    "      83655D23 DCA3AD96 1C62F356 208552BB 9ED52907 7096966D\n"
    "      670C354E 4ABC9804 F1746C08 CA18217C 32905E46 2E36CE3B\n"
    "      E39E772C 180E8603 9B2783A2 EC07A28F B5C55DF0 6F4C52C9\n"
    "      DE2BCBF6 95581718 3995497C EA956AE5 15D22618 98FA0510\n"
    "      15728E5A 8AACAA68 FFFFFFFF FFFFFFFF\n";

/* value of a hex digit, -1 for layout characters */
static int
spec_hexdigit(char c)
{

	if (c >= '0' && c <= '9')
		return (c - '0');
	if (c >= 'A' && c <= 'F')
		return (c - 'A' + 10);
	if (c >= 'a' && c <= 'f')
		return (c - 'a' + 10);
	return (-1);
}

/* the integer the RFC text denotes */
static spec_big_t
spec_group14_value(void)
{
	spec_big_t v = 0;
	size_t i;

	for (i = 0; i < sizeof(rfc3526_group14_hex) - 1; i++) {
		int d = spec_hexdigit(rfc3526_group14_hex[i]);
		if (d >= 0)
			v = (v << 4) | (spec_big_t)(unsigned)d;
	}
	return (v);
}

/* the integer denoted by n bytes, most significant first (n is a compile-time constant at every use) */
static spec_big_t
spec_be_val(const uint8_t * p, size_t n)
{
	spec_big_t v = 0;
	size_t i;

	for (i = 0; i < n; i++)
		v = (v << 8) | (spec_big_t)p[i];
	return (v);
}

/* byte i (0 = most significant) of the 256-byte big-endian, left-padded encoding of v < 2^2048
   (table of the 256 bytes by constant shifts, then one lookup: no variable-distance shift of 2112 bits) */
static uint8_t
spec_be256_byte(spec_big_t v, size_t i)
{
	uint8_t b[256];
	size_t k;

	for (k = 0; k < 256; k++)
		b[k] = (uint8_t)((v >> (8 * (255 - k))) & 0xff);
	return (b[i]);
}

#endif /* !RFC3526_GROUP14_H_ */
