/*
 * spec/b64_spec.h -- RFC 4648 section 4 ("Base 64 Encoding") written down independently of util/b64encode.c, as
 * side-effect-free C expressions (usable inside contract clauses, where function calls are not allowed) plus a
 * plain C reference used by harness-level assertions.
 *
 * Table 1 (the base-64 alphabet): values 0..25 -> 'A'..'Z', 26..51 -> 'a'..'z', 52..61 -> '0'..'9', 62 -> '+',
 * 63 -> '/', pad '='.  A 24-bit group b0 b1 b2 is cut into four 6-bit values, most significant first.  A final
 * quantum of 8 bits gives two characters and "=="; of 16 bits three characters and "=" (missing bits are zero).
 */
#ifndef B64_SPEC_H_
#define B64_SPEC_H_
#include <stddef.h>
#include <stdint.h>

/* value (0..63) -> character */
#define B64_SPEC_SYM(v) ((char)((v) < 26 ? 'A' + (v) : (v) < 52 ? 'a' + ((v) - 26) : \
	(v) < 62 ? '0' + ((v) - 52) : (v) == 62 ? '+' : '/'))
/* character -> 1 iff it is one of the 64 alphabet characters (not the pad) */
#define B64_SPEC_ISSYM(c) (((c) >= 'A' && (c) <= 'Z') || ((c) >= 'a' && (c) <= 'z') || \
	((c) >= '0' && (c) <= '9') || (c) == '+' || (c) == '/')
/* alphabet character -> value; the pad counts as 0 bits */
#define B64_SPEC_VAL(c) ((uint32_t)(((c) >= 'A' && (c) <= 'Z') ? (c) - 'A' : ((c) >= 'a' && (c) <= 'z') ? (c) - 'a' + 26 : \
	((c) >= '0' && (c) <= '9') ? (c) - '0' + 52 : (c) == '+' ? 62 : (c) == '/' ? 63 : 0))

/* the four output characters of a group that holds n >= 1 input bytes (n >= 3: a full group) */
#define B64_SPEC_C0(n, b0, b1, b2) B64_SPEC_SYM((unsigned)(b0) >> 2)
#define B64_SPEC_C1(n, b0, b1, b2) B64_SPEC_SYM((((unsigned)(b0) & 3u) << 4) | ((n) >= 2 ? (unsigned)(b1) >> 4 : 0u))
#define B64_SPEC_C2(n, b0, b1, b2) ((n) < 2 ? '=' : B64_SPEC_SYM((((unsigned)(b1) & 15u) << 2) | ((n) >= 3 ? (unsigned)(b2) >> 6 : 0u)))
#define B64_SPEC_C3(n, b0, b1, b2) ((n) < 3 ? '=' : B64_SPEC_SYM((unsigned)(b2) & 63u))

/* the three bytes denoted by four characters (pad = zero bits) */
#define B64_SPEC_D0(c0, c1, c2, c3) ((uint8_t)((B64_SPEC_VAL(c0) << 2) | (B64_SPEC_VAL(c1) >> 4)))
#define B64_SPEC_D1(c0, c1, c2, c3) ((uint8_t)(((B64_SPEC_VAL(c1) & 15u) << 4) | (B64_SPEC_VAL(c2) >> 2)))
#define B64_SPEC_D2(c0, c1, c2, c3) ((uint8_t)(((B64_SPEC_VAL(c2) & 3u) << 6) | B64_SPEC_VAL(c3)))

/* length of the encoding of len bytes (without the NUL) */
#define B64_SPEC_ENCLEN(len) ((((len) + 2) / 3) * 4)

/*
 * Well-formed base-64 text (what b64decode must accept, and nothing else): length a multiple of 4, every character
 * from the alphabet, except that the last one or the last two characters may be '='.  (RFC 4648 3.5 lets a decoder
 * ignore non-zero pad bits; this specification does, like the code.)  Loop bounded by the caller's object size.
 */
static inline int
b64_spec_wellformed(const char * in, size_t inlen, size_t max)
{
	size_t i;
	int ok = (inlen % 4 == 0);

	for (i = 0; i < max; i++) {
		if (i >= inlen)
			break;
		if (B64_SPEC_ISSYM(in[i]))
			continue;
		if (in[i] != '=')
			ok = 0;
		else if (i + 2 < inlen)
			ok = 0;			/* pad before the last two positions */
		else if (i + 2 == inlen && in[i + 1] != '=')
			ok = 0;			/* "=x" at the end */
	}
	return (ok);
}

/* number of pad characters of well-formed text */
static inline size_t
b64_spec_npad(const char * in, size_t inlen)
{

	if (inlen >= 2 && in[inlen - 2] == '=')
		return (2);
	if (inlen >= 1 && in[inlen - 1] == '=')
		return (1);
	return (0);
}
#endif /* !B64_SPEC_H_ */
