/*
 * sha256_spec.h -- SHA-256 written from the text of FIPS 180-4 (sections 3.2, 4.1.2, 4.2.2, 5.1.1, 5.3.3,
 * 6.2.2).  Independent of /repo: nothing here is copied from alg/sha256.c; the formulas are the
 * standard's (Ch and Maj in their textbook form, T1/T2 rounds with the a..h register shift, schedule
 * W_t = ssig1(W_{t-2}) + W_{t-7} + ssig0(W_{t-15}) + W_{t-16}).
 *
 * The round step and the schedule step are reached through two macros so that a proof harness can
 * replace them by an uninterpreted (logging) leaf -- "lockstep trace abstraction", DESIGN 2.3 G2:
 *     SPEC_SHA256_ROUND(a,b,c,d,e,f,g,h,kw, &new_e, &new_a)
 *     SPEC_SHA256_SCHED(w2, w7, w15, w16)
 * Default: the concrete FIPS functions.
 *
 * Native self-test of this file (supports the spec, decides nothing): spec/selftest_hash_spec.c.
 */
#ifndef SHA256_SPEC_H_
#define SHA256_SPEC_H_
#include <stddef.h>
#include <stdint.h>

/* 3.2 */
static inline uint32_t spec_rotr32(uint32_t x, unsigned n) { return (uint32_t)((x >> n) | (x << (32 - n))); }
static inline uint32_t spec_rotl32(uint32_t x, unsigned n) { return (uint32_t)((x << n) | (x >> (32 - n))); }

/* 4.1.2 (4.2) - (4.7) */
static inline uint32_t spec_sha256_Ch(uint32_t x, uint32_t y, uint32_t z) { return (x & y) ^ (~x & z); }
static inline uint32_t spec_sha256_Maj(uint32_t x, uint32_t y, uint32_t z) { return (x & y) ^ (x & z) ^ (y & z); }
static inline uint32_t spec_sha256_BSIG0(uint32_t x) { return spec_rotr32(x, 2) ^ spec_rotr32(x, 13) ^ spec_rotr32(x, 22); }
static inline uint32_t spec_sha256_BSIG1(uint32_t x) { return spec_rotr32(x, 6) ^ spec_rotr32(x, 11) ^ spec_rotr32(x, 25); }
static inline uint32_t spec_sha256_SSIG0(uint32_t x) { return spec_rotr32(x, 7) ^ spec_rotr32(x, 18) ^ (x >> 3); }
static inline uint32_t spec_sha256_SSIG1(uint32_t x) { return spec_rotr32(x, 17) ^ spec_rotr32(x, 19) ^ (x >> 10); }

/* 4.2.2: first 32 bits of the fractional parts of the cube roots of the first 64 primes */
static const uint32_t spec_sha256_K[64] = {
	0x428a2f98u, 0x71374491u, 0xb5c0fbcfu, 0xe9b5dba5u, 0x3956c25bu, 0x59f111f1u, 0x923f82a4u, 0xab1c5ed5u,
	0xd807aa98u, 0x12835b01u, 0x243185beu, 0x550c7dc3u, 0x72be5d74u, 0x80deb1feu, 0x9bdc06a7u, 0xc19bf174u,
	0xe49b69c1u, 0xefbe4786u, 0x0fc19dc6u, 0x240ca1ccu, 0x2de92c6fu, 0x4a7484aau, 0x5cb0a9dcu, 0x76f988dau,
	0x983e5152u, 0xa831c66du, 0xb00327c8u, 0xbf597fc7u, 0xc6e00bf3u, 0xd5a79147u, 0x06ca6351u, 0x14292967u,
	0x27b70a85u, 0x2e1b2138u, 0x4d2c6dfcu, 0x53380d13u, 0x650a7354u, 0x766a0abbu, 0x81c2c92eu, 0x92722c85u,
	0xa2bfe8a1u, 0xa81a664bu, 0xc24b8b70u, 0xc76c51a3u, 0xd192e819u, 0xd6990624u, 0xf40e3585u, 0x106aa070u,
	0x19a4c116u, 0x1e376c08u, 0x2748774cu, 0x34b0bcb5u, 0x391c0cb3u, 0x4ed8aa4au, 0x5b9cca4fu, 0x682e6ff3u,
	0x748f82eeu, 0x78a5636fu, 0x84c87814u, 0x8cc70208u, 0x90befffau, 0xa4506cebu, 0xbef9a3f7u, 0xc67178f2u
};

/* 5.3.3: first 32 bits of the fractional parts of the square roots of the first 8 primes */
static const uint32_t spec_sha256_IV[8] = {
	0x6a09e667u, 0xbb67ae85u, 0x3c6ef372u, 0xa54ff53au, 0x510e527fu, 0x9b05688cu, 0x1f83d9abu, 0x5be0cd19u
};
#define SPEC_SHA256_IV(i) ((i) == 0 ? 0x6a09e667u : (i) == 1 ? 0xbb67ae85u : (i) == 2 ? 0x3c6ef372u : \
	(i) == 3 ? 0xa54ff53au : (i) == 4 ? 0x510e527fu : (i) == 5 ? 0x9b05688cu : (i) == 6 ? 0x1f83d9abu : 0x5be0cd19u)

/*
 * 6.2.2 step 3, one value of t, as a function of the eight working variables and (K_t + W_t):
 *   T1 = h + BSIG1(e) + Ch(e,f,g) + K_t + W_t;  T2 = BSIG0(a) + Maj(a,b,c);
 *   h = g; g = f; f = e; e = d + T1; d = c; c = b; b = a; a = T1 + T2.
 * Only e and a receive new values; they are returned.
 */
static inline void
spec_sha256_round(uint32_t a, uint32_t b, uint32_t c, uint32_t d, uint32_t e, uint32_t f, uint32_t g,
    uint32_t h, uint32_t kw, uint32_t * new_e, uint32_t * new_a)
{
	uint32_t T1 = h + spec_sha256_BSIG1(e) + spec_sha256_Ch(e, f, g) + kw;
	uint32_t T2 = spec_sha256_BSIG0(a) + spec_sha256_Maj(a, b, c);

	*new_e = d + T1;
	*new_a = T1 + T2;
}

/* 6.2.2 step 1, 16 <= t <= 63, as a function of W_{t-2}, W_{t-7}, W_{t-15}, W_{t-16} */
static inline uint32_t
spec_sha256_sched(uint32_t w2, uint32_t w7, uint32_t w15, uint32_t w16)
{

	return (spec_sha256_SSIG1(w2) + w7 + spec_sha256_SSIG0(w15) + w16);
}

#ifndef SPEC_SHA256_ROUND
#define SPEC_SHA256_ROUND(a, b, c, d, e, f, g, h, kw, ne, na) spec_sha256_round(a, b, c, d, e, f, g, h, kw, ne, na)
#endif
#ifndef SPEC_SHA256_SCHED
#define SPEC_SHA256_SCHED(w2, w7, w15, w16) spec_sha256_sched(w2, w7, w15, w16)
#endif

/* 6.2.2: H^(i) = compress(H^(i-1), M^(i)); the block is 16 big-endian 32-bit words (3.1, 5.2.1) */
static inline void
spec_sha256_compress(uint32_t H[8], const uint8_t M[64])
{
	uint32_t W[64];
	uint32_t a, b, c, d, e, f, g, h, ne, na;
	int t;

	for (t = 0; t < 16; t++)
		W[t] = ((uint32_t)M[4 * t] << 24) | ((uint32_t)M[4 * t + 1] << 16) |
		    ((uint32_t)M[4 * t + 2] << 8) | (uint32_t)M[4 * t + 3];
	for (t = 16; t < 64; t++)
		W[t] = SPEC_SHA256_SCHED(W[t - 2], W[t - 7], W[t - 15], W[t - 16]);
	a = H[0]; b = H[1]; c = H[2]; d = H[3]; e = H[4]; f = H[5]; g = H[6]; h = H[7];
	for (t = 0; t < 64; t++) {
		SPEC_SHA256_ROUND(a, b, c, d, e, f, g, h, spec_sha256_K[t] + W[t], &ne, &na);
		h = g; g = f; f = e; e = ne; d = c; c = b; b = a; a = na;
	}
	H[0] += a; H[1] += b; H[2] += c; H[3] += d; H[4] += e; H[5] += f; H[6] += g; H[7] += h;
}

/*
 * 5.1.1 padding for byte-aligned messages, pointwise.  A message of `bits` bits (bits % 8 == 0) is
 * followed by the bit 1, k zero bits with bits + 1 + k = 448 mod 512, and the 64-bit big-endian
 * length.  SPEC_MD_PADDED_LEN(bits) is the length in bytes of the padded message;
 * SPEC_SHA_PAD_BYTE(bits, q) is its byte at absolute position q, bits/8 <= q < padded length.
 * Pure expressions (usable inside contract clauses).  Requires bits/8 + 72 not to overflow 64 bits.
 */
#define SPEC_MD_PADDED_LEN(bits) (((((uint64_t)(bits) >> 3) + 9 + 63) / 64) * 64)
#define SPEC_SHA_PAD_BYTE(bits, q) \
	((((uint64_t)(q) == ((uint64_t)(bits) >> 3)) ? 0x80 : \
	    ((uint64_t)(q) < SPEC_MD_PADDED_LEN(bits) - 8) ? 0x00 : \
	    (((uint64_t)(bits)) >> (8 * ((SPEC_MD_PADDED_LEN(bits) - 1 - (uint64_t)(q)) & 7)))) & 0xff)
/* MD5 (RFC 1321 3.2): same, but the 64-bit length is little-endian */
#define SPEC_MD5_PAD_BYTE(bits, q) \
	((((uint64_t)(q) == ((uint64_t)(bits) >> 3)) ? 0x80 : \
	    ((uint64_t)(q) < SPEC_MD_PADDED_LEN(bits) - 8) ? 0x00 : \
	    (((uint64_t)(bits)) >> (8 * (((uint64_t)(q) - (SPEC_MD_PADDED_LEN(bits) - 8)) & 7)))) & 0xff)

/* big-endian byte i (0..3) of a 32-bit word; little-endian likewise */
#define SPEC_BE32_BYTE(w, i) (((uint32_t)(w) >> (8 * (3 - ((i) & 3)))) & 0xff)
#define SPEC_LE32_BYTE(w, i) (((uint32_t)(w) >> (8 * ((i) & 3))) & 0xff)

/* 6.2: the whole hash of a byte string (used by the native self-test and by bounded end-to-end harnesses) */
static inline void
spec_sha256(const uint8_t * msg, size_t len, uint8_t digest[32])
{
	uint32_t H[8];
	uint8_t M[64];
	uint64_t bits = (uint64_t)len * 8;
	uint64_t plen = SPEC_MD_PADDED_LEN(bits);
	uint64_t q;
	int i;

	for (i = 0; i < 8; i++)
		H[i] = spec_sha256_IV[i];
	for (q = 0; q < plen; q++) {
		M[q % 64] = (uint8_t)((q < len) ? msg[q] : SPEC_SHA_PAD_BYTE(bits, q));
		if (q % 64 == 63)
			spec_sha256_compress(H, M);
	}
	for (i = 0; i < 32; i++)
		digest[i] = (uint8_t)SPEC_BE32_BYTE(H[i / 4], i % 4);
}

#endif /* !SHA256_SPEC_H_ */
