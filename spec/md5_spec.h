/*
 * md5_spec.h -- MD5 written from RFC 1321 (3.1-3.5).  Independent of /repo: the auxiliary functions in
 * their RFC form, the per-round message index formulas, the shift table and the 64-entry table
 * T[i] = floor(4294967296 * abs(sin(i))) of 3.4 (the native self-test recomputes it from sin()).
 * The per-step operation is reached through SPEC_MD5_STEP so that a harness can make it an uninterpreted leaf.
 */
#ifndef MD5_SPEC_H_
#define MD5_SPEC_H_
#include "sha256_spec.h"	/* spec_rotl32, SPEC_MD_PADDED_LEN, SPEC_MD5_PAD_BYTE, SPEC_LE32_BYTE */

/* 3.4 */
static inline uint32_t spec_md5_F(uint32_t x, uint32_t y, uint32_t z) { return ((x & y) | (~x & z)); }
static inline uint32_t spec_md5_G(uint32_t x, uint32_t y, uint32_t z) { return ((x & z) | (y & ~z)); }
static inline uint32_t spec_md5_H(uint32_t x, uint32_t y, uint32_t z) { return (x ^ y ^ z); }
static inline uint32_t spec_md5_I(uint32_t x, uint32_t y, uint32_t z) { return (y ^ (x | ~z)); }

static const uint32_t spec_md5_T[64] = {
	0xd76aa478u, 0xe8c7b756u, 0x242070dbu, 0xc1bdceeeu, 0xf57c0fafu, 0x4787c62au, 0xa8304613u, 0xfd469501u,
	0x698098d8u, 0x8b44f7afu, 0xffff5bb1u, 0x895cd7beu, 0x6b901122u, 0xfd987193u, 0xa679438eu, 0x49b40821u,
	0xf61e2562u, 0xc040b340u, 0x265e5a51u, 0xe9b6c7aau, 0xd62f105du, 0x02441453u, 0xd8a1e681u, 0xe7d3fbc8u,
	0x21e1cde6u, 0xc33707d6u, 0xf4d50d87u, 0x455a14edu, 0xa9e3e905u, 0xfcefa3f8u, 0x676f02d9u, 0x8d2a4c8au,
	0xfffa3942u, 0x8771f681u, 0x6d9d6122u, 0xfde5380cu, 0xa4beea44u, 0x4bdecfa9u, 0xf6bb4b60u, 0xbebfbc70u,
	0x289b7ec6u, 0xeaa127fau, 0xd4ef3085u, 0x04881d05u, 0xd9d4d039u, 0xe6db99e5u, 0x1fa27cf8u, 0xc4ac5665u,
	0xf4292244u, 0x432aff97u, 0xab9423a7u, 0xfc93a039u, 0x655b59c3u, 0x8f0ccc92u, 0xffeff47du, 0x85845dd1u,
	0x6fa87e4fu, 0xfe2ce6e0u, 0xa3014314u, 0x4e0811a1u, 0xf7537e82u, 0xbd3af235u, 0x2ad7d2bbu, 0xeb86d391u
};
/* per-round shift amounts (3.4: "[abcd k s i]") */
static const unsigned spec_md5_S[4][4] = { { 7, 12, 17, 22 }, { 5, 9, 14, 20 }, { 4, 11, 16, 23 }, { 6, 10, 15, 21 } };
/* 3.3 */
static const uint32_t spec_md5_IV[4] = { 0x67452301u, 0xefcdab89u, 0x98badcfeu, 0x10325476u };
#define SPEC_MD5_IV(i) ((i) == 0 ? 0x67452301u : (i) == 1 ? 0xefcdab89u : (i) == 2 ? 0x98badcfeu : 0x10325476u)

/* message word index used by step i (0-based, 0..63): rounds 1..4 of 3.4 */
static inline int
spec_md5_k(int i)
{

	return (i < 16 ? i : i < 32 ? (5 * i + 1) % 16 : i < 48 ? (3 * i + 5) % 16 : (7 * i) % 16);
}

/* one operation "a = b + ((a + f(b,c,d) + X[k] + T[i]) <<< s)"; xt = X[k] + T[i]; returns the new a */
static inline uint32_t
spec_md5_step(int round, uint32_t a, uint32_t b, uint32_t c, uint32_t d, uint32_t xt, unsigned s)
{
	uint32_t f = round == 0 ? spec_md5_F(b, c, d) : round == 1 ? spec_md5_G(b, c, d) :
	    round == 2 ? spec_md5_H(b, c, d) : spec_md5_I(b, c, d);

	return (b + spec_rotl32(a + f + xt, s));
}
#ifndef SPEC_MD5_STEP
#define SPEC_MD5_STEP(round, a, b, c, d, xt, s) spec_md5_step(round, a, b, c, d, xt, s)
#endif

/* 3.4: process one 16-word block (words little-endian, 2.) */
static inline void
spec_md5_compress(uint32_t H[4], const uint8_t M[64])
{
	uint32_t X[16];
	uint32_t a, b, c, d, na;
	int i;

	for (i = 0; i < 16; i++)
		X[i] = (uint32_t)M[4 * i] | ((uint32_t)M[4 * i + 1] << 8) | ((uint32_t)M[4 * i + 2] << 16) |
		    ((uint32_t)M[4 * i + 3] << 24);
	a = H[0]; b = H[1]; c = H[2]; d = H[3];
	for (i = 0; i < 64; i++) {
		/* [abcd k s i] then the roles rotate: (a,b,c,d) <- (d, new a, b, c) */
		na = SPEC_MD5_STEP(i / 16, a, b, c, d, X[spec_md5_k(i)] + spec_md5_T[i], spec_md5_S[i / 16][i % 4]);
		a = d; d = c; c = b; b = na;
	}
	H[0] += a; H[1] += b; H[2] += c; H[3] += d;
}

static inline void
spec_md5(const uint8_t * msg, size_t len, uint8_t digest[16])
{
	uint32_t H[4];
	uint8_t M[64];
	uint64_t bits = (uint64_t)len * 8;
	uint64_t plen = SPEC_MD_PADDED_LEN(bits);
	uint64_t q;
	int i;

	for (i = 0; i < 4; i++)
		H[i] = spec_md5_IV[i];
	for (q = 0; q < plen; q++) {
		M[q % 64] = (uint8_t)((q < len) ? msg[q] : SPEC_MD5_PAD_BYTE(bits, q));
		if (q % 64 == 63)
			spec_md5_compress(H, M);
	}
	for (i = 0; i < 16; i++)
		digest[i] = (uint8_t)SPEC_LE32_BYTE(H[i / 4], i % 4);
}

#endif /* !MD5_SPEC_H_ */
