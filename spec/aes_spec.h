/*
 * aes_spec.h -- FIPS-197 (AES) written from the text of the standard, as the independent specification for
 * C02/C03.  Nothing here is derived from libcperciva or OpenSSL.
 *
 *   sec. 4.2   GF(2^8) arithmetic: xtime, multiplication, multiplicative inverse (computed, a^254)
 *   sec. 5.1.1 SubBytes: S-box = affine map of the inverse; the printed table (Figure 7) is carried as well and
 *              harness/C02/aes_spec_sbox.c proves  spec_aes_sbox_gen(a) == spec_aes_sbox[a]  for all 256 a
 *   sec. 5.1.2 ShiftRows, 5.1.3 MixColumns, 5.1.4 AddRoundKey, 5.2 KeyExpansion (Nk = 4, 8), 5.1 Cipher
 *
 * State layout: the 16 input bytes in0..in15 fill the state column by column, s[r][c] = in[r + 4c] (sec. 3.4);
 * the state is kept as the flat array st[r + 4c].  Words of the key schedule w[i] are kept as 4 bytes in the
 * order of the standard (w[i] = {key[4i], key[4i+1], key[4i+2], key[4i+3]}), flat array w[4i + k]; round key r
 * is w[16r .. 16r+15].
 */
#ifndef AES_SPEC_H_
#define AES_SPEC_H_
#include <stdint.h>

/* specification text: CBMC's safety checks are for the code under verification, not for the specification */
#pragma CPROVER check push
#pragma CPROVER check disable "bounds"
#pragma CPROVER check disable "pointer"
#pragma CPROVER check disable "pointer-overflow"
#pragma CPROVER check disable "conversion"
#pragma CPROVER check disable "div-by-zero"

/* sec. 4.2.1: multiplication by x modulo m(x) = x^8 + x^4 + x^3 + x + 1 */
static inline uint8_t
spec_aes_xtime(uint8_t a)
{

	return (uint8_t)(((a << 1) & 0xff) ^ ((a & 0x80) ? 0x1b : 0x00));
}

/* sec. 4.2: multiplication in GF(2^8) */
static inline uint8_t
spec_aes_gmul(uint8_t a, uint8_t b)
{
	uint8_t r = 0;

	for (int i = 0; i < 8; i++) {
		if (b & 1)
			r ^= a;
		a = spec_aes_xtime(a);
		b >>= 1;
	}
	return (r);
}

/* sec. 4.2: multiplicative inverse, 0 mapped to 0: a^254 (the group of units has order 255) */
static inline uint8_t
spec_aes_ginv(uint8_t a)
{
	uint8_t a2 = spec_aes_gmul(a, a);
	uint8_t a4 = spec_aes_gmul(a2, a2);
	uint8_t a8 = spec_aes_gmul(a4, a4);
	uint8_t a16 = spec_aes_gmul(a8, a8);
	uint8_t a32 = spec_aes_gmul(a16, a16);
	uint8_t a64 = spec_aes_gmul(a32, a32);
	uint8_t a128 = spec_aes_gmul(a64, a64);
	/* 254 = 128 + 64 + 32 + 16 + 8 + 4 + 2 */
	uint8_t r = spec_aes_gmul(a128, a64);

	r = spec_aes_gmul(r, a32);
	r = spec_aes_gmul(r, a16);
	r = spec_aes_gmul(r, a8);
	r = spec_aes_gmul(r, a4);
	r = spec_aes_gmul(r, a2);
	return (r);
}

#define SPEC_AES_ROTL8(x, n) ((uint8_t)((((x) << (n)) | ((x) >> (8 - (n)))) & 0xff))
/* sec. 5.1.1: b'_i = b_i ^ b_{i+4} ^ b_{i+5} ^ b_{i+6} ^ b_{i+7} ^ c_i, c = 0x63, applied to the inverse */
static inline uint8_t
spec_aes_sbox_gen(uint8_t a)
{
	uint8_t b = spec_aes_ginv(a);

	return (uint8_t)(b ^ SPEC_AES_ROTL8(b, 1) ^ SPEC_AES_ROTL8(b, 2) ^ SPEC_AES_ROTL8(b, 3) ^
	    SPEC_AES_ROTL8(b, 4) ^ 0x63);
}

/* FIPS-197 Figure 7, as printed (row = high nibble, column = low nibble) */
static const uint8_t spec_aes_sbox[256] = {
	0x63, 0x7c, 0x77, 0x7b, 0xf2, 0x6b, 0x6f, 0xc5, 0x30, 0x01, 0x67, 0x2b, 0xfe, 0xd7, 0xab, 0x76,
	0xca, 0x82, 0xc9, 0x7d, 0xfa, 0x59, 0x47, 0xf0, 0xad, 0xd4, 0xa2, 0xaf, 0x9c, 0xa4, 0x72, 0xc0,
	0xb7, 0xfd, 0x93, 0x26, 0x36, 0x3f, 0xf7, 0xcc, 0x34, 0xa5, 0xe5, 0xf1, 0x71, 0xd8, 0x31, 0x15,
	0x04, 0xc7, 0x23, 0xc3, 0x18, 0x96, 0x05, 0x9a, 0x07, 0x12, 0x80, 0xe2, 0xeb, 0x27, 0xb2, 0x75,
	0x09, 0x83, 0x2c, 0x1a, 0x1b, 0x6e, 0x5a, 0xa0, 0x52, 0x3b, 0xd6, 0xb3, 0x29, 0xe3, 0x2f, 0x84,
	0x53, 0xd1, 0x00, 0xed, 0x20, 0xfc, 0xb1, 0x5b, 0x6a, 0xcb, 0xbe, 0x39, 0x4a, 0x4c, 0x58, 0xcf,
	0xd0, 0xef, 0xaa, 0xfb, 0x43, 0x4d, 0x33, 0x85, 0x45, 0xf9, 0x02, 0x7f, 0x50, 0x3c, 0x9f, 0xa8,
	0x51, 0xa3, 0x40, 0x8f, 0x92, 0x9d, 0x38, 0xf5, 0xbc, 0xb6, 0xda, 0x21, 0x10, 0xff, 0xf3, 0xd2,
	0xcd, 0x0c, 0x13, 0xec, 0x5f, 0x97, 0x44, 0x17, 0xc4, 0xa7, 0x7e, 0x3d, 0x64, 0x5d, 0x19, 0x73,
	0x60, 0x81, 0x4f, 0xdc, 0x22, 0x2a, 0x90, 0x88, 0x46, 0xee, 0xb8, 0x14, 0xde, 0x5e, 0x0b, 0xdb,
	0xe0, 0x32, 0x3a, 0x0a, 0x49, 0x06, 0x24, 0x5c, 0xc2, 0xd3, 0xac, 0x62, 0x91, 0x95, 0xe4, 0x79,
	0xe7, 0xc8, 0x37, 0x6d, 0x8d, 0xd5, 0x4e, 0xa9, 0x6c, 0x56, 0xf4, 0xea, 0x65, 0x7a, 0xae, 0x08,
	0xba, 0x78, 0x25, 0x2e, 0x1c, 0xa6, 0xb4, 0xc6, 0xe8, 0xdd, 0x74, 0x1f, 0x4b, 0xbd, 0x8b, 0x8a,
	0x70, 0x3e, 0xb5, 0x66, 0x48, 0x03, 0xf6, 0x0e, 0x61, 0x35, 0x57, 0xb9, 0x86, 0xc1, 0x1d, 0x9e,
	0xe1, 0xf8, 0x98, 0x11, 0x69, 0xd9, 0x8e, 0x94, 0x9b, 0x1e, 0x87, 0xe9, 0xce, 0x55, 0x28, 0xdf,
	0x8c, 0xa1, 0x89, 0x0d, 0xbf, 0xe6, 0x42, 0x68, 0x41, 0x99, 0x2d, 0x0f, 0xb0, 0x54, 0xbb, 0x16
};

/*
 * The S-box used by the rest of the specification (= spec_aes_sbox_gen, see harness/C02/aes_spec_sbox.c).
 * With -DSPEC_AES_SBOX_UF the S-box is an ARBITRARY function (a nondeterministic 256-entry array shared by the
 * specification and by the instruction models): a structure proof done that way holds for every S-box, in
 * particular for the real one (L-sub), and costs seconds where the concrete table makes SAT equivalence of two
 * S-box networks infeasible (measured: > 300 s / out of memory for the 40 look-ups of the AES-128 key schedule).
 */
#ifdef SPEC_AES_SBOX_UF
extern uint8_t g_aes_sbox_uf[256];
#define SPEC_AES_SBOX(x) (g_aes_sbox_uf[(uint8_t)(x)])
#endif
#ifndef SPEC_AES_SBOX
#define SPEC_AES_SBOX(x) (spec_aes_sbox[(uint8_t)(x)])
#endif

/* sec. 5.1.1 */
static inline void
spec_aes_sub_bytes(uint8_t st[16])
{

	for (int i = 0; i < 16; i++)
		st[i] = SPEC_AES_SBOX(st[i]);
}

/* sec. 5.1.2: s'[r][c] = s[r][(c + r) mod 4] */
static inline void
spec_aes_shift_rows(uint8_t st[16])
{
	uint8_t t[16];

	for (int c = 0; c < 4; c++)
		for (int r = 0; r < 4; r++)
			t[r + 4 * c] = st[r + 4 * ((c + r) % 4)];
	for (int i = 0; i < 16; i++)
		st[i] = t[i];
}

/* sec. 5.1.3: column times {03}x^3 + {01}x^2 + {01}x + {02} */
static inline void
spec_aes_mix_columns(uint8_t st[16])
{

	for (int c = 0; c < 4; c++) {
		uint8_t s0 = st[4 * c], s1 = st[4 * c + 1], s2 = st[4 * c + 2], s3 = st[4 * c + 3];

		st[4 * c + 0] = (uint8_t)(spec_aes_gmul(0x02, s0) ^ spec_aes_gmul(0x03, s1) ^ s2 ^ s3);
		st[4 * c + 1] = (uint8_t)(s0 ^ spec_aes_gmul(0x02, s1) ^ spec_aes_gmul(0x03, s2) ^ s3);
		st[4 * c + 2] = (uint8_t)(s0 ^ s1 ^ spec_aes_gmul(0x02, s2) ^ spec_aes_gmul(0x03, s3));
		st[4 * c + 3] = (uint8_t)(spec_aes_gmul(0x03, s0) ^ s1 ^ s2 ^ spec_aes_gmul(0x02, s3));
	}
}

/* sec. 5.1.4 */
static inline void
spec_aes_add_round_key(uint8_t st[16], const uint8_t rk[16])
{

	for (int i = 0; i < 16; i++)
		st[i] ^= rk[i];
}

/* sec. 5.2: Rcon[j] = {x^(j-1), 00, 00, 00}, j >= 1 */
static inline uint8_t
spec_aes_rcon(int j)
{
	uint8_t r = 0x01;

	for (int k = 1; k < j; k++)
		r = spec_aes_xtime(r);
	return (r);
}

/*
 * sec. 5.2 KeyExpansion, Nk = 4 (Nr = 10) or Nk = 8 (Nr = 14).  w must hold 16 * (Nr + 1) bytes.
 */
static inline void
spec_aes_key_expansion(const uint8_t * key, int Nk, uint8_t * w)
{
	int Nr = Nk + 6;

	for (int i = 0; i < 4 * Nk; i++)
		w[i] = key[i];
	for (int i = Nk; i < 4 * (Nr + 1); i++) {
		uint8_t t[4];

		for (int k = 0; k < 4; k++)
			t[k] = w[4 * (i - 1) + k];
		if (i % Nk == 0) {
			/* SubWord(RotWord(temp)) xor Rcon[i/Nk] */
			uint8_t t0 = t[0];

			t[0] = (uint8_t)(SPEC_AES_SBOX(t[1]) ^ spec_aes_rcon(i / Nk));
			t[1] = SPEC_AES_SBOX(t[2]);
			t[2] = SPEC_AES_SBOX(t[3]);
			t[3] = SPEC_AES_SBOX(t0);
		} else if (Nk > 6 && i % Nk == 4) {
			for (int k = 0; k < 4; k++)
				t[k] = SPEC_AES_SBOX(t[k]);
		}
		for (int k = 0; k < 4; k++)
			w[4 * i + k] = (uint8_t)(w[4 * (i - Nk) + k] ^ t[k]);
	}
}

/* one full round (sec. 5.1, body of the loop in Figure 5) and the final round */
static inline void
spec_aes_round(uint8_t st[16], const uint8_t rk[16])
{

	spec_aes_sub_bytes(st);
	spec_aes_shift_rows(st);
	spec_aes_mix_columns(st);
	spec_aes_add_round_key(st, rk);
}

static inline void
spec_aes_final_round(uint8_t st[16], const uint8_t rk[16])
{

	spec_aes_sub_bytes(st);
	spec_aes_shift_rows(st);
	spec_aes_add_round_key(st, rk);
}

/*
 * G2 hook (DESIGN 2.3): a structure proof may replace the round functions on BOTH sides by lock-step stubs
 * (harness/C02/aesni_g2.h); by default they are the functions above.
 */
#ifndef SPEC_AES_ROUND
#define SPEC_AES_ROUND(st, rk) spec_aes_round(st, rk)
#define SPEC_AES_FINAL_ROUND(st, rk) spec_aes_final_round(st, rk)
#endif

/* sec. 5.1 Cipher(in, out, w), Nr = 10 or 14 */
static inline void
spec_aes_cipher(const uint8_t in[16], uint8_t out[16], const uint8_t * w, int Nr)
{
	uint8_t st[16];

	for (int i = 0; i < 16; i++)
		st[i] = in[i];
	spec_aes_add_round_key(st, &w[0]);
	for (int r = 1; r < Nr; r++)
		SPEC_AES_ROUND(st, &w[16 * r]);
	SPEC_AES_FINAL_ROUND(st, &w[16 * Nr]);
	for (int i = 0; i < 16; i++)
		out[i] = st[i];
}

/* AES-128 / AES-256 encryption of one block with an unexpanded key */
static inline void
spec_aes(const uint8_t * key, int keylen, const uint8_t in[16], uint8_t out[16])
{
	uint8_t w[240];

	spec_aes_key_expansion(key, keylen / 4, w);
	spec_aes_cipher(in, out, w, keylen / 4 + 6);
}

#pragma CPROVER check pop

#endif /* !AES_SPEC_H_ */
