/*
 * crc32c_spec.h -- the Castagnoli CRC as polynomial arithmetic over GF(2), written from the definition
 * (p(x) = x^32 + x^28 + x^27 + x^26 + x^25 + x^23 + x^22 + x^20 + x^19 + x^18 + x^14 + x^13 + x^11 + x^10 +
 *  x^9 + x^8 + x^6 + 1, i.e. 0x1_1EDC6F41) and from the documented interface of alg/crc32c.h:
 *   "1[buf]...[buf][cbuf], each buffer interpreted as a bit sequence starting with the least significant bit of
 *    the byte at the lowest address, is a product of the Castagnoli polynomial".
 * Independent of /repo: bit-serial textbook division, no tables, a loop-based bit reversal.
 */
#ifndef CRC32C_SPEC_H_
#define CRC32C_SPEC_H_
#include <stddef.h>
#include <stdint.h>

#define SPEC_CRC32C_POLY 0x1EDC6F41u	/* p(x) without its x^32 term, bit k = coefficient of x^k */

/* Textbook long division: R = (bit string so far) mod p, degree < 32, bit k of R = coefficient of x^k.
   Appending one bit b to the string: R' = (R x + b) mod p. */
static inline uint32_t
spec_poly_feed_bit(uint32_t R, unsigned b)
{
	uint32_t carry = R >> 31;

	R = (uint32_t)(R << 1) | (b & 1u);
	if (carry)
		R ^= SPEC_CRC32C_POLY;
	return (R);
}

/* appending the 8 bits of a byte, least significant bit first (the documented bit order) */
static inline uint32_t
spec_poly_feed_byte(uint32_t R, uint8_t byte)
{
	int k;

	for (k = 0; k < 8; k++)
		R = spec_poly_feed_bit(R, (unsigned)(byte >> k) & 1u);
	return (R);
}

/* R x^n mod p */
static inline uint32_t
spec_poly_mulxn(uint32_t R, int n)
{
	int k;

	for (k = 0; k < n; k++)
		R = spec_poly_feed_bit(R, 0);
	return (R);
}

static inline uint32_t
spec_reverse32(uint32_t x)
{
	uint32_t r = 0;
	int k;

	for (k = 0; k < 32; k++)
		if (x & ((uint32_t)1 << k))
			r |= (uint32_t)1 << (31 - k);
	return (r);
}

/*
 * The register the implementation keeps: state = reverse32((string so far)(x) x^32 mod p).
 * SPEC_CRC32C_STATE_OF(R): the register value that corresponds to textbook remainder R.
 */
static inline uint32_t
spec_crc32c_state_of(uint32_t R)
{

	return (spec_reverse32(spec_poly_mulxn(R, 32)));
}

/* the usual bit-reflected register recurrence ("reflected CRC, poly 0x82F63B78"), one input byte */
static inline uint32_t
spec_crc32c_byte(uint32_t s, uint8_t byte)
{
	int k;

	s ^= byte;
	for (k = 0; k < 8; k++)
		s = (s >> 1) ^ ((s & 1u) ? 0x82F63B78u : 0u);
	return (s);
}

/* documented table contents: T[k][i] = reverse32(reverse8(i) * x^(32+8k) mod p(x)) */
static inline uint32_t
spec_crc32c_T(unsigned k, unsigned i)
{
	uint32_t R = 0;
	int b;

	for (b = 0; b < 8; b++)		/* reverse8(i) as a polynomial of degree < 8 */
		if (i & (1u << b))
			R |= 1u << (7 - b);
	return (spec_reverse32(spec_poly_mulxn(R, 32 + 8 * (int)k)));
}

/* whole-message reference (native self-test, bounded harnesses): CRC32C_Init; Update(buf,len); Final */
static inline void
spec_crc32c(const uint8_t * buf, size_t len, uint8_t cbuf[4])
{
	uint32_t R = 1;		/* the implicit leading 1 bit */
	uint32_t s;
	size_t i;

	for (i = 0; i < len; i++)
		R = spec_poly_feed_byte(R, buf[i]);
	s = spec_crc32c_state_of(R);
	for (i = 0; i < 4; i++)
		cbuf[i] = (uint8_t)((s >> (8 * i)) & 0xff);
}

#endif /* !CRC32C_SPEC_H_ */
