/*
 * spec/sigv4_spec.h -- AWS Signature Version 4 as a specification, written from the published algorithm
 * ("Signing AWS API requests" / "Create a signed AWS API request", AWS General Reference; for S3: "Authenticating
 * Requests: Using the Authorization Header / Using Query Parameters (AWS Signature Version 4)"), independently of
 * aws/aws_sign.c: no printf-style formatting, strings are assembled piece by piece.
 *
 *   CanonicalRequest = Method \n CanonicalURI \n CanonicalQueryString \n CanonicalHeaders \n SignedHeaders \n
 *                      HexEncode(Hash(Payload))                    (or the literal UNSIGNED-PAYLOAD for presigned S3 URLs)
 *     CanonicalURI         = URI-encoded path ('/' kept)
 *     CanonicalQueryString = name=value pairs, each URI-encoded ('/' -> %2F), sorted by name, joined by '&'
 *     CanonicalHeaders     = for each signed header, sorted by lower-case name:  name ':' trimmed-value '\n'
 *     SignedHeaders        = the lower-case names joined by ';'
 *   CredentialScope  = Date '/' Region '/' Service '/aws4_request'        Date = first 8 characters of the timestamp
 *   StringToSign     = "AWS4-HMAC-SHA256" \n Timestamp \n CredentialScope \n HexEncode(Hash(CanonicalRequest))
 *   kDate = HMAC("AWS4" || Secret, Date); kRegion = HMAC(kDate, Region); kService = HMAC(kRegion, Service);
 *   kSigning = HMAC(kService, "aws4_request");   Signature = HexEncode(HMAC(kSigning, StringToSign))
 *   Authorization: AWS4-HMAC-SHA256 Credential=<KeyId>/<CredentialScope>,SignedHeaders=<SignedHeaders>,Signature=<Signature>
 *
 * Strings are kept in the normal form of models/aws_stream.h (runs of text at constant positions, whole input
 * strings by reference, ints): equal normal forms = equal byte strings, without any dependence on the lengths of the
 * inputs.  sv4_in() appends an INPUT string (key id, secret, region, ... -- registered in g_aws_in by the harness),
 * sv4_lit() a literal of this text, sv4_mem() a string whose length is fixed by this specification (date: 8,
 * timestamp: 16, hex digest: 64).
 *
 * The primitives are PARAMETERS of the specification (bound by harness/C19/c19.h to the spec side of the lockstep
 * trace abstraction):
 *   SV4_SHA256(msg, out32)   SV4_HMAC_S(key, msg, out32)   SV4_HMAC_B(key32, msg, out32)     msg, key: normal forms
 *
 * Domain: key ids, regions, services, buckets, methods, operation names over the URI-unreserved alphabet
 * (A-Z a-z 0-9 - . _ ~), paths over unreserved + '/', so that URI-encoding and header-value trimming are the
 * identity -- aws_sign.h documents that the interface does no encoding.  Where the published algorithm URI-encodes
 * an input, the spec calls sv4_uri_in(), which DEMANDS that the input is in that domain (SV4_DOMAIN obligation)
 * and appends it unchanged; an input outside the alphabet therefore shows up as a failed obligation, it is not
 * silently accepted.
 */
#ifndef SIGV4_SPEC_H_
#define SIGV4_SPEC_H_
#include <stddef.h>
#include <stdint.h>
#include "aws_stream.h"

#ifndef SV4_INMAX
#define SV4_INMAX 72		/* longest input string the domain check will scan */
#endif

#ifndef VERIF_NATIVE
#pragma CPROVER check push
#pragma CPROVER check disable "conversion"
#endif

typedef struct aws_stream sv4_str;

static int sv4_domain_ok = 1;	/* cleared when an input that must be URI-encoded is outside the identity domain */

#define sv4_init(B)		aws_stream_init(B)
#define sv4_c(B, c)		aws_stream_c((B), (uint8_t)(c))
#define sv4_mem(B, p, n)	aws_stream_mem((B), (p), (n))
#define sv4_cat(B, A)		aws_stream_cat((B), (A))
#define sv4_int(B, v)		aws_stream_int((B), (v))

/* a literal of the specification text */
static void
sv4_lit(sv4_str * B, const char * lit)
{
	size_t i;

	for (i = 0; i < AWS_TXMAX; i++) {
		if (lit[i] == '\0')
			return;
		sv4_c(B, lit[i]);
	}
}

/* an input string (must be registered: the specification never looks at its bytes) */
static void
sv4_in(sv4_str * B, const char * s)
{
	size_t k;

	for (k = 0; k < AWS_NIN; k++) {
		if (!g_aws_in[k].blob && g_aws_in[k].ptr != NULL && AWS_SAME_PTR(g_aws_in[k].ptr, s)) {
			aws_stream_ref(B, (int)k);
			return;
		}
	}
	AWS_ST_BOUND(0, "sv4_in: not a registered input string");
}

static int
sv4_unreserved(uint8_t c)
{

	return ((c >= 'A' && c <= 'Z') || (c >= 'a' && c <= 'z') || (c >= '0' && c <= '9') ||
	    c == '-' || c == '.' || c == '_' || c == '~');
}

/* UriEncode(input): the identity on the domain (checked), see the header comment */
static void
sv4_uri_in(sv4_str * B, const char * s, int is_path)
{
	size_t i;

	for (i = 0; i < SV4_INMAX; i++) {
		if (s[i] == '\0')
			break;
		if (!(sv4_unreserved((uint8_t)s[i]) || (is_path && s[i] == '/')))
			sv4_domain_ok = 0;
	}
	if (i == SV4_INMAX)
		sv4_domain_ok = 0;
	sv4_in(B, s);
}

/* a header value is trimmed and used verbatim: the identity on the domain (no blanks in the alphabet) */
#define sv4_hdrval_in(B, s) sv4_uri_in((B), (s), 0)

static uint8_t
sv4_hexdigit(unsigned v)
{

	return ((uint8_t)(v < 10 ? '0' + v : 'a' + (v - 10)));
}

/* HexEncode() of a 32-byte digest: lower-case base 16 */
static void
sv4_hex32(sv4_str * B, const uint8_t d[32])
{
	size_t i;

	for (i = 0; i < 32; i++) {
		sv4_c(B, sv4_hexdigit(d[i] >> 4));
		sv4_c(B, sv4_hexdigit(d[i] & 0x0f));
	}
}

/*
 * Signature = HexEncode(HMAC(kSigning, StringToSign)).  secret/region/service: inputs or literals; date, datetime,
 * creq: normal forms.  sighex receives the 64 hex characters and a NUL.
 */
static void
sv4_signature(const sv4_str * secret, const sv4_str * date, const sv4_str * datetime, const sv4_str * region,
    const sv4_str * service, const sv4_str * creq, char sighex[65])
{
	sv4_str key, m, sts, hx;
	uint8_t kDate[32], kRegion[32], kService[32], kSigning[32], hcreq[32], sig[32];
	size_t i;

	/* kDate = HMAC("AWS4" || Secret, Date) */
	sv4_init(&key);
	sv4_lit(&key, "AWS4");
	sv4_cat(&key, secret);
	SV4_HMAC_S(&key, date, kDate);
	/* kRegion = HMAC(kDate, Region) */
	SV4_HMAC_B(kDate, region, kRegion);
	/* kService = HMAC(kRegion, Service) */
	SV4_HMAC_B(kRegion, service, kService);
	/* kSigning = HMAC(kService, "aws4_request") */
	sv4_init(&m);
	sv4_lit(&m, "aws4_request");
	SV4_HMAC_B(kService, &m, kSigning);

	/* StringToSign */
	SV4_SHA256(creq, hcreq);
	sv4_init(&sts);
	sv4_lit(&sts, "AWS4-HMAC-SHA256");
	sv4_c(&sts, '\n');
	sv4_cat(&sts, datetime);
	sv4_c(&sts, '\n');
	sv4_cat(&sts, date);
	sv4_c(&sts, '/');
	sv4_cat(&sts, region);
	sv4_c(&sts, '/');
	sv4_cat(&sts, service);
	sv4_c(&sts, '/');
	sv4_lit(&sts, "aws4_request");
	sv4_c(&sts, '\n');
	sv4_hex32(&sts, hcreq);

	SV4_HMAC_B(kSigning, &sts, sig);
	sv4_init(&hx);
	sv4_hex32(&hx, sig);
	for (i = 0; i < 64; i++)
		sighex[i] = (char)hx.t[0].text[i];
	sighex[64] = '\0';
}

/* one signed header: lower-case name, value (already assembled, trimmed) */
struct sv4_header {
	const char * name;
	sv4_str value;
};

/*
 * CanonicalRequest for `nh` signed headers (given sorted by name), a path, an already canonical query string and
 * the payload line (hex of the payload hash, or UNSIGNED-PAYLOAD).  Also yields the SignedHeaders list.
 */
static void
sv4_canonical_request(sv4_str * creq, sv4_str * signed_headers, const sv4_str * method,
    const sv4_str * canonical_uri, const sv4_str * canonical_query, const struct sv4_header * h, size_t nh,
    const sv4_str * payload_line)
{
	size_t i;

	sv4_init(signed_headers);
	for (i = 0; i < nh; i++) {
		if (i > 0)
			sv4_c(signed_headers, ';');
		sv4_lit(signed_headers, h[i].name);
	}
	sv4_init(creq);
	sv4_cat(creq, method);
	sv4_c(creq, '\n');
	sv4_cat(creq, canonical_uri);
	sv4_c(creq, '\n');
	sv4_cat(creq, canonical_query);
	sv4_c(creq, '\n');
	for (i = 0; i < nh; i++) {
		sv4_lit(creq, h[i].name);
		sv4_c(creq, ':');
		sv4_cat(creq, &h[i].value);
		sv4_c(creq, '\n');
	}
	sv4_c(creq, '\n');
	sv4_cat(creq, signed_headers);
	sv4_c(creq, '\n');
	sv4_cat(creq, payload_line);
}

/* is s a timestamp of the form YYYYMMDD'T'HHMMSS'Z' (16 characters, then NUL)? */
static int
sv4_is_timestamp(const char * s)
{
	size_t i;
	int ok = 1;

	for (i = 0; i < 16; i++) {
		if (i == 8) {
			if (s[i] != 'T')
				ok = 0;
		} else if (i == 15) {
			if (s[i] != 'Z')
				ok = 0;
		} else if (!(s[i] >= '0' && s[i] <= '9'))
			ok = 0;
	}
	if (s[16] != '\0')
		ok = 0;
	return (ok);
}

/*
 * Header-signed request (S3, generic service, DynamoDB): the signed headers are host, x-amz-content-sha256,
 * x-amz-date and, when target != NULL, x-amz-target; the payload hash is SHA256(body).
 * `timestamp` = the 16 characters of the X-Amz-Date value; Date = its first 8 characters.
 * Yields the X-Amz-Content-SHA256 value and the Authorization header value.
 */
static void
sv4_headers_request(const char * key_id, const char * secret, const char * region, const sv4_str * service,
    const sv4_str * method, const sv4_str * canonical_uri, const sv4_str * host, const sv4_str * target,
    const sv4_str * body, const char * timestamp, sv4_str * content_sha256, sv4_str * authorization)
{
	struct sv4_header h[4];
	sv4_str creq, sh, noquery, sec, reg, date, datetime;
	uint8_t hbody[32];
	char sighex[65];
	size_t nh = 0;

	SV4_SHA256(body, hbody);
	sv4_init(content_sha256);
	sv4_hex32(content_sha256, hbody);

	sv4_init(&datetime);
	sv4_mem(&datetime, timestamp, 16);
	sv4_init(&date);
	sv4_mem(&date, timestamp, 8);

	h[nh].name = "host";
	h[nh].value = *host;
	nh++;
	h[nh].name = "x-amz-content-sha256";
	h[nh].value = *content_sha256;
	nh++;
	h[nh].name = "x-amz-date";
	h[nh].value = datetime;
	nh++;
	if (target != NULL) {
		h[nh].name = "x-amz-target";
		h[nh].value = *target;
		nh++;
	}
	sv4_init(&noquery);
	sv4_canonical_request(&creq, &sh, method, canonical_uri, &noquery, h, nh, content_sha256);

	sv4_init(&sec);
	sv4_in(&sec, secret);
	sv4_init(&reg);
	sv4_in(&reg, region);
	sv4_signature(&sec, &date, &datetime, &reg, service, &creq, sighex);

	sv4_init(authorization);
	sv4_lit(authorization, "AWS4-HMAC-SHA256 Credential=");
	sv4_in(authorization, key_id);
	sv4_c(authorization, '/');
	sv4_cat(authorization, &date);
	sv4_c(authorization, '/');
	sv4_in(authorization, region);
	sv4_c(authorization, '/');
	sv4_cat(authorization, service);
	sv4_lit(authorization, "/aws4_request,SignedHeaders=");
	sv4_cat(authorization, &sh);
	sv4_lit(authorization, ",Signature=");
	sv4_mem(authorization, sighex, 64);
}

/*
 * Presigned S3 URL (query-string authentication): the query string to append to
 * ${method} http://${bucket}.s3.amazonaws.com${path}? for the timestamp `timestamp` and lifetime `expiry`.
 * The query parameters are, sorted by name, X-Amz-Algorithm, X-Amz-Credential, X-Amz-Date, X-Amz-Expires,
 * X-Amz-SignedHeaders; values URI-encoded: the '/' separators of the credential become %2F (written out here as in
 * the S3 documentation), key id and region must be in the identity domain, date/timestamp/number are unreserved.
 */
static void
sv4_s3_presigned_query(const char * key_id, const char * secret, const char * region, const char * method,
    const char * bucket, const char * path, int expiry, const char * timestamp, sv4_str * query)
{
	struct sv4_header h[1];
	sv4_str creq, sh, cq, payload, sec, reg, svc, date, datetime, meth, uri;
	char sighex[65];

	sv4_init(&datetime);
	sv4_mem(&datetime, timestamp, 16);
	sv4_init(&date);
	sv4_mem(&date, timestamp, 8);

	/* canonical query string: parameters sorted by name */
	sv4_init(&cq);
	sv4_lit(&cq, "X-Amz-Algorithm=AWS4-HMAC-SHA256");
	sv4_lit(&cq, "&X-Amz-Credential=");
	sv4_uri_in(&cq, key_id, 0);
	sv4_lit(&cq, "%2F");
	sv4_cat(&cq, &date);
	sv4_lit(&cq, "%2F");
	sv4_uri_in(&cq, region, 0);
	sv4_lit(&cq, "%2F");
	sv4_lit(&cq, "s3");
	sv4_lit(&cq, "%2F");
	sv4_lit(&cq, "aws4_request");
	sv4_lit(&cq, "&X-Amz-Date=");
	sv4_cat(&cq, &datetime);
	sv4_lit(&cq, "&X-Amz-Expires=");
	sv4_int(&cq, expiry);
	sv4_lit(&cq, "&X-Amz-SignedHeaders=host");

	h[0].name = "host";
	sv4_init(&h[0].value);
	sv4_hdrval_in(&h[0].value, bucket);
	sv4_lit(&h[0].value, ".s3.amazonaws.com");
	sv4_init(&payload);
	sv4_lit(&payload, "UNSIGNED-PAYLOAD");
	sv4_init(&meth);
	sv4_in(&meth, method);
	sv4_init(&uri);
	sv4_uri_in(&uri, path, 1);
	sv4_canonical_request(&creq, &sh, &meth, &uri, &cq, h, 1, &payload);

	sv4_init(&sec);
	sv4_in(&sec, secret);
	sv4_init(&reg);
	sv4_in(&reg, region);
	sv4_init(&svc);
	sv4_lit(&svc, "s3");
	sv4_signature(&sec, &date, &datetime, &reg, &svc, &creq, sighex);

	sv4_init(query);
	sv4_cat(query, &cq);
	sv4_lit(query, "&X-Amz-Signature=");
	sv4_mem(query, sighex, 64);
}

#ifndef VERIF_NATIVE
#pragma CPROVER check pop
#endif

#endif /* !SIGV4_SPEC_H_ */
