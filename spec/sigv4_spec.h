/*
 * spec/sigv4_spec.h -- AWS Signature Version 4 as a specification, written from the published algorithm
 * ("Signing AWS API requests" / "Create a signed AWS API request", AWS General Reference; for S3: "Authenticating
 * Requests: Using the Authorization Header / Using Query Parameters (AWS Signature Version 4)"), independently of
 * aws/aws_sign.c: no printf-style formatting, strings are assembled piece by piece into bounded byte buffers.
 *
 *   CanonicalRequest = Method \n CanonicalURI \n CanonicalQueryString \n CanonicalHeaders \n SignedHeaders \n
 *                      HexEncode(Hash(Payload))                    (or the literal UNSIGNED-PAYLOAD for presigned S3 URLs)
 *     CanonicalURI         = URI-encoded path ('/' kept)
 *     CanonicalQueryString = name=value pairs, each URI-encoded ('/' -> %2F), sorted by name, joined by '&'
 *     CanonicalHeaders     = for each signed header, sorted by lower-case name:  name ':' trimmed-value '\n'
 *     SignedHeaders        = the lower-case names joined by ';'
 *   CredentialScope  = Date '/' Region '/' Service '/aws4_request'        Date = first 8 characters of the timestamp
 *   StringToSign     = "AWS4-HMAC-SHA256" \n Timestamp \n CredentialScope \n HexEncode(Hash(CanonicalRequest))
 *   kDate = HMAC("AWS4" || Secret, Date); kRegion = HMAC(kDate, Region); kService = HMAC(kRegion, Service);
 *   kSigning = HMAC(kService, "aws4_request");   Signature = HexEncode(HMAC(kSigning, StringToSign))
 *   Authorization: AWS4-HMAC-SHA256 Credential=<KeyId>/<CredentialScope>,SignedHeaders=<SignedHeaders>,Signature=<Signature>
 *
 * The two primitives are PARAMETERS of the specification:
 *   SV4_SHA256(msg, len, out32)            SV4_HMAC(key, klen, msg, len, out32)
 * In the proofs they are bound to the spec side of the lockstep trace abstraction (harness/C19/c19.h); in the native
 * self-test (harness/C19/native_selftest.sh) to a real SHA-256, to check this text against AWS's published example.
 *
 * Domain: key ids, regions, services, buckets, methods, operation names over the URI-unreserved alphabet
 * (A-Z a-z 0-9 - . _ ~), paths over unreserved + '/', so that URI-encoding and header-value trimming are the
 * identity -- aws_sign.h documents that the interface does no encoding.  The spec still encodes (sv4_uri), so an
 * input outside the alphabet would show up as a difference, not be silently accepted.
 */
#ifndef SIGV4_SPEC_H_
#define SIGV4_SPEC_H_
#include <stddef.h>
#include <stdint.h>

#ifndef SV4_MAX
#define SV4_MAX 320		/* capacity of a specification string */
#endif
#ifndef SV4_ARGMAX
#define SV4_ARGMAX 72		/* longest NUL-terminated argument the spec will scan */
#endif

#ifdef VERIF_NATIVE
#define SV4_BOUND(c, what) do { if (!(c)) { fprintf(stderr, "SPEC-BOUND %s\n", what); abort(); } } while (0)
#else
#define SV4_BOUND(c, what) do { __CPROVER_assert(c, "MODEL-BOUND sigv4_spec: " what); __CPROVER_assume(c); } while (0)
#endif

struct sv4_str {
	size_t n;
	uint8_t b[SV4_MAX];
};

static void
sv4_init(struct sv4_str * B)
{
	size_t i;

	B->n = 0;
	for (i = 0; i < SV4_MAX; i++)
		B->b[i] = 0;
}

static void
sv4_c(struct sv4_str * B, uint8_t c)
{

	SV4_BOUND(B->n < SV4_MAX, "specification string longer than SV4_MAX");
	B->b[B->n] = c;
	B->n++;
}

/* a literal of the specification text (NUL-terminated C string constant) */
static void
sv4_lit(struct sv4_str * B, const char * lit)
{
	size_t i;

	for (i = 0; i < SV4_ARGMAX; i++) {
		if (lit[i] == '\0')
			return;
		sv4_c(B, (uint8_t)lit[i]);
	}
	SV4_BOUND(0, "literal longer than SV4_ARGMAX");
}

/* a NUL-terminated argument, verbatim */
static void
sv4_cstr(struct sv4_str * B, const char * s)
{
	size_t i;

	for (i = 0; i < SV4_ARGMAX; i++) {
		if (s[i] == '\0')
			return;
		sv4_c(B, (uint8_t)s[i]);
	}
	SV4_BOUND(0, "argument longer than SV4_ARGMAX");
}

/* another specification string */
static void
sv4_cat(struct sv4_str * B, const struct sv4_str * A)
{
	size_t i;

	for (i = 0; i < SV4_MAX; i++)
		if (i < A->n)
			sv4_c(B, A->b[i]);
}

static int
sv4_unreserved(uint8_t c)
{

	return ((c >= 'A' && c <= 'Z') || (c >= 'a' && c <= 'z') || (c >= '0' && c <= '9') ||
	    c == '-' || c == '.' || c == '_' || c == '~');
}

static uint8_t
sv4_hexdigit(unsigned v, int upper)
{

	return ((uint8_t)(v < 10 ? '0' + v : (upper ? 'A' : 'a') + (v - 10)));
}

/* UriEncode(): unreserved characters verbatim, '/' verbatim only in a path, everything else %XY (upper-case hex) */
static void
sv4_uri(struct sv4_str * B, const struct sv4_str * A, int is_path)
{
	size_t i;

	for (i = 0; i < SV4_MAX; i++) {
		if (i >= A->n)
			break;
		if (sv4_unreserved(A->b[i]) || (is_path && A->b[i] == '/'))
			sv4_c(B, A->b[i]);
		else {
			sv4_c(B, '%');
			sv4_c(B, sv4_hexdigit(A->b[i] >> 4, 1));
			sv4_c(B, sv4_hexdigit(A->b[i] & 0x0f, 1));
		}
	}
}

static void
sv4_uri_cstr(struct sv4_str * B, const char * s, int is_path)
{
	struct sv4_str A;

	sv4_init(&A);
	sv4_cstr(&A, s);
	sv4_uri(B, &A, is_path);
}

/* HexEncode() of a 32-byte digest: lower-case base 16 */
static void
sv4_hex32(struct sv4_str * B, const uint8_t d[32])
{
	size_t i;

	for (i = 0; i < 32; i++) {
		sv4_c(B, sv4_hexdigit(d[i] >> 4, 0));
		sv4_c(B, sv4_hexdigit(d[i] & 0x0f, 0));
	}
}

/* the decimal numeral of an integer with |v| < 10^10 (X-Amz-Expires is a C int): optional '-', no leading zeros */
static void
sv4_dec(struct sv4_str * B, long long v)
{
	static const unsigned long long pow10[11] = { 1ULL, 10ULL, 100ULL, 1000ULL, 10000ULL, 100000ULL, 1000000ULL,
	    10000000ULL, 100000000ULL, 1000000000ULL, 10000000000ULL };
	unsigned long long u = (v < 0) ? 0ULL - (unsigned long long)v : (unsigned long long)v;
	size_t i;

	SV4_BOUND(u < pow10[10], "decimal numeral of more than 10 digits");
	if (v < 0)
		sv4_c(B, '-');
	/* digit i (weight 10^i) is printed iff i == 0 or u >= 10^i; most significant first */
	for (i = 10; i-- > 0; )
		if (i == 0 || u >= pow10[i])
			sv4_c(B, (uint8_t)('0' + (u / pow10[i]) % 10));
}

/*
 * Signature = HexEncode(HMAC(kSigning, StringToSign)).  date/datetime/region/service NUL-terminated; creq is the
 * canonical request.  sighex receives the 64 hex characters and a NUL.
 */
static void
sv4_signature(const char * secret, const char * date, const char * datetime, const char * region,
    const char * service, const struct sv4_str * creq, char sighex[65])
{
	struct sv4_str key, m, sts, hx;
	uint8_t kDate[32], kRegion[32], kService[32], kSigning[32], hcreq[32], sig[32];
	size_t i;

	/* kDate = HMAC("AWS4" || Secret, Date) */
	sv4_init(&key);
	sv4_lit(&key, "AWS4");
	sv4_cstr(&key, secret);
	sv4_init(&m);
	sv4_cstr(&m, date);
	SV4_HMAC(key.b, key.n, m.b, m.n, kDate);
	/* kRegion = HMAC(kDate, Region) */
	sv4_init(&m);
	sv4_cstr(&m, region);
	SV4_HMAC(kDate, 32, m.b, m.n, kRegion);
	/* kService = HMAC(kRegion, Service) */
	sv4_init(&m);
	sv4_cstr(&m, service);
	SV4_HMAC(kRegion, 32, m.b, m.n, kService);
	/* kSigning = HMAC(kService, "aws4_request") */
	sv4_init(&m);
	sv4_lit(&m, "aws4_request");
	SV4_HMAC(kService, 32, m.b, m.n, kSigning);

	/* StringToSign */
	SV4_SHA256(creq->b, creq->n, hcreq);
	sv4_init(&sts);
	sv4_lit(&sts, "AWS4-HMAC-SHA256");
	sv4_c(&sts, '\n');
	sv4_cstr(&sts, datetime);
	sv4_c(&sts, '\n');
	sv4_cstr(&sts, date);
	sv4_c(&sts, '/');
	sv4_cstr(&sts, region);
	sv4_c(&sts, '/');
	sv4_cstr(&sts, service);
	sv4_c(&sts, '/');
	sv4_lit(&sts, "aws4_request");
	sv4_c(&sts, '\n');
	sv4_hex32(&sts, hcreq);

	SV4_HMAC(kSigning, 32, sts.b, sts.n, sig);
	sv4_init(&hx);
	sv4_hex32(&hx, sig);
	for (i = 0; i < 64; i++)
		sighex[i] = (char)hx.b[i];
	sighex[64] = '\0';
}

/* one signed header: lower-case name, value (already assembled, trimmed) */
struct sv4_header {
	const char * name;
	struct sv4_str value;
};

/*
 * CanonicalRequest for `nh` signed headers (given sorted by name), a path, an already canonical query string and
 * the payload line (hex of the payload hash, or UNSIGNED-PAYLOAD).  Also yields the SignedHeaders list.
 */
static void
sv4_canonical_request(struct sv4_str * creq, struct sv4_str * signed_headers, const char * method,
    const char * path, const struct sv4_str * canonical_query, const struct sv4_header * h, size_t nh,
    const struct sv4_str * payload_line)
{
	size_t i;

	sv4_init(signed_headers);
	for (i = 0; i < nh; i++) {
		if (i > 0)
			sv4_c(signed_headers, ';');
		sv4_lit(signed_headers, h[i].name);
	}
	sv4_init(creq);
	sv4_cstr(creq, method);
	sv4_c(creq, '\n');
	sv4_uri_cstr(creq, path, 1);
	sv4_c(creq, '\n');
	sv4_cat(creq, canonical_query);
	sv4_c(creq, '\n');
	for (i = 0; i < nh; i++) {
		sv4_lit(creq, h[i].name);
		sv4_c(creq, ':');
		sv4_cat(creq, &h[i].value);
		sv4_c(creq, '\n');
	}
	sv4_c(creq, '\n');
	sv4_cat(creq, signed_headers);
	sv4_c(creq, '\n');
	sv4_cat(creq, payload_line);
}

/* Date = first 8 characters of the ISO-8601 basic timestamp YYYYMMDD'T'HHMMSS'Z' */
static void
sv4_date_of(const char * datetime, char date[9])
{
	size_t i;

	for (i = 0; i < 8; i++)
		date[i] = datetime[i];
	date[8] = '\0';
}

/* is s a timestamp of the form YYYYMMDD'T'HHMMSS'Z' (16 characters)? */
static int
sv4_is_timestamp(const char * s)
{
	size_t i;

	for (i = 0; i < 16; i++) {
		if (i == 8) {
			if (s[i] != 'T')
				return (0);
		} else if (i == 15) {
			if (s[i] != 'Z')
				return (0);
		} else if (!(s[i] >= '0' && s[i] <= '9'))
			return (0);
	}
	return (s[16] == '\0');
}

/*
 * Header-signed request (S3, generic service, DynamoDB): the signed headers are host, x-amz-content-sha256,
 * x-amz-date and, when target != NULL, x-amz-target; the payload hash is SHA256(body) (empty when body == NULL).
 * Yields the X-Amz-Content-SHA256 value and the Authorization header value for the timestamp `datetime`.
 */
static void
sv4_headers_request(const char * key_id, const char * secret, const char * region, const char * service,
    const char * method, const char * path, const struct sv4_str * host, const struct sv4_str * target,
    const uint8_t * body, size_t bodylen, const char * datetime,
    struct sv4_str * content_sha256, struct sv4_str * authorization)
{
	struct sv4_header h[4];
	struct sv4_str creq, sh, noquery;
	uint8_t hbody[32];
	char date[9], sighex[65];
	size_t nh = 0, i;

	SV4_SHA256(body, (body != NULL) ? bodylen : 0, hbody);
	sv4_init(content_sha256);
	sv4_hex32(content_sha256, hbody);

	h[nh].name = "host";
	h[nh].value = *host;
	nh++;
	h[nh].name = "x-amz-content-sha256";
	h[nh].value = *content_sha256;
	nh++;
	h[nh].name = "x-amz-date";
	sv4_init(&h[nh].value);
	sv4_cstr(&h[nh].value, datetime);
	nh++;
	if (target != NULL) {
		h[nh].name = "x-amz-target";
		h[nh].value = *target;
		nh++;
	}
	sv4_init(&noquery);
	sv4_canonical_request(&creq, &sh, method, path, &noquery, h, nh, content_sha256);

	sv4_date_of(datetime, date);
	sv4_signature(secret, date, datetime, region, service, &creq, sighex);

	sv4_init(authorization);
	sv4_lit(authorization, "AWS4-HMAC-SHA256 Credential=");
	sv4_cstr(authorization, key_id);
	sv4_c(authorization, '/');
	sv4_cstr(authorization, date);
	sv4_c(authorization, '/');
	sv4_cstr(authorization, region);
	sv4_c(authorization, '/');
	sv4_cstr(authorization, service);
	sv4_lit(authorization, "/aws4_request,SignedHeaders=");
	sv4_cat(authorization, &sh);
	sv4_lit(authorization, ",Signature=");
	for (i = 0; i < 64; i++)
		sv4_c(authorization, (uint8_t)sighex[i]);
}

/*
 * Presigned S3 URL (query-string authentication): the query string to append to
 * ${method} http://${bucket}.s3.amazonaws.com${path}? for the timestamp `datetime` and lifetime `expiry`.
 */
static void
sv4_s3_presigned_query(const char * key_id, const char * secret, const char * region, const char * method,
    const char * bucket, const char * path, long long expiry, const char * datetime, struct sv4_str * query)
{
	struct sv4_header h[1];
	struct sv4_str creq, sh, cq, cred, payload;
	char date[9], sighex[65];
	size_t i;

	sv4_date_of(datetime, date);

	/* Credential = KeyId/Date/Region/s3/aws4_request, URI-encoded as a query value */
	sv4_init(&cred);
	sv4_cstr(&cred, key_id);
	sv4_c(&cred, '/');
	sv4_cstr(&cred, date);
	sv4_c(&cred, '/');
	sv4_cstr(&cred, region);
	sv4_lit(&cred, "/s3/aws4_request");

	/* canonical query string: parameters sorted by name */
	sv4_init(&cq);
	sv4_lit(&cq, "X-Amz-Algorithm=AWS4-HMAC-SHA256");
	sv4_lit(&cq, "&X-Amz-Credential=");
	sv4_uri(&cq, &cred, 0);
	sv4_lit(&cq, "&X-Amz-Date=");
	sv4_uri_cstr(&cq, datetime, 0);
	sv4_lit(&cq, "&X-Amz-Expires=");
	sv4_dec(&cq, expiry);
	sv4_lit(&cq, "&X-Amz-SignedHeaders=host");

	h[0].name = "host";
	sv4_init(&h[0].value);
	sv4_cstr(&h[0].value, bucket);
	sv4_lit(&h[0].value, ".s3.amazonaws.com");
	sv4_init(&payload);
	sv4_lit(&payload, "UNSIGNED-PAYLOAD");
	sv4_canonical_request(&creq, &sh, method, path, &cq, h, 1, &payload);

	sv4_signature(secret, date, datetime, region, "s3", &creq, sighex);

	sv4_init(query);
	sv4_cat(query, &cq);
	sv4_lit(query, "&X-Amz-Signature=");
	for (i = 0; i < 64; i++)
		sv4_c(query, (uint8_t)sighex[i]);
}

#endif /* !SIGV4_SPEC_H_ */
