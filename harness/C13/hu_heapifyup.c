/* VERIF-GROUP
{
 "property": ["C13"],
 "entry": "h_heapifyup",
 "enforce": ["heapifyup"],
 "replace": ["swap"],
 "annotate": ["datastruct/ptrheap.c", "datastruct/elasticarray.c"],
 "specs": {"datastruct/ptrheap.c": "contracts/c13_ptrheap_unbounded.spec",
           "datastruct/elasticarray.c": "contracts/c13_elasticarray_bounds.spec"},
 "defines": ["VERIF_HALLOC", "HU_CAP=32"],
 "cbmc": ["--arrays-uf-always"],
 "timeout": 900,
 "assumptions": ["abstract user of harness/C13/hu_model.h (elements are pointers into one object pool; callbacks compute the record id from the pointer)",
                 "object-size parameter: the pointer-list buffer holds at most HU_CAP = 32 slots (nelems is symbolic up to that); no loop is unwound, the sift loop is closed by its loop contract",
                 "ghost-instantiated preconditions: the requires clause states the instances of the for-all precondition at the ghost slot / ghost record; callers that hold the for-all fact hold every instance",
                 "swap is replaced by its contract (enforced in hu_swap)"]
}
*/
#include "hu_model.h"

void
h_heapifyup(void)
{
	HU_MK_LIST(L);
	IN(int, use_rc);
	IN(size_t, gk); IN(size_t, gr); IN(int, gt);
	g_hu_k = gk; g_hu_r = gr; g_hu_track = gt;
	__CPROVER_havoc_object(hu_key); __CPROVER_havoc_object(hu_pos);
	{ IN(int, mag); hu_mag = mag; }
	IN(size_t, i);

	heapifyup(L, i, hu_compar_p, use_rc ? hu_setrc_p : NULL, NULL);

	VCOVER(use_rc && g_hu_track && n == HU_CAP && i == n - 1 && g_hu_k == HP_PAR(i));
	VCOVER(!use_rc && i > 6 && g_hu_k == 2 * i + 1 && g_hu_k < n);
	VCOVER(i == 0 && n > 1 && g_hu_k == 1);
}
