/* VERIF-GROUP
{
 "property": ["C13", "C14"],
 "entry": "h_timerqueue_add",
 "enforce": ["timerqueue_add"],
 "replace": [],
 "annotate": ["datastruct/timerqueue.c", "datastruct/elasticarray.c"],
 "specs": {"datastruct/elasticarray.c": "contracts/c13_elasticarray_bounds.spec"},
 "models": ["models/heap_realloc.c", "models/heap_memcpy.c"],
 "defines": ["VERIF_HALLOC", "HP_TARGET_TIMERQUEUE", "HP_MAXN=7"],
 "thorough_defines": ["HP_MAXN=15"],
 "loop_contracts": false,
 "cbmc": ["--unwindset", "heapify.0:5,heapifyup.0:5", "--malloc-may-fail", "--malloc-fail-null", "--memory-leak-check"],
 "unwind": 9, "thorough_unwind": 17,
 "bounded": true, "bound": "timer queues with <= 7 entries (quick) / <= 15 (thorough); all loops fully unwound",
 "timeout": 600, "thorough_timeout": 3600,
 "assumptions": ["ptrheap.c and elasticarray.c are inlined (real code); real struct timerrec, compar, setreccookie",
                 "slot k of the initial queue holds record object R[k]: symmetry reduction (records are interchangeable fresh objects, the code never inspects record addresses)",
                 "ghost bounds assertions in elasticarray.c (contracts/c13_elasticarray_bounds.spec); the pointer-list buffer is a heap object of constant capacity >= alloc",
                 "models/heap_realloc.c (C11 realloc, capacity-based), models/heap_memcpy.c (typed copy of one pointer / one timeval)"]
}
*/
#include "hp_model.h"

void
h_timerqueue_add(void)
{
	HP_MK_LIST(H_l, n, 1);
	struct timerqueue * Q = malloc(sizeof(struct timerqueue));
	__CPROVER_assume(Q != NULL);
	HP_MK_HEAP(H, n, Q, 1);
	Q->H = H;
	struct timeval * tv = malloc(sizeof(struct timeval));
	__CPROVER_assume(tv != NULL);
	IN(size_t, gsel);
	__CPROVER_assume(gsel < HP_MAXN);
	g_hp_ptr = R[gsel];
	void * ptr;		/* arbitrary, never dereferenced */
	void * buf0 = H_l_ea->buf;
	struct timerrec * r;

	r = timerqueue_add(Q, tv, ptr);

	__CPROVER_assert(r != NULL || (H->nelems == n && H_l_ea->buf == buf0 && H_l_ea->size == n * sizeof(void *) &&
	    H_l_ea->alloc == H_l_alloc), "failed add leaves the queue as it was");
	VCOVER(r != NULL && n == HP_MAXN - 1 && r->rc == 0);
	VCOVER(r != NULL && n >= 3 && r->rc == n && H_l_ea->buf != buf0);
	VCOVER(r == NULL && n > 0);
	VCOVER(r != NULL && n == 0);
	/* release everything: the memory-leak obligation shows a failed add left nothing behind */
	free(r); free(tv);
	free(HP_EA(H->elems)->buf); free(H->elems); free(H); free(Q);
	HP_FREE_RECS();
}
