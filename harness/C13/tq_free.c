/* VERIF-GROUP
{
 "property": ["C13", "C14"],
 "entry": "h_timerqueue_free",
 "enforce": ["timerqueue_free"],
 "replace": [],
 "annotate": ["datastruct/timerqueue.c", "datastruct/elasticarray.c"],
 "specs": {"datastruct/elasticarray.c": "contracts/c13_elasticarray_bounds.spec"},
 "models": ["models/heap_realloc.c", "models/heap_memcpy.c"],
 "defines": ["VERIF_HALLOC", "HP_TARGET_TIMERQUEUE", "HP_MAXN=5"],
 "thorough_defines": ["HP_MAXN=7"],
 "loop_contracts": false,
 "cbmc": ["--unwindset", "heapify.0:5,heapifyup.0:5", "--malloc-may-fail", "--malloc-fail-null", "--memory-leak-check"],
 "unwind": 7, "thorough_unwind": 9,
 "bounded": true, "bound": "timer queues with <= 5 entries (quick) / <= 7 (thorough); all loops fully unwound",
 "timeout": 600, "thorough_timeout": 3600,
 "assumptions": ["ptrheap.c and elasticarray.c are inlined (real code); real struct timerrec, compar, setreccookie",
                 "slot k of the initial queue holds record object R[k]: symmetry reduction (records are interchangeable fresh objects, the code never inspects record addresses)",
                 "ghost bounds assertions in elasticarray.c (contracts/c13_elasticarray_bounds.spec); the pointer-list buffer is a heap object of constant capacity >= alloc",
                 "models/heap_realloc.c (C11 realloc, capacity-based), models/heap_memcpy.c (typed copy of one pointer / one timeval)"]
}
*/
#include "hp_model.h"

void
h_timerqueue_free(void)
{
	HP_MK_LIST(H_l, n, 1);
	struct timerqueue * Q = malloc(sizeof(struct timerqueue));
	__CPROVER_assume(Q != NULL);
	HP_MK_HEAP(H, n, Q, 1);
	Q->H = H;
	IN(int, isnull);

	timerqueue_free(isnull ? NULL : Q);

	VCOVER(isnull);
	VCOVER(!isnull && n == HP_MAXN);
	VCOVER(!isnull && n == 0 && H_l_alloc > 0);
	/* the queue owns its records: after timerqueue_free only what never belonged to it is still live */
	for (size_t k_ = 0; k_ < HP_MAXN; k_++)
		if (k_ >= n || isnull)
			free(R[k_]);
	if (isnull) { free(H_l_ea->buf); free(H_l_ea); free(H); free(Q); }
}
