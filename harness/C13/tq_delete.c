/* VERIF-GROUP
{
 "property": ["C13", "C14"],
 "entry": "h_timerqueue_delete",
 "enforce": ["timerqueue_delete"],
 "replace": [],
 "annotate": ["datastruct/timerqueue.c", "datastruct/elasticarray.c"],
 "specs": {"datastruct/elasticarray.c": "contracts/c13_elasticarray_bounds.spec"},
 "models": ["models/heap_realloc.c", "models/heap_memcpy.c"],
 "defines": ["VERIF_HALLOC", "HP_TARGET_TIMERQUEUE", "HP_MAXN=7"],
 "thorough_defines": ["HP_MAXN=15"],
 "loop_contracts": false,
 "cbmc": ["--unwindset", "heapify.0:5,heapifyup.0:5", "--malloc-may-fail", "--malloc-fail-null", "--memory-leak-check"],
 "unwind": 9, "thorough_unwind": 17,
 "bounded": true, "bound": "timer queues with <= 7 entries (quick) / <= 15 (thorough); all loops fully unwound",
 "timeout": 600, "thorough_timeout": 3600,
 "assumptions": ["ptrheap.c and elasticarray.c are inlined (real code); real struct timerrec, compar, setreccookie",
                 "slot k of the initial queue holds record object R[k]: symmetry reduction (records are interchangeable fresh objects, the code never inspects record addresses)",
                 "ghost bounds assertions in elasticarray.c (contracts/c13_elasticarray_bounds.spec); the pointer-list buffer is a heap object of constant capacity >= alloc",
                 "models/heap_realloc.c (C11 realloc, capacity-based), models/heap_memcpy.c (typed copy of one pointer / one timeval)"]
}
*/
#include "hp_model.h"

void
h_timerqueue_delete(void)
{
	HP_MK_LIST(H_l, n, 1);
	struct timerqueue * Q = malloc(sizeof(struct timerqueue));
	__CPROVER_assume(Q != NULL);
	HP_MK_HEAP(H, n, Q, 1);
	Q->H = H;
	IN(size_t, gsel);
	__CPROVER_assume(gsel < HP_MAXN);
	g_hp_ptr = R[gsel];
	IN(size_t, csel);
	__CPROVER_assume(csel < HP_MAXN);
	struct timerrec * cookie = R[csel];
	struct timerrec * last = (n > 0) ? R[n - 1] : NULL;

	timerqueue_delete(Q, cookie);

	/* interior deletion: the last record moved into the hole and then up / down */
	VCOVER(csel >= 3 && csel < n - 1 && last->rc < csel);
	VCOVER(csel == 0 && n == HP_MAXN && last->rc >= 3);
	VCOVER(csel == n - 1 && n > 1);
	VCOVER(n == 1);
	/* the cookie was released by the call (a second free would be reported, a missing one leaks) */
	for (size_t k_ = 0; k_ < HP_MAXN; k_++)
		if (k_ != csel)
			free(R[k_]);
	free(HP_EA(H->elems)->buf); free(H->elems); free(H); free(Q);
}
