/* VERIF-GROUP
{
 "property": ["C13", "C14"],
 "entry": "h_ptrheap_delete",
 "enforce": ["ptrheap_delete"],
 "replace": [],
 "annotate": ["datastruct/ptrheap.c", "datastruct/elasticarray.c"],
 "specs": {"datastruct/elasticarray.c": "contracts/c13_elasticarray_bounds.spec"},
 "models": ["models/heap_realloc.c", "models/heap_memcpy.c"],
 "defines": ["VERIF_HALLOC", "HP_TARGET_PTRHEAP", "HP_ANYLAYOUT", "HP_MAXN=4"],
 "thorough_defines": ["HP_MAXN=5"],
 "matrix": {"HP_MODEL": [1]},
 "loop_contracts": false,
 "cbmc": ["--unwindset", "heapify.0:5,heapifyup.0:5", "--malloc-may-fail", "--malloc-fail-null", "--memory-leak-check"],
 "unwind": 6, "thorough_unwind": 7,
 "bounded": true, "bound": "heaps with <= 4 elements (quick) / <= 5 (thorough), arbitrary slot -> record map incl. duplicate pointers; all loops fully unwound",
 "timeout": 600, "thorough_timeout": 3600,
 "assumptions": ["HP_MODEL=1: abstract user callbacks of harness/C13/hp_model.h; HP_MODEL=2: real struct timerrec, compar, setreccookie of timerqueue.c",
                 "slot k of the initial heap holds record object R[k]: symmetry reduction, sound for distinct elements because ptrheap.c never inspects element pointers (arbitrary layouts incl. duplicate pointers: groups *_any at 4 elements)",
                 "elasticarray.c is inlined (real code) with ghost bounds assertions (contracts/c13_elasticarray_bounds.spec); the pointer-list buffer is a heap object of constant capacity >= alloc, accesses are checked against the logical size, not the capacity",
                 "models/heap_realloc.c (C11 realloc, capacity-based), models/heap_memcpy.c (typed copy of one pointer / one timeval)"]
}
*/
#include "hp_model.h"

void
h_ptrheap_delete(void)
{
	HP_USE_RC_DECL(use_rc);
	HP_MK_LIST(H_l, n, use_rc);
	HP_MK_COOKIE(ck);
	HP_MK_HEAP(H, n, ck, use_rc);
	IN(size_t, rc);
	IN(size_t, gsel);
	__CPROVER_assume(gsel < HP_MAXN);
	g_hp_ptr = R[gsel];
	void * last = (n > 0) ? H_l_buf[n - 1] : NULL;
	void * buf0 = H_l_ea->buf;

	ptrheap_delete(H, rc);

	/* interior deletion: the last element moved into the hole and then up / down / stayed */
	VCOVER(use_rc && rc == 1 && n == 4 && HP_POS(last) == 1);
	VCOVER(use_rc && rc == 0 && n == HP_MAXN && HP_POS(last) >= 1);
	VCOVER1(!use_rc && rc == n - 1 && n > 1);
	VCOVER(n == 1);
	VCOVER(n == 2 && H_l_ea->buf != buf0 && H_l_ea->buf != NULL);	/* the shrinking realloc moved the buffer */
	/* release everything with the normal calls: the memory-leak obligation shows nothing else is live */
	free(HP_EA(H->elems)->buf); free(H->elems); free(H); free(ck);
	HP_FREE_RECS();
}
