/* VERIF-GROUP
{
 "property": ["C13", "C14"],
 "entry": "h_ptrheap_add",
 "enforce": ["ptrheap_add"],
 "replace": [],
 "annotate": ["datastruct/ptrheap.c", "datastruct/elasticarray.c"],
 "specs": {"datastruct/elasticarray.c": "contracts/c13_elasticarray_bounds.spec"},
 "models": ["models/heap_realloc.c", "models/heap_memcpy.c"],
 "defines": ["VERIF_HALLOC", "HP_TARGET_PTRHEAP", "HP_MAXN=7"],
 "thorough_defines": ["HP_MAXN=15"],
 "matrix": {"HP_MODEL": [1, 2]},
 "loop_contracts": false,
 "cbmc": ["--unwindset", "heapify.0:5,heapifyup.0:5", "--malloc-may-fail", "--malloc-fail-null", "--memory-leak-check"],
 "unwind": 9, "thorough_unwind": 17,
 "bounded": true, "bound": "heaps with <= 7 elements (quick) / <= 15 (thorough); all loops fully unwound",
 "timeout": 600, "thorough_timeout": 3600,
 "assumptions": ["HP_MODEL=1: abstract user callbacks of harness/C13/hp_model.h; HP_MODEL=2: real struct timerrec, compar, setreccookie of timerqueue.c",
                 "slot k of the initial heap holds record object R[k]: symmetry reduction, sound for distinct elements because ptrheap.c never inspects element pointers (arbitrary layouts incl. duplicate pointers: groups *_any at 4 elements)",
                 "elasticarray.c is inlined (real code) with ghost bounds assertions (contracts/c13_elasticarray_bounds.spec); the pointer-list buffer is a heap object of constant capacity >= alloc, accesses are checked against the logical size, not the capacity",
                 "models/heap_realloc.c (C11 realloc, capacity-based), models/heap_memcpy.c (typed copy of one pointer / one timeval)"]
}
*/
#include "hp_model.h"

void
h_ptrheap_add(void)
{
	HP_USE_RC_DECL(use_rc);
	HP_MK_LIST(H_l, n, use_rc);
	HP_MK_COOKIE(ck);
	HP_MK_HEAP(H, n, ck, use_rc);
	IN(size_t, psel);
	__CPROVER_assume(psel < HP_MAXN);
	void * ptr = R[psel];		/* with handles the contract requires it not to be in the heap already */
	IN(size_t, gsel);
	__CPROVER_assume(gsel < HP_MAXN);
	g_hp_ptr = R[gsel];
	void * buf0 = H_l_ea->buf;
	int rc;

	rc = ptrheap_add(H, ptr);

	__CPROVER_assert(rc == 0 || (H->nelems == n && H_l_ea->buf == buf0 && H_l_ea->size == n * sizeof(void *) &&
	    H_l_ea->alloc == H_l_alloc), "failed add leaves the heap as it was");
	VCOVER(rc == 0 && use_rc && n == HP_MAXN - 1 && HP_E(H->elems, 0) == ptr);
	VCOVER(rc == 0 && n >= 3 && HP_E(H->elems, n) == ptr && H_l_ea->buf != buf0);	/* stayed at the bottom, list reallocated */
	VCOVER(rc == -1 && n > 0 && use_rc);
	VCOVER(rc == 0 && n == 0);
	/* release everything with the normal calls: the memory-leak obligation shows nothing else is live */
	free(HP_EA(H->elems)->buf); free(H->elems); free(H); free(ck);
	HP_FREE_RECS();
}
