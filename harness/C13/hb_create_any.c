/* VERIF-GROUP
{
 "property": ["C13", "C14"],
 "entry": "h_ptrheap_create",
 "enforce": ["ptrheap_create"],
 "replace": [],
 "annotate": ["datastruct/ptrheap.c", "datastruct/elasticarray.c"],
 "specs": {"datastruct/elasticarray.c": "contracts/c13_elasticarray_bounds.spec"},
 "models": ["models/heap_realloc.c", "models/heap_memcpy.c"],
 "defines": ["VERIF_HALLOC", "HP_TARGET_PTRHEAP", "HP_ANYLAYOUT", "HP_MAXN=4"],
 "thorough_defines": ["HP_MAXN=5"],
 "matrix": {"HP_MODEL": [1]},
 "loop_contracts": false,
 "cbmc": ["--unwindset", "heapify.0:5,heapifyup.0:5", "--malloc-may-fail", "--malloc-fail-null", "--memory-leak-check"],
 "unwind": 6, "thorough_unwind": 7,
 "bounded": true, "bound": "heaps with <= 4 elements (quick) / <= 5 (thorough), arbitrary slot -> record map incl. duplicate pointers; all loops fully unwound",
 "timeout": 600, "thorough_timeout": 3600,
 "assumptions": ["HP_MODEL=1: abstract user callbacks of harness/C13/hp_model.h; HP_MODEL=2: real struct timerrec, compar, setreccookie of timerqueue.c",
                 "slot k of the initial heap holds record object R[k]: symmetry reduction, sound for distinct elements because ptrheap.c never inspects element pointers (arbitrary layouts incl. duplicate pointers: groups *_any at 4 elements)",
                 "elasticarray.c is inlined (real code) with ghost bounds assertions (contracts/c13_elasticarray_bounds.spec); the pointer-list buffer is a heap object of constant capacity >= alloc, accesses are checked against the logical size, not the capacity",
                 "models/heap_realloc.c (C11 realloc, capacity-based), models/heap_memcpy.c (typed copy of one pointer / one timeval)"]
}
*/
#include "hp_model.h"

void
h_ptrheap_create(void)
{
	HP_USE_RC_DECL(use_rc);
	IN(size_t, N);
	__CPROVER_assume(N <= HP_MAXN);
	void ** ptrs = malloc(HP_MAXN * sizeof(void *));	/* capacity HP_MAXN, the contract speaks about ptrs[0..N) only */
	__CPROVER_assume(ptrs != NULL);
	hp_rec_t * R[HP_MAXN];
	for (size_t k_ = 0; k_ < HP_MAXN; k_++) {
		R[k_] = malloc(sizeof(hp_rec_t));
		__CPROVER_assume(R[k_] != NULL);
	}
	for (size_t k_ = 0; k_ < HP_MAXN; k_++) {
		if (k_ < N)
			ptrs[k_] = R[HP_SEL_(k_)];
	}
	HP_MK_COOKIE(ck);
	IN(size_t, gsel);
	__CPROVER_assume(gsel < HP_MAXN);
	g_hp_ptr = R[gsel];
	struct ptrheap * H;

	H = ptrheap_create(HP_COMPAR, use_rc ? HP_SETRC : NULL, ck, N, ptrs);

	VCOVER(H != NULL && use_rc && N == HP_MAXN && HP_E(H->elems, 0) == ptrs[HP_MAXN - 1]);
	VCOVER1(H != NULL && !use_rc && N >= 3 && HP_E(H->elems, 0) == ptrs[0]);
	VCOVER(H == NULL && N > 1);
	VCOVER(H != NULL && N == 0);
	/* release everything with the normal calls: the memory-leak obligation shows nothing else is live */
	ptrheap_free(H);
	free(ptrs); free(ck);
	HP_FREE_RECS();
}
