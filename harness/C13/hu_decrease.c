/* VERIF-GROUP
{
 "property": ["C13"],
 "entry": "h_ptrheap_decrease",
 "enforce": ["ptrheap_decrease"],
 "replace": ["heapifyup"],
 "annotate": ["datastruct/ptrheap.c", "datastruct/elasticarray.c"],
 "specs": {"datastruct/ptrheap.c": "contracts/c13_ptrheap_unbounded.spec",
           "datastruct/elasticarray.c": "contracts/c13_elasticarray_bounds.spec"},
 "defines": ["VERIF_HALLOC", "HU_CAP=32", "HEAP_RA_CAPSLOTS=64", "HEAP_RA_OLDCAPSLOTS=32"],
 "models": ["models/heap_realloc.c", "models/heap_memcpy.c"],
 "cbmc": ["--arrays-uf-always"],
 "timeout": 900,
 "assumptions": ["abstract user of harness/C13/hu_model.h (elements are pointers into one object pool; callbacks compute the record id from the pointer)",
                 "object-size parameter: the pointer-list buffer holds at most HU_CAP = 32 slots (nelems is symbolic up to that); no loop is unwound, the sift loop is closed by its loop contract",
                 "ghost-instantiated preconditions: the requires clause states the instances of the for-all precondition at the ghost slot / ghost record; callers that hold the for-all fact hold every instance",
                 "swap / heapifyup / heapify are replaced by their contracts (enforced in hu_swap, hu_heapifyup, hu_heapify); elasticarray.c inlined with the capacity-based realloc model"]
}
*/
#include "hu_model.h"

void
h_ptrheap_decrease(void)
{
	HU_MK_LIST(L);
	IN(int, use_rc);
	IN(size_t, gk); IN(size_t, gr); IN(int, gt);
	g_hu_k = gk; g_hu_r = gr; g_hu_track = gt;
	__CPROVER_havoc_object(hu_key); __CPROVER_havoc_object(hu_pos);
	{ IN(int, mag); hu_mag = mag; }
	struct ptrheap * H = malloc(sizeof(struct ptrheap));
	__CPROVER_assume(H != NULL);
	H->compar = hu_compar_p; H->setreccookie = use_rc ? hu_setrc_p : NULL; H->elems = L;
	IN(int, empty_alloc);
	if (empty_alloc) { free(L_buf); L_ea->buf = NULL; }
	g_heap_ra_buf = L_ea->buf; g_heap_ra_size = L_ea->alloc;
	IN(size_t, rc);

	ptrheap_decrease(H, rc);

	VCOVER(use_rc && g_hu_track && H->nelems == HU_CAP && rc == HU_CAP - 1 && g_hu_k == HP_PAR(rc));
	VCOVER(!use_rc && rc == 0 && g_hu_k == 1 && H->nelems > 1);
}
