/* VERIF-GROUP
{
 "property": ["C13", "C14"],
 "entry": "h_ptrheap_add",
 "enforce": ["ptrheap_add"],
 "replace": ["swap", "heapifyup", "heapify"],
 "annotate": ["datastruct/ptrheap.c", "datastruct/elasticarray.c"],
 "specs": {"datastruct/ptrheap.c": "contracts/c13_ptrheap_unbounded.spec",
           "datastruct/elasticarray.c": "contracts/c13_elasticarray_bounds.spec"},
 "defines": ["VERIF_HALLOC", "HU_CAP=32", "HEAP_RA_CAPSLOTS=64", "HEAP_RA_OLDCAPSLOTS=32"],
 "models": ["models/heap_realloc.c", "models/heap_memcpy.c"],
 "cbmc": ["--malloc-may-fail", "--malloc-fail-null"],
 "timeout": 900,
 "assumptions": ["abstract user of harness/C13/hu_model.h (elements are pointers into one object pool; callbacks compute the record id from the pointer)",
                 "object-size parameter: the pointer-list buffer holds at most HU_CAP = 32 slots (nelems is symbolic up to that); no loop is unwound, the sift loop is closed by its loop contract",
                 "ghost-instantiated preconditions: the requires clause states the instances of the for-all precondition at the ghost slot / ghost record; callers that hold the for-all fact hold every instance",
                 "swap / heapifyup / heapify are replaced by their contracts (enforced in hu_swap, hu_heapifyup, hu_heapify); elasticarray.c inlined with the capacity-based realloc model"]
}
*/
#include "hu_model.h"

void
h_ptrheap_add(void)
{
	HU_MK_LIST(L);
	IN(int, use_rc);
	IN(size_t, gk); IN(size_t, gr); IN(int, gt);
	g_hu_k = gk; g_hu_r = gr; g_hu_track = gt;
	__CPROVER_havoc_object(hu_key); __CPROVER_havoc_object(hu_pos);
	{ IN(int, mag); hu_mag = mag; }
	struct ptrheap * H = malloc(sizeof(struct ptrheap));
	__CPROVER_assume(H != NULL);
	H->compar = hu_compar_p; H->setreccookie = use_rc ? hu_setrc_p : NULL; H->elems = L;
	IN(int, empty_alloc);
	if (empty_alloc) { free(L_buf); L_ea->buf = NULL; }
	g_heap_ra_buf = L_ea->buf; g_heap_ra_size = L_ea->alloc;
	IN(size_t, pid);
	__CPROVER_assume(pid < HU_CAP);
	void * ptr = &hu_obj[pid];
	size_t n0 = H->nelems;
	int rc;

	rc = ptrheap_add(H, ptr);

	VCOVER(rc == 0 && use_rc && g_hu_track && n0 == HU_CAP - 1 && g_hu_k == HP_PAR(n0));
	VCOVER(rc == 0 && !use_rc && n0 == 0);
	VCOVER(rc == -1 && n0 > 2 && use_rc);
	VCOVER(rc == 0 && n0 > 2 && HP_EA(H->elems)->buf != (void *)L_buf);		/* the list was reallocated */
}
