/* VERIF-GROUP
{
 "property": ["C13"],
 "entry": "h_timerqueue_increase",
 "enforce": ["timerqueue_increase"],
 "replace": [],
 "annotate": ["datastruct/timerqueue.c", "datastruct/elasticarray.c"],
 "specs": {"datastruct/elasticarray.c": "contracts/c13_elasticarray_bounds.spec"},
 "models": ["models/heap_realloc.c", "models/heap_memcpy.c"],
 "defines": ["VERIF_HALLOC", "HP_TARGET_TIMERQUEUE", "HP_MAXN=7"],
 "thorough_defines": ["HP_MAXN=15"],
 "loop_contracts": false,
 "cbmc": ["--unwindset", "heapify.0:5,heapifyup.0:5"],
 "unwind": 9, "thorough_unwind": 17,
 "bounded": true, "bound": "timer queues with <= 7 entries (quick) / <= 15 (thorough); all loops fully unwound",
 "timeout": 600, "thorough_timeout": 3600,
 "assumptions": ["ptrheap.c and elasticarray.c are inlined (real code); real struct timerrec, compar, setreccookie",
                 "slot k of the initial queue holds record object R[k]: symmetry reduction (records are interchangeable fresh objects, the code never inspects record addresses)",
                 "ghost bounds assertions in elasticarray.c (contracts/c13_elasticarray_bounds.spec); the pointer-list buffer is a heap object of constant capacity >= alloc",
                 "models/heap_realloc.c (C11 realloc, capacity-based), models/heap_memcpy.c (typed copy of one pointer / one timeval)"]
}
*/
#include "hp_model.h"

void
h_timerqueue_increase(void)
{
	HP_MK_LIST(H_l, n, 1);
	struct timerqueue * Q = malloc(sizeof(struct timerqueue));
	__CPROVER_assume(Q != NULL);
	HP_MK_HEAP(H, n, Q, 1);
	Q->H = H;
	struct timeval * tv = malloc(sizeof(struct timeval));
	__CPROVER_assume(tv != NULL);
	IN(size_t, gsel);
	__CPROVER_assume(gsel < HP_MAXN);
	g_hp_ptr = R[gsel];
	IN(size_t, csel);
	__CPROVER_assume(csel < HP_MAXN);
	struct timerrec * cookie = R[csel];

	timerqueue_increase(Q, cookie, tv);

	VCOVER(csel == 0 && n == HP_MAXN && cookie->rc >= 3);
	VCOVER(csel == 1 && cookie->rc == 1 && n > 4);
	VCOVER(csel == n - 1 && n > 1);
}
