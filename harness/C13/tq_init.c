/* VERIF-GROUP
{
 "property": ["C13", "C14"],
 "entry": "h_timerqueue_init",
 "enforce": ["timerqueue_init"],
 "replace": [],
 "annotate": ["datastruct/timerqueue.c", "datastruct/elasticarray.c"],
 "specs": {"datastruct/elasticarray.c": "contracts/c13_elasticarray_bounds.spec"},
 "models": ["models/heap_realloc.c", "models/heap_memcpy.c"],
 "defines": ["VERIF_HALLOC", "HP_TARGET_TIMERQUEUE", "HP_MAXN=3"],
 "thorough_defines": ["HP_MAXN=3"],
 "loop_contracts": false,
 "cbmc": ["--unwindset", "heapify.0:5,heapifyup.0:5", "--malloc-may-fail", "--malloc-fail-null", "--memory-leak-check"],
 "unwind": 5, "thorough_unwind": 5,
 "bounded": true, "bound": "timer queues with <= 3 entries (quick) / <= 3 (thorough); all loops fully unwound",
 "timeout": 600, "thorough_timeout": 3600,
 "assumptions": ["ptrheap.c and elasticarray.c are inlined (real code); real struct timerrec, compar, setreccookie",
                 "slot k of the initial queue holds record object R[k]: symmetry reduction (records are interchangeable fresh objects, the code never inspects record addresses)",
                 "ghost bounds assertions in elasticarray.c (contracts/c13_elasticarray_bounds.spec); the pointer-list buffer is a heap object of constant capacity >= alloc",
                 "models/heap_realloc.c (C11 realloc, capacity-based), models/heap_memcpy.c (typed copy of one pointer / one timeval)"]
}
*/
#include "hp_model.h"

void
h_timerqueue_init(void)
{
	struct timerqueue * Q;

	Q = timerqueue_init();

	VCOVER(Q != NULL);
	VCOVER(Q == NULL);
	/* release it: the memory-leak obligation shows that a failed init left nothing behind */
	if (Q != NULL) {
		free(HP_EA(Q->H->elems)->buf); free(Q->H->elems); free(Q->H); free(Q);
	}
}
