/* VERIF-GROUP
{
 "property": ["C13"],
 "entry": "h_swap",
 "enforce": ["swap"],
 "replace": [],
 "annotate": ["datastruct/ptrheap.c", "datastruct/elasticarray.c"],
 "specs": {"datastruct/ptrheap.c": "contracts/c13_ptrheap_unbounded.spec",
           "datastruct/elasticarray.c": "contracts/c13_elasticarray_bounds.spec"},
 "defines": ["VERIF_HALLOC", "HU_CAP=32"],
 "cbmc": ["--arrays-uf-always"],
 "timeout": 900,
 "assumptions": ["abstract user of harness/C13/hu_model.h (elements are pointers into one object pool; callbacks compute the record id from the pointer)",
                 "object-size parameter: the pointer-list buffer holds at most HU_CAP = 32 slots (nelems is symbolic up to that); no loop is unwound, the sift loop is closed by its loop contract",
                 "ghost-instantiated preconditions: the requires clause states the instances of the for-all precondition at the ghost slot / ghost record; callers that hold the for-all fact hold every instance"]
}
*/
#include "hu_model.h"

void
h_swap(void)
{
	HU_MK_LIST(L);
	IN(int, use_rc);
	IN(size_t, gk); IN(size_t, gr); IN(int, gt);
	g_hu_k = gk; g_hu_r = gr; g_hu_track = gt;
	__CPROVER_havoc_object(hu_key); __CPROVER_havoc_object(hu_pos);
	{ IN(int, mag); hu_mag = mag; }
	IN(size_t, i); IN(size_t, j);
	void * e_i = (i < n && i < HU_CAP) ? L_buf[i] : NULL;
	void * e_j = (j < n && j < HU_CAP) ? L_buf[j] : NULL;

	swap(L, i, j, use_rc ? hu_setrc_p : NULL, NULL);

	__CPROVER_assert(L_buf[i] == e_j && L_buf[j] == e_i, "swap exchanged the two slots");
	VCOVER(use_rc && i != j && n == HU_CAP && i == n - 1 && g_hu_k == 3);
	VCOVER(!use_rc && i != j);
	VCOVER(use_rc && i == j);
}
