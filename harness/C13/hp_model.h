/*
 * hp_model.h -- element model and pre-state construction shared by the C13 harnesses.
 *
 * Usage (before anything else in the harness):
 *     #define HP_MODEL 1|2          (usually from the group's "matrix")
 *     #define HP_TARGET_PTRHEAP     the group enforces a function of ptrheap.c (annotated), or
 *     #define HP_TARGET_TIMERQUEUE  the group enforces a function of timerqueue.c (annotated)
 *     #include "hp_model.h"
 *
 * HP_MODEL 1: abstract user of ptrheap: records {key, pos}; the comparison callback returns a value of
 *             arbitrary magnitude (taken from the cookie) with the right sign; the record-cookie callback
 *             stores the reported position in the record.
 * HP_MODEL 2: the real struct timerrec, compar and setreccookie of datastruct/timerqueue.c.
 *
 * The real sources are #included here, all three in one translation unit (elasticarray.c is never annotated
 * in C13 groups: it is inlined).
 */
#ifndef HP_MODEL_H_
#define HP_MODEL_H_
#include <sys/time.h>
#include <stdlib.h>
#include "verif.h"

void * g_hp_ptr;	/* ghost: the tracked pointer (multiset statements) */
size_t g_hp_lo;		/* ghost: heapify's forest root */

#include "datastruct/elasticarray.c"

#if defined(HP_TARGET_TIMERQUEUE)
/* ---------- timerqueue.c is the annotated file: ptrheap.c (plain) first, contracts see both ---------- */
#define HP_TV_LT(a, b) ((a).tv_sec < (b).tv_sec || ((a).tv_sec == (b).tv_sec && (a).tv_usec < (b).tv_usec))
#define HP_REC(x) ((struct timerrec *)(x))
#define HP_LT(x, y) HP_TV_LT(HP_REC(x)->tv, HP_REC(y)->tv)
#define HP_POS(x) (HP_REC(x)->rc)
#define HP_RECSZ sizeof(struct timerrec)
#define HP_COOKIE_OK(c) 1
#define HP_COMPAR compar
#define HP_SETRC setreccookie
#include "datastruct/ptrheap.c"
#include "datastruct/timerqueue.c"
typedef struct timerrec hp_rec_t;

#elif HP_MODEL == 2
/* ---------- ptrheap.c annotated, elements are the real timer records ---------- */
#include "datastruct/timerqueue.c"
static int (* const hp_tq_compar)(void *, const void *, const void *) = compar;
static void (* const hp_tq_setrc)(void *, void *, size_t) = setreccookie;
#define HP_TV_LT(a, b) ((a).tv_sec < (b).tv_sec || ((a).tv_sec == (b).tv_sec && (a).tv_usec < (b).tv_usec))
#define HP_REC(x) ((struct timerrec *)(x))
#define HP_LT(x, y) HP_TV_LT(HP_REC(x)->tv, HP_REC(y)->tv)
#define HP_POS(x) (HP_REC(x)->rc)
#define HP_RECSZ sizeof(struct timerrec)
#define HP_COOKIE_OK(c) 1
#define HP_COMPAR hp_tq_compar
#define HP_SETRC hp_tq_setrc
#include "datastruct/ptrheap.c"
typedef struct timerrec hp_rec_t;

#else
/* ---------- ptrheap.c annotated, abstract user ---------- */
struct hp_urec { int key; size_t pos; };
struct hp_uctx { int mag; };
static int
hp_ucompar(void * cookie, const void * x, const void * y)
{
	const struct hp_urec * a = x, * b = y;
	int mag = ((struct hp_uctx *)cookie)->mag;

	return (a->key < b->key ? -mag : (a->key > b->key ? mag : 0));
}
static void
hp_usetrc(void * cookie, void * ptr, size_t rc)
{

	(void)cookie;
	((struct hp_urec *)ptr)->pos = rc;
}
#define HP_REC(x) ((struct hp_urec *)(x))
#define HP_LT(x, y) (HP_REC(x)->key < HP_REC(y)->key)
#define HP_POS(x) (HP_REC(x)->pos)
#define HP_RECSZ sizeof(struct hp_urec)
#define HP_COOKIE_OK(c) (PRE_OBJ(c, sizeof(struct hp_uctx)) && ((struct hp_uctx *)(c))->mag > 0)
#define HP_COMPAR hp_ucompar
#define HP_SETRC hp_usetrc
#include "datastruct/ptrheap.c"
typedef struct hp_urec hp_rec_t;
#endif

#if defined(HP_TARGET_TIMERQUEUE) || HP_MODEL == 2
#define HP_MK_COOKIE(ck) void * ck = NULL; { IN(int, ck_nonnull); if (ck_nonnull) { ck = malloc(1); } }
#else
#define HP_MK_COOKIE(ck) struct hp_uctx * ck = malloc(sizeof(struct hp_uctx)); \
	__CPROVER_assume(ck != NULL && ck->mag > 0)
#endif

/*
 * HP_MK_LIST(L, n, use_rc): a well-formed pointer list of n <= HP_MAXN elements whose allocation is
 * alloc = slots * 8 bytes, n <= slots <= HP_MAXN + 1.  The buffer is a heap object of constant capacity
 * HP_CAPSLOTS >= slots pointers (see models/heap_realloc.c for why); its logical size `alloc` is recorded in the
 * ghost pair of the realloc model, and every access is checked against size/alloc by the ghost assertions of
 * contracts/c13_elasticarray_bounds.spec.
 * Slot k holds record object R[k] (distinct heap objects with arbitrary contents); when use_rc is set the
 * record in slot k carries position k (handle invariant).
 * Layout: "slot k -> R[k]" is without loss of generality for heaps of distinct elements (the records are
 * interchangeable fresh objects, the code never compares or orders element pointers).  An arbitrary
 * slot -> record map (duplicate pointers included) costs > 600 s at 7 elements; it is covered at a smaller
 * size by the groups built with -DHP_ANYLAYOUT.
 */
extern void * g_heap_ra_buf;
extern size_t g_heap_ra_size;
#define HP_CAPSLOTS (2 * (HP_MAXN + 1))
#ifdef HP_ANYLAYOUT
#define HP_SEL_(k) ({ size_t sel_; __CPROVER_assume(sel_ < HP_MAXN); sel_; })
#else
#define HP_SEL_(k) (k)
#endif
#define HP_MK_LIST(L, n, use_rc) \
	IN(size_t, n); IN(size_t, L##_slots); \
	__CPROVER_assume(n <= HP_MAXN && n <= L##_slots && L##_slots <= HP_MAXALLOC / sizeof(void *)); \
	size_t L##_alloc = L##_slots * sizeof(void *); \
	struct elasticarray * L##_ea = malloc(sizeof(struct elasticarray)); \
	__CPROVER_assume(L##_ea != NULL); \
	void ** L##_buf = malloc(HP_CAPSLOTS * sizeof(void *)); \
	__CPROVER_assume(L##_buf != NULL); \
	L##_ea->size = n * sizeof(void *); L##_ea->alloc = L##_alloc; \
	if (L##_alloc == 0) { free(L##_buf); L##_ea->buf = NULL; } else L##_ea->buf = L##_buf; \
	g_heap_ra_buf = L##_ea->buf; g_heap_ra_size = L##_alloc; \
	hp_rec_t * R[HP_MAXN]; \
	for (size_t k_ = 0; k_ < HP_MAXN; k_++) { \
		R[k_] = malloc(sizeof(hp_rec_t)); \
		__CPROVER_assume(R[k_] != NULL); \
	} \
	for (size_t k_ = 0; k_ < HP_MAXN; k_++) { \
		if (k_ < n) { \
			L##_buf[k_] = R[HP_SEL_(k_)]; \
			if (use_rc) __CPROVER_assume(HP_POS(L##_buf[k_]) == k_); \
		} \
	} \
	PTRLIST L = (PTRLIST)L##_ea

#define HP_MK_HEAP(H, n, ck, use_rc) \
	struct ptrheap * H = malloc(sizeof(struct ptrheap)); \
	__CPROVER_assume(H != NULL); \
	H->compar = HP_COMPAR; H->setreccookie = (use_rc) ? HP_SETRC : NULL; H->cookie = ck; \
	H->elems = H##_l; H->nelems = n

/*
 * Whether the heap has a record-cookie callback: arbitrary for the abstract user (model 1); always for the
 * timer-queue callbacks (model 2 and the timerqueue.c groups), because timerqueue.c never creates a heap without
 * one and the callback-free behaviour is covered by model 1.  VCOVER1: a marker for the callback-free case.
 */
#if defined(HP_TARGET_TIMERQUEUE) || HP_MODEL == 2
#define HP_USE_RC_DECL(v) const int v = 1
#define VCOVER1(c) do {} while (0)
#else
#define HP_USE_RC_DECL(v) IN(int, v)
#define VCOVER1(c) VCOVER(c)
#endif

/* release what the harness allocated for a list (for --memory-leak-check groups) */
#define HP_FREE_RECS() do { for (size_t k_ = 0; k_ < HP_MAXN; k_++) free(R[k_]); } while (0)

#endif /* !HP_MODEL_H_ */
