/* VERIF-GROUP
{
 "property": ["C13", "C14"],
 "entry": "h_timerqueue_getptr",
 "enforce": ["timerqueue_getptr"],
 "replace": [],
 "annotate": ["datastruct/timerqueue.c", "datastruct/elasticarray.c"],
 "specs": {"datastruct/elasticarray.c": "contracts/c13_elasticarray_bounds.spec"},
 "models": ["models/heap_realloc.c", "models/heap_memcpy.c"],
 "defines": ["VERIF_HALLOC", "HP_TARGET_TIMERQUEUE", "HP_MAXN=7"],
 "thorough_defines": ["HP_MAXN=15"],
 "loop_contracts": false,
 "cbmc": ["--unwindset", "heapify.0:5,heapifyup.0:5", "--malloc-may-fail", "--malloc-fail-null", "--memory-leak-check"],
 "unwind": 9, "thorough_unwind": 17,
 "bounded": true, "bound": "timer queues with <= 7 entries (quick) / <= 15 (thorough); all loops fully unwound",
 "timeout": 600, "thorough_timeout": 3600,
 "assumptions": ["ptrheap.c and elasticarray.c are inlined (real code); real struct timerrec, compar, setreccookie",
                 "slot k of the initial queue holds record object R[k]: symmetry reduction (records are interchangeable fresh objects, the code never inspects record addresses)",
                 "ghost bounds assertions in elasticarray.c (contracts/c13_elasticarray_bounds.spec); the pointer-list buffer is a heap object of constant capacity >= alloc",
                 "models/heap_realloc.c (C11 realloc, capacity-based), models/heap_memcpy.c (typed copy of one pointer / one timeval)"]
}
*/
#include "hp_model.h"

void
h_timerqueue_getptr(void)
{
	HP_MK_LIST(H_l, n, 1);
	struct timerqueue * Q = malloc(sizeof(struct timerqueue));
	__CPROVER_assume(Q != NULL);
	HP_MK_HEAP(H, n, Q, 1);
	Q->H = H;
	struct timeval * tv = malloc(sizeof(struct timeval));
	__CPROVER_assume(tv != NULL);
	IN(size_t, gsel);
	__CPROVER_assume(gsel < HP_MAXN);
	g_hp_ptr = R[gsel];
	void * stored = (n > 0) ? R[0]->ptr : NULL;
	struct timeval tv0 = R[0]->tv;		/* the least time, before the call */
	struct timerrec * last = (n > 0) ? R[n - 1] : NULL;
	void * p;

	p = timerqueue_getptr(Q, tv);

	__CPROVER_assert(H->nelems == n || p == stored, "a released entry hands back exactly the pointer stored with it");
	VCOVER(H->nelems == n - 1 && n == HP_MAXN && last->rc >= 3);	/* released, last record sifted down */
	VCOVER(H->nelems == n && n > 0);				/* least time is later than tv: held */
	VCOVER(n == 0);
	VCOVER(H->nelems == n - 1 && n > 1 && tv0.tv_sec == tv->tv_sec && tv0.tv_usec == tv->tv_usec && p == stored);	/* boundary: equal times release */
	/* a released record was freed by the call */
	for (size_t k_ = 0; k_ < HP_MAXN; k_++)
		if (k_ != 0 || H->nelems == n)
			free(R[k_]);
	free(tv);
	free(HP_EA(H->elems)->buf); free(H->elems); free(H); free(Q);
}
