/* VERIF-GROUP
{
 "property": ["C13"],
 "entry": "h_heapify",
 "enforce": ["heapify"],
 "replace": [],
 "annotate": ["datastruct/ptrheap.c", "datastruct/elasticarray.c"],
 "specs": {"datastruct/elasticarray.c": "contracts/c13_elasticarray_bounds.spec"},
 "models": ["models/heap_realloc.c", "models/heap_memcpy.c"],
 "defines": ["VERIF_HALLOC", "HP_TARGET_PTRHEAP", "HP_ANYLAYOUT", "HP_MAXN=4"],
 "thorough_defines": ["HP_MAXN=5"],
 "matrix": {"HP_MODEL": [1]},
 "loop_contracts": false,
 "cbmc": ["--unwindset", "heapify.0:5,heapifyup.0:5"],
 "unwind": 6, "thorough_unwind": 7,
 "bounded": true, "bound": "heaps with <= 4 elements (quick) / <= 5 (thorough), arbitrary slot -> record map incl. duplicate pointers; all loops fully unwound",
 "timeout": 600, "thorough_timeout": 3600,
 "assumptions": ["HP_MODEL=1: abstract user callbacks of harness/C13/hp_model.h; HP_MODEL=2: real struct timerrec, compar, setreccookie of timerqueue.c",
                 "slot k of the initial heap holds record object R[k]: symmetry reduction, sound for distinct elements because ptrheap.c never inspects element pointers (arbitrary layouts incl. duplicate pointers: groups *_any at 4 elements)",
                 "elasticarray.c is inlined (real code) with ghost bounds assertions (contracts/c13_elasticarray_bounds.spec); the pointer-list buffer is a heap object of constant capacity >= alloc, accesses are checked against the logical size, not the capacity",
                 "models/heap_realloc.c (C11 realloc, capacity-based), models/heap_memcpy.c (typed copy of one pointer / one timeval)"]
}
*/
#include "hp_model.h"

void
h_heapify(void)
{
	HP_USE_RC_DECL(use_rc);
	HP_MK_LIST(L, n, use_rc);
	HP_MK_COOKIE(ck);
	IN(size_t, i);
	IN(size_t, lo);
	IN(size_t, gsel);
	__CPROVER_assume(gsel < HP_MAXN);
	g_hp_ptr = R[gsel];
	g_hp_lo = lo;
	void * e_i = (i < n) ? L_buf[i] : NULL;

	heapify(L, i, n, HP_COMPAR, use_rc ? HP_SETRC : NULL, ck);

	/* sift down from the root to the bottom level; sift inside a sub-forest (ptrheap_create's use) */
	VCOVER(use_rc && lo == 0 && i == 0 && n == HP_MAXN && L_buf[HP_MAXN - 1] == e_i);
	VCOVER1(!use_rc && lo == i && i == 1 && n >= 4 && L_buf[1] != e_i);
	VCOVER(use_rc && i == 0 && L_buf[0] == e_i && n > 2);
}
