/*
 * hu_model.h -- abstract user of ptrheap.c for the unbounded track (C13): HU_CAP identity objects hu_obj[id];
 * a heap element is the pointer &hu_obj[id]; its key is hu_key[id] and the position last reported for it is
 * hu_pos[id].  The callbacks never dereference an element: they recover id from the pointer (so a proof may havoc
 * the whole pointer list in a loop contract and still reason about keys and positions: only pointer *values*
 * matter, cf. HOWTO trap 1).  The comparison returns a value of arbitrary positive magnitude hu_mag with the sign
 * of the key difference.
 */
#ifndef HU_MODEL_H_
#define HU_MODEL_H_
#include <stdlib.h>
#include "verif.h"

#ifndef HU_CAP
#define HU_CAP 32
#endif
#if HU_CAP > 32
#error "HU_CAP > 32: extend HU_ALL"
#endif

char hu_obj[HU_CAP];
int hu_key[HU_CAP];
size_t hu_pos[HU_CAP];
int hu_mag;

size_t g_hu_k, g_hu_r, g_hp_lo;
int g_hu_track;
void * g_hp_ptr;

#define HU_INPOOL(x) (__CPROVER_same_object((x), hu_obj) && (size_t)__CPROVER_POINTER_OFFSET(x) < HU_CAP)
#define HU_ID(x)     ((size_t)__CPROVER_POINTER_OFFSET(x))
/* (index clamped: specification text is evaluated for slots outside the heap too, where the guard makes it
   irrelevant but CBMC's array-bounds check still fires) */
#define HU_IDC(x)    (HU_ID(x) % HU_CAP)
#define HU_LT(x, y)  (hu_key[HU_IDC(x)] < hu_key[HU_IDC(y)])
#define HU_POS(x)    (hu_pos[HU_IDC(x)])

#define HU_C_(k, e)   ((k) >= HU_CAP || (e))
#define HU_ALL(P, ...) ( \
	HU_C_(0, P(0, __VA_ARGS__)) && HU_C_(1, P(1, __VA_ARGS__)) && HU_C_(2, P(2, __VA_ARGS__)) && HU_C_(3, P(3, __VA_ARGS__)) && \
	HU_C_(4, P(4, __VA_ARGS__)) && HU_C_(5, P(5, __VA_ARGS__)) && HU_C_(6, P(6, __VA_ARGS__)) && HU_C_(7, P(7, __VA_ARGS__)) && \
	HU_C_(8, P(8, __VA_ARGS__)) && HU_C_(9, P(9, __VA_ARGS__)) && HU_C_(10, P(10, __VA_ARGS__)) && HU_C_(11, P(11, __VA_ARGS__)) && \
	HU_C_(12, P(12, __VA_ARGS__)) && HU_C_(13, P(13, __VA_ARGS__)) && HU_C_(14, P(14, __VA_ARGS__)) && HU_C_(15, P(15, __VA_ARGS__)) && \
	HU_C_(16, P(16, __VA_ARGS__)) && HU_C_(17, P(17, __VA_ARGS__)) && HU_C_(18, P(18, __VA_ARGS__)) && HU_C_(19, P(19, __VA_ARGS__)) && \
	HU_C_(20, P(20, __VA_ARGS__)) && HU_C_(21, P(21, __VA_ARGS__)) && HU_C_(22, P(22, __VA_ARGS__)) && HU_C_(23, P(23, __VA_ARGS__)) && \
	HU_C_(24, P(24, __VA_ARGS__)) && HU_C_(25, P(25, __VA_ARGS__)) && HU_C_(26, P(26, __VA_ARGS__)) && HU_C_(27, P(27, __VA_ARGS__)) && \
	HU_C_(28, P(28, __VA_ARGS__)) && HU_C_(29, P(29, __VA_ARGS__)) && HU_C_(30, P(30, __VA_ARGS__)) && HU_C_(31, P(31, __VA_ARGS__)))

static int
hu_compar(void * cookie, const void * x, const void * y)
{
	size_t a = (size_t)((const char *)x - hu_obj);
	size_t b = (size_t)((const char *)y - hu_obj);

	(void)cookie;
	return (hu_key[a] < hu_key[b] ? -hu_mag : (hu_key[a] > hu_key[b] ? hu_mag : 0));
}
static void
hu_setrc(void * cookie, void * ptr, size_t rc)
{

	(void)cookie;
	hu_pos[(size_t)((char *)ptr - hu_obj)] = rc;
}
static int (* const hu_compar_p)(void *, const void *, const void *) = hu_compar;
static void (* const hu_setrc_p)(void *, void *, size_t) = hu_setrc;

#include "datastruct/elasticarray.c"
#include "datastruct/ptrheap.c"

/* an arbitrary pointer list: n * 8 == size <= alloc <= capacity, arbitrary slot contents (the contract's
   requires clause, which DFCC assumes, says which of them are admissible) */
#define HU_MK_LIST(L) \
	struct elasticarray * L##_ea = malloc(sizeof(struct elasticarray)); \
	__CPROVER_assume(L##_ea != NULL); \
	void ** L##_buf = malloc(HU_CAP * sizeof(void *)); \
	__CPROVER_assume(L##_buf != NULL); \
	L##_ea->buf = L##_buf; \
	PTRLIST L = (PTRLIST)L##_ea; \
	size_t n = L##_ea->size / sizeof(void *)

#endif /* !HU_MODEL_H_ */
