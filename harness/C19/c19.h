/*
 * shared by the C19 harnesses: includes the REAL aws/aws_sign.c, util/asprintf.c and util/hexify.c, defines the
 * ghost state the contracts declare, builds arbitrary bounded inputs, and binds the two primitives of the SigV4
 * specification (spec/sigv4_spec.h) to the SPEC SIDE of the lockstep trace abstraction (G2): the k-th hash call
 * of the specification must have the same kind, key bytes and message bytes as the k-th call the implementation
 * made (logged by models/aws_hash.c) and then receives the same digest.
 */
#include <stdlib.h>
#include <string.h>
#include "verif.h"
#include "aws_hash.h"
#include "aws_time.h"

/* ---- spec side of the lockstep ---- */
static size_t c19_sp_k;		/* index of the next specification-side hash call */
static int c19_sp_ok_kind, c19_sp_ok_key, c19_sp_ok_msg, c19_sp_ok_count;

static void
c19_spec_call(int kind, const uint8_t * key, size_t klen, const uint8_t * msg, size_t mlen, uint8_t out[32])
{
	size_t i;
	int same_key = 1, same_msg = 1;

	if (!(c19_sp_k < g_aws_n && c19_sp_k < AWS_LOG_N)) {
		/* the implementation made fewer calls than the specification */
		c19_sp_ok_count = 0;
		for (i = 0; i < 32; i++)
			out[i] = 0;
		c19_sp_k++;
		return;
	}
	const struct aws_hcall * e = &g_aws_log[c19_sp_k];
	if (e->kind != kind)
		c19_sp_ok_kind = 0;
	if (e->klen != klen)
		same_key = 0;
	for (i = 0; i < AWS_KMAX; i++)
		if (i < klen && e->key[i] != key[i])
			same_key = 0;
	if (e->mlen != mlen)
		same_msg = 0;
	for (i = 0; i < AWS_MMAX; i++)
		if (i < mlen && e->msg[i] != msg[i])
			same_msg = 0;
	if (!same_key)
		c19_sp_ok_key = 0;
	if (!same_msg)
		c19_sp_ok_msg = 0;
	for (i = 0; i < 32; i++)
		out[i] = e->out[i];
	c19_sp_k++;
}
#define SV4_SHA256(msg, len, out) c19_spec_call(AWS_K_SHA256, NULL, 0, (msg), (len), (out))
#define SV4_HMAC(key, klen, msg, len, out) c19_spec_call(AWS_K_HMAC, (key), (klen), (msg), (len), (out))
#include "sigv4_spec.h"

#define C19_SPEC_BEGIN(k0) do { c19_sp_k = (k0); c19_sp_ok_kind = c19_sp_ok_key = c19_sp_ok_msg = c19_sp_ok_count = 1; } while (0)
#define C19_SPEC_END() do { \
	__CPROVER_assert(c19_sp_ok_count && c19_sp_k == g_aws_n, "SigV4 lockstep: the implementation made exactly the hash calls of the specification, no more, no fewer"); \
	__CPROVER_assert(c19_sp_ok_kind, "SigV4 lockstep: every call uses the primitive (SHA256 / HMAC-SHA256) the specification uses"); \
	__CPROVER_assert(c19_sp_ok_key, "SigV4 lockstep: every HMAC key equals the specification's (AWS4||secret, then kDate, kRegion, kService, kSigning)"); \
	__CPROVER_assert(c19_sp_ok_msg, "SigV4 lockstep: every hashed message equals the specification's byte for byte (date, region, service, aws4_request, canonical request, string to sign)"); \
	} while (0)

/* a C string equals a specification string */
static int
c19_same(const char * s, const struct sv4_str * E)
{
	size_t i;
	int same = 1;

	for (i = 0; i < SV4_MAX; i++)
		if (i < E->n && (uint8_t)s[i] != E->b[i])
			same = 0;
	if (E->n >= SV4_MAX || s[E->n] != '\0')
		same = 0;
	return (same);
}

/* ---- the real code ---- */
/*
 * asprintf: util/asprintf.h makes it libcperciva_asprintf(char **, const char *, ...).  DFCC cannot instrument
 * variadic functions (see models/aws_fmt.c), so the macro is re-pointed at the fixed-arity model: the calls in the
 * unchanged text of aws_sign.c pass their variable arguments as const void * (ints through intptr_t), padded to 9.
 */
#include "asprintf.h"
#undef asprintf
int aws_asprintf9(char **, const char *, const void *, const void *, const void *, const void *, const void *,
    const void *, const void *, const void *, const void *);
#define C19_A(x) ((const void *)(intptr_t)(x))
#define C19_PAD9(f, a1, a2, a3, a4, a5, a6, a7, a8, a9, ...) \
	f, C19_A(a1), C19_A(a2), C19_A(a3), C19_A(a4), C19_A(a5), C19_A(a6), C19_A(a7), C19_A(a8), C19_A(a9)
#define asprintf(ret, ...) aws_asprintf9(ret, C19_PAD9(__VA_ARGS__, 0, 0, 0, 0, 0, 0, 0, 0, 0))
#include "util/hexify.c"
#include "aws/aws_sign.c"
struct c19_ghost g_c19;

/* ---- arbitrary bounded inputs ---- */
/*
 * an object of max+1 bytes, NUL in the last one, arbitrary before: every string of 0..max characters (shorter ones
 * through interior NULs).  The object size is a constant on purpose: objects of symbolic size send every access
 * through CBMC's array theory, which does not scale to this proof.
 */
#define C19_INSTR(name, max) \
	const size_t l_##name = (max); \
	IN_BYTES(name##_o, (max) + 1, (max) + 1); \
	name##_o[max] = 0; \
	const char * name = (const char *)name##_o

/* property C19 quantifies these arguments over the URI-unreserved alphabet (paths: plus '/') */
static void
c19_alphabet(const uint8_t * s, size_t l, int is_path)
{
	size_t i;

	for (i = 0; i < C19_SMAX; i++)
		if (i < l)
			__CPROVER_assume(s[i] == 0 || sv4_unreserved(s[i]) || (is_path && s[i] == '/'));
}
#define C19_INSTR_URI(name, is_path) C19_INSTR(name, C19_SMAX); c19_alphabet(name##_o, l_##name, is_path)

#define C19_INBODY() \
	IN(int, nobody); IN(size_t, bodylen); \
	__CPROVER_assume(nobody || bodylen <= C19_BMAX); \
	IN_BYTES(body_o, C19_BMAX, C19_BMAX); \
	const uint8_t * body = nobody ? NULL : body_o

#define C19_MODELS_RESET() do { \
	g_aws_n = 0; g_aws_time.time_calls = 0; g_aws_time.gm_valid = 0; \
	IN(size_t, hx); g_c19.hx = hx; IN(size_t, bx); g_c19.bx = bx; } while (0)
