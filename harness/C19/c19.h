/*
 * shared by the C19 harnesses: includes the REAL aws/aws_sign.c and util/hexify.c, defines the ghost state the
 * contracts declare, builds arbitrary inputs, and binds the primitives of the SigV4 specification
 * (spec/sigv4_spec.h) to the SPEC SIDE of the lockstep trace abstraction (G2): the k-th hash call of the
 * specification must have the same kind, the same key and the same message as the k-th call the implementation
 * made (logged by models/aws_hash.c) and then receives the same digest.
 *
 * "Same message": the specification's message is a string in normal form (models/aws_stream.h).  The logged
 * message (address, length, bytes) equals it when
 *   (A) the normal form is a single input string and the implementation hashed exactly that object in full, or
 *   (B) the implementation hashed the UNMODIFIED result of one of its asprintf calls (address, length and bytes equal
 *       the model's record) and that call's normal form equals the specification's, or
 *   (C) the normal form is a single run of text and the logged bytes are that text.
 */
#include <stdlib.h>
#include <string.h>
#include "verif.h"
#include "aws_hash.h"
#include "aws_time.h"
#include "aws_stream.h"
#include "aws_fmt.h"

/* ids of the input objects in g_aws_in */
#define C19_ID_KEY_ID	0
#define C19_ID_SECRET	1
#define C19_ID_REGION	2
#define C19_ID_METHOD	3
#define C19_ID_BUCKET	4
#define C19_ID_PATH	5
#define C19_ID_SVC	6
#define C19_ID_OP	7
#define C19_ID_BODY	8
#define C19_ID_DATE	9
#define C19_ID_DATETIME	10
#define C19_ID_CREQ	11

#pragma CPROVER check push
#pragma CPROVER check disable "conversion"
/* does (ptr, len, bytes[cap]) -- a logged key or message -- equal the string with normal form E ? */
static int
c19_bytes_are(const void * ptr, size_t len, const uint8_t * bytes, size_t cap, const struct aws_stream * E)
{
	size_t i, k;
	int ok = 0;

	if (E->n == 0)
		return (len == 0);
	/* (A) one whole input object */
	if (E->n == 1 && E->t[0].kind == AWS_TK_REF) {
		const struct aws_var * v = &g_aws_in[E->t[0].id];
		int same = (ptr == v->ptr && len == v->len);

		for (i = 0; i < cap; i++)
			if (i < len && i < v->len && bytes[i] != ((const uint8_t *)v->ptr)[i])
				same = 0;
		if (same)
			ok = 1;
	}
	/* (C) one run of text */
	if (E->n == 1 && E->t[0].kind == AWS_TK_TEXT) {
		int same = (len == E->t[0].len);

		for (i = 0; i < AWS_TXMAX && i < E->t[0].len; i++)
			if (i < cap && bytes[i] != E->t[0].text[i])
				same = 0;
		if (E->t[0].len > cap)
			same = 0;
		if (same)
			ok = 1;
	}
	/* (B) the unmodified result of an asprintf call with this normal form (normal forms first: a structural
	 * mismatch is a constant for the symbolic execution and skips the byte comparison) */
	for (k = 0; k < AWS_NREC; k++) {
		if (k < g_aws_fmt.n) {
			const struct aws_fmt_rec * r = &g_aws_fmt.rec[k];

			if (aws_stream_eq(&r->s, E)) {
				int same = (!r->failed && ptr == (const void *)r->result && len == r->len && len <= cap);

				for (i = 0; i < cap && i <= AWS_ABSMAX; i++)
					if (i < len && bytes[i] != r->snap.b[i])
						same = 0;
				if (same)
					ok = 1;
			}
		}
	}
	return (ok);
}

/* ---- spec side of the lockstep ---- */
static size_t c19_sp_k;		/* index of the next specification-side hash call */
static int c19_sp_ok_kind, c19_sp_ok_key, c19_sp_ok_msg, c19_sp_ok_count;

static void
c19_spec_call(int kind, const struct aws_stream * skey, const uint8_t * bkey, const struct aws_stream * msg,
    uint8_t out[32])
{
	size_t i;

	if (!(c19_sp_k < g_aws_n && c19_sp_k < AWS_LOG_N)) {
		/* the implementation made fewer calls than the specification */
		c19_sp_ok_count = 0;
		for (i = 0; i < 32; i++)
			out[i] = 0;
		c19_sp_k++;
		return;
	}
	const struct aws_hcall * e = &g_aws_log[c19_sp_k];
	if (e->kind != kind)
		c19_sp_ok_kind = 0;
	if (skey != NULL) {
		if (!c19_bytes_are(e->kptr, e->klen, e->key, AWS_KMAX, skey))
			c19_sp_ok_key = 0;
	} else if (bkey != NULL) {
		if (e->klen != 32)
			c19_sp_ok_key = 0;
		for (i = 0; i < 32; i++)
			if (e->key[i] != bkey[i])
				c19_sp_ok_key = 0;
	}
	if (!c19_bytes_are(e->mptr, e->mlen, e->msg, AWS_MMAX, msg))
		c19_sp_ok_msg = 0;
	for (i = 0; i < 32; i++)
		out[i] = e->out[i];
	c19_sp_k++;
}
#define SV4_SHA256(msg, out)		c19_spec_call(AWS_K_SHA256, NULL, NULL, (msg), (out))
#define SV4_HMAC_S(key, msg, out)	c19_spec_call(AWS_K_HMAC, (key), NULL, (msg), (out))
#define SV4_HMAC_B(key, msg, out)	c19_spec_call(AWS_K_HMAC, NULL, (key), (msg), (out))
#if !defined(SV4_INMAX) && defined(C19_SMAX)
#define SV4_INMAX (C19_SMAX + 1)	/* the domain check scans a whole input string */
#endif
#include "sigv4_spec.h"

#define C19_SPEC_BEGIN(k0) do { c19_sp_k = (k0); c19_sp_ok_kind = c19_sp_ok_key = c19_sp_ok_msg = c19_sp_ok_count = 1; sv4_domain_ok = 1; } while (0)
#define C19_SPEC_END() do { \
	__CPROVER_assert(c19_sp_ok_count && c19_sp_k == g_aws_n, "SigV4 lockstep: the implementation made exactly the hash calls of the specification, no more, no fewer"); \
	__CPROVER_assert(c19_sp_ok_kind, "SigV4 lockstep: every call uses the primitive (SHA256 / HMAC-SHA256) the specification uses"); \
	__CPROVER_assert(c19_sp_ok_key, "SigV4 lockstep: every HMAC key equals the specification's (AWS4||secret, then kDate, kRegion, kService, kSigning)"); \
	__CPROVER_assert(c19_sp_ok_msg, "SigV4 lockstep: every hashed message equals the specification's (date, region, service, aws4_request, canonical request, string to sign)"); \
	__CPROVER_assert(sv4_domain_ok, "SV4_DOMAIN: inputs the published algorithm would URI-encode are in the identity domain"); \
	} while (0)

/* is `p` the unmodified result of an asprintf call whose normal form is E ? */
static int
c19_result_is(const char * p, const struct aws_stream * E)
{
	size_t i, k;
	int ok = 0;

	for (k = 0; k < AWS_NREC; k++) {
		if (k < g_aws_fmt.n) {
			const struct aws_fmt_rec * r = &g_aws_fmt.rec[k];

			if (aws_stream_eq(&r->s, E)) {
				int same = (!r->failed && p == r->result);

				for (i = 0; i <= AWS_ABSMAX; i++)
					if (i <= r->len && (uint8_t)p[i] != r->snap.b[i])
						same = 0;
				if (same)
					ok = 1;
			}
		}
	}
	return (ok);
}

/* a C string equals a one-run normal form byte for byte */
static int
c19_same_text(const char * s, const struct aws_stream * E)
{
	size_t i;
	int same = (E->n == 1 && E->t[0].kind == AWS_TK_TEXT);

	if (!same)
		return (0);
	for (i = 0; i < AWS_TXMAX && i < E->t[0].len; i++)
		if ((uint8_t)s[i] != E->t[0].text[i])
			same = 0;
	if (s[E->t[0].len] != '\0')
		same = 0;
	return (same);
}

#pragma CPROVER check pop

/* ---- the real code ---- */
/*
 * asprintf: util/asprintf.h makes it libcperciva_asprintf(char **, const char *, ...).  DFCC cannot instrument
 * variadic functions (see models/aws_fmt.c), so the macro is re-pointed at the fixed-arity model: the calls in the
 * unchanged text of aws_sign.c pass their variable arguments as const void * (ints through intptr_t), padded to 9.
 */
#include "asprintf.h"
#undef asprintf
int aws_asprintf9(char **, const char *, const void *, const void *, const void *, const void *, const void *,
    const void *, const void *, const void *, const void *);
#define C19_A(x) ((const void *)(intptr_t)(x))
#define C19_PAD9(f, a1, a2, a3, a4, a5, a6, a7, a8, a9, ...) \
	f, C19_A(a1), C19_A(a2), C19_A(a3), C19_A(a4), C19_A(a5), C19_A(a6), C19_A(a7), C19_A(a8), C19_A(a9)
#define asprintf(ret, ...) aws_asprintf9(ret, C19_PAD9(__VA_ARGS__, 0, 0, 0, 0, 0, 0, 0, 0, 0))
/*
 * hexify: the REAL util/hexify.c, followed by a ghost registration of its output as an internal string of fixed
 * known length (2 * len) for the normal form (models/aws_stream.h).
 */
#include "util/hexify.c"
static void
c19_hexify(const uint8_t * in, char * out, size_t len)
{

	hexify(in, out, len);
	__CPROVER_assert(g_aws_nfix < AWS_NFIX, "MODEL-BOUND c19: more than AWS_NFIX fixed-length strings");
	__CPROVER_assume(g_aws_nfix < AWS_NFIX);
	g_aws_fix[g_aws_nfix].ptr = out;
	g_aws_fix[g_aws_nfix].len = 2 * len;
	g_aws_nfix++;
}
#define hexify c19_hexify
/*
 * strdup: models/libc_string.c allocates strlen + 1 bytes, an object of symbolic size, which sends every access
 * through CBMC's array theory (measured: 85 M clauses for the two strdup calls of a front end).  Same function
 * with a block of fixed capacity (the strings duplicated here have 64 and 16 characters); success path only.
 */
static char *
c19_strdup(const char * s)
{
	char * r = malloc(AWS_ARGMAX + 1);
	size_t i;

	__CPROVER_assume(r != NULL);
	for (i = 0; i < AWS_ARGMAX; i++) {
		r[i] = s[i];
		if (s[i] == '\0')
			return (r);
	}
	__CPROVER_assert(0, "MODEL-BOUND c19_strdup: string longer than AWS_ARGMAX");
	__CPROVER_assume(0);
	return (r);
}
#define strdup c19_strdup
#include "aws/aws_sign.c"
#undef hexify
#undef strdup
struct c19_ghost g_c19;

/* ---- arbitrary inputs ---- */
/*
 * an object of max+1 bytes, NUL in the last one, arbitrary before: every string of 0..max characters (shorter ones
 * through interior NULs).  A local array, so that its address is a constant for the symbolic execution (the
 * registries are searched by address) and its size is a constant (objects of symbolic size send every access
 * through CBMC's array theory).
 */
#define C19_INSTR(name, max) \
	uint8_t name##_o[(max) + 1]; \
	name##_o[max] = 0; \
	const char * name = (const char *)name##_o

#define C19_REG(id, p) do { g_aws_in[id].ptr = (p); g_aws_in[id].len = strlen((const char *)(p)); } while (0)

/* property C19 quantifies these arguments over the URI-unreserved alphabet (paths: plus '/') */
static void
c19_alphabet(const uint8_t * s, int is_path)
{
	size_t i;

	for (i = 0; i < C19_SMAX; i++)
		__CPROVER_assume(s[i] == 0 || sv4_unreserved(s[i]) || (is_path && s[i] == '/'));
}
#define C19_INSTR_URI(name, is_path) C19_INSTR(name, C19_SMAX); c19_alphabet(name##_o, is_path)

#define C19_INBODY() \
	IN(int, nobody); IN(size_t, bodylen); \
	__CPROVER_assume(nobody || bodylen <= C19_BMAX); \
	uint8_t body_o[C19_BMAX]; \
	const uint8_t * body = nobody ? NULL : body_o; \
	g_aws_in[C19_ID_BODY].ptr = body; g_aws_in[C19_ID_BODY].len = nobody ? 0 : bodylen; g_aws_in[C19_ID_BODY].blob = 1

#define C19_MODELS_RESET() do { \
	size_t c19_i_; \
	for (c19_i_ = 0; c19_i_ < AWS_NIN; c19_i_++) { g_aws_in[c19_i_].ptr = NULL; g_aws_in[c19_i_].len = 0; g_aws_in[c19_i_].blob = 0; } \
	g_aws_nfix = 0; g_aws_fmt.n = 0; \
	g_aws_n = 0; g_aws_time.time_calls = 0; g_aws_time.gm_valid = 0; g_aws_time.fmt_calls = 0; \
	IN(size_t, hx); g_c19.hx = hx; IN(size_t, bx); g_c19.bx = bx; } while (0)
