#!/bin/sh
# Native cross-check of the C19 specification and of the normal-form abstraction (see native_selftest.c).
# Not a proof and not part of ./check; builds into a temporary directory and removes it.
set -e
REPO=${VERIF_REPO:-/repo}
D=$(mktemp -d)
trap 'rm -rf "$D"' EXIT
gcc -O1 -g -fsanitize=address,undefined -Wall -Wno-unused-function \
    -I"$REPO/alg" -I"$REPO/util" -I"$REPO/aws" -I"$REPO/cpusupport" -I"$REPO" -I/verif/models -I/verif/spec \
    -o "$D/selftest" /verif/harness/C19/native_selftest.c \
    -Dtime=selftest_time "$REPO/aws/aws_sign.c" -Utime \
    "$REPO/alg/sha256.c" "$REPO/util/hexify.c" "$REPO/util/asprintf.c" "$REPO/util/insecure_memzero.c" "$REPO/util/warnp.c"
"$D/selftest"
