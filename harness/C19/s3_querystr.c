/* VERIF-GROUP
{
 "property": ["C19"],
 "entry": "h_s3_querystr",
 "enforce": ["aws_sign_s3_querystr"],
 "replace": [],
 "annotate": ["aws/aws_sign.c"],
 "defines": ["VERIF_HALLOC", "C19_SMAX=16", "C19_BMAX=16", "VERIF_STRMAX=40", "AWS_MMAX=32", "AWS_KMAX=32", "AWS_FMTMAX=336"],
 "thorough_defines": ["C19_SMAX=200", "C19_CREQMAX=200", "C19_BMAX=256", "VERIF_STRMAX=208", "AWS_MMAX=256"],
 "models": ["models/libc_string.c", "models/aws_hash.c", "models/aws_fmt.c", "models/aws_time.c"],
 "instrument_flags": ["--nondet-static-exclude", "hexchars"],
 "loop_contracts": false,
 "bounded": true,
 "bound": "every string argument: all strings of <= 16 characters (thorough: 200); every int expiry; formatted strings are compared in normal form (literal text at constant positions, input strings by reference: models/aws_stream.h) and are themselves represented by abstract stand-ins of <= 24 bytes, never rendered; every loop has a compile-time-constant bound and is fully unwound (unwinding assertions on)",
 "timeout": 900,
 "assumptions": ["SHA256_Buf/HMAC_SHA256_Buf are abstract logging leaves (models/aws_hash.c, G2): their conformance is C01's",
                 "asprintf is modelled (models/aws_fmt.c): records what is to be printed for %s %d %% in normal form, result bytes abstract; util/asprintf.c itself is not part of the proof (DFCC cannot instrument variadic functions); util/hexify.c is the real code",
                 "time/gmtime_r/strftime modelled (models/aws_time.c): arbitrary time_t, gmtime_r an uninterpreted function of it with well-formed values (years 1000..9999), strftime for %Y %m %d %H %M %S",
                 "inputs the published algorithm would URI-encode are over the URI-unreserved alphabet (paths: plus '/'), as property C19 quantifies; the secret and the body are arbitrary bytes",
                 "SUCCESS PATH ONLY: asprintf, malloc and time do not fail in this group (a symbolic execution that merges the error paths back makes the ghost trace symbolic and the comparison intractable); the failure paths are group C19/fail_paths",
                 "the comparison with spec/sigv4_spec.h is a set of harness-level obligations after the call (lockstep, harness/C19/c19.h)"]
}
*/
#include "c19.h"

void
h_s3_querystr(void)
{
	C19_INSTR_URI(key_id, 0);
	C19_INSTR(secret, C19_SMAX);
	C19_INSTR_URI(region, 0);
	C19_INSTR_URI(method, 0);
	C19_INSTR_URI(bucket, 0);
	C19_INSTR_URI(path, 1);
	IN(int, expiry);
	char * q;
	sv4_str e_q;
	const char * ts;

	C19_MODELS_RESET();
	C19_REG(C19_ID_KEY_ID, key_id);
	C19_REG(C19_ID_SECRET, secret);
	C19_REG(C19_ID_REGION, region);
	C19_REG(C19_ID_METHOD, method);
	C19_REG(C19_ID_BUCKET, bucket);
	C19_REG(C19_ID_PATH, path);
	g_c19.l_key_id = g_c19.l_secret = g_c19.l_region = g_c19.l_method = g_c19.l_bucket = g_c19.l_path = C19_SMAX;

	q = aws_sign_s3_querystr(key_id, secret, region, method, bucket, path, expiry);

	if (q != NULL) {
		/*
		 * the timestamp: the query string itself is abstract (normal form), so X-Amz-Date is taken from the
		 * time model -- the second string strftime produced -- and the specification must then
		 * reproduce the WHOLE query string, X-Amz-Date=<that timestamp> included, so it is the one returned
		 */
		__CPROVER_assert(g_aws_time.fmt_calls == 2 && g_aws_time.fmt_len[1] == 16, "one date and one timestamp were formatted");
		ts = g_aws_time.fmt_out[1];
		__CPROVER_assert(sv4_is_timestamp(ts), "X-Amz-Date has the form YYYYMMDD'T'HHMMSS'Z'");
		C19_SPEC_BEGIN(0);
		/* ${method} http://${bucket}.s3.amazonaws.com${path}?${query}, expires in ${expiry} seconds (aws_sign.h) */
		sv4_s3_presigned_query(key_id, secret, region, method, bucket, path, expiry, ts, &e_q);
		C19_SPEC_END();
		__CPROVER_assert(c19_result_is(q, &e_q), "the query string is the SigV4 presigned-URL query for the returned timestamp: credential scope date = its first 8 characters, expiry, signed headers, signature");
	}
	VCOVER(q != NULL && expiry == 0);
	VCOVER(q != NULL && expiry == -2147483647 - 1);
	VCOVER(q != NULL && expiry == 604800 && strlen(key_id) == C19_SMAX && strlen(secret) == 0 && strlen(region) == 1);
	VCOVER(q != NULL && strlen(method) == 3 && strlen(bucket) == 0 && strlen(path) == C19_SMAX && path[0] == '/');
}
