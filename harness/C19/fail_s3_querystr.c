/* VERIF-GROUP
{
 "property": ["C19", "C14"],
 "entry": "h_fail_s3_querystr",
 "enforce": ["aws_sign_s3_querystr"],
 "replace": [],
 "annotate": ["aws/aws_sign.c"],
 "defines": ["VERIF_HALLOC", "AWS_FMT_MAYFAIL", "AWS_TIME_MAYFAIL", "C19_SMAX=8", "C19_BMAX=8", "VERIF_STRMAX=80", "AWS_MMAX=32", "AWS_KMAX=32", "AWS_ARGMAX=72"],
 "models": ["models/libc_string.c", "models/aws_hash.c", "models/aws_fmt.c", "models/aws_time.c"],
 "instrument_flags": ["--nondet-static-exclude", "hexchars"],
 "cbmc": ["--malloc-may-fail", "--malloc-fail-null", "--memory-leak-check"],
 "loop_contracts": false,
 "bounded": true,
 "bound": "every string argument: all strings of <= 8 characters; body absent, empty or <= 8 bytes; every loop has a compile-time-constant bound and is fully unwound (unwinding assertions on)",
 "timeout": 600,
 "assumptions": ["FAILURE PATHS of aws_sign_s3_querystr (the success-path groups C19/s3_querystr and C19/sign_chain assume that nothing fails): time() arbitrary ((time_t)-1 included), asprintf fails arbitrarily or yields an abstract string (nothing recorded), malloc/strdup may fail",
                 "what is checked: the function contract (-1 or a string, frame, trace shape on success), memory safety of every error path (no double free, no use of an unset pointer), no leak (--memory-leak-check; the harness frees what a successful call returned)",
                 "SHA256_Buf/HMAC_SHA256_Buf are abstract logging leaves (models/aws_hash.c)"]
}
*/
#include "c19.h"

void
h_fail_s3_querystr(void)
{
	C19_INSTR(key_id, C19_SMAX);
	C19_INSTR(secret, C19_SMAX);
	C19_INSTR(region, C19_SMAX);
	C19_INSTR(method, C19_SMAX);
	C19_INSTR(bucket, C19_SMAX);
	C19_INSTR(path, C19_SMAX);
	IN(int, expiry);
	char * q;
	C19_MODELS_RESET();

	C19_REG(C19_ID_KEY_ID, key_id);
	C19_REG(C19_ID_SECRET, secret);
	C19_REG(C19_ID_REGION, region);
	C19_REG(C19_ID_METHOD, method);
	C19_REG(C19_ID_BUCKET, bucket);
	C19_REG(C19_ID_PATH, path);
	g_c19.l_key_id = g_c19.l_secret = g_c19.l_region = g_c19.l_method = g_c19.l_bucket = g_c19.l_path = C19_SMAX;
	g_c19.l_svc = g_c19.l_op = C19_SMAX;

	q = aws_sign_s3_querystr(key_id, secret, region, method, bucket, path, expiry);
	VCOVER(q != NULL);
	VCOVER(q == NULL && g_aws_time.time_calls == 1 && g_aws_n == 0);
	VCOVER(q == NULL && g_aws_n == 5);	/* the string to sign could not be formatted */
	VCOVER(q == NULL && g_aws_n == 6);	/* the query string itself could not be formatted */
	if (q != NULL)
		free(q);
}
