/* VERIF-GROUP
{
 "property": ["C19"],
 "entry": "h_sign_chain",
 "enforce": ["aws_sign"],
 "replace": [],
 "annotate": ["aws/aws_sign.c"],
 "defines": ["VERIF_HALLOC", "C19_SMAX=16", "C19_CREQMAX=16", "VERIF_STRMAX=40", "AWS_MMAX=32", "AWS_KMAX=32", "AWS_FMTMAX=336"],
 "thorough_defines": ["C19_SMAX=200", "C19_CREQMAX=200", "C19_BMAX=256", "VERIF_STRMAX=208", "AWS_MMAX=256"],
 "models": ["models/libc_string.c", "models/aws_hash.c", "models/aws_fmt.c", "models/aws_time.c"],
 "instrument_flags": ["--nondet-static-exclude", "hexchars"],
 "loop_contracts": false,
 "bounded": true,
 "bound": "secret, region, service, canonical request: every string of <= 16 characters (thorough: 200), date <= 8, datetime <= 16 characters, all byte values; formatted strings are compared in normal form (literal text at constant positions, input strings by reference: models/aws_stream.h) and are themselves represented by abstract stand-ins of <= 24 bytes, never rendered; every loop has a compile-time-constant bound and is fully unwound (unwinding assertions on)",
 "timeout": 600,
 "assumptions": ["SHA256_Buf/HMAC_SHA256_Buf are abstract logging leaves (models/aws_hash.c, G2): their conformance is C01's",
                 "asprintf is modelled (models/aws_fmt.c): records what is to be printed for %s %d %% in normal form, result bytes abstract; util/asprintf.c itself is not part of the proof (DFCC cannot instrument variadic functions); util/hexify.c is the real code",
                 "SUCCESS PATH ONLY: asprintf, malloc and time do not fail in this group (a symbolic execution that merges the error paths back makes the ghost trace symbolic and the comparison intractable); the failure paths are group C19/fail_paths",
                 "the comparison with spec/sigv4_spec.h is a set of harness-level obligations after the call (lockstep, harness/C19/c19.h)"]
}
*/
#include "c19.h"

void
h_sign_chain(void)
{
	C19_INSTR(secret, C19_SMAX);
	C19_INSTR(date, 8);
	C19_INSTR(datetime, 16);
	C19_INSTR(region, C19_SMAX);
	C19_INSTR(service, C19_SMAX);
	C19_INSTR(creq, C19_CREQMAX);
	char sigbuf[65];
	char spec_sig[65];
	sv4_str s_secret, s_date, s_datetime, s_region, s_service, s_creq;
	int rc, same;
	size_t i;

	C19_MODELS_RESET();
	C19_REG(C19_ID_SECRET, secret);
	C19_REG(C19_ID_DATE, date);
	C19_REG(C19_ID_DATETIME, datetime);
	C19_REG(C19_ID_REGION, region);
	C19_REG(C19_ID_SVC, service);
	C19_REG(C19_ID_CREQ, creq);
	g_c19.l_secret = C19_SMAX;
	g_c19.l_date = 8;
	g_c19.l_datetime = 16;
	g_c19.l_region = C19_SMAX;
	g_c19.l_svc = C19_SMAX;
	g_c19.l_creq = C19_CREQMAX;

	rc = aws_sign(secret, date, datetime, region, service, creq, sigbuf);

	if (rc == 0) {
		/* the specification, run in lockstep against the logged trace */
		sv4_init(&s_secret); sv4_in(&s_secret, secret);
		sv4_init(&s_date); sv4_in(&s_date, date);
		sv4_init(&s_datetime); sv4_in(&s_datetime, datetime);
		sv4_init(&s_region); sv4_in(&s_region, region);
		sv4_init(&s_service); sv4_in(&s_service, service);
		sv4_init(&s_creq); sv4_in(&s_creq, creq);
		C19_SPEC_BEGIN(0);
		sv4_signature(&s_secret, &s_date, &s_datetime, &s_region, &s_service, &s_creq, spec_sig);
		C19_SPEC_END();
		for (i = 0, same = 1; i < 65; i++)
			if (sigbuf[i] != spec_sig[i])
				same = 0;
		__CPROVER_assert(same, "SigV4: the signature is the hex of HMAC(kSigning, StringToSign)");
	}
	VCOVER(rc == 0 && strlen(secret) == C19_SMAX && strlen(region) == 0);
	VCOVER(rc == 0 && strlen(secret) == 0 && strlen(region) == C19_SMAX && strlen(service) == 1 && strlen(date) == 8);
	VCOVER(rc == 0 && strlen(creq) == C19_CREQMAX && strlen(datetime) == 16);
	VCOVER(rc == 0 && strlen(creq) == 0 && strlen(date) == 0 && strlen(datetime) == 0);
}
