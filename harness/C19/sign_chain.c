/* VERIF-GROUP
{
 "property": ["C19"],
 "entry": "h_sign_chain",
 "enforce": ["aws_sign"],
 "replace": [],
 "annotate": ["aws/aws_sign.c"],
 "defines": ["VERIF_HALLOC", "AWS_OUTMAX=160", "C19_SMAX=2", "C19_N0=0", "C19_CREQMAX=6", "VERIF_STRMAX=160", "AWS_MMAX=160", "SV4_MAX=160", "AWS_FMTMAX=160"],
 "thorough_defines": ["C19_SMAX=3"],
 "models": ["models/libc_string.c", "models/aws_hash.c", "models/aws_fmt.c", "models/aws_time.c"],
 "instrument_flags": ["--nondet-static-exclude", "hexchars"],
 "cbmc": ["--malloc-may-fail", "--malloc-fail-null"],
 "loop_contracts": false,
 "unwind": 162, "bounded": true,
 "bound": "secret, region, service <= 2 characters (thorough: 3), date <= 8, datetime <= 16, canonical request <= 6 characters; all loops (libc string scans, vsnprintf model, hash-log copies, hexify) fully unwound, unwinding assertions on",
 "timeout": 600,
 "assumptions": ["SHA256_Buf/HMAC_SHA256_Buf are abstract logging leaves (models/aws_hash.c, G2): their conformance is C01's",
                 "vsnprintf is modelled for %s %d %% (models/aws_fmt.c); util/asprintf.c and util/hexify.c are the real code",
                 "the byte-for-byte comparison with spec/sigv4_spec.h is a set of harness-level obligations after the call"]
}
*/
#include "c19.h"

void
h_sign_chain(void)
{
	C19_INSTR(secret, C19_SMAX);
	C19_INSTR(date, 8);
	C19_INSTR(datetime, 16);
	C19_INSTR(region, C19_SMAX);
	C19_INSTR(service, C19_SMAX);
	C19_INSTR(creq, C19_CREQMAX);
	char sigbuf[65];
	char spec_sig[65];
	struct sv4_str C;
	size_t n0 = C19_N0;
	int rc;

	C19_MODELS_RESET();
	__CPROVER_assume(n0 <= AWS_LOG_N - 6);
	g_aws_n = n0;
	g_c19.l_secret = l_secret;
	g_c19.l_date = l_date;
	g_c19.l_datetime = l_datetime;
	g_c19.l_region = l_region;
	g_c19.l_svc = l_service;
	g_c19.l_creq = l_creq;

	rc = aws_sign(secret, date, datetime, region, service, creq, sigbuf);

	if (rc == 0) {
		/* the specification, run in lockstep against the logged trace */
		sv4_init(&C);
		sv4_cstr(&C, creq);
		C19_SPEC_BEGIN(n0);
		sv4_signature(secret, date, datetime, region, service, &C, spec_sig);
		C19_SPEC_END();
		__CPROVER_assert(memcmp(sigbuf, spec_sig, 65) == 0, "SigV4: the signature is the hex of HMAC(kSigning, StringToSign)");
	}
	VCOVER(rc == 0 && strlen(secret) == C19_SMAX && strlen(region) == 0);
	VCOVER(rc == 0 && strlen(secret) == 0 && strlen(region) == C19_SMAX && strlen(service) == 1 && strlen(date) == 8);
	VCOVER(rc == 0 && strlen(creq) == C19_CREQMAX && strlen(datetime) == 16);
	VCOVER(rc == 0 && strlen(creq) == 0 && strlen(date) == 0 && strlen(datetime) == 0);
	VCOVER(rc == -1);
	free(secret_o); free(date_o); free(datetime_o); free(region_o); free(service_o); free(creq_o);
}
