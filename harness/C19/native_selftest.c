/*
 * harness/C19/native_selftest.c -- NOT a proof, not run by ./check: a native cross-check that supports two
 * ASSUMPTIONS of the C19 groups (run by hand: harness/C19/native_selftest.sh).
 *
 *  1. spec/sigv4_spec.h really is Signature Version 4: with the primitives bound to the real SHA-256 / HMAC
 *     (alg/sha256.c) it reproduces the example of the AWS General Reference (IAM ListUsers, 20150830T123600Z):
 *     hashed canonical request, signing key chain, final signature.
 *  2. "equal normal forms = equal byte strings" and "asprintf renders the pieces in order" (models/aws_stream.h,
 *     models/aws_fmt.c): the REAL aws/aws_sign.c + util/asprintf.c + glibc vsnprintf, run natively with time()
 *     pinned, return byte for byte the strings obtained by FLATTENING the specification's normal forms, for a few
 *     concrete inputs of each of the four front ends.
 */
#define VERIF_NATIVE 1
#include <assert.h>
#include <stdio.h>
#include <stdlib.h>
#include <string.h>
#include <time.h>

#include "sha256.h"
#include "hexify.h"
#include "aws_sign.h"
#include "aws_stream.h"

struct aws_var g_aws_in[AWS_NIN];
struct aws_var g_aws_fix[AWS_NFIX];
size_t g_aws_nfix;

static size_t
flatten(const struct aws_stream * S, uint8_t * out)
{
	size_t n = 0, i;

	for (i = 0; i < S->n; i++) {
		if (S->t[i].kind == AWS_TK_TEXT) {
			memcpy(out + n, S->t[i].text, S->t[i].len);
			n += S->t[i].len;
		} else if (S->t[i].kind == AWS_TK_REF) {
			if (g_aws_in[S->t[i].id].len > 0)
				memcpy(out + n, g_aws_in[S->t[i].id].ptr, g_aws_in[S->t[i].id].len);
			n += g_aws_in[S->t[i].id].len;
		} else
			n += (size_t)sprintf((char *)out + n, "%d", S->t[i].ival);
	}
	out[n] = 0;
	return (n);
}

static void
nat_sha(const struct aws_stream * m, uint8_t out[32])
{
	uint8_t b[4096];
	size_t n = flatten(m, b);

	SHA256_Buf(b, n, out);
}

static void
nat_hmac_s(const struct aws_stream * k, const struct aws_stream * m, uint8_t out[32])
{
	uint8_t kb[4096], mb[4096];
	size_t kn = flatten(k, kb), mn = flatten(m, mb);

	HMAC_SHA256_Buf(kb, kn, mb, mn, out);
}

static uint8_t last_key[32];
static void
nat_hmac_b(const uint8_t k[32], const struct aws_stream * m, uint8_t out[32])
{
	uint8_t mb[4096];
	size_t mn = flatten(m, mb);

	memcpy(last_key, k, 32);
	HMAC_SHA256_Buf(k, 32, mb, mn, out);
}
#define SV4_SHA256(msg, out)		nat_sha((msg), (out))
#define SV4_HMAC_S(key, msg, out)	nat_hmac_s((key), (msg), (out))
#define SV4_HMAC_B(key, msg, out)	nat_hmac_b((key), (msg), (out))
#include "sigv4_spec.h"

static void
reg(int id, const char * s)
{

	g_aws_in[id].ptr = s;
	g_aws_in[id].len = strlen(s);
	g_aws_in[id].blob = 0;
}

/* time() is pinned: the library is compiled with -Dtime=selftest_time */
time_t
selftest_time(time_t * t)
{

	if (t != NULL)
		*t = 1440938160;	/* 2015-08-30T12:36:00Z */
	return (1440938160);
}

static int fails;
static void
same(const char * what, const char * got, const struct aws_stream * E)
{
	uint8_t b[4096];

	flatten(E, b);
	if (strcmp(got, (const char *)b) != 0) {
		printf("MISMATCH %s\n  library: %s\n  spec:    %s\n", what, got, b);
		fails++;
	} else
		printf("ok   %s (%zu bytes)\n", what, strlen(got));
}

int
main(void)
{
	/* ---- 1. the AWS General Reference example ---- */
	{
		static const char * creq_text =
		    "GET\n/\nAction=ListUsers&Version=2010-05-08\n"
		    "content-type:application/x-www-form-urlencoded; charset=utf-8\n"
		    "host:iam.amazonaws.com\nx-amz-date:20150830T123600Z\n\n"
		    "content-type;host;x-amz-date\n"
		    "e3b0c44298fc1c149afbf4c8996fb92427ae41e4649b934ca495991b7852b855";
		sv4_str sec, date, datetime, region, service, creq;
		uint8_t h[32];
		char hex[65], sig[65];

		reg(1, "wJalrXUtnFEMI/K7MDENG+bPxRfiCYEXAMPLEKEY");
		reg(2, "us-east-1");
		reg(6, "iam");
		reg(11, creq_text);
		sv4_init(&sec); sv4_in(&sec, g_aws_in[1].ptr);
		sv4_init(&region); sv4_in(&region, g_aws_in[2].ptr);
		sv4_init(&service); sv4_in(&service, g_aws_in[6].ptr);
		sv4_init(&creq); sv4_in(&creq, creq_text);
		sv4_init(&date); sv4_mem(&date, "20150830", 8);
		sv4_init(&datetime); sv4_mem(&datetime, "20150830T123600Z", 16);
		SHA256_Buf(creq_text, strlen(creq_text), h);
		hexify(h, hex, 32);
		printf("%s hashed canonical request %s\n",
		    strcmp(hex, "f536975d06c0309214f805bb90ccff089219ecd68b2577efef23edd43b7e1a59") ? (fails++, "MISMATCH") : "ok  ", hex);
		sv4_signature(&sec, &date, &datetime, &region, &service, &creq, sig);
		hexify(last_key, hex, 32);
		printf("%s signing key %s\n",
		    strcmp(hex, "c4afb1cc5771d871763a393e44b703571b55cc28424d1a5e86da6ed3c154a4b9") ? (fails++, "MISMATCH") : "ok  ", hex);
		printf("%s signature   %s\n",
		    strcmp(sig, "5d672d79c15b13162d9279b0855cfba6789a8edb4c82c400e06b5924a6f2b5d7") ? (fails++, "MISMATCH") : "ok  ", sig);
	}

	/* ---- 2. the real library against the flattened specification ---- */
	{
		static const char * ids[] = { "AKIDEXAMPLE", "A", "" };
		static const char * secrets[] = { "wJalrXUtnFEMI/K7MDENG+bPxRfiCYEXAMPLEKEY", "s3cr3t with spaces & %", "" };
		static const char * regions[] = { "us-east-1", "eu-west-2", "r" };
		static const char * paths[] = { "/", "/some/key_name-1.0~x", "" };
		static const uint8_t bodybytes[] = { 0, 1, 2, 'a', 0xff, '\n' };
		size_t c;

		for (c = 0; c < 3; c++) {
			const char * key_id = ids[c], * secret = secrets[c], * region = regions[c], * path = paths[c];
			const char * method = (c == 1) ? "PUT" : "GET", * bucket = (c == 2) ? "" : "my-bucket.v2";
			const char * svcname = (c == 0) ? "ec2" : "email", * op = (c == 0) ? "GetItem" : "Q";
			const uint8_t * body = (c == 0) ? NULL : bodybytes;
			size_t bodylen = (c == 0) ? 77 : (c == 1) ? sizeof(bodybytes) : 0;
			int expiry = (c == 0) ? 604800 : (c == 1) ? 0 : -2147483647 - 1;
			char * sha, * xdate, * auth, * q;
			sv4_str e_sha, e_auth, svc, meth, uri, host, target, body_s, e_q;

			memset(g_aws_in, 0, sizeof(g_aws_in));
			reg(0, key_id); reg(1, secret); reg(2, region); reg(3, method); reg(4, bucket); reg(5, path);
			reg(6, svcname); reg(7, op);
			g_aws_in[8].ptr = body; g_aws_in[8].len = body ? bodylen : 0; g_aws_in[8].blob = 1;
			sv4_init(&body_s); aws_stream_ref(&body_s, 8);

			/* S3, header-signed */
			assert(aws_sign_s3_headers(key_id, secret, region, method, bucket, path, body, bodylen, &sha, &xdate, &auth) == 0);
			assert(sv4_is_timestamp(xdate));
			sv4_init(&svc); sv4_lit(&svc, "s3");
			sv4_init(&meth); sv4_in(&meth, method);
			sv4_init(&uri); sv4_uri_in(&uri, path, 1);
			sv4_init(&host); sv4_hdrval_in(&host, bucket); sv4_lit(&host, ".s3.amazonaws.com");
			sv4_headers_request(key_id, secret, region, &svc, &meth, &uri, &host, NULL, &body_s, xdate, &e_sha, &e_auth);
			same("s3_headers  X-Amz-Content-SHA256", sha, &e_sha);
			same("s3_headers  Authorization", auth, &e_auth);
			free(sha); free(xdate); free(auth);

			/* generic service */
			assert(aws_sign_svc_headers(key_id, secret, region, svcname, body, bodylen, &sha, &xdate, &auth) == 0);
			sv4_init(&svc); sv4_in(&svc, svcname);
			sv4_init(&meth); sv4_lit(&meth, "POST");
			sv4_init(&uri); sv4_lit(&uri, "/");
			sv4_init(&host); sv4_hdrval_in(&host, svcname); sv4_c(&host, '.'); sv4_hdrval_in(&host, region);
			sv4_lit(&host, ".amazonaws.com");
			sv4_headers_request(key_id, secret, region, &svc, &meth, &uri, &host, NULL, &body_s, xdate, &e_sha, &e_auth);
			same("svc_headers Authorization", auth, &e_auth);
			free(sha); free(xdate); free(auth);

			/* DynamoDB */
			assert(aws_sign_dynamodb_headers(key_id, secret, region, op, body, bodylen, &sha, &xdate, &auth) == 0);
			sv4_init(&svc); sv4_lit(&svc, "dynamodb");
			sv4_init(&host); sv4_lit(&host, "dynamodb."); sv4_hdrval_in(&host, region); sv4_lit(&host, ".amazonaws.com");
			sv4_init(&target); sv4_lit(&target, "DynamoDB_20120810."); sv4_hdrval_in(&target, op);
			sv4_headers_request(key_id, secret, region, &svc, &meth, &uri, &host, &target, &body_s, xdate, &e_sha, &e_auth);
			same("dynamodb    Authorization", auth, &e_auth);
			free(sha); free(auth);

			/* S3, presigned URL */
			q = aws_sign_s3_querystr(key_id, secret, region, method, bucket, path, expiry);
			assert(q != NULL);
			sv4_s3_presigned_query(key_id, secret, region, method, bucket, path, expiry, xdate, &e_q);
			same("s3_querystr query string", q, &e_q);
			free(q); free(xdate);
		}
	}
	printf(fails ? "SELFTEST FAILED (%d)\n" : "SELFTEST OK\n", fails);
	return (fails != 0);
}
