/* VERIF-GROUP
{
 "property": ["C19"],
 "entry": "h_dynamodb_headers",
 "enforce": ["aws_sign_dynamodb_headers"],
 "replace": [],
 "annotate": ["aws/aws_sign.c"],
 "defines": ["VERIF_HALLOC", "C19_SMAX=16", "C19_BMAX=16", "VERIF_STRMAX=40", "AWS_MMAX=32", "AWS_KMAX=32", "AWS_FMTMAX=336"],
 "thorough_defines": ["C19_SMAX=200", "C19_CREQMAX=200", "C19_BMAX=256", "VERIF_STRMAX=208", "AWS_MMAX=256"],
 "models": ["models/libc_string.c", "models/aws_hash.c", "models/aws_fmt.c", "models/aws_time.c"],
 "instrument_flags": ["--nondet-static-exclude", "hexchars"],
 "loop_contracts": false,
 "bounded": true,
 "bound": "every string argument: all strings of <= 16 characters (thorough: 200); body absent, empty or <= 16 bytes (thorough: 256), bodylen arbitrary when the body is absent; formatted strings are compared in normal form (literal text at constant positions, input strings by reference: models/aws_stream.h) and are themselves represented by abstract stand-ins of <= 24 bytes, never rendered; every loop has a compile-time-constant bound and is fully unwound (unwinding assertions on)",
 "timeout": 900,
 "assumptions": ["SHA256_Buf/HMAC_SHA256_Buf are abstract logging leaves (models/aws_hash.c, G2): their conformance is C01's",
                 "asprintf is modelled (models/aws_fmt.c): records what is to be printed for %s %d %% in normal form, result bytes abstract; util/asprintf.c itself is not part of the proof (DFCC cannot instrument variadic functions); util/hexify.c is the real code",
                 "time/gmtime_r/strftime modelled (models/aws_time.c): arbitrary time_t, gmtime_r an uninterpreted function of it with well-formed values (years 1000..9999), strftime for %Y %m %d %H %M %S",
                 "inputs the published algorithm would URI-encode are over the URI-unreserved alphabet (paths: plus '/'), as property C19 quantifies; the secret and the body are arbitrary bytes",
                 "SUCCESS PATH ONLY: asprintf, malloc and time do not fail in this group (a symbolic execution that merges the error paths back makes the ghost trace symbolic and the comparison intractable); the failure paths are group C19/fail_paths",
                 "the comparison with spec/sigv4_spec.h is a set of harness-level obligations after the call (lockstep, harness/C19/c19.h)"]
}
*/
#include "c19.h"

void
h_dynamodb_headers(void)
{
	C19_INSTR_URI(key_id, 0);
	C19_INSTR(secret, C19_SMAX);
	C19_INSTR_URI(region, 0);
	C19_INSTR_URI(op, 0);
	char * x_amz_content_sha256 = NULL, * x_amz_date = NULL, * authorization = NULL;
	sv4_str e_sha, e_auth, svc, meth, uri, host, target, body_s;
	int rc;

	C19_MODELS_RESET();
	C19_INBODY();
	C19_REG(C19_ID_KEY_ID, key_id);
	C19_REG(C19_ID_SECRET, secret);
	C19_REG(C19_ID_REGION, region);
	C19_REG(C19_ID_OP, op);
	g_c19.l_key_id = g_c19.l_secret = g_c19.l_region = g_c19.l_op = C19_SMAX;

	rc = aws_sign_dynamodb_headers(key_id, secret, region, op, body, bodylen,
	    &x_amz_content_sha256, &x_amz_date, &authorization);

	if (rc == 0) {
		/* the timestamp the caller is told to send: X-Amz-Date */
		__CPROVER_assert(sv4_is_timestamp(x_amz_date), "X-Amz-Date has the form YYYYMMDD'T'HHMMSS'Z'");
		/* the specification, run in lockstep against the logged trace, for THAT timestamp */
		C19_SPEC_BEGIN(0);
		/*
		 * POST / HTTP/1.1, Host: dynamodb.${region}.amazonaws.com, X-Amz-Target: DynamoDB_20120810.${op},
		 * service dynamodb, region ${region} (aws_sign.h)
		 */
		sv4_init(&svc); sv4_lit(&svc, "dynamodb");
		sv4_init(&meth); sv4_lit(&meth, "POST");
		sv4_init(&uri); sv4_lit(&uri, "/");
		sv4_init(&host); sv4_lit(&host, "dynamodb."); sv4_hdrval_in(&host, region); sv4_lit(&host, ".amazonaws.com");
		sv4_init(&target); sv4_lit(&target, "DynamoDB_20120810."); sv4_hdrval_in(&target, op);
		sv4_init(&body_s); aws_stream_ref(&body_s, C19_ID_BODY);
		sv4_headers_request(key_id, secret, region, &svc, &meth, &uri, &host, &target, &body_s, x_amz_date,
		    &e_sha, &e_auth);
		C19_SPEC_END();
		__CPROVER_assert(c19_same_text(x_amz_content_sha256, &e_sha), "X-Amz-Content-SHA256 is the hex of SHA256(body)");
		__CPROVER_assert(c19_result_is(authorization, &e_auth), "Authorization is the SigV4 header value for the returned timestamp: credential scope date = its first 8 characters, signed headers, signature");
	}
	VCOVER(rc == 0 && !nobody && bodylen == C19_BMAX);
	VCOVER(rc == 0 && !nobody && bodylen == 0);
	VCOVER(rc == 0 && nobody && bodylen > C19_BMAX);
	VCOVER(rc == 0 && strlen(key_id) == C19_SMAX && strlen(secret) == 0 && strlen(region) == 1);
	VCOVER(rc == 0 && strlen(op) == C19_SMAX && strlen(region) == 2);
}
