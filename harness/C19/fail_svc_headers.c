/* VERIF-GROUP
{
 "property": ["C19", "C14"],
 "entry": "h_fail_svc_headers",
 "enforce": ["aws_sign_svc_headers"],
 "replace": [],
 "annotate": ["aws/aws_sign.c"],
 "defines": ["VERIF_HALLOC", "AWS_FMT_MAYFAIL", "AWS_TIME_MAYFAIL", "C19_SMAX=8", "C19_BMAX=8", "VERIF_STRMAX=80", "AWS_MMAX=32", "AWS_KMAX=32", "AWS_ARGMAX=72"],
 "models": ["models/libc_string.c", "models/aws_hash.c", "models/aws_fmt.c", "models/aws_time.c"],
 "instrument_flags": ["--nondet-static-exclude", "hexchars"],
 "cbmc": ["--malloc-may-fail", "--malloc-fail-null", "--memory-leak-check"],
 "loop_contracts": false,
 "bounded": true,
 "bound": "every string argument: all strings of <= 8 characters; body absent, empty or <= 8 bytes; every loop has a compile-time-constant bound and is fully unwound (unwinding assertions on)",
 "timeout": 600,
 "assumptions": ["FAILURE PATHS of aws_sign_svc_headers (the success-path groups C19/svc_headers and C19/sign_chain assume that nothing fails): time() arbitrary ((time_t)-1 included), asprintf fails arbitrarily or yields an abstract string (nothing recorded), malloc/strdup may fail",
                 "what is checked: the function contract (-1 or 0, frame, trace shape on success), memory safety of every error path (no double free, no use of an unset pointer), no leak (--memory-leak-check; the harness frees what a successful call returned)",
                 "SHA256_Buf/HMAC_SHA256_Buf are abstract logging leaves (models/aws_hash.c)"]
}
*/
#include "c19.h"

void
h_fail_svc_headers(void)
{
	C19_INSTR(key_id, C19_SMAX);
	C19_INSTR(secret, C19_SMAX);
	C19_INSTR(region, C19_SMAX);
	C19_INSTR(svcname, C19_SMAX);
	char * x_amz_content_sha256 = NULL, * x_amz_date = NULL, * authorization = NULL;
	int rc, x_amz_date_set;
	C19_MODELS_RESET();
	C19_INBODY();
	C19_REG(C19_ID_KEY_ID, key_id);
	C19_REG(C19_ID_SECRET, secret);
	C19_REG(C19_ID_REGION, region);
	C19_REG(C19_ID_SVC, svcname);
	g_c19.l_key_id = g_c19.l_secret = g_c19.l_region = g_c19.l_method = g_c19.l_bucket = g_c19.l_path = C19_SMAX;
	g_c19.l_svc = g_c19.l_op = C19_SMAX;

	rc = aws_sign_svc_headers(key_id, secret, region, svcname, body, bodylen,
	    &x_amz_content_sha256, &x_amz_date, &authorization);
	x_amz_date_set = (x_amz_date != NULL);
	__CPROVER_assert(rc == 0 || rc == -1, "returns 0 or -1");
	VCOVER(rc == 0);
	VCOVER(rc == -1 && g_aws_time.time_calls == 1 && g_aws_n == 0);	/* time() or nothing formatted */
	VCOVER(rc == -1 && g_aws_n == 1);					/* canonical request formatted, aws_sign's first asprintf failed */
	VCOVER(rc == -1 && g_aws_n == 6);					/* the string to sign could not be formatted */
	VCOVER(rc == -1 && g_aws_n == 7 && x_amz_date_set == 0);		/* Authorization or the first strdup failed */
	if (rc == 0) {
		free(x_amz_content_sha256);
		free(x_amz_date);
		free(authorization);
	}
}
