/* shared pre-state construction for the parsenum harnesses: every NUL-terminated string of fewer than
   NUM_MAXLEN characters, in a heap object of exactly strlen + 1 bytes (so any access past either end is a
   failed pointer check), arbitrary content */
#ifndef PN_H_
#define PN_H_
#include "num_ghost.h"
#define PN_MKSTR(str) \
	IN(size_t, slen); \
	__CPROVER_assume(slen < NUM_MAXLEN); \
	IN_BYTES(str##_raw, slen + 1, NUM_MAXLEN); \
	char * str = (char *)str##_raw; \
	for (size_t str##_i = 0; str##_i < NUM_MAXLEN; str##_i++) \
		if (str##_i < slen) \
			__CPROVER_assume(str[str##_i] != '\0'); \
	str[slen] = '\0'; \
	g_num_slen = slen
#ifdef VERIF_NATIVE
/* natively libc does the conversion; the ghosts are recomputed by the executable model on the same string */
#define PN_NATIVE_GHOSTS(str, base) num_scan(str, base)
#else
#define PN_NATIVE_GHOSTS(str, base) do {} while (0)
#endif
#endif
