/* shared pre-state construction for the parsenum harnesses: every NUL-terminated string of fewer than
   NUM_MAXLEN characters, in a heap object of exactly strlen + 1 bytes (so any access past either end is a
   failed pointer check), arbitrary content */
#ifndef PN_H_
#define PN_H_
#include "num_ghost.h"
#if defined(VERIF_TRACE) && !defined(VERIF_NATIVE)
/*
 * counterexample build: verif.h's IN_BYTES initialises the heap object from a named array, which makes the
 * SAT instance of these harnesses two orders of magnitude slower; here the content is *recorded* into the
 * named array instead (same names, so the native replay finds the bytes).
 */
#define PN_BYTES(name, len) \
	uint8_t * name = malloc(len); \
	__CPROVER_assume(name != NULL)
#define PN_RECORD(name, len) \
	uint8_t name##_b[NUM_MAXLEN]; \
	for (size_t name##_k = 0; name##_k < NUM_MAXLEN; name##_k++) \
		if (name##_k < (len)) name##_b[name##_k] = name[name##_k]
#else
#define PN_BYTES(name, len) IN_BYTES(name, len, NUM_MAXLEN)
#define PN_RECORD(name, len) do {} while (0)
#endif
#define PN_MKSTR(str) \
	IN(size_t, slen); \
	__CPROVER_assume(slen < NUM_MAXLEN); \
	PN_BYTES(str##_raw, slen + 1); \
	char * str = (char *)str##_raw; \
	for (size_t str##_i = 0; str##_i < NUM_MAXLEN; str##_i++) \
		if (str##_i < slen) \
			__CPROVER_assume(str[str##_i] != '\0'); \
	str[slen] = '\0'; \
	PN_RECORD(str##_raw, slen + 1); \
	g_num_slen = slen
#ifdef VERIF_NATIVE
/* natively libc does the conversion; the ghosts are recomputed by the executable model on the same string */
#define PN_NATIVE_GHOSTS(str, base) do { num_scan(str, base); g_num_calls++; g_num_sptr = (str); g_num_reqbase = (base); } while (0)
#else
#define PN_NATIVE_GHOSTS(str, base) do {} while (0)
#endif
#endif
