/* shared body of the humansize_parse harnesses (hs_parse.c: SAT, every clause but one; hs_parse_mul.c: SMT, every clause) */
#include <stdlib.h>
#include "verif.h"
#include "num_hs_ghost.h"
struct hs_spec g_hs;
size_t g_hs_len;
uint64_t g_hs_sz, g_hs_mult;
#include "util/humansize.c"

void
HS_PARSE_ENTRY(void)
{
	IN(size_t, slen);
	__CPROVER_assume(slen < HS_MAXLEN);
	IN_BYTES(str_raw, slen + 1, HS_MAXLEN);
	char * str = (char *)str_raw;
	uint64_t * out = malloc(sizeof(uint64_t));
	size_t i;
	int rc;

	__CPROVER_assume(out != NULL);
	for (i = 0; i < HS_MAXLEN; i++)
		if (i < slen)
			__CPROVER_assume(str[i] != '\0');
	str[slen] = '\0';
	g_hs_len = slen;
	HS_SPEC_INIT(g_hs);

	rc = humansize_parse(str, out);

	HS_PARSE_MARKERS;
}
