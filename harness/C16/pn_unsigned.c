/* VERIF-GROUP
{
 "property": ["C16"],
 "entry": "h_pn_unsigned",
 "enforce": ["parsenum_unsigned"],
 "replace": [],
 "loop_contracts": false,
 "backend": "kissat",
 "annotate": ["util/parsenum.h"],
 "defines": ["VERIF_HALLOC", "NUM_MAXLEN=12", "VERIF_STRMAX=14"],
 "thorough_defines": ["NUM_MAXLEN=70", "VERIF_STRMAX=72"],
 "models": ["models/num_strto.c", "models/libc_string.c"],
 "native": true,
 "native_models": ["models/num_strto.c"],
 "timeout": 300,
 "assumptions": ["strtoumax behaves as C11 7.22.1.4 in the C locale (models/num_strto.c: white space, sign, base prefix and digit run are scanned concretely; the magnitude of a numeral of two or more digits is uninterpreted; ghost outputs nd/neg/ovf/mag/end)",
                 "symbolic string object of fewer than NUM_MAXLEN characters (24 quick, 70 thorough: enough for 64 binary digits + sign + prefix)"]
}
*/
#include <errno.h>
#include <stdlib.h>
#include "verif.h"
#include "parsenum.h"
#include "pn.h"

void
h_pn_unsigned(void)
{
	PN_MKSTR(str);
	IN(uintmax_t, min);
	IN(uintmax_t, max);
	IN(uintmax_t, typemax);
	IN(int, base);
	IN(int, trailing);
	uintmax_t rv;

	__CPROVER_assume(base == 0 || (base >= 2 && base <= 36));
	errno = 0;
	rv = parsenum_unsigned(str, min, max, typemax, base, trailing);
	PN_NATIVE_GHOSTS(str, base);
	__CPROVER_assert(g_num_sptr == str, "C16 parsenum: the conversion was applied to the given string");

	/* the property, restated at harness level (also evaluated by the native replay) */
	__CPROVER_assert(!(errno == 0) || (g_num_nd && !g_num_ovf && NUM_W(min) <= NUM_V && NUM_V <= NUM_W(max) &&
	    NUM_V <= NUM_W(typemax) && NUM_W(rv) == NUM_V),
	    "C16 parsenum_unsigned: success => numeral's mathematical value within [min,max] and [0,typemax], and returned exactly");

	/* an instance of the assertion above on which the model is exact (one digit), so that a counterexample
	   replays natively: "-1" ... "-z" */
	__CPROVER_assert(!(errno == 0 && g_num_neg && g_num_ndig == 1 && g_num_mag != 0),
	    "C16 parsenum_unsigned: a negative one-digit numeral (\"-1\") must not be accepted as an unsigned value");

	VCOVER(errno == 0 && !g_num_neg && g_num_mag > 1000 && g_num_end == slen);
	VCOVER(errno == 0 && g_num_neg && g_num_mag == 0);			/* "-0" is zero */
	VCOVER(errno == 0 && trailing && g_num_end < slen);			/* trailing characters allowed */
	VCOVER(errno == 0 && g_num_base == 16 && base == 0 && g_num_mag == 255);	/* 0xff */
	VCOVER(errno == 0 && g_num_base == 8 && base == 0 && g_num_mag == 8);	/* 010 */
	VCOVER(errno == 0 && g_num_mag == UINTMAX_MAX);
	VCOVER(errno == EINVAL && !g_num_nd);
	VCOVER(errno == EINVAL && g_num_nd && g_num_end < slen);
	VCOVER(errno == ERANGE && g_num_ovf);
	VCOVER(errno == ERANGE && !g_num_ovf && g_num_mag > typemax && g_num_mag <= max);
	VCOVER(errno == ERANGE && !g_num_ovf && g_num_mag < min);
	VCOVER(errno == ERANGE && g_num_neg && g_num_mag == 1 && typemax < UINTMAX_MAX);	/* "-1" into uint32_t */
}
