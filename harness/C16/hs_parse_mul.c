/* VERIF-GROUP
{
 "property": ["C16"],
 "entry": "h_hs_parse_mul",
 "enforce": ["humansize_parse"],
 "replace": [],
 "annotate": ["util/humansize.c"],
 "defines": ["VERIF_HALLOC", "HS_MAXLEN=28", "HS_MULCLAUSE"],
 "backend": "z3",
 "cbmc": ["--property", "humansize_parse.postcondition.1", "--property", "h_hs_parse_mul.assertion.1", "--property", "h_hs_parse_mul.assertion.2", "--property", "h_hs_parse_mul.assertion.3", "--property", "humansize_parse.loop_invariant_step.1"],
 "models": ["models/num_asprintf.c", "models/libc_string.c"],
 "timeout": 300,
 "assumptions": ["this group decides the clause *size == g_hs_sz * g_hs_mult (selected with --property, plus one loop-invariant step obligation because the driver insists on seeing the loop contract applied) with z3; every other obligation of humansize_parse is decided by C16/hs_parse with the SAT back end",
                 "symbolic string object of fewer than HS_MAXLEN characters (the loop proof itself is inductive: any number of iterations); 28 covers 20 digits + space + prefix + B + junk",
                 "meta-level: a rejection before the end of the string is final because the specification automaton's dead state is absorbing and the digit value only grows (stated in the contract; cross-checked, bounded, by group C16/hs_parse_full)"]
}
*/
#define HS_PARSE_ENTRY h_hs_parse_mul
/* few and simple markers: the SMT back end is slow at finding witnesses with particular 64-bit values */
#define HS_PARSE_MARKERS do { \
	VCOVER(rc == 0 && g_hs.k == 0); \
	VCOVER(rc == 0 && g_hs.k == 3); \
	VCOVER(rc == -1); \
} while (0)
#include "hs_parse_body.h"
