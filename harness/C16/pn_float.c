/* VERIF-GROUP
{
 "property": ["C16"],
 "entry": "h_pn_float",
 "enforce": ["parsenum_float"],
 "replace": [],
 "loop_contracts": false,
 "annotate": ["util/parsenum.h"],
 "defines": ["VERIF_HALLOC", "NUM_MAXLEN=12", "VERIF_STRMAX=14"],
 "thorough_defines": ["NUM_MAXLEN=70", "VERIF_STRMAX=72"],
 "models": ["models/num_strto.c", "models/libc_string.c"],
 "timeout": 300,
 "assumptions": ["strtod behaves as C11 7.22.1.3: abstract model (end offset, value, range-error class nondeterministic within what the standard allows); the real-number value of a decimal/hexadecimal numeral is not modelled, the returned double IS the ghost value",
                 "symbolic string object of fewer than NUM_MAXLEN characters"]
}
*/
#include <errno.h>
#include <stdlib.h>
#include "verif.h"
#include "parsenum.h"
#include "pn.h"

void
h_pn_float(void)
{
	PN_MKSTR(str);
	IN(double, min);
	IN(double, max);
	IN(int, trailing);
	double rv;

	errno = 0;
	rv = parsenum_float(str, min, max, trailing);

	__CPROVER_assert(!(errno == 0) || (g_num_nd && g_num_frange == 0 && !(g_num_fval < min) && !(g_num_fval > max)),
	    "C16 parsenum_float: success => value not outside [min,max]");

	VCOVER(errno == 0 && rv > 1.5 && rv < 2.5 && g_num_end == slen);
	VCOVER(errno == 0 && rv == 0 && __CPROVER_signd(rv));		/* -0.0 between 0 and 0 */
	VCOVER(errno == 0 && __CPROVER_isnand(rv) && min == 0 && max == 0);	/* nan passes any bounds */
	VCOVER(errno == 0 && __CPROVER_isinfd(rv) && rv > 0);
	VCOVER(errno == 0 && trailing && g_num_end < slen);
	VCOVER(errno == EINVAL && !g_num_nd);
	VCOVER(errno == EINVAL && g_num_nd && g_num_end < slen);
	VCOVER(errno == ERANGE && g_num_frange == 1);
	VCOVER(errno == ERANGE && g_num_frange == 2);
	VCOVER(errno == ERANGE && g_num_frange == 0 && rv > max);
	VCOVER(errno == ERANGE && g_num_frange == 0 && rv < min);
}
