/* VERIF-GROUP
{
 "property": ["C16"],
 "entry": "h_pn_signed",
 "enforce": ["parsenum_signed"],
 "replace": [],
 "loop_contracts": false,
 "backend": "kissat",
 "annotate": ["util/parsenum.h"],
 "defines": ["VERIF_HALLOC", "NUM_MAXLEN=12", "VERIF_STRMAX=14"],
 "thorough_defines": ["NUM_MAXLEN=70", "VERIF_STRMAX=72"],
 "models": ["models/num_strto.c", "models/libc_string.c"],
 "native": true,
 "native_models": ["models/num_strto.c"],
 "timeout": 300,
 "assumptions": ["strtoimax behaves as C11 7.22.1.4 in the C locale (models/num_strto.c; magnitude of multi-digit numerals uninterpreted)",
                 "symbolic string object of fewer than NUM_MAXLEN characters (24 quick, 70 thorough)"]
}
*/
#include <errno.h>
#include <stdlib.h>
#include "verif.h"
#include "parsenum.h"
#include "pn.h"

void
h_pn_signed(void)
{
	PN_MKSTR(str);
	IN(intmax_t, min);
	IN(intmax_t, max);
	IN(int, base);
	IN(int, trailing);
	intmax_t rv;

	__CPROVER_assume(base == 0 || (base >= 2 && base <= 36));
	errno = 0;
	rv = parsenum_signed(str, min, max, base, trailing);
	PN_NATIVE_GHOSTS(str, base);
	__CPROVER_assert(g_num_sptr == str, "C16 parsenum: the conversion was applied to the given string");

	__CPROVER_assert(!(errno == 0) || (g_num_nd && !g_num_ovf && NUM_W(min) <= NUM_V && NUM_V <= NUM_W(max) &&
	    NUM_W(rv) == NUM_V),
	    "C16 parsenum_signed: success => numeral's mathematical value within [min,max], and returned exactly");

	VCOVER(errno == 0 && !g_num_neg && g_num_mag > 1000 && g_num_end == slen);
	VCOVER(errno == 0 && g_num_neg && g_num_mag > 1000 && rv < -1000);
	VCOVER(errno == 0 && rv == INTMAX_MIN);
	VCOVER(errno == 0 && rv == INTMAX_MAX);
	VCOVER(errno == 0 && trailing && g_num_end < slen);
	VCOVER(errno == EINVAL && !g_num_nd);
	VCOVER(errno == EINVAL && g_num_nd && g_num_end < slen);
	VCOVER(errno == ERANGE && g_num_ovf);
	VCOVER(errno == ERANGE && !g_num_ovf && !g_num_neg && g_num_mag > (uintmax_t)INTMAX_MAX);
	VCOVER(errno == ERANGE && !g_num_ovf && g_num_neg && g_num_mag > (uintmax_t)INTMAX_MAX + 1 && min == INTMAX_MIN);
	VCOVER(errno == ERANGE && rv == 0 && g_num_mag == 5 && !g_num_neg && max == 4);
	VCOVER(errno == ERANGE && min > max);
}
