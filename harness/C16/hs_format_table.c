/* VERIF-GROUP
{
 "property": ["C16"],
 "entry": "h_hs_format_table",
 "enforce": ["humansize"],
 "replace": [],
 "loop_contracts": false,
 "annotate": ["util/humansize.c"],
 "defines": ["VERIF_STRMAX=12", "HSF_VALUE_CLAUSE"],
 "bounded": true, "bound": "sizes 10^n - 1, 10^n, 10^n + 1 for n = 0..19 (so every power-of-1000 boundary +-1), 2^64 - 1, 2^64 - 2 and 0",
 "matrix": {"HSF_N": [0, 1, 2, 3, 4, 5, 6, 7, 8, 9, 10, 11, 12, 13, 14, 15, 16, 17, 18, 19]},
 "cbmc": ["--unwindset", "humansize_wrapped_for_contract_checking.0:7", "--malloc-may-fail", "--malloc-fail-null"],
 "models": ["models/num_asprintf.c", "models/libc_string.c"],
 "timeout": 300,
 "assumptions": ["BOUNDED: the value clauses of humansize()'s contract on the table of boundary sizes named in the property (quantifier: every power-of-1000 boundary +-1, 2^64-1); the same clauses for every size: group C16/hs_format_val (slower, kissat)",
                 "asprintf as modelled in models/num_asprintf.c: what is printed is observed through the recorded format kind and int/char arguments (C11 7.21.6.1 meaning of %d and %c); the characters of the result are not modelled",
                 "the division loop of humansize() is unwound 7 times with an unwinding assertion: a 64-bit size needs at most 5 divisions by 1000 after the division by 100, so this is complete, not a bound on the input",
                 "warn()/warnx() of util/warnp.c do nothing"]
}
*/
#include <stdlib.h>
#include "verif.h"
#include "num_hs_ghost.h"
struct hs_spec g_hs;
size_t g_hs_len;
uint64_t g_hs_sz, g_hs_mult;
#include "util/humansize.c"

/* 10^HSF_N, a compile-time constant */
#define HSF_P10_0 1ULL
#define HSF_P10_1 10ULL
#define HSF_P10_2 100ULL
#define HSF_P10_3 1000ULL
#define HSF_P10_4 10000ULL
#define HSF_P10_5 100000ULL
#define HSF_P10_6 1000000ULL
#define HSF_P10_7 10000000ULL
#define HSF_P10_8 100000000ULL
#define HSF_P10_9 1000000000ULL
#define HSF_P10_10 10000000000ULL
#define HSF_P10_11 100000000000ULL
#define HSF_P10_12 1000000000000ULL
#define HSF_P10_13 10000000000000ULL
#define HSF_P10_14 100000000000000ULL
#define HSF_P10_15 1000000000000000ULL
#define HSF_P10_16 10000000000000000ULL
#define HSF_P10_17 100000000000000000ULL
#define HSF_P10_18 1000000000000000000ULL
#define HSF_P10_19 10000000000000000000ULL
#define HSF_CAT_(a, b) a##b
#define HSF_CAT(a, b) HSF_CAT_(a, b)
#define HSF_P10 HSF_CAT(HSF_P10_, HSF_N)

void
h_hs_format_table(void)
{
	IN(int, which);
	uint64_t size;
	char * r;

	__CPROVER_assume(which >= 0 && which <= 5);
	size = (which == 0) ? HSF_P10 - 1 : (which == 1) ? HSF_P10 : (which == 2) ? HSF_P10 + 1 :
	    (which == 3) ? UINT64_MAX : (which == 4) ? UINT64_MAX - 1 : 0;

	r = humansize(size);

	__CPROVER_assert(HSF_PV <= (hs_wide_t)size && (hs_wide_t)size < HSF_NV,
	    "C16 humansize: prints the largest value of the documented form that does not exceed size");

	VCOVER(which == 0 && r != NULL);
	VCOVER(which == 1 && r != NULL);
	VCOVER(which == 2 && r != NULL);
	VCOVER(which == 3 && r != NULL && g_asp_kind == 2 && g_asp_a1 == 18 && g_asp_pfx == 'E');
#if HSF_N == 3
	VCOVER(which == 0 && g_asp_kind == 0 && g_asp_a1 == 999);
	VCOVER(which == 1 && g_asp_kind == 1 && g_asp_a1 == 1 && g_asp_a2 == 0 && g_asp_pfx == 'k');
#endif
#if HSF_N == 18
	VCOVER(which == 0 && g_asp_kind == 2 && g_asp_a1 == 999 && g_asp_pfx == 'P');
	VCOVER(which == 1 && g_asp_kind == 1 && g_asp_a1 == 1 && g_asp_a2 == 0 && g_asp_pfx == 'E');
#endif
}
