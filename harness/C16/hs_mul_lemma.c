/* VERIF-GROUP
{
 "property": ["C16"],
 "entry": "h_hs_mul_lemma",
 "enforce": [],
 "replace": [],
 "loop_contracts": false,
 "backend": "z3",
 "matrix": {"HS_K": [0, 1, 2, 3, 4, 5, 6]},
 "timeout": 300,
 "assumptions": ["loop-free arithmetic leaf (HOWTO trap 7): links the two forms in which contracts/util__humansize.c.spec states the result of humansize_parse -- the 64-bit machine product acc * 1000^k and the exact 128-bit product; decided by z3 (word-level), the SAT back end does not finish on it"]
}
*/
#include "verif.h"
#include "num_hs_ghost.h"

/*
 * Lemma: for every 64-bit acc and every k in 0..6 (one instance per k), if the exact product acc * 1000^k (128 bits, constant
 * multiplier: HS_VALUE) is at most 2^64 - 1, then the 64-bit machine product acc * HS_POW(k) IS that product.
 * With humansize_parse's postconditions (accepted => HS_VALUE <= UINT64_MAX, *size == g_hs_sz * g_hs_mult,
 * g_hs_sz == acc, g_hs_mult == HS_POW(k)) this gives: accepted => *size == digits * 1000^k exactly.
 */
void
h_hs_mul_lemma(void)
{
	struct hs_spec G;
	IN(uint64_t, acc);
	const int k = HS_K;	/* one group instance per prefix exponent: 0..6 is every case */
	uint64_t machine;

	G.st = HS_SD; G.acc = acc; G.big = 0; G.k = k; G.i = 1;
	machine = acc * HS_POW(k);
	__CPROVER_assert(!(HS_VALUE(G) <= (hs_wide_t)UINT64_MAX) || (hs_wide_t)machine == HS_VALUE(G),
	    "C16 lemma: a product acc * 1000^k that fits 64 bits is computed exactly by the machine multiplication");
	__CPROVER_assert((HS_VALUE(G) & (hs_wide_t)UINT64_MAX) == (hs_wide_t)machine,
	    "C16 lemma: the machine product is the exact product modulo 2^64");
	VCOVER(HS_VALUE(G) <= (hs_wide_t)UINT64_MAX && acc == 18);
#if HS_K > 0
	VCOVER(HS_VALUE(G) > (hs_wide_t)UINT64_MAX);
#endif
}
