/* VERIF-GROUP
{
 "property": ["C16", "C15"],
 "entry": "h_hs_parse",
 "enforce": ["humansize_parse"],
 "replace": [],
 "annotate": ["util/humansize.c"],
 "defines": ["VERIF_HALLOC", "HS_MAXLEN=28"],
 "thorough_defines": ["HS_MAXLEN=64"],
 "models": ["models/num_asprintf.c", "models/libc_string.c"],
 "native": true,
 "native_models": [],
 "timeout": 300,
 "assumptions": ["one clause of the contract (accepted => *size == g_hs_sz * g_hs_mult) is compiled out here and decided by group C16/hs_parse_mul with z3; the arithmetic link machine product = exact product: group C16/hs_mul_lemma",
                 "symbolic string object of fewer than HS_MAXLEN characters (the loop proof itself is inductive: any number of iterations); 28 covers 20 digits + space + prefix + B + junk",
                 "meta-level: a rejection before the end of the string is final because the specification automaton's dead state is absorbing and the digit value only grows (stated in the contract; cross-checked, bounded, by group C16/hs_parse_full which runs the automaton over the whole string)"]
}
*/
#define HS_PARSE_ENTRY h_hs_parse
#define HS_PARSE_MARKERS do { \
	VCOVER(rc == 0 && g_hs.st == HS_SD && *out > 1000000); \
	VCOVER(rc == 0 && g_hs.st == HS_SS); \
	VCOVER(rc == 0 && g_hs.st == HS_SP && g_hs.k == 6 && *out == 18000000000000000000ULL);	/* "18E" */ \
	VCOVER(rc == 0 && g_hs.st == HS_SB && g_hs.k == 0 && *out == 9);			/* "9B", "9 B" */ \
	VCOVER(rc == 0 && g_hs.st == HS_SB && g_hs.k == 3);					/* "12 GB" */ \
	VCOVER(rc == 0 && *out == UINT64_MAX); \
	VCOVER(rc == -1 && slen == 0); \
	VCOVER(rc == -1 && g_hs.st == HS_SX && g_hs.i < slen);					/* junk in the middle */ \
	VCOVER(rc == -1 && g_hs.big);								/* digits >= 2^64 */ \
	VCOVER(rc == -1 && !g_hs.big && HS_ACCEPTING(g_hs) && g_hs.k == 6);			/* "19E": multiplier overflow */ \
	VCOVER(rc == -1 && !g_hs.big && HS_ACCEPTING(g_hs) && g_hs.k == 1 && g_hs.acc == 18446744073709552ULL);	/* ...552k = 2^64 + 384 */ \
	VCOVER(rc == 0 && g_hs.k == 1 && g_hs.acc == 18446744073709551ULL);			/* ...551k fits */ \
} while (0)
#include "hs_parse_body.h"
