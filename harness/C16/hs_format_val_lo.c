/* VERIF-GROUP
{
 "property": ["C16"],
 "entry": "h_hs_format_val_lo",
 "enforce": ["humansize"],
 "replace": [],
 "loop_contracts": false,
 "annotate": ["util/humansize.c"],
 "defines": ["VERIF_STRMAX=12", "HSF_VALUE_CLAUSE"],
 "backend": "kissat",
 "cbmc": ["--unwindset", "humansize_wrapped_for_contract_checking.0:7", "--property", "humansize.postcondition.8", "--property", "h_hs_format_val_lo.assertion.1", "--property", "h_hs_format_val_lo.assertion.2"],
 "models": ["models/num_asprintf.c", "models/libc_string.c"],
 "timeout": 900,
 "assumptions": ["this group decides ONE value clause of the contract of humansize(), \"printed value <= size\" (humansize.postcondition.8), selected with --property, for EVERY 64-bit size, with kissat (1-2.5 minutes; the default SAT back end and z3 do not finish); all other obligations of humansize(): group C16/hs_format",
                 "asprintf as modelled in models/num_asprintf.c: what is printed is observed through the recorded format kind and int/char arguments (C11 7.21.6.1 meaning of %d and %c); the characters of the result are not modelled",
                 "the division loop of humansize() is unwound 7 times with an unwinding assertion: a 64-bit size needs at most 5 divisions by 1000 after the division by 100, so this is complete, not a bound on the input",
                 "warn()/warnx() of util/warnp.c do nothing"]
}
*/
#include <stdlib.h>
#include "verif.h"
#include "num_hs_ghost.h"
struct hs_spec g_hs;
size_t g_hs_len;
uint64_t g_hs_sz, g_hs_mult;
#include "util/humansize.c"

void
h_hs_format_val_lo(void)
{
	IN(uint64_t, size);
	char * r;

	r = humansize(size);

	VCOVER(g_asp_kind == 1 && g_asp_pfx == 'M');
	VCOVER(g_asp_kind == 2 && g_asp_pfx == 'E');
}
