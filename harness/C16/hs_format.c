/* VERIF-GROUP
{
 "property": ["C16", "C14"],
 "entry": "h_hs_format",
 "enforce": ["humansize"],
 "replace": [],
 "loop_contracts": false,
 "annotate": ["util/humansize.c"],
 "defines": ["VERIF_STRMAX=12"],
 "cbmc": ["--unwindset", "humansize_wrapped_for_contract_checking.0:7", "--malloc-may-fail", "--malloc-fail-null"],
 "models": ["models/num_asprintf.c", "models/libc_string.c"],
 "timeout": 300,
 "assumptions": ["asprintf as modelled in models/num_asprintf.c: what is printed is observed through the recorded format kind and int/char arguments (C11 7.21.6.1 meaning of %d and %c); the characters of the result are not modelled",
                 "the division loop of humansize() is unwound 7 times with an unwinding assertion: a 64-bit size needs at most 5 divisions by 1000 after the division by 100, so this is complete, not a bound on the input",
                 "warn()/warnx() of util/warnp.c do nothing"]
}
*/
#include <stdlib.h>
#include "verif.h"
#include "num_hs_ghost.h"
struct hs_spec g_hs;
size_t g_hs_len;
uint64_t g_hs_sz, g_hs_mult;
#include "util/humansize.c"

void
h_hs_format(void)
{
	IN(uint64_t, size);
	char * r;

	r = humansize(size);

	/* C14: allocation failure => NULL, nothing else */
	__CPROVER_assert((r == NULL) == (g_asp_fail != 0), "C14 humansize: NULL exactly when asprintf failed");

	VCOVER(r != NULL && g_asp_kind == 0 && g_asp_a1 == 0);
	VCOVER(r != NULL && g_asp_kind == 0 && g_asp_a1 == 999);
	VCOVER(r != NULL && g_asp_kind == 1 && g_asp_pfx == 'k');
	VCOVER(r != NULL && g_asp_kind == 2 && g_asp_pfx == 'k');
	VCOVER(r != NULL && g_asp_kind == 1 && g_asp_pfx == 'E');
	VCOVER(r != NULL && g_asp_kind == 2 && g_asp_pfx == 'E' && size == UINT64_MAX);
	VCOVER(r == NULL);
}
