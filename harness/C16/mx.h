/*
 * shared part of the generated PARSENUM / PARSENUM_EX macro harnesses (mx_*.c, written by gen_mx.py).
 *
 * The harness expands the REAL macros of util/parsenum.h for one target type (the type of *x) and one type
 * of the bounds; parsenum_unsigned / parsenum_signed / parsenum_float are replaced by their contracts
 * (contracts/util__parsenum.h.spec, enforced by the pn_* groups), so what is proved here is the macro layer:
 * the classification branch taken for the type, the clamping of min for unsigned targets, the extra ERANGE when
 * max is negative, the typemax argument, the argument-count dispatch of PARSENUM(...) / PARSENUM_EX(...),
 * "errno = 0" before the call (callee requires), and that storing the result into the narrower *x never wraps.
 *
 * Specification (property text): rc == 0 exactly when the string is well-formed (MX_WF) and the mathematical
 * value of the numeral lies within the bounds AND the target type; then *x is exactly that value; otherwise
 * errno is EINVAL (malformed) or ERANGE.
 */
#ifndef MX_H_
#define MX_H_
#include <errno.h>
#include <math.h>
#include <stdint.h>
#include <stdlib.h>
#include "verif.h"
#include "parsenum.h"
#include "pn.h"

#ifndef VERIF_NATIVE
/* ASSERT_FAIL(...) of parsenum.h ends in abort(): reaching it is a failed obligation, not a silently cut path */
void
abort(void)
{

	__CPROVER_assert(0, "C16 PARSENUM: ASSERT_FAIL / abort() reached (wrong classification of the target type)");
	__CPROVER_assume(0);
}
#endif

/* compile-time facts about the bound type BT (a matrix parameter: -DBT=int ...) */
#define MX_CAT_(a, b) a##b
#define MX_CAT(a, b) MX_CAT_(a, b)
#define MX_SIGNED_int 1
#define MX_SIGNED_intmax_t 1
#define MX_SIGNED_uintmax_t 0
#define MX_SIGNED_size_t 0
#define MX_SIGNED_double 1
#define MX_BITS_int 31
#define MX_BITS_intmax_t 63
#define MX_BITS_uintmax_t 64
#define MX_BITS_size_t 64
#define MX_BITS_double 1024
#define MX_BT_SIGNED MX_CAT(MX_SIGNED_, BT)
#define MX_BTBITS MX_CAT(MX_BITS_, BT)

#define MX_WF(str, trailing) (g_num_nd && ((trailing) || (str)[g_num_end] == '\0'))

/* integer targets: V within [lo, hi] (ghost domain, 72 bits) */
#define MX_I_INRANGE(lo, hi) (!g_num_ovf && (lo) <= NUM_V && NUM_V <= (hi))

#define MX_ASSERTS_INT(rc, wf, inrange, x) do { \
	__CPROVER_assert(g_num_calls == calls0 + 1 && g_num_sptr == str && g_num_reqbase == base, "C16 PARSENUM: exactly one conversion, of the given string, in the requested base"); \
	__CPROVER_assert(((rc) == 0) == (errno == 0), "C16 PARSENUM: returns zero exactly when errno is zero"); \
	__CPROVER_assert(!((rc) == 0) || (wf), "C16 PARSENUM: success => well-formed numeral (and nothing else unless trailing)"); \
	__CPROVER_assert(!((rc) == 0) || (inrange), "C16 PARSENUM: success => mathematical value within the bounds and the target type"); \
	__CPROVER_assert(!((rc) == 0 && (inrange)) || NUM_W(x) == NUM_V, "C16 PARSENUM: success => stored value is exactly the numeral's value (no wrap in narrowing)"); \
	__CPROVER_assert(!((wf) && (inrange)) || (rc) == 0, "C16 PARSENUM: well-formed and in range => success"); \
	__CPROVER_assert((wf) || errno == EINVAL, "C16 PARSENUM: malformed => EINVAL"); \
	__CPROVER_assert(!((wf) && !(inrange)) || errno == ERANGE, "C16 PARSENUM: well-formed but out of range => ERANGE"); \
} while (0)

#define MX_F_SAME(a, b) (((a) == (b) && __CPROVER_signd((double)(a)) == __CPROVER_signd((double)(b))) || \
    (__CPROVER_isnand((double)(a)) && __CPROVER_isnand((double)(b))))
#define MX_ASSERTS_FLT(rc, wf, inrange, x, T) do { \
	__CPROVER_assert(g_num_calls == calls0 + 1 && g_num_sptr == str && g_num_reqbase == base, "C16 PARSENUM: exactly one conversion, of the given string, in the requested base"); \
	__CPROVER_assert(((rc) == 0) == (errno == 0), "C16 PARSENUM: returns zero exactly when errno is zero"); \
	__CPROVER_assert(!((rc) == 0) || (wf), "C16 PARSENUM: success => well-formed numeral (and nothing else unless trailing)"); \
	__CPROVER_assert(!((rc) == 0) || (inrange), "C16 PARSENUM: success => value not outside the bounds, no range error"); \
	__CPROVER_assert(!((rc) == 0) || MX_F_SAME(x, (T)g_num_fval), "C16 PARSENUM: success => stored value is the numeral's value (rounded to the target type)"); \
	__CPROVER_assert(!((wf) && (inrange)) || (rc) == 0, "C16 PARSENUM: well-formed and in range => success"); \
	__CPROVER_assert((wf) || errno == EINVAL, "C16 PARSENUM: malformed => EINVAL"); \
	__CPROVER_assert(!((wf) && !(inrange)) || errno == ERANGE, "C16 PARSENUM: well-formed but out of range => ERANGE"); \
} while (0)
#endif
