/* VERIF-GROUP
{
 "property": ["C16"],
 "entry": "h_hs_parse_full",
 "enforce": [],
 "replace": [],
 "loop_contracts": false,
 "annotate": ["util/humansize.c"],
 "defines": ["VERIF_HALLOC", "HS_MAXLEN=10"],
 "thorough_defines": ["HS_MAXLEN=24"],
 "unwind": 12, "thorough_unwind": 26,
 "bounded": true, "bound": "strings of fewer than HS_MAXLEN characters (10 quick, 24 thorough)",
 "models": ["models/num_asprintf.c", "models/libc_string.c"],
 "native": true,
 "native_models": [],
 "timeout": 300,
 "assumptions": ["BOUNDED cross-check of the unbounded proof C16/hs_parse: the real loop is unwound and the result is compared with the specification automaton run over the whole string; it checks the two meta-level steps of the contract (a dead state / an overflowed digit value stay rejected, the lockstep ghost really is the automaton's run)"]
}
*/
#include <stdlib.h>
#include "verif.h"
#include "num_hs_ghost.h"
struct hs_spec g_hs;
size_t g_hs_len;
uint64_t g_hs_sz, g_hs_mult;
#include "util/humansize.c"

void
h_hs_parse_full(void)
{
	IN(size_t, slen);
	__CPROVER_assume(slen < HS_MAXLEN);
	IN_BYTES(str_raw, slen + 1, HS_MAXLEN);
	char * str = (char *)str_raw;
	uint64_t * out = malloc(sizeof(uint64_t));
	struct hs_spec full;
	size_t i;
	int rc;

	__CPROVER_assume(out != NULL);
	for (i = 0; i < HS_MAXLEN; i++)
		if (i < slen)
			__CPROVER_assume(str[i] != '\0');
	str[slen] = '\0';
	g_hs_len = slen;
	HS_SPEC_INIT(g_hs);

	rc = humansize_parse(str, out);

	/* the specification, run independently over the WHOLE string */
	HS_SPEC_INIT(full);
	for (i = 0; i < HS_MAXLEN; i++)
		if (i < slen)
			HS_SPEC_STEP(full, str[i]);
	__CPROVER_assert((rc == 0) == HS_ACCEPT(full),
	    "C16 humansize_parse: accepts exactly [0-9]+ ?[kMGTPE]?B? with digits * 1000^k < 2^64");
	/* the lockstep ghost of the contract is the automaton's run (state, prefix, position; the digit value is
	   compared through the verdict above -- SAT does not decide the equality of two differently merged chains
	   of multiplications directly) */
	__CPROVER_assert(!(rc == 0) || (g_hs.st == full.st && g_hs.k == full.k && g_hs.i == full.i && !g_hs.big && !full.big),
	    "C16 humansize_parse: on acceptance the contract's lockstep ghost is in the state the automaton reaches on the whole string");
	__CPROVER_assert(!(rc == 0) || g_hs_mult == HS_POW(full.k),
	    "C16 humansize_parse: the multiplier is 1000^k");
	VCOVER(rc == 0 && full.st == HS_SD && *out > 100000);
	VCOVER(rc == 0 && full.st == HS_SS);
	VCOVER(rc == 0 && full.st == HS_SP && full.k == 6 && *out == 18000000000000000000ULL);	/* "18E" */
	VCOVER(rc == 0 && full.st == HS_SB && full.k == 3 && slen == 5);			/* "12 GB" */
	VCOVER(rc == -1 && slen == 0);
	VCOVER(rc == -1 && full.st == HS_SX && g_hs.i < slen);					/* junk in the middle */
	VCOVER(rc == -1 && !full.big && HS_ACCEPTING(full) && full.k == 6);			/* "19E": multiplier overflow */
#if HS_MAXLEN > 21
	VCOVER(rc == -1 && full.big);								/* digits >= 2^64 */
	VCOVER(rc == 0 && *out == UINT64_MAX);
#endif
}
