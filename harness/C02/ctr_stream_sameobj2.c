/* VERIF-GROUP
{
 "property": ["C02", "C03"],
 "entry": "h_stream",
 "enforce": ["crypto_aesctr_stream"],
 "replace": ["crypto_aesctr_stream_cipherblock_use", "crypto_aesctr_stream_cipherblock_generate",
             "crypto_aesctr_stream_pre_wholeblock", "crypto_aesctr_stream_post_wholeblock"],
 "annotate": ["crypto/crypto_aesctr.c", "crypto/crypto_aesctr_shared.c"],
 "defines": ["VERIF_HALLOC", "C02_FIXED_OBJ"],
 "matrix": {"BUFMODE": [2]},
 "tier": "experimental",
 "timeout": 1500, "thorough_timeout": 1500,
 "assumptions": ["generic build (no CPUSUPPORT_*): portable path only",
                 "buffer objects <= CTR_MAXLEN (64) bytes; stream position, call length and loop count are unbounded (loop contract)",
                 "domain: bytectr + buflen < 2^64 (stream length limit of the 64-bit byte counter)"]
}
*/
/* reachability markers: the VCOVER(...) lines of the included harness */
/* same harness as ctr_stream.c, for input and output in two disjoint ranges of ONE object (slow: thorough tier) */
#include "ctr_stream.c"
