/* VERIF-GROUP
{
 "property": ["C02", "C03"],
 "entry": "h_pre",
 "enforce": ["crypto_aesctr_stream_pre_wholeblock"],
 "replace": ["crypto_aesctr_stream_cipherblock_use"],
 "annotate": ["crypto/crypto_aesctr.c", "crypto/crypto_aesctr_shared.c"],
 "defines": ["VERIF_HALLOC"],
 "matrix": {"BUFMODE": [0, 1, 2, 3]},
 "timeout": 300,
 "assumptions": ["buffer objects <= CTR_MAXLEN (64) bytes"]
}
*/
#include "verif.h"
#define C02_GHOST_DEFINE
#include "c02_aes_ghost.h"
#include "crypto/crypto_aesctr.c"
#include "ctr.h"

void
h_pre(void)
{
	ctr_ghost();
	CTR_MK_STREAM(S);
	IN(size_t, len);
	__CPROVER_assume(len <= CTR_MAXLEN);
	CTR_MK_BUFS(in, out, len);
	CTR_CALL(in, out, len);
	IN(size_t, off0);
	__CPROVER_assume(off0 <= len);
	const uint8_t * inp = in + off0;
	uint8_t * outp = out + off0;
	size_t l = len - off0;
	uint64_t ctr0 = S->bytectr;
	uint8_t inb = (g_i < len) ? in[g_i] : 0;
	int rc;

	rc = crypto_aesctr_stream_pre_wholeblock(S, &inp, &outp, &l);

	size_t n = len - off0 - l;
	__CPROVER_assert(inp == in + off0 + n && outp == out + off0 + n && S->bytectr == ctr0 + n, "cursor and position advanced together");
	__CPROVER_assert(rc == 1 ? (l == 0) : (S->bytectr % 16 == 0), "either finished or at a block boundary");
	if (g_i >= off0 && g_i - off0 < n && CTR_AT(S, ctr0 + (g_i - off0)))
		__CPROVER_assert(out[g_i] == (inb ^ CTR_KS(ctr0 + (g_i - off0))), "out = in0 ^ keystream(position)");
	VCOVER(rc == 1 && l == 0 && n == 3 && ctr0 % 16 == 13 && g_i == off0 + 2 && CTR_AT(S, ctr0 + 2));
	VCOVER(rc == 1 && n == 2 && ctr0 % 16 == 13);
	VCOVER(rc == 0 && ctr0 % 16 == 0 && l > 0 && n == 0);
#if BUFMODE == 1
	VCOVER(rc == 0 && ctr0 % 16 == 9 && l == 13 && n == 7 && g_i == off0 + 6 && CTR_AT(S, ctr0 + 6) && bufmode == 1);
#endif
	VCOVER(rc == 0 && len == 0);
	VCOVER(rc == 1 && len == off0);
}
