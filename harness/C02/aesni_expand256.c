/* VERIF-GROUP
{
 "property": ["C02", "C03"],
 "entry": "h_exp256",
 "enforce": ["crypto_aes_key_expand_256_aesni"],
 "replace": [],
 "annotate": ["crypto/crypto_aes_aesni.c"],
 "defines": ["VERIF_HALLOC", "CPUSUPPORT_X86_AESNI=1", "SPEC_AES_SBOX_UF"],
 "models": ["models/x86_sse2.c", "models/x86_aesni.c"],
 "cflags": ["-msse2", "-maes"],
 "timeout": 300,
 "assumptions": ["aeskeygenassist, pshufd, pslldq modelled from the Intel SDM (models/x86_aesni.c, models/x86_sse2.c)",
                 "S-box abstracted to an arbitrary function on both sides (SPEC_AES_SBOX_UF); the real S-box is C02/aes_spec_sbox",
                 "specification: spec/aes_spec.h KeyExpansion (FIPS-197 5.2), Nk = 8"]
}
*/
#include "aesni.h"

void
h_exp256(void)
{
	uint8_t * key = malloc(32);
	__m128i * rk = malloc(15 * sizeof(__m128i));
	__CPROVER_assume(key != NULL && rk != NULL);
	IN(size_t, k);
	g_k = k;
	__CPROVER_havoc_object(g_aes_sbox_uf);
	uint8_t w[240];

	crypto_aes_key_expand_256_aesni(key, rk);

	spec_aes_key_expansion(key, 8, w);
	for (int i = 0; i < 240; i++)
		__CPROVER_assert(((const uint8_t *)rk)[i] == w[i], "round keys = FIPS-197 KeyExpansion(key), Nk = 8");
	VCOVER(g_k == 239 && key[0] == 0x2b);
	VCOVER(g_k == 16);
}
