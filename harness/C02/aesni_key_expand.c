/* VERIF-GROUP
{
 "property": ["C02", "C03", "C14"],
 "entry": "h_kexp",
 "enforce": ["crypto_aes_key_expand_aesni"],
 "replace": ["crypto_aes_key_expand_128_aesni", "crypto_aes_key_expand_256_aesni"],
 "annotate": ["crypto/crypto_aes_aesni.c"],
 "defines": ["VERIF_HALLOC", "CPUSUPPORT_X86_AESNI=1"],
 "models": ["models/x86_sse2.c"],
 "cflags": ["-msse2", "-maes"],
 "cbmc": ["--malloc-may-fail", "--malloc-fail-null"],
 "timeout": 120,
 "assumptions": ["the two schedule functions replaced by their (enforced) contracts; malloc may fail"]
}
*/
#include "aesni.h"
/* warn0() is only reachable for unsupported lengths, which the contract excludes */

void
h_kexp(void)
{
	IN(size_t, len);
	uint8_t * key = malloc(len <= 32 ? len : 0);
	__CPROVER_assume(key != NULL);
	IN(size_t, k);
	g_k = k;
	__CPROVER_havoc_object(g_ks_key);
	__CPROVER_havoc_object(g_ks_w);
	struct crypto_aes_key_aesni * K;

	K = crypto_aes_key_expand_aesni(key, len);

	if (K != NULL) {
		__CPROVER_assert(K->nr == (len == 16 ? 10 : 14), "Nr = 10 for 128-bit keys, 14 for 256-bit keys");
		__CPROVER_assert(((uintptr_t)K->rkeys & 15) == 0, "round keys 16-byte aligned");
	}
	VCOVER(K == NULL && len == 16);
	VCOVER(K != NULL && len == 16 && g_k == 175);
	VCOVER(K != NULL && len == 32 && g_k == 239);
}
