/* VERIF-GROUP
{
 "property": ["C02", "C03"],
 "entry": "h_leaf",
 "enforce": [],
 "replace": [],
 "annotate": [],
 "loop_contracts": false,
 "defines": ["CPUSUPPORT_X86_AESNI=1"],
 "cflags": ["-msse2", "-maes"],
 "timeout": 300,
 "assumptions": ["leaf lemma (L-sub): the SDM models of AESENC / AESENCLAST (models/x86_aesni.c) equal the FIPS-197 round / final round of spec/aes_spec.h on the whole 2^256 domain; constant loop bounds"]
}
*/
#include "verif.h"
#define C02_WANT_WMMINTRIN
#include "c02_x86intrin.h"
#define C02_GHOST_DEFINE
#include "c02_aes_ghost.h"
#include "aes_spec.h"
#include "x86_aesni.c"

void
h_leaf(void)
{
	__m128i st, rk, r1, r2;
	uint8_t s1[16], s2[16], k[16];

	for (int i = 0; i < 16; i++) {
		s1[i] = s2[i] = (uint8_t)M128_BYTE(st, i);
		k[i] = (uint8_t)M128_BYTE(rk, i);
	}
	r1 = _mm_aesenc_si128(st, rk);
	r2 = _mm_aesenclast_si128(st, rk);
	spec_aes_round(s1, k);
	spec_aes_final_round(s2, k);
	for (int i = 0; i < 16; i++) {
		__CPROVER_assert(M128_BYTE(r1, i) == s1[i], "AESENC = SubBytes; ShiftRows; MixColumns; AddRoundKey");
		__CPROVER_assert(M128_BYTE(r2, i) == s2[i], "AESENCLAST = SubBytes; ShiftRows; AddRoundKey");
	}
	VCOVER(M128_BYTE(st, 0) == 0x19 && M128_BYTE(rk, 15) == 0xa6);
}
