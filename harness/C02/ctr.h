/*
 * Shared pre-state construction for the AES-CTR harnesses (C02/C03).
 * Everything the contracts quantify over is left nondeterministic: the ghost point (key identity, input block,
 * output block), the ghost byte index, the whole content of the stream object, the buffers and how they alias.
 */
#ifndef C02_CTR_H_
#define C02_CTR_H_
#include <stdlib.h>

/* ghost point and ghost index: arbitrary (CBMC zero-initialises file-scope objects, so havoc them) */
static void
ctr_ghost(void)
{
	const struct crypto_aes_key * k;
	size_t gi;

	__CPROVER_havoc_object(g_aes_X);
	__CPROVER_havoc_object(g_aes_Y);
	g_aes_key = k;
	g_i = gi;
}

/* a stream object with arbitrary content (malloc'ed objects have nondeterministic content in CBMC) */
#define CTR_MK_STREAM(S) \
	struct crypto_aesctr * S = malloc(sizeof(struct crypto_aesctr)); \
	__CPROVER_assume(S != NULL)

/*
 * in/out buffers of `len` bytes (len <= CTR_MAXLEN is assumed by the caller).  mode 0: two objects;
 * mode 1: in == out (in-place); mode 2: two disjoint ranges of one object, out after in; 3: out before in.
 */
#ifdef BUFMODE	/* one group instance per aliasing mode ("matrix") */
#define CTR_BUFMODE_DECL const unsigned bufmode = BUFMODE
#else
#define CTR_BUFMODE_DECL IN(unsigned, bufmode)
#endif
/*
 * Object sizes: exact (malloc(len), every overrun of the call's buffers is an object-bounds violation) in the leaf
 * groups where the real code touches the bytes; with -DC02_FIXED_OBJ the objects have the fixed size CTR_MAXLEN and
 * the buffer is their prefix -- used by the composite groups, where every access to the buffers happens in a
 * replaced callee whose `requires` bounds it by the call length g_ctr_len (CTR_CURSOR_IN_CALL), so nothing is lost,
 * and symbolic-size objects cost 8x more solver time (measured).
 */
#ifdef C02_FIXED_OBJ
#define CTR_OBJSZ(len, k) ((size_t)(k) * CTR_MAXLEN)
#else
#define CTR_OBJSZ(len, k) ((size_t)(k) * (len))
#endif
#define CTR_MK_BUFS(in, out, len) \
	CTR_BUFMODE_DECL; \
	uint8_t * in##_obj = malloc(bufmode >= 2 ? CTR_OBJSZ(len, 2) : CTR_OBJSZ(len, 1)); \
	uint8_t * out##_obj = malloc(CTR_OBJSZ(len, 1)); \
	__CPROVER_assume(in##_obj != NULL && out##_obj != NULL && bufmode <= 3); \
	const uint8_t * in = (bufmode == 3) ? in##_obj + (len) : in##_obj; \
	uint8_t * out = (bufmode == 0) ? out##_obj : (bufmode == 1) ? in##_obj : \
	    (bufmode == 2) ? in##_obj + (len) : in##_obj

/* ghost arguments naming the buffers of the current public call */
#define CTR_CALL(in, out, len) do { g_ctr_in = (in); g_ctr_out = (out); g_ctr_len = (len); } while (0)

#endif
