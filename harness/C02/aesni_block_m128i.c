/* VERIF-GROUP
{
 "property": ["C02", "C03"],
 "entry": "h_blk",
 "enforce": ["crypto_aes_encrypt_block_aesni_m128i"],
 "replace": [],
 "annotate": ["crypto/crypto_aes_aesni.c"],
 "defines": ["VERIF_HALLOC", "CPUSUPPORT_X86_AESNI=1", "C02_AES_G2"],
 "matrix": {"NR": [10, 14]},
 "models": ["models/x86_sse2.c"],
 "cflags": ["-msse2", "-maes"],
 "timeout": 400,
 "assumptions": ["models/x86_aesni.c (included by harness/C02/aesni.h): AESENC, AESENCLAST from the Intel SDM",
                 "G2 lock-step abstraction of the round: AESENC/AESENCLAST and spec_aes_round/_final_round replaced on both sides by logging stubs; the leaves (instruction model = FIPS round) are C02/aesni_round_leaf",
                 "specification: spec/aes_spec.h Cipher (FIPS-197 5.1) over the round keys stored in the key object",
                 "the enforced contract is the ghost-point contract AES_BLOCK_M128I_CONTRACT with g_aes_Y := spec_aes_cipher(g_aes_X, w, nr) set by the harness"]
}
*/
#include "aesni_g2.h"
#include "aesni.h"

void
h_blk(void)
{
	AESNI_MK_KEY(K);
	__CPROVER_assume(K->nr == NR);
	__m128i in, out;
	IN(size_t, k);
	g_k = k;
	__CPROVER_havoc_object(g2_out);		/* arbitrary round results */
	g2_nspec = 0;
	g2_nimpl = 0;
	/* ghost point := (this key object, this input block); value := FIPS-197 Cipher with the stored round keys */
	g_aes_key = (const struct crypto_aes_key *)K;
	for (int i = 0; i < 16; i++)
		g_aes_X[i] = (uint8_t)M128_BYTE(in, i);
	spec_aes_cipher(g_aes_X, g_aes_Y, (const uint8_t *)K->rkeys, NR);

	out = crypto_aes_encrypt_block_aesni_m128i(in, K);

	for (int i = 0; i < 16; i++)
		__CPROVER_assert(M128_BYTE(out, i) == g_aes_Y[i], "ciphertext = FIPS-197 Cipher(in, round keys)");
	__CPROVER_assert(g2_nimpl == g2_nspec && g2_nspec == NR, "exactly Nr rounds, the last one final");
	VCOVER(K->nr == NR && M128_BYTE(in, 0) == 0x11 && g2_nimpl == NR);
}
