/* VERIF-GROUP
{
 "property": ["C02", "C03"],
 "entry": "h_astream",
 "enforce": ["crypto_aesctr_aesni_stream"],
 "replace": ["crypto_aesctr_stream_pre_wholeblock", "crypto_aesctr_stream_post_wholeblock",
             "crypto_aesctr_aesni_stream_wholeblocks"],
 "annotate": ["crypto/crypto_aesctr_aesni.c", "crypto/crypto_aesctr_shared.c"],
 "defines": ["VERIF_HALLOC", "C02_FIXED_OBJ", "CPUSUPPORT_X86_AESNI=1"],
 "matrix": {"BUFMODE": [2, 3]},
 "tier": "experimental",
 "models": ["models/x86_sse2.c"],
 "cflags": ["-msse2", "-maes"],
 "timeout": 1500, "thorough_timeout": 1500,
 "assumptions": ["AES-NI bulk path against the same stream contract as the portable path (CTR_STREAM_CONTRACT)",
                 "buffer objects <= CTR_MAXLEN bytes; stream position and call length otherwise unbounded",
                 "domain: bytectr + buflen < 2^64"]
}
*/
/* reachability markers: the VCOVER(...) lines of the included harness */
/* same harness as ctr_aesni_stream.c, for input and output in two disjoint ranges of ONE object (slow: thorough tier) */
#include "ctr_aesni_stream.c"
