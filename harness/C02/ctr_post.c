/* VERIF-GROUP
{
 "property": ["C02", "C03"],
 "entry": "h_post",
 "enforce": ["crypto_aesctr_stream_post_wholeblock"],
 "replace": ["crypto_aesctr_stream_cipherblock_use", "crypto_aesctr_stream_cipherblock_generate"],
 "annotate": ["crypto/crypto_aesctr.c", "crypto/crypto_aesctr_shared.c"],
 "defines": ["VERIF_HALLOC"],
 "timeout": 300,
 "assumptions": ["buffer objects <= CTR_MAXLEN (64) bytes"]
}
*/
#include "verif.h"
#define C02_GHOST_DEFINE
#include "c02_aes_ghost.h"
#include "crypto/crypto_aesctr.c"
#include "ctr.h"

void
h_post(void)
{
	ctr_ghost();
	CTR_MK_STREAM(S);
	IN(size_t, len);
	__CPROVER_assume(len <= CTR_MAXLEN);
	CTR_MK_BUFS(in, out, len);
	g_ctr_in = in;
	g_ctr_out = out;
	const uint8_t * inp = in;
	uint8_t * outp = out;
	size_t l = len;
	uint64_t ctr0 = S->bytectr;
	uint8_t inb = (g_i < len) ? in[g_i] : 0;

	crypto_aesctr_stream_post_wholeblock(S, &inp, &outp, &l);

	__CPROVER_assert(l == 0 && inp == in + len && outp == out + len && S->bytectr == ctr0 + len, "all remaining bytes consumed");
	if (g_i < len && CTR_AT(S, ctr0 + g_i))
		__CPROVER_assert(out[g_i] == (inb ^ CTR_KS(ctr0 + g_i)), "out = in0 ^ keystream(position)");
	VCOVER(len == 0);
	VCOVER(len == 15 && g_i == 14 && CTR_AT(S, ctr0 + g_i) && ctr0 == 16 * 256 && bufmode == 1);
	VCOVER(len == 1 && g_i == 0 && CTR_AT(S, ctr0 + g_i) && ctr0 == 0);
	VCOVER(len == 4 && g_i == 0 && !CTR_AT(S, ctr0 + g_i));
}
