/* VERIF-GROUP
{
 "property": ["C02", "C03"],
 "entry": "h_post",
 "enforce": ["crypto_aesctr_stream_post_wholeblock"],
 "replace": ["crypto_aesctr_stream_cipherblock_use", "crypto_aesctr_stream_cipherblock_generate"],
 "annotate": ["crypto/crypto_aesctr.c", "crypto/crypto_aesctr_shared.c"],
 "defines": ["VERIF_HALLOC"],
 "matrix": {"BUFMODE": [0, 1, 2, 3]},
 "timeout": 300,
 "assumptions": ["buffer objects <= CTR_MAXLEN (64) bytes"]
}
*/
#include "verif.h"
#define C02_GHOST_DEFINE
#include "c02_aes_ghost.h"
#include "crypto/crypto_aesctr.c"
#include "ctr.h"

void
h_post(void)
{
	ctr_ghost();
	CTR_MK_STREAM(S);
	IN(size_t, len);
	__CPROVER_assume(len <= CTR_MAXLEN);
	CTR_MK_BUFS(in, out, len);
	CTR_CALL(in, out, len);
	IN(size_t, off0);
	__CPROVER_assume(off0 <= len);
	const uint8_t * inp = in + off0;
	uint8_t * outp = out + off0;
	size_t l = len - off0;
	uint64_t ctr0 = S->bytectr;
	uint8_t inb = (g_i < len) ? in[g_i] : 0;

	crypto_aesctr_stream_post_wholeblock(S, &inp, &outp, &l);

	__CPROVER_assert(l == 0 && inp == in + len && outp == out + len && S->bytectr == ctr0 + (len - off0), "all remaining bytes consumed");
	if (g_i >= off0 && g_i < len && CTR_AT(S, ctr0 + (g_i - off0)))
		__CPROVER_assert(out[g_i] == (inb ^ CTR_KS(ctr0 + (g_i - off0))), "out = in0 ^ keystream(position)");
	VCOVER(len == off0);
#if BUFMODE == 1
	VCOVER(len - off0 == 15 && g_i == off0 + 14 && CTR_AT(S, ctr0 + 14) && ctr0 == 16 * 256 && bufmode == 1 && off0 == 33);
#endif
	VCOVER(len == 1 && g_i == 0 && CTR_AT(S, ctr0 + g_i) && ctr0 == 0);
	VCOVER(len == 4 && off0 == 0 && g_i == 0 && !CTR_AT(S, ctr0 + g_i));
}
