/* VERIF-GROUP
{
 "property": ["C02", "C03"],
 "entry": "h_generate",
 "enforce": ["crypto_aesctr_stream_cipherblock_generate"],
 "replace": ["crypto_aes_encrypt_block"],
 "annotate": ["crypto/crypto_aesctr.c", "crypto/crypto_aesctr_shared.c"],
 "defines": ["VERIF_HALLOC"],
 "timeout": 300,
 "assumptions": ["block cipher abstracted at a ghost point (G3): crypto_aes_encrypt_block replaced by AES_BLOCK_CONTRACT"]
}
*/
#include "verif.h"
#define C02_GHOST_DEFINE
#include "c02_aes_ghost.h"
#include "crypto/crypto_aesctr.c"
#include "ctr.h"

void
h_generate(void)
{
	ctr_ghost();
	CTR_MK_STREAM(S);
	uint64_t ctr0 = S->bytectr;
	uint8_t nonce0[8];
	for (int k = 0; k < 8; k++)
		nonce0[k] = S->pblk[k];
	const struct crypto_aes_key * key0 = S->key;

	crypto_aesctr_stream_cipherblock_generate(S);

	/* plain-C restatement: counter block = nonce || be64(block index), every carry included */
	uint64_t blk = ctr0 / 16;
	__CPROVER_assert(S->bytectr == ctr0 && S->key == key0, "position and key untouched");
	for (int k = 0; k < 8; k++) {
		__CPROVER_assert(S->pblk[k] == nonce0[k], "nonce field untouched");
		__CPROVER_assert(S->pblk[8 + k] == ((blk >> (56 - 8 * k)) & 0xff), "counter field = be64(bytectr/16)");
	}
	if (S->key == g_aes_key && B16_EQ(S->pblk, g_aes_X))
		__CPROVER_assert(B16_EQ(S->buf, g_aes_Y), "buf = E(key, counter block)");
	VCOVER(ctr0 == 0);					/* first block after init2: 0xff wraps, re-encode */
	VCOVER(ctr0 == 16 * 255);				/* low byte not wrapping */
	VCOVER(ctr0 == 16 * 256);				/* carry out of the low byte (256 blocks) */
	VCOVER(ctr0 == 16 * (uint64_t)65536);			/* carry across two bytes (65536 blocks) */
	VCOVER(ctr0 == 16 * (uint64_t)0x0100000000000000 - 16);	/* last block index with 7 low bytes 0xff.. */
	VCOVER(CTR_PT(S));
	VCOVER(!CTR_PT(S));
}
