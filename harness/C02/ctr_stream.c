/* VERIF-GROUP
{
 "property": ["C02", "C03"],
 "entry": "h_stream",
 "enforce": ["crypto_aesctr_stream"],
 "replace": ["crypto_aesctr_stream_cipherblock_use", "crypto_aesctr_stream_cipherblock_generate",
             "crypto_aesctr_stream_pre_wholeblock", "crypto_aesctr_stream_post_wholeblock"],
 "annotate": ["crypto/crypto_aesctr.c", "crypto/crypto_aesctr_shared.c"],
 "defines": ["VERIF_HALLOC", "C02_FIXED_OBJ"],
 "matrix": {"BUFMODE": [0, 1]},
 "timeout": 400,
 "assumptions": ["generic build (no CPUSUPPORT_*): portable path only",
                 "buffer objects <= CTR_MAXLEN (64) bytes; stream position, call length and loop count are unbounded (loop contract)",
                 "domain: bytectr + buflen < 2^64 (stream length limit of the 64-bit byte counter)"]
}
*/
#include "verif.h"
#define C02_GHOST_DEFINE
#include "c02_aes_ghost.h"
#include "crypto/crypto_aesctr.c"
#include "ctr.h"

void
h_stream(void)
{
	ctr_ghost();
	CTR_MK_STREAM(S);
	IN(size_t, len);
	__CPROVER_assume(len <= CTR_MAXLEN);
	CTR_MK_BUFS(in, out, len);
	CTR_CALL(in, out, len);		/* ghost arguments: the buffers of this call */
	uint64_t ctr0 = S->bytectr;
	uint8_t inb = (g_i < len) ? in[g_i] : 0;
	const struct crypto_aes_key * key0 = S->key;
	uint8_t nonce0[8];
	for (int k = 0; k < 8; k++)
		nonce0[k] = S->pblk[k];

#ifdef CTR_HAVOC_HWACCEL
	{
		IN(int, hw);		/* dispatcher build: every value of the selection variable */
		__CPROVER_assume(hw >= HW_SOFTWARE && hw <= HW_UNSET);
		hwaccel = hw;
	}
#endif

	crypto_aesctr_stream(S, in, out, len);

	__CPROVER_assert(S->bytectr == ctr0 + len, "position advanced by exactly buflen");
	__CPROVER_assert(S->key == key0 && B8_EQ(S->pblk, nonce0), "key and nonce field untouched");
	if (g_i < len && CTR_AT(S, ctr0 + g_i))
		__CPROVER_assert(out[g_i] == (inb ^ CTR_KS(ctr0 + g_i)), "out[i] = in0[i] ^ E(key, nonce||be64((pos+i)/16))[(pos+i)%16]");
	VCOVER(len == 0);
#ifdef CTR_EXTRA_MARKERS
	CTR_EXTRA_MARKERS;
#endif
	VCOVER(len == 3 && ctr0 % 16 == 14 && g_i == 2 && CTR_AT(S, ctr0 + g_i));			/* straddles a block */
#if BUFMODE == 1
	VCOVER(len == 40 && ctr0 % 16 == 5 && g_i == 39 && CTR_AT(S, ctr0 + g_i) && bufmode == 1);	/* head+2 blocks+tail, in place */
#endif
	VCOVER(len == 32 && ctr0 == 16 * 255 && g_i == 16 && CTR_AT(S, ctr0 + g_i));			/* counter carry inside a call */
#if BUFMODE == 0
	VCOVER(len == 16 && ctr0 == 0 && g_i == 0 && CTR_AT(S, ctr0 + g_i) && bufmode == 0);
#endif
	VCOVER(len == 2 && ctr0 % 16 == 3 && g_i == 1 && CTR_AT(S, ctr0 + g_i));				/* sub-block call inside a block */
}
