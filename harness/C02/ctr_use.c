/* VERIF-GROUP
{
 "property": ["C02", "C03"],
 "entry": "h_use",
 "enforce": ["crypto_aesctr_stream_cipherblock_use"],
 "replace": [],
 "annotate": ["crypto/crypto_aesctr.c", "crypto/crypto_aesctr_shared.c"],
 "defines": ["VERIF_HALLOC"],
 "matrix": {"BUFMODE": [0, 1, 2, 3]},
 "timeout": 300,
 "assumptions": ["buffer objects <= CTR_MAXLEN (64) bytes; the loop itself is closed by a loop contract"]
}
*/
#include "verif.h"
#define C02_GHOST_DEFINE
#include "c02_aes_ghost.h"
#include "crypto/crypto_aesctr.c"
#include "ctr.h"

void
h_use(void)
{
	ctr_ghost();
	CTR_MK_STREAM(S);
	IN(size_t, len);
	__CPROVER_assume(len <= CTR_MAXLEN);
	CTR_MK_BUFS(in, out, len);
	CTR_CALL(in, out, len);			/* ghost arguments: the buffers of the public call */
	IN(size_t, off0);			/* the cursor is anywhere inside them */
	__CPROVER_assume(off0 <= len);
	IN(size_t, nbytes);
	IN(size_t, bytemod);
	const uint8_t * inp = in + off0;
	uint8_t * outp = out + off0;
	size_t l = len - off0;
	uint64_t ctr0 = S->bytectr;
	uint8_t inb = (g_i < len) ? in[g_i] : 0;

	crypto_aesctr_stream_cipherblock_use(S, &inp, &outp, &l, nbytes, bytemod);

	/* the obligation once more in plain C over the harness's own view of the objects */
	__CPROVER_assert(inp == in + off0 + nbytes && outp == out + off0 + nbytes && l == len - off0 - nbytes, "cursor advanced by nbytes");
	__CPROVER_assert(S->bytectr == ctr0 + nbytes, "stream position advanced by nbytes");
	if (g_i >= off0 && g_i - off0 < nbytes)
		__CPROVER_assert(out[g_i] == (inb ^ S->buf[bytemod + (g_i - off0)]), "out = in0 ^ keystream block byte");
	else if (g_i < len && bufmode != 1)
		__CPROVER_assert(in[g_i] == inb, "input outside the consumed range untouched");
#if BUFMODE == 1
	VCOVER(nbytes == 16 && bytemod == 0 && bufmode == 1 && g_i == off0 + 15 && off0 == 7);
#endif
#if BUFMODE == 0
	VCOVER(nbytes == 3 && bytemod == 13 && bufmode == 0 && g_i == 2 && off0 == 0);
#endif
	VCOVER(nbytes == 0);
#if BUFMODE == 2
	VCOVER(nbytes == 5 && bufmode == 2 && g_i == off0 && off0 == len - 5);
#endif
#if BUFMODE == 3
	VCOVER(nbytes == 5 && bufmode == 3 && g_i == off0 + 4);
#endif
}
