/* VERIF-GROUP
{
 "property": ["C02", "C03"],
 "entry": "h_use",
 "enforce": ["crypto_aesctr_stream_cipherblock_use"],
 "replace": [],
 "annotate": ["crypto/crypto_aesctr.c", "crypto/crypto_aesctr_shared.c"],
 "defines": ["VERIF_HALLOC"],
 "timeout": 300,
 "assumptions": ["buffer objects <= CTR_MAXLEN (64) bytes; the loop itself is closed by a loop contract"]
}
*/
#include "verif.h"
#define C02_GHOST_DEFINE
#include "c02_aes_ghost.h"
#include "crypto/crypto_aesctr.c"
#include "ctr.h"

void
h_use(void)
{
	ctr_ghost();
	CTR_MK_STREAM(S);
	IN(size_t, len);
	__CPROVER_assume(len <= CTR_MAXLEN);
	CTR_MK_BUFS(in, out, len);
	g_ctr_in = in;
	g_ctr_out = out;
	IN(size_t, nbytes);
	IN(size_t, bytemod);
	const uint8_t * inp = in;
	uint8_t * outp = out;
	size_t l = len;
	uint64_t ctr0 = S->bytectr;
	uint8_t inb = (g_i < nbytes && nbytes <= len) ? in[g_i] : 0;

	crypto_aesctr_stream_cipherblock_use(S, &inp, &outp, &l, nbytes, bytemod);

	/* the obligation once more in plain C over the harness's own view of the objects */
	__CPROVER_assert(inp == in + nbytes && outp == out + nbytes && l == len - nbytes, "cursor advanced by nbytes");
	__CPROVER_assert(S->bytectr == ctr0 + nbytes, "stream position advanced by nbytes");
	if (g_i < nbytes)
		__CPROVER_assert(out[g_i] == (inb ^ S->buf[bytemod + g_i]), "out = in0 ^ keystream block byte");
	VCOVER(nbytes == 16 && bytemod == 0 && bufmode == 1 && g_i == 15);
	VCOVER(nbytes == 3 && bytemod == 13 && bufmode == 0 && g_i == 2);
	VCOVER(nbytes == 0);
	VCOVER(nbytes == 5 && bufmode == 2 && g_i == 0);
	VCOVER(nbytes == 5 && bufmode == 3 && g_i == 4);
}
