/* VERIF-GROUP
{
 "property": ["C02", "C03"],
 "entry": "h_exp128",
 "enforce": ["crypto_aes_key_expand_128_aesni"],
 "replace": [],
 "annotate": ["crypto/crypto_aes_aesni.c"],
 "defines": ["VERIF_HALLOC", "CPUSUPPORT_X86_AESNI=1", "SPEC_AES_SBOX_UF"],
 "models": ["models/x86_sse2.c", "models/x86_aesni.c"],
 "cflags": ["-msse2", "-maes"],
 "timeout": 30,
 "assumptions": ["aeskeygenassist, pshufd, pslldq modelled from the Intel SDM (models/x86_aesni.c, models/x86_sse2.c)",
                 "S-box abstracted to an arbitrary function on both sides (SPEC_AES_SBOX_UF); the real S-box is C02/aes_spec_sbox",
                 "specification: spec/aes_spec.h KeyExpansion (FIPS-197 5.2), Nk = 4"]
}
*/
#include "aesni.h"

void
h_exp128(void)
{
	uint8_t * key = malloc(16);
	__m128i * rk = malloc(11 * sizeof(__m128i));
	__CPROVER_assume(key != NULL && rk != NULL);
	IN(size_t, k);
	g_k = k;
	__CPROVER_havoc_object(g_aes_sbox_uf);
	uint8_t w[240];

	crypto_aes_key_expand_128_aesni(key, rk);

	spec_aes_key_expansion(key, 4, w);
	for (int i = 0; i < 176; i++)
		__CPROVER_assert(((const uint8_t *)rk)[i] == w[i], "round keys = FIPS-197 KeyExpansion(key), Nk = 4");
	VCOVER(g_k == 175 && key[0] == 0x2b);
	VCOVER(g_k == 16);
}
