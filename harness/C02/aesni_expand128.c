/* VERIF-GROUP
{
 "property": ["C02", "C03"],
 "entry": "h_exp128",
 "enforce": ["crypto_aes_key_expand_128_aesni"],
 "replace": [],
 "annotate": ["crypto/crypto_aes_aesni.c"],
 "defines": ["VERIF_HALLOC", "CPUSUPPORT_X86_AESNI=1", "SPEC_AES_SBOX_UF"],
 "models": ["models/x86_sse2.c"],
 "cflags": ["-msse2", "-maes"],
 "timeout": 400,
 "backend": "kissat",
 "assumptions": ["models/x86_aesni.c (included by harness/C02/aesni.h): AESENC, AESENCLAST, AESKEYGENASSIST from the Intel SDM",
                 "aeskeygenassist, pshufd, pslldq modelled from the Intel SDM (models/x86_aesni.c, models/x86_sse2.c)",
                 "S-box abstracted to an arbitrary function on both sides (SPEC_AES_SBOX_UF); the real S-box is C02/aes_spec_sbox",
                 "specification: spec/aes_spec.h KeyExpansion (FIPS-197 5.2), Nk = 4"]
}
*/
#include "aesni.h"

void
h_exp128(void)
{
	uint8_t * key = malloc(16);
	uint8_t * rkb = malloc(176);		/* 11 round keys */
	__CPROVER_assume(key != NULL && rkb != NULL);
	IN(size_t, k);
	g_k = k;
#ifdef SPEC_AES_SBOX_UF
	__CPROVER_havoc_object(g_aes_sbox_uf);
#endif
	/* ghost point: this key, and its FIPS-197 key schedule computed by the specification */
	for (int i = 0; i < 16; i++)
		g_ks_key[i] = key[i];
	spec_aes_key_expansion(g_ks_key, 4, g_ks_w);

	crypto_aes_key_expand_128_aesni(key, (__m128i *)rkb);

	for (int i = 0; i < 176; i++)
		__CPROVER_assert(rkb[i] == g_ks_w[i], "round keys = FIPS-197 KeyExpansion(key), Nk = 4");
	VCOVER(g_k == 175 && key[0] == 0x2b);
	VCOVER(g_k == 16);
}
