/* VERIF-GROUP
{
 "property": ["C02", "C03"],
 "entry": "h_blkmem",
 "enforce": ["crypto_aes_encrypt_block_aesni"],
 "replace": ["crypto_aes_encrypt_block_aesni_m128i"],
 "annotate": ["crypto/crypto_aes_aesni.c"],
 "defines": ["VERIF_HALLOC", "CPUSUPPORT_X86_AESNI=1"],
 "models": ["models/x86_sse2.c"],
 "cflags": ["-msse2", "-maes"],
 "timeout": 120,
 "assumptions": ["load/store byte order of the block: crypto_aes_encrypt_block_aesni_m128i replaced by its (enforced) contract; in and out may be the same block"]
}
*/
#include "aesni.h"

void
h_blkmem(void)
{
	AESNI_MK_KEY(K);
	IN(int, alias);
	uint8_t * in = malloc(16);
	uint8_t * out = alias ? in : malloc(16);
	__CPROVER_assume(in != NULL && out != NULL);
	const struct crypto_aes_key * gk;
	__CPROVER_havoc_object(g_aes_X);
	__CPROVER_havoc_object(g_aes_Y);
	g_aes_key = gk;
	int atpoint = ((const void *)K == (const void *)g_aes_key) && B16_EQ(in, g_aes_X);

	crypto_aes_encrypt_block_aesni(in, out, K);

	if (atpoint)
		__CPROVER_assert(B16_EQ(out, g_aes_Y), "out = E(key, in0), also when in == out");
	VCOVER(atpoint && alias);
	VCOVER(atpoint && !alias);
	VCOVER(!atpoint);
}
