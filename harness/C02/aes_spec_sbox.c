/* VERIF-GROUP
{
 "property": ["C02"],
 "entry": "h_sbox",
 "enforce": [],
 "replace": [],
 "annotate": [],
 "loop_contracts": false,
 "timeout": 120,
 "assumptions": ["specification self-consistency lemma: the S-box table printed in FIPS-197 Figure 7 equals the affine map of the GF(2^8) inverse (sec. 5.1.1) for all 256 inputs; loop bounds are compile-time constants"]
}
*/
#include "verif.h"
#include "aes_spec.h"

void
h_sbox(void)
{
	IN(uint8_t, a);
	IN(uint8_t, b);

	/* the inverse really is the inverse: a * a^254 = 1 for a != 0, and 0 -> 0 */
	__CPROVER_assert(a == 0 ? spec_aes_ginv(a) == 0 : spec_aes_gmul(a, spec_aes_ginv(a)) == 1, "ginv is the multiplicative inverse in GF(2^8)");
	/* the printed table is the generated S-box */
	__CPROVER_assert(spec_aes_sbox_gen(a) == spec_aes_sbox[a], "FIPS-197 Figure 7 = affine(inverse)");
	/* xtime is multiplication by {02}; the field multiplication is commutative */
	__CPROVER_assert(spec_aes_xtime(a) == spec_aes_gmul(0x02, a), "xtime = {02} * a");
	__CPROVER_assert(spec_aes_gmul(a, b) == spec_aes_gmul(b, a), "gmul commutative");
	/* round constants of sec. 5.2 as used by the key expansions in the tree */
	__CPROVER_assert(spec_aes_rcon(1) == 0x01 && spec_aes_rcon(8) == 0x80 && spec_aes_rcon(9) == 0x1b && spec_aes_rcon(10) == 0x36, "Rcon");
	VCOVER(a == 0x53 && spec_aes_sbox[a] == 0xed);
	VCOVER(a == 0);
}
