/*
 * aesni_g2.h -- G2 lock-step abstraction of the AES round for the structure proof of
 * crypto_aes_encrypt_block_aesni_m128i (included before aesni.h).  Specification side = logger:
 * spec_aes_cipher() calls these instead of spec_aes_round / spec_aes_final_round.
 */
#ifndef AESNI_G2_H_
#define AESNI_G2_H_
#include <stdint.h>
uint8_t g2_in[16][32];
uint8_t g2_out[16][16];
int g2_kind[16];
int g2_nspec, g2_nimpl;
static void
g2_spec_step(uint8_t st[16], const uint8_t rk[16], int kind)
{
	int idx = g2_nspec++;

	__CPROVER_assert(idx < 16, "at most 14 rounds");
	for (int i = 0; i < 16; i++) {
		g2_in[idx][i] = st[i];
		g2_in[idx][16 + i] = rk[i];
	}
	g2_kind[idx] = kind;
	for (int i = 0; i < 16; i++)
		st[i] = g2_out[idx][i];
}
#define SPEC_AES_ROUND(st, rk) g2_spec_step(st, rk, 1)
#define SPEC_AES_FINAL_ROUND(st, rk) g2_spec_step(st, rk, 2)
#endif
