/* VERIF-GROUP
{
 "property": ["C02"],
 "entry": "h_init2",
 "enforce": ["crypto_aesctr_init2"],
 "replace": [],
 "annotate": ["crypto/crypto_aesctr.c", "crypto/crypto_aesctr_shared.c"],
 "defines": ["VERIF_HALLOC"],
 "timeout": 120,
 "assumptions": ["generic build; the AES-NI build of init2 (hwaccel_init) is harness/C03/ctr_init2_aesni.c"]
}
*/
#include "verif.h"
#define C02_GHOST_DEFINE
#include "c02_aes_ghost.h"
#include "crypto/crypto_aesctr.c"
#include "ctr.h"

void
h_init2(void)
{
	ctr_ghost();
	CTR_MK_STREAM(S);		/* arbitrary previous content: a fresh object or a stream in any state (re-use) */
	IN(uint64_t, nonce);
	const struct crypto_aes_key * key;
	const struct crypto_aes_key * key0 = S->key;

#ifdef CTR_HAVOC_HWACCEL
	{
		IN(int, hw);
		__CPROVER_assume(hw >= HW_SOFTWARE && hw <= HW_UNSET);
		hwaccel = hw;
	}
#endif

	crypto_aesctr_init2(S, key, nonce);
#ifdef CTR_HAVOC_HWACCEL
	__CPROVER_assert(hwaccel != HW_UNSET, "a path has been selected before the first stream call");
#endif

	__CPROVER_assert(S->bytectr == 0, "keystream restarts at position 0");
	__CPROVER_assert(S->key == (key != NULL ? key : key0), "NULL key retains the previous key");
	for (int k = 0; k < 8; k++)
		__CPROVER_assert(S->pblk[k] == ((nonce >> (56 - 8 * k)) & 0xff), "nonce field = be64(nonce)");
	__CPROVER_assert(S->pblk[15] == 0xff, "first increment wraps");
	/* so position p of the re-initialised stream uses counter block nonce_be64 || be64(p / 16): CTR_AT speaks about pblk[0..8) */
	VCOVER(key == NULL && key0 != NULL);
	VCOVER(key != NULL && key0 == NULL);
	VCOVER(key != NULL && key0 != NULL && key != key0 && nonce == 0x0102030405060708ULL);
}
