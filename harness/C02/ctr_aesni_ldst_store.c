/* VERIF-GROUP
{
 "property": ["C02", "C03"],
 "entry": "h_store",
 "enforce": ["_mm_storeu_si128"],
 "replace": [],
 "annotate": ["crypto/crypto_aesctr_aesni.c", "crypto/crypto_aesctr_shared.c"],
 "defines": ["VERIF_HALLOC", "CPUSUPPORT_X86_AESNI=1"],
 "matrix": {"BUFMODE": [0, 1]},
 "models": ["models/x86_sse2.c"],
 "cflags": ["-msse2", "-maes"],
 "timeout": 120,
 "assumptions": ["discharges the contract that replaces GCC's _mm_storeu_si128 in C02/ctr_aesni_wholeblocks: enforced on the real <emmintrin.h> body"]
}
*/
#include "verif.h"
#include "c02_x86intrin.h"
#define C02_GHOST_DEFINE
#include "c02_aes_ghost.h"
#include "crypto/crypto_aesctr_aesni.c"
#include "ctr.h"

void
h_store(void)
{
	ctr_ghost();
	IN(size_t, len);
	__CPROVER_assume(len <= CTR_MAXLEN);
	CTR_MK_BUFS(in, out, len);
	CTR_CALL(in, out, len);
	IN(size_t, off);
	__CPROVER_assume(off <= len);
	IN(unsigned, k);
	__CPROVER_assume(k < 16);
	IN(size_t, j);				/* a byte outside the stored range keeps its value */
	__CPROVER_assume(j < len && (j < off || j >= off + 16));
	uint8_t oj = out[j];
	__m128i v;

	_mm_storeu_si128((__m128i *)(out + off), v);

	__CPROVER_assert(out[off + k] == M128_BYTE(v, k), "byte k of memory is byte k of the register");
	__CPROVER_assert(out[j] == oj, "nothing else written");
	VCOVER(off == 0 && len == 17 && k == 15 && j == 16);
	VCOVER(off == 5 && len == 64 && k == 0 && j == 4);
	VCOVER(off == 5 && len == 64 && j == 21);
}
