/* VERIF-GROUP
{
 "property": ["C02", "C03"],
 "entry": "h_wb",
 "enforce": ["crypto_aesctr_aesni_stream_wholeblocks"],
 "replace": ["crypto_aes_encrypt_block_aesni_m128i", "_mm_loadu_si128", "_mm_storeu_si128", "_mm_loadu_si64"],
 "annotate": ["crypto/crypto_aesctr_aesni.c", "crypto/crypto_aesctr_shared.c"],
 "defines": ["VERIF_HALLOC", "C02_FIXED_OBJ", "CPUSUPPORT_X86_AESNI=1"],
 "matrix": {"BUFMODE": [0, 1]},
 "models": ["models/x86_sse2.c"],
 "cflags": ["-msse2", "-maes"],
 "timeout": 400,
 "assumptions": ["SSE2 builtin punpcklqdq modelled from the SDM (models/x86_sse2.c)",
                 "_mm_loadu_si64 under an assumed contract (loads 8 bytes into the low lane; upper lane unspecified): CBMC cannot interpret GCC's __m64 cast",
                 "_mm_loadu_si128/_mm_storeu_si128 replaced by contracts that are enforced on the GCC header bodies in C02/ctr_aesni_ldst",
                 "block cipher on vector registers abstracted at the ghost point (G3)",
                 "buffer objects <= CTR_MAXLEN bytes; number of blocks unbounded (loop contract)"]
}
*/
#include "verif.h"
#include "c02_x86intrin.h"
#define C02_GHOST_DEFINE
#include "c02_aes_ghost.h"
#include "crypto/crypto_aesctr_aesni.c"
#include "ctr.h"

void
h_wb(void)
{
	ctr_ghost();
	CTR_MK_STREAM(S);
	IN(size_t, len);
	__CPROVER_assume(len <= CTR_MAXLEN);
	CTR_MK_BUFS(in, out, len);
	CTR_CALL(in, out, len);
	IN(size_t, off0);
	__CPROVER_assume(off0 <= len);
	const uint8_t * inp = in + off0;
	uint8_t * outp = out + off0;
	size_t l = len - off0;
	uint64_t ctr0 = S->bytectr;
	uint8_t inb = (g_i < len) ? in[g_i] : 0;

	crypto_aesctr_aesni_stream_wholeblocks(S, &inp, &outp, &l);

	size_t n = (len - off0) - (len - off0) % 16;
	__CPROVER_assert(l == (len - off0) % 16 && inp == in + off0 + n && outp == out + off0 + n, "cursor after the last whole block");
	__CPROVER_assert(S->bytectr == ctr0 + n, "position advanced by the whole blocks");
	for (int k = 0; k < 8; k++)
		__CPROVER_assert(S->pblk[8 + k] == ((((ctr0 + n) / 16 - 1) >> (56 - 8 * k)) & 0xff), "counter of the last block written back");
	if (g_i >= off0 && g_i - off0 < n && CTR_AT(S, ctr0 + (g_i - off0)))
		__CPROVER_assert(out[g_i] == (inb ^ CTR_KS(ctr0 + (g_i - off0))), "out = in0 ^ keystream(position)");
	VCOVER(n == 16 && l == 0 && off0 == 3 && g_i == off0 + 15 && CTR_AT(S, ctr0 + 15));
	VCOVER(n == 48 && l == 5 && g_i == off0 + 33 && CTR_AT(S, ctr0 + 33) && ctr0 == 16 * 254);	/* carry inside the bulk loop */
	VCOVER(n == 32 && g_i == off0 + 31 && !CTR_AT(S, ctr0 + 31));
}
