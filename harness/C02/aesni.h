/* shared by the AES-NI block-cipher harnesses: includes the real file with GCC's intrinsic headers */
#include <stdlib.h>
#include "verif.h"
#define C02_WANT_WMMINTRIN
#include "c02_x86intrin.h"
#define C02_GHOST_DEFINE
#include "c02_aes_ghost.h"
#include "crypto/crypto_aes_aesni.c"
/* the AES-NI instruction models share the static specification functions of spec/aes_spec.h with this translation
   unit (goto-cc cannot link two translation units that both carry the same static functions), so the model file is
   included rather than listed under "models" */
#include "aes_spec.h"
#include "x86_aesni.c"

/* an expanded-key object with arbitrary round keys, nr in {10, 14}, rkeys aligned inside rkeys_buf */
#define AESNI_MK_KEY(K) \
	struct crypto_aes_key_aesni * K = malloc(sizeof(struct crypto_aes_key_aesni)); \
	__CPROVER_assume(K != NULL); \
	ALIGN_PTR_INIT(K->rkeys, sizeof(__m128i)); \
	__CPROVER_assume(K->nr == 10 || K->nr == 14)

#ifdef SPEC_AES_SBOX_UF
uint8_t g_aes_sbox_uf[256];	/* the arbitrary S-box (havocked by the harness) */
#endif
