/* VERIF-GROUP
{
 "property": ["C02", "C03"],
 "entry": "h_astream",
 "enforce": ["crypto_aesctr_aesni_stream"],
 "replace": ["crypto_aesctr_stream_pre_wholeblock", "crypto_aesctr_stream_post_wholeblock",
             "crypto_aesctr_aesni_stream_wholeblocks"],
 "annotate": ["crypto/crypto_aesctr_aesni.c", "crypto/crypto_aesctr_shared.c"],
 "defines": ["VERIF_HALLOC", "C02_FIXED_OBJ", "CPUSUPPORT_X86_AESNI=1"],
 "matrix": {"BUFMODE": [0, 1]},
 "models": ["models/x86_sse2.c"],
 "cflags": ["-msse2", "-maes"],
 "timeout": 300,
 "assumptions": ["AES-NI bulk path against the same stream contract as the portable path (CTR_STREAM_CONTRACT)",
                 "buffer objects <= CTR_MAXLEN bytes; stream position and call length otherwise unbounded",
                 "domain: bytectr + buflen < 2^64"]
}
*/
#include "verif.h"
#include "c02_x86intrin.h"
#define C02_GHOST_DEFINE
#include "c02_aes_ghost.h"
#include "crypto/crypto_aesctr_aesni.c"
#include "ctr.h"

void
h_astream(void)
{
	ctr_ghost();
	CTR_MK_STREAM(S);
	IN(size_t, len);
	__CPROVER_assume(len <= CTR_MAXLEN);
	CTR_MK_BUFS(in, out, len);
	CTR_CALL(in, out, len);
	uint64_t ctr0 = S->bytectr;
	uint8_t inb = (g_i < len) ? in[g_i] : 0;
	const struct crypto_aes_key * key0 = S->key;
	uint8_t nonce0[8];
	for (int k = 0; k < 8; k++)
		nonce0[k] = S->pblk[k];

	crypto_aesctr_aesni_stream(S, in, out, len);

	__CPROVER_assert(S->bytectr == ctr0 + len, "position advanced by exactly buflen");
	__CPROVER_assert(S->key == key0 && B8_EQ(S->pblk, nonce0), "key and nonce field untouched");
	if (g_i < len && CTR_AT(S, ctr0 + g_i))
		__CPROVER_assert(out[g_i] == (inb ^ CTR_KS(ctr0 + g_i)), "out[i] = in0[i] ^ E(key, nonce||be64((pos+i)/16))[(pos+i)%16]");
	VCOVER(len == 0);
	VCOVER(len == 3 && ctr0 % 16 == 14 && g_i == 2 && CTR_AT(S, ctr0 + g_i));
	VCOVER(len == 40 && ctr0 % 16 == 5 && g_i == 39 && CTR_AT(S, ctr0 + g_i));		/* head + 1 bulk block + tail */
	VCOVER(len == 48 && ctr0 == 16 * 255 && g_i == 16 && CTR_AT(S, ctr0 + g_i));		/* counter carry in the bulk loop */
	VCOVER(len == 16 && ctr0 == 0 && g_i == 0 && CTR_AT(S, ctr0 + g_i));
	VCOVER(len == 17 && ctr0 % 16 == 1 && g_i == 16 && CTR_AT(S, ctr0 + g_i));		/* >= 16 bytes but no whole block */
}
