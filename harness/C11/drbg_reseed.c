/* VERIF-GROUP
{
 "property": ["C11"],
 "entry": "h_reseed",
 "enforce": ["reseed"],
 "replace": ["entropy_read"],
 "annotate": ["crypto/crypto_entropy.c", "util/insecure_memzero.c", "util/entropy.c"],
 "specs": {"util/insecure_memzero.c": "contracts/util__insecure_memzero.c.drbg.spec"},
 "expect_loops": ["insecure_memzero_func"],
 "defines": ["VERIF_HALLOC"],
 "models": ["models/drbg_hmac.c", "models/drbg_os.c"],
 "timeout": 300,
 "assumptions": ["HMAC-SHA256 is an abstract leaf (models/drbg_hmac.c): its conformance is C01's",
                 "entropy_read replaced by its contract (enforced in C11/er_read); update() inlined"]
}
*/
#include "drbg.h"
#include "util/insecure_memzero.c"
#include "util/entropy.c"

void
h_reseed(void)
{
	DRBG_PRE();
	DRBG_MEMZERO();
	uint32_t ctr0 = drbg.reseed_counter;
	int rc;

	rc = reseed();

	if (rc == 0 && hm_base == hm_n0) {
		/* lockstep against SP 800-90A 10.1.2.4 */
		uint8_t seed[SPEC_SEEDLEN_RESEED];
		for (size_t i = 0; i < SPEC_SEEDLEN_RESEED; i++)
			seed[i] = HM_E(hm_n0).msg[33 + i];
		__CPROVER_assert(!(g_er_idx < 32) || seed[g_er_idx] == g_er_snap, "SP800-90A: seed_material is the 32 bytes of OS entropy");
		g_spec_k = hm_n0;
		spec_drbg_reseed(&S, seed);
		__CPROVER_assert(g_spec_k == g_hm.n, "SP800-90A lockstep: same number of HMAC computations");
		DRBG_SAME_KV(S);
		__CPROVER_assert(drbg.reseed_counter == S.reseed_counter, "SP800-90A: reseed_counter = 1");
		VCOVER(g_er_idx == 31);
	}
	VCOVER(rc == 0 && hm_base + 1 == hm_n0 && ctr0 == 257);
	VCOVER(rc == -1 && drbg.reseed_counter == 300);
}
