/* VERIF-GROUP
{
 "property": ["C11"],
 "entry": "h_update",
 "enforce": ["update"],
 "replace": [],
 "annotate": ["crypto/crypto_entropy.c", "util/insecure_memzero.c"],
 "specs": {"util/insecure_memzero.c": "contracts/util__insecure_memzero.c.drbg.spec"},
 "expect_loops": ["insecure_memzero_func"],
 "defines": ["VERIF_HALLOC"],
 "models": ["models/drbg_hmac.c", "models/drbg_os.c"],
 "timeout": 300,
 "assumptions": ["HMAC-SHA256 is an abstract leaf (models/drbg_hmac.c): its conformance is C01's; provided_data <= 64 bytes (the code uses 0, 32, 48)",
                 "insecure_memzero_func is the real one, its loop closed by a loop contract"]
}
*/
#include "drbg.h"
#include "util/insecure_memzero.c"

void
h_update(void)
{
	DRBG_PRE();
	DRBG_MEMZERO();
	IN(size_t, datalen);
	__CPROVER_assume(datalen <= HM_DMAX);
	IN_BYTES(data0, datalen, HM_DMAX);
	IN(int, usenull);
	const uint8_t * data = (datalen == 0 && usenull) ? NULL : data0;

	update(data, datalen);

	/* lockstep against SP 800-90A 10.1.2.2 when the window is placed on this call's trace */
	if (hm_base == hm_n0) {
		g_spec_k = hm_n0;
		spec_drbg_update(&S, data, datalen);
		__CPROVER_assert(g_spec_k == g_hm.n, "SP800-90A lockstep: same number of HMAC computations");
		DRBG_SAME_KV(S);
		VCOVER(datalen == 48);
	}
	/* markers are kept few: each one costs a SAT iteration of its own */
	VCOVER(datalen == 0 && data == NULL && hm_base == hm_n0);
	VCOVER(datalen == HM_DMAX && hm_base == hm_n0 + 2);
	VCOVER(datalen == 1 && hm_base + 1 == hm_n0);
	free(data0);
}
