/* VERIF-GROUP
{
 "property": ["C11"],
 "entry": "h_read",
 "enforce": ["crypto_entropy_read"],
 "replace": ["instantiate", "reseed", "generate"],
 "annotate": ["crypto/crypto_entropy.c"],
 "defines": ["VERIF_HALLOC", "HM_DMAX=48", "HM_LOGN=1"],
 "models": ["models/drbg_hmac.c", "models/drbg_os.c"],
 "timeout": 300,
 "assumptions": ["instantiate, reseed, generate replaced by their contracts (each enforced in its own C11 group)",
                 "module invariant DR_INV assumed at entry and proved at exit (L-ind); request length arbitrary up to 2^20 (object size only; the chunk loop is closed by its contract)",
                 "the content of the chunks is generate()'s contract; this group proves which generate/reseed/instantiate calls are made, in which order, on which part of the buffer"]
}
*/
#include "drbg.h"

void
h_read(void)
{
	DRBG_PRE();
	IN(int, inst0);
	instantiated = inst0;
	__CPROVER_assume(DR_INV);
	IN(size_t, buflen);
	__CPROVER_assume(buflen <= ((size_t)200000));
	IN_BYTES(buf, buflen, 1);
	g_ce_base = buf;
	g_ce_done = 0;
	uint32_t ctr0 = drbg.reseed_counter;
	size_t gen0 = g_ce_gen_calls, rs0 = g_ce_reseeds, fails0 = g_er_fails, er0 = g_er_calls;
	int rc;

	rc = crypto_entropy_read(buf, buflen);

	/* the property's failure clause, restated */
	__CPROVER_assert(rc == 0 || g_er_fails == fails0 + 1, "C11: the call fails only because the OS entropy source failed");
	__CPROVER_assert(rc != 0 || instantiated == 1, "C11: success only from an instantiated generator");
	VCOVER(rc == 0 && inst0 == 0 && buflen == 0);
	VCOVER(rc == 0 && inst0 == 1 && buflen == 3 * GENERATE_MAXLEN + 5 && ctr0 == RESEED_INTERVAL && g_ce_reseeds == rs0 + 1);
	VCOVER(rc == -1 && inst0 == 1 && g_ce_gen_calls == gen0 + 2);
	VCOVER(rc == -1 && inst0 == 0 && instantiated == 0);
	VCOVER(rc == 0 && buflen == ((size_t)200000));
	free(buf);
}
