/* VERIF-GROUP
{
 "property": ["C11", "C14"],
 "entry": "h_init",
 "enforce": ["entropy_read_init"],
 "replace": [],
 "annotate": ["util/entropy.c"],
 "defines": ["VERIF_HALLOC"],
 "models": ["models/drbg_os.c"],
 "cbmc": ["--malloc-may-fail", "--malloc-fail-null", "--memory-leak-check"],
 "timeout": 120,
 "assumptions": ["open(2)/read(2)/close(2) per POSIX (models/drbg_os.c); warn()/warnx() have no effect"]
}
*/
#include "er.h"

void
h_init(void)
{
	ER_PRE();
	struct entropy_read_cookie * er;

	er = entropy_read_init();

	VCOVER(er == NULL && g_os.opens == 0);		/* allocation failure */
	VCOVER(er == NULL && g_os.opens != 0);
	VCOVER(er != NULL && g_os.fd == 7);
	if (er != NULL) {
		__CPROVER_assert(g_os.path_ok, "C11: the entropy source is /dev/urandom opened read-only");
		free(er);
	}
}
