/* VERIF-GROUP
{
 "property": ["C11"],
 "entry": "h_generate",
 "enforce": ["generate"],
 "replace": [],
 "annotate": ["crypto/crypto_entropy.c", "util/insecure_memzero.c"],
 "specs": {"util/insecure_memzero.c": "contracts/util__insecure_memzero.c.drbg.spec"},
 "expect_loops": ["insecure_memzero_func"],
 "defines": ["VERIF_HALLOC", "HM_DMAX=0", "HM_LOGN=3"],
 "matrix": {"DR_GEN_PART": [1, 2, 3, 4]},
 "models": ["models/drbg_hmac.c", "models/drbg_os.c"],
 "timeout": 900,
 "assumptions": ["HMAC-SHA256 is an abstract leaf (models/drbg_hmac.c): its conformance is C01's",
                 "update() inlined; request length arbitrary in [0, 65536] (loop closed by its contract)"]
}
*/
#include "drbg.h"
#include "util/insecure_memzero.c"

void
h_generate(void)
{
	DRBG_PRE();
	DRBG_MEMZERO();
	IN(size_t, buflen);
	__CPROVER_assume(buflen <= GENERATE_MAXLEN);
	IN_BYTES(buf, buflen, GENERATE_MAXLEN);
	__CPROVER_assume(drbg.reseed_counter <= RESEED_INTERVAL);
	instantiated = 1;
	IN(int, monitored);
	/* position monitor (a pure call-site obligation: generate() never reads these ghosts) */
	IN(size_t, done0);
	g_ce_base = monitored ? buf : NULL;
	g_ce_done = monitored ? 0 : done0;
	uint32_t ctr0 = drbg.reseed_counter;
	size_t nb = (buflen + 31) / 32;

	generate(buf, buflen);

	__CPROVER_assert(drbg.reseed_counter == ctr0 + 1, "SP800-90A 10.1.2.5 step 7: reseed_counter + 1");
	/* markers are kept few: each one costs a SAT iteration of its own */
	VCOVER(buflen == 0 && hm_base == hm_n0);
	VCOVER(buflen == GENERATE_MAXLEN && g_blk == 2047 && hm_base == hm_n0 + 2046 && ctr0 == RESEED_INTERVAL);
	VCOVER(buflen % 32 != 0 && g_blk > 0 && g_blk == nb - 1 && hm_base + 1 == hm_n0 + g_blk && monitored);
	free(buf);
}
