/* VERIF-GROUP
{
 "property": ["C11"],
 "entry": "h_done",
 "enforce": ["entropy_read_done"],
 "replace": [],
 "annotate": ["util/entropy.c"],
 "defines": ["VERIF_HALLOC"],
 "models": ["models/drbg_os.c"],
 "cbmc": ["--memory-leak-check"],
 "timeout": 120,
 "assumptions": ["close(2) per POSIX (models/drbg_os.c); the EINTR retry loop has no variant: partial correctness only"]
}
*/
#include "er.h"

void
h_done(void)
{
	ER_PRE();
	struct entropy_read_cookie * er = malloc(sizeof(struct entropy_read_cookie));
	__CPROVER_assume(er != NULL);
	g_os.fd_state = OS_FD_OPEN;
	er->fd = g_os.fd;
	size_t closes0 = g_os.closes;
	int rc;

	rc = entropy_read_done(er);

	VCOVER(rc == 0 && g_os.closes == closes0 + 1);
	VCOVER(rc == 0 && g_os.closes == closes0 + 3);
	VCOVER(rc == -1);
}
