/* VERIF-GROUP
{
 "property": ["C11", "C14"],
 "entry": "h_er_read",
 "enforce": ["entropy_read"],
 "replace": ["entropy_read_init", "entropy_read_fill", "entropy_read_done"],
 "annotate": ["util/entropy.c"],
 "defines": ["VERIF_HALLOC"],
 "models": ["models/drbg_os.c"],
 "timeout": 300,
 "assumptions": ["entropy_read_init/_fill/_done replaced by their contracts (each enforced in its own C11 group)",
                 "buffer object <= ER_MAXOBJ bytes (object size only)"]
}
*/
#include "er.h"

void
h_er_read(void)
{
	ER_PRE();
	__CPROVER_assume(g_os.fd_state != OS_FD_OPEN);
	IN(size_t, buflen);
	__CPROVER_assume(buflen <= ER_MAXOBJ);
	IN_BYTES(buf, buflen, ER_MAXOBJ);
	int rc;

	rc = entropy_read(buf, buflen);

	__CPROVER_assert(g_os.fd_state != OS_FD_OPEN, "C11: no entropy descriptor left open");
	VCOVER(rc == 0 && buflen == 48 && g_er_idx == 47);
	VCOVER(rc == 0 && buflen == 0);
	VCOVER(rc == -1 && g_os.fd_state == OS_FD_CLOSED && g_os.failed);
	VCOVER(rc == -1 && g_os.fd_state == OS_FD_CLOSEFAILED && !g_os.failed);
	free(buf);
}
