/* VERIF-GROUP
{
 "property": ["C11"],
 "entry": "h_instantiate",
 "enforce": ["instantiate"],
 "replace": ["entropy_read"],
 "annotate": ["crypto/crypto_entropy.c", "util/insecure_memzero.c", "util/entropy.c"],
 "specs": {"util/insecure_memzero.c": "contracts/util__insecure_memzero.c.drbg.spec"},
 "expect_loops": ["insecure_memzero_func"],
 "defines": ["VERIF_HALLOC"],
 "models": ["models/drbg_hmac.c", "models/drbg_os.c"],
 "timeout": 300,
 "assumptions": ["HMAC-SHA256 is an abstract leaf (models/drbg_hmac.c): its conformance is C01's",
                 "entropy_read replaced by its contract (enforced in C11/er_read); update() inlined"]
}
*/
#include "drbg.h"
#include "util/insecure_memzero.c"
#include "util/entropy.c"

void
h_instantiate(void)
{
	DRBG_PRE();
	DRBG_MEMZERO();
	size_t fail0 = g_er_fails;
	int rc;

	rc = instantiate();

	if (rc == 0 && hm_base == hm_n0) {
		/* lockstep against SP 800-90A 10.1.2.3; the seed material is what call n0 absorbed after V || 0x00,
		   and the contract ties each of its bytes to the byte the OS delivered (g_er_idx) */
		uint8_t seed[SPEC_SEEDLEN_INST];
		for (size_t i = 0; i < SPEC_SEEDLEN_INST; i++)
			seed[i] = HM_E(hm_n0).msg[33 + i];
		__CPROVER_assert(!(g_er_idx < 48) || seed[g_er_idx] == g_er_snap, "SP800-90A: seed_material is the 48 bytes of OS entropy");
		g_spec_k = hm_n0;
		spec_drbg_instantiate(&S, seed);
		__CPROVER_assert(g_spec_k == g_hm.n, "SP800-90A lockstep: same number of HMAC computations");
		DRBG_SAME_KV(S);
		__CPROVER_assert(drbg.reseed_counter == S.reseed_counter, "SP800-90A: reseed_counter = 1");
		VCOVER(g_er_idx == 47);
	}
	VCOVER(rc == 0 && hm_base == hm_n0 + 3);
	VCOVER(rc == -1 && g_er_fails == fail0 + 1);
}
