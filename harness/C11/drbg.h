/* shared by the C11 harnesses that include the real crypto/crypto_entropy.c: ghost definitions and the
 * arbitrary pre-state of the module statics and of the abstract-HMAC log window */
#include <stdlib.h>
#include "verif.h"
#include "drbg_hmac.h"
size_t g_bi, g_di, g_mz_idx;
#include "drbg_os.h"
size_t g_er_calls, g_er_lastlen;
size_t g_ce_gen_calls, g_ce_done, g_ce_reseeds, g_ce_reseed_early, g_ce_inst_calls, g_ce_inst, g_er_fails, g_blk;
uint8_t * g_ce_base;
#undef CPUSUPPORT_X86_RDRAND
#include "crypto/crypto_entropy.c"
#include "sp800_90a_spec.h"

/* arbitrary DRBG state, arbitrary call counter, arbitrary window placement, arbitrary ghost indices */
/* DFCC makes statics nondet; the library never reassigns this pointer */
#define DRBG_MEMZERO() insecure_memzero_ptr = insecure_memzero_func
#define DRBG_PRE() \
	__CPROVER_havoc_object(&drbg); \
	__CPROVER_havoc_object(&g_hm); \
	IN(size_t, hm_n0); IN(size_t, hm_base); IN(size_t, bi); IN(size_t, di); \
	g_hm.n = hm_n0; g_hm.open = 0; g_hm_base = hm_base; \
	__CPROVER_assume(bi < 32); g_bi = bi; g_di = di; \
	IN(size_t, er_idx); g_er_idx = er_idx; IN(size_t, blk); g_blk = blk; \
	__CPROVER_assume(g_os.fd_state != OS_FD_OPEN); \
	struct spec_drbg S; \
	for (size_t i_ = 0; i_ < 32; i_++) { S.K[i_] = drbg.Key[i_]; S.V[i_] = drbg.V[i_]; } \
	S.reseed_counter = drbg.reseed_counter

/* the specification's state equals the implementation's */
#define DRBG_SAME_KV(S) do { \
	for (size_t i_ = 0; i_ < 32; i_++) { \
		__CPROVER_assert(drbg.Key[i_] == (S).K[i_], "SP800-90A: Key equals the specification's Key"); \
		__CPROVER_assert(drbg.V[i_] == (S).V[i_], "SP800-90A: V equals the specification's V"); \
	} } while (0)
