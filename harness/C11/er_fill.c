/* VERIF-GROUP
{
 "property": ["C11"],
 "entry": "h_fill",
 "enforce": ["entropy_read_fill"],
 "replace": [],
 "annotate": ["util/entropy.c"],
 "defines": ["VERIF_HALLOC"],
 "models": ["models/drbg_os.c"],
 "fallback_unwind": 4,
 "timeout": 300,
 "assumptions": ["open(2)/read(2)/close(2) per POSIX (models/drbg_os.c): read returns -1, 0 or any count up to the request, storing exactly that many arbitrary bytes",
                 "buffer object <= ER_MAXOBJ bytes (object size only; the read loop is closed by its contract)"]
}
*/
#include "er.h"

void
h_fill(void)
{
	ER_PRE();
	IN(size_t, buflen);
	__CPROVER_assume(buflen <= ER_MAXOBJ);
	IN_BYTES(buf, buflen, ER_MAXOBJ);
	struct entropy_read_cookie * er = malloc(sizeof(struct entropy_read_cookie));
	__CPROVER_assume(er != NULL);
	g_os.fd_state = OS_FD_OPEN;
	g_os.failed = 0;
	er->fd = g_os.fd;
	size_t pos0 = g_os.pos, reads0 = g_os.reads;
	/* pointer monitor of the read(2) model: stream offset pos0 lands at buf[0] */
	g_rd_base = buf;
	g_rd_base_pos = pos0;
	int rc;

	rc = entropy_read_fill(er, buf, buflen);

	VCOVER(rc == 0 && buflen == 0);
	VCOVER(rc == 0 && buflen == 48 && g_os.reads == reads0 + 3 && g_er_idx == pos0 + 47);
	VCOVER(rc == -1 && g_os.reads == reads0 + 2);
	free(buf);
	free(er);
}
