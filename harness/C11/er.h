/* shared by the C11 harnesses of util/entropy.c */
#include <stdlib.h>
#include "verif.h"
#include "drbg_os.h"
size_t g_er_calls, g_er_lastlen, g_er_fails;
#include "util/entropy.c"
#ifndef ER_MAXOBJ
#define ER_MAXOBJ 256	/* bound on the size of the symbolic buffer object (the code asks for 32 and 48) */
#endif
/* arbitrary model state */
#define ER_PRE() \
	__CPROVER_havoc_object(&g_os); \
	IN(size_t, er_idx); g_er_idx = er_idx; \
	g_rd_base = NULL; g_rd_base_pos = 0
