/* ghost state of the call-level abstraction of the SHA-256 layer (contracts/alg__sha256.c.spec, VERIF_HASH_ABS) */
#ifndef SHA256_ABS_GHOST_H_
#define SHA256_ABS_GHOST_H_
#define GA_HMAC_CTX_T HMAC_SHA256_CTX
#define GA_CTX_T SHA256_CTX
#define GA_DLEN 32
#include "hash_abs_ghost.h"
#endif
