/* VERIF-GROUP
{
 "property": ["C01"],
 "entry": "h_hmac_sha1_update",
 "enforce": ["libcperciva_HMAC_SHA1_Update"],
 "replace": ["libcperciva_SHA1_Update"],
 "annotate": ["alg/sha1.c", "util/insecure_memzero.c"],
 "defines": ["VERIF_HALLOC", "VERIF_HASH_ABS", "SHA_MAXOBJ=0xffffffff"],
 "loop_contracts": false,
 "timeout": 300,
 "assumptions": ["hash layer abstracted at the call level (VERIF_HASH_ABS contracts of SHA1_Init/Update/Final; digests uninterpreted); lemma L-md links them to the enforced trace contracts", "insecure_memzero_ptr == insecure_memzero_func (its static initialiser; no library code assigns it)"]
}
*/
/* HMAC_SHA1_Update: the data is absorbed by the inner hash (slot 0), in order; the outer context is untouched. */
#include <stdlib.h>
#include "verif.h"
size_t g_mz_idx;
#include "util/insecure_memzero.c"
#include "alg/sha1.c"
#include "sha1_ghost.h"
#include "hash_abs_ghost.h"

void
h_hmac_sha1_update(void)
{
	HMAC_SHA1_CTX * ctx = malloc(sizeof(HMAC_SHA1_CTX));
	IN(size_t, len);
	__CPROVER_assume(len <= SHA_MAXOBJ);
	IN_BYTES(in, len, SHA_MAXOBJ);
	__CPROVER_assume(ctx != NULL);

	SHA1_STATICS_INIT();
	GA_HAVOC();
	ga_ctx0 = &ctx->ictx;
	ga_ctx1 = &ctx->octx;
	uint64_t l0 = ga_len0;
	uint32_t oc = ctx->octx.count[0];
	uint8_t ob = ctx->octx.buf[ga_p % 64];

	HMAC_SHA1_Update(ctx, in, len);

	__CPROVER_assert(ctx->octx.count[0] == oc && ctx->octx.buf[ga_p % 64] == ob, "outer context untouched");
	VCOVER(len == 0);
	VCOVER(len == 130 && ga_os == 0 && ga_oe == ga_epoch0 && ga_p == l0 + 129 && ga_byte == in[129]);
}
