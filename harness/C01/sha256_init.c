/* VERIF-GROUP
{
 "property": ["C01"],
 "entry": "h_sha256_init",
 "enforce": ["libcperciva_SHA256_Init"],
 "replace": [],
 "annotate": ["alg/sha256.c"],
 "defines": ["VERIF_HALLOC", "VERIF_FRAME_SLICES"],
 "loop_contracts": false,
 "timeout": 120
}
*/
/* SHA256_Init: count = 0, state = H(0) of FIPS 180-4 5.3.3, nothing else written. */
#include <stdlib.h>
#include "verif.h"
#include "sha256_ghost.h"
#include "alg/sha256.c"

void
h_sha256_init(void)
{
	SHA256_CTX * ctx = malloc(sizeof(SHA256_CTX));
	__CPROVER_assume(ctx != NULL);
	IN(unsigned, gi);
	__CPROVER_assume(gi < 64);
	uint8_t b0 = ctx->buf[gi];

	SHA256_Init(ctx);

	__CPROVER_assert(ctx->buf[gi] == b0, "buffer untouched");
	__CPROVER_assert(ctx->state[gi % 8] == spec_sha256_IV[gi % 8], "state is the FIPS initial hash value");
	VCOVER(ctx->count == 0 && gi == 63);
}
