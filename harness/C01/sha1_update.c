/* VERIF-GROUP
{
 "property": ["C01"],
 "entry": "h_sha1_update",
 "enforce": ["libcperciva_SHA1_Update"],
 "replace": ["SHA1_Transform"],
 "annotate": ["alg/sha1.c", "util/insecure_memzero.c"],
 "defines": ["VERIF_HALLOC", "SHA_MAXOBJ=0xffffffff", "HASH_MEMCPY_ONLY_BUF"],
 "models": ["models/hash_memcpy.c"],
 "timeout": 600,
 "assumptions": ["input object size < 2^32 bytes (SHA_MAXOBJ; the block loop is closed by its loop contract)",
                 "memcpy = models/hash_memcpy.c (pointwise over-approximation for copies into ctx->buf, observed at the arbitrary ghost index)", "compression function uninterpreted (trace contract of SHA1_Transform, enforced in sha1_transform_T)", "insecure_memzero_ptr and PAD hold their static initialisers (no library code assigns them; DFCC havocs non-const globals)"]
}
*/
/*
 * SHA1_Update from an ARBITRARY context state: exactly floor((r+len)/64) compressions, chained, each on the right
 * 64-byte window of (buf[0..r) || in); the tail stays buffered; the two-word bit count advances by 8 len including
 * the carry between the words (DESIGN 3.1 item 2).  One call from an arbitrary reachable state covers every partition.
 */
#include <stdlib.h>
#include "verif.h"
size_t g_mz_idx;
#include "util/insecure_memzero.c"
#include "alg/sha1.c"
#include "sha1_ghost.h"

void
h_sha1_update(void)
{
	SHA1_CTX * ctx = malloc(sizeof(SHA1_CTX));
	IN(size_t, len);
	__CPROVER_assume(len <= SHA_MAXOBJ);
	IN_BYTES(in, len, SHA_MAXOBJ);
	__CPROVER_assume(ctx != NULL);

	SHA1_STATICS_INIT();
	G1_HAVOC();
	for (int i = 0; i < 5; i++)
		g1_H[i] = ctx->state[i];
	size_t r = (ctx->count[1] >> 3) & 0x3f;
	size_t k0 = g1_k;
	uint32_t lo0 = ctx->count[1], hi0 = ctx->count[0];
	g_mc_buf = ctx->buf;

	SHA1_Update(ctx, in, len);

	/* plain-C restatement of the carry */
	__CPROVER_assert(!(lo0 == 0xfffffff8u && len == 1) || (ctx->count[1] == 0 && ctx->count[0] == hi0 + 1), "carry into the high word");
	VCOVER(len == 0 || (r == 10 && len == 53));
	VCOVER(r == 10 && len == 54 && g1_kk == k0 && g1_j == 63);
	VCOVER(r == 63 && len == 130 && g1_kk == k0 + 2 && g1_j == 5);
	VCOVER(r + len >= 64 && g1_kk == k0 && g1_j < r && lo0 > 0xffffff00u);
	VCOVER(r + len >= 128 && g1_j < (r + len) % 64);
}
