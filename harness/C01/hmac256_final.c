/* VERIF-GROUP
{
 "property": ["C01"],
 "entry": "h_hmac256_final",
 "enforce": ["HMAC_SHA256_Final_internal"],
 "replace": ["SHA256_Update_internal", "SHA256_Final_internal"],
 "annotate": ["alg/sha256.c"],
 "defines": ["VERIF_HALLOC", "VERIF_HASH_ABS", "SHA_MAXOBJ=0xffffffff"],
 "loop_contracts": false,
 "timeout": 300,
 "assumptions": ["hash layer abstracted at the call level (VERIF_HASH_ABS); L-md"]
}
*/
/*
 * HMAC_SHA256_Final_internal: ihash = Final(inner); the outer hash absorbs exactly those 32 bytes;
 * digest = Final(outer).  RFC 2104: H(K ^ opad || H(K ^ ipad || text)).
 */
#include <stdlib.h>
#include "verif.h"
#include "sha256_ghost.h"
#include "sha256_abs_ghost.h"
#include "alg/sha256.c"

void
h_hmac256_final(void)
{
	HMAC_SHA256_CTX * ctx = malloc(sizeof(HMAC_SHA256_CTX));
	uint32_t * tmp32 = malloc(288);
	uint8_t * digest = malloc(32);
	uint8_t * ihash = malloc(32);
	__CPROVER_assume(ctx != NULL && tmp32 != NULL && digest != NULL && ihash != NULL);
	__CPROVER_assume(ctx->octx.count <= UINT64_MAX - 256);

	GA_HAVOC();
	ga_ctx0 = &ctx->ictx;
	ga_ctx1 = &ctx->octx;
	size_t n0 = ga_nfin;
	uint64_t l1 = ga_len1;

	HMAC_SHA256_Final_internal(digest, ctx, tmp32, ihash);

	VCOVER(ga_of == n0 && ga_fin_slot == 0 && ga_di == 31);
	VCOVER(ga_of == n0 + 1 && ga_fin_slot == 1 && ga_fin_len == 96 && ga_dig_rec == digest[ga_di]);
	VCOVER(ga_os == 1 && ga_oe == ga_epoch1 && ga_p == l1 + 31 && l1 == 64 && ga_byte == ihash[31]);
}
