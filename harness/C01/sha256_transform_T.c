/* VERIF-GROUP
{
 "property": ["C01"],
 "entry": "h_sha256_transform_T",
 "enforce": ["SHA256_Transform"],
 "replace": [],
 "annotate": ["alg/sha256.c"],
 "defines": ["VERIF_HALLOC"],
 "loop_contracts": false,
 "timeout": 300,
 "assumptions": ["ghost epilogue inserted at the end of SHA256_Transform (ghost state only) interprets the abstract chain g256_H by the computed state"]
}
*/
/*
 * The trace contract T of SHA256_Transform -- the contract by which the function is replaced when its callers
 * are verified -- enforced on the real, unmodified function (real RND/MSCH macros): frame (only state[0..8),
 * W[0..64), S[0..8) and the trace ghosts are written), memory safety, one step of the chain, the observed
 * block byte is recorded.  Functional correctness of the step is groups sha256_leaves + sha256_transform.
 */
#include <stdlib.h>
#include "verif.h"
#include "sha256_ghost.h"
#include "alg/sha256.c"

void
h_sha256_transform_T(void)
{
	SHA256_CTX * ctx = malloc(sizeof(SHA256_CTX));
	uint32_t * tmp32 = malloc(288);
	IN_BYTES(ext, 64, 64);
	IN(int, inctx);
	__CPROVER_assume(ctx != NULL && tmp32 != NULL);
	const uint8_t * block = inctx ? ctx->buf : ext;

	G256_HAVOC();
	for (int i = 0; i < 8; i++)
		g256_H[i] = ctx->state[i];
	size_t k0 = g256_k;
	uint8_t b0 = block[g256_j];
	uint64_t count0 = ctx->count;

	SHA256_Transform(ctx->state, block, &tmp32[0], &tmp32[64]);

	__CPROVER_assert(ctx->count == count0 && block[g256_j] == b0, "count and block untouched");
	VCOVER(k0 == g256_kk && g256_rec == b0 && inctx);
	VCOVER(k0 != g256_kk && !inctx);
}
