/* VERIF-GROUP
{
 "property": ["C01"],
 "entry": "h_hmac256_update_pub",
 "enforce": ["libcperciva_HMAC_SHA256_Update"],
 "replace": ["HMAC_SHA256_Update_internal"],
 "annotate": ["alg/sha256.c", "util/insecure_memzero.c"],
 "defines": ["VERIF_HALLOC", "VERIF_HASH_ABS", "SHA_MAXOBJ=0xffffffff"],
 "loop_contracts": false,
 "timeout": 300,
 "assumptions": ["hash layer abstracted at the call level (VERIF_HASH_ABS); L-md",
                 "insecure_memzero_ptr == insecure_memzero_func (its static initialiser; no library code assigns it)"]
}
*/
/* public HMAC_SHA256_Update == HMAC_SHA256_Update_internal with private scratch */
#include <stdlib.h>
#include "verif.h"
#include "sha256_ghost.h"
#include "sha256_abs_ghost.h"
size_t g_mz_idx;
#include "util/insecure_memzero.c"
#include "alg/sha256.c"

void
h_hmac256_update_pub(void)
{
	HMAC_SHA256_CTX * ctx = malloc(sizeof(HMAC_SHA256_CTX));
	IN(size_t, len);
	__CPROVER_assume(len <= SHA_MAXOBJ);
	IN_BYTES(in, len, SHA_MAXOBJ);
	__CPROVER_assume(ctx != NULL);
	__CPROVER_assume(ctx->ictx.count <= UINT64_MAX - ((uint64_t)len << 3));

	insecure_memzero_ptr = insecure_memzero_func;
	GA_HAVOC();
	ga_ctx0 = &ctx->ictx;
	ga_ctx1 = &ctx->octx;
	uint64_t l0 = ga_len0;

	HMAC_SHA256_Update(ctx, in, len);

	VCOVER(len == 0);
	VCOVER(len == 130 && ga_os == 0 && ga_oe == ga_epoch0 && ga_p == l0 + 129 && ga_byte == in[129]);
}
