/* VERIF-GROUP
{
 "property": ["C01", "C20"],
 "entry": "h_hmac256_buf",
 "enforce": ["libcperciva_HMAC_SHA256_Buf"],
 "replace": ["HMAC_SHA256_Init_internal", "HMAC_SHA256_Update_internal", "HMAC_SHA256_Final_internal"],
 "annotate": ["alg/sha256.c", "util/insecure_memzero.c"],
 "defines": ["VERIF_HALLOC", "VERIF_HASH_ABS", "SHA_MAXOBJ=0xffffffff"],
 "loop_contracts": false,
 "timeout": 300,
 "assumptions": ["hash layer abstracted at the call level (VERIF_HASH_ABS); L-md",
                 "insecure_memzero_ptr == insecure_memzero_func (its static initialiser; no library code assigns it)"]
}
*/
/*
 * HMAC_SHA256_Buf == RFC 2104 (one-shot == streaming): Init; Update; Final on a local context, each replaced by
 * its enforced contract.  For every key length and message: inner message = (K' ^ ipad) || text, outer message =
 * (K' ^ opad) || inner digest, returned digest = outer digest; K' = K (Klen <= 64) or H(K).  Locals wiped (C20).
 */
#include <stdlib.h>
#include "verif.h"
#include "sha256_ghost.h"
#include "sha256_abs_ghost.h"
size_t g_mz_idx;
#include "util/insecure_memzero.c"
#include "alg/sha256.c"

void
h_hmac256_buf(void)
{
	IN(size_t, Klen); IN(size_t, len);
	__CPROVER_assume(Klen <= SHA_MAXOBJ && len <= SHA_MAXOBJ);
	IN_BYTES(K, Klen, SHA_MAXOBJ);
	IN_BYTES(in, len, SHA_MAXOBJ);
	uint8_t * digest = malloc(32);
	__CPROVER_assume(digest != NULL);

	insecure_memzero_ptr = insecure_memzero_func;
	GA_HAVOC();
	size_t n0 = ga_nfin;

	HMAC_SHA256_Buf(K, Klen, in, len, digest);

	VCOVER(Klen == 0 && len == 0 && ga_of == n0 + 1 && ga_fin_len == 96);
	VCOVER(Klen == 64 && len == 130 && ga_os == 0 && ga_oe == ga_epoch0 && ga_p == 64 + 129 && ga_byte == in[129]);
	VCOVER(Klen == 65 && ga_of == n0 && ga_fin_len == 65 && ga_os == 0 && ga_oe == ga_epoch0 && ga_p == 31 && ga_di == 31);
	VCOVER(Klen == 65 && ga_of == n0 + 1 && ga_os == 1 && ga_oe == ga_epoch1 && ga_p == 95 && ga_di == 31);
	VCOVER(Klen == 100 && ga_of == n0 + 2 && ga_dig_rec == digest[ga_di]);
}
