/* VERIF-GROUP
{
 "property": ["C01", "C20"],
 "entry": "h_hmac_sha1_buf",
 "enforce": ["libcperciva_HMAC_SHA1_Buf"],
 "replace": ["libcperciva_HMAC_SHA1_Init", "libcperciva_HMAC_SHA1_Update", "libcperciva_HMAC_SHA1_Final"],
 "annotate": ["alg/sha1.c", "util/insecure_memzero.c"],
 "defines": ["VERIF_HALLOC", "VERIF_HASH_ABS", "SHA_MAXOBJ=0xffffffff"],
 "loop_contracts": false,
 "timeout": 300,
 "assumptions": ["hash layer abstracted at the call level (VERIF_HASH_ABS contracts of SHA1_Init/Update/Final; digests uninterpreted); lemma L-md links them to the enforced trace contracts", "insecure_memzero_ptr == insecure_memzero_func (its static initialiser; no library code assigns it)"]
}
*/
/*
 * HMAC_SHA1_Buf == RFC 2104 (one-shot == streaming): Init; Update; Final on a local context, each replaced by its
 * enforced contract: inner message = (K' ^ ipad) || text, outer message = (K' ^ opad) || inner digest, returned
 * digest = outer digest; K' = K (Klen <= 64) or H(K).  The local context is wiped (C20).
 */
#include <stdlib.h>
#include "verif.h"
size_t g_mz_idx;
#include "util/insecure_memzero.c"
#include "alg/sha1.c"
#include "sha1_ghost.h"
#include "hash_abs_ghost.h"

void
h_hmac_sha1_buf(void)
{
	IN(size_t, Klen); IN(size_t, len);
	__CPROVER_assume(Klen <= SHA_MAXOBJ && len <= SHA_MAXOBJ);
	IN_BYTES(K, Klen, SHA_MAXOBJ);
	IN_BYTES(in, len, SHA_MAXOBJ);
	uint8_t * digest = malloc(20);
	__CPROVER_assume(digest != NULL);

	SHA1_STATICS_INIT();
	GA_HAVOC();
	size_t n0 = ga_nfin;

	HMAC_SHA1_Buf(K, Klen, in, len, digest);

	VCOVER(Klen == 0 && len == 0 && ga_of == n0 + 1 && ga_fin_len == 64 + 20);
	VCOVER(Klen == 64 && len == 130 && ga_os == 0 && ga_oe == ga_epoch0 && ga_p == 64 + 129 && ga_byte == in[129]);
	VCOVER(Klen == 65 && ga_of == n0 && ga_fin_len == 65 && ga_os == 0 && ga_oe == ga_epoch0 && ga_p == 20 - 1 && ga_di == 20 - 1);
	VCOVER(Klen == 65 && ga_of == n0 + 1 && ga_os == 1 && ga_oe == ga_epoch1 && ga_p == 64 + 20 - 1 && ga_di == 20 - 1);
	VCOVER(Klen == 100 && ga_of == n0 + 2 && ga_dig_rec == digest[ga_di]);
}
