/* VERIF-GROUP
{
 "property": ["C01"],
 "entry": "h_crc32c_init",
 "enforce": ["init"],
 "replace": [],
 "annotate": ["alg/crc32c.c"],
 "defines": ["VERIF_HALLOC"],
 "loop_contracts": false,
 "timeout": 300
}
*/
/*
 * Table generation (DESIGN 3.1 item 7a): init() has no inputs, CBMC evaluates it; every one of the 4 x 256 table
 * words equals the documented formula reverse32(reverse8(i) * x^(32+8k) mod p(x)) computed by bit-serial
 * polynomial arithmetic (spec_crc32c_T), at an arbitrary index; the in-code assert(T0[0x80] == T_0_0x80) is proved.
 */
#include <stdlib.h>
#include "verif.h"
#include "crc32c_ghost.h"
#include "alg/crc32c.c"

void
h_crc32c_init(void)
{
	IN(size_t, t);
	__CPROVER_assume(t < 256);
	g_crc_t = t;

	init();

	__CPROVER_assert(T0[0x80] == 0x82f63b78 && T0[0x80] == spec_crc32c_state_of(1),
	    "T0[0x80] is the register of the one-bit string 1");
	VCOVER(t == 255 && T3[t] != 0);
	VCOVER(t == 0 && T0[t] == 0);
}
