/* ghost state of the SHA-1 trace contracts (contracts/alg__sha1.c.spec) */
#ifndef SHA1_GHOST_H_
#define SHA1_GHOST_H_
#include <stdint.h>
#include <stddef.h>
uint32_t g1_H[5];
size_t g1_k, g1_kk, g1_j, g1_i, g1_z;
uint8_t g1_rec;
extern uint8_t * g_mc_buf;
extern size_t g_mc_obs;
#define G1_HAVOC() do { g_mc_buf = NULL; \
	IN(size_t, gk); IN(size_t, gkk); IN(size_t, gj); IN(size_t, gi); IN(size_t, gz); IN(uint8_t, grec); \
	__CPROVER_assume(gk < ((size_t)1 << 60)); \
	g1_k = gk; g1_kk = gkk; g1_j = gj; g1_i = gi; g1_z = gz; g1_rec = grec; \
	__CPROVER_assume(g1_j < 64 && g1_i < 20 && g1_z < sizeof(SHA1_CTX)); \
	g_mc_obs = g1_j; \
} while (0)
/* DFCC havocs every non-const global; these two hold their static initialisers (nothing in the library assigns them) */
#define SHA1_STATICS_INIT() do { \
	insecure_memzero_ptr = insecure_memzero_func; \
	PAD[0] = 0x80; for (int pq = 1; pq < 64; pq++) PAD[pq] = 0; \
} while (0)
#define GA_HMAC_CTX_T HMAC_SHA1_CTX
#define GA_CTX_T SHA1_CTX
#define GA_DLEN 20
#endif
