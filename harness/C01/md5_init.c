/* VERIF-GROUP
{
 "property": ["C01"],
 "entry": "h_md5_init",
 "enforce": ["libcperciva_MD5_Init"],
 "replace": [],
 "annotate": ["alg/md5.c", "util/insecure_memzero.c"],
 "defines": ["VERIF_HALLOC"],
 "loop_contracts": false,
 "timeout": 120
}
*/
/* MD5_Init: count = 0, state = the standard's initial value (RFC 1321 3), nothing else written. */
#include <stdlib.h>
#include "verif.h"
size_t g_mz_idx;
#include "util/insecure_memzero.c"
#include "alg/md5.c"
#include "md5_ghost.h"

void
h_md5_init(void)
{
	MD5_CTX * ctx = malloc(sizeof(MD5_CTX));
	__CPROVER_assume(ctx != NULL);
	IN(unsigned, gi);
	__CPROVER_assume(gi < 64);
	uint8_t b0 = ctx->buf[gi];

	MD5_Init(ctx);

	__CPROVER_assert(ctx->buf[gi] == b0, "buffer untouched");
	__CPROVER_assert(ctx->state[gi % 4] == spec_md5_IV[gi % 4], "state is the standard's initial value");
	VCOVER(ctx->count[0] == 0 && ctx->count[1] == 0 && gi == 63);
}
