/* VERIF-GROUP
{
 "property": ["C01"],
 "entry": "h_crc32c_init_pub",
 "enforce": ["CRC32C_Init"],
 "replace": ["init"],
 "annotate": ["alg/crc32c.c"],
 "defines": ["VERIF_HALLOC"],
 "loop_contracts": false,
 "timeout": 120
}
*/
/* CRC32C_Init: the state is the register of the implicit leading 1 bit; tables (re)built only through init(). */
#include <stdlib.h>
#include "verif.h"
#include "crc32c_ghost.h"
#include "alg/crc32c.c"

void
h_crc32c_init_pub(void)
{
	CRC32C_CTX * ctx = malloc(sizeof(CRC32C_CTX));
	IN(size_t, t);
	__CPROVER_assume(ctx != NULL && t < 256);
	g_crc_t = t;

	CRC32C_Init(ctx);

	__CPROVER_assert(ctx->state == spec_crc32c_state_of(1), "initial state == reverse32(x^32 mod p): the string 1");
	VCOVER(ctx->state == 0x82f63b78);
}
