/* VERIF-GROUP
{
 "property": ["C01"],
 "entry": "h_crc32c_lemma_lin",
 "enforce": ["crc_lemma_lin"],
 "replace": [],
 "annotate": ["alg/crc32c.c"],
 "defines": ["VERIF_HALLOC"],
 "loop_contracts": false,
 "cbmc": ["--object-bits", "12"],
 "timeout": 300,
 "assumptions": ["tables = what the real init() computes (run concretely in the harness; its own contract: crc32c_init)"]
}
*/
/* Table linearity over GF(2): T0[a ^ b] == T0[a] ^ T0[b] for all bytes a, b (full 16-bit domain). */
#include <stdlib.h>
#include "verif.h"
#include "crc32c_ghost.h"
#include "alg/crc32c.c"

void
h_crc32c_lemma_lin(void)
{
	IN(uint8_t, a); IN(uint8_t, b);
	init();			/* the tables are what the real init() computes */
	g_crc_tables_ok = 1;
	crc_lemma_lin(a, b);
	VCOVER(a == 0x80 && b == 0x01);
}
