/* VERIF-GROUP
{
 "property": ["C01"],
 "entry": "h_hmac256_update",
 "enforce": ["HMAC_SHA256_Update_internal"],
 "replace": ["SHA256_Update_internal"],
 "annotate": ["alg/sha256.c"],
 "defines": ["VERIF_HALLOC", "VERIF_HASH_ABS", "SHA_MAXOBJ=0xffffffff"],
 "loop_contracts": false,
 "timeout": 300,
 "assumptions": ["hash layer abstracted at the call level (VERIF_HASH_ABS); L-md"]
}
*/
/* HMAC_SHA256_Update_internal: the data is absorbed by the inner hash (slot 0), in order, nothing else happens. */
#include <stdlib.h>
#include "verif.h"
#include "sha256_ghost.h"
#include "sha256_abs_ghost.h"
#include "alg/sha256.c"

void
h_hmac256_update(void)
{
	HMAC_SHA256_CTX * ctx = malloc(sizeof(HMAC_SHA256_CTX));
	uint32_t * tmp32 = malloc(288);
	IN(size_t, len);
	__CPROVER_assume(len <= SHA_MAXOBJ);
	IN_BYTES(in, len, SHA_MAXOBJ);
	__CPROVER_assume(ctx != NULL && tmp32 != NULL);
	__CPROVER_assume(ctx->ictx.count <= UINT64_MAX - ((uint64_t)len << 3));

	GA_HAVOC();
	ga_ctx0 = &ctx->ictx;
	ga_ctx1 = &ctx->octx;
	uint64_t l0 = ga_len0, oc = ctx->octx.count;
	uint8_t ob = ctx->octx.buf[ga_p % 64];

	HMAC_SHA256_Update_internal(ctx, in, len, tmp32);

	__CPROVER_assert(ctx->octx.count == oc && ctx->octx.buf[ga_p % 64] == ob, "outer context untouched");
	VCOVER(len == 0);
	VCOVER(len == 130 && ga_os == 0 && ga_oe == ga_epoch0 && ga_p == l0 + 129 && ga_byte == in[129]);
}
