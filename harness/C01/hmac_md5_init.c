/* VERIF-GROUP
{
 "property": ["C01"],
 "entry": "h_hmac_md5_init",
 "enforce": ["libcperciva_HMAC_MD5_Init"],
 "replace": ["libcperciva_MD5_Init", "libcperciva_MD5_Update", "libcperciva_MD5_Final"],
 "annotate": ["alg/md5.c", "util/insecure_memzero.c"],
 "defines": ["VERIF_HALLOC", "VERIF_HASH_ABS", "SHA_MAXOBJ=0xffffffff"],
 "timeout": 600,
 "assumptions": ["hash layer abstracted at the call level (VERIF_HASH_ABS contracts of MD5_Init/Update/Final; digests uninterpreted); lemma L-md links them to the enforced trace contracts", "insecure_memzero_ptr == insecure_memzero_func (its static initialiser; no library code assigns it)",
                 "key object size < 2^32 bytes (SHA_MAXOBJ; the two pad loops are closed by loop contracts)"]
}
*/
/*
 * HMAC_MD5_Init == RFC 2104 key set-up, both key-length branches: Klen <= 64: inner context absorbed exactly the block
 * (K || 0..) ^ 0x36.., outer the block (K || 0..) ^ 0x5c..;  Klen > 64: first K itself is hashed (all Klen bytes in
 * order, its own epoch of slot 0), then the same with K' = that digest (16 bytes).
 */
#include <stdlib.h>
#include "verif.h"
size_t g_mz_idx;
#include "util/insecure_memzero.c"
#include "alg/md5.c"
#include "md5_ghost.h"
#include "hash_abs_ghost.h"

void
h_hmac_md5_init(void)
{
	HMAC_MD5_CTX * ctx = malloc(sizeof(HMAC_MD5_CTX));
	IN(size_t, Klen);
	__CPROVER_assume(Klen <= SHA_MAXOBJ);
	IN_BYTES(K, Klen, SHA_MAXOBJ);
	__CPROVER_assume(ctx != NULL);

	MD5_STATICS_INIT();
	GA_HAVOC();
	ga_ctx0 = &ctx->ictx;
	ga_ctx1 = &ctx->octx;
	size_t e0 = ga_epoch0, e1 = ga_epoch1, n0 = ga_nfin;

	HMAC_MD5_Init(ctx, K, Klen);

	__CPROVER_assert(!(Klen == 3 && ga_os == 0 && ga_oe == e0 + 1 && ga_p == 2) || ga_byte == (K[2] ^ 0x36), "short key: ipad block byte 2");
	__CPROVER_assert(!(Klen == 3 && ga_os == 1 && ga_oe == e1 + 1 && ga_p == 3) || ga_byte == 0x5c, "short key: opad block byte 3 is 0x5c");
	__CPROVER_assert(!(Klen == 65 && ga_os == 0 && ga_oe == e0 + 1 && ga_p == 64) || ga_byte == K[64], "long key: K is hashed, byte 64");
	__CPROVER_assert(!(Klen == 65 && ga_os == 0 && ga_oe == e0 + 2 && ga_p == 16) || ga_byte == 0x36, "long key: ipad block byte 16 is 0x36");
	VCOVER(Klen == 0 && ga_os == 0 && ga_oe == e0 + 1 && ga_p == 0 && ga_byte == 0x36);
	VCOVER(Klen == 64 && ga_os == 1 && ga_oe == e1 + 1 && ga_p == 63);
	VCOVER(Klen == 65 && ga_os == 0 && ga_oe == e0 + 2 && ga_p == 16 - 1 && ga_of == n0 && ga_di == 16 - 1);
	VCOVER(Klen == 130 && ga_os == 0 && ga_oe == e0 + 1 && ga_p == 129);
}
