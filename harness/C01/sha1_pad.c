/* VERIF-GROUP
{
 "property": ["C01"],
 "entry": "h_sha1_pad",
 "enforce": ["SHA1_Pad"],
 "replace": ["libcperciva_SHA1_Update"],
 "annotate": ["alg/sha1.c", "util/insecure_memzero.c"],
 "defines": ["VERIF_HALLOC"],
 "loop_contracts": false,
 "timeout": 300,
 "assumptions": ["PAD holds its static initialiser (no library code assigns it; DFCC havocs non-const globals)",
                 "compression function uninterpreted (trace contracts)"]
}
*/
/*
 * SHA1_Pad from an ARBITRARY context (every r, every bit count), implemented by two SHA1_Update calls (replaced by the
 * enforced contract): PAD[0..plen) then the 8 length bytes land exactly on the block boundary; one compression if
 * r < 56 else two; every byte of every block equals the standard's padding of a count-bit message (SPEC_SHA_PAD_BYTE).
 */
#include <stdlib.h>
#include "verif.h"
size_t g_mz_idx;
#include "util/insecure_memzero.c"
#include "alg/sha1.c"
#include "sha1_ghost.h"

void
h_sha1_pad(void)
{
	SHA1_CTX * ctx = malloc(sizeof(SHA1_CTX));
	__CPROVER_assume(ctx != NULL);

	SHA1_STATICS_INIT();
	G1_HAVOC();
	for (int i = 0; i < 5; i++)
		g1_H[i] = ctx->state[i];
	size_t r = (ctx->count[1] >> 3) & 0x3f;
	size_t k0 = g1_k;
	uint64_t cnt0 = ((uint64_t)ctx->count[0] << 32) | ctx->count[1];

	SHA1_Pad(ctx);

	__CPROVER_assert(!(g1_kk == k0 && r == 3 && g1_j == 3) || g1_rec == 0x80, "0x80 follows the message");
	__CPROVER_assert(!(g1_kk == k0 + 1 && r == 60 && g1_j == 63) || g1_rec == (uint8_t)(cnt0 & 0xff), "last byte of the length field");
	VCOVER(r == 55 && g1_kk == k0 && g1_j == 55);
	VCOVER(r == 56 && g1_kk == k0 + 1 && g1_j == 56);
	VCOVER(r == 63 && g1_kk == k0 && g1_j == 62);
	VCOVER(r == 0 && g1_kk == k0 && g1_j == 0 && cnt0 == 512);
}
