/* ghost state of the MD5 trace contracts (contracts/alg__md5.c.spec) */
#ifndef MD5_GHOST_H_
#define MD5_GHOST_H_
#include <stdint.h>
#include <stddef.h>
uint32_t g5_H[4];
size_t g5_k, g5_kk, g5_j, g5_i, g5_z;
uint8_t g5_rec;
extern uint8_t * g_mc_buf;
extern size_t g_mc_obs;
#define G5_HAVOC() do { g_mc_buf = NULL; \
	IN(size_t, gk); IN(size_t, gkk); IN(size_t, gj); IN(size_t, gi); IN(size_t, gz); IN(uint8_t, grec); \
	__CPROVER_assume(gk < ((size_t)1 << 60)); \
	g5_k = gk; g5_kk = gkk; g5_j = gj; g5_i = gi; g5_z = gz; g5_rec = grec; \
	__CPROVER_assume(g5_j < 64 && g5_i < 16 && g5_z < sizeof(MD5_CTX)); \
	g_mc_obs = g5_j; \
} while (0)
/* DFCC havocs every non-const global; these two hold their static initialisers (nothing in the library assigns them) */
#define MD5_STATICS_INIT() do { \
	insecure_memzero_ptr = insecure_memzero_func; \
	PAD[0] = 0x80; for (int pq = 1; pq < 64; pq++) PAD[pq] = 0; \
} while (0)
#define GA_HMAC_CTX_T HMAC_MD5_CTX
#define GA_CTX_T MD5_CTX
#define GA_DLEN 16
#endif
