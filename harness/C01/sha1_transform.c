/* VERIF-GROUP
{
 "property": ["C01"],
 "entry": "h_sha1_transform",
 "enforce": [],
 "replace": [],
 "annotate": ["alg/sha1.c", "util/insecure_memzero.c"],
 "defines": ["VERIF_HALLOC", "VERIF_SHA1_LOCKSTEP"],
 "loop_contracts": false,
 "timeout": 600,
 "assumptions": ["G2 lockstep trace abstraction: RND0..RND3 macro bodies replaced by an uninterpreted logging leaf via the spec ghost rule; L-sub combines this with group sha1_leaves"]
}
*/
/*
 * Structure of the real SHA1_Transform == FIPS 180-4 6.1.2 by lockstep trace abstraction of the 80 round leaves
 * (see sha256_transform.c).  The message schedule (XOR / ROTL1 only) is compared concretely.
 */
#include <stdlib.h>
#include "verif.h"

uint32_t L1_in[80][7], L1_out[80][2];
int L1_n, L1_m;

void
verif_sha1_rnd_leaf(int kind, uint32_t a, uint32_t b, uint32_t c, uint32_t d, uint32_t e, uint32_t k,
    uint32_t * ne, uint32_t * nb)
{
	uint32_t in[7] = { (uint32_t)kind, a, b, c, d, e, k };

	__CPROVER_assert(L1_n >= 0 && L1_n < 80, "lockstep: at most 80 round leaves");
	for (int q = 0; q < 7; q++)
		L1_in[L1_n][q] = in[q];
	*ne = L1_out[L1_n][0];
	*nb = L1_out[L1_n][1];
	L1_n++;
}

static void
spec_side_step(int t, uint32_t a, uint32_t b, uint32_t c, uint32_t d, uint32_t e, uint32_t w, uint32_t * T, uint32_t * b30)
{
	uint32_t in[7] = { (uint32_t)(t / 20), a, b, c, d, e, w };

	for (int q = 0; q < 7; q++)
		__CPROVER_assert(L1_in[L1_m][q] == in[q], "lockstep: round kind and operands agree with FIPS 6.1.2 step 3");
	*T = L1_out[L1_m][0];
	*b30 = L1_out[L1_m][1];
	L1_m++;
}
#define SPEC_SHA1_STEP(t, a, b, c, d, e, w, T, b30) spec_side_step(t, a, b, c, d, e, w, T, b30)

#include "util/insecure_memzero.c"
#include "alg/sha1.c"
#include "sha1_ghost.h"

void
h_sha1_transform(void)
{
	SHA1_CTX * ctx = malloc(sizeof(SHA1_CTX));
	IN_BYTES(ext, 64, 64);
	__CPROVER_assume(ctx != NULL);
	IN(int, inctx);
	const uint8_t * block = inctx ? ctx->buf : ext;
	uint32_t H[5];
	uint8_t M[64];
	IN(unsigned, gi);
	__CPROVER_assume(gi < 5);

	SHA1_STATICS_INIT();
	__CPROVER_havoc_object(L1_out);
	for (int i = 0; i < 5; i++)
		H[i] = ctx->state[i];
	for (int i = 0; i < 64; i++)
		M[i] = block[i];
	uint32_t c0 = ctx->count[0], c1 = ctx->count[1];

	SHA1_Transform(ctx->state, block);

	spec_sha1_compress(H, M);
	__CPROVER_assert(L1_n == 80 && L1_m == 80, "80 round leaves on both sides");
	__CPROVER_assert(ctx->state[gi] == H[gi], "SHA1_Transform == FIPS 180-4 6.1.2 under every interpretation of the round leaf");
	__CPROVER_assert(ctx->count[0] == c0 && ctx->count[1] == c1 && block[gi * 12] == M[gi * 12], "count and block untouched");
	VCOVER(ctx->state[0] != 0 && gi == 4 && inctx);
	VCOVER(L1_n == 80 && !inctx);
}
