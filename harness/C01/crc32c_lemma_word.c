/* VERIF-GROUP
{
 "property": ["C01"],
 "entry": "h_crc32c_lemma_word",
 "enforce": ["crc_ref_word"],
 "replace": ["crc_ref_byte", "crc_lemma_lin", "crc_lemma_next"],
 "annotate": ["alg/crc32c.c"],
 "defines": ["VERIF_HALLOC"],
 "loop_contracts": false,
 "backend": "cvc5",
 "cbmc": ["--object-bits", "12"],
 "timeout": 300,
 "assumptions": ["table facts enter only through the contracts of crc_ref_byte, crc_lemma_lin, crc_lemma_next (each enforced in its own group)"]
}
*/
/* Slice-by-4 leaf (DESIGN 3.1 item 7b): T0[..b3] ^ T1[..b2] ^ T2[..b1] ^ T3[..b0] == four reference byte steps, for all (s, b0..b3); proved equationally from the small table lemmas (the direct 32-bit SAT equivalence does not finish). */
#include <stdlib.h>
#include "verif.h"
#include "crc32c_ghost.h"
#include "alg/crc32c.c"

void
h_crc32c_lemma_word(void)
{
	IN(uint32_t, s); IN(uint8_t, b0); IN(uint8_t, b1); IN(uint8_t, b2); IN(uint8_t, b3);
	g_crc_tables_ok = 1;	/* tables stay symbolic here: only the proved lemma contracts are used */
	uint32_t r = crc_ref_word(s, b0, b1, b2, b3);
	VCOVER(s == 0x82f63b78 && b0 == 1 && b3 == 0xff && r != 0);
}
