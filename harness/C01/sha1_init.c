/* VERIF-GROUP
{
 "property": ["C01"],
 "entry": "h_sha1_init",
 "enforce": ["libcperciva_SHA1_Init"],
 "replace": [],
 "annotate": ["alg/sha1.c", "util/insecure_memzero.c"],
 "defines": ["VERIF_HALLOC"],
 "loop_contracts": false,
 "timeout": 120
}
*/
/* SHA1_Init: count = 0, state = the standard's initial value (FIPS 180-4 6.1), nothing else written. */
#include <stdlib.h>
#include "verif.h"
size_t g_mz_idx;
#include "util/insecure_memzero.c"
#include "alg/sha1.c"
#include "sha1_ghost.h"

void
h_sha1_init(void)
{
	SHA1_CTX * ctx = malloc(sizeof(SHA1_CTX));
	__CPROVER_assume(ctx != NULL);
	IN(unsigned, gi);
	__CPROVER_assume(gi < 64);
	uint8_t b0 = ctx->buf[gi];

	SHA1_Init(ctx);

	__CPROVER_assert(ctx->buf[gi] == b0, "buffer untouched");
	__CPROVER_assert(ctx->state[gi % 5] == spec_sha1_IV[gi % 5], "state is the standard's initial value");
	VCOVER(ctx->count[0] == 0 && ctx->count[1] == 0 && gi == 63);
}
