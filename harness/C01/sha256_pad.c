/* VERIF-GROUP
{
 "property": ["C01"],
 "entry": "h_sha256_pad",
 "enforce": ["SHA256_Pad"],
 "replace": ["SHA256_Transform"],
 "annotate": ["alg/sha256.c"],
 "defines": ["VERIF_HALLOC"],
 "models": ["models/hash_memcpy.c"],
 "loop_contracts": false,
 "timeout": 300,
 "assumptions": ["memcpy = models/hash_memcpy.c (pointwise over-approximation for copies into ctx->buf, observed at the arbitrary ghost index)",
                 "compression function uninterpreted (trace contract T of SHA256_Transform, enforced in sha256_transform_T)"]
}
*/
/*
 * SHA256_Pad from an ARBITRARY context (every r = 0..63, every bit count): one compression if r < 56, else two;
 * every byte of every block equals the FIPS 180-4 5.1.1 padding of a count-bit message after the r buffered
 * message bytes (SPEC_SHA_PAD_BYTE, spec/sha256_spec.h); chained; count unchanged (DESIGN 3.1 item 3).
 */
#include <stdlib.h>
#include "verif.h"
#include "sha256_ghost.h"
#include "alg/sha256.c"

void
h_sha256_pad(void)
{
	SHA256_CTX * ctx = malloc(sizeof(SHA256_CTX));
	uint32_t * tmp32 = malloc(288);
	__CPROVER_assume(ctx != NULL && tmp32 != NULL);

	G256_HAVOC();
	for (int i = 0; i < 8; i++)
		g256_H[i] = ctx->state[i];
	size_t r = (ctx->count >> 3) & 0x3f;
	size_t k0 = g256_k;
	uint64_t count0 = ctx->count;
	g_mc_buf = ctx->buf;

	SHA256_Pad(ctx, tmp32);

	/* the same statement once more in plain C for two fixed points (sanity of the pointwise spec macro) */
	__CPROVER_assert(!(g256_kk == k0 && r == 3 && g256_j == 3) || g256_rec == 0x80, "0x80 follows the message");
	__CPROVER_assert(!(g256_kk == k0 + 1 && r == 60 && g256_j == 63) || g256_rec == (count0 & 0xff), "last byte is the low byte of the bit count");
	VCOVER(r == 55 && g256_kk == k0 && g256_j == 55);
	VCOVER(r == 56 && g256_kk == k0 + 1 && g256_j == 56 && g256_rec != 0);
	VCOVER(r == 63 && g256_kk == k0 && g256_j == 62);
	VCOVER(r == 0 && g256_kk == k0 && g256_j == 0 && count0 == 512);
}
