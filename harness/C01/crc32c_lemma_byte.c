/* VERIF-GROUP
{
 "property": ["C01"],
 "entry": "h_crc32c_lemma_byte",
 "enforce": ["crc_ref_byte"],
 "replace": [],
 "annotate": ["alg/crc32c.c"],
 "defines": ["VERIF_HALLOC"],
 "loop_contracts": false,
 "cbmc": ["--object-bits", "12"],
 "timeout": 300,
 "assumptions": ["tables = what the real init() computes (run concretely in the harness; its own contract: crc32c_init)"]
}
*/
/* Byte step leaf (DESIGN 3.1 item 7b): (s >> 8) ^ T0[(s ^ b) & 0xff] == eight bit-serial steps, for all (s, b). */
#include <stdlib.h>
#include "verif.h"
#include "crc32c_ghost.h"
#include "alg/crc32c.c"

void
h_crc32c_lemma_byte(void)
{
	IN(uint32_t, s); IN(uint8_t, b);
	init();
	g_crc_tables_ok = 1;
	uint32_t r = crc_ref_byte(s, b);
	__CPROVER_assert(r == spec_crc32c_byte(s, b), "crc_ref_byte is the bit-serial reference step");
	VCOVER(s == 0x82f63b78 && b == 0x68 && r != 0);
}
