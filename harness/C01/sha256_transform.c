/* VERIF-GROUP
{
 "property": ["C01"],
 "entry": "h_sha256_transform",
 "enforce": [],
 "replace": [],
 "annotate": ["alg/sha256.c"],
 "defines": ["VERIF_HALLOC", "VERIF_SHA256_LOCKSTEP"],
 "loop_contracts": false,
 "timeout": 300,
 "assumptions": ["G2 lockstep trace abstraction: RND/MSCH macro bodies replaced by uninterpreted logging leaves via the spec ghost rule; L-sub (DESIGN 2.5) combines this with group sha256_leaves"]
}
*/
/*
 * Structure of the real SHA256_Transform == FIPS 180-4 6.2.2 (DESIGN 3.1 item 1b), by lockstep trace
 * abstraction of the round and schedule leaves: the implementation-side leaf logs its operands and returns
 * arbitrary values O[k]; the specification-side leaf (plugged into spec_sha256_compress through the
 * SPEC_SHA256_ROUND / SPEC_SHA256_SCHED macros) asserts that it gets the same operands at the same position
 * and returns the same O[k].  Equality of the final states then holds under every interpretation of the
 * leaves.  No contract is enforced here (DFCC instrumentation of the logging leaves is prohibitively slow);
 * frame, memory safety and the trace contract of SHA256_Transform are enforced on the unmodified function
 * in group sha256_transform_T.
 */
#include <stdlib.h>
#include "verif.h"

uint32_t L256_rin[64][9], L256_rout[64][2], L256_sin[48][4], L256_sout[48];
int L256_rn, L256_sn, L256_rm, L256_sm;

void
verif_sha256_rnd_leaf(uint32_t a, uint32_t b, uint32_t c, uint32_t d, uint32_t e, uint32_t f, uint32_t g,
    uint32_t h, uint32_t k, uint32_t * nd, uint32_t * nh)
{
	uint32_t in[9] = { a, b, c, d, e, f, g, h, k };

	__CPROVER_assert(L256_rn >= 0 && L256_rn < 64, "lockstep: at most 64 round leaves");
	for (int q = 0; q < 9; q++)
		L256_rin[L256_rn][q] = in[q];
	*nd = L256_rout[L256_rn][0];
	*nh = L256_rout[L256_rn][1];
	L256_rn++;
}

uint32_t
verif_sha256_msch_leaf(uint32_t w2, uint32_t w7, uint32_t w15, uint32_t w16)
{
	uint32_t in[4] = { w2, w7, w15, w16 };

	__CPROVER_assert(L256_sn >= 0 && L256_sn < 48, "lockstep: at most 48 schedule leaves");
	for (int q = 0; q < 4; q++)
		L256_sin[L256_sn][q] = in[q];
	return (L256_sout[L256_sn++]);
}

/* specification side: same operands at the same position => same result */
static void
spec_side_round(uint32_t a, uint32_t b, uint32_t c, uint32_t d, uint32_t e, uint32_t f, uint32_t g,
    uint32_t h, uint32_t kw, uint32_t * ne, uint32_t * na)
{
	uint32_t in[9] = { a, b, c, d, e, f, g, h, kw };

	for (int q = 0; q < 9; q++)
		__CPROVER_assert(L256_rin[L256_rm][q] == in[q], "lockstep: round operands agree with FIPS 6.2.2 step 3");
	*ne = L256_rout[L256_rm][0];
	*na = L256_rout[L256_rm][1];
	L256_rm++;
}

static uint32_t
spec_side_sched(uint32_t w2, uint32_t w7, uint32_t w15, uint32_t w16)
{
	uint32_t in[4] = { w2, w7, w15, w16 };

	for (int q = 0; q < 4; q++)
		__CPROVER_assert(L256_sin[L256_sm][q] == in[q], "lockstep: schedule operands agree with FIPS 6.2.2 step 1");
	return (L256_sout[L256_sm++]);
}
#define SPEC_SHA256_ROUND(a, b, c, d, e, f, g, h, kw, ne, na) spec_side_round(a, b, c, d, e, f, g, h, kw, ne, na)
#define SPEC_SHA256_SCHED(w2, w7, w15, w16) spec_side_sched(w2, w7, w15, w16)

#include "sha256_ghost.h"
#include "alg/sha256.c"

void
h_sha256_transform(void)
{
	SHA256_CTX * ctx = malloc(sizeof(SHA256_CTX));
	uint32_t * tmp32 = malloc(288);
	IN_BYTES(ext, 64, 64);
	__CPROVER_assume(ctx != NULL && tmp32 != NULL);
	IN(int, inctx);
	const uint8_t * block = inctx ? ctx->buf : ext;
	uint32_t H[8];
	uint8_t M[64];
	IN(unsigned, gi);
	__CPROVER_assume(gi < 8);

	/* arbitrary leaf results */
	__CPROVER_havoc_object(L256_rout);
	__CPROVER_havoc_object(L256_sout);
	for (int i = 0; i < 8; i++)
		H[i] = ctx->state[i];
	for (int i = 0; i < 64; i++)
		M[i] = block[i];
	uint64_t count0 = ctx->count;

	SHA256_Transform(ctx->state, block, &tmp32[0], &tmp32[64]);

	spec_sha256_compress(H, M);
	__CPROVER_assert(L256_rm == 64 && L256_sm == 48, "specification consumed all logged leaves");
	__CPROVER_assert(ctx->state[gi] == H[gi], "SHA256_Transform == FIPS 180-4 6.2.2 under every interpretation of the leaves");
	__CPROVER_assert(ctx->count == count0, "count untouched");
	__CPROVER_assert(block[gi * 8] == M[gi * 8], "block untouched");
	VCOVER(ctx->state[0] != 0 && gi == 7 && inctx);
	VCOVER(L256_rn == 64 && !inctx);
}
