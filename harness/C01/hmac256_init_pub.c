/* VERIF-GROUP
{
 "property": ["C01"],
 "entry": "h_hmac256_init_pub",
 "enforce": ["libcperciva_HMAC_SHA256_Init"],
 "replace": ["HMAC_SHA256_Init_internal"],
 "annotate": ["alg/sha256.c", "util/insecure_memzero.c"],
 "defines": ["VERIF_HALLOC", "VERIF_HASH_ABS", "SHA_MAXOBJ=0xffffffff"],
 "loop_contracts": false,
 "timeout": 300,
 "assumptions": ["hash layer abstracted at the call level (VERIF_HASH_ABS); L-md",
                 "insecure_memzero_ptr == insecure_memzero_func (its static initialiser; no library code assigns it)"]
}
*/
/* public HMAC_SHA256_Init == HMAC_SHA256_Init_internal with private scratch (RFC 2104 key set-up) */
#include <stdlib.h>
#include "verif.h"
#include "sha256_ghost.h"
#include "sha256_abs_ghost.h"
size_t g_mz_idx;
#include "util/insecure_memzero.c"
#include "alg/sha256.c"

void
h_hmac256_init_pub(void)
{
	HMAC_SHA256_CTX * ctx = malloc(sizeof(HMAC_SHA256_CTX));
	IN(size_t, Klen);
	__CPROVER_assume(Klen <= SHA_MAXOBJ);
	IN_BYTES(K, Klen, SHA_MAXOBJ);
	__CPROVER_assume(ctx != NULL);

	insecure_memzero_ptr = insecure_memzero_func;
	GA_HAVOC();
	ga_ctx0 = &ctx->ictx;
	ga_ctx1 = &ctx->octx;
	size_t n0 = ga_nfin;

	HMAC_SHA256_Init(ctx, K, Klen);

	VCOVER(Klen == 64 && ga_os == 1 && ga_oe == ga_epoch1 && ga_p == 63);
	VCOVER(Klen == 65 && ga_os == 0 && ga_oe == ga_epoch0 && ga_p == 31 && ga_of == n0 && ga_di == 31);
}
