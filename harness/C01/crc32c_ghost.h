/* ghost state of the CRC32C contracts (contracts/alg__crc32c.c.spec) */
uint32_t g_crc;
size_t g_crc_n;
const uint8_t * g_crc_base;
size_t g_crc_t;
int g_crc_tables_ok;
