/* VERIF-GROUP
{
 "property": ["C01", "C20"],
 "entry": "h_md5_buf",
 "enforce": ["libcperciva_MD5_Buf"],
 "replace": ["libcperciva_MD5_Init", "libcperciva_MD5_Update", "libcperciva_MD5_Final"],
 "annotate": ["alg/md5.c", "util/insecure_memzero.c"],
 "defines": ["VERIF_HALLOC", "SHA_MAXOBJ=0xffffffff"],
 "loop_contracts": false,
 "timeout": 300,
 "assumptions": ["input object size < 2^32 bytes (SHA_MAXOBJ)",
                 "compression function uninterpreted (trace contracts); L-sub links it to the standard's compression function"]
}
*/
/*
 * One-shot == streaming == the standard (RFC 1321 3): MD5_Buf is Init; Update; Final on a local context, each replaced
 * by its enforced contract.  From the standard's initial value the message is compressed in (padded length)/64
 * chained blocks, block kk byte j is byte 64 kk + j of (message || padding for 8 len bits), the digest is the
 * little-endian final chaining value -- for arbitrary (kk, j, i).  The local context is wiped (C20).
 */
#include <stdlib.h>
#include "verif.h"
size_t g_mz_idx;
#include "util/insecure_memzero.c"
#include "alg/md5.c"
#include "md5_ghost.h"

void
h_md5_buf(void)
{
	IN(size_t, len);
	__CPROVER_assume(len <= SHA_MAXOBJ);
	IN_BYTES(in, len, SHA_MAXOBJ);
	uint8_t * digest = malloc(16);
	__CPROVER_assume(digest != NULL);

	MD5_STATICS_INIT();
	G5_HAVOC();
	for (int i = 0; i < 4; i++)
		g5_H[i] = spec_md5_IV[i];
	size_t k0 = g5_k;

	MD5_Buf(in, len, digest);

	__CPROVER_assert(!(len == 0 && g5_kk == k0 && g5_j == 0) || g5_rec == 0x80, "empty message: first byte of the only block is 0x80");
	__CPROVER_assert(len != 55 || g5_k == k0 + 1, "55 bytes: one block");
	__CPROVER_assert(len != 56 || g5_k == k0 + 2, "56 bytes: two blocks");
	VCOVER(len == 0);
	VCOVER(len == 55 && g5_kk == k0 && g5_j == 54);
	VCOVER(len == 119 && g5_k == k0 + 2);
	VCOVER(len == 120 && g5_kk == k0 + 2 && g5_j == 63 && g5_i == 16 - 1);
}
