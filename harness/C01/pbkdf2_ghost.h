/* ghost state of the HMAC-level abstraction used for PBKDF2_SHA256 (contracts/alg__sha256.c.spec, VERIF_HMAC_ABS) */
#ifndef PBKDF2_GHOST_H_
#define PBKDF2_GHOST_H_
const void * gp_c0, * gp_c1, * gp_c2;
int gp_keyed0, gp_keyed1, gp_keyed2;
uint64_t gp_mlen0, gp_mlen1, gp_mlen2;
uint8_t gp_mbyte0, gp_mbyte1, gp_mbyte2;
const void * gp_key;
size_t gp_keylen;
uint64_t gp_p;
size_t gp_di;
uint64_t gp_ci, gp_cj, gp_oi, gp_oj;
int gp_call_keyed;
uint64_t gp_call_mlen;
uint8_t gp_call_mbyte, gp_call_out, gp_prev_out, gp_last_out;
uint8_t gp_acc;
#endif
