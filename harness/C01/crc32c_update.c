/* VERIF-GROUP
{
 "property": ["C01"],
 "entry": "h_crc32c_update",
 "enforce": ["CRC32C_Update"],
 "replace": ["crc_ref_byte", "crc_ref_word"],
 "annotate": ["alg/crc32c.c"],
 "defines": ["VERIF_HALLOC", "CRC_MAXOBJ=0xffffffff"],
 "expect_loops": ["CRC32C_Update"],
 "backend": "cvc5",
 "timeout": 600,
 "assumptions": ["tables initialised (ghost flag g_crc_tables_ok = CRC32C_Init was called); the table facts enter through the lemma contracts crc_ref_byte / crc_ref_word, enforced in crc32c_lemma_* with the tables computed by the real init()",
                 "buffer object size < 2^32 bytes (CRC_MAXOBJ), every alignment 0..7 inside the object; both loops are closed by loop contracts"]
}
*/
/*
 * CRC32C_Update from an arbitrary register value, every length, every buffer alignment: both loops (slice-by-4
 * and byte tail) keep ctx->state equal to the bit-serial reference register folded over consecutive bytes of
 * the buffer (ghost hooks), and exactly len bytes are consumed (DESIGN 3.1 item 7b/7c).
 */
#include <stdlib.h>
#include "verif.h"
#include "crc32c_ghost.h"
#include "alg/crc32c.c"

void
h_crc32c_update(void)
{
	CRC32C_CTX * ctx = malloc(sizeof(CRC32C_CTX));
	IN(size_t, len); IN(size_t, off);
	__CPROVER_assume(len <= CRC_MAXOBJ && off < 8);
	IN_BYTES(obj, len + off, (size_t)CRC_MAXOBJ + 8);
	__CPROVER_assume(ctx != NULL);
	const uint8_t * buf = obj + off;

	g_crc_tables_ok = 1;	/* API precondition: CRC32C_Init ran (tables built) */
	g_crc_base = buf;
	g_crc_n = 0;
	g_crc = ctx->state;

	CRC32C_Update(ctx, buf, len);

	VCOVER(len == 0);
	VCOVER(len == 3 && off == 1);
	VCOVER(len == 64 && off == 7);
	VCOVER(len == 7 && off == 0);
}
