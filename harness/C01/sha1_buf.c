/* VERIF-GROUP
{
 "property": ["C01", "C20"],
 "entry": "h_sha1_buf",
 "enforce": ["libcperciva_SHA1_Buf"],
 "replace": ["libcperciva_SHA1_Init", "libcperciva_SHA1_Update", "libcperciva_SHA1_Final"],
 "annotate": ["alg/sha1.c", "util/insecure_memzero.c"],
 "defines": ["VERIF_HALLOC", "SHA_MAXOBJ=0xffffffff"],
 "loop_contracts": false,
 "timeout": 300,
 "assumptions": ["input object size < 2^32 bytes (SHA_MAXOBJ)",
                 "compression function uninterpreted (trace contracts); L-sub links it to the standard's compression function"]
}
*/
/*
 * One-shot == streaming == the standard (FIPS 180-4 6.1): SHA1_Buf is Init; Update; Final on a local context, each replaced
 * by its enforced contract.  From the standard's initial value the message is compressed in (padded length)/64
 * chained blocks, block kk byte j is byte 64 kk + j of (message || padding for 8 len bits), the digest is the
 * big-endian final chaining value -- for arbitrary (kk, j, i).  The local context is wiped (C20).
 */
#include <stdlib.h>
#include "verif.h"
size_t g_mz_idx;
#include "util/insecure_memzero.c"
#include "alg/sha1.c"
#include "sha1_ghost.h"

void
h_sha1_buf(void)
{
	IN(size_t, len);
	__CPROVER_assume(len <= SHA_MAXOBJ);
	IN_BYTES(in, len, SHA_MAXOBJ);
	uint8_t * digest = malloc(20);
	__CPROVER_assume(digest != NULL);

	SHA1_STATICS_INIT();
	G1_HAVOC();
	for (int i = 0; i < 5; i++)
		g1_H[i] = spec_sha1_IV[i];
	size_t k0 = g1_k;

	SHA1_Buf(in, len, digest);

	__CPROVER_assert(!(len == 0 && g1_kk == k0 && g1_j == 0) || g1_rec == 0x80, "empty message: first byte of the only block is 0x80");
	__CPROVER_assert(len != 55 || g1_k == k0 + 1, "55 bytes: one block");
	__CPROVER_assert(len != 56 || g1_k == k0 + 2, "56 bytes: two blocks");
	VCOVER(len == 0);
	VCOVER(len == 55 && g1_kk == k0 && g1_j == 54);
	VCOVER(len == 119 && g1_k == k0 + 2);
	VCOVER(len == 120 && g1_kk == k0 + 2 && g1_j == 63 && g1_i == 20 - 1);
}
