/* VERIF-GROUP
{
 "property": ["C01"],
 "entry": "h_md5_pad",
 "enforce": ["MD5_Pad"],
 "replace": ["libcperciva_MD5_Update"],
 "annotate": ["alg/md5.c", "util/insecure_memzero.c"],
 "defines": ["VERIF_HALLOC"],
 "loop_contracts": false,
 "timeout": 300,
 "assumptions": ["PAD holds its static initialiser (no library code assigns it; DFCC havocs non-const globals)",
                 "compression function uninterpreted (trace contracts)"]
}
*/
/*
 * MD5_Pad from an ARBITRARY context (every r, every bit count), implemented by two MD5_Update calls (replaced by the
 * enforced contract): PAD[0..plen) then the 8 length bytes land exactly on the block boundary; one compression if
 * r < 56 else two; every byte of every block equals the standard's padding of a count-bit message (SPEC_MD5_PAD_BYTE).
 */
#include <stdlib.h>
#include "verif.h"
size_t g_mz_idx;
#include "util/insecure_memzero.c"
#include "alg/md5.c"
#include "md5_ghost.h"

void
h_md5_pad(void)
{
	MD5_CTX * ctx = malloc(sizeof(MD5_CTX));
	__CPROVER_assume(ctx != NULL);

	MD5_STATICS_INIT();
	G5_HAVOC();
	for (int i = 0; i < 4; i++)
		g5_H[i] = ctx->state[i];
	size_t r = (ctx->count[0] >> 3) & 0x3f;
	size_t k0 = g5_k;
	uint64_t cnt0 = ((uint64_t)ctx->count[1] << 32) | ctx->count[0];

	MD5_Pad(ctx);

	__CPROVER_assert(!(g5_kk == k0 && r == 3 && g5_j == 3) || g5_rec == 0x80, "0x80 follows the message");
	__CPROVER_assert(!(g5_kk == k0 + 1 && r == 60 && g5_j == 63) || g5_rec == (uint8_t)((cnt0 >> 56) & 0xff), "last byte of the length field");
	VCOVER(r == 55 && g5_kk == k0 && g5_j == 55);
	VCOVER(r == 56 && g5_kk == k0 + 1 && g5_j == 56);
	VCOVER(r == 63 && g5_kk == k0 && g5_j == 62);
	VCOVER(r == 0 && g5_kk == k0 && g5_j == 0 && cnt0 == 512);
}
