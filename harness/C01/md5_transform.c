/* VERIF-GROUP
{
 "property": ["C01"],
 "entry": "h_md5_transform",
 "enforce": [],
 "replace": [],
 "annotate": ["alg/md5.c", "util/insecure_memzero.c"],
 "defines": ["VERIF_HALLOC", "VERIF_MD5_LOCKSTEP"],
 "loop_contracts": false,
 "timeout": 600,
 "assumptions": ["G2 lockstep trace abstraction: FF/GG/HH/II macro bodies replaced by an uninterpreted logging leaf via the spec ghost rule; L-sub combines this with group md5_leaves"]
}
*/
/*
 * Structure of the real MD5_Transform == RFC 1321 3.4 by lockstep trace abstraction of the 64 step leaves: the
 * specification side (message word index formulas k(i), the sine table T[i], the shift table, the role rotation
 * abcd -> dabc, little-endian word decoding) must present the same (round, a, b, c, d, X[k]+T[i], s) at every step.
 */
#include <stdlib.h>
#include "verif.h"

uint32_t L5_in[64][7], L5_out[64];
int L5_n, L5_m;

uint32_t
verif_md5_step_leaf(int round, uint32_t a, uint32_t b, uint32_t c, uint32_t d, uint32_t x, unsigned s)
{
	uint32_t in[7] = { (uint32_t)round, a, b, c, d, x, (uint32_t)s };

	__CPROVER_assert(L5_n >= 0 && L5_n < 64, "lockstep: at most 64 step leaves");
	for (int q = 0; q < 7; q++)
		L5_in[L5_n][q] = in[q];
	return (L5_out[L5_n++]);
}

static uint32_t
spec_side_step(int round, uint32_t a, uint32_t b, uint32_t c, uint32_t d, uint32_t xt, unsigned s)
{
	uint32_t in[7] = { (uint32_t)round, a, b, c, d, xt, (uint32_t)s };

	for (int q = 0; q < 7; q++)
		__CPROVER_assert(L5_in[L5_m][q] == in[q], "lockstep: round, operands, X[k]+T[i] and shift agree with RFC 1321 3.4");
	return (L5_out[L5_m++]);
}
#define SPEC_MD5_STEP(round, a, b, c, d, xt, s) spec_side_step(round, a, b, c, d, xt, s)

#include "util/insecure_memzero.c"
#include "alg/md5.c"
#include "md5_ghost.h"

void
h_md5_transform(void)
{
	MD5_CTX * ctx = malloc(sizeof(MD5_CTX));
	IN_BYTES(ext, 64, 64);
	__CPROVER_assume(ctx != NULL);
	IN(int, inctx);
	const uint8_t * block = inctx ? ctx->buf : ext;
	uint32_t H[4];
	uint8_t M[64];
	IN(unsigned, gi);
	__CPROVER_assume(gi < 4);

	MD5_STATICS_INIT();
	__CPROVER_havoc_object(L5_out);
	for (int i = 0; i < 4; i++)
		H[i] = ctx->state[i];
	for (int i = 0; i < 64; i++)
		M[i] = block[i];
	uint32_t c0 = ctx->count[0], c1 = ctx->count[1];

	MD5_Transform(ctx->state, block);

	spec_md5_compress(H, M);
	__CPROVER_assert(L5_n == 64 && L5_m == 64, "64 step leaves on both sides");
	__CPROVER_assert(ctx->state[gi] == H[gi], "MD5_Transform == RFC 1321 3.4 under every interpretation of the step leaf");
	__CPROVER_assert(ctx->count[0] == c0 && ctx->count[1] == c1 && block[gi * 16] == M[gi * 16], "count and block untouched");
	VCOVER(ctx->state[0] != 0 && gi == 3 && inctx);
	VCOVER(L5_n == 64 && !inctx);
}
