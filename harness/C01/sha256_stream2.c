/* VERIF-GROUP
{
 "property": ["C01"],
 "entry": "h_sha256_stream2",
 "enforce": [],
 "replace": ["libcperciva_SHA256_Init", "libcperciva_SHA256_Update", "libcperciva_SHA256_Final"],
 "annotate": ["alg/sha256.c", "util/insecure_memzero.c"],
 "defines": ["VERIF_HALLOC", "VERIF_COARSE_FRAMES", "SHA_MAXOBJ=0xffffffff"],
 "loop_contracts": false,
 "backend": "kissat",
 "timeout": 600,
 "assumptions": ["mechanised instance of lemma L-md for a partition into three calls (one of them possibly empty); arbitrary partitions follow by the same induction over calls (on paper)"]
}
*/
/*
 * Streaming == one-shot, every partition of the message into three SHA256_Update calls (DESIGN 3.1 item 4 / L-md):
 * Init; Update(m[0..a)); Update(m[a..b)); Update(m[b..n)); Final through the PUBLIC interface, every call replaced
 * by its enforced contract, satisfies exactly the postcondition of SHA256_Buf on m[0..n): the same chain of
 * compressions on the same blocks of (message || FIPS padding), the same digest, and the context ends up zero.
 */
#include <stdlib.h>
#include "verif.h"
#include "sha256_ghost.h"
size_t g_mz_idx;
#include "util/insecure_memzero.c"
#include "alg/sha256.c"

void
h_sha256_stream2(void)
{
	IN(size_t, n); IN(size_t, a); IN(size_t, b);
	__CPROVER_assume(n <= SHA_MAXOBJ && a <= b && b <= n);
	IN_BYTES(m, n, SHA_MAXOBJ);
	SHA256_CTX * ctx = malloc(sizeof(SHA256_CTX));
	uint8_t * digest = malloc(32);
	__CPROVER_assume(ctx != NULL && digest != NULL);

	G256_HAVOC();
	for (int i = 0; i < 8; i++)
		g256_H[i] = spec_sha256_IV[i];
	size_t k0 = g256_k;
	uint8_t rec0 = g256_rec;

	SHA256_Init(ctx);
	SHA256_Update(ctx, m, a);
	SHA256_Update(ctx, m + a, b - a);
	SHA256_Update(ctx, m + b, n - b);
	SHA256_Final(digest, ctx);

	/* the postcondition of SHA256_Buf(m, n, digest), verbatim */
	__CPROVER_assert(g256_k == k0 + SPEC_MD_PADDED_LEN((uint64_t)n << 3) / 64, "streaming: number of compressions == one-shot");
	__CPROVER_assert(g256_rec == ((k0 <= g256_kk && g256_kk < g256_k) ?
	    (((g256_kk - k0) * 64 + g256_j < n) ? m[(g256_kk - k0) * 64 + g256_j] :
		SPEC_SHA_PAD_BYTE((uint64_t)n << 3, (g256_kk - k0) * 64 + g256_j)) : rec0),
	    "streaming: every compressed block byte == one-shot (message || FIPS padding)");
	__CPROVER_assert(digest[g256_i] == SPEC_BE32_BYTE(g256_H[g256_i / 4], g256_i % 4), "streaming: digest == encoding of the final chaining value");
	__CPROVER_assert(((const uint8_t *)ctx)[g256_z] == 0, "C20: context zero after the streaming computation");
	VCOVER(n == 200 && a == 1 && b == 130 && g256_kk == k0 + 2 && g256_j == 7);
	VCOVER(n == 64 && a == 0 && b == 64 && g256_kk == k0 + 1 && g256_j == 0 && g256_rec == 0x80);
	VCOVER(n == 119 && a == 55 && b == 56);
}
