/* VERIF-GROUP
{
 "property": ["C01"],
 "entry": "h_hmac256_init",
 "enforce": ["HMAC_SHA256_Init_internal"],
 "replace": ["libcperciva_SHA256_Init", "SHA256_Update_internal", "SHA256_Final_internal"],
 "annotate": ["alg/sha256.c"],
 "defines": ["VERIF_HALLOC", "VERIF_HASH_ABS", "SHA_MAXOBJ=0xffffffff"],
 "expect_loops": ["HMAC_SHA256_Init_internal"],
 "timeout": 600,
 "assumptions": ["hash layer abstracted at the call level (VERIF_HASH_ABS contracts of SHA256_Init/Update_internal/Final_internal; digests uninterpreted); lemma L-md links them to the enforced trace contracts",
                 "key object size < 2^32 bytes (SHA_MAXOBJ)"]
}
*/
/*
 * HMAC_SHA256_Init_internal == RFC 2104 key set-up, both key-length branches (DESIGN 3.1 item 5):
 * Klen <= 64: inner context absorbed exactly the block (K || 0..) ^ 0x36.., outer the block (K || 0..) ^ 0x5c..;
 * Klen  > 64: first K itself is hashed (its own epoch of slot 0: all Klen bytes, in order, finalised into khash),
 *             then the same with K' = khash (32 bytes).
 */
#include <stdlib.h>
#include "verif.h"
#include "sha256_ghost.h"
#include "sha256_abs_ghost.h"
#include "alg/sha256.c"

void
h_hmac256_init(void)
{
	HMAC_SHA256_CTX * ctx = malloc(sizeof(HMAC_SHA256_CTX));
	uint32_t * tmp32 = malloc(288);
	uint8_t * pad = malloc(64);
	uint8_t * khash = malloc(32);
	IN(size_t, Klen);
	__CPROVER_assume(Klen <= SHA_MAXOBJ);
	IN_BYTES(K, Klen, SHA_MAXOBJ);
	__CPROVER_assume(ctx != NULL && tmp32 != NULL && pad != NULL && khash != NULL);

	GA_HAVOC();
	ga_ctx0 = &ctx->ictx;
	ga_ctx1 = &ctx->octx;
	size_t e0 = ga_epoch0, e1 = ga_epoch1;

	HMAC_SHA256_Init_internal(ctx, K, Klen, tmp32, pad, khash);

	/* plain-C restatements at fixed points */
	__CPROVER_assert(!(Klen == 3 && ga_os == 0 && ga_oe == e0 + 1 && ga_p == 2) || ga_byte == (K[2] ^ 0x36), "short key: ipad block byte 2");
	__CPROVER_assert(!(Klen == 3 && ga_os == 1 && ga_oe == e1 + 1 && ga_p == 3) || ga_byte == 0x5c, "short key: opad block byte 3 is 0x5c");
	__CPROVER_assert(!(Klen == 65 && ga_os == 0 && ga_oe == e0 + 1 && ga_p == 64) || ga_byte == K[64], "long key: K is hashed, byte 64");
	__CPROVER_assert(!(Klen == 65 && ga_os == 0 && ga_oe == e0 + 2 && ga_p == 32) || ga_byte == 0x36, "long key: ipad block byte 32 is 0x36");
	VCOVER(Klen == 0 && ga_os == 0 && ga_oe == e0 + 1 && ga_p == 0 && ga_byte == 0x36);
	VCOVER(Klen == 64 && ga_os == 1 && ga_oe == e1 + 1 && ga_p == 63);
	VCOVER(Klen == 65 && ga_os == 0 && ga_oe == e0 + 2 && ga_p == 31 && ga_of == ga_nfin - 1 && ga_di == 31);
	VCOVER(Klen == 130 && ga_os == 0 && ga_oe == e0 + 1 && ga_p == 129);
}
