/* VERIF-GROUP
{
 "property": ["C01"],
 "entry": "h_sha256_leaves",
 "enforce": [],
 "replace": [],
 "loop_contracts": false,
 "timeout": 300,
 "assumptions": ["macro leaves RND/MSCH are checked on the unmodified macros of alg/sha256.c (real file included); full 9x32-bit / 64x32-bit domains"]
}
*/
/*
 * Leaf lemmas for SHA-256 (DESIGN 3.1 item 1a), on the REAL macros and tables of alg/sha256.c:
 *  L1  RND(a..h,k)      == FIPS 180-4 6.2.2 step 3 (only d and h change: d' = new e, h' = new a)
 *  L2  MSCH(W, ii, i)   == W[t] = ssig1(W[t-2]) + W[t-7] + ssig0(W[t-15]) + W[t-16], t = i+ii+16, nothing else
 *  L3  Krnd[t] == K_t, initial_state == H^(0), PAD == 0x80 0 0 ...
 * These are exactly the semantics given to the abstract leaves in the lockstep group sha256_transform.
 */
#include "verif.h"
#include "sha256_spec.h"
#include "alg/sha256.c"

void
h_sha256_leaves(void)
{
	/* L1 */
	IN(uint32_t, a); IN(uint32_t, b); IN(uint32_t, c); IN(uint32_t, d);
	IN(uint32_t, e); IN(uint32_t, f); IN(uint32_t, g); IN(uint32_t, h); IN(uint32_t, k);
	uint32_t a0 = a, b0 = b, c0 = c, d0 = d, e0 = e, f0 = f, g0 = g, h0 = h, k0 = k;
	uint32_t ne, na;

	spec_sha256_round(a, b, c, d, e, f, g, h, k, &ne, &na);
	RND(a, b, c, d, e, f, g, h, k);
	__CPROVER_assert(d == ne, "L1 RND: d' is the FIPS new e (d + T1)");
	__CPROVER_assert(h == na, "L1 RND: h' is the FIPS new a (T1 + T2)");
	__CPROVER_assert(a == a0 && b == b0 && c == c0 && e == e0 && f == f0 && g == g0 && k == k0,
	    "L1 RND: other operands unchanged");
	VCOVER(d != d0 && h != h0);

	/* L2 */
	uint32_t W[64], W0[64];
	IN(int, i); IN(int, ii); IN(int, q);
	__CPROVER_assume(i >= 0 && i < 48 && (i % 16) == 0 && ii >= 0 && ii < 16);
	__CPROVER_assume(q >= 0 && q < 64);
	for (int t = 0; t < 64; t++)
		W0[t] = W[t];
	MSCH(W, ii, i);
	{
		int t = i + ii + 16;
		__CPROVER_assert(W[t] == spec_sha256_sched(W0[t - 2], W0[t - 7], W0[t - 15], W0[t - 16]),
		    "L2 MSCH: W[t] is the FIPS schedule word");
		__CPROVER_assert(q == t || W[q] == W0[q], "L2 MSCH: no other word changes");
		VCOVER(t == 16);
		VCOVER(t == 63 && W[t] != W0[t]);
	}

	/* L3 */
	IN(int, t3);
	__CPROVER_assume(t3 >= 0 && t3 < 64);
	__CPROVER_assert(Krnd[t3] == spec_sha256_K[t3], "L3 Krnd == FIPS K");
	__CPROVER_assert(t3 >= 8 || initial_state[t3] == spec_sha256_IV[t3], "L3 initial_state == FIPS H(0)");
	__CPROVER_assert(t3 >= 8 || initial_state[t3] == SPEC_SHA256_IV(t3), "L3 SPEC_SHA256_IV macro == table");
	__CPROVER_assert(PAD[t3] == (t3 == 0 ? 0x80 : 0), "L3 PAD");
	VCOVER(t3 == 63);
}
