/* VERIF-GROUP
{
 "property": ["C01"],
 "entry": "h_sha256_update_pub",
 "enforce": ["libcperciva_SHA256_Update"],
 "replace": ["SHA256_Update_internal"],
 "annotate": ["alg/sha256.c", "util/insecure_memzero.c"],
 "defines": ["VERIF_HALLOC", "SHA_MAXOBJ=0xffffffff"],
 "loop_contracts": false,
 "timeout": 300,
 "assumptions": ["insecure_memzero_ptr == insecure_memzero_func (its static initialiser; no library code assigns it)"]
}
*/
/* public SHA256_Update == SHA256_Update_internal on a private scratch area (same trace contract, smaller frame) */
#include <stdlib.h>
#include "verif.h"
#include "sha256_ghost.h"
size_t g_mz_idx;
#include "util/insecure_memzero.c"
#include "alg/sha256.c"

void
h_sha256_update_pub(void)
{
	SHA256_CTX * ctx = malloc(sizeof(SHA256_CTX));
	IN(size_t, len);
	__CPROVER_assume(len <= SHA_MAXOBJ);
	IN_BYTES(in, len, SHA_MAXOBJ);
	__CPROVER_assume(ctx != NULL);
	__CPROVER_assume(ctx->count <= UINT64_MAX - ((uint64_t)len << 3));

	insecure_memzero_ptr = insecure_memzero_func;
	G256_HAVOC();
	for (int i = 0; i < 8; i++)
		g256_H[i] = ctx->state[i];
	size_t r = (ctx->count >> 3) & 0x3f;
	size_t k0 = g256_k;

	SHA256_Update(ctx, in, len);

	VCOVER(len == 0);
	VCOVER(r == 63 && len == 130 && g256_kk == k0 + 2 && g256_j == 5);
}
