/* VERIF-GROUP
{
 "property": ["C01"],
 "entry": "h_sha256_final_internal",
 "enforce": ["SHA256_Final_internal"],
 "replace": ["SHA256_Pad"],
 "annotate": ["alg/sha256.c"],
 "defines": ["VERIF_HALLOC"],
 "loop_contracts": false,
 "timeout": 300
}
*/
/*
 * SHA256_Final_internal: padding per SHA256_Pad's contract, then the digest is the big-endian encoding of the
 * final chaining value (FIPS 180-4 6.2.2 "the resulting 256-bit message digest is H0||...||H7"), at an
 * arbitrary digest byte g256_i.
 */
#include <stdlib.h>
#include "verif.h"
#include "sha256_ghost.h"
#include "alg/sha256.c"

void
h_sha256_final_internal(void)
{
	SHA256_CTX * ctx = malloc(sizeof(SHA256_CTX));
	uint32_t * tmp32 = malloc(288);
	uint8_t * digest = malloc(32);
	__CPROVER_assume(ctx != NULL && tmp32 != NULL && digest != NULL);

	G256_HAVOC();
	for (int i = 0; i < 8; i++)
		g256_H[i] = ctx->state[i];
	size_t r = (ctx->count >> 3) & 0x3f;
	size_t k0 = g256_k;

	SHA256_Final_internal(digest, ctx, tmp32);

	__CPROVER_assert(g256_i != 0 || digest[0] == ((g256_H[0] >> 24) & 0xff), "digest[0] is the top byte of H0");
	__CPROVER_assert(g256_i != 31 || digest[31] == (g256_H[7] & 0xff), "digest[31] is the low byte of H7");
	VCOVER(r == 57 && g256_k == k0 + 2 && g256_i == 31);
	VCOVER(r == 1 && g256_k == k0 + 1 && g256_i == 4 && digest[4] == 0xab);
}
