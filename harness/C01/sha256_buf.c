/* VERIF-GROUP
{
 "property": ["C01", "C20"],
 "entry": "h_sha256_buf",
 "enforce": ["libcperciva_SHA256_Buf"],
 "replace": ["libcperciva_SHA256_Init", "SHA256_Update_internal", "SHA256_Final_internal"],
 "annotate": ["alg/sha256.c", "util/insecure_memzero.c"],
 "defines": ["VERIF_HALLOC", "SHA_MAXOBJ=0xffffffff"],
 "loop_contracts": false,
 "timeout": 300,
 "assumptions": ["input object size < 2^32 bytes (SHA_MAXOBJ)",
                 "insecure_memzero_ptr == insecure_memzero_func (its static initialiser; no library code assigns it)",
                 "compression function uninterpreted (trace contracts); L-sub links it to FIPS 180-4 6.2.2"]
}
*/
/*
 * One-shot interface == streaming interface == FIPS 180-4 (DESIGN 3.1 item 4): SHA256_Buf is
 * Init; Update; Final on a local context, every callee replaced by its enforced contract.  Proved: starting
 * from H(0) the message is compressed in exactly (padded length)/64 chained blocks, block kk byte j is byte
 * 64 kk + j of (message || FIPS padding for 8 len bits), and the digest is the big-endian final chaining
 * value -- for an arbitrary (kk, j, i), i.e. the definition of SHA-256 with the compression function abstract.
 */
#include <stdlib.h>
#include "verif.h"
#include "sha256_ghost.h"
#include "util/insecure_memzero.c"
#include "alg/sha256.c"

void
h_sha256_buf(void)
{
	IN(size_t, len);
	__CPROVER_assume(len <= SHA_MAXOBJ);
	IN_BYTES(in, len, SHA_MAXOBJ);
	uint8_t * digest = malloc(32);
	__CPROVER_assume(digest != NULL);

	/* DFCC havocs every non-const global; the wiping pointer keeps its static initialiser (nothing in the library assigns it) */
	insecure_memzero_ptr = insecure_memzero_func;
	G256_HAVOC();
	for (int i = 0; i < 8; i++)
		g256_H[i] = spec_sha256_IV[i];
	size_t k0 = g256_k;

	SHA256_Buf(in, len, digest);

	/* plain-C restatements at fixed points */
	__CPROVER_assert(!(len == 0 && g256_kk == k0 && g256_j == 0) || g256_rec == 0x80, "empty message: first byte of the only block is 0x80");
	__CPROVER_assert(!(len == 3 && g256_kk == k0 && g256_j == 63) || g256_rec == 24, "3-byte message: last byte of the block is the bit length 24");
	__CPROVER_assert(len != 55 || g256_k == k0 + 1, "55 bytes: one block");
	__CPROVER_assert(len != 56 || g256_k == k0 + 2, "56 bytes: two blocks");
	VCOVER(len == 0);
	VCOVER(len == 55 && g256_kk == k0 && g256_j == 54);
	VCOVER(len == 119 && g256_k == k0 + 2);
	VCOVER(len == 120 && g256_kk == k0 + 2 && g256_j == 63 && g256_i == 31);
}
