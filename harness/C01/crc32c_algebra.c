/* VERIF-GROUP
{
 "property": ["C01"],
 "entry": "h_crc32c_algebra",
 "enforce": [],
 "replace": [],
 "loop_contracts": false,
 "backend": "kissat",
 "timeout": 300,
 "assumptions": ["induction over the bytes of the message (fold of the per-byte lemma A2) is on paper (L-ind)"]
}
*/
/*
 * The algebraic meaning of the CRC32C value (DESIGN 3.1 item 7e), loop-free lemmas over the full domains,
 * about the specification functions only (spec/crc32c_spec.h).  Let R = (bit string so far) mod p(x) by textbook
 * long division (bits least-significant first per byte) and state_of(R) = reverse32(R x^32 mod p):
 *  A1  the string "1" has R = 1 and state_of(1) = 0x82f63b78 (what CRC32C_Init stores);
 *  A2  for every R and byte b: one step of the reflected register recurrence from state_of(R) (the reference
 *      the implementation is proved against in crc32c_update) equals state_of(R') with R' = R after appending b;
 *  A3  for every R: appending the four bytes CRC32C_Final emits for state_of(R) to the string gives remainder 0,
 *      i.e. 1 || data || crc is a multiple of p(x).
 */
#include "verif.h"
#include "crc32c_spec.h"

void
h_crc32c_algebra(void)
{
	IN(uint32_t, R); IN(uint8_t, b);

	__CPROVER_assert(spec_reverse32(SPEC_CRC32C_POLY) == 0x82F63B78u, "0x82F63B78 is the bit-reversed Castagnoli polynomial");
	__CPROVER_assert(spec_poly_feed_bit(0, 1) == 1 && spec_crc32c_state_of(1) == 0x82f63b78u, "A1");
	__CPROVER_assert(spec_crc32c_byte(spec_crc32c_state_of(R), b) == spec_crc32c_state_of(spec_poly_feed_byte(R, b)), "A2");
	{
		uint32_t s = spec_crc32c_state_of(R);
		uint32_t Q = R;

		Q = spec_poly_feed_byte(Q, (uint8_t)(s & 0xff));
		Q = spec_poly_feed_byte(Q, (uint8_t)((s >> 8) & 0xff));
		Q = spec_poly_feed_byte(Q, (uint8_t)((s >> 16) & 0xff));
		Q = spec_poly_feed_byte(Q, (uint8_t)((s >> 24) & 0xff));
		__CPROVER_assert(Q == 0, "A3: 1 || data || crc is a multiple of the Castagnoli polynomial");
		VCOVER(s == 0xdeadbeef);
	}
	VCOVER(R == 1 && b == 0x80);
}
