/* VERIF-GROUP
{
 "property": ["C01"],
 "entry": "h_crc32c_final",
 "enforce": ["CRC32C_Final"],
 "replace": [],
 "annotate": ["alg/crc32c.c"],
 "defines": ["VERIF_HALLOC"],
 "loop_contracts": false,
 "timeout": 120
}
*/
/* CRC32C_Final: the four output bytes are the register, least significant byte first; the context is not written. */
#include <stdlib.h>
#include "verif.h"
#include "crc32c_ghost.h"
#include "alg/crc32c.c"

void
h_crc32c_final(void)
{
	CRC32C_CTX * ctx = malloc(sizeof(CRC32C_CTX));
	uint8_t * cbuf = malloc(4);
	__CPROVER_assume(ctx != NULL && cbuf != NULL);
	uint32_t s0 = ctx->state;

	CRC32C_Final(cbuf, ctx);

	__CPROVER_assert(ctx->state == s0, "context unchanged");
	VCOVER(cbuf[0] == 0x78 && cbuf[3] == 0x82);
}
