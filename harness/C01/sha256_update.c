/* VERIF-GROUP
{
 "property": ["C01"],
 "entry": "h_sha256_update",
 "enforce": ["SHA256_Update_internal"],
 "replace": ["SHA256_Transform"],
 "annotate": ["alg/sha256.c"],
 "defines": ["VERIF_HALLOC", "SHA_MAXOBJ=0xffffffff", "HASH_MEMCPY_ONLY_BUF"],
 "models": ["models/hash_memcpy.c"],
 "timeout": 600,
 "assumptions": ["input object size < 2^32 bytes (SHA_MAXOBJ; the block loop is closed by its loop contract for every iteration count)",
                 "memcpy = models/hash_memcpy.c (pointwise over-approximation for copies into ctx->buf, observed at the arbitrary ghost index)",
                 "compression function uninterpreted (trace contract T of SHA256_Transform, enforced in sha256_transform_T)"]
}
*/
/*
 * SHA256_Update_internal from an ARBITRARY context state (any count, any buffered bytes, any chaining value):
 * exactly floor((r+len)/64) compressions, chained, each on the right 64-byte window of (buf[0..r) || in);
 * the tail stays buffered; the bit count advances by 8 len (DESIGN 3.1 item 2, G4).  One call from an arbitrary
 * reachable state covers every partition of a message into calls (L-md).
 */
#include <stdlib.h>
#include "verif.h"
#include "sha256_ghost.h"
#include "alg/sha256.c"

void
h_sha256_update(void)
{
	SHA256_CTX * ctx = malloc(sizeof(SHA256_CTX));
	uint32_t * tmp32 = malloc(288);
	IN(size_t, len);
	__CPROVER_assume(len <= SHA_MAXOBJ);
	IN_BYTES(in, len, SHA_MAXOBJ);
	__CPROVER_assume(ctx != NULL && tmp32 != NULL);
	__CPROVER_assume(ctx->count <= UINT64_MAX - ((uint64_t)len << 3));

	G256_HAVOC();
	for (int i = 0; i < 8; i++)
		g256_H[i] = ctx->state[i];
	size_t r = (ctx->count >> 3) & 0x3f;
	size_t k0 = g256_k;
	g_mc_buf = ctx->buf;

	SHA256_Update_internal(ctx, in, len, tmp32);

	VCOVER(len == 0 || (r == 10 && len == 53) || (r == 10 && len == 54 && g256_kk == k0 && g256_j == 63));	/* nothing / no compression / exactly one block */
	VCOVER(r == 63 && len == 130 && g256_kk == k0 + 2 && g256_j == 5);	/* first block + 2 loop iterations + tail */
	VCOVER(r + len >= 128 && ((g256_kk == k0 && g256_j < r) || g256_j < (r + len) % 64));	/* old-buffer byte / tail byte observed */
}
