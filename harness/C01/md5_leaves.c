/* VERIF-GROUP
{
 "property": ["C01"],
 "entry": "h_md5_leaves",
 "enforce": [],
 "replace": [],
 "loop_contracts": false,
 "timeout": 300,
 "assumptions": ["macro leaves FF/GG/HH/II are checked on the unmodified macros of alg/md5.c (real file included); full domain (5x32 bits, every shift 1..31)"]
}
*/
/*
 * Leaf lemmas for MD5 on the REAL macros of alg/md5.c: FF/GG/HH/II(a,b,c,d,x,s) == RFC 1321 3.4
 * "a = b + ((a + F|G|H|I(b,c,d) + X[k] + T[i]) <<< s)" (x = X[k] + T[i]); b, c, d unchanged.  These are the
 * semantics given to the abstract leaf in the lockstep group md5_transform.
 */
#include "verif.h"
#include "md5_spec.h"
#include "alg/md5.c"

void
h_md5_leaves(void)
{
	IN(uint32_t, a); IN(uint32_t, b); IN(uint32_t, c); IN(uint32_t, d); IN(uint32_t, x);
	IN(unsigned, s); IN(int, round);
	__CPROVER_assume(round >= 0 && round < 4 && s >= 1 && s <= 31);
	uint32_t a0 = a, b0 = b, c0 = c, d0 = d;
	uint32_t na = spec_md5_step(round, a, b, c, d, x, s);

	switch (round) {
	case 0: FF(a, b, c, d, x, s); break;
	case 1: GG(a, b, c, d, x, s); break;
	case 2: HH(a, b, c, d, x, s); break;
	default: II(a, b, c, d, x, s); break;
	}
	__CPROVER_assert(a == na, "FF/GG/HH/II: a' is the RFC 1321 step value");
	__CPROVER_assert(b == b0 && c == c0 && d == d0, "FF/GG/HH/II: b, c, d unchanged");
	IN(int, p);
	__CPROVER_assume(p >= 0 && p < 64);
	__CPROVER_assert(PAD[p] == (p == 0 ? 0x80 : 0), "PAD initialiser");
	VCOVER(round == 0 && a != a0 && s == 7);
	VCOVER(round == 3 && s == 21);
}
