/* VERIF-GROUP
{
 "property": ["C01"],
 "entry": "h_md5_transform_T",
 "enforce": ["MD5_Transform"],
 "replace": [],
 "annotate": ["alg/md5.c", "util/insecure_memzero.c"],
 "defines": ["VERIF_HALLOC"],
 "loop_contracts": false,
 "timeout": 300,
 "assumptions": ["ghost epilogue inserted at the end of MD5_Transform (ghost state only) interprets the abstract chain by the computed state",
                 "insecure_memzero_ptr and PAD hold their static initialisers (no library code assigns them; DFCC havocs non-const globals)"]
}
*/
/*
 * The trace contract of MD5_Transform (by which it is replaced when its callers are verified) enforced on the
 * real, unmodified function: frame (only state[0..4) and the trace ghosts), memory safety, one chain step,
 * observed block byte recorded.  Functional correctness of the step: md5_leaves + md5_transform.
 */
#include <stdlib.h>
#include "verif.h"
size_t g_mz_idx;
#include "util/insecure_memzero.c"
#include "alg/md5.c"
#include "md5_ghost.h"

void
h_md5_transform_T(void)
{
	MD5_CTX * ctx = malloc(sizeof(MD5_CTX));
	IN_BYTES(ext, 64, 64);
	IN(int, inctx);
	__CPROVER_assume(ctx != NULL);
	const uint8_t * block = inctx ? ctx->buf : ext;

	MD5_STATICS_INIT();
	G5_HAVOC();
	for (int i = 0; i < 4; i++)
		g5_H[i] = ctx->state[i];
	size_t k0 = g5_k;
	uint8_t b0 = block[g5_j];
	uint32_t c0 = ctx->count[0], c1 = ctx->count[1];

	MD5_Transform(ctx->state, block);

	__CPROVER_assert(ctx->count[0] == c0 && ctx->count[1] == c1 && block[g5_j] == b0, "count and block untouched");
	VCOVER(k0 == g5_kk && g5_rec == b0 && inctx);
	VCOVER(k0 != g5_kk && !inctx);
}
