/* VERIF-GROUP
{
 "property": ["C01"],
 "entry": "h_sha1_transform_T",
 "enforce": ["SHA1_Transform"],
 "replace": [],
 "annotate": ["alg/sha1.c", "util/insecure_memzero.c"],
 "defines": ["VERIF_HALLOC"],
 "loop_contracts": false,
 "timeout": 300,
 "assumptions": ["ghost epilogue inserted at the end of SHA1_Transform (ghost state only) interprets the abstract chain by the computed state",
                 "insecure_memzero_ptr and PAD hold their static initialisers (no library code assigns them; DFCC havocs non-const globals)"]
}
*/
/*
 * The trace contract of SHA1_Transform (by which it is replaced when its callers are verified) enforced on the
 * real, unmodified function: frame (only state[0..5) and the trace ghosts), memory safety, one chain step,
 * observed block byte recorded.  Functional correctness of the step: sha1_leaves + sha1_transform.
 */
#include <stdlib.h>
#include "verif.h"
size_t g_mz_idx;
#include "util/insecure_memzero.c"
#include "alg/sha1.c"
#include "sha1_ghost.h"

void
h_sha1_transform_T(void)
{
	SHA1_CTX * ctx = malloc(sizeof(SHA1_CTX));
	IN_BYTES(ext, 64, 64);
	IN(int, inctx);
	__CPROVER_assume(ctx != NULL);
	const uint8_t * block = inctx ? ctx->buf : ext;

	SHA1_STATICS_INIT();
	G1_HAVOC();
	for (int i = 0; i < 5; i++)
		g1_H[i] = ctx->state[i];
	size_t k0 = g1_k;
	uint8_t b0 = block[g1_j];
	uint32_t c0 = ctx->count[0], c1 = ctx->count[1];

	SHA1_Transform(ctx->state, block);

	__CPROVER_assert(ctx->count[0] == c0 && ctx->count[1] == c1 && block[g1_j] == b0, "count and block untouched");
	VCOVER(k0 == g1_kk && g1_rec == b0 && inctx);
	VCOVER(k0 != g1_kk && !inctx);
}
