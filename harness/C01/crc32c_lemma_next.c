/* VERIF-GROUP
{
 "property": ["C01"],
 "entry": "h_crc32c_lemma_next",
 "enforce": ["crc_lemma_next"],
 "replace": [],
 "annotate": ["alg/crc32c.c"],
 "defines": ["VERIF_HALLOC"],
 "loop_contracts": false,
 "cbmc": ["--object-bits", "12"],
 "timeout": 300,
 "assumptions": ["tables = what the real init() computes (run concretely in the harness; its own contract: crc32c_init)"]
}
*/
/* T(k+1)[i] is one zero-byte register step of Tk[i], k = 0, 1, 2, for every index i. */
#include <stdlib.h>
#include "verif.h"
#include "crc32c_ghost.h"
#include "alg/crc32c.c"

void
h_crc32c_lemma_next(void)
{
	IN(uint8_t, i);
	init();
	g_crc_tables_ok = 1;
	crc_lemma_next(i);
	VCOVER(i == 0xff);
}
