/* VERIF-GROUP
{
 "property": ["C01", "C20"],
 "entry": "h_pbkdf2",
 "enforce": ["PBKDF2_SHA256"],
 "replace": ["HMAC_SHA256_Init_internal", "HMAC_SHA256_Update_internal", "HMAC_SHA256_Final_internal"],
 "annotate": ["alg/sha256.c", "util/insecure_memzero.c"],
 "defines": ["VERIF_HALLOC", "VERIF_HASH_ABS", "VERIF_HMAC_ABS", "SHA_MAXOBJ=100", "PB_MAXOBJ=100"],
 "expect_loops": ["PBKDF2_SHA256"],
 "cbmc": ["--object-bits", "12"],
 "timeout": 900,
 "assumptions": ["HMAC layer abstracted at the call level (VERIF_HMAC_ABS contracts of HMAC_SHA256_Init/Update/Final_internal; PRF outputs uninterpreted); lemma L-md links them to the enforced HMAC contracts",
                 "password, salt and output objects <= 100 bytes (symbolic object bound only: the block loop, the iteration loop and the XOR loop are closed by loop contracts for every c < 2^64 - 1 and every dkLen)",
                 "insecure_memzero_ptr == insecure_memzero_func (its static initialiser; no library code assigns it)"]
}
*/
/*
 * PBKDF2_SHA256 == RFC 8018 5.2 with HMAC-SHA256 as an abstract PRF (DESIGN 3.1 item 6), unbounded in the iteration
 * count c and in dkLen (three loop contracts): for the arbitrary observed PRF call (block i, iteration j) the HMAC
 * object is keyed with the password; its message is S || INT(i+1) (big-endian) for j = 1 and the previous PRF output
 * of the same block for j > 1; every output byte 32 i + k < dkLen is the XOR of the k-th bytes of U_1 .. U_c of
 * block i (ghost accumulator) -- in particular the last, partial block.
 */
#include <stdlib.h>
#include "verif.h"
#include "sha256_ghost.h"
#include "sha256_abs_ghost.h"
#include "pbkdf2_ghost.h"
size_t g_mz_idx;
#include "util/insecure_memzero.c"
#include "alg/sha256.c"

void
h_pbkdf2(void)
{
	IN(size_t, passwdlen); IN(size_t, saltlen); IN(size_t, dkLen); IN(uint64_t, c);
	__CPROVER_assume(passwdlen <= SHA_MAXOBJ && saltlen <= SHA_MAXOBJ && dkLen <= PB_MAXOBJ && c < UINT64_MAX);
	IN_BYTES(passwd, passwdlen, SHA_MAXOBJ);
	IN_BYTES(salt, saltlen, SHA_MAXOBJ);
	IN_BYTES(buf, dkLen, PB_MAXOBJ);
	IN(uint64_t, oi); IN(uint64_t, oj); IN(uint64_t, p); IN(size_t, di);
	__CPROVER_assume(di < 32 && oj >= 1);

	insecure_memzero_ptr = insecure_memzero_func;
	gp_oi = oi; gp_oj = oj; gp_p = p; gp_di = di;
	{ IN(size_t, zz); __CPROVER_assume(zz < sizeof(HMAC_SHA256_CTX)); g256_zz = zz; }
	{ IN(size_t, mz); g_mz_idx = mz; }

	PBKDF2_SHA256(passwd, passwdlen, salt, saltlen, c, buf, dkLen);

	/* plain-C restatement: block index encoding of the second block */
	__CPROVER_assert(!(dkLen > 32 && oi == 1 && oj == 1 && p == (uint64_t)saltlen + 3) || gp_call_mbyte == 2, "INT(2) ends with the byte 2");
	VCOVER(dkLen == 0 && g_mz_idx == 207);
	VCOVER(dkLen == 70 && oi == 2 && oj == 1 && c == 1 && di == 5 && buf[69] == gp_acc);
	VCOVER(dkLen == 33 && oi == 1 && oj == 3 && c == 1000000 && p == di);
	VCOVER(dkLen == 32 && c == 0 && oi == 0 && oj == 1 && saltlen == 0 && p == 3 && gp_call_mbyte == 1);
}
