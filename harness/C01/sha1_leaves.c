/* VERIF-GROUP
{
 "property": ["C01"],
 "entry": "h_sha1_leaves",
 "enforce": [],
 "replace": [],
 "loop_contracts": false,
 "timeout": 300,
 "assumptions": ["macro leaves RND0..RND3 are checked on the unmodified macros of alg/sha1.c (real file included); full 6x32-bit domain"]
}
*/
/*
 * Leaf lemmas for SHA-1 on the REAL macros of alg/sha1.c:  RNDk(a,b,c,d,e,w) == FIPS 180-4 6.1.2 step 3 with
 * f_t / K_t of the k-th group of 20 rounds: e' = T = ROTL5(a) + f_t(b,c,d) + e + K_t + W_t, b' = ROTL30(b),
 * a, c, d unchanged.  These are the semantics given to the abstract leaf in the lockstep group sha1_transform.
 */
#include "verif.h"
#include "sha1_spec.h"
#include "alg/sha1.c"

void
h_sha1_leaves(void)
{
	IN(uint32_t, a); IN(uint32_t, b); IN(uint32_t, c); IN(uint32_t, d); IN(uint32_t, e); IN(uint32_t, w);
	IN(int, kind);
	__CPROVER_assume(kind >= 0 && kind < 4);
	uint32_t a0 = a, b0 = b, c0 = c, d0 = d, e0 = e;
	uint32_t T, b30;

	spec_sha1_step(kind * 20 + 7, a, b, c, d, e, w, &T, &b30);	/* any t inside the group */
	switch (kind) {
	case 0: RND0(a, b, c, d, e, w); break;
	case 1: RND1(a, b, c, d, e, w); break;
	case 2: RND2(a, b, c, d, e, w); break;
	default: RND3(a, b, c, d, e, w); break;
	}
	__CPROVER_assert(e == T, "RNDk: e' is the FIPS temporary T");
	__CPROVER_assert(b == b30, "RNDk: b' is ROTL30(b)");
	__CPROVER_assert(a == a0 && c == c0 && d == d0, "RNDk: a, c, d unchanged");
	/* f_t and K_t do not depend on t inside a group of 20 */
	IN(int, t);
	__CPROVER_assume(t >= 0 && t < 80);
	__CPROVER_assert(spec_sha1_K(t) == spec_sha1_K((t / 20) * 20 + 7) &&
	    spec_sha1_f(t, b0, c0, d0) == spec_sha1_f((t / 20) * 20 + 7, b0, c0, d0), "f_t, K_t constant per group of 20");
	IN(int, p);
	__CPROVER_assume(p >= 0 && p < 64);
	__CPROVER_assert(PAD[p] == (p == 0 ? 0x80 : 0), "PAD initialiser");
	VCOVER(kind == 0 && e != e0);
	VCOVER(kind == 3 && b != b0 && t == 79);
}
