/*
 * ghost state of the call-level abstraction of a hash layer (VERIF_HASH_ABS contracts in contracts/alg__sha256.c.spec,
 * alg__sha1.c.spec, alg__md5.c.spec).  Before including: #define GA_HMAC_CTX_T / GA_CTX_T / GA_DLEN.
 */
#ifndef HASH_ABS_GHOST_H_
#define HASH_ABS_GHOST_H_
const void * ga_ctx0, * ga_ctx1;
size_t ga_epoch0, ga_epoch1;
uint64_t ga_len0, ga_len1;
size_t ga_os, ga_oe;
uint64_t ga_p;
uint8_t ga_byte;
size_t ga_nfin, ga_of, ga_fin_slot, ga_fin_epoch, ga_di;
uint64_t ga_fin_len;
uint8_t ga_dig_rec;
size_t g256_zz;		/* observed byte of the HMAC context (C20) */
size_t ga_cz;		/* observed byte of a hash context wiped by *_Final (C20) */
/* everything arbitrary (DFCC havocs globals anyway); only the ranges that the contracts require */
#define GA_HAVOC() do { \
	IN(size_t, a_e0); IN(size_t, a_e1); IN(uint64_t, a_l0); IN(uint64_t, a_l1); IN(size_t, a_os); IN(size_t, a_oe); \
	IN(uint64_t, a_p); IN(uint8_t, a_b); IN(size_t, a_nf); IN(size_t, a_of); IN(size_t, a_fs); IN(size_t, a_fe); \
	IN(size_t, a_di); IN(uint64_t, a_fl); IN(uint8_t, a_dr); IN(size_t, a_zz); \
	__CPROVER_assume(a_e0 < 1000 && a_e1 < 1000 && a_nf < 1000 && a_os < 2 && a_di < GA_DLEN); \
	__CPROVER_assume(a_zz < sizeof(GA_HMAC_CTX_T)); \
	ga_epoch0 = a_e0; ga_epoch1 = a_e1; ga_len0 = a_l0; ga_len1 = a_l1; ga_os = a_os; ga_oe = a_oe; ga_p = a_p; \
	ga_byte = a_b; ga_nfin = a_nf; ga_of = a_of; ga_fin_slot = a_fs; ga_fin_epoch = a_fe; ga_di = a_di; \
	ga_fin_len = a_fl; ga_dig_rec = a_dr; g256_zz = a_zz; ga_cz = a_zz % sizeof(GA_CTX_T); \
} while (0)
#endif
