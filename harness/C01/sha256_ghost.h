/* ghost state of the SHA-256 trace contracts (declared extern in contracts/alg__sha256.c.spec) */
#ifndef SHA256_GHOST_H_
#define SHA256_GHOST_H_
#include <stdint.h>
#include <stddef.h>
uint32_t g256_H[8];
size_t g256_k, g256_kk, g256_j, g256_i, g256_z;
uint8_t g256_rec;
/* models/hash_memcpy.c: registered block buffer and observed index */
extern uint8_t * g_mc_buf;
extern size_t g_mc_obs;
/* arbitrary ghost choices + arbitrary trace prefix */
#define G256_HAVOC() do { g_mc_buf = NULL; \
 \
	IN(size_t, gk); IN(size_t, gkk); IN(size_t, gj); IN(size_t, gi); IN(size_t, gz); IN(uint8_t, grec); \
	__CPROVER_assume(gk < ((size_t)1 << 60)); \
	g256_k = gk; g256_kk = gkk; g256_j = gj; g256_i = gi; g256_z = gz; g256_rec = grec; \
	__CPROVER_assume(g256_j < 64 && g256_i < 32 && g256_z < sizeof(SHA256_CTX)); \
	g_mc_obs = g256_j; \
} while (0)
#endif
