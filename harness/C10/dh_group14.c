/* VERIF-GROUP
{
 "property": ["C10"],
 "entry": "h_group14",
 "enforce": [],
 "replace": [],
 "annotate": [],
 "loop_contracts": false,
 "timeout": 120,
 "assumptions": ["spec/rfc3526_group14.h is the text of RFC 3526 section 3 (cross-checked at set-up against the RFC's closed formula and OpenSSL's BN_get_rfc3526_prime_2048)",
                 "pure evaluation: no inputs, the 256 + 514 iterations are compile-time constants"]
}
*/
#include "verif.h"
#include "rfc3526_group14.h"
#include "crypto/crypto_dh_group14.c"

void
h_group14(void)
{
	spec_big_t p = spec_group14_value();
	size_t i, ndigits = 0;

	/* the text has exactly 512 hex digits */
	for (i = 0; i < sizeof(rfc3526_group14_hex) - 1; i++)
		if (spec_hexdigit(rfc3526_group14_hex[i]) >= 0)
			ndigits++;
	__CPROVER_assert(ndigits == 512, "RFC 3526 text has 2048 bits");
	/* every byte of the constant equals the corresponding byte of the RFC's number */
	for (i = 0; i < 256; i++)
		__CPROVER_assert(crypto_dh_group14[i] == (uint8_t)((p >> (8 * (255 - i))) & 0xff), "C10: crypto_dh_group14 equals the RFC 3526 group-14 prime");
	__CPROVER_assert(spec_be_val(crypto_dh_group14, 256) == p, "C10: value of crypto_dh_group14 equals the RFC 3526 prime");
	VCOVER(crypto_dh_group14[255] == 0xff && crypto_dh_group14[8] == 0xc9);
}
