/* VERIF-GROUP
{
 "property": ["C10"],
 "entry": "h_sanity",
 "enforce": ["crypto_dh_sanitycheck"],
 "replace": [],
 "annotate": ["crypto/crypto_dh.c"],
 "defines": ["VERIF_HALLOC"],
 "models": ["models/bn_model.c", "models/bn_entropy.c", "models/bn_memcmp.c"],
 "loop_contracts": false,
 "timeout": 600,
 "assumptions": ["memcmp = models/bn_memcmp.c (C11 7.24.4.1: sign of the difference of the first differing bytes as unsigned char); 256 iterations, compile-time constant: complete"]
}
*/
#include "dh.h"

void
h_sanity(void)
{
	IN_BYTES(pub, CRYPTO_DH_PUBLEN, CRYPTO_DH_PUBLEN);
	bn_val_t y = spec_be_val(pub, 256);
	bn_val_t p = spec_group14_value();
	int rc;

	rc = crypto_dh_sanitycheck(pub);

	__CPROVER_assert((rc == 0) == (y < p), "C10: sanity check accepts exactly the values numerically below p");
	VCOVER(rc == 0 && y == p - 1);
	VCOVER(rc == -1 && y == p);
	VCOVER(rc == -1 && y == p + 1);
	VCOVER(rc == 0 && y == 0);
	VCOVER(rc == 0 && y == 1);
	VCOVER(rc == -1 && pub[0] == 0xff && pub[8] == 0xca);
	free(pub);
}
