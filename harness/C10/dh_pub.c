/* VERIF-GROUP
{
 "property": ["C10", "C20"],
 "entry": "h_pub",
 "enforce": ["crypto_dh_generate_pub"],
 "replace": ["blinded_modexp"],
 "annotate": ["crypto/crypto_dh.c"],
 "defines": ["VERIF_HALLOC"],
 "models": ["models/bn_model.c", "models/bn_entropy.c"],
 "loop_contracts": false,
 "timeout": 300,
 "assumptions": ["blinded_modexp replaced by its contract (enforced in C10/dh_modexp)",
                 "OpenSSL BN = models/bn_model.c; exponent law on paper"]
}
*/
#include "dh.h"

void
h_pub(void)
{
	DH_PRE();
	IN_BYTES(priv, CRYPTO_DH_PRIVLEN, CRYPTO_DH_PRIVLEN);
	uint8_t * pub = malloc(CRYPTO_DH_PUBLEN);
	__CPROVER_assume(pub != NULL);
	g_bn.secret_priv = priv;
	int rc;

	rc = crypto_dh_generate_pub(pub, priv);

	if (rc == 0)
		__CPROVER_assert(DH_LOG(0).a == 2 && DH_LOG(1).a == 2, "C10: the public value is a power of 2");
	VCOVER(rc == 0 && g_oi == 255);
	VCOVER(rc == -1 && g_bn.ncalls == ncalls0 && g_bn.rand_fail == rfail0);
	VCOVER(rc == -1 && g_bn.rand_fail == rfail0 + 1);
	free(priv); free(pub);
}
