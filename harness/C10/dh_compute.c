/* VERIF-GROUP
{
 "property": ["C10", "C20"],
 "entry": "h_compute",
 "enforce": ["crypto_dh_compute"],
 "replace": ["blinded_modexp"],
 "annotate": ["crypto/crypto_dh.c"],
 "defines": ["VERIF_HALLOC"],
 "models": ["models/bn_model.c", "models/bn_entropy.c"],
 "loop_contracts": false,
 "timeout": 300,
 "assumptions": ["blinded_modexp replaced by its contract (enforced in C10/dh_modexp)",
                 "OpenSSL BN = models/bn_model.c; exponent law on paper"]
}
*/
#include "dh.h"

void
h_compute(void)
{
	DH_PRE();
	IN_BYTES(priv, CRYPTO_DH_PRIVLEN, CRYPTO_DH_PRIVLEN);
	IN_BYTES(pub, CRYPTO_DH_PUBLEN, CRYPTO_DH_PUBLEN);
	uint8_t * key = malloc(CRYPTO_DH_KEYLEN);
	__CPROVER_assume(key != NULL);
	g_bn.secret_priv = priv;
	bn_val_t y = spec_be_val(pub, 256);
	int rc;

	rc = crypto_dh_compute(pub, priv, key);

	if (rc == 0)
		__CPROVER_assert(DH_LOG(0).a == y && DH_LOG(1).a == y, "C10: the shared key is a power of the peer value");
	VCOVER(rc == 0 && y == 0);
	VCOVER(rc == 0 && y == spec_group14_value() + 1 && g_oi == 0);
	VCOVER(rc == -1 && g_bn.ncalls == ncalls0 && g_bn.nfail == nfail0 + 1);
	free(priv); free(pub); free(key);
}
