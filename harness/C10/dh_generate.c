/* VERIF-GROUP
{
 "property": ["C10", "C20"],
 "entry": "h_dhgen",
 "enforce": ["crypto_dh_generate"],
 "replace": ["crypto_dh_generate_pub"],
 "annotate": ["crypto/crypto_dh.c"],
 "defines": ["VERIF_HALLOC"],
 "models": ["models/bn_model.c", "models/bn_entropy.c"],
 "loop_contracts": false,
 "timeout": 300,
 "assumptions": ["crypto_dh_generate_pub replaced by its contract (enforced in C10/dh_pub)",
                 "crypto_entropy_read = models/bn_entropy.c: any 32 bytes or failure"]
}
*/
#include "dh.h"

void
h_dhgen(void)
{
	DH_PRE();
	uint8_t * priv = malloc(CRYPTO_DH_PRIVLEN);
	uint8_t * pub = malloc(CRYPTO_DH_PUBLEN);
	__CPROVER_assume(pub != NULL && priv != NULL);
	g_bn.secret_priv = priv;
	size_t rcalls0 = g_bn.rand_calls;
	int rc;

	rc = crypto_dh_generate(pub, priv);

	VCOVER(rc == 0 && priv[0] == 0 && priv[31] == 0xff);
	VCOVER(rc == -1 && g_bn.rand_calls == rcalls0 + 1);
	VCOVER(rc == -1 && g_bn.rand_calls == rcalls0 + 2 && g_bn.nfail == nfail0);
	free(priv); free(pub);
}
