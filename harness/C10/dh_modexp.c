/* VERIF-GROUP
{
 "property": ["C10", "C20"],
 "entry": "h_modexp",
 "enforce": ["blinded_modexp"],
 "replace": [],
 "annotate": ["crypto/crypto_dh.c"],
 "defines": ["VERIF_HALLOC"],
 "models": ["models/bn_model.c", "models/bn_entropy.c", "models/bn_memset.c"],
 "loop_contracts": false,
 "matrix": {"DH_FAIL_AT": [-1, 0, 1, 2, 3, 4, 5, 6, 7, 8, 9, 10, 11, 12, 13, 14, 15, 16, 17]},
 "timeout": 300,
 "assumptions": ["OpenSSL BN = models/bn_model.c: exact ghost values for bin2bn/bn2bin/add/sub/num_bits/set_word; BN_mod_exp and BN_mod_mul abstract (logged, fresh result below the modulus); any constructor/operation may fail; BN_clear_free wipes (OpenSSL's own zeroing assumed)",
                 "exponent law a^x * a^y = a^(x+y) (mod m) is used on paper to read the trace as a^(2^258+priv) mod p",
                 "crypto_entropy_read = models/bn_entropy.c: any 32 bytes or failure (what C11's contract gives a caller)",
                 "memset = models/bn_memset.c (C11 7.24.6.1, constant-bound loop)",
                 "complete case split over the position of the first failing BN/entropy call (matrix DH_FAIL_AT = -1: none fails, k: call k is the first to fail; the -1 instance proves that at most 18 fallible calls are made); no loops in crypto_dh.c; model loops have compile-time-constant bounds (complete unwinding, not a bounded stand-in)"]
}
*/
#include "dh.h"

void
h_modexp(void)
{
	DH_PRE();
	IN_BYTES(priv, CRYPTO_DH_PRIVLEN, CRYPTO_DH_PRIVLEN);
	uint8_t * r = malloc(CRYPTO_DH_PUBLEN);
	__CPROVER_assume(r != NULL);
	/* the base: the one BIGNUM the caller holds (slot 0), any value below 2^2048, public */
	IN(bn_val_t, aval);
	__CPROVER_assume(aval < ((bn_val_t)1 << 2048));
	BIGNUM * a = &g_bn.obj[0];
	g_bn.nalloc = 1; g_bn.obj[0].id = 0; g_bn.alive[0] = 1; g_bn.neg[0] = 0; g_bn.tainted[0] = 0; g_bn.v[0] = aval;
	g_bn.secret_priv = priv;
	bn_val_t pv = spec_be_val(priv, 32);
	int rc;

	rc = blinded_modexp(r, a, priv);

#if DH_FAIL_AT == BN_FAIL_NONE
	/* nothing failed: success, and the case split over the first failure position (0 .. 17) is exhaustive */
	__CPROVER_assert(rc == 0, "C10: blinded_modexp succeeds when no BN / entropy call fails");
	__CPROVER_assert(g_bn.opcount <= 18, "case split complete: at most 18 fallible calls");
	/* the property, restated: the exponents are non-negative (asserted inside the model's BN_mod_exp), they add
	   up to 2^258 + priv whatever the blinding, the modulus is the RFC prime, the base is a */
	__CPROVER_assert(DH_LOG(0).b + DH_LOG(1).b == pv + ((bn_val_t)1 << 258), "C10: e1 + e2 == 2^258 + priv for every blinding value");
	__CPROVER_assert(DH_LOG(0).m == spec_group14_value() && DH_LOG(1).m == DH_LOG(0).m && DH_LOG(2).m == DH_LOG(0).m, "C10: modulus is the RFC 3526 group-14 prime");
	__CPROVER_assert(DH_LOG(0).a == aval && DH_LOG(1).a == aval, "C10: both exponentiations use the given base");
	/* few markers: each costs a SAT iteration over 2112-bit values */
	VCOVER(pv == (((bn_val_t)1 << 256) - 1) && g_bn.rand_val == (((bn_val_t)1 << 256) - 1));
	VCOVER(DH_LOG(2).out < ((bn_val_t)1 << 2040) && g_oi == 0);
#else
	__CPROVER_assert(rc == -1, "C10: a failing BN / entropy call makes blinded_modexp fail");
	VCOVER(rc == -1 && g_bn.opcount == DH_FAIL_AT + 1);
#endif
	__CPROVER_assert(g_bn.dirty_free == dirty0, "C20: no BN_free() of a bignum derived from the private or blinding value");
	__CPROVER_assert(g_bn.live == live0, "C20/C14: every BIGNUM and BN_CTX created is released on this exit");
	free(priv); free(r);
}
