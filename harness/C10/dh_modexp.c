/* VERIF-GROUP
{
 "property": ["C10", "C20"],
 "entry": "h_modexp",
 "enforce": ["blinded_modexp"],
 "replace": [],
 "annotate": ["crypto/crypto_dh.c"],
 "defines": ["VERIF_HALLOC"],
 "models": ["models/bn_model.c", "models/bn_entropy.c"],
 "loop_contracts": false,
 "timeout": 600,
 "assumptions": ["OpenSSL BN = models/bn_model.c: exact ghost values for bin2bn/bn2bin/add/sub/num_bits/set_word; BN_mod_exp and BN_mod_mul abstract (logged, fresh result below the modulus); any constructor/operation may fail; BN_clear_free wipes (OpenSSL's own zeroing assumed)",
                 "exponent law a^x * a^y = a^(x+y) (mod m) is used on paper to read the trace as a^(2^258+priv) mod p",
                 "crypto_entropy_read = models/bn_entropy.c: any 32 bytes or failure (what C11's contract gives a caller)",
                 "no loops in crypto_dh.c; model loops have compile-time-constant bounds (complete unwinding, not a bounded stand-in)"]
}
*/
#include "dh.h"

void
h_modexp(void)
{
	DH_PRE();
	IN_BYTES(priv, CRYPTO_DH_PRIVLEN, CRYPTO_DH_PRIVLEN);
	uint8_t * r = malloc(CRYPTO_DH_PUBLEN);
	BIGNUM * a = malloc(sizeof(BIGNUM));
	__CPROVER_assume(r != NULL && a != NULL);
	IN(bn_val_t, aval);
	__CPROVER_assume(aval < ((bn_val_t)1 << 2048));
	a->v = aval; a->neg = 0; a->tainted = 0;
	g_bn_secret_priv = priv;
	bn_val_t pv = spec_be_val(priv, 32);
	int rc;

	rc = blinded_modexp(r, a, priv);

	if (rc == 0) {
		/* the property, restated: the two exponents are non-negative by construction of the model's assertion,
		   they add up to 2^258 + priv whatever the blinding, modulus is the RFC prime, base is a */
		__CPROVER_assert(DH_LOG(0).b + DH_LOG(1).b == pv + ((bn_val_t)1 << 258), "C10: e1 + e2 == 2^258 + priv for every blinding value");
		__CPROVER_assert(DH_LOG(0).m == spec_group14_value() && DH_LOG(1).m == DH_LOG(0).m && DH_LOG(2).m == DH_LOG(0).m, "C10: modulus is the RFC 3526 group-14 prime");
		__CPROVER_assert(DH_LOG(0).a == aval && DH_LOG(1).a == aval, "C10: both exponentiations use the given base");
		VCOVER(pv == 0 && g_dh_rand_val == 0);
		VCOVER(pv == (((bn_val_t)1 << 256) - 1) && g_dh_rand_val == (((bn_val_t)1 << 256) - 1));
		VCOVER(DH_LOG(2).out < ((bn_val_t)1 << 2000) && g_oi == 3 && r[3] == 0 && r[255] == 7);
		VCOVER(DH_LOG(2).out == 0);
		VCOVER(aval == 0);
	}
	__CPROVER_assert(g_bn.dirty_free == dirty0, "C20: no BN_free() of a bignum derived from the private or blinding value");
	VCOVER(rc == -1 && g_dh_rand_fail == rfail0 + 1);
	VCOVER(rc == -1 && g_bn.ncalls == ncalls0 + 2);
	VCOVER(rc == -1 && g_bn.ncalls == ncalls0 && g_bn.nfail == nfail0 + 1 && g_dh_rand_calls != 0);
	free(priv); free(r); free(a);
}
