/* shared by the C10 / C20-DH harnesses: the real crypto_dh.c and crypto_dh_group14.c over the BN model */
#include <stdlib.h>
#include "verif.h"
#include "bn_model.h"
size_t g_oi;
#ifndef DH_FAIL_AT
#define DH_FAIL_AT BN_FAIL_ANY	/* any subset of the fallible calls may fail */
#endif
#include "crypto/crypto_dh_group14.c"
#include "crypto/crypto_dh.c"

/* arbitrary model state with room for one blinded exponentiation in the log; arbitrary ghost output index */
#define DH_PRE() \
	__CPROVER_havoc_object(&g_bn); \
	const size_t ncalls0 = 0; g_bn.ncalls = 0;	/* empty log */ \
	IN(size_t, live0); __CPROVER_assume(live0 < 1000); g_bn.live = live0; \
	IN(size_t, oi); g_oi = oi; g_bn.secret_rand = NULL; g_bn.nalloc = 0; g_bn.ctx_alive = 0; g_bn.fail_at = DH_FAIL_AT; g_bn.opcount = 0; g_bn.nb_valid = 0; \
	size_t nfail0 = g_bn.nfail, rfail0 = g_bn.rand_fail, dirty0 = g_bn.dirty_free

#define DH_LOG(k) (g_bn.log[ncalls0 + (k)])
