/* VERIF-GROUP
{
 "property": ["C17", "C15"],
 "entry": "h_hexify",
 "enforce": ["hexify"],
 "replace": [],
 "annotate": ["util/hexify.c"],
 "defines": ["VERIF_HALLOC"],
 "thorough_defines": ["HEX_MAX=48"],
 "instrument_flags": ["--nondet-static-exclude", "hexchars"],
 "native": true,
 "timeout": 300,
 "assumptions": ["input object size <= HEX_MAX bytes (16 quick / 48 thorough); the loop argument is inductive, HEX_MAX bounds only the symbolic object",
                 "static table hexchars keeps its initialiser (not const in the source; no function under contract has it in its assigns clause)",
                 "base-16 as transcribed in spec/hex_spec.h (lower-case output)"]
}
*/
#include <stdlib.h>
#include "verif.h"
size_t g_hex_g, g_hex_n, g_hex_w;
#include "util/hexify.c"
#include "hex_spec.h"
#ifndef HEX_MAX
#define HEX_MAX 16
#endif

void
h_hexify(void)
{
	IN(size_t, len);
	__CPROVER_assume(len <= HEX_MAX);
	IN_BYTES(src, len, HEX_MAX);
	IN_BYTES(dst, 2 * len + 1, 2 * HEX_MAX + 1);
	IN(size_t, g);
	g_hex_g = g;

	hexify(src, (char *)dst, len);

	__CPROVER_assert(dst[2 * len] == 0, "hexify: NUL at 2 * len");
	if (g < len) {
		__CPROVER_assert((char)dst[2 * g] == HEX_SPEC_DIGIT(src[g] >> 4), "hexify: high digit of byte g, lower case");
		__CPROVER_assert((char)dst[2 * g + 1] == HEX_SPEC_DIGIT(src[g] & 15), "hexify: low digit of byte g, lower case");
	}
	VCOVER(len == 0);
	VCOVER(len == HEX_MAX && g == len - 1 && src[g] == 0xaf);
	VCOVER(len >= 2 && g == 0 && src[g] == 0x09);
}
