/* VERIF-GROUP
{
 "property": ["C17"],
 "entry": "h_le64dec",
 "enforce": ["libcperciva_le64dec"],
 "replace": [],
 "annotate": ["util/sysendian.h"],
 "defines": ["VERIF_HALLOC"],
 "native": true,
 "timeout": 120,
 "assumptions": ["byte order as stated in the contract text of contracts/util__sysendian.h.spec (big-endian: most significant byte first)"]
}
*/
#include <stdlib.h>
#include "verif.h"
#include "util/sysendian.h"
#define SE_OBJ 24

void
h_le64dec(void)
{
	IN(size_t, off);
	__CPROVER_assume(off <= SE_OBJ - 8);
	IN_BYTES(buf, SE_OBJ, SE_OBJ);	/* the W bytes sit at an arbitrary (odd, even, unaligned) offset of a larger object */
	IN(size_t, gi);
	__CPROVER_assume(gi < SE_OBJ);
	uint64_t v = le64dec(buf + off);
	uint64_t want = 0;
	want |= (uint64_t)buf[off + 0] << 0;
	want |= (uint64_t)buf[off + 1] << 8;
	want |= (uint64_t)buf[off + 2] << 16;
	want |= (uint64_t)buf[off + 3] << 24;
	want |= (uint64_t)buf[off + 4] << 32;
	want |= (uint64_t)buf[off + 5] << 40;
	want |= (uint64_t)buf[off + 6] << 48;
	want |= (uint64_t)buf[off + 7] << 56;
	__CPROVER_assert(v == want, "le64dec: value assembled in the defined byte order");
	/* dec then enc reproduces the bytes */
	uint8_t back[8];
	le64enc(back, v);
	__CPROVER_assert(back[0] == buf[off + 0], "le64dec: enc(dec(p)) byte 0");
	__CPROVER_assert(back[1] == buf[off + 1], "le64dec: enc(dec(p)) byte 1");
	__CPROVER_assert(back[2] == buf[off + 2], "le64dec: enc(dec(p)) byte 2");
	__CPROVER_assert(back[3] == buf[off + 3], "le64dec: enc(dec(p)) byte 3");
	__CPROVER_assert(back[4] == buf[off + 4], "le64dec: enc(dec(p)) byte 4");
	__CPROVER_assert(back[5] == buf[off + 5], "le64dec: enc(dec(p)) byte 5");
	__CPROVER_assert(back[6] == buf[off + 6], "le64dec: enc(dec(p)) byte 6");
	__CPROVER_assert(back[7] == buf[off + 7], "le64dec: enc(dec(p)) byte 7");
	VCOVER(off % 2 == 1 && v == 0x0123456789abcdefULL);
	VCOVER(off == SE_OBJ - 8);
	VCOVER(off == 0 && v == 0);
}
