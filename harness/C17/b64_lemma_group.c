/* VERIF-GROUP
{
 "property": ["C17"],
 "entry": "h_b64_lemma",
 "enforce": [],
 "replace": [],
 "loop_contracts": false,
 "timeout": 300,
 "assumptions": ["round trip of whole strings = this leaf lemma (all 2^24 groups x 3 lengths, loop-free) + the group-wise contracts of b64encode and b64decode (b64_encode, b64_decode) + a two-line induction over groups that is on paper"]
}
*/
#include "verif.h"
#include "b64_spec.h"
#define OKCHAR(c) (B64_SPEC_ISSYM(c) || (c) == '=')

/* RFC 4648 leaf lemma over ONE group: the encoding is well-formed text and decodes to the original bytes */
void
h_b64_lemma(void)
{
	IN(uint8_t, b0); IN(uint8_t, b1); IN(uint8_t, b2);
	IN(unsigned, n);
	__CPROVER_assume(n >= 1 && n <= 3);
	/* bytes beyond the group's length do not exist */
	uint8_t x1 = n >= 2 ? b1 : 0, x2 = n >= 3 ? b2 : 0;
	char c0 = B64_SPEC_C0(n, b0, x1, x2), c1 = B64_SPEC_C1(n, b0, x1, x2);
	char c2 = B64_SPEC_C2(n, b0, x1, x2), c3 = B64_SPEC_C3(n, b0, x1, x2);

	__CPROVER_assert(B64_SPEC_ISSYM(c0) && B64_SPEC_ISSYM(c1), "lemma: the first two characters are alphabet characters");
	__CPROVER_assert((c2 == '=') == (n < 2) && (c3 == '=') == (n < 3), "lemma: padding exactly by the group length");
	__CPROVER_assert(OKCHAR(c2) && OKCHAR(c3), "lemma: characters 2 and 3 are alphabet characters or the pad");
	__CPROVER_assert(c2 != '=' || c3 == '=', "lemma: no non-pad after a pad");
	__CPROVER_assert(B64_SPEC_D0(c0, c1, c2, c3) == b0, "lemma: decode(encode) byte 0");
	__CPROVER_assert(n < 2 || B64_SPEC_D1(c0, c1, c2, c3) == b1, "lemma: decode(encode) byte 1");
	__CPROVER_assert(n < 3 || B64_SPEC_D2(c0, c1, c2, c3) == b2, "lemma: decode(encode) byte 2");
	/* value <-> symbol are inverse on 0..63 */
	IN(unsigned, v);
	__CPROVER_assume(v < 64);
	__CPROVER_assert(B64_SPEC_VAL(B64_SPEC_SYM(v)) == v && B64_SPEC_ISSYM(B64_SPEC_SYM(v)), "lemma: Table 1 is a bijection onto the alphabet");
	VCOVER(n == 1 && b0 == 0xff);
	VCOVER(n == 2 && c2 == '8');
	VCOVER(n == 3 && c3 == '+' && c0 == 'A');
}
