/* VERIF-GROUP
{
 "property": ["C17"],
 "entry": "h_cmp",
 "enforce": ["sock_addr_cmp"],
 "replace": [],
 "annotate": ["util/sock_util.c"],
 "defines": ["VERIF_HALLOC", "VERIF_STRMAX=120"],
 "models": ["models/libc_string.c"],
 "cbmc": [],
 "native": true,
 "timeout": 300,
 "assumptions": ["name length <= SA_MAXNAME = 112 bytes (sizeof(struct sockaddr_un) = 110 is the largest address used); bounds the symbolic objects only (functions are loop-free)",
                 "memcmp: models/libc_string.c; memcpy/malloc/free: CBMC built-ins"]
}
*/
#include <stdlib.h>
#include "verif.h"
size_t g_sa_g;
#include "util/sock_util.c"
#include "sock_common.h"

void
h_cmp(void)
{
	SA_MK(sa1, a);
	SA_MK(sa2, b);
	int rc = sock_addr_cmp(sa1, sa2);

	int same = (a_family == b_family && a_socktype == b_socktype && a_namelen == b_namelen);
	for (size_t k = 0; k < SA_MAXNAME; k++)
		if (same && k < a_namelen && a_name[k] != b_name[k])
			same = 0;
	__CPROVER_assert((rc == 0) == (same != 0), "sock_addr_cmp: 0 iff fields and name bytes are equal");
	__CPROVER_assert(rc == 0 || rc == 1, "sock_addr_cmp: returns 0 or 1");
	VCOVER(rc == 0 && a_namelen == SA_MAXNAME);
	VCOVER(rc == 0 && a_namelen == 0);
	VCOVER(rc == 1 && same == 0 && a_family == b_family && a_socktype == b_socktype && a_namelen == b_namelen && a_namelen > 3 && a_name[a_namelen - 1] != b_name[a_namelen - 1]);
	VCOVER(rc == 1 && a_namelen != b_namelen);
}
