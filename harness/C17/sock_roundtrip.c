/* VERIF-GROUP
{
 "property": ["C17"],
 "entry": "h_roundtrip",
 "enforce": [],
 "replace": ["sock_addr_serialize", "sock_addr_deserialize"],
 "annotate": ["util/sock_util.c"],
 "defines": ["VERIF_HALLOC", "VERIF_STRMAX=120"],
 "models": ["models/libc_string.c"],
 "cbmc": [],
 "native": true,
 "timeout": 300,
 "assumptions": ["name length <= SA_MAXNAME = 112 bytes (sizeof(struct sockaddr_un) = 110 is the largest address used); bounds the symbolic objects only (functions are loop-free)",
                 "memcmp: models/libc_string.c; memcpy/malloc/free: CBMC built-ins"]
}
*/
#include <stdlib.h>
#include "verif.h"
size_t g_sa_g;
#include "util/sock_util.c"
#include "sock_common.h"

void
h_roundtrip(void)
{
	SA_MK(sa, a);
	IN(size_t, g);
	g_sa_g = g;
	uint8_t * out = NULL;
	size_t outlen = 0;
	if (sock_addr_serialize(sa, &out, &outlen) == 0) {
		struct sock_addr * r = sock_addr_deserialize(out, outlen);
		if (r != NULL) {
			__CPROVER_assert(r->ai_family == a_family && r->ai_socktype == a_socktype && r->namelen == a_namelen, "deserialize(serialize(sa)): fields equal");
			__CPROVER_assert(g >= a_namelen || ((uint8_t *)r->name)[g] == a_name[g], "deserialize(serialize(sa)): name byte g equal");
			VCOVER(a_namelen == SA_MAXNAME && g == a_namelen - 1);
			VCOVER(a_namelen == 0);
		}
	}
}
