/* VERIF-GROUP
{
 "property": ["C17", "C15"],
 "entry": "h_b64decode",
 "enforce": ["b64decode"],
 "replace": [],
 "annotate": ["util/b64encode.c"],
 "defines": ["VERIF_HALLOC"],
 "thorough_defines": ["B64_MAX=48"],
 "models": ["models/libc_string.c"],
 "pre_unwindset": ["b64decode.1:5", "b64decode.2:4"],
 "instrument_flags": ["--nondet-static-exclude", "b64chars"],
 "native": true,
 "timeout": 300,
 "assumptions": ["input object size <= B64_MAX characters (24 quick / 48 thorough): bounds the symbolic object and the instantiation range of the quantified validation invariant; the loop arguments are inductive",
                 "static table b64chars keeps its initialiser (not const in the source; no function under contract has it in its assigns clause)",
                 "strchr: models/libc_string.c (C11 semantics)",
                 "RFC 4648 section 4 as transcribed in spec/b64_spec.h; non-zero pad bits are accepted (RFC 4648 3.5 leaves that to the decoder)"]
}
*/
#include <stdlib.h>
#include "verif.h"
size_t g_b64_g, g_b64_w, g_b64_dead;
#include "util/b64encode.c"
#include "b64_spec.h"
#ifndef B64_MAX
#define B64_MAX 24
#endif

void
h_b64decode(void)
{
	IN(size_t, inlen);
	__CPROVER_assume(inlen <= B64_MAX);
	IN_BYTES(txt, inlen, B64_MAX);
	size_t ospace = (inlen / 4) * 3;
	IN_BYTES(dst, ospace, (B64_MAX / 4) * 3);
	IN(size_t, g);
	IN(size_t, w);
	IN(size_t, outlen0);
	size_t outlen = outlen0;
	g_b64_g = g;
	g_b64_w = w;
	const char * in = (const char *)txt;

	int rc = b64decode(in, inlen, dst, &outlen);

	int wf = b64_spec_wellformed(in, inlen, B64_MAX);
	__CPROVER_assert((rc == 0) == (wf != 0), "b64decode: accepts exactly the well-formed texts");
	__CPROVER_assert(rc == 0 || rc == 1, "b64decode: returns 0 or 1");
	if (rc == 0) {
		__CPROVER_assert(outlen == ospace - b64_spec_npad(in, inlen), "b64decode: length is 3 * inlen / 4 - pads");
		if (g < inlen / 4) {
			char c0 = in[4 * g], c1 = in[4 * g + 1], c2 = in[4 * g + 2], c3 = in[4 * g + 3];
			__CPROVER_assert(3 * g + 0 >= outlen || dst[3 * g + 0] == B64_SPEC_D0(c0, c1, c2, c3), "b64decode: byte 0 of group g");
			__CPROVER_assert(3 * g + 1 >= outlen || dst[3 * g + 1] == B64_SPEC_D1(c0, c1, c2, c3), "b64decode: byte 1 of group g");
			__CPROVER_assert(3 * g + 2 >= outlen || dst[3 * g + 2] == B64_SPEC_D2(c0, c1, c2, c3), "b64decode: byte 2 of group g");
		}
	} else
		__CPROVER_assert(outlen == outlen0, "b64decode: *outlen untouched on rejection");
	VCOVER(rc == 0 && inlen == 0);
	VCOVER(rc == 0 && inlen >= 8 && outlen == ospace - 2 && g == inlen / 4 - 1);
	VCOVER(rc == 0 && inlen >= 8 && outlen == ospace - 1 && g == 0);
	VCOVER(rc == 0 && inlen == B64_MAX / 4 * 4 && outlen == ospace);
	VCOVER(rc == 1 && inlen % 4 != 0);
	VCOVER(rc == 1 && inlen % 4 == 0 && inlen >= 4 && in[inlen - 3] == '=' && in[inlen - 4] == 'A');
	VCOVER(rc == 1 && inlen % 4 == 0 && inlen >= 4 && in[1] == 0);
	VCOVER(rc == 1 && inlen % 4 == 0 && inlen >= 4 && in[inlen - 2] == '=' && in[inlen - 1] == 'A');
}
