/* VERIF-GROUP
{
 "property": ["C17"],
 "entry": "h_be64enc",
 "enforce": ["libcperciva_be64enc"],
 "replace": [],
 "annotate": ["util/sysendian.h"],
 "defines": ["VERIF_HALLOC"],
 "native": true,
 "timeout": 120,
 "assumptions": ["byte order as stated in the contract text of contracts/util__sysendian.h.spec (big-endian: most significant byte first)"]
}
*/
#include <stdlib.h>
#include "verif.h"
#include "util/sysendian.h"
#define SE_OBJ 24

void
h_be64enc(void)
{
	IN(size_t, off);
	__CPROVER_assume(off <= SE_OBJ - 8);
	IN_BYTES(buf, SE_OBJ, SE_OBJ);	/* the W bytes sit at an arbitrary (odd, even, unaligned) offset of a larger object */
	IN(size_t, gi);
	__CPROVER_assume(gi < SE_OBJ);
	IN(uint64_t, x);
	uint8_t before = buf[gi];

	be64enc(buf + off, x);

	__CPROVER_assert(buf[off + 0] == (uint8_t)((x >> 56) & 0xff), "be64enc: byte 0 is the defined byte");
	__CPROVER_assert(buf[off + 1] == (uint8_t)((x >> 48) & 0xff), "be64enc: byte 1 is the defined byte");
	__CPROVER_assert(buf[off + 2] == (uint8_t)((x >> 40) & 0xff), "be64enc: byte 2 is the defined byte");
	__CPROVER_assert(buf[off + 3] == (uint8_t)((x >> 32) & 0xff), "be64enc: byte 3 is the defined byte");
	__CPROVER_assert(buf[off + 4] == (uint8_t)((x >> 24) & 0xff), "be64enc: byte 4 is the defined byte");
	__CPROVER_assert(buf[off + 5] == (uint8_t)((x >> 16) & 0xff), "be64enc: byte 5 is the defined byte");
	__CPROVER_assert(buf[off + 6] == (uint8_t)((x >> 8) & 0xff), "be64enc: byte 6 is the defined byte");
	__CPROVER_assert(buf[off + 7] == (uint8_t)((x >> 0) & 0xff), "be64enc: byte 7 is the defined byte");
	__CPROVER_assert((gi >= off && gi < off + 8) || buf[gi] == before, "be64enc: no byte outside the 8-byte window changes");
	__CPROVER_assert(be64dec(buf + off) == x, "be64enc: dec(enc(x)) == x");
	VCOVER(off % 2 == 1 && x == 0x0123456789abcdefULL && gi == off + 8);
	VCOVER(off == SE_OBJ - 8 && gi == off - 1);
	VCOVER(off == 0 && x == 0);
}
