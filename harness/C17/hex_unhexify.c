/* VERIF-GROUP
{
 "property": ["C17", "C15"],
 "entry": "h_unhexify",
 "enforce": ["unhexify"],
 "replace": [],
 "annotate": ["util/hexify.c"],
 "defines": ["VERIF_HALLOC"],
 "thorough_defines": ["HEX_MAX=32"],
 "models": ["models/libc_string.c"],
 "instrument_flags": ["--nondet-static-exclude", "hexchars"],
 "native": true,
 "timeout": 300,
 "assumptions": ["len <= HEX_MAX (16 quick / 32 thorough): bounds the symbolic objects and the instantiation range of the quantified validation invariant; the loop arguments are inductive",
                 "static table hexchars keeps its initialiser (not const in the source; no function under contract has it in its assigns clause)",
                 "strchr: models/libc_string.c (C11 semantics)",
                 "base-16 as transcribed in spec/hex_spec.h (either case accepted)"]
}
*/
#include <stdlib.h>
#include "verif.h"
size_t g_hex_g, g_hex_n, g_hex_w;
#include "util/hexify.c"
#include "hex_spec.h"
#ifndef HEX_MAX
#define HEX_MAX 16
#endif

void
h_unhexify(void)
{
	IN(size_t, len);
	IN(size_t, n);
	__CPROVER_assume(len <= HEX_MAX && n <= 2 * len);
	/* the text: exactly 2*len arbitrary characters, or a shorter block that ends in its NUL */
	IN_BYTES(txt, n, 2 * HEX_MAX);
	if (n < 2 * len) {
		__CPROVER_assume(n >= 1);
		txt[n - 1] = 0;
	}
	IN_BYTES(dst, len, HEX_MAX);
	IN(size_t, g);
	IN(size_t, w);
	IN(uint8_t, fill);
	g_hex_g = g;
	g_hex_w = w;
	g_hex_n = n;
	if (g < len)
		dst[g] = fill;
	const char * in = (const char *)txt;

	int rc = unhexify(in, dst, len);

	__CPROVER_assert(rc == 0 || rc == -1, "unhexify: returns 0 or -1");
	if (rc == 0) {
		__CPROVER_assert(n == 2 * len, "unhexify: accepted only with 2*len characters present");
		__CPROVER_assert(w >= 2 * len || HEX_SPEC_ISHEX(in[w]), "unhexify: accepted => every character is a hex digit");
		if (g < len)
			__CPROVER_assert(dst[g] == HEX_SPEC_BYTE(in[2 * g], in[2 * g + 1]), "unhexify: byte g is the value of digits 2g, 2g+1");
	} else {
		__CPROVER_assert(g_hex_w < n && g_hex_w < 2 * len && !HEX_SPEC_ISHEX(in[g_hex_w]), "unhexify: rejected => a non-hex character among the first 2*len");
		if (g < len)
			__CPROVER_assert(dst[g] == fill, "unhexify: nothing written on rejection");
	}
	VCOVER(rc == 0 && len == 0);
	VCOVER(rc == 0 && len == HEX_MAX && g == len - 1 && in[2 * g] == 'A' && in[2 * g + 1] == 'f');
	VCOVER(rc == -1 && n == 2 * len && len >= 2 && in[2 * len - 1] == 'g');
	VCOVER(rc == -1 && n < 2 * len && n == 2);
	VCOVER(rc == -1 && n == 2 * len && in[0] == 0);
}
