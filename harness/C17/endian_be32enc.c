/* VERIF-GROUP
{
 "property": ["C17"],
 "entry": "h_be32enc",
 "enforce": ["libcperciva_be32enc"],
 "replace": [],
 "annotate": ["util/sysendian.h"],
 "defines": ["VERIF_HALLOC"],
 "native": true,
 "timeout": 120,
 "assumptions": ["byte order as stated in the contract text of contracts/util__sysendian.h.spec (big-endian: most significant byte first)"]
}
*/
#include <stdlib.h>
#include "verif.h"
#include "util/sysendian.h"
#define SE_OBJ 24

void
h_be32enc(void)
{
	IN(size_t, off);
	__CPROVER_assume(off <= SE_OBJ - 4);
	IN_BYTES(buf, SE_OBJ, SE_OBJ);	/* the W bytes sit at an arbitrary (odd, even, unaligned) offset of a larger object */
	IN(size_t, gi);
	__CPROVER_assume(gi < SE_OBJ);
	IN(uint32_t, x);
	uint8_t before = buf[gi];

	be32enc(buf + off, x);

	__CPROVER_assert(buf[off + 0] == (uint8_t)((x >> 24) & 0xff), "be32enc: byte 0 is the defined byte");
	__CPROVER_assert(buf[off + 1] == (uint8_t)((x >> 16) & 0xff), "be32enc: byte 1 is the defined byte");
	__CPROVER_assert(buf[off + 2] == (uint8_t)((x >> 8) & 0xff), "be32enc: byte 2 is the defined byte");
	__CPROVER_assert(buf[off + 3] == (uint8_t)((x >> 0) & 0xff), "be32enc: byte 3 is the defined byte");
	__CPROVER_assert((gi >= off && gi < off + 4) || buf[gi] == before, "be32enc: no byte outside the 4-byte window changes");
	__CPROVER_assert(be32dec(buf + off) == x, "be32enc: dec(enc(x)) == x");
	VCOVER(off % 2 == 1 && x == (uint32_t)0x89abcdefUL && gi == off + 4);
	VCOVER(off == SE_OBJ - 4 && gi == off - 1);
	VCOVER(off == 0 && x == 0);
}
