/* VERIF-GROUP
{
 "property": ["C17", "C14"],
 "entry": "h_serialize",
 "enforce": ["sock_addr_serialize"],
 "replace": [],
 "annotate": ["util/sock_util.c"],
 "defines": ["VERIF_HALLOC", "VERIF_STRMAX=120"],
 "models": ["models/libc_string.c"],
 "cbmc": ["--malloc-may-fail", "--malloc-fail-null", "--memory-leak-check"],
 "native": true,
 "timeout": 300,
 "assumptions": ["name length <= SA_MAXNAME = 112 bytes (sizeof(struct sockaddr_un) = 110 is the largest address used); bounds the symbolic objects only (functions are loop-free)",
                 "memcmp: models/libc_string.c; memcpy/malloc/free: CBMC built-ins"]
}
*/
#include <stdlib.h>
#include "verif.h"
size_t g_sa_g;
#include "util/sock_util.c"
#include "sock_common.h"

void
h_serialize(void)
{
	SA_MK(sa, a);
	IN(size_t, g);
	g_sa_g = g;
	uint8_t * out = (uint8_t *)sa;	/* any non-NULL junk */
	size_t outlen;
	int rc = sock_addr_serialize(sa, &out, &outlen);

	__CPROVER_assert(rc == 0 || rc == -1, "sock_addr_serialize: returns 0 or -1");
	__CPROVER_assert(outlen == 2 * sizeof(int) + sizeof(socklen_t) + a_namelen, "sock_addr_serialize: length is header + namelen");
	if (rc == 0) {
		int f, t; socklen_t n;
		memcpy(&f, out, sizeof(int)); memcpy(&t, out + sizeof(int), sizeof(int)); memcpy(&n, out + 2 * sizeof(int), sizeof(socklen_t));
		__CPROVER_assert(f == a_family && t == a_socktype && n == a_namelen, "sock_addr_serialize: header fields");
		__CPROVER_assert(g >= a_namelen || out[2 * sizeof(int) + sizeof(socklen_t) + g] == a_name[g], "sock_addr_serialize: name byte g");
	} else
		__CPROVER_assert(out == NULL, "sock_addr_serialize: no buffer on failure");
	VCOVER(rc == 0 && a_namelen == SA_MAXNAME && g == a_namelen - 1);
	VCOVER(rc == 0 && a_namelen == 0);
	VCOVER(rc == -1);
	/* C14: release everything the caller owns; cbmc's leak check then shows that nothing else stayed allocated */
	if (rc == 0)
		free(out);
	free(a_name);
	free(sa);
}
