/* VERIF-GROUP
{
 "property": ["C17"],
 "entry": "h_le16enc",
 "enforce": ["libcperciva_le16enc"],
 "replace": [],
 "annotate": ["util/sysendian.h"],
 "defines": ["VERIF_HALLOC"],
 "native": true,
 "timeout": 120,
 "assumptions": ["byte order as stated in the contract text of contracts/util__sysendian.h.spec (big-endian: most significant byte first)"]
}
*/
#include <stdlib.h>
#include "verif.h"
#include "util/sysendian.h"
#define SE_OBJ 24

void
h_le16enc(void)
{
	IN(size_t, off);
	__CPROVER_assume(off <= SE_OBJ - 2);
	IN_BYTES(buf, SE_OBJ, SE_OBJ);	/* the W bytes sit at an arbitrary (odd, even, unaligned) offset of a larger object */
	IN(size_t, gi);
	__CPROVER_assume(gi < SE_OBJ);
	IN(uint16_t, x);
	uint8_t before = buf[gi];

	le16enc(buf + off, x);

	__CPROVER_assert(buf[off + 0] == (uint8_t)((x >> 0) & 0xff), "le16enc: byte 0 is the defined byte");
	__CPROVER_assert(buf[off + 1] == (uint8_t)((x >> 8) & 0xff), "le16enc: byte 1 is the defined byte");
	__CPROVER_assert((gi >= off && gi < off + 2) || buf[gi] == before, "le16enc: no byte outside the 2-byte window changes");
	__CPROVER_assert(le16dec(buf + off) == x, "le16enc: dec(enc(x)) == x");
	VCOVER(off % 2 == 1 && x == (uint16_t)0xcdefU && gi == off + 2);
	VCOVER(off == SE_OBJ - 2 && gi == off - 1);
	VCOVER(off == 0 && x == 0);
}
