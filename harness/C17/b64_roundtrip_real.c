/* VERIF-GROUP
{
 "property": ["C17"],
 "entry": "h_b64_roundtrip",
 "enforce": [],
 "replace": [],
 "loop_contracts": false,
 "models": ["models/libc_string.c"],
 "unwind": 6, "bounded": true, "bound": "one group: len <= 3 input bytes, the REAL b64encode followed by the REAL b64decode, both inlined and unwound",
 "cbmc": ["--unwindset", "strchr.0:73"],
 "native": true,
 "timeout": 300,
 "assumptions": ["bounded leaf: decode(encode(x)) == x through the real code for every x of <= 3 bytes; longer strings follow from the group-wise contracts"]
}
*/
#include <stdlib.h>
#include "verif.h"
#include "util/b64encode.c"

void
h_b64_roundtrip(void)
{
	IN(size_t, len);
	__CPROVER_assume(len <= 3);
	IN_BYTES(src, len, 3);
	size_t tlen = ((len + 2) / 3) * 4;
	IN_BYTES(txt, tlen + 1, 5);
	IN_BYTES(dst, (tlen / 4) * 3, 3);
	size_t outlen = 99;

	b64encode(src, (char *)txt, len);
	int rc = b64decode((const char *)txt, tlen, dst, &outlen);

	__CPROVER_assert(rc == 0, "round trip: the encoder's output is accepted by the decoder");
	__CPROVER_assert(outlen == len, "round trip: same length");
	for (size_t k = 0; k < 3; k++)
		if (k < len)
			__CPROVER_assert(dst[k] == src[k], "round trip: same bytes");
	VCOVER(len == 0);
	VCOVER(len == 1 && src[0] == 0xff);
	VCOVER(len == 2);
	VCOVER(len == 3 && txt[3] == '/');
}
