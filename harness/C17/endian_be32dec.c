/* VERIF-GROUP
{
 "property": ["C17"],
 "entry": "h_be32dec",
 "enforce": ["libcperciva_be32dec"],
 "replace": [],
 "annotate": ["util/sysendian.h"],
 "defines": ["VERIF_HALLOC"],
 "native": true,
 "timeout": 120,
 "assumptions": ["byte order as stated in the contract text of contracts/util__sysendian.h.spec (big-endian: most significant byte first)"]
}
*/
#include <stdlib.h>
#include "verif.h"
#include "util/sysendian.h"
#define SE_OBJ 24

void
h_be32dec(void)
{
	IN(size_t, off);
	__CPROVER_assume(off <= SE_OBJ - 4);
	IN_BYTES(buf, SE_OBJ, SE_OBJ);	/* the W bytes sit at an arbitrary (odd, even, unaligned) offset of a larger object */
	IN(size_t, gi);
	__CPROVER_assume(gi < SE_OBJ);
	uint32_t v = be32dec(buf + off);
	uint32_t want = 0;
	want |= (uint32_t)buf[off + 0] << 24;
	want |= (uint32_t)buf[off + 1] << 16;
	want |= (uint32_t)buf[off + 2] << 8;
	want |= (uint32_t)buf[off + 3] << 0;
	__CPROVER_assert(v == want, "be32dec: value assembled in the defined byte order");
	/* dec then enc reproduces the bytes */
	uint8_t back[4];
	be32enc(back, v);
	__CPROVER_assert(back[0] == buf[off + 0], "be32dec: enc(dec(p)) byte 0");
	__CPROVER_assert(back[1] == buf[off + 1], "be32dec: enc(dec(p)) byte 1");
	__CPROVER_assert(back[2] == buf[off + 2], "be32dec: enc(dec(p)) byte 2");
	__CPROVER_assert(back[3] == buf[off + 3], "be32dec: enc(dec(p)) byte 3");
	VCOVER(off % 2 == 1 && v == (uint32_t)0x89abcdefUL);
	VCOVER(off == SE_OBJ - 4);
	VCOVER(off == 0 && v == 0);
}
