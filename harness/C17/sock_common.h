/* shared pre-state construction for util/sock_util.c harnesses: every well-formed socket address, name <= SA_MAXNAME */
#ifndef SA_MAXNAME
#define SA_MAXNAME 112
#endif
#define SA_MK(sa, tag) \
	IN(int, tag##_family); IN(int, tag##_socktype); IN(socklen_t, tag##_namelen); \
	__CPROVER_assume(tag##_namelen <= SA_MAXNAME); \
	struct sock_addr * sa = malloc(sizeof(struct sock_addr)); \
	__CPROVER_assume(sa != NULL); \
	IN_BYTES(tag##_name, tag##_namelen, SA_MAXNAME); \
	sa->ai_family = tag##_family; sa->ai_socktype = tag##_socktype; \
	sa->namelen = tag##_namelen; sa->name = (struct sockaddr *)tag##_name
