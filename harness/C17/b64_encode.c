/* VERIF-GROUP
{
 "property": ["C17", "C15"],
 "entry": "h_b64encode",
 "enforce": ["b64encode"],
 "replace": [],
 "annotate": ["util/b64encode.c"],
 "defines": ["VERIF_HALLOC"],
 "thorough_defines": ["B64_MAX=48"],
 "pre_unwindset": ["b64encode.0:4", "b64encode.1:5"],
 "instrument_flags": ["--nondet-static-exclude", "b64chars"],
 "native": true,
 "timeout": 300,
 "assumptions": ["input object size <= B64_MAX (24 quick / 48 thorough); the loop argument is inductive, B64_MAX bounds only the symbolic object",
                 "static table b64chars keeps its initialiser (not const in the source; no function under contract has it in its assigns clause)",
                 "RFC 4648 section 4 as transcribed in spec/b64_spec.h"]
}
*/
#include <stdlib.h>
#include "verif.h"
size_t g_b64_g, g_b64_w, g_b64_dead;
#include "util/b64encode.c"
#include "b64_spec.h"
#ifndef B64_MAX
#define B64_MAX 24
#endif

void
h_b64encode(void)
{
	IN(size_t, len);
	__CPROVER_assume(len <= B64_MAX);
	IN_BYTES(src, len, B64_MAX);
	size_t olen = B64_SPEC_ENCLEN(len) + 1;
	IN_BYTES(dst, olen, B64_SPEC_ENCLEN(B64_MAX) + 1);
	IN(size_t, g);
	g_b64_g = g;

	b64encode(src, (char *)dst, len);

	__CPROVER_assert(dst[olen - 1] == 0, "b64encode: NUL at ((len + 2) / 3) * 4");
	if (g < (len + 2) / 3) {
		size_t n = len - 3 * g;
		uint8_t b0 = src[3 * g], b1 = n >= 2 ? src[3 * g + 1] : 0, b2 = n >= 3 ? src[3 * g + 2] : 0;
		__CPROVER_assert((char)dst[4 * g + 0] == B64_SPEC_C0(n, b0, b1, b2), "b64encode: character 0 of group g per RFC 4648");
		__CPROVER_assert((char)dst[4 * g + 1] == B64_SPEC_C1(n, b0, b1, b2), "b64encode: character 1 of group g per RFC 4648");
		__CPROVER_assert((char)dst[4 * g + 2] == B64_SPEC_C2(n, b0, b1, b2), "b64encode: character 2 of group g per RFC 4648");
		__CPROVER_assert((char)dst[4 * g + 3] == B64_SPEC_C3(n, b0, b1, b2), "b64encode: character 3 of group g per RFC 4648");
	}
	VCOVER(len == 0);
	VCOVER(len % 3 == 1 && g == len / 3);
	VCOVER(len % 3 == 2 && g == len / 3);
	VCOVER(len % 3 == 0 && len >= 6 && g == 1);
	VCOVER(len == B64_MAX && g == 0);
}
