/* VERIF-GROUP
{
 "property": ["C15", "C17", "C14"],
 "entry": "h_deserialize",
 "enforce": ["sock_addr_deserialize"],
 "replace": [],
 "annotate": ["util/sock_util.c"],
 "defines": ["VERIF_HALLOC", "VERIF_STRMAX=120"],
 "models": ["models/libc_string.c"],
 "cbmc": ["--malloc-may-fail", "--malloc-fail-null", "--memory-leak-check"],
 "native": true,
 "timeout": 300,
 "assumptions": ["name length <= SA_MAXNAME = 112 bytes (sizeof(struct sockaddr_un) = 110 is the largest address used); bounds the symbolic objects only (functions are loop-free)",
                 "memcmp: models/libc_string.c; memcpy/malloc/free: CBMC built-ins"]
}
*/
#include <stdlib.h>
#include "verif.h"
size_t g_sa_g;
#include "util/sock_util.c"
#include "sock_common.h"

void
h_deserialize(void)
{
	IN(size_t, buflen);
	__CPROVER_assume(buflen <= 2 * sizeof(int) + sizeof(socklen_t) + SA_MAXNAME + 8);
	IN_BYTES(buf, buflen, 2 * sizeof(int) + sizeof(socklen_t) + SA_MAXNAME + 8);	/* exact-size block, hostile content */
	IN(size_t, g);
	g_sa_g = g;
	struct sock_addr * r = sock_addr_deserialize(buf, buflen);

	size_t hdr = 2 * sizeof(int) + sizeof(socklen_t);
	socklen_t n = 0;
	if (buflen >= hdr)
		memcpy(&n, buf + 2 * sizeof(int), sizeof(socklen_t));
	if (buflen < hdr || buflen != hdr + (size_t)n)
		__CPROVER_assert(r == NULL, "sock_addr_deserialize: inconsistent length rejected");
	if (r != NULL) {
		int f, t;
		memcpy(&f, buf, sizeof(int)); memcpy(&t, buf + sizeof(int), sizeof(int));
		__CPROVER_assert(r->ai_family == f && r->ai_socktype == t && r->namelen == n, "sock_addr_deserialize: fields from the header");
		__CPROVER_assert(g >= n || ((uint8_t *)r->name)[g] == buf[hdr + g], "sock_addr_deserialize: name byte g");
	}
	VCOVER(r != NULL && n == SA_MAXNAME && g == n - 1);
	VCOVER(r != NULL && n == 0);
	VCOVER(r == NULL && buflen >= hdr && buflen == hdr + (size_t)n);
	VCOVER(r == NULL && buflen >= hdr && n == 0xffffffffu);
	VCOVER(r == NULL && buflen == hdr - 1);
	/* C14: release everything the caller owns; cbmc's leak check then shows that nothing else stayed allocated */
	if (r != NULL) {
		free(r->name);
		free(r);
	}
	free(buf);
}
