/* VERIF-GROUP
{
 "property": ["C17", "C14"],
 "entry": "h_dup",
 "enforce": ["sock_addr_dup"],
 "replace": [],
 "annotate": ["util/sock_util.c"],
 "defines": ["VERIF_HALLOC", "VERIF_STRMAX=120"],
 "models": ["models/libc_string.c"],
 "cbmc": ["--malloc-may-fail", "--malloc-fail-null", "--memory-leak-check"],
 "native": true,
 "timeout": 300,
 "assumptions": ["name length <= SA_MAXNAME = 112 bytes (sizeof(struct sockaddr_un) = 110 is the largest address used); bounds the symbolic objects only (functions are loop-free)",
                 "memcmp: models/libc_string.c; memcpy/malloc/free: CBMC built-ins"]
}
*/
#include <stdlib.h>
#include "verif.h"
size_t g_sa_g;
#include "util/sock_util.c"
#include "sock_common.h"

void
h_dup(void)
{
	SA_MK(sa, a);
	IN(size_t, g);
	g_sa_g = g;
	struct sock_addr * r = sock_addr_dup(sa);

	if (r != NULL) {
		__CPROVER_assert(r != sa && (uint8_t *)r->name != a_name, "sock_addr_dup: result and its name are new objects");
		__CPROVER_assert(r->ai_family == a_family && r->ai_socktype == a_socktype && r->namelen == a_namelen, "sock_addr_dup: fields equal");
		__CPROVER_assert(g >= a_namelen || ((uint8_t *)r->name)[g] == a_name[g], "sock_addr_dup: name byte g equal");
	}
	__CPROVER_assert(sa->ai_family == a_family && sa->ai_socktype == a_socktype && sa->namelen == a_namelen && (uint8_t *)sa->name == a_name, "sock_addr_dup: argument unchanged");
	VCOVER(r != NULL && a_namelen == SA_MAXNAME && g == a_namelen - 1);
	VCOVER(r != NULL && a_namelen == 0);
	VCOVER(r == NULL);
	/* C14: release everything the caller owns; cbmc's leak check then shows that nothing else stayed allocated */
	if (r != NULL) {
		free(r->name);
		free(r);
	}
	free(a_name);
	free(sa);
}
