/* VERIF-GROUP
{
 "property": ["C17"],
 "entry": "h_be16dec",
 "enforce": ["libcperciva_be16dec"],
 "replace": [],
 "annotate": ["util/sysendian.h"],
 "defines": ["VERIF_HALLOC"],
 "native": true,
 "timeout": 120,
 "assumptions": ["byte order as stated in the contract text of contracts/util__sysendian.h.spec (big-endian: most significant byte first)"]
}
*/
#include <stdlib.h>
#include "verif.h"
#include "util/sysendian.h"
#define SE_OBJ 24

void
h_be16dec(void)
{
	IN(size_t, off);
	__CPROVER_assume(off <= SE_OBJ - 2);
	IN_BYTES(buf, SE_OBJ, SE_OBJ);	/* the W bytes sit at an arbitrary (odd, even, unaligned) offset of a larger object */
	IN(size_t, gi);
	__CPROVER_assume(gi < SE_OBJ);
	uint16_t v = be16dec(buf + off);
	uint16_t want = 0;
	want |= (uint16_t)buf[off + 0] << 8;
	want |= (uint16_t)buf[off + 1] << 0;
	__CPROVER_assert(v == want, "be16dec: value assembled in the defined byte order");
	/* dec then enc reproduces the bytes */
	uint8_t back[2];
	be16enc(back, v);
	__CPROVER_assert(back[0] == buf[off + 0], "be16dec: enc(dec(p)) byte 0");
	__CPROVER_assert(back[1] == buf[off + 1], "be16dec: enc(dec(p)) byte 1");
	VCOVER(off % 2 == 1 && v == (uint16_t)0xcdefU);
	VCOVER(off == SE_OBJ - 2);
	VCOVER(off == 0 && v == 0);
}
