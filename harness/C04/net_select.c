/* VERIF-GROUP
{
 "property": ["C04", "C05"],
 "entry": "h_select",
 "enforce": ["events_network_select"],
 "replace": [],
 "annotate": ["events/events_network.c"],
 "defines": ["VERIF_HALLOC", "NET_FIXCAP"],
 "models": ["models/ev_poll.c", "models/ev_atexit.c", "models/ev_selectstats.c", "models/ev_warnp.c"],
 "loop_contracts": false,
 "cbmc": ["--unwindset", "events_network_select_wrapped_for_contract_checking.0:4"],
 "bounded": true,
 "bound": "at most 2 EINTR results of poll per events_network_select call (retry loop unwound 4 times, unwinding assertion checked); a failed poll is idempotent on the model state, so longer EINTR runs reach no new state (paper argument)",
 "timeout": 300,
 "assumptions": ["object-size parameters: <= NS_Q descriptors in S, <= NF_Q initialised pollfd entries (for-all invariants expanded over these constants)",
                 "poll(2) per models/ev_poll.c (writes only revents, subset of events+ERR+HUP, no POLLNVAL: registered descriptors are open); EINTR budget 2",
                 "selectstats hooks per models/ev_selectstats.c; warnp diagnostics have no effect on program state",
                 "state S == NULL is covered by C04/net_uninit",
                 "meta-level induction over histories (L-ind)"]
}
*/
#include <stdlib.h>
#include <limits.h>
#include "verif.h"
#include "ev_rec.h"
#include "../C04/net.h"
NET_GHOSTS;
#include "datastruct/elasticarray.c"
#include "events/events_network.c"

void
h_select(void)
{
	IN(int, havetv);
	struct timeval tvbuf;
	struct timeval * tv = havetv ? &tvbuf : NULL;
	volatile sig_atomic_t intr;
	int rc;

	__CPROVER_assume(tvbuf.tv_sec >= 0 && tvbuf.tv_usec >= 0 && tvbuf.tv_usec < 1000000);
	NET_MK_STATE();
	EV_SPEC_BEGIN
	__CPROVER_assume(NET_INV_PURE);
	EV_SPEC_END
	g_poll_calls = 0;
	g_poll_eintr_left = 2;
	int rr0 = g_rdy_r;

	rc = events_network_select(tv, &intr);

	__CPROVER_assert(!(g_poll_calls > 0 && tv == NULL) || g_poll_timeout == -1, "no timer: wait indefinitely");

	VCOVER(rc == 0 && tv == NULL && nfds == NF_Q);
	VCOVER(rc == 0 && tv != NULL && tvbuf.tv_sec == 0 && tvbuf.tv_usec == 1 && g_poll_timeout == 1);
	VCOVER(rc == 0 && tv != NULL && tvbuf.tv_sec >= INT_MAX / 1000 && g_poll_timeout == INT_MAX);
	VCOVER(rc == 0 && g_poll_calls > 1 && g_poll_lastrc >= 0);
	VCOVER(rc == 0 && g_poll_lastrc == -1 && g_poll_lasterrno == EINTR);
	VCOVER(rc == -1 && g_poll_lasterrno != EINTR);
	VCOVER(rc == 0 && g_ns < NS_N && !rr0 && g_rdy_r && g_poll_lastrc > 0);
	VCOVER(rc == 0 && nfds == 0 && fdscanpos == SIZE_MAX);
}
