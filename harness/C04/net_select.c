/* VERIF-GROUP
{
 "property": ["C04", "C05"],
 "entry": "h_select",
 "enforce": ["events_network_select"],
 "replace": [],
 "annotate": ["events/events_network.c"],
 "defines": ["VERIF_HALLOC", "NET_FIXCAP", "NS_Q=3", "NF_Q=3", "NF_A=3"],
 "thorough_defines": ["NS_Q=4", "NF_Q=4", "NF_A=4"],
 "models": ["models/ev_poll.c", "models/ev_atexit.c", "models/ev_selectstats.c", "models/ev_warnp.c"],
 "timeout": 300,
 "assumptions": ["object-size parameters: <= NS_Q descriptors in S, <= NF_Q initialised pollfd entries (for-all invariants expanded over these constants)",
                 "poll(2) per models/ev_poll.c (writes only revents, subset of events+ERR+HUP, no POLLNVAL: registered descriptors are open); the EINTR retry loop is closed by its loop contract (any number of EINTRs)",
                 "selectstats hooks per models/ev_selectstats.c; warnp diagnostics have no effect on program state",
                 "state S == NULL is covered by C04/net_uninit",
                 "meta-level induction over histories (L-ind)"]
}
*/
#include <stdlib.h>
#include <limits.h>
#include "verif.h"
#include "ev_rec.h"
#include "../C04/net.h"
NET_GHOSTS;
#include "datastruct/elasticarray.c"
#include "events/events_network.c"

void
h_select(void)
{
	IN(int, havetv);
	struct timeval tvbuf;
	struct timeval * tv = havetv ? &tvbuf : NULL;
	volatile sig_atomic_t intr;
	int rc;

	__CPROVER_assume(tvbuf.tv_sec >= 0 && tvbuf.tv_usec >= 0 && tvbuf.tv_usec < 1000000);
	NET_MK_STATE();
	EV_SPEC_BEGIN
	__CPROVER_assume(NET_INV_PURE);
	EV_SPEC_END
	g_poll_calls = 0;
	int rr0 = g_rdy_r;

	rc = events_network_select(tv, &intr);

	/* C05: sleep no longer than until the earliest deadline, rounded up to a millisecond */
	if (g_poll_calls > 0 && tv != NULL && tvbuf.tv_sec < INT_MAX / 1000) {
		long long us = (long long)tvbuf.tv_sec * 1000000 + tvbuf.tv_usec;
		__CPROVER_assert((long long)g_poll_timeout * 1000 >= us && (long long)g_poll_timeout * 1000 < us + 1000,
		    "poll timeout = ceil(tv / 1 ms)");
	}
	__CPROVER_assert(!(g_poll_calls > 0 && tv == NULL) || g_poll_timeout == -1, "no timer: wait indefinitely");

	VCOVER(rc == 0 && tv == NULL && nfds == NF_Q);
	VCOVER(rc == 0 && tv != NULL && tvbuf.tv_sec == 0 && tvbuf.tv_usec == 1 && g_poll_timeout == 1);
	VCOVER(rc == 0 && tv != NULL && tvbuf.tv_sec >= INT_MAX / 1000 && g_poll_timeout == INT_MAX);
	VCOVER(rc == 0 && g_poll_calls > 1 && g_poll_lastrc >= 0);
	VCOVER(rc == 0 && g_poll_lastrc == -1 && g_poll_lasterrno == EINTR);
	VCOVER(rc == -1 && g_poll_lasterrno != EINTR);
	VCOVER(rc == 0 && g_ns < NS_N && !rr0 && g_rdy_r && g_poll_lastrc > 0);
	VCOVER(rc == 0 && nfds == 0 && fdscanpos == SIZE_MAX);
}
