/* VERIF-GROUP
{
 "property": ["C04", "C05"],
 "entry": "h_get",
 "enforce": ["events_network_get"],
 "replace": [],
 "annotate": ["events/events_network.c"],
 "defines": ["VERIF_HALLOC", "NET_FIXCAP"],
 "models": ["models/ev_poll.c", "models/ev_atexit.c", "models/ev_selectstats.c", "models/ev_warnp.c"],
 "loop_contracts": false,
 "unwind": 5,
 "bounded": true,
 "bound": "scan loop unwound NF_Q+1 times: complete for nfds <= NF_Q = 4, the pollfd size parameter that bounds INV_net as well; unwinding assertion checked",
 "timeout": 300,
 "assumptions": ["object-size parameters: <= NS_Q descriptors in S, <= NF_Q initialised pollfd entries (for-all invariants expanded over these constants); the scan loop is unwound to the same parameter (tool limit of DFCC loop contracts with object targets, see the spec file)",
                 "clearbit inlined (real code)",
                 "capacities of S and fds fixed (events_network_get never reallocates)",
                 "meta-level induction over histories (L-ind)"]
}
*/
#include <stdlib.h>
#include "verif.h"
#include "ev_rec.h"
#include "../C04/net.h"
NET_GHOSTS;
#include "datastruct/elasticarray.c"
#include "events/events_network.c"

void
h_get(void)
{
	struct eventrec * r;
	IN(int, uninit);

	if (uninit) {
		NET_MK_UNINIT();
	} else {
		NET_MK_STATE();
		EV_SPEC_BEGIN
		__CPROVER_assume(NET_INV_PURE);
		EV_SPEC_END
	}
	size_t nfds0 = nfds, scan0 = fdscanpos;
	int eh0 = 0;
	if (!uninit && g_nj < nfds)
		eh0 = fds[g_nj].revents & (POLLERR | POLLHUP);

	r = events_network_get();

	/* top-level statements of C04, restated as harness assertions at the ghost descriptor */
	EV_SPEC_BEGIN
	__CPROVER_assert(r == NULL || (g_got_fd < NS_N && NET_SLOT(g_got_fd, g_got_op) == NULL), "one-shot: slot empty before the record is handed to the dispatcher");
	__CPROVER_assert(!(r != NULL && g_got_fd == g_ns) || (g_got_op == EVENTS_NETWORK_OP_READ ? g_rdy_r : g_rdy_w) || g_errhup,
	    "returned only if due: reported ready since registered, or ERR/HUP in the latest poll");
	EV_SPEC_END

	VCOVER(uninit && r == NULL);
	VCOVER(r == NULL && nfds0 == NF_Q && scan0 == nfds0 - 1);
	VCOVER(r != NULL && g_got_fd == g_ns && g_got_op == EVENTS_NETWORK_OP_READ && nfds == nfds0 - 1 && fdscanpos < nfds);
	VCOVER(r != NULL && g_got_fd == g_ns && g_got_op == EVENTS_NETWORK_OP_WRITE && nfds == nfds0);
	VCOVER(r != NULL && fdscanpos == nfds && nfds > 0);
	VCOVER(r != NULL && fdscanpos + 2 <= scan0 && scan0 < nfds0);
	VCOVER(r != NULL && g_got_fd == g_ns && eh0 != 0 && g_nj == fdscanpos && !g_rdy_r && !g_rdy_w);
	VCOVER(r != NULL && g_got_fd != g_ns && g_ns < NS_N && NS_R(g_ns).reader != NULL);
}
