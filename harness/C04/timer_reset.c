/* VERIF-GROUP
{
 "property": ["C04"],
 "entry": "h_timer_reset",
 "enforce": ["events_timer_reset"],
 "replace": [],
 "annotate": ["events/events_timer.c"],
 "defines": ["VERIF_HALLOC"],
 "models": ["models/ev_monoclock.c", "models/ev_timerqueue.c", "models/ev_atexit.c"],
 "cbmc": ["--malloc-may-fail", "--malloc-fail-null"],
 "timeout": 300,
 "assumptions": ["timer queue = abstract model models/ev_timerqueue.c (assumed contract of datastruct/timerqueue.c, proved in C13): one tracked element + anonymous rest",
                 "monoclock_get per models/ev_monoclock.c (may fail; normalised, monotone, 0 <= tv_sec <= 2^60); timeouts normalised with tv_sec <= 2^60",
                 "events_mkrec / events_freerec replaced by their contracts (models/ev_rec.h; enforced in C04/rec_*); atexit per models/ev_atexit.c",
                 "meta-level induction over histories (L-ind)"]
}
*/
#include <stdlib.h>
#include "verif.h"
#include "ev_rec.h"
#include "../C04/timer.h"
TIMER_GHOSTS;
#include "events/events_timer.c"
typedef char tm_size_check[(sizeof(struct timerrec) == EV_TQ_PTRSZ) ? 1 : -1];
static int cb(void * c) { (void)c; return (0); }

void
h_timer_reset(void)
{
	struct tm_pre P;
	IN(int, which);
	struct timerrec * t;
	int rc;

	TIMER_MK_STATE(P, 0);
	if (which && g_tq.in)
		t = P.t;
	else {
		__CPROVER_assume(g_tq_others > 0);
		t = malloc(sizeof(struct timerrec)); __CPROVER_assume(t != NULL);
		t->cookie = malloc(1); __CPROVER_assume(t->cookie != NULL);
		__CPROVER_assume(EV_TV_OK(t->tv_orig));
	}
	struct timeval d0 = g_tq.tv;
	int in0 = g_tq.in;

	rc = events_timer_reset(t);

	if (rc == 0 && t == P.t && in0) {
		__CPROVER_assert(TV_IS_SUM(g_tq.tv, g_mc_now, t->tv_orig), "reset: deadline = clock at reset + original timeout");
		__CPROVER_assert(EV_TV_LE(d0, g_tq.tv), "reset never moves the deadline earlier");
	}
	VCOVER(rc == 0 && t == P.t && in0 && !TV_EQ(d0, g_tq.tv));
	VCOVER(rc == 0 && t == P.t && in0 && TV_EQ(d0, g_tq.tv));
	VCOVER(rc == 0 && t != P.t && in0);
	VCOVER(rc == -1 && t == P.t && in0);
}
