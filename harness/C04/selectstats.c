/* VERIF-GROUP
{
 "property": ["C04"],
 "entry": "h_selectstats",
 "enforce": [],
 "replace": [],
 "loop_contracts": false,
 "annotate": [],
 "defines": ["VERIF_HALLOC"],
 "matrix": {"SSF": [0, 1, 2]},
 "models": ["models/ev_monoclock.c"],
 "timeout": 300,
 "assumptions": ["supports the stand-in models/ev_selectstats.c used by the events_network.c proofs: the three hooks of the REAL events/events_network_selectstats.c are memory-safe for every state of their statics and (by inspection of the file: they name no other object) touch only their own statistics; monoclock_get per models/ev_monoclock.c"]
}
*/
#include <stdlib.h>
#include "verif.h"
#include "events/events_network_selectstats.c"
long __VERIFIER_nondet_long(void);
int __VERIFIER_nondet_int(void);

void
h_selectstats(void)
{
	/* every state of the file's statics */
	st.tv_sec = __VERIFIER_nondet_long(); st.tv_usec = __VERIFIER_nondet_long();
	running = __VERIFIER_nondet_int();
	__CPROVER_assume(st.tv_usec >= 0 && st.tv_usec < 1000000 && st.tv_sec >= 0 && st.tv_sec <= ((time_t)1 << 60));
	int run0 = running;
#if SSF == 0
	events_network_selectstats_startclock();
	VCOVER(run0 == 0 && running == 1);
	VCOVER(run0 == 0 && running == 0);
	VCOVER(run0 != 0);
#elif SSF == 1
	events_network_selectstats_stopclock();
	__CPROVER_assert(running == 0, "clock stopped");
	VCOVER(run0 != 0);
#else
	events_network_selectstats_select();
	__CPROVER_assert(running == 0, "clock stopped by select");
	VCOVER(run0 != 0);
	VCOVER(run0 == 0);
#endif
}
