/* VERIF-GROUP
{
 "property": ["C04"],
 "entry": "h_doevent",
 "enforce": ["doevent"],
 "replace": [],
 "annotate": ["events/events.c"],
 "defines": ["VERIF_HALLOC", "EV_WITH_POOL"],
 "matrix": {"PLEN": [0, 4095, 4096]},
 "models": ["models/ev_atexit.c"],
 "cbmc": ["--malloc-may-fail", "--malloc-fail-null"],
 "timeout": 300,
 "assumptions": ["the callback is the abstract ev_cb_model (harness/C05/disp.h): any result, may call events_interrupt, may set the user's done flag",
                 "mpool (real code, inlined), stack length PLEN constant, invariant at the entries it touches (C12)"]
}
*/
#include <stdlib.h>
#include "verif.h"
#define EV_REC_NO_DECL
#include "ev_disp.h"
size_t g_live; struct eventrec * g_lastrec; struct eventrec * g_lastfreed;
EV_DISP_GHOSTS;
#include "events/events.c"
#include "../C04/rec.h"
#include "../C05/disp.h"

void
h_doevent(void)
{
	struct eventrec * r;
	IN(void *, cookie);
	int rc;

	REC_MK_POOL();
	DISP_START();
	__CPROVER_assume(g_live > 0);
	g_user_done = NULL;
	r = malloc(sizeof(struct eventrec)); __CPROVER_assume(r != NULL);
	r->func = ev_cb_model; r->cookie = cookie;
	g_pending = r;
	unsigned calls0 = g_cb_calls;
	int intr0 = interrupt_requested;

	rc = doevent(r);

	__CPROVER_assert(g_cb_calls == calls0 + 1 && g_cb_cookie == cookie, "callback invoked exactly once, with its own cookie");
	VCOVER(rc != 0 && interrupt_requested == 1 && intr0 == 0);
	VCOVER(rc == 0 && interrupt_requested == 0);
#if PLEN < 4096
	VCOVER(mpool_eventrec_rec.stacklen == PLEN + 1);
#endif
}
