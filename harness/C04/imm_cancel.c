/* VERIF-GROUP
{
 "property": ["C04", "C14"],
 "entry": "h_imm_cancel",
 "enforce": ["events_immediate_cancel"],
 "replace": ["events_freerec"],
 "annotate": ["events/events_immediate.c"],
 "defines": ["VERIF_HALLOC"],
 "models": ["models/ev_atexit.c"],
 "cbmc": ["--malloc-may-fail", "--malloc-fail-null"],
 "bounded": true,
 "bound": "queue contents with <= 4 nodes in total (any priorities, any arrival order), built with the real TAILQ_INSERT_TAIL; the minq invariant itself is stated for all 32 priorities (G1)",
 "timeout": 300,
 "assumptions": ["events_mkrec / events_freerec replaced by their contracts (models/ev_rec.h; enforced in C04/rec_*)",
                 "node pool MPOOL(eventq) = real mpool code, empty stack (pool behaviour is C12's subject)",
                 "meta-level induction over histories (L-ind)"]
}
*/
#include <stdlib.h>
#include "verif.h"
#include "ev_rec.h"
#include "../C04/imm.h"
IMM_GHOSTS;
#include "events/events_immediate.c"
static int cb(void * c) { (void)c; return (0); }

void
h_imm_cancel(void)
{
	struct imm_pre P;
	IN(int, which);
	struct eventq * q;

	IMM_MK_STATE(P);
	__CPROVER_assume(which >= 0 && which < P.cnt && g_live > 0);
	q = P.n[which];
	int prio = q->prio;
	struct eventq * prev = (TAILQ_FIRST(&heads[prio]) == q) ? NULL : TAILQ_PREV(q, tailhead, entries);
	struct eventq * next = TAILQ_NEXT(q, entries);
	struct eventq * first0 = TAILQ_FIRST(&heads[prio]);

	events_immediate_cancel(q);

	/* the node is unlinked, its neighbours are joined, the rest of the queue keeps its order */
	if (prev != NULL)
		__CPROVER_assert(TAILQ_NEXT(prev, entries) == next, "predecessor now followed by the successor");
	else
		__CPROVER_assert(TAILQ_FIRST(&heads[prio]) == next, "successor is first now");
	if (next == NULL)
		__CPROVER_assert(prev == NULL ? TAILQ_EMPTY(&heads[prio]) : TAILQ_LAST(&heads[prio], tailhead) == prev, "predecessor is last now");
	__CPROVER_assert(first0 == q || TAILQ_FIRST(&heads[prio]) == first0, "head unchanged unless it was cancelled");
	VCOVER(prev != NULL && next != NULL);
	VCOVER(prev == NULL && next != NULL);
	VCOVER(prev != NULL && next == NULL);
	VCOVER(prev == NULL && next == NULL && P.cnt == 4);
}
