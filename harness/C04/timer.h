/*
 * Shared pre-state for the events_timer.c harnesses: every state of (Q, abstract queue, clock) satisfying INV_timer.
 * The tracked timer (if in the queue) is a harness-allocated struct timerrec with its own event record and handle.
 */
#ifndef TIMER_H_
#define TIMER_H_
#include "ev_spec.h"
#define TIMER_GHOSTS \
	size_t g_live; struct eventrec * g_lastrec; struct eventrec * g_lastfreed
struct tm_pre { struct timerrec * t; struct eventrec * rec; };
#define TIMER_MK_STATE(P, allow_noq) do { \
	IN(int, mk_noq); IN(int, mk_in); IN(size_t, mk_others); IN(size_t, mk_live); \
	(P).t = NULL; (P).rec = NULL; \
	g_mc_now.tv_sec = __VERIFIER_nondet_long(); g_mc_now.tv_usec = __VERIFIER_nondet_long(); \
	__CPROVER_assume(EV_TV_OK(g_mc_now)); \
	{ IN(unsigned, mk_calls); g_mc_calls = mk_calls; } \
	g_live = mk_live; g_tq.in = 0; g_tq_others = 0; g_tq_track_next = 0; \
	if ((allow_noq) && mk_noq) { Q = NULL; } else { \
		Q = malloc(1); __CPROVER_assume(Q != NULL); \
		g_tq_others = mk_others; \
		if (mk_in) { \
			(P).t = malloc(sizeof(struct timerrec)); __CPROVER_assume((P).t != NULL); \
			(P).rec = malloc(EV_RECSZ); __CPROVER_assume((P).rec != NULL); \
			(P).t->r = (P).rec; \
			(P).t->cookie = malloc(1); __CPROVER_assume((P).t->cookie != NULL); \
			g_tq.in = 1; g_tq.ptr = (P).t; g_tq.cookie = (P).t->cookie; \
			g_tq.tv.tv_sec = __VERIFIER_nondet_long(); g_tq.tv.tv_usec = __VERIFIER_nondet_long(); \
			__CPROVER_assume(EV_TV_OK((P).t->tv_orig) && EV_TV_OK(g_tq.tv)); \
			__CPROVER_assume(TV_LE_SUM(g_tq.tv, g_mc_now, (P).t->tv_orig)); \
		} \
	} \
} while (0)
long __VERIFIER_nondet_long(void);
int __VERIFIER_nondet_int(void);
#endif
