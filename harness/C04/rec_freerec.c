/* VERIF-GROUP
{
 "property": ["C04", "C14"],
 "entry": "h_freerec",
 "enforce": ["events_freerec"],
 "replace": [],
 "annotate": ["events/events.c"],
 "defines": ["VERIF_HALLOC", "EV_WITH_POOL"],
 "matrix": {"PLEN": [0, 1, 4095, 4096]},
 "models": ["models/ev_atexit.c"],
 "cbmc": ["--malloc-may-fail", "--malloc-fail-null"],
 "timeout": 300,
 "assumptions": ["mpool (real code, inlined) in a state satisfying its invariant at the entries it touches (C12); a pool whose stack has grown beyond the static 4096 entries is covered by C12's mpool_free proof, here the stack is the static array (full or not)"]
}
*/
#include <stdlib.h>
#include "verif.h"
#define EV_REC_NO_DECL
#include "ev_disp.h"
size_t g_live; struct eventrec * g_lastrec; struct eventrec * g_lastfreed;
EV_DISP_GHOSTS;
#include "events/events.c"
#include "../C04/rec.h"
int ev_cb_model(void * c) { (void)c; return (0); }

void
h_freerec(void)
{
	IN(int, isnull);
	struct eventrec * r = NULL;

	REC_MK_POOL();
	IN(size_t, live0); g_live = live0;
	if (!isnull) {
		r = malloc(sizeof(struct eventrec)); __CPROVER_assume(r != NULL);
		__CPROVER_assume(live0 > 0);
	}
	size_t len0 = mpool_eventrec_rec.stacklen;

	events_freerec(r);

#if PLEN < 4096
	VCOVER(r != NULL && mpool_eventrec_rec.stacklen == len0 + 1 && mpool_eventrec_rec.allocs[len0] == r);
#else
	VCOVER(r != NULL && mpool_eventrec_rec.allocsize == 8192 && mpool_eventrec_rec.stacklen == 4097);
	VCOVER(r != NULL && mpool_eventrec_rec.allocsize == 4096 && mpool_eventrec_rec.nallocs == 0);
#endif
	VCOVER(r == NULL && g_live == live0);
}
