/* VERIF-GROUP
{
 "property": ["C04", "C05"],
 "entry": "h_timer_get",
 "enforce": ["events_timer_get"],
 "replace": [],
 "annotate": ["events/events_timer.c"],
 "defines": ["VERIF_HALLOC"],
 "models": ["models/ev_monoclock.c", "models/ev_timerqueue.c", "models/ev_atexit.c"],
 "cbmc": ["--malloc-may-fail", "--malloc-fail-null"],
 "timeout": 300,
 "assumptions": ["timer queue = abstract model models/ev_timerqueue.c (assumed contract of datastruct/timerqueue.c, proved in C13): one tracked element + anonymous rest",
                 "monoclock_get per models/ev_monoclock.c (may fail; normalised, monotone, 0 <= tv_sec <= 2^60); timeouts normalised with tv_sec <= 2^60",
                 "events_mkrec / events_freerec replaced by their contracts (models/ev_rec.h; enforced in C04/rec_*); atexit per models/ev_atexit.c",
                 "meta-level induction over histories (L-ind)"]
}
*/
#include <stdlib.h>
#include "verif.h"
#include "ev_rec.h"
#include "../C04/timer.h"
TIMER_GHOSTS;
#include "events/events_timer.c"
typedef char tm_size_check[(sizeof(struct timerrec) == EV_TQ_PTRSZ) ? 1 : -1];
static int cb(void * c) { (void)c; return (0); }

void
h_timer_get(void)
{
	struct tm_pre P;
	struct eventrec * r;
	int rc;

	TIMER_MK_STATE(P, 1);
	int in0 = g_tq.in;
	size_t others0 = g_tq_others;
	struct timeval d0 = g_tq.tv;

	rc = events_timer_get(&r);

	if (rc == 0 && r != NULL && in0 && !g_tq.in) {
		__CPROVER_assert(r == P.rec, "the timer's own event record is returned");
		__CPROVER_assert(EV_TV_LE(d0, g_mc_now), "a timer never fires before the clock reaches its deadline");
	}
	if (rc == 0 && r == NULL && in0)
		__CPROVER_assert(g_tq.in, "a timer that did not fire stays registered");
	VCOVER(rc == 0 && r != NULL && in0 && !g_tq.in && others0 > 0);
	VCOVER(rc == 0 && r != NULL && in0 && g_tq.in && g_tq_others == others0 - 1);
	VCOVER(rc == 0 && r == NULL && in0 && others0 > 0);
	VCOVER(rc == 0 && r == NULL && Q == NULL);
	VCOVER(rc == 0 && r == NULL && Q != NULL && !in0 && others0 == 0);
	VCOVER(rc == -1 && in0);
	VCOVER(rc == 0 && r != NULL && in0 && !g_tq.in && TV_EQ(d0, g_mc_now));
}
