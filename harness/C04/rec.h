/*
 * Pre-state of the record pool of events/events.c (MPOOL(eventrec, struct eventrec, 4096), real datastruct/mpool.h
 * code inlined): every pool state the dispatcher can be in, as far as the operation under proof looks at it:
 * stack length PLEN is a matrix constant (0, 1, 4095, 4096 = full: the growth path); the top POOL_K entries of the stack are live objects of the record size owned by the pool (mpool's invariant,
 * C12), counters arbitrary, the stack still the static array (a grown stack is C12's mpool_free proof).
 */
#ifndef REC_H_
#define REC_H_
#define POOL_K 2
#define REC_MK_POOL() do { \
	IN(size_t, pk_len); IN(uint64_t, pk_na); IN(uint64_t, pk_ne); IN(int, pk_state); \
	__CPROVER_assume(pk_len == PLEN && (pk_state == 0 || pk_state == 1)); \
	mpool_eventrec_rec.allocsize = 4096; mpool_eventrec_rec.allocs = mpool_eventrec_static; \
	mpool_eventrec_rec.allocs_static = mpool_eventrec_static; mpool_eventrec_rec.atexitfunc = mpool_eventrec_atexit; \
	mpool_eventrec_rec.stacklen = PLEN; mpool_eventrec_rec.nallocs = pk_na; mpool_eventrec_rec.nempties = pk_ne; \
	mpool_eventrec_rec.state = pk_state; \
	__CPROVER_assume(pk_na < UINT64_MAX); \
	for (size_t pk_i = 1; pk_i <= POOL_K; pk_i++) if (pk_i <= PLEN) { \
		void * pk_o = malloc(sizeof(struct eventrec)); __CPROVER_assume(pk_o != NULL); \
		mpool_eventrec_static[PLEN - pk_i] = pk_o; \
	} \
} while (0)
#endif
