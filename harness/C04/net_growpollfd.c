/* VERIF-GROUP
{
 "property": ["C04", "C14"],
 "entry": "h_growpollfd",
 "enforce": ["growpollfd"],
 "replace": [],
 "annotate": ["events/events_network.c"],
 "defines": ["VERIF_HALLOC", "NET_FIXCAP_S"],
 "matrix": {"NET_FA_EXACT": [0, 1, 2, 3]},
 "models": ["models/ev_poll.c", "models/ev_atexit.c", "models/ev_selectstats.c", "models/ev_warnp.c"],
 "cbmc": ["--malloc-may-fail", "--malloc-fail-null"],
 "timeout": 300,
 "assumptions": ["object-size parameters: <= NS_Q descriptors in S, <= NF_Q initialised / NF_A allocated pollfd entries",
                 "CBMC's realloc model (may fail, may move)"]
}
*/
#include <stdlib.h>
#include "verif.h"
#include "ev_rec.h"
#include "../C04/net.h"
NET_GHOSTS;
#include "datastruct/elasticarray.c"
#include "events/events_network.c"

void
h_growpollfd(void)
{
	IN(size_t, fd);
	int rc;

	NET_MK_STATE();
	EV_SPEC_BEGIN
	/* as events_network_register calls it: the slot of fd was just filled, fd is not yet in the poll array */
	__CPROVER_assume(nfds < NF_Q && fd < NS_N && NS_R(fd).pollpos == NOPOS);
	__CPROVER_assume(NET_ALL_F & NET_INV_G & NET_ALL_S_BUT(fd));
	EV_SPEC_END
	size_t nfds0 = nfds, fa0 = fds_alloc;

	rc = growpollfd(fd);

#if NET_FA_EXACT == 0
	VCOVER(rc == 0 && fa0 == 0 && fds_alloc == 16);
	VCOVER(rc == -1 && fa0 == 0);
#else
	VCOVER(rc == 0 && fa0 == nfds0 && fds_alloc == 2 * fa0 && g_nj < nfds0);
	VCOVER(rc == 0 && fa0 > nfds0 && fds_alloc == fa0);
	VCOVER(rc == -1 && g_nj < nfds0);
#endif
#if NET_FA_EXACT >= 2
	VCOVER(rc == 0 && fa0 > nfds0 && g_nj < nfds0 && g_ns < NS_N && NS_R(g_ns).pollpos == g_nj);
#endif
}
