/* VERIF-GROUP
{
 "property": ["C04", "C14"],
 "entry": "h_growsocketlist",
 "enforce": ["growsocketlist"],
 "replace": [],
 "annotate": ["events/events_network.c"],
 "defines": ["VERIF_HALLOC", "NET_FIXCAP_F"],
 "matrix": {"GSL": [0, 1, 2, 3, 4, 5]},
 "models": ["models/ev_poll.c", "models/ev_atexit.c", "models/ev_selectstats.c", "models/ev_warnp.c"],
 "cbmc": ["--malloc-may-fail", "--malloc-fail-null", "--unwindset", "growsocketlist_wrapped_for_contract_checking.0:5"],
 "loop_contracts": false,
 "bounded": true,
 "bound": "initialisation loop unwound NS_Q+1 = 5 times: complete for <= NS_Q = 4 descriptors (unwinding assertion checked)",
 "timeout": 300,
 "assumptions": ["object-size parameters: <= NS_Q descriptors; capacity of S (records) / new record count are constants per GSL: 0/1 0/4 1/2 1/4 2/3 4/4 (CBMC's realloc model needs concrete sizes)",
                 "elasticarray_resize inlined (real code); CBMC's realloc model (may fail, may move)"]
}
*/
#if GSL == 0
#define NET_SA_EXACT 0
#define NREC 1
#elif GSL == 1
#define NET_SA_EXACT 0
#define NREC 4
#elif GSL == 2
#define NET_SA_EXACT 1
#define NREC 2
#elif GSL == 3
#define NET_SA_EXACT 1
#define NREC 4
#elif GSL == 4
#define NET_SA_EXACT 2
#define NREC 3
#else
#define NET_SA_EXACT 4
#define NREC 4
#endif
#include <stdlib.h>
#include "verif.h"
#include "ev_rec.h"
#include "../C04/net.h"
NET_GHOSTS;
#include "datastruct/elasticarray.c"
#include "events/events_network.c"

void
h_growsocketlist(void)
{
	int rc;

	NET_MK_STATE();
	EV_SPEC_BEGIN
	__CPROVER_assume(NET_INV_PURE);
	EV_SPEC_END
	__CPROVER_assume(NREC > NS_N);
	size_t ns0 = NS_N;

	rc = growsocketlist(NREC);

	VCOVER(rc == 0 && g_ns >= ns0 && g_ns < NREC);
#if NET_SA_EXACT > 0
	VCOVER(rc == 0 && g_ns < ns0 && NS_R(g_ns).reader != NULL);
#endif
#if NET_SA_EXACT < 4
	VCOVER(rc == -1);
#endif
#if NET_SA_EXACT == 4
	VCOVER(rc == 0 && ns0 == 1);
#endif
}
