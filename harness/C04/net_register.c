/* VERIF-GROUP
{
 "property": ["C04", "C14"],
 "entry": "h_register",
 "enforce": ["events_network_register"],
 "replace": ["events_mkrec", "events_freerec"],
 "annotate": ["events/events_network.c"],
 "defines": ["VERIF_HALLOC"],
 "matrix": {"REGCASE": [0, 1, 2, 3, 4, 5, 6, 7, 8, 9, 10, 11]},
 "models": ["models/ev_poll.c", "models/ev_atexit.c", "models/ev_selectstats.c", "models/ev_warnp.c"],
 "cbmc": ["--malloc-may-fail", "--malloc-fail-null", "--unwindset", "growsocketlist.0:5"],
 "loop_contracts": false,
 "bounded": true,
 "bound": "the record-initialisation loop of growsocketlist (inlined here) is unwound NS_Q+1 times: complete for descriptors < NS_Q = 4 (unwinding assertion checked)",
 "timeout": 300,
 "assumptions": ["object-size parameters: descriptors < NS_Q, <= NF_Q pollfd entries; capacity of S (records) / capacity of fds (entries) / descriptor number are constants per REGCASE: 4/0/0 4/2/1 4/2/3 4/4/2 0/0/0 0/0/3 1/1/0 1/1/1 1/1/3 2/3/2 2/3/3 2/1/1 (CBMC's realloc model needs concrete sizes); invalid arguments: C04/net_badargs",
                 "events_mkrec / events_freerec replaced by their contracts (models/ev_rec.h; enforced on the real functions in C04/rec_*)",
                 "growsocketlist, growpollfd, elasticarray_resize inlined (real code); CBMC's realloc model (may fail, may move)",
                 "state S == NULL is covered by C04/net_uninit",
                 "meta-level induction over histories (L-ind)"]
}
*/
/* REGCASE -> (capacity of S in records, capacity of fds in entries, descriptor being registered) */
#if REGCASE <= 3
#define NET_SA_EXACT 4
#elif REGCASE <= 5
#define NET_SA_EXACT 0
#elif REGCASE <= 8
#define NET_SA_EXACT 1
#else
#define NET_SA_EXACT 2
#endif
#if REGCASE == 0 || REGCASE == 4 || REGCASE == 5
#define NET_FA_EXACT 0
#elif REGCASE == 1 || REGCASE == 2
#define NET_FA_EXACT 2
#elif REGCASE == 3
#define NET_FA_EXACT 4
#elif REGCASE == 9 || REGCASE == 10
#define NET_FA_EXACT 3
#else
#define NET_FA_EXACT 1
#endif
#if REGCASE == 0 || REGCASE == 4 || REGCASE == 6
#define RS 0
#elif REGCASE == 1 || REGCASE == 7 || REGCASE == 11
#define RS 1
#elif REGCASE == 3 || REGCASE == 9
#define RS 2
#else
#define RS 3
#endif
/* can this instance reach the realloc of fds? (needs nfds == capacity with the descriptor not yet polled) */
#if REGCASE == 1 || REGCASE == 2 || REGCASE == 7 || REGCASE == 8 || REGCASE == 11
#define FDS_REALLOC_REACHABLE 1
#else
#define FDS_REALLOC_REACHABLE 0
#endif
#include <stdlib.h>
#include "verif.h"
#include "ev_rec.h"
#include "../C04/net.h"
NET_GHOSTS;
#include "datastruct/elasticarray.c"
#include "events/events_network.c"

static int cb(void * c) { (void)c; return (0); }

void
h_register(void)
{
	IN(int, s);
	IN(int, op);
	IN(void *, cookie);
	int rc;

	NET_MK_STATE();
	EV_SPEC_BEGIN
	__CPROVER_assume(NET_INV_PURE);
	EV_SPEC_END
	/* the descriptor number is a matrix constant (CBMC's realloc model needs concrete sizes); invalid arguments: C04/net_badargs */
	__CPROVER_assume(s == RS);
	__CPROVER_assume(nfds < NF_Q && s < (int)NS_Q && g_live < SIZE_MAX);
	size_t nfds0 = nfds, ns0 = NS_N, fa0 = fds_alloc, mk_live0 = g_live;
	int valid = (s >= 0 && (op == EVENTS_NETWORK_OP_READ || op == EVENTS_NETWORK_OP_WRITE));
	int occupied = (valid && (size_t)s < ns0 && NET_SLOT(s, op) != NULL);
	int other = (valid && (size_t)s < ns0 && NET_SLOT(s, 1 - op) != NULL);

	rc = events_network_register(cb, cookie, s, op);

	EV_SPEC_BEGIN
	__CPROVER_assert(!occupied || rc == -1, "a second registration for the same descriptor/direction is refused");
	__CPROVER_assert(rc != 0 || (NET_SLOT(s, op) != NULL && (fds[NS_R(s).pollpos].revents & NET_BIT(op)) == 0),
	    "registered, and no stale readiness can fire it");
	EV_SPEC_END

#if RS < NET_SA_EXACT && NET_FA_EXACT > 0
	VCOVER(rc == 0 && other && nfds == nfds0);
	VCOVER(rc == -1 && occupied);
#endif
#if RS < NET_SA_EXACT
	VCOVER(rc == -1 && valid && !occupied && !other && (size_t)s < ns0 && g_lastfreed == g_lastrec && g_lastrec != NULL && g_live == mk_live0);
#endif
	VCOVER(rc == 0 && !other && nfds == nfds0 + 1 && (size_t)s == g_ns && op == EVENTS_NETWORK_OP_WRITE);
	VCOVER(rc == -1 && !valid);
#if RS >= NET_SA_EXACT
	VCOVER(rc == 0 && NS_N == RS + 1 && ns0 == NET_SA_EXACT);
	VCOVER(rc == -1 && valid && (size_t)s >= ns0 && NS_N == ns0);
#endif
#if NET_SA_EXACT == 2 && RS == 3
	VCOVER(rc == 0 && NS_N == ns0 + 2 && g_ns < ns0 && NS_R(g_ns).reader != NULL);
	VCOVER(rc == 0 && g_ns == 2 && NS_R(g_ns).reader == NULL && NS_R(g_ns).pollpos == SIZE_MAX);
#endif
#if FDS_REALLOC_REACHABLE
	VCOVER(rc == 0 && fds_alloc == 2 * fa0 && g_nj < nfds0);
#endif
#if NET_FA_EXACT == 0
	VCOVER(rc == 0 && fds_alloc == 16);
#endif
}
