/* VERIF-GROUP
{
 "property": ["C04", "C14"],
 "entry": "h_init",
 "enforce": ["init"],
 "replace": [],
 "annotate": ["events/events_network.c"],
 "defines": ["VERIF_HALLOC", "NET_FIXCAP"],
 "models": ["models/ev_poll.c", "models/ev_atexit.c", "models/ev_selectstats.c", "models/ev_warnp.c"],
 "cbmc": ["--malloc-may-fail", "--malloc-fail-null"],
 "timeout": 300,
 "assumptions": ["atexit per models/ev_atexit.c (may fail); malloc may fail",
                 "events_network_register from the uninitialised state = init() (this group) followed, on success, by a registration in the empty initialised state (C04/net_register REGCASE 4, 5); on failure register returns -1 at once (one-line composition, by inspection)"]
}
*/
#include <stdlib.h>
#include "verif.h"
#include "ev_rec.h"
#include "../C04/net.h"
NET_GHOSTS;
#include "datastruct/elasticarray.c"
#include "events/events_network.c"

void
h_init(void)
{
	IN(int, uninit);
	int rc;

	if (uninit) {
		NET_MK_UNINIT();
	} else {
		NET_MK_STATE();
	}
	g_atexit_calls = 0;

	rc = init();

	VCOVER(uninit && rc == 0 && g_atexit_calls == 1);
	VCOVER(uninit && rc == -1 && S == NULL && g_atexit_calls == 0);
	VCOVER(uninit && rc == -1 && S != NULL && g_atexit_calls == 1);
	VCOVER(!uninit && rc == 0 && nfds > 0);
}
