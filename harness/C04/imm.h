/*
 * Pre-states for the events_immediate.c harnesses (bounded stand-in): every state of heads[32]/minq with at most
 * IMM_NODES (4) nodes, each at an arbitrary priority, linked in arbitrary arrival order with the real
 * TAILQ_INSERT_TAIL; minq any value allowed by INV_imm.  The node pool (MPOOL(eventq), real mpool code) is empty.
 */
#ifndef IMM_H_
#define IMM_H_
#define IMM_NODES 4
#define IMM_GHOSTS int g_ip; struct eventq * g_imm_got_q; int g_imm_got_prio; \
	size_t g_live; struct eventrec * g_lastrec; struct eventrec * g_lastfreed; struct eventq * g_imm_nodes[4]
struct imm_pre { struct eventq * n[IMM_NODES]; int cnt; };
#define IMM_MK_STATE(P) do { \
	for (int ik = 0; ik < 32; ik++) TAILQ_INIT(&heads[ik]); \
	mpool_eventq_rec.stacklen = 0; mpool_eventq_rec.allocsize = 4096; mpool_eventq_rec.allocs = mpool_eventq_static; \
	mpool_eventq_rec.allocs_static = mpool_eventq_static; mpool_eventq_rec.atexitfunc = mpool_eventq_atexit; \
	{ IN(uint64_t, ik_na); IN(uint64_t, ik_ne); IN(int, ik_st); __CPROVER_assume(ik_na < UINT64_MAX && (ik_st == 0 || ik_st == 1)); \
	  mpool_eventq_rec.nallocs = ik_na; mpool_eventq_rec.nempties = ik_ne; mpool_eventq_rec.state = ik_st; } \
	IN(int, ik_cnt); __CPROVER_assume(ik_cnt >= 0 && ik_cnt <= IMM_NODES); (P).cnt = ik_cnt; \
	int ik_min = 32; \
	for (int ik = 0; ik < IMM_NODES; ik++) { \
		(P).n[ik] = NULL; g_imm_nodes[ik] = NULL; \
		if (ik < ik_cnt) { \
			IN(int, ik_p); __CPROVER_assume(ik_p >= 0 && ik_p < 32); \
			struct eventq * ik_q = malloc(sizeof(struct eventq)); __CPROVER_assume(ik_q != NULL); \
			ik_q->r = malloc(EV_RECSZ); __CPROVER_assume(ik_q->r != NULL); \
			ik_q->prio = ik_p; \
			TAILQ_INSERT_TAIL(&heads[ik_p], ik_q, entries); \
			(P).n[ik] = ik_q; g_imm_nodes[ik] = ik_q; \
			if (ik_p < ik_min) ik_min = ik_p; \
		} \
	} \
	{ IN(int, ik_minq); __CPROVER_assume(ik_minq >= 0 && ik_minq <= ik_min); minq = ik_minq; } \
	{ IN(int, ik_gp); __CPROVER_assume(ik_gp >= 0 && ik_gp < 32); g_ip = ik_gp; } \
	{ IN(size_t, ik_live); g_live = ik_live; } \
} while (0)
#endif
