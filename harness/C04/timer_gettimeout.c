/* VERIF-GROUP
{
 "property": ["C04"],
 "entry": "h_timer_gettimeout",
 "enforce": ["gettimeout"],
 "replace": [],
 "annotate": ["events/events_timer.c"],
 "defines": ["VERIF_HALLOC"],
 "models": ["models/ev_monoclock.c", "models/ev_timerqueue.c", "models/ev_atexit.c"],
 "cbmc": ["--malloc-may-fail", "--malloc-fail-null"],
 "timeout": 300,
 "assumptions": ["timer queue = abstract model models/ev_timerqueue.c (assumed contract of datastruct/timerqueue.c, proved in C13): one tracked element + anonymous rest",
                 "monoclock_get per models/ev_monoclock.c (may fail; normalised, monotone, 0 <= tv_sec <= 2^60); timeouts normalised with tv_sec <= 2^60",
                 "events_mkrec / events_freerec replaced by their contracts (models/ev_rec.h; enforced in C04/rec_*); atexit per models/ev_atexit.c",
                 "meta-level induction over histories (L-ind)"]
}
*/
#include <stdlib.h>
#include "verif.h"
#include "ev_rec.h"
#include "../C04/timer.h"
TIMER_GHOSTS;
#include "events/events_timer.c"
typedef char tm_size_check[(sizeof(struct timerrec) == EV_TQ_PTRSZ) ? 1 : -1];
static int cb(void * c) { (void)c; return (0); }

void
h_timer_gettimeout(void)
{
	struct tm_pre P;
	struct timeval tv, d;
	int rc;

	TIMER_MK_STATE(P, 1);
	__CPROVER_assume(EV_TV_OK(d));
	struct timeval now0 = g_mc_now;

	rc = gettimeout(&tv, &d);

	if (rc == 0) {
		/* deadline - delta = the clock value read (in microsecond arithmetic, no overflow by the 2^60 bound) */
		__CPROVER_assert(EV_TV_LE(g_mc_now, tv), "deadline is not before the clock value");
		__CPROVER_assert(EV_TV_LE(now0, g_mc_now), "clock monotone");
	}
	VCOVER(rc == 0 && g_mc_now.tv_usec + d.tv_usec >= 1000000 && tv.tv_sec == g_mc_now.tv_sec + d.tv_sec + 1);
	VCOVER(rc == 0 && g_mc_now.tv_usec + d.tv_usec < 1000000 && d.tv_sec > 0);
	VCOVER(rc == 0 && d.tv_sec == 0 && d.tv_usec == 0);
	VCOVER(rc == -1);
}
