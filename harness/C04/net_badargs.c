/* VERIF-GROUP
{
 "property": ["C04", "C14"],
 "entry": "h_badargs",
 "enforce": ["events_network_register"],
 "replace": ["events_mkrec", "events_freerec"],
 "annotate": ["events/events_network.c"],
 "defines": ["VERIF_HALLOC", "NET_FIXCAP"],
 "matrix": {"BADS": [-1, -2147483647, 2]},
 "models": ["models/ev_poll.c", "models/ev_atexit.c", "models/ev_selectstats.c", "models/ev_warnp.c"],
 "cbmc": ["--malloc-may-fail", "--malloc-fail-null", "--unwindset", "growsocketlist.0:5"],
 "loop_contracts": false,
 "timeout": 300,
 "assumptions": ["invalid arguments only: descriptor BADS (-1, -INT_MAX: any op; 2: any op that is neither READ nor WRITE) -- the descriptor is a constant because CBMC's realloc model needs concrete sizes on the (unreachable) growth path; valid arguments: C04/net_register"]
}
*/
#include <stdlib.h>
#include "verif.h"
#include "ev_rec.h"
#include "../C04/net.h"
NET_GHOSTS;
#include "datastruct/elasticarray.c"
#include "events/events_network.c"

static int cb(void * c) { (void)c; return (0); }

void
h_badargs(void)
{
	IN(int, s);
	IN(int, op);
	IN(void *, cookie);
	int rc;

	NET_MK_STATE();
	EV_SPEC_BEGIN
	__CPROVER_assume(NET_INV_PURE);
	EV_SPEC_END
	__CPROVER_assume(nfds < NF_Q && s < (int)NS_Q && g_live < SIZE_MAX);
	__CPROVER_assume(s == BADS);
	__CPROVER_assume(s < 0 || (op != EVENTS_NETWORK_OP_READ && op != EVENTS_NETWORK_OP_WRITE));
	size_t nfds0 = nfds, live0 = g_live;

	rc = events_network_register(cb, cookie, s, op);

	__CPROVER_assert(rc == -1 && nfds == nfds0 && g_live == live0, "invalid arguments are refused and nothing is registered");
#if BADS < 0
	VCOVER(op == EVENTS_NETWORK_OP_READ);
#else
	VCOVER(op == 2);
#endif
}
