/*
 * Shared pre-state construction for the events_network.c harnesses.
 * Include order in a harness:  verif.h, ghost definitions (NET_GHOSTS), the REAL datastruct/elasticarray.c
 * (socketlist_get returns an interior pointer: inlined, never replaced), the annotated events/events_network.c,
 * then this file.
 */
#ifndef NET_H_
#define NET_H_
#include "ev_spec.h"

/* ghost state declared extern by the spec / models */
#define NET_GHOSTS \
	size_t g_ns, g_nj, g_got_fd; int g_got_op; \
	int g_rdy_r, g_rdy_w, g_errhup; \
	size_t g_live; struct eventrec * g_lastrec; struct eventrec * g_lastfreed

/*
 * Every state with S != NULL that satisfies INV_net within the size parameters: S holds ns <= NS_Q descriptors,
 * nfds <= NF_Q entries of fds_alloc <= NF_A allocated, every registered slot holds its own live record object.
 * Objects are allocated by the harness (pointers must be assigned, not assumed: HOWTO trap 1); the scalar content
 * is arbitrary and then constrained by INV_net.
 */
/*
 * Capacities.  NET_FIXCAP_S / NET_FIXCAP_F: the capacity of S / of fds is fixed at the size parameter (for the
 * functions that never reallocate it: the capacity is then irrelevant and a typed constant-size object is ~40x
 * cheaper for CBMC than an object of symbolic size).  Otherwise the capacity is symbolic.
 */
#ifdef NET_FIXCAP
#define NET_FIXCAP_S
#define NET_FIXCAP_F
#endif
#ifdef NET_SA_EXACT
/* capacity of S fixed at NET_SA_EXACT records (functions that realloc S are proved per capacity) */
#if NET_SA_EXACT == 0
#define NET_ALLOC_S(ea, a) do { __CPROVER_assume((a) == 0); (ea)->alloc = 0; (ea)->buf = NULL; } while (0)
#else
#define NET_ALLOC_S(ea, a) do { __CPROVER_assume((a) == NET_SA_EXACT * sizeof(struct socketrec)); \
	(ea)->alloc = NET_SA_EXACT * sizeof(struct socketrec); (ea)->buf = malloc(NET_SA_EXACT * sizeof(struct socketrec)); __CPROVER_assume((ea)->buf != NULL); } while (0)
#endif
#elif defined(NET_FIXCAP_S)
#define NET_ALLOC_S(ea, a) do { __CPROVER_assume((a) == NS_Q * sizeof(struct socketrec)); \
	(ea)->alloc = NS_Q * sizeof(struct socketrec); (ea)->buf = malloc(NS_Q * sizeof(struct socketrec)); __CPROVER_assume((ea)->buf != NULL); } while (0)
#else
#define NET_ALLOC_S(ea, a) do { if ((a) == 0) (ea)->buf = NULL; \
	else { (ea)->buf = malloc(a); __CPROVER_assume((ea)->buf != NULL); } } while (0)
#endif
#ifdef NET_FA_EXACT
/* capacity of fds fixed at the (matrix) value NET_FA_EXACT: the functions that realloc fds are proved per capacity */
#if NET_FA_EXACT == 0
#define NET_ALLOC_F(a) do { __CPROVER_assume((a) == 0); fds_alloc = 0; fds = NULL; } while (0)
#else
#define NET_ALLOC_F(a) do { __CPROVER_assume((a) == NET_FA_EXACT); fds_alloc = NET_FA_EXACT; \
	fds = malloc(NET_FA_EXACT * sizeof(struct pollfd)); __CPROVER_assume(fds != NULL); } while (0)
#endif
#elif defined(NET_FIXCAP_F)
#define NET_ALLOC_F(a) do { __CPROVER_assume((a) == NF_A); fds_alloc = NF_A; \
	fds = malloc(NF_A * sizeof(struct pollfd)); __CPROVER_assume(fds != NULL); } while (0)
#else
#define NET_ALLOC_F(a) do { if ((a) == 0) fds = NULL; \
	else { fds = malloc((a) * sizeof(struct pollfd)); __CPROVER_assume(fds != NULL); } } while (0)
#endif

#define NET_MK_STATE() do { \
	struct elasticarray * mk_ea = malloc(sizeof(struct elasticarray)); \
	__CPROVER_assume(mk_ea != NULL); \
	IN(size_t, mk_ns); IN(size_t, mk_salloc); \
	__CPROVER_assume(mk_ns <= NS_Q && mk_ns * sizeof(struct socketrec) <= mk_salloc && \
	    mk_salloc <= 2 * NS_Q * sizeof(struct socketrec)); \
	mk_ea->size = mk_ns * sizeof(struct socketrec); mk_ea->alloc = mk_salloc; \
	NET_ALLOC_S(mk_ea, mk_salloc); \
	S = (SOCKETLIST)mk_ea; \
	for (size_t mk_i = 0; mk_i < NS_Q; mk_i++) if (mk_i < mk_ns) { \
		IN(int, mk_hr); IN(int, mk_hw); \
		NS_R(mk_i).reader = NULL; NS_R(mk_i).writer = NULL; \
		if (mk_hr) { NS_R(mk_i).reader = malloc(EV_RECSZ); __CPROVER_assume(NS_R(mk_i).reader != NULL); } \
		if (mk_hw) { NS_R(mk_i).writer = malloc(EV_RECSZ); __CPROVER_assume(NS_R(mk_i).writer != NULL); } \
	} \
	IN(size_t, mk_fa); IN(size_t, mk_nfds); IN(size_t, mk_scan); \
	__CPROVER_assume(mk_fa <= NF_A && mk_nfds <= mk_fa && mk_nfds <= NF_Q); \
	fds_alloc = mk_fa; nfds = mk_nfds; fdscanpos = mk_scan; \
	NET_ALLOC_F(mk_fa); \
	IN(size_t, mk_gs); IN(size_t, mk_gj); g_ns = mk_gs; g_nj = mk_gj; \
	IN(int, mk_rr); IN(int, mk_rw); IN(int, mk_eh); g_rdy_r = mk_rr; g_rdy_w = mk_rw; g_errhup = mk_eh; \
	IN(size_t, mk_live); g_live = mk_live; \
} while (0)

/* the library's initial state / the state after the atexit handler ran */
#define NET_MK_UNINIT() do { \
	S = NULL; nfds = 0; \
	IN(size_t, mk_fa); IN(size_t, mk_scan); fds_alloc = mk_fa; fdscanpos = mk_scan; fds = NULL; \
	IN(size_t, mk_gs); IN(size_t, mk_gj); g_ns = mk_gs; g_nj = mk_gj; \
	IN(size_t, mk_live); g_live = mk_live; \
} while (0)

#endif /* !NET_H_ */
