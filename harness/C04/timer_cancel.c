/* VERIF-GROUP
{
 "property": ["C04", "C14"],
 "entry": "h_timer_cancel",
 "enforce": ["events_timer_cancel"],
 "replace": ["events_freerec"],
 "annotate": ["events/events_timer.c"],
 "defines": ["VERIF_HALLOC"],
 "models": ["models/ev_monoclock.c", "models/ev_timerqueue.c", "models/ev_atexit.c"],
 "cbmc": ["--malloc-may-fail", "--malloc-fail-null"],
 "timeout": 300,
 "assumptions": ["timer queue = abstract model models/ev_timerqueue.c (assumed contract of datastruct/timerqueue.c, proved in C13): one tracked element + anonymous rest",
                 "monoclock_get per models/ev_monoclock.c (may fail; normalised, monotone, 0 <= tv_sec <= 2^60); timeouts normalised with tv_sec <= 2^60",
                 "events_mkrec / events_freerec replaced by their contracts (models/ev_rec.h; enforced in C04/rec_*); atexit per models/ev_atexit.c",
                 "meta-level induction over histories (L-ind)"]
}
*/
#include <stdlib.h>
#include "verif.h"
#include "ev_rec.h"
#include "../C04/timer.h"
TIMER_GHOSTS;
#include "events/events_timer.c"
typedef char tm_size_check[(sizeof(struct timerrec) == EV_TQ_PTRSZ) ? 1 : -1];
static int cb(void * c) { (void)c; return (0); }

void
h_timer_cancel(void)
{
	struct tm_pre P;
	IN(int, which);
	struct timerrec * t;

	TIMER_MK_STATE(P, 0);
	__CPROVER_assume(g_live > 0);
	if (which && g_tq.in)
		t = P.t;
	else {
		/* some other registered timer: its own record object, handle and event record */
		__CPROVER_assume(g_tq_others > 0);
		t = malloc(sizeof(struct timerrec)); __CPROVER_assume(t != NULL);
		t->r = malloc(EV_RECSZ); __CPROVER_assume(t->r != NULL);
		t->cookie = malloc(1); __CPROVER_assume(t->cookie != NULL);
	}
	int in0 = g_tq.in;
	size_t others0 = g_tq_others;

	events_timer_cancel(t);

	__CPROVER_assert(t == P.t ? !g_tq.in : (g_tq.in == in0 && g_tq_others == others0 - 1), "exactly the cancelled timer left the queue (cancel cannot fail)");
	VCOVER(t == P.t && in0 && others0 > 0);
	VCOVER(t != P.t && in0);
	VCOVER(t != P.t && !in0 && others0 == 1);
}
