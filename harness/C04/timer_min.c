/* VERIF-GROUP
{
 "property": ["C05", "C14"],
 "entry": "h_timer_min",
 "enforce": ["events_timer_min"],
 "replace": [],
 "annotate": ["events/events_timer.c"],
 "defines": ["VERIF_HALLOC"],
 "models": ["models/ev_monoclock.c", "models/ev_timerqueue.c", "models/ev_atexit.c"],
 "cbmc": ["--malloc-may-fail", "--malloc-fail-null"],
 "timeout": 300,
 "assumptions": ["timer queue = abstract model models/ev_timerqueue.c (assumed contract of datastruct/timerqueue.c, proved in C13): one tracked element + anonymous rest",
                 "monoclock_get per models/ev_monoclock.c (may fail; normalised, monotone, 0 <= tv_sec <= 2^60); timeouts normalised with tv_sec <= 2^60",
                 "events_mkrec / events_freerec replaced by their contracts (models/ev_rec.h; enforced in C04/rec_*); atexit per models/ev_atexit.c",
                 "meta-level induction over histories (L-ind)"]
}
*/
#include <stdlib.h>
#include "verif.h"
#include "ev_rec.h"
#include "../C04/timer.h"
TIMER_GHOSTS;
#include "events/events_timer.c"
typedef char tm_size_check[(sizeof(struct timerrec) == EV_TQ_PTRSZ) ? 1 : -1];
static int cb(void * c) { (void)c; return (0); }

void
h_timer_min(void)
{
	struct tm_pre P;
	struct timeval * timeo;
	int rc;

	TIMER_MK_STATE(P, 1);
	int in0 = g_tq.in;
	size_t others0 = g_tq_others;

	rc = events_timer_min(&timeo);

	if (rc == 0 && timeo != NULL && in0) {
		/* C05: waiting timeo from now does not overshoot the tracked timer's deadline */
		__CPROVER_assert(TV_LE_SUM(g_tq_lastmin, g_mc_now, *timeo), "now + timeo covers the least deadline");
		__CPROVER_assert(EV_TV_LE(g_tq_lastmin, g_tq.tv), "least deadline <= tracked deadline");
		__CPROVER_assert(EV_TV_LE(g_mc_now, g_tq_lastmin) ? TV_IS_SUM(g_tq_lastmin, g_mc_now, *timeo) : (timeo->tv_sec == 0 && timeo->tv_usec == 0),
		    "timeo = (least deadline - now), clamped at 0");
	}
	VCOVER(rc == 0 && timeo == NULL && Q == NULL);
	VCOVER(rc == 0 && timeo == NULL && Q != NULL);
	VCOVER(rc == 0 && timeo != NULL && timeo->tv_sec == 0 && timeo->tv_usec == 0 && !EV_TV_LE(g_mc_now, g_tq_lastmin));
	VCOVER(rc == 0 && timeo != NULL && g_tq_lastmin.tv_usec < g_mc_now.tv_usec && g_tq_lastmin.tv_sec > g_mc_now.tv_sec);
	VCOVER(rc == 0 && timeo != NULL && in0 && others0 == 0 && timeo->tv_usec > 0);
	VCOVER(rc == -1 && g_mc_calls > 0);
	VCOVER(rc == -1 && in0);
}
