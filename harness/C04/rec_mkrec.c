/* VERIF-GROUP
{
 "property": ["C04", "C14"],
 "entry": "h_mkrec",
 "enforce": ["events_mkrec"],
 "replace": [],
 "annotate": ["events/events.c"],
 "defines": ["VERIF_HALLOC", "EV_WITH_POOL"],
 "matrix": {"PLEN": [0, 1, 4095, 4096]},
 "models": ["models/ev_atexit.c"],
 "cbmc": ["--malloc-may-fail", "--malloc-fail-null"],
 "timeout": 300,
 "assumptions": ["mpool (real code, inlined) in a state satisfying its invariant at the entries it touches (C12): cached entries are live objects of the record size owned by the pool",
                 "atexit per models/ev_atexit.c"]
}
*/
#include <stdlib.h>
#include "verif.h"
#define EV_REC_NO_DECL
#include "ev_disp.h"
size_t g_live; struct eventrec * g_lastrec; struct eventrec * g_lastfreed;
EV_DISP_GHOSTS;
#include "events/events.c"
#include "../C04/rec.h"
typedef char rec_size_check[(sizeof(struct eventrec) == EV_RECSZ) ? 1 : -1];
int ev_cb_model(void * c) { (void)c; return (0); }

void
h_mkrec(void)
{
	IN(void *, cookie);
	struct eventrec * r;

	REC_MK_POOL();
	IN(size_t, live0); g_live = live0; __CPROVER_assume(live0 < SIZE_MAX);
	size_t len0 = mpool_eventrec_rec.stacklen;
	g_atexit_calls = 0;
	void * top = len0 > 0 ? mpool_eventrec_rec.allocs[len0 - 1] : NULL;

	r = events_mkrec(ev_cb_model, cookie);

	__CPROVER_assert(r == NULL || (r->func == ev_cb_model && r->cookie == cookie), "record holds (func, cookie)");
#if PLEN > 0
	VCOVER(r != NULL && (void *)r == top && mpool_eventrec_rec.stacklen == len0 - 1 && g_live == live0 + 1);
#else
	VCOVER(r != NULL && g_live == live0 + 1 && g_atexit_calls == 1);
	VCOVER(r != NULL && g_atexit_calls == 0);
	VCOVER(r == NULL && g_live == live0);
#endif
}
