/* VERIF-GROUP
{
 "property": ["C04", "C05"],
 "entry": "h_imm_get",
 "enforce": ["events_immediate_get"],
 "replace": [],
 "annotate": ["events/events_immediate.c"],
 "defines": ["VERIF_HALLOC"],
 "models": ["models/ev_atexit.c"],
 "cbmc": ["--malloc-may-fail", "--malloc-fail-null"],
 "expect_loops": ["events_immediate_get"],
 "bounded": true,
 "bound": "queue contents with <= 4 nodes in total (any priorities, any arrival order), built with the real TAILQ_INSERT_TAIL; the minq invariant itself is stated for all 32 priorities (G1)",
 "timeout": 300,
 "assumptions": ["events_mkrec / events_freerec replaced by their contracts (models/ev_rec.h; enforced in C04/rec_*)",
                 "node pool MPOOL(eventq) = real mpool code, empty stack (pool behaviour is C12's subject)",
                 "meta-level induction over histories (L-ind)"]
}
*/
#include <stdlib.h>
#include "verif.h"
#include "ev_rec.h"
#include "../C04/imm.h"
IMM_GHOSTS;
#include "events/events_immediate.c"
static int cb(void * c) { (void)c; return (0); }

void
h_imm_get(void)
{
	struct imm_pre P;
	struct eventrec * r;

	IMM_MK_STATE(P);
	int minq0 = minq;
	/* what each node looked like before the call */
	struct eventrec * rec0[IMM_NODES]; struct eventq * next0[IMM_NODES]; int prio0[IMM_NODES]; int first0[IMM_NODES];
	for (int k = 0; k < IMM_NODES; k++) {
		rec0[k] = NULL; next0[k] = NULL; prio0[k] = -1; first0[k] = 0;
		if (k < P.cnt) {
			rec0[k] = P.n[k]->r; next0[k] = TAILQ_NEXT(P.n[k], entries); prio0[k] = P.n[k]->prio;
			first0[k] = (TAILQ_FIRST(&heads[prio0[k]]) == P.n[k]);
		}
	}
	struct eventq * gfirst0 = TAILQ_FIRST(&heads[g_ip]);

	r = events_immediate_get();

	if (r == NULL) {
		__CPROVER_assert(gfirst0 == NULL, "NULL only if every queue is empty (G1: the arbitrary queue g_ip is)");
	} else {
		int idx = -1;
		for (int k = 0; k < IMM_NODES; k++)
			if (k < P.cnt && P.n[k] == g_imm_got_q)
				idx = k;
		__CPROVER_assert(idx >= 0, "the node served is one of the queued nodes");
		__CPROVER_assert(first0[idx] && r == rec0[idx], "it was the FIRST node of its queue and its own record is returned (FIFO)");
		__CPROVER_assert(prio0[idx] == minq && TAILQ_FIRST(&heads[minq]) == next0[idx], "removed before return: its successor is first now");
		__CPROVER_assert(!(g_ip < prio0[idx]) || gfirst0 == NULL, "no queue of lower priority value was non-empty (G1: arbitrary g_ip)");
	}
	VCOVER(r != NULL && minq0 < minq && TAILQ_FIRST(&heads[minq]) != NULL);
	VCOVER(r != NULL && TAILQ_FIRST(&heads[minq]) == NULL && P.cnt == 4);
	VCOVER(r == NULL && minq0 < 32);
	VCOVER(r != NULL && g_ip == minq);
	VCOVER(r != NULL && g_ip > minq && heads[g_ip].tqh_first != NULL);
}
