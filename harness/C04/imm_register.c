/* VERIF-GROUP
{
 "property": ["C04", "C05", "C14"],
 "entry": "h_imm_register",
 "enforce": ["events_immediate_register"],
 "replace": ["events_mkrec", "events_freerec"],
 "annotate": ["events/events_immediate.c"],
 "defines": ["VERIF_HALLOC"],
 "models": ["models/ev_atexit.c"],
 "cbmc": ["--malloc-may-fail", "--malloc-fail-null"],
 "bounded": true,
 "bound": "queue contents with <= 4 nodes in total (any priorities, any arrival order), built with the real TAILQ_INSERT_TAIL; the minq invariant itself is stated for all 32 priorities (G1)",
 "timeout": 300,
 "assumptions": ["events_mkrec / events_freerec replaced by their contracts (models/ev_rec.h; enforced in C04/rec_*)",
                 "node pool MPOOL(eventq) = real mpool code, empty stack (pool behaviour is C12's subject)",
                 "meta-level induction over histories (L-ind)"]
}
*/
#include <stdlib.h>
#include "verif.h"
#include "ev_rec.h"
#include "../C04/imm.h"
IMM_GHOSTS;
#include "events/events_immediate.c"
static int cb(void * c) { (void)c; return (0); }

void
h_imm_register(void)
{
	struct imm_pre P;
	IN(int, prio);
	IN(void *, cookie);
	struct eventq * q;

	IMM_MK_STATE(P);
	__CPROVER_assume(prio >= 0 && prio < 32 && g_live < SIZE_MAX);
	int minq0 = minq;
	struct eventq * first0 = TAILQ_FIRST(&heads[prio]);
	struct eventq * last0 = first0 == NULL ? NULL : TAILQ_LAST(&heads[prio], tailhead);

	q = events_immediate_register(cb, cookie, prio);

	if (q != NULL) {
		/* C05: tail insertion (FIFO within a priority): the old last node is followed by the new one */
		__CPROVER_assert(TAILQ_LAST(&heads[prio], tailhead) == q, "new node is the last of its queue");
		__CPROVER_assert(last0 == NULL || TAILQ_NEXT(last0, entries) == q, "the previous last node is followed by the new node");
		__CPROVER_assert(first0 == NULL || TAILQ_FIRST(&heads[prio]) == first0, "the head of the queue keeps its place");
	}
	VCOVER(q != NULL && first0 != NULL && last0 != first0 && prio == minq0);
	VCOVER(q != NULL && first0 == NULL && prio < minq0 && minq == prio && minq0 < 32);
	VCOVER(q != NULL && first0 == NULL && prio > minq0 && minq == minq0);
	VCOVER(q != NULL && minq0 == 32 && minq == prio);
	VCOVER(q == NULL && g_lastrec == NULL);
	VCOVER(q == NULL && g_lastrec != NULL && g_lastfreed == g_lastrec);
}
