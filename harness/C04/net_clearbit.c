/* VERIF-GROUP
{
 "property": ["C04"],
 "entry": "h_clearbit",
 "enforce": ["clearbit"],
 "replace": [],
 "annotate": ["events/events_network.c"],
 "defines": ["VERIF_HALLOC", "NET_FIXCAP"],
 "models": ["models/ev_poll.c", "models/ev_atexit.c", "models/ev_selectstats.c", "models/ev_warnp.c"],
 "timeout": 300,
 "assumptions": ["object-size parameters: <= NS_Q descriptors in S, <= NF_Q initialised / NF_A allocated pollfd entries (for-all invariants expanded over these constants)",
                 "meta-level induction over histories (L-ind)"]
}
*/
#include <stdlib.h>
#include "verif.h"
#include "ev_rec.h"
#include "../C04/net.h"
NET_GHOSTS;
#include "datastruct/elasticarray.c"
#include "events/events_network.c"

void
h_clearbit(void)
{
	IN(size_t, pollpos);
	IN(short, bit);

	NET_MK_STATE();
	EV_SPEC_BEGIN
	/* INV_net everywhere except at the descriptor whose slot was just emptied (clearbit's own precondition) */
	__CPROVER_assume(pollpos < nfds && (bit == POLLIN || bit == POLLOUT));
	__CPROVER_assume(NET_ALL_F & NET_INV_G & NET_ALL_S_BUT((size_t)fds[pollpos].fd));
	__CPROVER_assume((fds[pollpos].events & bit) != 0);
	__CPROVER_assume(bit == POLLIN ? (NS_R(fds[pollpos].fd).reader == NULL && NET_S_WR(fds[pollpos].fd)) :
	    (NS_R(fds[pollpos].fd).writer == NULL && NET_S_RD(fds[pollpos].fd)));
	EV_SPEC_END
	size_t nfds0 = nfds;
	short ev0 = fds[pollpos].events;

	clearbit(pollpos, bit);

	VCOVER(nfds == nfds0 && nfds0 > 1);
	VCOVER(nfds == nfds0 - 1 && pollpos < nfds && g_nj == pollpos);
	VCOVER(nfds == nfds0 - 1 && pollpos == nfds);
	VCOVER(nfds == nfds0 - 1 && g_nj < nfds && g_nj != pollpos && g_ns < NS_N && NS_R(g_ns).pollpos == pollpos);
	VCOVER(bit == POLLOUT && ev0 == (POLLIN | POLLOUT));
}
