/* VERIF-GROUP
{
 "property": ["C04", "C14"],
 "entry": "h_cancel",
 "enforce": ["events_network_cancel"],
 "replace": ["events_freerec"],
 "annotate": ["events/events_network.c"],
 "defines": ["VERIF_HALLOC", "NET_FIXCAP"],
 "models": ["models/ev_poll.c", "models/ev_atexit.c", "models/ev_selectstats.c", "models/ev_warnp.c"],
 "cbmc": ["--malloc-may-fail", "--malloc-fail-null"],
 "timeout": 300,
 "assumptions": ["object-size parameters: <= NS_Q descriptors in S, <= NF_Q initialised pollfd entries (for-all invariants expanded over these constants)",
                 "events_freerec replaced by its contract (models/ev_rec.h; enforced on the real function in C04/rec_freerec)",
                 "clearbit inlined (real code); capacities of S and fds fixed (cancel never reallocates)",
                 "state S == NULL is covered by C04/net_uninit",
                 "meta-level induction over histories (L-ind)"]
}
*/
#include <stdlib.h>
#include "verif.h"
#include "ev_rec.h"
#include "../C04/net.h"
NET_GHOSTS;
#include "datastruct/elasticarray.c"
#include "events/events_network.c"

void
h_cancel(void)
{
	IN(int, s);
	IN(int, op);
	int rc;

	NET_MK_STATE();
	EV_SPEC_BEGIN
	__CPROVER_assume(NET_INV_PURE);
	__CPROVER_assume(g_live > 0);
	EV_SPEC_END
	size_t nfds0 = nfds;
	int had = (s >= 0 && (size_t)s < NS_N && (op == EVENTS_NETWORK_OP_READ || op == EVENTS_NETWORK_OP_WRITE) &&
	    NET_SLOT(s, op) != NULL);
	short rev0 = (had ? fds[NS_R(s).pollpos].revents : 0);

	rc = events_network_cancel(s, op);

	EV_SPEC_BEGIN
	__CPROVER_assert(rc == (had ? 0 : -1), "cancel succeeds iff there was such a registration (it cannot fail otherwise, even without memory)");
	__CPROVER_assert(!had || NET_SLOT(s, op) == NULL, "a cancelled registration is gone");
	EV_SPEC_END

	VCOVER(rc == 0 && nfds == nfds0 && (rev0 & NET_BIT(op)) != 0);
	VCOVER(rc == 0 && nfds == nfds0 - 1 && NS_R(s).pollpos == SIZE_MAX && nfds > 0 && g_nj < nfds);
	VCOVER(rc == 0 && (size_t)s == g_ns && op == EVENTS_NETWORK_OP_WRITE && NS_R(g_ns).reader != NULL);
	VCOVER(rc == 0 && (size_t)s != g_ns && g_ns < NS_N && NS_R(g_ns).writer != NULL);
	VCOVER(rc == -1 && s >= 0 && (size_t)s >= NS_N && op == EVENTS_NETWORK_OP_READ);
	VCOVER(rc == -1 && s >= 0 && (size_t)s < NS_N && op == EVENTS_NETWORK_OP_WRITE);
	VCOVER(rc == -1 && s < 0);
	VCOVER(rc == -1 && s == 0 && op == 7);
}
