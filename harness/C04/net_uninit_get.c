/* VERIF-GROUP
{
 "property": ["C04", "C14"],
 "entry": "h_uninit",
 "enforce": ["events_network_get"],
 "replace": [],
 "annotate": ["events/events_network.c"],
 "defines": ["VERIF_HALLOC", "UF=3"],
 "models": ["models/ev_poll.c", "models/ev_atexit.c", "models/ev_selectstats.c", "models/ev_warnp.c"],
 "cbmc": ["--malloc-may-fail", "--malloc-fail-null"],
 "loop_contracts": false,
 "timeout": 300,
 "assumptions": ["the library's initial state (statics zero / S == NULL after the atexit handler ran): first call of each public function (UF 0: register descriptor 1, 1: cancel, 2: select, 3: get)",
                 "atexit per models/ev_atexit.c (may fail); malloc may fail"]
}
*/
#include <stdlib.h>
#include "verif.h"
#include "ev_rec.h"
#include "../C04/net.h"
NET_GHOSTS;
#include "datastruct/elasticarray.c"
#include "events/events_network.c"

static int cb(void * c) { (void)c; return (0); }

void
h_uninit(void)
{
	IN(int, op);
	IN(int, s);
	IN(void *, cookie);
	int rc = 0;
	struct eventrec * r = NULL;

	NET_MK_UNINIT();
	g_poll_eintr_left = 2;
	g_atexit_calls = 0;
#if UF == 0
	__CPROVER_assume(g_live < SIZE_MAX);
	rc = events_network_register(cb, cookie, 1, op);
	VCOVER(rc == 0 && S != NULL && NS_N == 2 && nfds == 1 && fds_alloc == 16 && g_atexit_calls == 1);
	VCOVER(rc == -1 && S == NULL);
	VCOVER(rc == -1 && S != NULL && NS_N == 0 && g_atexit_calls == 1);
	VCOVER(rc == -1 && S != NULL && NS_N == 2 && nfds == 0);
	VCOVER(rc == -1 && op == 5);
#elif UF == 1
	__CPROVER_assume(g_live > 0);
	rc = events_network_cancel(s, op);
	__CPROVER_assert(rc == -1, "nothing to cancel in the initial state");
	VCOVER(rc == -1 && S != NULL && s >= 0 && op == EVENTS_NETWORK_OP_READ);
	VCOVER(rc == -1 && S == NULL);
#elif UF == 2
	{
		struct timeval tvbuf;
		volatile sig_atomic_t intr;

		__CPROVER_assume(tvbuf.tv_sec >= 0 && tvbuf.tv_usec >= 0 && tvbuf.tv_usec < 1000000);
		g_poll_calls = 0;
		rc = events_network_select(&tvbuf, &intr);
		VCOVER(rc == 0 && S != NULL && g_poll_calls == 1 && g_poll_nfds == 0);
		VCOVER(rc == -1 && S == NULL);
		VCOVER(rc == -1 && S != NULL && g_poll_calls == 0);
	}
#else
	r = events_network_get();
	__CPROVER_assert(r == NULL, "nothing to return in the initial state");
	VCOVER(r == NULL && S == NULL);
#endif
}
