/* VERIF-GROUP
{
 "property": ["C04", "C14"],
 "entry": "h_timer_register",
 "enforce": ["events_timer_register"],
 "replace": ["events_mkrec", "events_freerec"],
 "annotate": ["events/events_timer.c"],
 "defines": ["VERIF_HALLOC"],
 "models": ["models/ev_monoclock.c", "models/ev_timerqueue.c", "models/ev_atexit.c"],
 "cbmc": ["--malloc-may-fail", "--malloc-fail-null"],
 "timeout": 300,
 "assumptions": ["timer queue = abstract model models/ev_timerqueue.c (assumed contract of datastruct/timerqueue.c, proved in C13): one tracked element + anonymous rest",
                 "monoclock_get per models/ev_monoclock.c (may fail; normalised, monotone, 0 <= tv_sec <= 2^60); timeouts normalised with tv_sec <= 2^60",
                 "events_mkrec / events_freerec replaced by their contracts (models/ev_rec.h; enforced in C04/rec_*); atexit per models/ev_atexit.c",
                 "meta-level induction over histories (L-ind)"]
}
*/
#include <stdlib.h>
#include "verif.h"
#include "ev_rec.h"
#include "../C04/timer.h"
TIMER_GHOSTS;
#include "events/events_timer.c"
typedef char tm_size_check[(sizeof(struct timerrec) == EV_TQ_PTRSZ) ? 1 : -1];
static int cb(void * c) { (void)c; return (0); }

void
h_timer_register(void)
{
	struct tm_pre P;
	struct timeval timeo;
	IN(void *, cookie);
	IN(int, track);
	void * rv;

	TIMER_MK_STATE(P, 1);
	__CPROVER_assume(EV_TV_OK(timeo) && g_live < SIZE_MAX);
	g_tq_track_next = track;
	int in0 = g_tq.in;
	size_t others0 = g_tq_others, live0 = g_live;
	int noq = (Q == NULL);
	g_atexit_calls = 0;

	rv = events_timer_register(cb, cookie, &timeo);

	if (rv == NULL) {
		__CPROVER_assert(g_tq.in == in0 && g_tq_others == others0 && g_live == live0, "failed registration leaves nothing registered");
	} else if (track && !in0) {
		__CPROVER_assert(g_tq.in && g_tq.ptr == rv && TV_IS_SUM(g_tq.tv, g_mc_now, timeo), "deadline = registration clock + timeout");
	}
	VCOVER(rv != NULL && track && !in0 && noq && g_atexit_calls == 1);
	VCOVER(rv != NULL && track && !in0 && !noq && g_atexit_calls == 0 && others0 > 0);
	VCOVER(rv != NULL && in0 && g_tq_others == others0 + 1);
	VCOVER(rv == NULL && noq && Q == NULL);
	VCOVER(rv == NULL && noq && Q != NULL && g_atexit_calls == 1);
	VCOVER(rv == NULL && !noq && g_lastfreed == g_lastrec && g_lastrec != NULL);
	VCOVER(rv == NULL && !noq && g_mc_calls > 0 && g_lastrec == NULL);
}
