/* VERIF-GROUP
{
 "property": ["C12", "C14"],
 "entry": "h_append",
 "enforce": ["elasticarray_append"],
 "replace": ["resize"],
 "annotate": ["datastruct/elasticarray.c"],
 "defines": ["VERIF_HALLOC"],
 "thorough_defines": ["EA_MAXOBJ=4096"],
 "matrix": {"RECLEN": [1, 8, 24]},
 "cbmc": ["--malloc-may-fail", "--malloc-fail-null"],
 "native": true,
 "timeout": 300
}
*/
#include <stdlib.h>
#include "verif.h"
size_t g_ea_idx;
#include "datastruct/elasticarray.c"
#include "ea.h"

void
h_append(void)
{
	EA_MK(EA);
	IN(size_t, nrec);
	int ovf = (nrec > SIZE_MAX / RECLEN) || (nrec * RECLEN > SIZE_MAX - ea_size);
	__CPROVER_assume(ovf || nrec * RECLEN <= EA_MAXOBJ);
	size_t srclen = ovf ? 0 : nrec * RECLEN;
	IN_BYTES(src, srclen, EA_MAXOBJ);
	int rc;

	rc = elasticarray_append(EA, src, nrec, RECLEN);
	VCOVER(rc == 0 && nrec > 0 && g_ea_idx >= ea_size && g_ea_idx < EA->size);
	VCOVER(rc == 0 && nrec > 0 && g_ea_idx < ea_size);
#if RECLEN > 1
	VCOVER(rc == -1 && nrec > SIZE_MAX / RECLEN);
#endif
	VCOVER(rc == -1 && nrec * RECLEN > SIZE_MAX - ea_size);
	VCOVER(rc == -1 && nrec == 1);
}
