/* VERIF-GROUP
{
 "property": ["C12", "C14"],
 "entry": "h_eq_add",
 "enforce": ["elasticqueue_add"],
 "replace": ["elasticarray_append"],
 "annotate": ["datastruct/elasticarray.c", "datastruct/elasticqueue.c"],
 "defines": ["VERIF_HALLOC", "EA_MAXOBJ=64", "EQ_LIM=8"],
 "matrix": {"RECLEN": [1, 8]},
 "cbmc": ["--malloc-may-fail", "--malloc-fail-null"],
 "native": true,
 "timeout": 300
}
*/
#include <stdlib.h>
#include "verif.h"
size_t g_ea_idx;
uint8_t g_eq_src, g_eq_self;
#include "datastruct/elasticarray.c"
#include "datastruct/elasticqueue.c"
#include "eq.h"

void
h_eq_add(void)
{
	EQ_MK(EQ);
	IN_BYTES(rec, RECLEN, RECLEN);
	int rc;

	rc = elasticqueue_add(EQ, rec);
	VCOVER(rc == 0 && eq_len > 0 && g_ea_idx < ea_size);
	VCOVER(rc == 0 && g_ea_idx >= ea_size && g_ea_idx < EQ->EA->size);
	VCOVER(rc == -1);
}
