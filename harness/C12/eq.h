/* shared pre-state construction for elastic-queue harnesses: every wf queue with small offset/len */
#define EQ_MK(EQ) \
	IN(size_t, eq_off); IN(size_t, eq_len); IN(size_t, ea_alloc); \
	__CPROVER_assume(eq_off <= EQ_LIM && eq_len <= EQ_LIM); \
	size_t ea_size = (eq_off + eq_len) * RECLEN; \
	__CPROVER_assume(ea_size <= ea_alloc && ea_alloc <= EA_MAXOBJ); \
	struct elasticarray * EA = malloc(sizeof(struct elasticarray)); \
	__CPROVER_assume(EA != NULL); \
	IN_BYTES(ea_buf0, ea_alloc, EA_MAXOBJ); \
	EA->size = ea_size; EA->alloc = ea_alloc; \
	if (ea_alloc == 0) { free(ea_buf0); EA->buf = NULL; } else EA->buf = ea_buf0; \
	struct elasticqueue * EQ = malloc(sizeof(struct elasticqueue)); \
	__CPROVER_assume(EQ != NULL); \
	EQ->EA = EA; EQ->offset = eq_off; EQ->len = eq_len; EQ->reclen = RECLEN; \
	IN(size_t, gi); __CPROVER_assume(gi <= 4 * EA_MAXOBJ); g_ea_idx = gi
