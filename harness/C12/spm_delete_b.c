/* VERIF-GROUP
{
 "property": ["C12", "C14"],
 "entry": "h_spm_delete",
 "enforce": [],
 "replace": [],
 "annotate": [],
 "defines": ["EA_MAXOBJ=32", "EQ_LIM=2"],
 "models": ["models/libc_mem.c"],
 "cbmc": ["--malloc-may-fail", "--malloc-fail-null"],
 "unwind": 3, "bounded": true, "loop_contracts": false,
 "bound": "queues with offset <= 2 and len <= 2 pointer records; trimming loop and move-to-front loop fully unwound (unwinding assertions on); the postconditions of the seqptrmap_delete contract are asserted by the harness instead of being enforced through DFCC (DFCC instrumentation of this call tree runs out of memory)",
 "native": true,
 "mem_gb": 40,
 "timeout": 900
}
*/
#include <stdlib.h>
#include "verif.h"
size_t g_ea_idx, g_spm_r;
#include "datastruct/elasticarray.c"
#include "datastruct/elasticqueue.c"
#include "datastruct/seqptrmap.c"
#include "c12_defs.h"
#include "spm.h"

static void *
view(struct seqptrmap * M, int64_t k)
{

	if (k < M->offset || (uint64_t)(k - M->offset) >= (uint64_t)M->len)
		return (NULL);
	return (SPM_REC(M, (size_t)(k - M->offset)));
}

void
h_spm_delete(void)
{
	SPM_MK(M);
	IN(int64_t, key);
	IN(int64_t, gk);
	void * before = view(M, gk);
	struct elasticqueue * Q = M->ptrs;
	struct elasticarray * A = Q->EA;

	seqptrmap_delete(M, key);

	/* wf */
	__CPROVER_assert(M->ptrs == Q && Q->EA == A && Q->reclen == sizeof(void *) && Q->len == M->len, "wf: structure");
	__CPROVER_assert(A->size == (Q->offset + Q->len) * sizeof(void *) && A->size <= A->alloc, "wf: array holds offset+len records");
	__CPROVER_assert((A->alloc == 0) ? (A->buf == NULL) : __CPROVER_rw_ok(A->buf, A->alloc), "wf: storage");
	__CPROVER_assert(M->len == 0 || SPM_REC(M, 0) != NULL, "wf: record 0 is live when non-empty");
	/* numbering stable */
	__CPROVER_assert(M->offset + (int64_t)M->len == m_off + (int64_t)eq_len && M->offset >= m_off, "numbering is stable");
	/* abstract map: deleted number -> NULL, every other number unchanged */
	__CPROVER_assert(view(M, key) == NULL, "deleted number maps to NULL");
	__CPROVER_assert(gk == key || view(M, gk) == before, "every other number keeps its pointer");
	__CPROVER_assert(seqptrmap_getmin(M) == -1 || view(M, seqptrmap_getmin(M)) != NULL, "minimum is live");

	VCOVER(M->offset > m_off + 1);
	VCOVER(M->offset == m_off && M->len == eq_len && eq_len > 1 && key > m_off && key < m_off + (int64_t)eq_len);
	VCOVER(key < m_off);
	VCOVER(M->len == 0 && eq_len > 0);
	VCOVER(gk != key && gk >= M->offset && gk < M->offset + (int64_t)M->len && before != NULL);
	VCOVER(Q->offset == 0 && eq_off > 0);
}
