/* VERIF-GROUP
{
 "property": ["C12", "C14"],
 "entry": "h_free",
 "enforce": ["elasticarray_free"],
 "replace": [],
 "annotate": ["datastruct/elasticarray.c"],
 "defines": ["VERIF_HALLOC"],
 "thorough_defines": ["EA_MAXOBJ=4096"],
 "cbmc": ["--memory-leak-check"],
 "native": true,
 "timeout": 120
}
*/
#include <stdlib.h>
#include "verif.h"
size_t g_ea_idx;
#include "datastruct/elasticarray.c"
#include "ea.h"

void
h_free(void)
{
	EA_MK(EA);
	IN(int, usenull);

	elasticarray_free(usenull ? NULL : EA);
	VCOVER(usenull == 0 && ea_alloc > 0);
	VCOVER(usenull == 0 && ea_alloc == 0);
	if (usenull) {
		free(EA->buf);
		free(EA);
	}
	VCOVER(usenull != 0);
}
