/* VERIF-GROUP
{
 "property": ["C12", "C14"],
 "entry": "h_shrink",
 "enforce": ["elasticarray_shrink"],
 "replace": [],
 "annotate": ["datastruct/elasticarray.c"],
 "defines": ["VERIF_HALLOC"],
 "thorough_defines": ["EA_MAXOBJ=4096"],
 "matrix": {"RECLEN": [1, 8, 24]},
 "cbmc": ["--malloc-may-fail", "--malloc-fail-null"],
 "native": true,
 "timeout": 300,
 "assumptions": ["resize is inlined here (after a failed resize the caller keeps using the old buffer, which a replaced contract with a frees clause would make unassignable: HOWTO trap 2)"]
}
*/
#include <stdlib.h>
#include "verif.h"
size_t g_ea_idx;
#include "datastruct/elasticarray.c"
#include "ea.h"

void
h_shrink(void)
{
	EA_MK(EA);
	IN(size_t, nrec);

	elasticarray_shrink(EA, nrec, RECLEN);
	VCOVER(EA->size > 0 && EA->size < ea_size && g_ea_idx < EA->size);
	VCOVER(EA->size == 0 && ea_size > 0 && nrec * RECLEN > ea_size);
	VCOVER(EA->alloc < ea_alloc);
	VCOVER(EA->alloc == ea_alloc && EA->alloc / 4 > EA->size);	/* realloc refused */
#if RECLEN > 1
	VCOVER(nrec > SIZE_MAX / RECLEN);
#endif
}
