/* VERIF-GROUP
{
 "property": ["C12", "C14"],
 "entry": "h_eq_misc",
 "enforce": ["elasticqueue_init"],
 "replace": ["elasticarray_init"],
 "annotate": ["datastruct/elasticarray.c", "datastruct/elasticqueue.c"],
 "defines": ["VERIF_HALLOC", "EA_MAXOBJ=64"],
 "matrix": {"RECLEN": [1, 8]},
 "cbmc": ["--malloc-may-fail", "--malloc-fail-null", "--memory-leak-check"],
 "native": true,
 "timeout": 300
}
*/
#include <stdlib.h>
#include "verif.h"
size_t g_ea_idx;
uint8_t g_eq_src, g_eq_self;
#include "datastruct/elasticarray.c"
#include "datastruct/elasticqueue.c"

void
h_eq_misc(void)
{
	struct elasticqueue * EQ;

	EQ = elasticqueue_init(RECLEN);
	VCOVER(EQ != NULL);
	VCOVER(EQ == NULL);
	elasticqueue_free(EQ);
}
