/* VERIF-GROUP
{
 "property": ["C12", "C14"],
 "entry": "h_resize",
 "enforce": ["resize"],
 "replace": [],
 "annotate": ["datastruct/elasticarray.c"],
 "defines": ["VERIF_HALLOC"],
 "thorough_defines": ["EA_MAXOBJ=4096"],
 "cbmc": ["--malloc-may-fail", "--malloc-fail-null"],
 "native": true,
 "timeout": 300
}
*/
#include <stdlib.h>
#include "verif.h"
size_t g_ea_idx;
#include "datastruct/elasticarray.c"
#include "ea.h"

void
h_resize(void)
{
	EA_MK(EA);
	IN(size_t, nsize);
	int rc;

	rc = resize(EA, nsize);
	VCOVER(rc == 0 && EA->alloc > ea_alloc && g_ea_idx < ea_size);
	VCOVER(rc == 0 && EA->alloc < ea_alloc && EA->alloc > 0 && g_ea_idx < EA->size);
	VCOVER(rc == -1 && nsize > ea_alloc);
	VCOVER(rc == -1 && nsize < ea_alloc);
	VCOVER(rc == 0 && EA->alloc == 0 && ea_alloc > 0);
}
