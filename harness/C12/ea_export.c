/* VERIF-GROUP
{
 "property": ["C12", "C14"],
 "entry": "h_export",
 "enforce": ["elasticarray_export"],
 "replace": [],
 "annotate": ["datastruct/elasticarray.c"],
 "defines": ["VERIF_HALLOC"],
 "thorough_defines": ["EA_MAXOBJ=4096"],
 "matrix": {"RECLEN": [1, 8, 24]},
 "cbmc": ["--malloc-may-fail", "--malloc-fail-null", "--memory-leak-check"],
 "native": true,
 "timeout": 300
}
*/
#include <stdlib.h>
#include "verif.h"
size_t g_ea_idx;
#include "datastruct/elasticarray.c"
#include "ea.h"

void
h_export(void)
{
	EA_MK(EA);
	void * out;
	size_t nrec;
	int rc;

	rc = elasticarray_export(EA, &out, &nrec, RECLEN);
	VCOVER(rc == 0 && ea_size > 0 && ea_alloc > ea_size && g_ea_idx < ea_size);
	VCOVER(rc == 0 && ea_size == 0);
	VCOVER(rc == -1);
	/* nothing leaks: on success the caller owns exactly `out`; on failure the array is released normally */
	if (rc == 0)
		free(out);
	else
		elasticarray_free(EA);
}
