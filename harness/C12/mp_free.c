/* VERIF-GROUP
{
 "property": ["C12", "C04", "C14"],
 "entry": "h_mp_free",
 "enforce": ["mpool_free"],
 "replace": [],
 "annotate": ["datastruct/mpool.h"],
 "defines": ["VERIF_HALLOC", "MP_MAXSTACK=8", "VERIF_MEMCPY_BYTES=64"],
 "models": ["models/libc_mem.c"],

 "cbmc": ["--malloc-may-fail", "--malloc-fail-null"],
 "timeout": 300
}
*/
#include <stdlib.h>
#include "verif.h"
void * g_mp_inuse;
size_t g_mp_k, g_mp_j;
#include "datastruct/mpool.h"
#include "mp.h"

void
h_mp_free(void)
{
	MP_MK(M);
	IN(int, usenull);
	void * p = malloc(16);

	__CPROVER_assume(p != NULL);
	mpool_free(M, usenull ? NULL : p);
	VCOVER(!usenull && M->stacklen == mp_stacklen + 1 && M->allocsize == mp_allocsize && g_mp_j < g_mp_k && g_mp_k < M->stacklen);
	VCOVER(!usenull && M->allocsize == 2 * mp_allocsize && g_mp_k < mp_stacklen);	/* stack doubled */
	VCOVER(!usenull && M->stacklen == mp_stacklen && mp_ne > (mp_na >> 8));		/* doubling failed: released */
	VCOVER(!usenull && M->stacklen == mp_stacklen && mp_ne <= (mp_na >> 8));	/* full, not tuned: released */
	VCOVER(usenull != 0);
}
