/* VERIF-GROUP
{
 "property": ["C12", "C04", "C14"],
 "entry": "h_mp_malloc",
 "enforce": ["mpool_malloc"],
 "replace": [],
 "annotate": ["datastruct/mpool.h"],
 "defines": ["VERIF_HALLOC", "MP_MAXSTACK=8"],
 "cbmc": ["--malloc-may-fail", "--malloc-fail-null"],
 "models": ["models/libc_misc.c"],
 "timeout": 300,
 "assumptions": ["atexit(3): models/libc_misc.c (returns an arbitrary int, no side effects)"]
}
*/
#include <stdlib.h>
#include "verif.h"
void * g_mp_inuse;
size_t g_mp_k, g_mp_j;
#include "datastruct/mpool.h"
#include "mp.h"

void
h_mp_malloc(void)
{
	MP_MK(M);
	IN(size_t, len);
	void * p;

	__CPROVER_assume(len <= 64);
	p = mpool_malloc(M, len);
	VCOVER(p != NULL && mp_stacklen > 1 && g_mp_k < M->stacklen);
	VCOVER(p != NULL && mp_stacklen == 0);
	VCOVER(p == NULL && mp_stacklen == 0);
}
