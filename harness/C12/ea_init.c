/* VERIF-GROUP
{
 "property": ["C12", "C14"],
 "entry": "h_init",
 "enforce": ["elasticarray_init"],
 "replace": ["elasticarray_resize"],
 "annotate": ["datastruct/elasticarray.c"],
 "defines": ["VERIF_HALLOC"],
 "thorough_defines": ["EA_MAXOBJ=4096"],
 "matrix": {"RECLEN": [1, 8, 24]},
 "cbmc": ["--malloc-may-fail", "--malloc-fail-null", "--memory-leak-check"],
 "native": true,
 "timeout": 300
}
*/
#include <stdlib.h>
#include "verif.h"
size_t g_ea_idx;
#include "datastruct/elasticarray.c"

void
h_init(void)
{
	IN(size_t, nrec);
	struct elasticarray * EA;

	EA = elasticarray_init(nrec, RECLEN);
	VCOVER(EA != NULL && nrec > 0);
	VCOVER(EA != NULL && nrec == 0);
	VCOVER(EA == NULL && nrec == 1);
#if RECLEN > 1
	VCOVER(EA == NULL && nrec > SIZE_MAX / RECLEN);
#endif
	/* C14: releasing the result with the normal free call leaves nothing allocated (memory-leak check) */
	elasticarray_free(EA);
}
