/* VERIF-GROUP
{
 "property": ["C12"],
 "entry": "h_mp_atexit",
 "enforce": ["mpool_atexit"],
 "replace": [],
 "annotate": ["datastruct/mpool.h"],
 "defines": ["VERIF_HALLOC", "MP_MAXSTACK=4"],
 "cbmc": ["--memory-leak-check"],
 "unwind": 6, "bounded": true, "loop_contracts": false,
 "bound": "cache stacks with <= 4 entries (the frees clause must list the entries; loop fully unwound)",
 "timeout": 300
}
*/
#include <stdlib.h>
#include "verif.h"
void * g_mp_inuse;
size_t g_mp_k, g_mp_j;
#include "datastruct/mpool.h"
#include "mp.h"

void
h_mp_atexit(void)
{
	MP_MK(M);
	size_t k;

	/* every cached entry is a distinct live allocation */
	for (k = 0; k < 4; k++)
		if (k < mp_stacklen) {
			mp_stack[k] = malloc(8);
			__CPROVER_assume(mp_stack[k] != NULL);
		}
	mpool_atexit(M);
	VCOVER(mp_stacklen == 4 && !mp_static);
	VCOVER(mp_stacklen == 0 && mp_static);
	/* everything the pool owned is gone: only the harness's own objects remain, release them; the leak check
	   then shows that every cached object was returned (exactly once: a double free fails free's precondition) */
	if (mp_static)
		free(mp_stack);
	free(M);
	free(mp_inuse_obj);
}
