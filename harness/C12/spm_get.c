/* VERIF-GROUP
{
 "property": ["C12", "C14"],
 "entry": "h_spm_get",
 "enforce": ["seqptrmap_get"],
 "replace": [],
 "annotate": ["datastruct/elasticarray.c", "datastruct/elasticqueue.c", "datastruct/seqptrmap.c"],
 "defines": ["VERIF_HALLOC", "EA_MAXOBJ=64", "EQ_LIM=3"],
 "models": ["models/libc_mem.c"],
 "cbmc": ["--malloc-may-fail", "--malloc-fail-null"],
 "native": true,
 "timeout": 600
}
*/
#include <stdlib.h>
#include "verif.h"
size_t g_ea_idx, g_spm_r;
uint8_t g_eq_src, g_eq_self;
int64_t g_spm_key;
void * g_spm_val;
#include "datastruct/elasticarray.c"
#include "datastruct/elasticqueue.c"
#include "datastruct/seqptrmap.c"
#include "c12_defs.h"
#include "spm.h"

void
h_spm_get(void)
{
	SPM_MK(M);
	IN(int64_t, key);
	void * p;

	p = seqptrmap_get(M, key);
	VCOVER(p != NULL && key > m_off);
	VCOVER(p == NULL && key >= m_off && key < m_off + (int64_t)eq_len);	/* tombstone */
	VCOVER(p == NULL && key < m_off);
	VCOVER(p == NULL && key >= m_off + (int64_t)eq_len);
}
