/* shared pre-state construction for elastic-array harnesses: every wf array with alloc <= EA_MAXOBJ */
#ifndef EA_MAXOBJ
#define EA_MAXOBJ 64
#endif
#define EA_MK(EA) \
	IN(size_t, ea_alloc); IN(size_t, ea_size); \
	__CPROVER_assume(ea_size <= ea_alloc && ea_alloc <= EA_MAXOBJ); \
	struct elasticarray * EA = malloc(sizeof(struct elasticarray)); \
	__CPROVER_assume(EA != NULL); \
	IN_BYTES(ea_buf0, ea_alloc, EA_MAXOBJ); \
	EA->size = ea_size; EA->alloc = ea_alloc; \
	if (ea_alloc == 0) { free(ea_buf0); EA->buf = NULL; } else EA->buf = ea_buf0; \
	IN(size_t, gi); g_ea_idx = gi
