/* shared pre-state for seqptrmap harnesses: every wf map whose queue has small offset/len (records are pointers) */
#define RECLEN 8
#include "eq.h"
#define SPM_MK(M) \
	EQ_MK(EQ); \
	IN(int64_t, m_off); \
	__CPROVER_assume(m_off >= 0 && m_off <= INT64_MAX - 2 * 64); \
	struct seqptrmap * M = malloc(sizeof(struct seqptrmap)); \
	__CPROVER_assume(M != NULL); \
	M->ptrs = EQ; M->offset = m_off; M->len = eq_len; \
	__CPROVER_assume(eq_len == 0 || SPM_REC(M, 0) != NULL); \
	IN(size_t, gr); g_spm_r = gr
