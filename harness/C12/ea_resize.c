/* VERIF-GROUP
{
 "property": ["C12", "C14"],
 "entry": "h_resize_pub",
 "enforce": ["elasticarray_resize"],
 "replace": ["resize"],
 "annotate": ["datastruct/elasticarray.c"],
 "defines": ["VERIF_HALLOC"],
 "thorough_defines": ["EA_MAXOBJ=4096"],
 "matrix": {"RECLEN": [1, 8, 24]},
 "cbmc": ["--malloc-may-fail", "--malloc-fail-null"],
 "native": true,
 "timeout": 300
}
*/
#include <stdlib.h>
#include "verif.h"
size_t g_ea_idx;
#include "datastruct/elasticarray.c"
#include "ea.h"

void
h_resize_pub(void)
{
	EA_MK(EA);
	IN(size_t, nrec);
	int rc;

	rc = elasticarray_resize(EA, nrec, RECLEN);
	VCOVER(rc == 0 && EA->size > ea_size && g_ea_idx < ea_size);
	VCOVER(rc == 0 && EA->size < ea_size && g_ea_idx < EA->size);
	VCOVER(rc == -1 && nrec <= SIZE_MAX / RECLEN);
#if RECLEN > 1
	VCOVER(rc == -1 && nrec > SIZE_MAX / RECLEN);
#endif
}
