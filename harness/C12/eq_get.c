/* VERIF-GROUP
{
 "property": ["C12"],
 "entry": "h_eq_get",
 "enforce": ["elasticqueue_get"],
 "replace": [],
 "annotate": ["datastruct/elasticarray.c", "datastruct/elasticqueue.c"],
 "defines": ["VERIF_HALLOC", "EA_MAXOBJ=64", "EQ_LIM=8"],
 "matrix": {"RECLEN": [1, 8]},
 "native": true,
 "timeout": 300
}
*/
#include <stdlib.h>
#include "verif.h"
size_t g_ea_idx;
uint8_t g_eq_src, g_eq_self;
#include "datastruct/elasticarray.c"
#include "datastruct/elasticqueue.c"
#include "eq.h"

void
h_eq_get(void)
{
	EQ_MK(EQ);
	IN(size_t, pos);
	uint8_t * p;

	p = elasticqueue_get(EQ, pos);
	VCOVER(p != NULL && pos > 0);
	VCOVER(p == NULL && pos == eq_len);
	/* a returned record lies inside the array's storage: all reclen bytes are readable */
	if (p != NULL)
		__CPROVER_assert(__CPROVER_r_ok(p, RECLEN), "record returned by elasticqueue_get lies inside the storage");
}
