/* VERIF-GROUP
{
 "property": ["C12", "C14"],
 "entry": "h_spm_add",
 "enforce": ["seqptrmap_add"],
 "replace": [],
 "annotate": ["datastruct/elasticarray.c", "datastruct/elasticqueue.c", "datastruct/seqptrmap.c"],
 "defines": ["VERIF_HALLOC", "EA_MAXOBJ=64", "EQ_LIM=3"],
 "models": ["models/libc_mem.c"],
 "cbmc": ["--malloc-may-fail", "--malloc-fail-null"],
 "native": true,
 "timeout": 600,
 "assumptions": ["elasticqueue_add / elasticarray_append / resize are inlined (word-granular view; their own contracts are enforced in the eq_* / ea_* groups)"]
}
*/
#include <stdlib.h>
#include "verif.h"
size_t g_ea_idx, g_spm_r;
uint8_t g_eq_src, g_eq_self;
int64_t g_spm_key;
void * g_spm_val;
#include "datastruct/elasticarray.c"
#include "datastruct/elasticqueue.c"
#include "datastruct/seqptrmap.c"
#include "c12_defs.h"
#include "spm.h"

void
h_spm_add(void)
{
	SPM_MK(M);
	IN(uintptr_t, pv);
	int64_t rc;

	rc = seqptrmap_add(M, (void *)pv);
	VCOVER(rc != -1 && eq_len > 0 && g_spm_r < eq_len);
	VCOVER(rc != -1 && eq_len == 0);
	VCOVER(rc == -1);
	/* property-level restatement (replayable natively) */
	__CPROVER_assert(rc != -1 || (M->len == eq_len && EQ->len == eq_len && EQ->offset == eq_off && M->offset == m_off),
	    "a failed add leaves the map unmodified");
	if (rc != -1) {
		__CPROVER_assert(rc == m_off + (int64_t)eq_len, "numbers are issued consecutively");
		__CPROVER_assert(seqptrmap_get(M, rc) == (void *)pv, "the number returned maps to the pointer added");
	}
}
