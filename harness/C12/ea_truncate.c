/* VERIF-GROUP
{
 "property": ["C12", "C14"],
 "entry": "h_truncate",
 "enforce": ["elasticarray_truncate"],
 "replace": [],
 "annotate": ["datastruct/elasticarray.c"],
 "defines": ["VERIF_HALLOC"],
 "thorough_defines": ["EA_MAXOBJ=4096"],
 "cbmc": ["--malloc-may-fail", "--malloc-fail-null"],
 "native": true,
 "timeout": 300
}
*/
#include <stdlib.h>
#include "verif.h"
size_t g_ea_idx;
#include "datastruct/elasticarray.c"
#include "ea.h"

void
h_truncate(void)
{
	EA_MK(EA);
	int rc;

	rc = elasticarray_truncate(EA);
	VCOVER(rc == 0 && ea_alloc > ea_size && ea_size > 0 && g_ea_idx < ea_size);
	VCOVER(rc == 0 && ea_size == 0 && ea_alloc > 0);
	VCOVER(rc == -1);
	VCOVER(rc == 0 && ea_alloc == ea_size);
}
