/* VERIF-GROUP
{
 "property": ["C12", "C14"],
 "entry": "h_exportdup",
 "enforce": ["elasticarray_exportdup"],
 "replace": [],
 "annotate": ["datastruct/elasticarray.c"],
 "defines": ["VERIF_HALLOC"],
 "thorough_defines": ["EA_MAXOBJ=4096"],
 "matrix": {"RECLEN": [1, 8, 24]},
 "models": ["models/libc_mem.c"],
 "cbmc": ["--malloc-may-fail", "--malloc-fail-null", "--memory-leak-check"],
 "native": true,
 "timeout": 300
}
*/
#include <stdlib.h>
#include "verif.h"
size_t g_ea_idx;
#include "datastruct/elasticarray.c"
#include "ea.h"

void
h_exportdup(void)
{
	EA_MK(EA);
	void * out;
	size_t nrec;
	int rc;

	rc = elasticarray_exportdup(EA, &out, &nrec, RECLEN);
	VCOVER(rc == 0 && ea_size > 0 && g_ea_idx < ea_size);
	VCOVER(rc == 0 && ea_size == 0);
	VCOVER(rc == -1);
	if (rc == 0)
		free(out);
	elasticarray_free(EA);
}
