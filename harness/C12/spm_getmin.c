/* VERIF-GROUP
{
 "property": ["C12", "C14"],
 "entry": "h_spm_getmin",
 "enforce": ["seqptrmap_getmin"],
 "replace": [],
 "annotate": ["datastruct/elasticarray.c", "datastruct/elasticqueue.c", "datastruct/seqptrmap.c"],
 "defines": ["VERIF_HALLOC", "EA_MAXOBJ=64", "EQ_LIM=3"],
 "models": ["models/libc_mem.c"],
 "cbmc": ["--malloc-may-fail", "--malloc-fail-null"],
 "native": true,
 "timeout": 600
}
*/
#include <stdlib.h>
#include "verif.h"
size_t g_ea_idx, g_spm_r;
uint8_t g_eq_src, g_eq_self;
int64_t g_spm_key;
void * g_spm_val;
#include "datastruct/elasticarray.c"
#include "datastruct/elasticqueue.c"
#include "datastruct/seqptrmap.c"
#include "c12_defs.h"
#include "spm.h"

void
h_spm_getmin(void)
{
	SPM_MK(M);
	int64_t k;

	k = seqptrmap_getmin(M);
	VCOVER(k == -1);
	VCOVER(k > 0);
	if (k != -1)
		__CPROVER_assert(seqptrmap_get(M, k) != NULL, "the minimum is a live number");
}
