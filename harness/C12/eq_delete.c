/* VERIF-GROUP
{
 "property": ["C12", "C14"],
 "entry": "h_eq_delete",
 "enforce": ["elasticqueue_delete"],
 "replace": [],
 "annotate": ["datastruct/elasticarray.c", "datastruct/elasticqueue.c"],
 "defines": ["VERIF_HALLOC", "EA_MAXOBJ=64", "EQ_LIM=8"],
 "matrix": {"RECLEN": [1, 8]},
 "models": ["models/libc_mem.c"],
 "cbmc": ["--malloc-may-fail", "--malloc-fail-null"],
 "native": true,
 "timeout": 600,
 "assumptions": ["elasticarray_get / elasticarray_shrink / resize are inlined (interior pointers; the old buffer stays in use when realloc refuses)"]
}
*/
#include <stdlib.h>
#include "verif.h"
size_t g_ea_idx;
uint8_t g_eq_src, g_eq_self;
#include "datastruct/elasticarray.c"
#include "datastruct/elasticqueue.c"
#include "eq.h"

void
h_eq_delete(void)
{
	EQ_MK(EQ);

	elasticqueue_delete(EQ);
	VCOVER(eq_len > 2 && EQ->offset == 0 && eq_off > 0 && g_ea_idx < EQ->len * RECLEN);	/* moved to front */
	VCOVER(eq_len > 2 && EQ->offset == eq_off + 1 && g_ea_idx < EQ->len * RECLEN);	/* not moved */
	VCOVER(eq_len == 0);
	VCOVER(eq_len == 1 && EQ->EA->alloc == 0);
}
