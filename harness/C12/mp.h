/* shared pre-state for mpool harnesses */
#ifndef MP_MAXSTACK
#define MP_MAXSTACK 8
#endif
static void dummy_atexit(void) { }
#define MP_MK(M) \
	IN(size_t, mp_allocsize); IN(size_t, mp_stacklen); IN(int, mp_static); \
	__CPROVER_assume(mp_allocsize > 0 && mp_allocsize <= MP_MAXSTACK && mp_stacklen <= mp_allocsize); \
	struct mpool * M = malloc(sizeof(struct mpool)); \
	__CPROVER_assume(M != NULL); \
	void ** mp_stack = malloc(mp_allocsize * sizeof(void *)); \
	__CPROVER_assume(mp_stack != NULL); \
	M->stacklen = mp_stacklen; M->allocsize = mp_allocsize; M->allocs = mp_stack; \
	M->allocs_static = mp_static ? mp_stack : NULL; \
	IN(uint64_t, mp_na); IN(uint64_t, mp_ne); IN(int, mp_state); \
	M->nallocs = mp_na; M->nempties = mp_ne; M->state = mp_state; M->atexitfunc = dummy_atexit; \
	IN(size_t, gk); IN(size_t, gj); g_mp_k = gk; g_mp_j = gj; \
	void * mp_inuse_obj = malloc(1); __CPROVER_assume(mp_inuse_obj != NULL); g_mp_inuse = mp_inuse_obj
