/* VERIF-GROUP
{
 "property": ["C12"],
 "entry": "h_misc",
 "enforce": ["elasticarray_getsize"],
 "replace": [],
 "annotate": ["datastruct/elasticarray.c"],
 "defines": ["VERIF_HALLOC"],
 "thorough_defines": ["EA_MAXOBJ=4096"],
 "matrix": {"RECLEN": [1, 3, 8, 24]},
 "native": true,
 "timeout": 120
}
*/
#include <stdlib.h>
#include "verif.h"
size_t g_ea_idx;
#include "datastruct/elasticarray.c"
#include "ea.h"

void
h_misc(void)
{
	EA_MK(EA);
	size_t n;

	n = elasticarray_getsize(EA, RECLEN);
	VCOVER(n > 0 && ea_size % RECLEN != 0 + (RECLEN == 1));
	VCOVER(n == 0);
}
