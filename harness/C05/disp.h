/* common part of the dispatcher harnesses (events/events.c) */
#ifndef DISP_H_
#define DISP_H_
int __VERIFIER_nondet_int(void);
/*
 * The abstract user callback: runs with its cookie (counted), may request an interrupt, may set the user's done
 * flag, returns anything.  (What it does to the event sources is invisible to the dispatcher: the monitor forgets
 * everything it knew after each callback.)
 */
int
ev_cb_model(void * c)
{

	g_cb_calls++;
	g_cb_cookie = c;
	if (__VERIFIER_nondet_int())
		events_interrupt();
	if (g_user_done != NULL && __VERIFIER_nondet_int())
		*g_user_done = 1;
	return (__VERIFIER_nondet_int());
}
#define DISP_START() do { \
	g_pending = NULL; EV_DISP_RESET; \
	IN(int, ds_intr); __CPROVER_assume(ds_intr == 0 || ds_intr == 1); interrupt_requested = ds_intr; \
	IN(size_t, ds_live); g_live = ds_live; IN(unsigned, ds_calls); g_cb_calls = ds_calls; \
} while (0)
#endif
