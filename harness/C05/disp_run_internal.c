/* VERIF-GROUP
{
 "property": ["C05"],
 "entry": "h_run_internal",
 "enforce": ["events_run_internal"],
 "replace": ["doevent"],
 "annotate": ["events/events.c"],
 "defines": ["VERIF_HALLOC"],
 "models": ["models/ev_atexit.c", "models/ev_disp_sources.c"],
 "expect_loops": ["events_run_internal"],
 "cbmc": ["--object-bits", "9"],
 "timeout": 200,
 "assumptions": ["event sources replaced by abstract models with the ghost order monitor (models/ev_disp_sources.c: precondition asserted, result arbitrary within the postcondition); each is implied by the module contract enforced in C04/imm_get, C04/net_get, C04/net_select, C05/timer_min (C04 dir), C04/timer_get (paper step: projection of the module state onto the monitor)",
                 "doevent replaced by its contract (enforced in C04/rec_doevent); the callback is abstract: any result, may request an interrupt, may (un)register anything (the monitor forgets all it knew)",
                 "both loops closed by loop contracts (any number of callbacks); termination is not claimed",
                 "asynchronous signal handlers setting interrupt_requested between two statements are not modelled (only callbacks set it)"]
}
*/
#include <stdlib.h>
#include "verif.h"
#define EV_REC_NO_DECL
#include "ev_disp.h"
size_t g_live; struct eventrec * g_lastrec; struct eventrec * g_lastfreed;
EV_DISP_GHOSTS;
#include "events/events.c"
#include "../C05/disp.h"

void
h_run_internal(void)
{
	int rc;

	DISP_START();
	g_user_done = NULL;
	int intr0 = interrupt_requested;

	rc = events_run_internal();

	__CPROVER_assert(g_pending == NULL, "every record taken from a source was run");
	VCOVER(g_first_imm == 1 && g_ndo >= 2 && rc == 0);
	VCOVER(g_first_imm == 1 && rc == 7);
	VCOVER(g_first_imm == 1 && g_ndo == 1 && intr0 == 1 && rc == 0);
	VCOVER(g_first_imm == 0 && g_nsel == 1 && intr0 == 1 && g_ndo == 0 && rc == 0);
	VCOVER(g_first_imm == 0 && g_nsel >= 2 && g_ndo >= 1 && rc == 0 && g_imm_empty && g_net_exh && !interrupt_requested);
	VCOVER(g_first_imm == 0 && g_ndo >= 1 && rc == -5);
	VCOVER(g_first_imm == 0 && g_src_err && rc == -1 && g_nsel == 0);
	VCOVER(g_first_imm == 0 && g_src_err && rc == -1 && g_nsel >= 2);
	VCOVER(g_first_imm == 0 && g_tmin_ptr == NULL && g_nsel >= 1 && g_sel_tv_first == NULL);
	VCOVER(g_first_imm == 0 && g_ndo >= 1 && interrupt_requested && rc == 0);
}
