/* VERIF-GROUP
{
 "property": ["C05"],
 "entry": "h_run",
 "enforce": ["events_run"],
 "replace": ["events_run_internal"],
 "annotate": ["events/events.c"],
 "defines": ["VERIF_HALLOC"],
 "models": ["models/ev_atexit.c", "models/ev_disp_sources.c"],
 "timeout": 300,
 "assumptions": ["events_run_internal replaced by its contract (enforced in C05/disp_run_internal)"]
}
*/
#include <stdlib.h>
#include "verif.h"
#define EV_REC_NO_DECL
#include "ev_disp.h"
size_t g_live; struct eventrec * g_lastrec; struct eventrec * g_lastfreed;
EV_DISP_GHOSTS;
#include "events/events.c"
#include "../C05/disp.h"

void
h_run(void)
{
	int rc;

	DISP_START();
	g_user_done = NULL;

	rc = events_run();

	__CPROVER_assert(interrupt_requested == 0, "the interrupt request is consumed when the run returns");
	VCOVER(rc == -1 && g_src_err);
	VCOVER(rc == 3 && !g_src_err && g_ndo >= 1);
	VCOVER(rc == 0 && g_first_imm == 0 && g_imm_empty && g_net_exh);
}
