/* VERIF-GROUP
{
 "property": ["C05"],
 "entry": "h_ceil_ms",
 "enforce": ["ev_ceil_ms"],
 "replace": [],
 "annotate": [],
 "loop_contracts": false,
 "defines": ["VERIF_HALLOC"],
 "timeout": 300,
 "assumptions": ["loop-free arithmetic leaf (HOWTO trap 7): the formula EV_CEIL_MS that the contract of events_network_select (C04/net_select) proves for the poll timeout is the least whole number of milliseconds covering the timeval"]
}
*/
#include <limits.h>
#include "verif.h"
/* the same macro text as in contracts/events__events_network.c.spec */
#define EV_CEIL_MS(sec, usec)	((sec) * 1000 + ((usec) + 999) / 1000)

long
ev_ceil_ms(long sec, long usec)
__CPROVER_requires(sec >= 0 && sec < INT_MAX / 1000 && usec >= 0 && usec < 1000000)
__CPROVER_assigns()
/* fits an int (the cast in events_network_select loses nothing) */
__CPROVER_ensures(__CPROVER_return_value >= 0 && __CPROVER_return_value <= INT_MAX)
/* = sec whole seconds (1000 ms each) + the microseconds rounded UP to whole milliseconds: the remainder covers usec,
   and one millisecond less would not.  (Stated on the sub-second part: "sec * 1000 * 1000 == sec * 1000000" is
   multiplier associativity, which no SAT/SMT back end here decides in 5 minutes on 64-bit vectors.) */
__CPROVER_ensures(__CPROVER_return_value >= sec * 1000 && __CPROVER_return_value - sec * 1000 <= 1000)
__CPROVER_ensures((__CPROVER_return_value - sec * 1000) * 1000 >= usec)
__CPROVER_ensures((__CPROVER_return_value - sec * 1000 - 1) * 1000 < usec)
/* never 0 for a non-zero wait (no busy loop), 0 only for a zero timeout */
__CPROVER_ensures((__CPROVER_return_value == 0) == (sec == 0 && usec == 0))
{
	return (EV_CEIL_MS(sec, usec));
}

void
h_ceil_ms(void)
{
	IN(long, sec);
	IN(long, usec);
	long ms;

	__CPROVER_assume(sec >= 0 && sec < INT_MAX / 1000 && usec >= 0 && usec < 1000000);
	ms = ev_ceil_ms(sec, usec);
	VCOVER(ms == 1 && usec == 1);
	VCOVER(ms == 1000 && sec == 0);
	VCOVER(sec == INT_MAX / 1000 - 1 && usec == 999999);
	VCOVER(ms == 0);
}
