/* VERIF-GROUP
{
 "property": ["C05", "C04"],
 "entry": "h_imm_seq",
 "enforce": [],
 "replace": [],
 "loop_contracts": false,
 "annotate": [],
 "defines": ["VERIF_HALLOC", "SEQ_LEN=4"],
 "thorough_defines": ["SEQ_LEN=5"],
 "models": ["models/ev_atexit.c"],
 "cbmc": ["--unwindset", "events_immediate_get.0:33"],
 "bounded": true,
 "bound": "all sequences of SEQ_LEN (4 quick / 5 thorough) register / cancel / get operations from the empty state, over the 3 priorities 0, 5, 31; fully unwound (the minq scan has the constant bound 32)",
 "timeout": 600,
 "assumptions": ["node pool replaced by plain malloc/free (mpool: C12)", "reference model: one FIFO array per priority; events_mkrec / events_freerec are plain malloc/free here (their contracts: C04/rec_*)",
                 "no function contract is enforced in this group (the contracts of the three functions are enforced in C04/imm_*); it checks the composed behaviour against the model"]
}
*/
#include <stdlib.h>
#include "verif.h"
#define EV_REC_NO_DECL
#include "ev_rec.h"
#include "../C04/imm.h"
IMM_GHOSTS;
/*
 * The node pool is replaced by plain malloc/free (= mpool's abstract behaviour, proved in C12): with the real pool
 * every merged path keeps the stack-growth branch alive (a 32 KB memcpy per operation) and CBMC runs out of memory.
 */
#include "mpool.h"
#undef MPOOL
#define MPOOL(name, type, size) \
	static type * mpool_##name##_malloc(void) { return (malloc(sizeof(type))); } \
	static void mpool_##name##_free(type * p) { free(p); } \
	struct mpool_##name##_dummy
#include "events/events_immediate.c"

/* record allocation without the pool (pool behaviour: C04/rec_*, C12) */
struct eventrec * events_mkrec(int (* f)(void *), void * c)
{
	struct ev_recview * r = malloc(sizeof(struct ev_recview));
	if (r != NULL) { r->func = f; r->cookie = c; }
	return ((struct eventrec *)r);
}
void events_freerec(struct eventrec * r) { free(r); }
static int cb(void * c) { (void)c; return (0); }
int __VERIFIER_nondet_int(void);

#define NP 3
void
h_imm_seq(void)
{
	int pr[NP];
	/* reference model */
	struct eventrec * mq[NP][SEQ_LEN]; int mlen[NP];
	void * ck[NP][SEQ_LEN];	/* cookie of the node holding mq[][] */
	int served = 0, cancelled = 0, failed = 0;

	for (int k = 0; k < 32; k++) TAILQ_INIT(&heads[k]);
	minq = 32;
	/* three concrete priorities including both ends of the range (the code only compares priorities) */
	pr[0] = 0; pr[1] = 5; pr[2] = 31;
	for (int i = 0; i < NP; i++) mlen[i] = 0;

	for (int step = 0; step < SEQ_LEN; step++) {
		int op = __VERIFIER_nondet_int();
		if (op == 0) {
			/* register at one of the three priorities */
			int pi = __VERIFIER_nondet_int();
			__CPROVER_assume(pi >= 0 && pi < NP);
			void * q = events_immediate_register(cb, NULL, pr[pi]);
			if (q != NULL) {
				mq[pi][mlen[pi]] = ((struct eventq *)q)->r;
				ck[pi][mlen[pi]] = q;
				mlen[pi]++;
			} else
				failed++;
		} else if (op == 1) {
			/* cancel any queued event */
			int pi = __VERIFIER_nondet_int(), pos = __VERIFIER_nondet_int();
			__CPROVER_assume(pi >= 0 && pi < NP && pos >= 0 && pos < mlen[pi]);
			events_immediate_cancel(ck[pi][pos]);
			for (int j = 0; j < SEQ_LEN - 1; j++)
				if (j >= pos && j + 1 < mlen[pi]) { mq[pi][j] = mq[pi][j + 1]; ck[pi][j] = ck[pi][j + 1]; }
			mlen[pi]--;
			cancelled++;
		} else {
			struct eventrec * r = events_immediate_get();
			int lo = (mlen[0] > 0) ? 0 : (mlen[1] > 0) ? 1 : (mlen[2] > 0) ? 2 : -1;
			if (lo < 0)
				__CPROVER_assert(r == NULL, "nothing pending: NULL");
			else {
				__CPROVER_assert(r == mq[lo][0], "ORDER: lowest priority value first, first-in-first-out within a priority; cancelled events never come back");
				for (int j = 0; j < SEQ_LEN - 1; j++)
					if (j + 1 < mlen[lo]) { mq[lo][j] = mq[lo][j + 1]; ck[lo][j] = ck[lo][j + 1]; }
				mlen[lo]--;
				free(r);
				served++;
			}
		}
	}
	VCOVER(served >= 2 && mlen[0] + mlen[1] + mlen[2] == 0);
	VCOVER(served >= 1 && cancelled >= 1);
	VCOVER(served == 1 && mlen[2] == 1 && mlen[0] == 0 && mlen[1] == 0 && cancelled == 0 && failed == 0);
	VCOVER(failed >= 1 && served >= 1);
}
