/* VERIF-GROUP
{
 "property": ["C05"],
 "entry": "h_spin",
 "enforce": ["events_spin"],
 "replace": ["events_run_internal"],
 "annotate": ["events/events.c"],
 "defines": ["VERIF_HALLOC"],
 "models": ["models/ev_atexit.c", "models/ev_disp_sources.c"],
 "expect_loops": ["events_spin"],
 "timeout": 300,
 "assumptions": ["events_run_internal replaced by its contract (enforced in C05/disp_run_internal); a callback may set the user's done flag (g_user_done)",
                 "loop closed by its loop contract (any number of runs); termination is not claimed"]
}
*/
#include <stdlib.h>
#include "verif.h"
#define EV_REC_NO_DECL
#include "ev_disp.h"
size_t g_live; struct eventrec * g_lastrec; struct eventrec * g_lastfreed;
EV_DISP_GHOSTS;
#include "events/events.c"
#include "../C05/disp.h"

void
h_spin(void)
{
	int done;
	int rc;

	DISP_START();
	g_user_done = &done;
	int done0 = done;

	rc = events_spin(&done);

	__CPROVER_assert(interrupt_requested == 0, "the interrupt request is consumed when the spin returns");
	__CPROVER_assert(rc != 0 || done != 0 || g_spin_intr != 0, "spin stops only on done / non-zero status / interrupt");
	VCOVER(rc == 0 && done0 != 0 && g_ndo == 0);
	VCOVER(rc == 0 && done0 == 0 && done != 0);
	VCOVER(rc == 0 && done == 0 && g_spin_intr);
	VCOVER(rc == -1 && g_src_err);
	VCOVER(rc == 9 && !g_src_err);
}
