/* VERIF-GROUP
{
 "property": ["C18"],
 "entry": "h_atexit",
 "enforce": ["getopt_atexit"],
 "annotate": ["util/getopt.c"],
 "defines": ["VERIF_HALLOC", "GO_NOPTS_MAX=4", "GO_STRMAX=6", "VERIF_STRMAX=8", "GSPEC_NAMEMAX=8"],
 "models": ["models/libc_string.c", "models/libc_misc.c", "models/getopt_stdio.c"],
 "timeout": 300,
 "assumptions": ["table object <= 4 slots"]
}
*/
#include "go_pre.h"
#include "util/getopt.c"
#include "go.h"

void
h_atexit(void)
{
	GO_MK_TABLE();
	IN(int, s_none);

	if (s_none)
		opts = NULL;

	getopt_atexit();

	__CPROVER_assert(opts == NULL, "atexit: table released");
	VCOVER(t_n == GO_NOPTS_MAX && !s_none);
	VCOVER(s_none);
}
