/* VERIF-GROUP
{
 "property": ["C18"],
 "entry": "h_setrange",
 "enforce": ["getopt_setrange"],
 "annotate": ["util/getopt.c"],
 "defines": ["VERIF_HALLOC", "GO_NOPTS_MAX=4", "GO_STRMAX=6", "VERIF_STRMAX=8", "GSPEC_NAMEMAX=8"],
 "thorough_defines": ["GO_NOPTS_MAX=6"],
 "models": ["models/libc_string.c", "models/libc_misc.c", "models/getopt_stdio.c"],
 "cbmc": ["--malloc-may-fail", "--malloc-fail-null"],
 "timeout": 300,
 "assumptions": ["maxopts <= GO_NOPTS_MAX (4 quick / 6 thorough): bound on the table object; the initialisation loop is closed by a loop contract (ghost slot index)",
                 "allocation failure => DIE() (abort): the function does not return; malloc(0) == NULL is tolerated by the table invariant"]
}
*/
#include "go_pre.h"
#include "util/getopt.c"
#include "go.h"

void
h_setrange(void)
{
	IN(size_t, n); IN(size_t, gi); IN(int, s_reset);

	/* every state with no table being used: anything in opts/nopts/opt_*, reset pending or not */
	getopt_initialized = 0;
	optreset = s_reset;
	g_go_i = gi;
	__CPROVER_assume(n <= GO_NOPTS_MAX);

	getopt_setrange(n);

	__CPROVER_assert(s_reset == 0, "setrange: dies when a reset is pending");
	__CPROVER_assert(nopts == n && opt_default == n + 1 && opt_missing == n + 1, "setrange: range and default indices");
	__CPROVER_assert(!(gi < n) || opts[gi].os == NULL, "setrange: every slot is empty");
	VCOVER(n == 0 && opts == NULL);
	VCOVER(n == 0 && opts != NULL);
	VCOVER(n == GO_NOPTS_MAX && gi == GO_NOPTS_MAX - 1);
}
