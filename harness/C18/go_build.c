/* VERIF-GROUP
{
 "property": ["C18"],
 "entry": "h_build",
 "annotate": ["util/getopt.c"],
 "loop_contracts": false,
 "matrix": {"GO_N": [1, 2, 4]},
 "defines": ["VERIF_HALLOC", "GO_NOPTS_MAX=4", "GO_STRMAX=6", "GO_ARGC_MAX=2", "VERIF_STRMAX=8", "GSPEC_NAMEMAX=8"],
 "models": ["models/libc_string.c", "models/libc_misc.c", "models/getopt_stdio.c"],
 "timeout": 300,
 "assumptions": ["base case of the history induction, run on the REAL initial state (no DFCC here: the statics keep the initialisers of util/getopt.c) and with NO contract in play: first getopt() call, then the call sequence that GETOPT_SWITCH's first pass makes -- getopt_setrange(N), then for each line offset in increasing order nothing / getopt_register_opt(name, offset, flag) / getopt_register_missing(offset), then getopt_initialized = 1 -- with arbitrary names (malformed or duplicate ones make the real code die)",
                 "N is a compile-time constant per instance (1, 2, 4), so every loop has a constant bound and is unwound completely",
                 "what is NOT covered: the macro layer itself (sigsetjmp/siglongjmp or computed goto, __LINE__ arithmetic); the sequence above is read off getopt.h by hand"]
}
*/
#include "go_pre.h"
#include "util/getopt.c"
#include "go.h"

/* one pass of the switch over line offset ln: no label there, GETOPT_OPT/GETOPT_OPTARG, or GETOPT_MISSING_ARG */
#define GO_LINE(ln) \
	IN(int, b_kind##ln); IN(int, b_arg##ln); \
	GO_STR(b_s##ln, b_len##ln); \
	if (ln < GO_N) { \
		if (b_kind##ln == 1) { \
			getopt_register_opt(b_s##ln, ln, b_arg##ln != 0); \
			nreg++; \
		} else if (b_kind##ln == 2) \
			getopt_register_missing(ln); \
	}

void
h_build(void)
{
	GO_MK_ARGV();
	const char * r;
	int nreg = 0;

	/* while ((ch = GETOPT(argc, argv)) != NULL) { GETOPT_SWITCH(ch) { ... first iteration */
	/* (argc == 0 here: the basename scan of argv[0], the only loop without a constant bound, is go_reset's and go_first's business) */
	r = getopt(0, a_v);
	__CPROVER_assert(r == getopt_dummy && r != NULL, "fresh process: first call returns the dummy option");
	__CPROVER_assert(optind == 1 && optreset == 0 && getopt_initialized == 0 && packedopts == NULL && optarg == NULL,
	    "fresh process: scan state after the first call");
	/* default: (not initialised) -> getopt_setrange(ln_default - ln_switch) */
	getopt_setrange(GO_N);
	GO_LINE(0) GO_LINE(1) GO_LINE(2) GO_LINE(3)
	/* case ln_default: */
	getopt_initialized = 1;

	__CPROVER_assert(go_wf_table(), "the table built by the real registration calls satisfies the table invariant");
	__CPROVER_assert(go_scan_ok(a_c, a_v) && go_step_pre(a_c, a_v), "the scan state satisfies the module invariant");
	__CPROVER_assert(optind == 1, "the scan starts at argv[1]");
	VCOVER(nreg == GO_N);
	VCOVER(nreg == 0 && opt_missing == 0);
#if GO_N >= 2
	VCOVER(nreg == GO_N - 1 && opt_missing == GO_N - 1);
	VCOVER(nreg == 2 && b_len0 == b_len1 && b_len0 == GO_STRMAX);
#endif
}
