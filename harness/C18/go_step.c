/* VERIF-GROUP
{
 "property": ["C18", "C15"],
 "entry": "h_step",
 "enforce": ["libcperciva_getopt"],
 "replace": ["searchopt"],
 "annotate": ["util/getopt.c"],
 "defines": ["VERIF_HALLOC", "GO_NOPTS_MAX=4", "GO_STRMAX=6", "GO_ARGC_MAX=4", "VERIF_STRMAX=8", "GSPEC_NAMEMAX=8"],
 "thorough_defines": ["GO_STRMAX=10", "VERIF_STRMAX=12", "GSPEC_NAMEMAX=16"],
 "models": ["models/libc_string.c", "models/libc_misc.c", "models/getopt_stdio.c"],
 "timeout": 600,
 "thorough_timeout": 2400,
 "assumptions": ["option table object <= 4 slots, argv object <= 4 pointers, every string <= 6 (thorough: 10) characters in an exact-size heap block, arbitrary content",
                 "searchopt replaced by its contract (proved in go_searchopt)",
                 "fprintf(stderr, ...) modelled as 'a message was printed' (models/getopt_stdio.c); abort() ends the path"]
}
*/
#include "go_pre.h"
#include "util/getopt.c"
#include "go.h"
#include "go_state.h"

void
h_step(void)
{
	GO_MK_TABLE();
	GO_MK_ARGV();
	GO_MK_SCAN();
	const char * r;

	r = getopt(a_c, a_v);

	/* documented range of the results (C15) */
	__CPROVER_assert(r == NULL || r == popt || (s_optind < a_c && r == a_v[s_optind]) ||
	    (g_go_F < t_n && opts[g_go_F].os != NULL && r == opts[g_go_F].os),
	    "getopt: returns NULL, the spelled-out short option, the current word or a registered name");
	__CPROVER_assert(optind >= s_optind && (optind <= a_c || optind == s_optind), "getopt: optind stays within [old optind, argc]");
	__CPROVER_assert(optarg == NULL || (s_optind < a_c && __CPROVER_same_object(optarg, a_v[s_optind]) &&
	    __CPROVER_POINTER_OFFSET(optarg) <= a_l[s_optind]) || (s_optind + 1 < a_c && optarg == a_v[s_optind + 1]),
	    "getopt: optarg is NULL, points into the current word, or is the next word");
	GO_STEP_COVER();
	VCOVER(r != NULL && optarg != NULL && g_go_F == 0 && t_n == 1);	/* (the marker list proper is GO_STEP_COVER in go_state.h) */
}
