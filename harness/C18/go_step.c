/* VERIF-GROUP
{
 "property": ["C18", "C15"],
 "entry": "h_step",
 "enforce": ["libcperciva_getopt"],
 "replace": ["searchopt"],
 "annotate": ["util/getopt.c"],
 "defines": ["VERIF_HALLOC", "GO_NOPTS_MAX=4", "GO_STRMAX=6", "GO_ARGC_MAX=4", "VERIF_STRMAX=8", "GSPEC_NAMEMAX=8"],
 "models": ["models/libc_string.c", "models/libc_misc.c", "models/getopt_stdio.c"],
 "timeout": 300,
 "assumptions": ["option table object <= 4 slots, argv object <= 4 pointers, every string <= 6 characters in an exact-size heap block, arbitrary content",
                 "searchopt replaced by its contract (proved in go_searchopt)",
                 "fprintf(stderr, ...) modelled as 'a message was printed' (models/getopt_stdio.c); abort() ends the path"]
}
*/
#include "go_pre.h"
#include "util/getopt.c"
#include "go.h"
#include "go_state.h"

void
h_step(void)
{
	GO_MK_TABLE();
	GO_MK_ARGV();
	GO_MK_SCAN();
	const char * r;

	r = getopt(a_c, a_v);

	GO_STEP_COVER();
}
