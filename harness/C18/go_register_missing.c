/* VERIF-GROUP
{
 "property": ["C18"],
 "entry": "h_register_missing",
 "enforce": ["getopt_register_missing"],
 "annotate": ["util/getopt.c"],
 "defines": ["VERIF_HALLOC", "GO_NOPTS_MAX=4", "GO_STRMAX=6", "VERIF_STRMAX=8", "GSPEC_NAMEMAX=8"],
 "models": ["models/libc_string.c", "models/libc_misc.c", "models/getopt_stdio.c"],
 "timeout": 300,
 "assumptions": ["table object <= 4 slots, names <= 6 characters", "the slot index is inside the table and the slot is empty: guaranteed by the GETOPT_* macros (distinct __LINE__ values), NOT checked by the code"]
}
*/
#include "go_pre.h"
#include "util/getopt.c"
#include "go.h"

void
h_register_missing(void)
{
	GO_MK_TABLE();
	IN(size_t, ln); IN(int, s_reset); IN(size_t, gi);

	/* GETOPT_MISSING_ARG on the first pass */
	optreset = s_reset;
	g_go_i = gi;
	getopt_initialized = 0;
	__CPROVER_assume(ln < t_n && opts[ln].os == NULL);

	getopt_register_missing(ln);

	__CPROVER_assert(s_reset == 0 && opt_missing == ln, "register_missing: missing-argument index recorded");
	VCOVER(ln == GO_NOPTS_MAX - 1 && t_missing == t_n + 1);
	VCOVER(ln == 0 && t_reg1);
	VCOVER(t_missing < t_n && ln != t_missing);	/* a second GETOPT_MISSING_ARG label: the later one wins */
}
