/*
 * Shared pre-state construction for the util/getopt.c harnesses (C18, C15).
 * Every string lives in its own heap block of exactly strlen + 1 bytes (a read past the NUL is a pointer-check
 * failure); the option table has exactly nopts slots; argv has exactly argc pointers (no argv[argc] sentinel, so
 * a read of argv[argc] is detected as well).
 */
#ifndef GO_H_
#define GO_H_

/* a NUL-terminated string of arbitrary content, 0 <= strlen == len <= GO_STRMAX, exact-size block */
#define GO_STR(s, len) \
	IN(size_t, len); \
	__CPROVER_assume(len <= GO_STRMAX); \
	IN_BYTES(s##_u, len + 1, GO_STRMAX + 1); \
	char * s = (char *)s##_u; \
	for (size_t s##_j = 0; s##_j < GO_STRMAX; s##_j++) \
		if (s##_j < len) \
			__CPROVER_assume(s[s##_j] != '\0'); \
	s[len] = '\0'

/* slot i of the table: empty, or a registered option with an arbitrary valid name and an arbitrary flag */
#define GO_SLOT(i) \
	IN(int, t_reg##i); IN(int, t_arg##i); \
	GO_STR(t_s##i, t_len##i); \
	if (i < t_n) { \
		if (t_reg##i) { \
			__CPROVER_assume(GSPEC_VALID_NAME(t_s##i, t_len##i)); \
			opts[i].os = t_s##i; opts[i].olen = t_len##i; opts[i].hasarg = t_arg##i; \
		} else { \
			opts[i].os = NULL; \
		} \
	}

/*
 * Every table that getopt_setrange + getopt_register_opt* + getopt_register_missing? can leave behind, with at
 * most GO_NOPTS_MAX slots (the three "table_*" groups prove that those functions establish go_wf_table()).
 */
#if GO_NOPTS_MAX == 4
#define GO_SLOTS GO_SLOT(0) GO_SLOT(1) GO_SLOT(2) GO_SLOT(3)
#elif GO_NOPTS_MAX == 6
#define GO_SLOTS GO_SLOT(0) GO_SLOT(1) GO_SLOT(2) GO_SLOT(3) GO_SLOT(4) GO_SLOT(5)
#elif GO_NOPTS_MAX == 2
#define GO_SLOTS GO_SLOT(0) GO_SLOT(1)
#else
#error unsupported GO_NOPTS_MAX
#endif
#define GO_MK_TABLE() \
	IN(size_t, t_n); IN(size_t, t_missing); \
	__CPROVER_assume(t_n <= GO_NOPTS_MAX); \
	opts = malloc(t_n * sizeof(struct opt)); \
	__CPROVER_assume(opts != NULL); \
	nopts = t_n; \
	opt_default = t_n + 1; \
	GO_SLOTS \
	__CPROVER_assume(t_missing == t_n + 1 || (t_missing < t_n && opts[t_missing].os == NULL)); \
	opt_missing = t_missing

/* argv: exactly a_c pointers to strings of arbitrary content */
#define GO_ARG(i) \
	GO_STR(a_s##i, a_len##i); \
	if (i < a_c) { \
		a_v[i] = a_s##i; \
		a_l[i] = a_len##i; \
	}
#if GO_ARGC_MAX == 2
#define GO_ARGS GO_ARG(0) GO_ARG(1)
#elif GO_ARGC_MAX == 4
#define GO_ARGS GO_ARG(0) GO_ARG(1) GO_ARG(2) GO_ARG(3)
#elif GO_ARGC_MAX == 3
#define GO_ARGS GO_ARG(0) GO_ARG(1) GO_ARG(2)
#elif GO_ARGC_MAX == 6
#define GO_ARGS GO_ARG(0) GO_ARG(1) GO_ARG(2) GO_ARG(3) GO_ARG(4) GO_ARG(5)
#else
#error unsupported GO_ARGC_MAX
#endif
#define GO_MK_ARGV() \
	IN(int, a_c); \
	__CPROVER_assume(a_c >= 0 && a_c <= GO_ARGC_MAX); \
	char ** a_v = malloc((size_t)a_c * sizeof(char *)); \
	__CPROVER_assume(a_v != NULL); \
	size_t a_l[GO_ARGC_MAX]; \
	GO_ARGS

#endif /* !GO_H_ */
