/* included by every util/getopt.c harness BEFORE the real source: ghosts of the contracts, diagnostics channel */
#ifndef GO_PRE_H_
#define GO_PRE_H_
#include <stdio.h>
#include <stdlib.h>
#include "verif.h"
size_t g_go_i, g_go_k, g_go_F, g_go_n0;
extern int g_go_warned;
int go_msg(void);
/* see models/getopt_stdio.c: DFCC cannot instrument a variadic callee; every argument is still evaluated */
#define fprintf(f, ...) ((void)(f), (void)(__VA_ARGS__), go_msg())
#endif /* !GO_PRE_H_ */
