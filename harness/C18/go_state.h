/*
 * Scan state between two getopt() steps, and the vacuity markers of the step contract (shared by the C18 step
 * group, where searchopt is replaced by its contract, and the C15 one, where it is inlined).
 */
#ifndef GO_STATE_H_
#define GO_STATE_H_

/* every state allowed by the module invariant: any optind >= 0; no pack, or a cursor inside argv[optind] */
#define GO_MK_SCAN() \
	IN(int, s_optind); IN(int, s_pack); IN(size_t, s_pk); IN(int, s_opterr); IN(size_t, s_found); IN(size_t, gi); \
	__CPROVER_assume(s_optind >= 0); \
	optreset = 0; \
	getopt_initialized = 1; \
	optind = s_optind; \
	opterr = s_opterr; \
	opt_found = s_found; \
	cmdname = (a_c > 0) ? a_v[0] : NULL; \
	if (s_pack) { \
		__CPROVER_assume(s_optind < a_c); \
		__CPROVER_assume(s_pk >= 1 && s_pk < a_l[s_optind]); \
		packedopts = &a_v[s_optind][s_pk]; \
	} else { \
		packedopts = NULL; \
	} \
	g_go_i = gi; \
	g_go_warned = 0

#define GO_WORD		(a_v[s_optind])
#define GO_HAVE_WORD	(s_optind < a_c)
/* p points into the current word, after its first character */
#define GO_IN_WORD(p)	(__CPROVER_same_object(p, GO_WORD) && __CPROVER_POINTER_OFFSET(p) >= 1)
#define GO_STEP_COVER() \
	VCOVER(r == NULL && s_optind >= a_c && a_c == 0); \
	VCOVER(r == NULL && s_optind >= a_c && a_c == GO_ARGC_MAX); \
	VCOVER(r == NULL && GO_HAVE_WORD && a_l[s_optind] == 0 && optind == s_optind);			/* "" */ \
	VCOVER(r == NULL && GO_HAVE_WORD && a_l[s_optind] == 1 && GO_WORD[0] == '-' && optind == s_optind);	/* "-" */ \
	VCOVER(r == NULL && GO_HAVE_WORD && a_l[s_optind] == 2 && GO_WORD[0] == '-' && optind == s_optind + 1);	/* "--" */ \
	VCOVER(r == NULL && GO_HAVE_WORD && a_l[s_optind] == GO_STRMAX && optind == s_optind);		/* operand */ \
	VCOVER(r == popt && !s_pack && packedopts != NULL);		/* unknown short option starts a pack */ \
	VCOVER(r == popt && s_pack && packedopts == NULL && optind == s_optind + 1);	/* unknown, ends a pack */ \
	VCOVER(r != NULL && GO_HAVE_WORD && r == GO_WORD && g_go_warned);	/* unknown long option, warning */ \
	VCOVER(r != NULL && GO_HAVE_WORD && r == GO_WORD && !g_go_warned && s_opterr);	/* silenced by MISSING_ARG handler */ \
	VCOVER(r != NULL && r != popt && s_pack && packedopts != NULL && optarg == NULL && opt_found < t_n);	/* flag in mid-pack */ \
	VCOVER(r != NULL && s_pack && optarg != NULL && optarg == &GO_WORD[s_pk + 1]);	/* -abVALUE */ \
	VCOVER(r != NULL && !s_pack && optarg != NULL && GO_HAVE_WORD && optarg == &GO_WORD[2] && a_l[s_optind] > 2 && GO_WORD[1] != '-');	/* -xVALUE */ \
	VCOVER(r != NULL && optarg != NULL && s_optind + 1 < a_c && optarg == a_v[s_optind + 1] && optind == s_optind + 2 && s_pack);	/* -ab VALUE */ \
	VCOVER(r != NULL && optarg != NULL && s_optind + 1 < a_c && optarg == a_v[s_optind + 1] && GO_WORD[1] == '-' && a_l[s_optind + 1] == 2 && optarg[0] == '-' && optarg[1] == '-');	/* --foo -- */ \
	VCOVER(r != NULL && optarg != NULL && GO_HAVE_WORD && GO_WORD[1] == '-' && GO_IN_WORD(optarg) && optarg[-1] == '=' && optarg[0] != '\0');	/* --foo=bar */ \
	VCOVER(r != NULL && optarg != NULL && GO_HAVE_WORD && GO_WORD[1] == '-' && GO_IN_WORD(optarg) && optarg[-1] == '=' && optarg[0] == '\0');	/* --foo= */ \
	VCOVER(r != NULL && r != popt && optarg == NULL && opt_found == opt_missing && opt_missing != opt_default && optind == a_c);	/* missing argument, handler */ \
	VCOVER(r != NULL && r != popt && optarg == NULL && opt_found == opt_missing && opt_missing == opt_default && g_go_warned && GO_HAVE_WORD && r != GO_WORD);	/* missing argument, no handler */ \
	VCOVER(r != NULL && GO_HAVE_WORD && r != GO_WORD && r != popt && optarg == NULL && opt_found == opt_default && GO_WORD[1] == '-' && opt_missing != opt_default);	/* --flag=value */ \
	VCOVER(r != NULL && r != popt && opt_found == GO_NOPTS_MAX - 1 && optarg == NULL && GO_HAVE_WORD && GO_WORD[1] == '-');	/* long flag in last slot */

/* a smaller set for the memory-safety group (each marker is one more SAT call) */
#define GO_STEP_COVER_MIN() \
	VCOVER(r == NULL && s_optind >= a_c && a_c == GO_ARGC_MAX); \
	VCOVER(r == NULL && GO_HAVE_WORD && a_l[s_optind] == 1 && GO_WORD[0] == '-' && optind == s_optind);	/* "-" */ \
	VCOVER(r == popt && s_pack && packedopts == NULL && optind == s_optind + 1);	/* unknown, ends a pack */ \
	VCOVER(r != NULL && s_pack && optarg != NULL && optarg == &GO_WORD[s_pk + 1]);	/* -abVALUE */ \
	VCOVER(r != NULL && optarg != NULL && s_optind + 1 < a_c && optarg == a_v[s_optind + 1] && optind == a_c && a_l[s_optind] == GO_STRMAX && GO_WORD[1] == '-');	/* --longest VALUE at the end of argv */ \
	VCOVER(r != NULL && optarg != NULL && GO_HAVE_WORD && GO_WORD[1] == '-' && GO_IN_WORD(optarg) && optarg[-1] == '=' && optarg[0] == '\0' && a_l[s_optind] == GO_STRMAX);	/* --foo= */ \
	VCOVER(r != NULL && r != popt && optarg == NULL && opt_found == opt_missing && optind == a_c && opt_found != opt_default);	/* missing argument */

#endif /* !GO_STATE_H_ */
