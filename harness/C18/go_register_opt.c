/* VERIF-GROUP
{
 "property": ["C18", "C15"],
 "entry": "h_register_opt",
 "enforce": ["getopt_register_opt"],
 "replace": ["searchopt"],
 "annotate": ["util/getopt.c"],
 "defines": ["VERIF_HALLOC", "GO_NOPTS_MAX=4", "GO_STRMAX=6", "VERIF_STRMAX=8", "GSPEC_NAMEMAX=8"],
 "models": ["models/libc_string.c", "models/libc_misc.c", "models/getopt_stdio.c"],
 "timeout": 300,
 "assumptions": ["table object <= 4 slots, names <= 6 characters in exact-size heap blocks, arbitrary content (including malformed names: then the function must die)",
                 "searchopt replaced by its contract (proved in go_searchopt); strlen: models/libc_string.c",
                 "the slot index is inside the table, the slot is empty and is not the missing-argument slot: guaranteed by the GETOPT_* macros (distinct __LINE__ values below GETOPT_DEFAULT's), NOT checked by the code"]
}
*/
#include "go_pre.h"
#include "util/getopt.c"
#include "go.h"

void
h_register_opt(void)
{
	GO_MK_TABLE();
	GO_STR(w, wlen);
	IN(size_t, ln); IN(int, hasarg); IN(size_t, gi); IN(int, s_reset);
	struct opt before;

	getopt_initialized = 0;
	optreset = s_reset;
	g_go_i = gi;
	__CPROVER_assume(ln < t_n && ln != t_missing && opts[ln].os == NULL);
	if (gi < t_n)
		before = opts[gi];

	getopt_register_opt(w, ln, hasarg);

	__CPROVER_assert(s_reset == 0, "register_opt: dies when a reset is pending");
	__CPROVER_assert(wlen >= 2 && w[0] == '-' && (w[1] == '-' ? wlen >= 3 : wlen == 2), "register_opt: only -X and --name are accepted");
	__CPROVER_assert(opts[ln].os == w && opts[ln].olen == wlen && opts[ln].hasarg == hasarg, "register_opt: slot filled");
	__CPROVER_assert(!(gi < t_n && gi != ln) || (opts[gi].os == before.os && opts[gi].olen == before.olen &&
	    opts[gi].hasarg == before.hasarg), "register_opt: other slots untouched");
	__CPROVER_assert(!(gi < t_n && gi != ln && opts[gi].os != NULL && opts[gi].olen == wlen) ||
	    opts[gi].os[wlen - 1] != w[wlen - 1] || opts[gi].os[1] != w[1] || wlen > 3,
	    "register_opt: a name already registered is refused (checked for names of up to 3 characters)");
	VCOVER(wlen == 2 && t_n == GO_NOPTS_MAX && ln == 3 && t_reg0 && t_reg1 && t_reg2);
	VCOVER(wlen == GO_STRMAX && ln == 0 && hasarg);
	VCOVER(t_missing < t_n);
}
