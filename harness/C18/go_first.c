/* VERIF-GROUP
{
 "property": ["C18", "C15"],
 "entry": "h_first",
 "enforce": ["libcperciva_getopt"],
 "expect_loops": ["reset"],
 "annotate": ["util/getopt.c"],
 "matrix": {"GO_CASE": [0, 1, 2, 3]},
 "defines": ["VERIF_HALLOC", "GO_NOPTS_MAX=4", "GO_STRMAX=6", "GO_ARGC_MAX=2", "VERIF_STRMAX=8", "GSPEC_NAMEMAX=8"],
 "thorough_defines": ["GO_STRMAX=24", "VERIF_STRMAX=26"],
 "models": ["models/libc_string.c", "models/libc_misc.c", "models/getopt_stdio.c"],
 "timeout": 300,
 "assumptions": ["the 'fresh process' state is written down from the initialisers at the top of util/getopt.c (optarg NULL, optind 1, optreset 1, getopt_initialized 0, cmdname NULL, opts NULL, packedopts NULL, atexit_registered 0)",
                 "the 'dirty' state before a reset is arbitrary: any table (or none), any optind, any pack cursor, any opt_found, initialised or not; optreset == 1 in that instance, any non-zero value in the instance with getopt_initialized == 0 (the code only tests optreset for zero)",
                 "argv object <= 2 pointers (only argv[0] is read on this path), argv[0] <= GO_STRMAX characters (6 quick / 24 thorough); reset() is inlined, its loop closed by a loop contract",
                 "atexit: models/libc_misc.c"]
}
*/
#include "go_pre.h"
#include "util/getopt.c"
#include "go.h"

/*
 * GO_CASE 0: fresh process.  1: reset done, table not built yet.  2: arbitrary state, optreset = 1 (re-parse).
 * 3: as 2 with any non-zero optreset but getopt_initialized == 0.  (2 and 3 are separate only for cost: with both
 * symbolic, symbolic execution also walks the infeasible "no reset" path through the whole step on a garbage table,
 * 8.5 M variables.  The code tests optreset for zero/non-zero only.)
 */

/* reference: offset of the basename of s (after the last '/') */
static size_t
ref_basename(const char * s, size_t len)
{
	size_t k, b = 0;

	for (k = 0; k < GO_STRMAX; k++)
		if (k < len && s[k] == '/')
			b = k + 1;
	return (b);
}

void
h_first(void)
{
	GO_MK_ARGV();
	IN(int, d_reset); IN(int, d_init); IN(int, d_hastable); IN(size_t, d_nopts); IN(int, d_optind); IN(size_t, d_found);
	IN(int, d_pack); IN(size_t, d_pk); IN(size_t, gk); IN(int, d_opterr);
	const char * r, * cmdname0;
	struct opt * opts0;
	size_t found0;

	g_go_k = gk;
	if (a_c > 0) {
		g_go_n0 = a_l[0];
		/* witness for the ghost index of reset()'s contract: the position of the last '/' */
		if (ref_basename(a_v[0], a_l[0]) > 0)
			g_go_k = ref_basename(a_v[0], a_l[0]) - 1;
	}
	opterr = d_opterr;

#if GO_CASE == 0
	/* fresh process: the initialisers of util/getopt.c */
	optarg = NULL; optind = 1; optreset = 1; getopt_initialized = 0;
	cmdname = NULL; opts = NULL; nopts = 0; packedopts = NULL; opt_found = 0; atexit_registered = 0;
#elif GO_CASE == 1
	/* any state with no reset pending and no table (as left by case 0 or 2, or by anything else) */
	optreset = 0; getopt_initialized = 0;
	optind = d_optind; opt_found = d_found;
	opts = d_hastable ? malloc(d_nopts) : NULL;
	if (d_pack && a_c > 0) {
		__CPROVER_assume(d_pk <= a_l[0]);
		packedopts = &a_v[0][d_pk];
	}
#else
	/* any state at all, then optreset := nonzero (what a program does before parsing another vector) */
	__CPROVER_assume(d_nopts <= GO_NOPTS_MAX && d_reset != 0);
	nopts = d_nopts;
	opts = d_hastable ? malloc(d_nopts * sizeof(struct opt)) : NULL;
	optind = d_optind; opt_found = d_found;
	if (d_pack && a_c > 0) {
		__CPROVER_assume(d_pk <= a_l[0]);
		packedopts = &a_v[0][d_pk];
	}
#if GO_CASE == 2
	getopt_initialized = d_init;
	optreset = 1;
#else
	getopt_initialized = 0;
	optreset = d_reset;
#endif
#endif
	cmdname0 = cmdname; opts0 = opts; found0 = opt_found;
	const char * pk0 = packedopts;

	r = getopt(a_c, a_v);

	__CPROVER_assert(r == getopt_dummy && optarg == NULL, "no table yet: the dummy option is returned, no argument");
#if GO_CASE == 1
	__CPROVER_assert(optind == d_optind && packedopts == pk0 && opt_found == found0 && opts == opts0 && cmdname == cmdname0 &&
	    optreset == 0 && getopt_initialized == 0, "uninitialised: state untouched");
	VCOVER(a_c == 0 && d_hastable);
	VCOVER(a_c > 0 && d_pack);
#else
	/* cases 0 and 2 end in literally the same state: a function of (argc, argv) only */
	__CPROVER_assert(optind == 1 && packedopts == NULL && optreset == 0 && getopt_initialized == 0 && opts == NULL &&
	    opt_found == SIZE_MAX, "after the first call / after optreset: scan at argv[1], no pack, no table");
	__CPROVER_assert(a_c <= 0 || cmdname == a_v[0] + ref_basename(a_v[0], a_l[0]), "cmdname is the basename of argv[0]");
	__CPROVER_assert(a_c > 0 || cmdname == cmdname0, "no argv[0]: cmdname kept");
	VCOVER(a_c == 0);
	VCOVER(a_c > 0 && a_l[0] == GO_STRMAX && cmdname == a_v[0] + 3);
	VCOVER(a_c > 0 && a_l[0] == 0);
#if GO_CASE == 2
	VCOVER(d_hastable && d_nopts == GO_NOPTS_MAX && d_pack && d_init && d_optind == 7);
	VCOVER(!d_hastable && !d_init);
#elif GO_CASE == 3
	VCOVER(d_hastable && d_pack && d_reset == -5);
#endif
#endif
}
