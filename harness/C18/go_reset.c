/* VERIF-GROUP
{
 "property": ["C18", "C15"],
 "entry": "h_reset",
 "enforce": ["reset"],
 "annotate": ["util/getopt.c"],
 "defines": ["VERIF_HALLOC", "GO_NOPTS_MAX=4", "GO_STRMAX=6", "GO_ARGC_MAX=3", "VERIF_STRMAX=8", "GSPEC_NAMEMAX=8"],
 "thorough_defines": ["GO_STRMAX=40", "VERIF_STRMAX=42"],
 "models": ["models/libc_string.c", "models/libc_misc.c", "models/getopt_stdio.c"],
 "timeout": 300,
 "assumptions": ["argv[0] <= GO_STRMAX characters (6 quick / 40 thorough) in an exact-size heap block; the basename loop is closed by a loop contract",
                 "atexit: models/libc_misc.c (registers or fails; the handler is not run)"]
}
*/
#include "go_pre.h"
#include "util/getopt.c"
#include "go.h"

void
h_reset(void)
{
	GO_MK_ARGV();
	IN(int, s_hastable); IN(size_t, s_nopts); IN(size_t, gk);
	const char * old_cmdname = cmdname;

	/* every pre-state: an option table of any size (or none), all other statics arbitrary (DFCC: nondeterministic) */
	__CPROVER_assume(s_nopts <= GO_NOPTS_MAX);
	nopts = s_nopts;
	opts = s_hastable ? malloc(s_nopts * sizeof(struct opt)) : NULL;
	g_go_k = gk;
	if (a_c > 0)
		g_go_n0 = a_len0;

	reset(a_c, a_v);

	__CPROVER_assert(optind == 1 && packedopts == NULL && opts == NULL && getopt_initialized == 0 && optreset == 0 &&
	    opt_found == SIZE_MAX, "reset: scan state is the initial one whatever it was before");
	if (a_c > 0) {
		size_t d = (size_t)(cmdname - a_v[0]);
		__CPROVER_assert(d <= a_len0, "reset: cmdname points into argv[0]");
		__CPROVER_assert(d == 0 || a_v[0][d - 1] == '/', "reset: cmdname starts after a '/' or at the beginning");
		__CPROVER_assert(!(gk >= d && gk < a_len0) || a_v[0][gk] != '/', "reset: no '/' in cmdname");
		VCOVER(d == 0 && a_len0 == GO_STRMAX);
		VCOVER(d == a_len0 && a_len0 == GO_STRMAX);		/* argv[0] ends in '/' */
		VCOVER(d == 3 && a_v[0][0] == '/');
	} else {
		__CPROVER_assert(cmdname == old_cmdname, "reset: cmdname kept when there is no argv[0]");
		VCOVER(a_c == 0 && s_hastable);
	}
	VCOVER(a_c > 0 && a_len0 == 0);
}
