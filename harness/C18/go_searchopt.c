/* VERIF-GROUP
{
 "property": ["C18", "C15"],
 "entry": "h_searchopt",
 "enforce": ["searchopt"],
 "annotate": ["util/getopt.c"],
 "defines": ["VERIF_HALLOC", "GO_NOPTS_MAX=4", "GO_STRMAX=6", "VERIF_STRMAX=8", "GSPEC_NAMEMAX=8"],
 "thorough_defines": ["GO_NOPTS_MAX=6", "GO_STRMAX=12", "VERIF_STRMAX=14", "GSPEC_NAMEMAX=16"],
 "models": ["models/libc_string.c", "models/libc_misc.c", "models/getopt_stdio.c"],
 "timeout": 300,
 "assumptions": ["option table object <= GO_NOPTS_MAX slots (4 quick / 6 thorough), every string <= GO_STRMAX characters (6 / 12) in an exact-size heap block; the search loop is closed by a loop contract (any nopts), the bounds limit only the symbolic objects",
                 "libc strncmp: models/libc_string.c (C11 semantics, reads through ordinary dereferences)"]
}
*/
#include "go_pre.h"
#include "util/getopt.c"
#include "go.h"

void
h_searchopt(void)
{
	GO_MK_TABLE();
	GO_STR(w, wlen);
	IN(size_t, gi);
	size_t r;

	g_go_i = gi;
	r = searchopt(w);

	/* the same statement once more, in harness terms */
	__CPROVER_assert(r == t_n + 1 || (r < t_n && opts[r].os != NULL), "searchopt: a registered slot or the default index");
	__CPROVER_assert(!(r < t_n) || wlen >= opts[r].olen, "searchopt: the word is at least as long as the name found");
	__CPROVER_assert(!(r < t_n) || w[opts[r].olen] == '\0' || w[opts[r].olen] == '=', "searchopt: name is followed by NUL or '='");
	__CPROVER_assert(!(r < t_n && gi < opts[r].olen) || w[gi] == opts[r].os[gi], "searchopt: name is a prefix of the word");

	VCOVER(r == t_n + 1 && t_n == GO_NOPTS_MAX && t_reg0 && t_reg3);	/* not found in a full table */
	VCOVER(r == t_n + 1 && t_n == 0);					/* empty table */
	VCOVER(r == 0 && r < t_n && w[opts[0].olen] == '=');				/* --name=value in slot 0 */
	VCOVER(r == GO_NOPTS_MAX - 1 && r < t_n && w[opts[r].olen] == '\0' && wlen == GO_STRMAX);	/* last slot, longest word */
	VCOVER(r == 2 && t_reg1 && t_len1 < wlen && w[1] != '-');		/* short option, word longer than an earlier name */
	VCOVER(r == 1 && t_n > 2 && t_reg2 && t_len2 == wlen && t_len1 < wlen);			/* two candidates: first one wins */
}
