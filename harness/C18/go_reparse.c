/* VERIF-GROUP
{
 "property": ["C18"],
 "entry": "h_reparse",
 "annotate": ["util/getopt.c"],
 "loop_contracts": false,
 "defines": ["VERIF_HALLOC", "GO_NOPTS_MAX=4", "GO_STRMAX=4", "GO_ARGC_MAX=3", "VERIF_STRMAX=6", "GSPEC_NAMEMAX=8", "GO_N=3"],
 "models": ["models/libc_string.c", "models/libc_misc.c", "models/getopt_stdio.c"],
 "timeout": 600,
 "assumptions": ["cross-check of the paper induction (step contract + reset contract => a re-parse equals a fresh parse), done on the REAL code with NO contract and no DFCC (statics keep their initialisers): fresh process parses V2 completely; optreset; parses another vector V1 completely; optreset; parses V2 again; the two V2 traces (option index from getopt_lookup, optarg, optind after every step, final optind) must be identical",
                 "the GETOPT_SWITCH first pass is replayed by hand on every dummy return (getopt_setrange(3), then slot by slot nothing / register_opt / register_missing, then getopt_initialized = 1); the macro layer itself is not covered",
                 "sizes: table of 3 slots with arbitrary names <= 4 characters, each vector = argv[0] (the constant string \"d/p\", so that reset()'s basename loop has a constant bound) + at most 2 words of <= 4 arbitrary characters; every loop then has a constant bound (at most GO_MAXSTEP = 11 getopt() calls per parse, which is asserted to suffice: the parse terminates)"]
}
*/
#include "go_pre.h"
#include "util/getopt.c"
#include "go.h"

#define GO_MAXSTEP (1 + (GO_ARGC_MAX - 1) * GO_STRMAX + 2)
struct ev { size_t idx; const char * optarg; int optind; const char * ch; };
struct trace { struct ev e[GO_MAXSTEP]; int n; int end_optind; int done; };

/* the table the switch statement of this "program" has: chosen once, registered again on every first pass */
static int b_kind[GO_N], b_arg[GO_N];
static const char * b_name[GO_N];

static void
first_pass(void)
{
	size_t ln;

	getopt_setrange(GO_N);
	for (ln = 0; ln < GO_N; ln++) {
		if (b_kind[ln] == 1)
			getopt_register_opt(b_name[ln], ln, b_arg[ln] != 0);
		else if (b_kind[ln] == 2)
			getopt_register_missing(ln);
	}
	getopt_initialized = 1;
}

static void
parse(int argc, char ** argv, struct trace * T)
{
	const char * ch;
	int step;

	T->n = 0;
	T->done = 0;
	for (step = 0; step < GO_MAXSTEP; step++) {
		if ((ch = getopt(argc, argv)) == NULL) {
			T->done = 1;
			break;
		}
		if (ch == getopt_dummy) {
			first_pass();
			continue;
		}
		T->e[T->n].idx = getopt_lookup(ch);
		T->e[T->n].optarg = optarg;
		T->e[T->n].optind = optind;
		T->e[T->n].ch = ch;
		T->n++;
	}
	T->end_optind = optind;
}

/* a vector: argv[0] = "d/p" plus up to two arbitrary words (the pointer array has constant size here, so that symbolic
   execution sees the constant argv[0]; reads of argv[argc] are the business of go_step / C15) */
#define GO_VEC(v, c) \
	IN(int, c); \
	__CPROVER_assume(c >= 0 && c <= GO_ARGC_MAX); \
	char ** v = malloc(GO_ARGC_MAX * sizeof(char *)); \
	__CPROVER_assume(v != NULL); \
	char * v##_0 = malloc(4); \
	__CPROVER_assume(v##_0 != NULL); \
	v##_0[0] = 'd'; v##_0[1] = '/'; v##_0[2] = 'p'; v##_0[3] = '\0'; \
	GO_STR(v##_1, v##_l1); \
	GO_STR(v##_2, v##_l2); \
	v[0] = v##_0; v[1] = v##_1; v[2] = v##_2

void
h_reparse(void)
{
	struct trace A, B, X;
	IN(int, k0); IN(int, k1); IN(int, k2); IN(int, f0); IN(int, f1); IN(int, f2); IN(int, d_reset1); IN(int, d_reset2);
	GO_STR(n0, n0l); GO_STR(n1, n1l); GO_STR(n2, n2l);
	GO_VEC(v2, c2);
	GO_VEC(v1, c1);
	int i;

	b_kind[0] = k0; b_kind[1] = k1; b_kind[2] = k2;
	b_arg[0] = f0; b_arg[1] = f1; b_arg[2] = f2;
	b_name[0] = n0; b_name[1] = n1; b_name[2] = n2;
	__CPROVER_assume(d_reset1 != 0 && d_reset2 != 0);

	parse(c2, v2, &A);			/* fresh process */
	__CPROVER_assert(A.done, "the parse terminates within GO_MAXSTEP calls");
	optreset = d_reset1;
	parse(c1, v1, &X);			/* another vector in between */
	__CPROVER_assert(X.done, "the parse terminates within GO_MAXSTEP calls (second vector)");
	optreset = d_reset2;
	parse(c2, v2, &B);			/* the first vector again */

	__CPROVER_assert(B.done && B.n == A.n && B.end_optind == A.end_optind, "re-parse: same number of options, same first operand");
	for (i = 0; i < GO_MAXSTEP; i++)
		if (i < A.n)
			__CPROVER_assert(B.e[i].idx == A.e[i].idx && B.e[i].optarg == A.e[i].optarg &&
			    B.e[i].optind == A.e[i].optind && (B.e[i].ch == A.e[i].ch || (B.e[i].ch == popt && A.e[i].ch == popt)),
			    "re-parse: same option, same argument, same optind at every step");
	VCOVER(A.n == 0 && c2 == 3);
	VCOVER(A.n == 4 && X.n == 3);
	VCOVER(A.n == 2 && A.e[0].optarg != NULL && A.e[1].idx == GO_N + 1 && X.n == 1 && A.end_optind == 3);
	VCOVER(A.n == 1 && A.e[0].idx == 1 && k1 == 2);	/* missing-argument label reached */
}
