/* VERIF-GROUP
{
 "property": ["C18"],
 "entry": "h_lookup",
 "enforce": ["getopt_lookup"],
 "annotate": ["util/getopt.c"],
 "defines": ["VERIF_HALLOC", "GO_NOPTS_MAX=4", "GO_STRMAX=6", "VERIF_STRMAX=8", "GSPEC_NAMEMAX=8"],
 "models": ["models/libc_string.c", "models/libc_misc.c", "models/getopt_stdio.c"],
 "timeout": 300,
 "assumptions": ["table object <= 4 slots, names <= 6 characters", "getopt_lookup's precondition is clause 8 of getopt()'s postcondition, with string equality instead of pointer equality (that is what the code asserts); strcmp: models/libc_string.c"]
}
*/
#include "go_pre.h"
#include "util/getopt.c"
#include "go.h"

void
h_lookup(void)
{
	GO_MK_TABLE();
	GO_STR(w, wlen);
	IN(int, s_reset); IN(size_t, s_found); IN(int, s_same); IN(size_t, gi);
	const char * ch;
	size_t r;

	/* GETOPT_SWITCH(ch) after a getopt() step that returned ch != NULL */
	optreset = s_reset;
	g_go_i = gi;
	getopt_initialized = 1;
	opt_found = s_found;
	if (s_found < t_n && s_found != t_missing) {
		__CPROVER_assume(opts[s_found].os != NULL);
		if (s_same)
			ch = opts[s_found].os;		/* what getopt() returns */
		else {
			__CPROVER_assume(wlen == opts[s_found].olen);	/* an equal string elsewhere */
			for (size_t k = 0; k < GO_STRMAX; k++)
				if (k < wlen)
					__CPROVER_assume(w[k] == opts[s_found].os[k]);
			ch = w;
		}
	} else {
		__CPROVER_assume(s_found == opt_missing || s_found == opt_default);
		ch = w;					/* the unknown word itself / anything */
	}
	__CPROVER_assume(ch != getopt_dummy);

	r = getopt_lookup(ch);

	__CPROVER_assert(s_reset == 0 && r == s_found, "lookup: the index found by the last step");
	VCOVER(r == t_n + 1);
	VCOVER(r < t_n && r == t_missing);
	VCOVER(r == GO_NOPTS_MAX - 1 && r != t_missing && s_same);
	VCOVER(r == 0 && r != t_missing && !s_same && wlen == GO_STRMAX);
}
