/* VERIF-GROUP
{
 "property": ["C08", "C09", "C14"],
 "entry": "h_gotheaders",
 "enforce": ["gotheaders"],
 "replace": ["callback_read_header", "callback_chunkedheader", "get_body_gotclen", "callback_read_toeof"],
 "annotate": ["http/http.c"],
 "defines": ["VERIF_HALLOC", "HTTP_N=20", "HTTP_BODYMAX=8", "VERIF_STRMAX=20", "HTTP_MAYFAIL", "VERIF_NO_DIRTY"],
 "matrix": {"HTTP_BLEN": [11, 13, 16]},
 "models": ["models/libc_string.c", "models/http_env.c", "models/libc_mem.c"],
 "cbmc": ["--malloc-may-fail", "--malloc-fail-null", "--unwindset", "gotheaders_wrapped_for_contract_checking.0:10,gotheaders_wrapped_for_contract_checking.1:18,gotheaders_wrapped_for_contract_checking.2:9,findeol.0:18,http_findheader.0:9"],
 "loop_contracts": false,
 "bounded": true, "bound": "header blocks of exactly HTTP_BLEN bytes, HTTP_BLEN in {11, 13, 16} (all contents)",
 "allow_undefined": ["strtod", "strtoimax", "fprintf", "abort"],
 "tier": "thorough",
 "timeout": 3600,
 "assumptions": ["as harness/C08/gotheaders.c, longer header blocks (several headers, values with optional white space on both sides)"]
}
*/
/* Same harness as gotheaders.c (its VCOVER( markers are there), longer blocks; thorough tier only. */
#include "gotheaders.c"
