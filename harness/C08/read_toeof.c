/* VERIF-GROUP
{
 "property": ["C08", "C09", "C14"],
 "entry": "h_read_toeof",
 "enforce": ["callback_read_toeof"],
 "replace": ["docallback", "toobig", "fail", "die"],
 "annotate": ["http/http.c"],
 "defines": ["VERIF_HALLOC", "HTTP_N=24", "HTTP_BODYMAX=24", "VERIF_STRMAX=8", "HTTP_MAYFAIL"],
 "thorough_defines": ["HTTP_N=64", "HTTP_BODYMAX=64"],
 "models": ["models/libc_string.c", "models/http_env.c", "models/libc_mem.c"],
 "cbmc": ["--malloc-may-fail", "--malloc-fail-null"],
 "loop_contracts": false,
 "timeout": 600,
 "assumptions": ["reader window object <= HTTP_N bytes, body object <= HTTP_BODYMAX bytes (object sizes only; the limit is arbitrary)",
   "docallback, toobig, fail, die: replaced by their contracts; addbody is inlined (see readdata.c), its in-code assertion is proved in this context",
   "realloc may fail (HTTP_MAYFAIL)"]
}
*/
/*
 * callback_read_toeof for every status (-1 failure, 1 EOF, 0 data), window and body state: data beyond the limit
 * => "too big"; otherwise the whole window is appended (addbody's assertion holds), consumed, and the reader waits
 * for >= 1 more byte; EOF hands the accumulated body to the callback.
 */
#include <stdlib.h>
#include "verif.h"
#include "http/http.c"
#include "http_h.h"

void
h_read_toeof(void)
{
	struct http_cookie * H = h_mk_cookie();
	IN(int, status);
	size_t wlen, bodylen0;
	struct h_obs o;
	size_t gi = nondet_size_t();
	uint8_t b_old = 0, b_src = 0;
	int rc;

	H->res_head = h_maybe_obj(4);
	H->res.headers = h_maybe_obj(sizeof(struct http_header));
	__CPROVER_assume(H->res.status >= 100 && H->res.status <= 599);
	h_mk_ghost();
	wlen = H->R->datalen - H->R->bufpos;
	bodylen0 = H->res.bodylen;
	/* ghost byte (G1): an old body byte, or the window byte that should become body byte gi */
	if (gi < H->res.bodylen)
		b_old = H->res.body[gi];
	else if (gi - H->res.bodylen < wlen)
		b_src = H->R->buf[H->R->bufpos + (gi - H->res.bodylen)];
	o = h_before(H);

	rc = callback_read_toeof(H, status);

	H_CHECK_C08(o, rc);
	if (!H_ENDED(o) && status == 0) {
		/* C09: the body grows by exactly the bytes taken from the window, in order; what was there is kept */
		__CPROVER_assert(H->res.bodylen >= bodylen0 && H->res.bodylen - bodylen0 <= wlen, "C09: the body grows by window bytes only");
		if (gi < bodylen0)
			__CPROVER_assert(H->res.body[gi] == b_old, "C09: body bytes already stored are kept");
		else if (gi < H->res.bodylen)
			__CPROVER_assert(H->res.body[gi] == b_src, "C09: appended body bytes are the window bytes, in order");
	}
	VCOVER(status == 0 && wlen > o.max - bodylen0 && H_ENDED(o) && g_http_cb_bodylen == SIZE_MAX);	/* too big */
	VCOVER(status == 0 && wlen == o.max - bodylen0 && wlen > 0 && !H_ENDED(o));				/* exactly at the limit */
	VCOVER(status == 0 && wlen == 0 && !H_ENDED(o));
	VCOVER(status == 1 && H_ENDED(o) && !g_http_cb_null && g_http_cb_bodylen == bodylen0 && bodylen0 > 0);
	VCOVER(status == -1 && H_ENDED(o) && g_http_cb_null);
	VCOVER(status == 0 && H_ENDED(o) && rc == -1 && g_http_ndie == o.ndie + 1);
}
