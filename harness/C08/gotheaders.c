/* VERIF-GROUP
{
 "property": ["C08", "C09", "C14"],
 "entry": "h_gotheaders",
 "enforce": ["gotheaders"],
 "replace": ["callback_read_header", "callback_chunkedheader", "get_body_gotclen", "callback_read_toeof"],
 "annotate": ["http/http.c"],
 "defines": ["VERIF_HALLOC", "HTTP_N=16", "HTTP_BODYMAX=8", "VERIF_STRMAX=14", "HTTP_MAYFAIL", "VERIF_NO_DIRTY"],
 "matrix": {"HTTP_BLEN": [4, 8, 9]},
 "models": ["models/libc_string.c", "models/http_env.c", "models/libc_mem.c"],
 "cbmc": ["--malloc-may-fail", "--malloc-fail-null", "--unwindset", "gotheaders_wrapped_for_contract_checking.0:8,gotheaders_wrapped_for_contract_checking.1:14,gotheaders_wrapped_for_contract_checking.2:7,findeol.0:14,http_findheader.0:7"],
 "loop_contracts": false,
 "bounded": true, "bound": "header blocks of exactly HTTP_BLEN bytes, HTTP_BLEN in {4, 8, 9} (all contents): the agreement of the counting pass and the parsing pass is checked by unwinding, not by induction",
 "allow_undefined": ["strtod", "strtoimax", "fprintf", "abort"],
 "timeout": 1200,
 "assumptions": ["BOUNDED: header block length is one of the matrix values (a symbolic length makes cbmc's array encoding of `malloc(len); memcpy(..., len)` exceed 28 GB); window object <= HTTP_N bytes; all loops of gotheaders and of the inlined callees are unwound",
   "an unbounded variant (loop contracts over a ghost record of the line starts, quantifiers with constant bounds) was written and abandoned: cbmc 6.11 ignores nested quantifiers, exceeds 512 objects and 16 GB under DFCC",
   "sscanf: writes the first k of three ints, returns k in -1..3; strtoumax: C11 (models/http_env.c); string functions: models/libc_string.c",
   "callback_read_header, callback_chunkedheader, get_body_gotclen, callback_read_toeof: replaced by their contracts (enforced in their own groups); findeol, sgetline, http_findheader, imalloc and the exits docallback, fail, die, http_request_cancel are inlined (real code; a contract replaced inside an unwound loop is instantiated once per iteration and exhausts cbmc's object numbering); sgetline's and gotheaders' in-code assertions are proved in this context",
   "malloc may fail (HTTP_MAYFAIL: die() is then allowed without an environment failure)"]
}
*/
/*
 * gotheaders on every header block of HTTP_BLEN bytes that ends with the window's first "\r\n\r\n": memory-safe;
 * sgetline's "an EOL exists" assertion and the final `bufpos + 2 == res_headlen` assertion hold (the counting pass and
 * the parsing pass agree); every callee's entry condition holds at its call site -- in particular the 1xx restart must
 * re-establish callback_read_header's entry invariant (F1 is the failure of that obligation) --; allocation failure
 * => die().
 */
#include <stdlib.h>
#include "verif.h"
#include "http/http.c"
#include "http_h.h"

#ifndef HTTP_BLEN
#define HTTP_BLEN 8
#endif
#define HTTP_HB HTTP_BLEN

void
h_gotheaders(void)
{
	struct http_cookie * H = h_mk_cookie();
	size_t wlen, blen, k, nlines = 0;
	uint8_t * win;
	struct h_obs o;
	int rc, ishead;

	/* entry state: nothing parsed yet, no body */
	free(H->res.body);
	H->res.body = NULL; H->res_bodylen_alloc = 0; H->res.bodylen = 0;
	h_mk_ghost();
	win = H->R->buf + H->R->bufpos;
	wlen = H->R->datalen - H->R->bufpos;
	blen = HTTP_BLEN;
	__CPROVER_assume(blen <= wlen);
	__CPROVER_assume(win[blen - 4] == '\r' && win[blen - 3] == '\n' && win[blen - 2] == '\r' && win[blen - 1] == '\n');
	/* it is the FIRST terminator of the window (what callback_read_header guarantees for every ghost position) */
	for (k = 0; k < HTTP_HB; k++)
		__CPROVER_assume(!(k + 4 < blen) || !(win[k] == '\r' && win[k + 1] == '\n' && win[k + 2] == '\r' && win[k + 3] == '\n'));
	H->hepos = blen - 4;
	/* the specification's line count: EOLs, scanned left to right without overlap */
	for (k = 0; k + 1 < HTTP_BLEN; k++)
		if (win[k] == '\r' && win[k + 1] == '\n')
			nlines++;
	g_http.seen1xx = 0;
	g_http_in.check_headers = 1;
	g_http_in.hi = nondet_size_t();
	ishead = H->req_ishead;
	o = h_before(H);

	rc = gotheaders(H, win, blen);

	H_CHECK_C08(o, rc);
	if (H_ENDED(o) && g_http_ncb == o.ncb + 1 && !g_http_cb_null && !g_http.seen1xx) {
		/* C09 (responses not preceded by an interim response; after a 1xx the next response is callback_read_header's business): status line via sscanf, header count = lines - 2, bodiless responses */
		__CPROVER_assert(g_http.sscanf_k == 3 && g_http_cb_status == g_http.sscanf_c, "C09: the status is the one parsed from the status line");
		__CPROVER_assert(g_http_cb_nheaders == nlines - 2, "C09: nheaders = number of CRLF-terminated lines - 2");
		__CPROVER_assert(!(ishead || g_http_cb_status == 204 || g_http_cb_status == 304) ||
		    (g_http_cb_bodylen == 0 && g_http_cb_body == NULL), "C09: HEAD / 204 / 304 responses have no body");
		__CPROVER_assert(!(g_http_cb_status >= 100 && g_http_cb_status <= 199), "C09: interim 1xx responses are never handed to the caller");
	}
	VCOVER(H_ENDED(o) && g_http_ncb == o.ncb + 1 && !g_http_cb_null && ishead && g_http_cb_bodylen == 0);	/* HEAD: callback now */
	VCOVER(H_ENDED(o) && g_http_ncb == o.ncb + 1 && !g_http_cb_null && !ishead && g_http_cb_status == 204);
	VCOVER(H_ENDED(o) && g_http_ncb == o.ncb + 1 && g_http_cb_null);						/* malformed */
	VCOVER(H_ENDED(o) && rc == -1 && g_http_ndie == o.ndie + 1);						/* allocation failure */
	VCOVER(!H_ENDED(o) && wlen == blen);
	VCOVER(!H_ENDED(o) && wlen > blen + 3);
}
