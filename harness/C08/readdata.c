/* VERIF-GROUP
{
 "property": ["C08", "C09", "C14"],
 "entry": "h_readdata",
 "enforce": ["callback_readdata"],
 "replace": ["callback_chunkedheader", "docallback", "fail", "die"],
 "annotate": ["http/http.c"],
 "defines": ["VERIF_HALLOC", "HTTP_N=24", "HTTP_BODYMAX=24", "VERIF_STRMAX=8", "HTTP_MAYFAIL"],
 "thorough_defines": ["HTTP_N=64", "HTTP_BODYMAX=64"],
 "models": ["models/libc_string.c", "models/http_env.c", "models/libc_mem.c"],
 "cbmc": ["--malloc-may-fail", "--malloc-fail-null"],
 "loop_contracts": false,
 "timeout": 600,
 "assumptions": ["reader window object <= HTTP_N bytes, body object <= HTTP_BODYMAX bytes (object sizes only; limit and readlen are arbitrary)",
   "callback_chunkedheader, docallback, fail, die: replaced by their contracts (enforced in their own groups); addbody is INLINED (real code: a replaced callee with a frees clause blocks the caller's later frees of the kept buffer in cbmc 6.11), so its in-code assertion is proved directly in this context",
   "realloc may fail (HTTP_MAYFAIL: die() is then allowed without an environment failure)"]
}
*/
/*
 * callback_readdata in every state satisfying its entry condition (Content-Length body or chunk, any remaining read
 * length, any window): addbody's requires (= its in-code assertion: never beyond the limit) must hold at the call
 * site (F2 is its failure for a chunk within 2 bytes of the limit), consume never exceeds the window, a finished
 * chunk continues with the next chunk header, a finished body goes to the callback, otherwise it waits for
 * min(remaining, 1 MiB).
 */
#include <stdlib.h>
#include "verif.h"
#include "http/http.c"
#include "http_h.h"

void
h_readdata(void)
{
	struct http_cookie * H = h_mk_cookie();
	IN(int, status);
	size_t wlen, readlen0, bodylen0;
	int chunked0;
	struct h_obs o;
	size_t gi = nondet_size_t();
	uint8_t b_old = 0, b_src = 0;
	int rc;

	H->res_head = h_maybe_obj(4);
	H->res.headers = h_maybe_obj(sizeof(struct http_header));
	__CPROVER_assume(H->res.status >= 100 && H->res.status <= 599);
	/* HTTP_S_DATA */
	if (H->chunked)
		__CPROVER_assume(H->readlen >= 1 && (H->readlen >= 3 || H->res.bodylen >= 1) &&
		    (H->readlen <= 2 || H->readlen - 2 <= H->res_bodylen_max - H->res.bodylen));
	else
		__CPROVER_assume(H->readlen <= H->res_bodylen_max - H->res.bodylen);
	h_mk_ghost();
	wlen = H->R->datalen - H->R->bufpos;
	readlen0 = H->readlen; bodylen0 = H->res.bodylen; chunked0 = H->chunked;
	/* ghost byte (G1): an old body byte, or the window byte that should become body byte gi */
	if (gi < H->res.bodylen)
		b_old = H->res.body[gi];
	else if (gi - H->res.bodylen < wlen)
		b_src = H->R->buf[H->R->bufpos + (gi - H->res.bodylen)];
	o = h_before(H);

	rc = callback_readdata(H, status);

	H_CHECK_C08(o, rc);
	if (!H_ENDED(o) && status == 0 && readlen0 > wlen) {
		/* C09 (not all of the announced data has arrived: the step itself registers the next wait): the body grows by exactly the bytes taken from the window, in order; what was there is kept */
		__CPROVER_assert(H->res.bodylen >= bodylen0 && H->res.bodylen - bodylen0 <= wlen, "C09: the body grows by window bytes only");
		if (gi < bodylen0)
			__CPROVER_assert(H->res.body[gi] == b_old, "C09: body bytes already stored are kept");
		else if (gi < H->res.bodylen)
			__CPROVER_assert(H->res.body[gi] == b_src, "C09: appended body bytes are the window bytes, in order");
	}
	VCOVER(status == 0 && !chunked0 && H_ENDED(o) && g_http_ncb == o.ncb + 1 && !g_http_cb_null && readlen0 > 0 && readlen0 <= wlen);	/* body complete */
	VCOVER(status == 0 && !chunked0 && H_ENDED(o) && g_http_ncb == o.ncb + 1 && !g_http_cb_null && readlen0 == 0);			/* empty body */
	VCOVER(status == 0 && !chunked0 && !H_ENDED(o) && readlen0 > wlen && wlen > 0);							/* partial: wait */
	VCOVER(status == 0 && chunked0 && readlen0 <= wlen && readlen0 > 3);									/* chunk complete */
	VCOVER(status == 0 && chunked0 && !H_ENDED(o) && readlen0 > wlen && readlen0 - wlen == 1);						/* EOL split across reads */
	VCOVER(status == 0 && chunked0 && readlen0 > 2 && readlen0 - 2 == o.max - bodylen0 && readlen0 <= wlen);				/* chunk ends exactly at the limit */
	VCOVER(status == 0 && !H_ENDED(o) && readlen0 > 1024 * 1024 + wlen);
	VCOVER(status != 0 && H_ENDED(o) && g_http_cb_null);
	VCOVER(H_ENDED(o) && rc == -1 && g_http_ndie == o.ndie + 1);
}
