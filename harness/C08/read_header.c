/* VERIF-GROUP
{
 "property": ["C08", "C09"],
 "entry": "h_read_header",
 "enforce": ["callback_read_header"],
 "replace": ["gotheaders", "fail", "die"],
 "annotate": ["http/http.c"],
 "defines": ["VERIF_HALLOC", "HTTP_N=32", "HTTP_BODYMAX=8", "VERIF_STRMAX=8"],
 "thorough_defines": ["HTTP_N=64"],
 "models": ["models/libc_string.c", "models/http_env.c"],
"fallback_unwind": 8,
 "timeout": 600,
 "assumptions": ["reader window object <= HTTP_N bytes (object size only; the scan is closed by a loop contract), so the MAXHDR branch is not reachable in this group",
   "netbuf_read_peek/_wait: models/http_env.c; gotheaders, fail, die: replaced by their contracts (enforced in their own groups)"]
}
*/
/*
 * callback_read_header: for every window (interior pointer, any slack, any content, any segmentation = any window
 * length) and every hepos satisfying the entry invariant "no terminator starts before hepos": memory-safe, finds
 * the FIRST "\r\n\r\n" (gotheaders' requires at the call site), otherwise waits for >= 1 more byte with the
 * invariant re-established for the longer window.
 */
#include <stdlib.h>
#include "verif.h"
#include "http/http.c"
#include "http_h.h"

void
h_read_header(void)
{
	struct http_cookie * H = h_mk_cookie();
	IN(int, status);
	size_t wlen, hepos0, slack;
	uint8_t * win;
	struct h_obs o;
	int rc;

	/* entry state of callback_read_header */
	free(H->res.body);
	H->res.body = NULL; H->res_bodylen_alloc = 0; H->res.bodylen = 0;
	h_mk_ghost();
	win = H->R->buf + H->R->bufpos;
	wlen = H->R->datalen - H->R->bufpos;
	hepos0 = H->hepos;
	slack = H->R->buflen - H->R->datalen;
	if (status == 0) {
		__CPROVER_assume(hepos0 == 0 || (hepos0 <= wlen && hepos0 + 3 <= wlen));
		__CPROVER_assume(!(g_http_i < hepos0) || !(win[g_http_i] == '\r' && win[g_http_i + 1] == '\n' &&
		    win[g_http_i + 2] == '\r' && win[g_http_i + 3] == '\n'));
	}
	o = h_before(H);

	rc = callback_read_header(H, status);

	H_CHECK_C08(o, rc);
	VCOVER(H_ENDED(o) && status == 0 && hepos0 > 0 && slack == 0);	/* terminator found (or wait failed); window ends at the end of the object */
	VCOVER(!H_ENDED(o) && wlen >= 7 && hepos0 == 2);		/* keeps waiting, scan advanced */
	VCOVER(!H_ENDED(o) && wlen == 0);
	VCOVER(!H_ENDED(o) && wlen == 3);
	VCOVER(H_ENDED(o) && status == 1 && g_http_cb_null);
	VCOVER(H_ENDED(o) && rc == -1 && g_http_ndie == o.ndie + 1);
}
