/* VERIF-GROUP
{
 "property": ["C08", "C09"],
 "entry": "h_findheader",
 "enforce": ["http_findheader"],
 "replace": [],
 "annotate": ["http/http.c"],
 "defines": ["VERIF_HALLOC", "HTTP_N=16", "VERIF_STRMAX=12", "FH_MAXH=3", "FH_MAXS=6"],
 "thorough_defines": ["FH_MAXH=6", "FH_MAXS=16", "VERIF_STRMAX=24"],
 "models": ["models/http_string.c", "models/http_env.c"],
 "expect_loops": ["strcmp"],
 "timeout": 600,
 "assumptions": ["header array <= FH_MAXH entries, each name ends exactly at the end of its heap object (FH_MAXS bytes, string at a symbolic offset) (object sizes only; the search loop is closed by a loop contract)",
   "strcmp: models/http_string.c (loop-contracted executable model)"]
}
*/
/*
 * http_findheader, any number of headers (loop contract): memory-safe, (NULL, 0) accepted, never reads past a name's
 * terminator, a non-NULL result is the value of a header with exactly the requested name.  That it is the FIRST such
 * header and that NULL means "none" is checked by unwinding in findheader_first.c (bounded).
 */
#include <stdlib.h>
#include <string.h>
#include "verif.h"
#include "http/http.c"
#include "http_h.h"

/*
 * a string of any length 0 .. FH_MAXS-1 whose terminator is the LAST byte of its heap object (an over-read past the
 * terminator leaves the object).  The object has constant size and the string starts at a symbolic offset: objects
 * of symbolic size make cbmc's array encoding explode under the quantified string-model invariants.
 */
static char *
h_str(void)
{
	size_t off = nondet_size_t(), k;
	char * s;

	__CPROVER_assume(off < FH_MAXS);
	s = h_obj(FH_MAXS);
	for (k = 0; k < FH_MAXS - 1; k++)
		__CPROVER_assume(k < off || s[k] != '\0');
	__CPROVER_assume(s[FH_MAXS - 1] == '\0');
	return (s + off);
}

void
h_findheader(void)
{
	size_t nh = nondet_size_t(), k, first = FH_MAXH;
	struct http_header * hs;
	char * name;
	const char * r;

	__CPROVER_assume(nh <= FH_MAXH);
	hs = (nh == 0 && nondet_int()) ? NULL : h_obj(nh * sizeof(struct http_header));
	for (k = 0; k < FH_MAXH; k++)
		if (k < nh) {
			hs[k].header = h_str();
			hs[k].value = h_str();
		}
	name = h_str();

	r = http_findheader(hs, nh, name);

	/* the specification: first index with an equal name */
	for (k = 0; k < FH_MAXH; k++)
		if (k < nh && first == FH_MAXH && strcmp(hs[k].header, name) == 0)
			first = k;
#ifdef FH_EXACT
	__CPROVER_assert(first == FH_MAXH ? r == NULL : r == hs[first].value, "http_findheader returns the value of the first matching header");
#else
	{	/* under the loop contract: a non-NULL result is the value of a header with the requested name */
		int ok = (r == NULL);

		for (k = 0; k < FH_MAXH; k++)
			if (k < nh && r == hs[k].value && strcmp(hs[k].header, name) == 0)
				ok = 1;
		__CPROVER_assert(ok, "http_findheader returns NULL or the value of a header with the requested name");
	}
#endif
	VCOVER(r == NULL && nh == FH_MAXH);
	VCOVER(r != NULL && first == 0 && nh > 1);
	VCOVER(r != NULL && first == FH_MAXH - 1);
	VCOVER(hs == NULL);
}
