/*
 * harness/C08/http_h.h -- shared pre-state construction for the http.c harnesses (C08/C09/C14).
 * Every object is allocated by the harness (exact size, arbitrary content); scalars are arbitrary.
 * Included after "http/http.c" (needs struct http_cookie).
 */
#ifndef HTTP_H_H_
#define HTTP_H_H_
#include <stdlib.h>

#ifndef HTTP_N
#define HTTP_N 64
#endif
#ifndef HTTP_BODYMAX
#define HTTP_BODYMAX 32		/* bound on the size of the body OBJECT (res_bodylen_alloc); max itself is arbitrary */
#endif

int nondet_int(void);
size_t nondet_size_t(void);
unsigned nondet_unsigned(void);

/* NULL or a fresh heap object of n arbitrary bytes */
static void *
h_maybe_obj(size_t n)
{
	void * p;

	if (nondet_int())
		return (NULL);
	p = malloc(n);
	__CPROVER_assume(p != NULL);
	return (p);
}

static void *
h_obj(size_t n)
{
	void * p = malloc(n);

	__CPROVER_assume(p != NULL);
	return (p);
}

/*
 * a reader in an arbitrary well-formed state: window buf[bufpos .. datalen) at ANY place inside the buffer object,
 * including flush with its end (datalen == buflen: no slack, an over-read of the window leaves the object).
 * The buffer object itself has the constant size HTTP_N (objects of symbolic size make cbmc's array encoding far more
 * expensive; the real reader's buffer is >= 4096 bytes whatever the window is).
 */
static struct netbuf_read *
h_mk_reader(void)
{
	struct netbuf_read * R = h_obj(sizeof(struct netbuf_read));
	size_t bufpos = nondet_size_t(), datalen = nondet_size_t();

	__CPROVER_assume(bufpos <= datalen && datalen <= HTTP_N);
	R->buf = h_obj(HTTP_N);
	R->buflen = HTTP_N;
	R->bufpos = bufpos;
	R->datalen = datalen;
	R->waiting = 0;
	R->wait_cb = NULL;
	R->wait_cookie = NULL;
	R->wait_len = 0;
	return (R);
}

/* body buffer state satisfying HTTP_BODY_WF with an arbitrary limit */
static void
h_mk_body(struct http_cookie * H)
{
	size_t max = nondet_size_t(), alloc = nondet_size_t(), len = nondet_size_t();

	__CPROVER_assume(len <= alloc && alloc <= max && alloc <= HTTP_BODYMAX && (alloc == 0 || len > 0));
	H->res_bodylen_max = max;
	H->res_bodylen_alloc = alloc;
	H->res.bodylen = len;
	H->res.body = (alloc == 0) ? NULL : h_obj(alloc);
}

/*
 * A cookie in an arbitrary state satisfying HTTP_INV: connected, reader idle, arbitrary scalars.
 * (Fields not mentioned keep the arbitrary values of the uninitialised heap object.)
 */
static struct http_cookie *
h_mk_cookie(void)
{
	struct http_cookie * H = h_obj(sizeof(struct http_cookie));

	H->connect_cookie = NULL;
	H->R = h_mk_reader();
	H->W = h_obj(sizeof(struct netbuf_write));
	H->ssl = h_maybe_obj(4);
	H->sslhost = h_maybe_obj(2);
	H->req_head = h_obj(3);
	H->res_head = NULL;
	H->res.headers = NULL;
	H->callback = http_cb_stub;
	h_mk_body(H);
	network_ssl_close_func = http_model_ssl_close;
	return (H);
}

/* ghost counters start from arbitrary values */
static void
h_mk_ghost(void)
{
	unsigned a = nondet_unsigned(), b = nondet_unsigned();

	__CPROVER_assume(a < 1000 && b < 1000);
	g_http_ncb = a;
	g_http_ncancel = b;
	g_http_cb_rv = nondet_int();
	g_http_in.check_headers = 0;	/* only the gotheaders harness builds real header strings */
	g_http_i = nondet_size_t();
	g_http_j = nondet_size_t();
}

/* observation of a step's outcome (harness-level statement of C08; the same facts are in the step contracts) */
struct h_obs {
	unsigned ncb, ncancel, ndie;
	size_t max;
};

static struct h_obs
h_before(struct http_cookie * H)
{
	struct h_obs o;

	g_http_envfail = 0;
	o.ncb = g_http_ncb; o.ncancel = g_http_ncancel; o.ndie = g_http_ndie; o.max = H->res_bodylen_max;
	return (o);
}

#define H_ENDED(o) (g_http_ncancel != (o).ncancel)
/* C08: at most one callback, exactly one cancel when the request ended, response contract */
#define H_CHECK_C08(o, rc) do { \
	__CPROVER_assert(g_http_ncancel == (o).ncancel || g_http_ncancel == (o).ncancel + 1, "C08: the request is cancelled at most once"); \
	__CPROVER_assert(g_http_ncb == (o).ncb || (g_http_ncb == (o).ncb + 1 && H_ENDED(o)), "C08: at most one callback, and only when the request ends"); \
	__CPROVER_assert(!H_ENDED(o) || g_http_ncb == (o).ncb + 1 || ((rc) == -1 && g_http_ndie == (o).ndie + 1), "C08: a request ends with exactly one callback (or die() = -1 after an allocation failure)"); \
	__CPROVER_assert(!(H_ENDED(o) && g_http_ncb == (o).ncb + 1 && !g_http_cb_null) || \
	    (g_http_cb_status >= 100 && g_http_cb_status <= 599), "C08: status handed to the caller is in 100..599"); \
	__CPROVER_assert(!(H_ENDED(o) && g_http_ncb == (o).ncb + 1 && !g_http_cb_null) || \
	    (g_http_cb_bodylen == SIZE_MAX ? g_http_cb_body == NULL : g_http_cb_bodylen <= (o).max), "C08: body <= limit, or (size_t)(-1) and no buffer"); \
	__CPROVER_assert(H_ENDED(o) || (rc) == 0, "C08: a continuing step returns 0"); \
} while (0)
#endif /* !HTTP_H_H_ */
