/* VERIF-GROUP
{
 "property": ["C08", "C09"],
 "entry": "h_findeol",
 "enforce": ["findeol"],
 "replace": [],
 "annotate": ["http/http.c"],
 "defines": ["VERIF_HALLOC", "HTTP_N=64", "VERIF_STRMAX=8"],
 "thorough_defines": ["HTTP_N=96"],
 "models": ["models/libc_string.c", "models/http_env.c"],
 "fallback_unwind": 6,
 "timeout": 300,
 "assumptions": ["window object size <= HTTP_N (object-size parameter only; the scan is closed by a loop contract)",
   "memcmp: models/libc_string.c"]
}
*/
/*
 * findeol(buf, buflen): memory-safe on every window (interior pointer, with or without slack behind it,
 * window ending exactly at the end of the allocation); returns the position of the FIRST "\r\n" or buflen.
 */
#include <stdlib.h>
#include "verif.h"
#include "http/http.c"

void
h_findeol(void)
{
	IN(size_t, objlen);
	IN(size_t, off);
	IN(size_t, len);
	IN(size_t, gi);
	size_t r;

	__CPROVER_assume(objlen <= HTTP_N && off <= objlen && len <= objlen - off);
	IN_BYTES(obj, objlen, HTTP_N);
	g_http_i = gi;

	r = findeol(obj + off, len);

	__CPROVER_assert(r <= len, "findeol result within the window");
	VCOVER(r < len && r > 3 && off + len == objlen);	/* found, window ends exactly at the end of the object */
	VCOVER(r == len && len > 3 && off + len == objlen);	/* not found */
	VCOVER(r == len && len == 0);
	VCOVER(r == len && len == 1);
	VCOVER(r + 2 == len && gi < r && gi + 2 <= len);
	__CPROVER_assert(!(gi < r && gi + 2 <= len) || !(obj[off + gi] == '\r' && obj[off + gi + 1] == '\n'), "no EOL before the returned position");
}
