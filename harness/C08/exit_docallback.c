/* VERIF-GROUP
{
 "property": ["C08"],
 "entry": "h_exit_docallback",
 "enforce": ["docallback"],
 "replace": ["http_request_cancel"],
 "annotate": ["http/http.c"],
 "defines": ["VERIF_HALLOC", "HTTP_N=16", "HTTP_BODYMAX=8", "VERIF_STRMAX=8"],
 "models": ["models/libc_string.c", "models/http_env.c"],
 "loop_contracts": false,
 "timeout": 300,
 "assumptions": ["user callback: counting stub http_cb_stub (models/http_env.c); it takes ownership of the body and the harness releases it"]
}
*/
/*
 * docallback: requires the response contract of http.h (status 100..599, body <= limit or ((size_t)-1, NULL)) -- checked at every call site --, hands exactly the cookie's response to exactly one callback invocation, gives up ownership of the body, cancels once.
 */
#include <stdlib.h>
#include "verif.h"
#include "http/http.c"
#include "http_h.h"
void
h_exit_docallback(void)
{
	struct http_cookie * H = h_mk_cookie();
	unsigned ncb0, nc0;
	int rc, status0;
	size_t bodylen0, nh0;
	uint8_t * body0;
	void * ck = H;	/* some pointer value the callback must see */

	/* the cookie may be in any state that can reach the function */
	H->R->waiting = nondet_int() ? 1 : 0;
	H->res_head = h_maybe_obj(4);
	H->res.headers = h_maybe_obj(sizeof(struct http_header));
	H->cookie = nondet_int() ? ck : NULL;
	ck = H->cookie;
	h_mk_ghost();
	/* HTTP_RESP_OK: the states docallback's callers must establish */
	__CPROVER_assume(H->res.status >= 100 && H->res.status <= 599);
	if (nondet_int()) {			/* "too big" */
		free(H->res.body); H->res.body = NULL; H->res.bodylen = SIZE_MAX;
	} else if (H->res.bodylen == 0) {	/* no body */
		__CPROVER_assume(H->res.body == NULL);
	}
	ncb0 = g_http_ncb; nc0 = g_http_ncancel;
	status0 = H->res.status; bodylen0 = H->res.bodylen; body0 = H->res.body; nh0 = H->res.nheaders;

	rc = docallback(H);
	__CPROVER_assert(g_http_ncb == ncb0 + 1 && g_http_ncancel == nc0 + 1, "docallback: one callback, one cancel");
	__CPROVER_assert(g_http_cb_null == 0 && g_http_cb_cookie == ck && rc == g_http_cb_rv, "docallback: response passed, callback's status returned");
	__CPROVER_assert(g_http_cb_status == status0 && g_http_cb_bodylen == bodylen0 && g_http_cb_body == body0 &&
	    g_http_cb_nheaders == nh0, "docallback: the callback saw exactly the cookie's response");
	__CPROVER_assert(g_http_cb_status >= 100 && g_http_cb_status <= 599, "status in 100..599");
	VCOVER(bodylen0 == SIZE_MAX);
	VCOVER(bodylen0 == 0);
	VCOVER(bodylen0 > 0 && bodylen0 != SIZE_MAX && rc == 7);
	free(g_http_cb_body);	/* the callback owns the body */
}
