/* VERIF-GROUP
{
 "property": ["C08", "C09", "C14"],
 "entry": "h_addbody",
 "enforce": ["addbody"],
 "replace": [],
 "annotate": ["http/http.c"],
 "defines": ["VERIF_HALLOC", "HTTP_N=32", "HTTP_BODYMAX=32", "VERIF_STRMAX=8"],
 "thorough_defines": ["HTTP_N=256", "HTTP_BODYMAX=256"],
 "models": ["models/libc_string.c", "models/http_env.c", "models/libc_mem.c"],
 "cbmc": ["--malloc-may-fail", "--malloc-fail-null", "--memory-leak-check"],
 "loop_contracts": false,
 "timeout": 600,
 "assumptions": ["body object <= HTTP_BODYMAX bytes, source window <= HTTP_N bytes (object sizes only; the limit res_bodylen_max is arbitrary)",
   "realloc/memcpy: CBMC built-ins (memcpy of 0 bytes tolerated with any pointers: models/libc_mem.c)"]
}
*/
/*
 * addbody: its in-code assertion (bodylen + buflen <= max) is the function's requires -- it is checked at every
 * call site in the groups of callback_readdata and callback_read_toeof.  Under it: memory-safe, the buffer never
 * grows beyond the limit, body' = body ++ data on success; unchanged and nothing leaked on allocation failure.
 */
#include <stdlib.h>
#include "verif.h"
#include "http/http.c"
#include "http_h.h"

void
h_addbody(void)
{
	struct http_cookie * H = h_obj(sizeof(struct http_cookie));
	IN(size_t, srclen);
	IN(size_t, gi);
	size_t len0, alloc0;
	uint8_t b_old = 0, b_src = 0;
	int rc;

	h_mk_body(H);
	len0 = H->res.bodylen;
	alloc0 = H->res_bodylen_alloc;
	__CPROVER_assume(srclen <= HTTP_N && srclen <= H->res_bodylen_max - len0 && len0 + srclen <= HTTP_BODYMAX);
	IN_BYTES(src, srclen, HTTP_N);
	g_http_i = gi;
	if (gi < len0)
		b_old = H->res.body[gi];
	else if (gi - len0 < srclen)
		b_src = src[gi - len0];

	rc = addbody(H, src, srclen);

	__CPROVER_assert(H->res.bodylen <= H->res_bodylen_alloc && H->res_bodylen_alloc <= H->res_bodylen_max, "body within limit");
	if (rc == 0) {
		__CPROVER_assert(H->res.bodylen == len0 + srclen, "length grew by the data length");
		if (gi < len0)
			__CPROVER_assert(H->res.body[gi] == b_old, "old body bytes kept");
		else if (gi < H->res.bodylen)
			__CPROVER_assert(H->res.body[gi] == b_src, "new bytes are the data");
	} else {
		__CPROVER_assert(H->res.bodylen == len0 && H->res_bodylen_alloc == alloc0, "unchanged on failure");
	}
	VCOVER(rc == 0 && alloc0 == 0 && srclen > 0);
	VCOVER(rc == 0 && alloc0 > 0 && H->res_bodylen_alloc == H->res_bodylen_max && H->res_bodylen_alloc < 2 * alloc0);
	VCOVER(rc == 0 && H->res_bodylen_alloc == 2 * alloc0 && alloc0 > 0);
	VCOVER(rc == 0 && srclen == 0 && alloc0 == 0);
	VCOVER(rc == 0 && H->res_bodylen_max == 0);
	VCOVER(rc == -1 && alloc0 > 0);
	VCOVER(rc == -1 && alloc0 == 0);
	/* release what the cookie owns: the leak check then shows addbody itself leaked nothing */
	free(H->res.body);
	free(H);
	free(src);
}
