/* VERIF-GROUP
{
 "property": ["C08"],
 "entry": "h_exit_die",
 "enforce": ["die"],
 "replace": ["http_request_cancel"],
 "annotate": ["http/http.c"],
 "defines": ["VERIF_HALLOC", "HTTP_N=16", "HTTP_BODYMAX=8", "VERIF_STRMAX=8"],
 "models": ["models/libc_string.c", "models/http_env.c"],
 "loop_contracts": false,
 "timeout": 300,
 "assumptions": ["user callback: counting stub http_cb_stub (models/http_env.c); it takes ownership of the body and the harness releases it"]
}
*/
/*
 * die: no callback, exactly one http_request_cancel, returns -1.
 */
#include <stdlib.h>
#include "verif.h"
#include "http/http.c"
#include "http_h.h"
void
h_exit_die(void)
{
	struct http_cookie * H = h_mk_cookie();
	unsigned ncb0, nc0;
	int rc, status0;
	size_t bodylen0, nh0;
	uint8_t * body0;
	void * ck = H;	/* some pointer value the callback must see */

	/* the cookie may be in any state that can reach the function */
	H->R->waiting = nondet_int() ? 1 : 0;
	H->res_head = h_maybe_obj(4);
	H->res.headers = h_maybe_obj(sizeof(struct http_header));
	H->cookie = nondet_int() ? ck : NULL;
	ck = H->cookie;
	h_mk_ghost();
	ncb0 = g_http_ncb; nc0 = g_http_ncancel;
	status0 = H->res.status; bodylen0 = H->res.bodylen; body0 = H->res.body; nh0 = H->res.nheaders;

	rc = die(H);
	__CPROVER_assert(rc == -1 && g_http_ncb == ncb0 && g_http_ncancel == nc0 + 1, "die: no callback, one cancel, -1");
	VCOVER(rc == -1);
}
