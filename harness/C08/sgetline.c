/* VERIF-GROUP
{
 "property": ["C08", "C09"],
 "entry": "h_sgetline",
 "enforce": ["sgetline"],
 "replace": ["findeol"],
 "annotate": ["http/http.c"],
 "defines": ["VERIF_HALLOC", "HTTP_N=64", "VERIF_STRMAX=8"],
 "thorough_defines": ["HTTP_N=96"],
 "models": ["models/libc_string.c", "models/http_env.c"],
 "timeout": 300,
 "assumptions": ["buffer object size <= HTTP_N (object-size parameter only)"]
}
*/
/*
 * sgetline: its in-code assertion ("It had better be there") is the function's requires (an EOL exists at or
 * after *bufpos -- ghost witness g_http_eol supplied by the caller); under it the function is memory-safe,
 * NUL-terminates exactly the first EOL, and moves *bufpos just past it.
 */
#include <stdlib.h>
#include "verif.h"
#include "http/http.c"

void
h_sgetline(void)
{
	IN(size_t, len);
	IN(size_t, pos0);
	IN(size_t, gi);
	IN(size_t, gj);
	IN(size_t, eol);
	size_t pos, linelen;
	char * s;

	__CPROVER_assume(len <= HTTP_N);
	IN_BYTES(buf, len, HTTP_N);
	__CPROVER_assume(pos0 <= eol && eol <= len && len - eol >= 2 && buf[eol] == '\r' && buf[eol + 1] == '\n');
	g_http_i = gi; g_http_j = gj; g_http_eol = eol;
	pos = pos0;

	s = sgetline(buf, len, &pos, &linelen);

	__CPROVER_assert(s == (char *)buf + pos0, "line starts at the old position");
	__CPROVER_assert(s[linelen] == '\0' && pos == pos0 + linelen + 2 && pos <= len, "line is NUL-terminated inside the buffer");
	VCOVER(linelen == 0);
	VCOVER(linelen > 2 && pos == len);
	VCOVER(pos0 + linelen < eol);
	VCOVER(gi >= pos0 && gi < pos - 2);
}
