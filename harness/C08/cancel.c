/* VERIF-GROUP
{
 "property": ["C08", "C14"],
 "entry": "h_cancel",
 "enforce": ["http_request_cancel"],
 "replace": [],
 "annotate": ["http/http.c"],
 "defines": ["VERIF_HALLOC", "HTTP_N=16", "HTTP_BODYMAX=8", "VERIF_STRMAX=8", "HTTP_WAS_FREED"],
 "models": ["models/libc_string.c", "models/http_env.c"],
 "cbmc": ["--memory-leak-check"],
 "loop_contracts": false,
 "timeout": 300,
 "assumptions": ["reader / writer / connect / SSL / close: models/http_env.c (assumed contracts of netbuf_read.c, netbuf_write.c, network_connect.c)"]
}
*/
/*
 * http_request_cancel on a cookie in ANY state (connecting, connected, mid-response, every optional object present
 * or absent): no callback, in-progress connect and read cancelled (the reader's "not busy" assertion holds),
 * socket closed, every owned object freed -- CBMC's leak check at the end of the harness finds no live heap object,
 * although the harness itself frees nothing.  "Cannot fail": there is no allocation in it.
 */
#include <stdlib.h>
#include "verif.h"
#include "http/http.c"
#include "http_h.h"

void
h_cancel(void)
{
	struct http_cookie * H = h_mk_cookie();
	int had_conn, had_r, had_wait = 0;
	unsigned ncb0, nc0, nwc0;

	/* any state: also "still connecting" (no reader/writer yet) and "reader is waiting" */
	if (nondet_int()) {
		free(H->R->buf); free(H->R); free(H->W);
		H->R = NULL; H->W = NULL;
		H->connect_cookie = h_maybe_obj(1);
	} else {
		H->R->waiting = nondet_int() ? 1 : 0;
		had_wait = H->R->waiting;
	}
	H->res_head = h_maybe_obj(4);
	H->res.headers = h_maybe_obj(sizeof(struct http_header));
	free(H->req_head);
	H->req_head = h_maybe_obj(3);
	h_mk_ghost();
	had_conn = (H->connect_cookie != NULL);
	had_r = (H->R != NULL);
	ncb0 = g_http_ncb; nc0 = g_http_ncancel; nwc0 = g_http_nwaitcancel;

	http_request_cancel(H);

	__CPROVER_assert(g_http_ncb == ncb0, "cancel never invokes the user's callback");
	__CPROVER_assert(g_http_ncancel == nc0 + 1, "one cancel");
	__CPROVER_assert(!had_r || g_http_nwaitcancel == nwc0 + 1, "a pending read is cancelled before the reader is freed");
	VCOVER(had_conn);
	VCOVER(had_r && had_wait);
	VCOVER(had_r && !had_wait);
	VCOVER(!had_r && !had_conn);
}
