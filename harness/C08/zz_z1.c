/* VERIF-GROUP
{
 "property": ["C08", "C09", "C14"],
 "entry": "h_zz_z1",
 "enforce": ["gotheaders"],
 "replace": ["findeol", "callback_read_header", "callback_chunkedheader", "get_body_gotclen", "callback_read_toeof"],
 "annotate": ["http/http.c"], "specs": {"http/http.c": "/tmp/hp/exp_z1.spec"},
 "defines": ["VERIF_HALLOC", "HTTP_N=14", "HTTP_HB=12", "HTTP_BODYMAX=8", "VERIF_STRMAX=14", "HTTP_MAYFAIL", "HTTP_EXP_SSCANF_K=1"],
 "thorough_defines": ["HTTP_N=64", "HTTP_HB=64", "VERIF_STRMAX=68"],
 "models": ["models/http_string.c", "models/http_env.c", "models/libc_mem.c"],
 "cbmc": ["--malloc-may-fail", "--malloc-fail-null", "--object-bits", "9"],
 "expect_loops": ["http_findheader", "strlen", "strcmp", "strcspn", "strspn", "strstr"],
 "allow_undefined": ["strtod", "strtoimax", "fprintf", "abort"],
 "timeout": 600,
 "assumptions": ["header block <= HTTP_HB bytes (object-size parameter: bounds the quantifiers and the ghost line record; the counting pass, the parsing pass and the OWS loop are closed by loop contracts, for any number of lines)",
   "sscanf: writes up to three ints, returns -1..3; strtoumax: C11 (models/http_env.c)",
   "findeol, callback_read_header, callback_chunkedheader, get_body_gotclen, callback_read_toeof: replaced by their contracts (enforced in their own groups); sgetline, http_findheader, imalloc and the exits docallback, fail, die, http_request_cancel are inlined (real code; 13 more replaced call sites exhaust cbmc's object numbering); sgetline's in-code assertion is proved in this context",
   "malloc may fail (HTTP_MAYFAIL: die() is then allowed without an environment failure)"]
}
*/
/*
 * gotheaders on every header block of up to HTTP_HB bytes that ends with the window's first "\r\n\r\n": memory-safe;
 * sgetline's "an EOL exists" assertion and the final `bufpos + 2 == res_headlen` assertion hold (the counting pass and
 * the parsing pass agree: loop invariants over a ghost record of the lines); every callee's entry condition holds at its call site -- in particular the 1xx restart must
 * re-establish callback_read_header's entry invariant (F1 is the failure of that obligation) --; allocation failure
 * => die().
 */
#include <stdlib.h>
#include "verif.h"
#include "http/http.c"
#include "http_h.h"


void
h_zz_z1(void)
{
	struct http_cookie * H = h_mk_cookie();
	size_t wlen, blen, k;
	uint8_t * win;
	struct h_obs o;
	int rc, ishead;

	/* entry state: nothing parsed yet, no body */
	free(H->res.body);
	H->res.body = NULL; H->res_bodylen_alloc = 0; H->res.bodylen = 0;
	h_mk_ghost();
	win = H->R->buf + H->R->bufpos;
	wlen = H->R->datalen - H->R->bufpos;
	blen = nondet_size_t();
	__CPROVER_assume(blen >= 4 && blen <= wlen && blen <= HTTP_HB);
	__CPROVER_assume(win[blen - 4] == '\r' && win[blen - 3] == '\n' && win[blen - 2] == '\r' && win[blen - 1] == '\n');
	/* it is the FIRST terminator of the window (what callback_read_header guarantees for every ghost position) */
	for (k = 0; k < HTTP_HB; k++)
		__CPROVER_assume(!(k + 4 < blen) || !(win[k] == '\r' && win[k + 1] == '\n' && win[k + 2] == '\r' && win[k + 3] == '\n'));
	H->hepos = blen - 4;
	ishead = H->req_ishead;
	o = h_before(H);

	rc = gotheaders(H, win, blen);

	H_CHECK_C08(o, rc);
	VCOVER(H_ENDED(o) && g_http_ncb == o.ncb + 1 && !g_http_cb_null && ishead && g_http_cb_bodylen == 0);	/* HEAD: callback now */
	VCOVER(H_ENDED(o) && g_http_ncb == o.ncb + 1 && !g_http_cb_null && !ishead && g_http_cb_status == 204);
	VCOVER(H_ENDED(o) && g_http_ncb == o.ncb + 1 && g_http_cb_null);						/* malformed */
	VCOVER(H_ENDED(o) && rc == -1 && g_http_ndie == o.ndie + 1);						/* allocation failure */
	VCOVER(!H_ENDED(o) && blen == 4);
	VCOVER(!H_ENDED(o) && blen == HTTP_HB && wlen == blen);
}
