/* VERIF-GROUP
{
 "property": ["C08", "C09"],
 "entry": "h_chunkedheader",
 "enforce": ["callback_chunkedheader"],
 "replace": ["findeol", "callback_readdata", "docallback", "toobig", "fail", "die"],
 "annotate": ["http/http.c"],
 "defines": ["VERIF_HALLOC", "HTTP_N=24", "HTTP_BODYMAX=8", "VERIF_STRMAX=32"],
 "thorough_defines": ["HTTP_N=64", "VERIF_STRMAX=72"],
 "models": ["models/libc_string.c", "models/http_env.c"],
 "cbmc": ["--object-bits", "9"],
 "loop_contracts": false,
 "allow_undefined": ["strtod", "strtoimax", "fprintf", "abort"],
 "timeout": 600,
 "assumptions": ["reader window object <= HTTP_N bytes", "strtoumax: models/http_env.c (C11 7.22.1.4; requires a NUL-terminated string inside the object)",
   "findeol, callback_readdata, docallback, toobig, fail, die: replaced by their contracts (enforced in their own groups)"]
}
*/
/*
 * callback_chunkedheader on every window: the chunk-size line is parsed only when an EOL is present; strtoumax must
 * be handed a NUL-terminated string inside the reader's buffer (F3 is the failure of exactly that obligation when
 * the window ends at the end of the allocation); chunk size 0 ends the response; a size above the remaining limit
 * is "too big"; otherwise readlen = size + 2 and callback_readdata's entry condition holds.
 */
#include <stdlib.h>
#include "verif.h"
#include "http/http.c"
#include "http_h.h"

void
h_chunkedheader(void)
{
	struct http_cookie * H = h_mk_cookie();
	IN(int, status);
	size_t wlen, slack;
	struct h_obs o;
	int rc;

	H->res_head = h_maybe_obj(4);
	H->res.headers = h_maybe_obj(sizeof(struct http_header));
	__CPROVER_assume(H->res.status >= 100 && H->res.status <= 599 && H->chunked != 0);
	h_mk_ghost();
	wlen = H->R->datalen - H->R->bufpos;
	slack = H->R->buflen - H->R->datalen;
	o = h_before(H);

	rc = callback_chunkedheader(H, status);

	H_CHECK_C08(o, rc);
	VCOVER(H_ENDED(o) && status == 0 && g_http_ncb == o.ncb + 1 && !g_http_cb_null && g_http_cb_bodylen == SIZE_MAX);	/* too big */
	VCOVER(H_ENDED(o) && status == 0 && g_http_ncb == o.ncb + 1 && !g_http_cb_null && g_http_cb_bodylen != SIZE_MAX && slack == 0);	/* last chunk */
	VCOVER(H_ENDED(o) && status == 0 && g_http_ncb == o.ncb + 1 && g_http_cb_null && wlen > 2);	/* unparsable size */
	VCOVER(!H_ENDED(o) && wlen == 0);			/* no EOL yet: wait */
	VCOVER(!H_ENDED(o) && wlen > 4 && slack == 0);
	VCOVER(H_ENDED(o) && status == 1 && g_http_cb_null);
}
