/* VERIF-GROUP
{
 "property": ["C08", "C09"],
 "entry": "h_gotclen",
 "enforce": ["get_body_gotclen"],
 "replace": ["callback_readdata", "toobig"],
 "annotate": ["http/http.c"],
 "defines": ["VERIF_HALLOC", "HTTP_N=16", "HTTP_BODYMAX=8", "VERIF_STRMAX=8"],
 "models": ["models/libc_string.c", "models/http_env.c"],
 "loop_contracts": false,
 "timeout": 600,
 "assumptions": ["callback_readdata, toobig: replaced by their contracts (enforced in their own groups)"]
}
*/
/*
 * get_body_gotclen(H, len) for every Content-Length value and every limit (including 0): above the limit => one
 * callback with bodylen == (size_t)(-1) and no buffer; otherwise readlen = len, not chunked, and
 * callback_readdata's entry condition holds.
 */
#include <stdlib.h>
#include "verif.h"
#include "http/http.c"
#include "http_h.h"

void
h_gotclen(void)
{
	struct http_cookie * H = h_mk_cookie();
	IN(size_t, len);
	struct h_obs o;
	int rc;

	H->res_head = h_maybe_obj(4);
	H->res.headers = h_maybe_obj(sizeof(struct http_header));
	__CPROVER_assume(H->res.status >= 100 && H->res.status <= 599 && H->res.bodylen == 0);
	h_mk_ghost();
	o = h_before(H);

	rc = get_body_gotclen(H, len);

	H_CHECK_C08(o, rc);
	__CPROVER_assert(!(len > o.max) || (H_ENDED(o) && g_http_ncb == o.ncb + 1 && !g_http_cb_null &&
	    g_http_cb_bodylen == SIZE_MAX && g_http_cb_body == NULL), "Content-Length above the limit: (size_t)(-1), no buffer");
	VCOVER(len > o.max && o.max == 0);
	VCOVER(len == o.max && len > 0 && !H_ENDED(o));
	VCOVER(len == 0 && H_ENDED(o) && g_http_cb_bodylen == 0);
	VCOVER(len < o.max && !H_ENDED(o));
}
