/* VERIF-GROUP
{
 "property": ["C09"],
 "entry": "h_findheader",
 "enforce": ["http_findheader"],
 "replace": [],
 "annotate": ["http/http.c"],
 "specs": {"http/http.c": "contracts/http__http.c.findheader.spec"},
 "defines": ["VERIF_HALLOC", "HTTP_N=16", "VERIF_STRMAX=8", "FH_MAXH=3", "FH_MAXS=5", "FH_EXACT", "VERIF_NO_DIRTY"],
 "thorough_defines": ["FH_MAXH=5", "FH_MAXS=12", "VERIF_STRMAX=16"],
 "models": ["models/libc_string.c", "models/http_env.c"],
 "loop_contracts": false,
 "unwind": 9, "thorough_unwind": 17,
 "bounded": true, "bound": "<= 3 headers (5 thorough), names <= 5 bytes (12 thorough): the search loop is unwound",
 "timeout": 600,
 "assumptions": ["BOUNDED: header array <= FH_MAXH entries; strcmp: models/libc_string.c"]
}
*/
/*
 * http_findheader returns the value of the FIRST header whose name equals the requested one (exact, case-sensitive),
 * NULL if there is none.  Same harness as findheader.c with -DFH_EXACT; contains its VCOVER( markers there.
 */
#include "findheader.c"
