/* body shared by aes_dispatch_block_sw.c (no CPUSUPPORT) and aes_dispatch_block_aesni.c (CPUSUPPORT_X86_AESNI) */
#include "aesd.h"

void
h_disp(void)
{
	IN(int, alias);
	uint8_t * in = malloc(16);
	uint8_t * out = alias ? in : malloc(16);
	AES_KEY * K = malloc(sizeof(AES_KEY));		/* an object big enough for either representation's header */
	__CPROVER_assume(in != NULL && out != NULL && K != NULL);
#if AESBUILD == 1
	IN(int, hw);
	__CPROVER_assume(hw >= HW_SOFTWARE && hw <= HW_UNSET);
	hwaccel = hw;
#endif
	/* ghost point: this key object and this input; value: whatever the selected implementation computes there (G3) */
	__CPROVER_havoc_object(g_aes_Y);
	g_aes_key = (const struct crypto_aes_key *)K;
	for (int i = 0; i < 16; i++)
		g_aes_X[i] = in[i];
	int sw = AESD_SW;

	crypto_aes_encrypt_block(in, out, (const struct crypto_aes_key *)K);

	__CPROVER_assert(B16_EQ(out, g_aes_Y), "dispatcher returns the selected implementation's E(key, in0), same contract on every branch");
	VCOVER(sw && alias && K->rounds == 14);
	VCOVER(sw && !alias && K->rounds == 10);
#if AESBUILD == 1
	VCOVER(!sw && alias);
	VCOVER(hw == HW_UNSET);
#endif
}
