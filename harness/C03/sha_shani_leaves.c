/* VERIF-GROUP
{
 "property": ["C03"],
 "entry": "h_shani_leaves",
 "enforce": [],
 "replace": [],
 "annotate": [],
 "defines": ["CPUSUPPORT_X86_SHANI=1", "CPUSUPPORT_X86_SSSE3=1"],
 "models": ["models/x86_sse2.c", "models/x86_sha.c"],
 "cflags": ["-msse2", "-mssse3", "-msha"],
 "loop_contracts": false,
 "timeout": 300,
 "assumptions": ["leaf lemmas on the UNMODIFIED macros RND4 and MSG4 and the function be32dec_128 of the real alg/sha256_shani.c (included): four rounds on the (ABEF, CDGH) register packing = four FIPS 180-4 rounds; MSG4 = four schedule steps; load = big-endian words -- for all inputs",
                 "SHA256RNDS2 / SHA256MSG1 / SHA256MSG2 / PSHUFB / PALIGNR / PSRLDQ modelled from the Intel SDM (models/x86_sha.c, models/x86_sse2.c)",
                 "the composition of these leaves over the 16 RNDMSG lines is the (currently undecided) group C03/sha_shani"]
}
*/
#include <stdlib.h>
#include <string.h>
#include "verif.h"
#define C02_WANT_IMMINTRIN
#include "c02_x86intrin.h"
#include "c03_sha_ghost.h"
#include "sha_ghost.h"
#include "alg/sha256_shani.c"

void
h_shani_leaves(void)
{
	/* (1) RND4 with the constants of rounds 0..3: S = {ABEF, CDGH}, W = four schedule words */
	uint32_t v[8], w[4], e[9][8], ne, na;
	__m128i S[2], W;

	uint32_t abef[4] = { v[5], v[4], v[1], v[0] };	/* lanes 0..3 = f, e, b, a */
	uint32_t cdgh[4] = { v[7], v[6], v[3], v[2] };	/* h, g, d, c */
	S[0] = _mm_loadu_si128((const __m128i *)abef);
	S[1] = _mm_loadu_si128((const __m128i *)cdgh);
	W = _mm_loadu_si128((const __m128i *)w);
	RND4(S, W, 0x428a2f98, 0x71374491, 0xb5c0fbcf, 0xe9b5dba5);
	for (int k = 0; k < 8; k++)
		e[0][k] = v[k];
	for (int t = 0; t < 4; t++) {
		spec_sha256_round(e[t][0], e[t][1], e[t][2], e[t][3], e[t][4], e[t][5], e[t][6], e[t][7],
		    spec_sha256_K[t] + w[t], &ne, &na);
		e[t + 1][0] = na; e[t + 1][1] = e[t][0]; e[t + 1][2] = e[t][1]; e[t + 1][3] = e[t][2];
		e[t + 1][4] = ne; e[t + 1][5] = e[t][4]; e[t + 1][6] = e[t][5]; e[t + 1][7] = e[t][6];
	}
	__CPROVER_assert(VG_L32(S[0], 3) == e[4][0] && VG_L32(S[0], 2) == e[4][1] && VG_L32(S[1], 3) == e[4][2] &&
	    VG_L32(S[1], 2) == e[4][3] && VG_L32(S[0], 1) == e[4][4] && VG_L32(S[0], 0) == e[4][5] &&
	    VG_L32(S[1], 1) == e[4][6] && VG_L32(S[1], 0) == e[4][7], "RND4 = four FIPS 180-4 rounds on the ABEF/CDGH packing");

	/* (2) MSG4(W, i) for i = 4: W[0] <- words 16..19 from words 0..15 in W[0..3] */
	uint32_t m[20];
	__m128i Wv[4];
	for (int q = 0; q < 4; q++)
		Wv[q] = _mm_loadu_si128((const __m128i *)&m[4 * q]);
	MSG4(Wv, 4);
	for (int t = 16; t < 20; t++)
		m[t] = spec_sha256_sched(m[t - 2], m[t - 7], m[t - 15], m[t - 16]);
	for (int k = 0; k < 4; k++)
		__CPROVER_assert(VG_L32(Wv[0], k) == m[16 + k], "MSG4 = four schedule steps of FIPS 180-4 6.2.2");

	/* (3) be32dec_128 */
	uint8_t b[16];
	__m128i x = be32dec_128(b);
	for (int k = 0; k < 4; k++)
		__CPROVER_assert(VG_L32(x, k) == (((uint32_t)b[4 * k] << 24) | ((uint32_t)b[4 * k + 1] << 16) |
		    ((uint32_t)b[4 * k + 2] << 8) | (uint32_t)b[4 * k + 3]), "be32dec_128 = four big-endian words");
	VCOVER(v[0] == 0x6a09e667u && b[0] == 0x80);
}
