/* VERIF-GROUP-PARKED (rename to VERIF-GROUP to activate; see STATUS below)
{
 "property": ["C03"],
 "entry": "h_shad",
 "enforce": ["SHA256_Transform"],
 "replace": ["SHA256_Transform_sse2"],
 "annotate": ["alg/sha256.c"],
 "specs": {"alg/sha256.c": "contracts/alg__sha256.c.C03.spec"},
 "defines": ["VERIF_HALLOC", "CPUSUPPORT_X86_SSE2=1"],
 "matrix": {"SHA_PART": [0, 1, 2, 3]},
 "loop_contracts": false,
 "backend": "kissat",
 "tier": "experimental",
 "timeout": 600, "thorough_timeout": 600,
 "assumptions": [
                 "STATUS: UNDECIDED in this sandbox -- every cut-point obligation discharges in 0.3-8 s when checked alone (cbmc --property X, measured for all classes), but the driver checks all obligations of a group in one solver query, which does not finish in 50 min (default SAT and kissat, also with 16 one-stage instances)",
                 "CPUSUPPORT subset {X86_SSE2}",
                 "hwaccel havocked over its whole enum range; accelerated callees replaced by SHA256_COMPRESS_CONTRACT (SHA-NI: enforced in C03/sha_shani; SSE2: declared, whole-function proof undecided, leaves C03/sha_sse2_msg4, sha_sse2_bswap)",
                 "portable rounds: one cut-point lemma per RNDr / MSCH line (asserted, then assumed); the 4 matrix instances assert the cut points of 16 rounds each",
                 "specification: spec/sha256_spec.h (FIPS 180-4 6.2.2)"]
}
*/
/* reachability markers: the VCOVER(...) lines of sha_dispatch.h */
#include "sha_dispatch.h"
