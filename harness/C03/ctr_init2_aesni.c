/* VERIF-GROUP
{
 "property": ["C03", "C02"],
 "entry": "h_init2",
 "enforce": ["crypto_aesctr_init2"],
 "replace": ["hwaccel_init"],
 "annotate": ["crypto/crypto_aesctr.c", "crypto/crypto_aesctr_shared.c"],
 "defines": ["VERIF_HALLOC", "CPUSUPPORT_X86_AESNI=1", "CTR_HAVOC_HWACCEL"],
 "loop_contracts": false,
 "timeout": 120,
 "assumptions": ["CPUSUPPORT_X86_AESNI build of crypto_aesctr_init2: same postconditions as the generic build, plus 'a path has been selected'"]
}
*/
/* reachability markers: the VCOVER(...) lines of ../C02/ctr_init2.c */
int g_aes_sel;
#include "../C02/ctr_init2.c"
