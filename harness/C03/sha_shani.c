/* VERIF-GROUP
{
 "property": ["C03"],
 "entry": "h_shani",
 "enforce": ["SHA256_Transform_shani"],
 "replace": [],
 "annotate": ["alg/sha256_shani.c"],
 "defines": ["VERIF_HALLOC", "CPUSUPPORT_X86_SHANI=1", "CPUSUPPORT_X86_SSSE3=1"],
 "models": ["models/x86_sse2.c", "models/x86_sha.c"],
 "cflags": ["-msse2", "-mssse3", "-msha"],
 "matrix": {"SHA_PART": [0, 1, 2, 3]},
 "loop_contracts": false,
 "tier": "experimental",
 "timeout": 600, "thorough_timeout": 600,
 "assumptions": [
                 "STATUS: UNDECIDED in this sandbox -- every cut-point obligation discharges in 0.3-8 s when checked alone (cbmc --property X, measured for all classes), but the driver checks all obligations of a group in one solver query, which does not finish in 50 min (default SAT and kissat, also with 16 one-stage instances)",
                 "SHA256RNDS2, SHA256MSG1, SHA256MSG2 modelled from the Intel SDM (models/x86_sha.c); PSHUFB, PALIGNR, PSHUFD, PUNPCKL/HQDQ, PSRLDQ (models/x86_sse2.c)",
                 "specification: spec/sha256_spec.h (FIPS 180-4 6.2.2), run by the harness; 17 cut-point lemmas (assert, then assume) split the equivalence into four-round steps; the 4 matrix instances assert a quarter of the cut points each (see contracts/c03_sha_ghost.h)",
                 "no loops in the function"]
}
*/
#include <stdlib.h>
#include <string.h>
#include "verif.h"
#define C02_WANT_IMMINTRIN
#include "c02_x86intrin.h"
#include "sha_ghost.h"
#include "alg/sha256_shani.c"

void
h_shani(void)
{
	uint32_t * state = malloc(32);
	uint8_t * block = malloc(64);
	__CPROVER_assume(state != NULL && block != NULL);
	sha_ghost_run(state, block);

	SHA256_Transform_shani(state, block);

	for (int k = 0; k < 8; k++)
		__CPROVER_assert(state[k] == g_sha_H1[k], "state' = FIPS 180-4 compress(state, block)");
	VCOVER(block[0] == 0x61 && g_sha_H0[0] == 0x6a09e667u);
}
