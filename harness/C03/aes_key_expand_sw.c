/* VERIF-GROUP
{
 "property": ["C03", "C02", "C14"],
 "entry": "h_kexp_sw",
 "enforce": ["crypto_aes_key_expand"],
 "replace": [],
 "annotate": ["crypto/crypto_aes.c"],
 "defines": ["VERIF_HALLOC", "AESBUILD=0"],
 "matrix": {"KLEN": [16, 32]},
 "loop_contracts": false,
 "cbmc": ["--malloc-may-fail", "--malloc-fail-null"],
 "timeout": 300,
 "assumptions": ["software path: OpenSSL AES_set_encrypt_key under the assumed contract models/openssl_aes.c (= FIPS-197 KeyExpansion)",
                 "malloc may fail: NULL is returned and nothing is leaked"]
}
*/
#include "aesd.h"

void
h_kexp_sw(void)
{
	uint8_t * key = malloc(KLEN);
	__CPROVER_assume(key != NULL);
	IN(size_t, k);
	g_k = k;
	for (int i = 0; i < KLEN; i++)
		g_ks_key[i] = key[i];
	spec_aes_key_expansion(g_ks_key, KLEN / 4, g_ks_w);
	struct crypto_aes_key * K;

	K = crypto_aes_key_expand(key, KLEN);

	if (K != NULL)
		__CPROVER_assert(((AES_KEY *)K)->rounds == KLEN / 4 + 6, "Nr");
	VCOVER(K == NULL);
	VCOVER(K != NULL && g_k == 16 * (KLEN / 4 + 7) - 1);
}
