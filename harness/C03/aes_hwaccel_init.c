/* VERIF-GROUP
{
 "property": ["C03"],
 "entry": "h_hwinit",
 "enforce": ["hwaccel_init"],
 "replace": ["functest"],
 "annotate": ["crypto/crypto_aes.c"],
 "defines": ["VERIF_HALLOC", "AESBUILD=1", "OPENSSL_AES_G3"],
 "loop_contracts": false,
 "timeout": 120,
 "assumptions": ["cpuid-based detection cpusupport_x86_aesni_detect_1() is body-less (returns any value): trusted, not verified",
                 "the self test functest() is replaced by 'returns 0 or -1': its outcome does not matter for correctness once every path is proved",
                 "abort() after a failed OpenSSL self test ends the execution (CBMC model of abort)"]
}
*/
#include "aesd.h"

void
h_hwinit(void)
{
	IN(int, hw);
	__CPROVER_assume(hw >= HW_SOFTWARE && hw <= HW_UNSET);
	hwaccel = hw;
	IN(int, present);
	IN(int, init);
	cpusupport_x86_aesni_present_1 = present;
	cpusupport_x86_aesni_init_1 = init;

	hwaccel_init();

	__CPROVER_assert(hwaccel == HW_SOFTWARE || hwaccel == HW_X86_AESNI, "a selection was made");
	__CPROVER_assert(hw == HW_UNSET || hwaccel == hw, "an existing selection is never changed");
	if (hw == HW_UNSET && hwaccel == HW_X86_AESNI)
		__CPROVER_assert(cpusupport_x86_aesni_present_1 != 0, "AES-NI selected only if the CPU feature predicate said yes");
	VCOVER(hw == HW_UNSET && hwaccel == HW_X86_AESNI);
	VCOVER(hw == HW_UNSET && hwaccel == HW_SOFTWARE && cpusupport_x86_aesni_present_1 != 0);	/* self test failed */
	VCOVER(hw == HW_UNSET && hwaccel == HW_SOFTWARE && cpusupport_x86_aesni_present_1 == 0);
	VCOVER(hw == HW_X86_AESNI);
}
