/* VERIF-GROUP
{
 "property": ["C03"],
 "entry": "h_crcleaf",
 "enforce": [],
 "replace": [],
 "annotate": [],
 "loop_contracts": false,
 "cflags": ["-msse4.2"],
 "matrix": {"W": [8, 32, 64]},
 "backend": "kissat",
 "timeout": 400,
 "assumptions": ["leaf lemma (L-sub): the Intel SDM pseudo-code of CRC32 r32/r64, r/m8|32|64 (models/x86_crc32.c:x86sdm_crc32) equals W/8 bit-serial CRC-32C byte steps on the source bytes, least significant first, for all states and sources; constant loop bounds"]
}
*/
#include "verif.h"
#define C02_WANT_SMMINTRIN
#include "c02_x86intrin.h"
#include "x86_crc32.c"

void
h_crcleaf(void)
{
	IN(uint32_t, s);
	IN(uint64_t, v);
#if W == 8
	uint32_t r = _mm_crc32_u8(s, (uint8_t)(v & 0xff));
	uint64_t src = v & 0xff;
#elif W == 32
	uint32_t r = _mm_crc32_u32(s, (uint32_t)(v & 0xffffffffu));
	uint64_t src = v & 0xffffffffu;
#else
	uint64_t r64 = _mm_crc32_u64(s, v);
	uint32_t r = (uint32_t)(r64 & 0xffffffffu);
	uint64_t src = v;
	__CPROVER_assert((r64 >> 32) == 0, "64-bit form: upper half of the destination is zero");
#endif
	__CPROVER_assert(r == x86sdm_crc32(s, src, W), "CRC32 instruction (SDM text) = W/8 CRC-32C byte steps");
	VCOVER(s == 0xffffffffu && (v & 0xff) == 0x61);
}
