/* VERIF-GROUP
{
 "property": ["C03", "C02"],
 "entry": "h_disp",
 "enforce": ["crypto_aes_encrypt_block"],
 "replace": ["crypto_aes_encrypt_block_aesni"],
 "annotate": ["crypto/crypto_aes.c"],
 "defines": ["VERIF_HALLOC", "AESBUILD=1", "OPENSSL_AES_G3"],
 "loop_contracts": false,
 "timeout": 120,
 "assumptions": ["build with CPUSUPPORT_X86_AESNI; hwaccel havocked over its whole enum range (software, AES-NI, unset)",
                 "AES-NI path replaced by AES_BLOCK_CONTRACT, which harness/C02/aesni_block.c + aesni_block_m128i.c enforce on the real code against FIPS-197",
                 "OpenSSL AES_encrypt abstracted at the same ghost point (G3); that it is FIPS-197 is ASSUMED (external code)"]
}
*/
/* reachability markers: the VCOVER(...) lines of aes_dispatch_block.h */
#include "aes_dispatch_block.h"
