/* body shared by crc_dispatch_sw.c (no CPUSUPPORT) and crc_dispatch_sse42.c (CPUSUPPORT_X86_SSE42) */
#include <stdlib.h>
#include "verif.h"
uint32_t g_crc;
size_t g_crc_n;
const uint8_t * g_crc_buf;
#include "alg/crc32c.c"

void
h_crcd(void)
{
	IN(size_t, len);
	IN(size_t, a);			/* alignment 0..7 */
	__CPROVER_assume(a < 8 && len <= CRC_MAXLEN);
	uint8_t * obj = malloc(a + len);
	CRC32C_CTX * ctx = malloc(sizeof(CRC32C_CTX));
	__CPROVER_assume(obj != NULL && ctx != NULL);
	const uint8_t * buf = obj + a;
	init();				/* the real table initialisation (no inputs: evaluated by CBMC) */
#ifdef CPUSUPPORT_X86_SSE42
	IN(int, hw);
	__CPROVER_assume(hw >= HW_SOFTWARE && hw <= HW_UNSET);
	hwaccel = hw;
#endif
	g_crc = ctx->state;		/* arbitrary stream state: any partition of a longer message into calls */
	g_crc_n = 0;
	g_crc_buf = buf;

	CRC32C_Update(ctx, buf, len);

	__CPROVER_assert(g_crc_n == len && ctx->state == g_crc, "state = CRC-32C fold of all len bytes in order, on every path");
	VCOVER(len == 0);
	VCOVER(len == 3 && a == 5);
#ifdef CPUSUPPORT_X86_SSE42
	VCOVER(len == 8 && hwaccel == HW_X86_CRC32 && a == 3);
	VCOVER(len == 72 && hwaccel == HW_X86_CRC32);
	VCOVER(len == 3 && hwaccel == HW_X86_CRC32);	/* below the threshold: portable byte loop inside an accelerated stream */
	VCOVER(len == 2 && hwaccel == HW_SOFTWARE);
	VCOVER(len == 1 && hwaccel == HW_UNSET);
#endif
}
