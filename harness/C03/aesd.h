/*
 * aesd.h -- shared by the harnesses of the AES dispatcher crypto/crypto_aes.c (C03, C20).
 * One group instance per build: AESBUILD=0 no CPUSUPPORT_* (software only), AESBUILD=1 CPUSUPPORT_X86_AESNI.
 */
#include <stdlib.h>
#include <openssl/aes.h>
#include "verif.h"
#if AESBUILD == 1
#define CPUSUPPORT_X86_AESNI 1
#endif
#define C02_GHOST_DEFINE
#include "c02_aes_ghost.h"
#include "aes_spec.h"
#include "openssl_aes.c"		/* assumed: OpenSSL = FIPS-197 */

#if AESBUILD == 1
int g_aesni_free_calls;
void * g_aesni_free_arg;
/* run-time CPU feature cache of cpusupport.h (defined in cpusupport_x86_aesni.c in a real build); cpuid itself is trusted */
int cpusupport_x86_aesni_present_1;
int cpusupport_x86_aesni_init_1;
#define AESD_SW (hwaccel != HW_X86_AESNI)
/* cpuid probe: trusted, any answer */
int
cpusupport_x86_aesni_detect_1(void)
{
	int r;

	return (r);
}
/* warnx(3) front end of util/warnp.c: prints a diagnostic, no effect on the program state */
void
libcperciva_warnx(const char * fmt, ...)
{

	(void)fmt;
}
#else
#define AESD_SW 1
#endif
/* software path: the key object is an expanded AES_KEY */
#define AES_SW_KEY_OK(key) (!AESD_SW || (__CPROVER_r_ok(key, sizeof(AES_KEY)) && \
	(((const AES_KEY *)(key))->rounds == 10 || ((const AES_KEY *)(key))->rounds == 14)))
#define AES_FREE_KEY_OBJ(key) (!AESD_SW || PRE_OBJ(key, sizeof(AES_KEY)))
#define AES_EXPANDED_SW(rv, ukey, len) (!AESD_SW || ( \
	__CPROVER_is_fresh(rv, sizeof(AES_KEY)) && ((const AES_KEY *)(rv))->rounds == ((len) == 16 ? 10 : 14) && \
	(AESD_OPAQUE_SCHEDULE || ((B16_EQ(ukey, g_ks_key) && ((len) == 16 || B16_EQ((ukey) + 16, g_ks_key + 16)) && \
	  g_k < 16 * (size_t)((len) == 16 ? 11 : 15)) ==> \
	 ((const uint8_t *)((const AES_KEY *)(rv))->rd_key)[g_k] == g_ks_w[g_k]))))
#ifdef OPENSSL_AES_G3
#define AESD_OPAQUE_SCHEDULE 1
#else
#define AESD_OPAQUE_SCHEDULE 0
#endif
#include "crypto/crypto_aes.c"
