/* VERIF-GROUP
{
 "property": ["C03"],
 "entry": "h_msg4",
 "enforce": ["MSG4"],
 "replace": [],
 "annotate": ["alg/sha256_sse2.c"],
 "defines": ["VERIF_HALLOC", "CPUSUPPORT_X86_SSE2=1"],
 "models": ["models/x86_sse2.c"],
 "cflags": ["-msse2"],
 "loop_contracts": false,
 "timeout": 300,
 "assumptions": ["SSE2 builtins (pshufd, psrlq, psrld/pslld, pslldq/psrldq, movss) modelled from the Intel SDM (models/x86_sse2.c)",
                 "leaf: the SSE2 message-schedule step MSG4 = four schedule steps of FIPS 180-4 6.2.2 (spec/sha256_spec.h), all 2^512 inputs"]
}
*/
#include <stdlib.h>
#include <string.h>
#include "verif.h"
#include "c02_x86intrin.h"
#include "sha_ghost.h"
#include "alg/sha256_sse2.c"

void
h_msg4(void)
{
	__m128i X[4], r;
	uint32_t w[20];

	for (int k = 0; k < 16; k++)
		w[k] = g_sha_msgin[k] = VG_L32(X[k / 4], k % 4);
	for (int t = 16; t < 20; t++)
		w[t] = spec_sha256_sched(w[t - 2], w[t - 7], w[t - 15], w[t - 16]);
	for (int k = 0; k < 4; k++)
		g_sha_msg[k] = w[16 + k];

	r = MSG4(X[0], X[1], X[2], X[3]);

	for (int k = 0; k < 4; k++)
		__CPROVER_assert(VG_L32(r, k) == w[16 + k], "MSG4 lane k = W[j + k] of FIPS 180-4");
	VCOVER(w[0] == 0x61626380u);
}
