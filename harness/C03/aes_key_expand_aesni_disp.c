/* VERIF-GROUP
{
 "property": ["C03", "C14"],
 "entry": "h_kexp_d",
 "enforce": ["crypto_aes_key_expand"],
 "replace": ["hwaccel_init", "crypto_aes_key_expand_aesni"],
 "annotate": ["crypto/crypto_aes.c"],
 "defines": ["VERIF_HALLOC", "AESBUILD=1", "OPENSSL_AES_G3"],
 "loop_contracts": false,
 "cbmc": ["--malloc-may-fail", "--malloc-fail-null"],
 "timeout": 300,
 "assumptions": ["CPUSUPPORT_X86_AESNI build: the key representation follows the selection made by hwaccel_init (replaced by its enforced contract)",
                 "crypto_aes_key_expand_aesni replaced by a contract (NULL or fresh object); its real contract is enforced in C02/aesni_key_expand"]
}
*/
#include "aesd.h"

void
h_kexp_d(void)
{
	IN(size_t, len);
	uint8_t * key = malloc(len <= 32 ? len : 0);
	__CPROVER_assume(key != NULL);
	IN(int, hw);
	__CPROVER_assume(hw >= HW_SOFTWARE && hw <= HW_UNSET);
	hwaccel = hw;
	IN(size_t, k);
	g_k = k;
	__CPROVER_havoc_object(g_ks_key);
	__CPROVER_havoc_object(g_ks_w);
	struct crypto_aes_key * K;

	K = crypto_aes_key_expand(key, len);

	__CPROVER_assert(hwaccel != HW_UNSET && (hw == HW_UNSET || hwaccel == hw), "selection made, and stable");
	VCOVER(K != NULL && hwaccel == HW_X86_AESNI && len == 32);
	VCOVER(K != NULL && hwaccel == HW_SOFTWARE && len == 16 && hw == HW_UNSET);
	VCOVER(K == NULL && hwaccel == HW_SOFTWARE);
	VCOVER(K == NULL && hwaccel == HW_X86_AESNI);
}
