/* VERIF-GROUP
{
 "property": ["C03"],
 "entry": "h_crcd",
 "enforce": ["CRC32C_Update"],
 "replace": [],
 "annotate": ["alg/crc32c.c"],
 "specs": {"alg/crc32c.c": "contracts/alg__crc32c.c.C03.spec"},
 "defines": ["VERIF_HALLOC", "CRC_MAXLEN=24"],
 "loop_contracts": false,
 "cbmc": ["--unwindset", "CRC32C_Update_wrapped_for_contract_checking.0:8,CRC32C_Update_wrapped_for_contract_checking.1:5"],
 "bounded": true, "bound": "len <= 24 (CRC_MAXLEN): the two portable loops are unwound, not closed by loop contracts (tool limit, see contracts/alg__crc32c.c.C03.spec)",
 "timeout": 600,
 "assumptions": ["build with no CPUSUPPORT_*: the portable table-driven loops against the bit-serial CRC-32C fold (trace contract G4), tables from the real init()",
                 "buffer object <= CRC_MAXLEN + 7 bytes; both loops closed by loop contracts"]
}
*/
/* reachability markers: the VCOVER(...) lines of crc_dispatch.h */
#include "crc_dispatch.h"
