/* VERIF-GROUP
{
 "property": ["C03"],
 "entry": "h_crcd",
 "enforce": ["CRC32C_Update"],
 "replace": ["CRC32C_Update_SSE42"],
 "annotate": ["alg/crc32c.c"],
 "specs": {"alg/crc32c.c": "contracts/alg__crc32c.c.C03.spec"},
 "defines": ["VERIF_HALLOC", "CPUSUPPORT_X86_SSE42=1", "CRC_C03_SCOPE=(len>=8&&hwaccel==HW_X86_CRC32)"],
 "loop_contracts": false,
 "cbmc": ["--unwindset", "CRC32C_Update_wrapped_for_contract_checking.0:8,CRC32C_Update_wrapped_for_contract_checking.1:5"],
 "bounded": true, "bound": "PARTIAL: calls that run the portable slice-by-4 loop (4 <= len < 8, or len >= 4 with SSE4.2 not selected) are excluded by the requires clause -- SAT-hard lemma, C01's obligation; the portable byte loop (len < 4) is unwound",
 "backend": "kissat",
 "timeout": 600,
 "assumptions": ["CPUSUPPORT_X86_SSE42 build; hwaccel havocked over its whole enum range; len >= 8 goes to the SSE4.2 path when selected, everything else to the portable loops: both satisfy the same trace contract, so the routing cannot change the result",
                 "CRC32C_Update_SSE42 replaced by the contract enforced in C03/crc_sse42",
                 "buffer object <= CRC_MAXLEN + 7 bytes"]
}
*/
/* reachability markers: the VCOVER(...) lines of crc_dispatch.h */
#include "crc_dispatch.h"
