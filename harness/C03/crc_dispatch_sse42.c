/* VERIF-GROUP
{
 "property": ["C03"],
 "entry": "h_crcd",
 "enforce": ["CRC32C_Update"],
 "replace": ["CRC32C_Update_SSE42"],
 "annotate": ["alg/crc32c.c"],
 "specs": {"alg/crc32c.c": "contracts/alg__crc32c.c.C03.spec"},
 "defines": ["VERIF_HALLOC", "CRC_MAXLEN=24", "CPUSUPPORT_X86_SSE42=1"],
 "loop_contracts": false,
 "cbmc": ["--unwindset", "CRC32C_Update_wrapped_for_contract_checking.0:8,CRC32C_Update_wrapped_for_contract_checking.1:5"],
 "bounded": true, "bound": "len <= 24 (CRC_MAXLEN): the two portable loops are unwound, not closed by loop contracts (tool limit, see contracts/alg__crc32c.c.C03.spec)",
 "timeout": 600,
 "assumptions": ["CPUSUPPORT_X86_SSE42 build; hwaccel havocked over its whole enum range; len >= 8 goes to the SSE4.2 path when selected, everything else to the portable loops: both satisfy the same trace contract, so the routing cannot change the result",
                 "CRC32C_Update_SSE42 replaced by the contract enforced in C03/crc_sse42",
                 "buffer object <= CRC_MAXLEN + 7 bytes"]
}
*/
/* reachability markers: the VCOVER(...) lines of crc_dispatch.h */
#include "crc_dispatch.h"
