/* VERIF-GROUP
{
 "property": ["C03"],
 "entry": "h_bswap",
 "enforce": ["mm_bswap_epi32"],
 "replace": [],
 "annotate": ["alg/sha256_sse2.c"],
 "defines": ["VERIF_HALLOC", "CPUSUPPORT_X86_SSE2=1"],
 "models": ["models/x86_sse2.c"],
 "cflags": ["-msse2"],
 "loop_contracts": false,
 "timeout": 120,
 "assumptions": ["leaf: mm_bswap_epi32 = per-lane byte swap (big-endian load of the block words), SSE2 builtins modelled (models/x86_sse2.c)"]
}
*/
#include <stdlib.h>
#include <string.h>
#include "verif.h"
#include "c02_x86intrin.h"
#include "sha_ghost.h"
#include "alg/sha256_sse2.c"

void
h_bswap(void)
{
	uint8_t b[16];
	uint32_t w[4];
	IN(unsigned, lane);
	g_sha_lane = lane;
	__m128i r;

	r = mm_bswap_epi32(_mm_loadu_si128((const __m128i *)b));

	_mm_storeu_si128((__m128i *)w, r);
	for (int k = 0; k < 4; k++)
		__CPROVER_assert(w[k] == (((uint32_t)b[4 * k] << 24) | ((uint32_t)b[4 * k + 1] << 16) |
		    ((uint32_t)b[4 * k + 2] << 8) | (uint32_t)b[4 * k + 3]), "load + bswap = big-endian 32-bit words (FIPS 180-4 3.1)");
	VCOVER(lane == 3 && b[12] == 0x80);
}
