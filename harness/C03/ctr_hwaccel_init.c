/* VERIF-GROUP
{
 "property": ["C03"],
 "entry": "h_ctr_hwinit",
 "enforce": ["hwaccel_init"],
 "replace": ["crypto_aes_can_use_intrinsics"],
 "annotate": ["crypto/crypto_aesctr.c", "crypto/crypto_aesctr_shared.c"],
 "defines": ["VERIF_HALLOC", "CPUSUPPORT_X86_AESNI=1"],
 "loop_contracts": false,
 "timeout": 120,
 "assumptions": ["crypto_aes_can_use_intrinsics replaced by 'returns the block-cipher layer's (stable) selection g_aes_sel' -- enforced on crypto_aes.c in C03/aes_can_use",
                 "consequence: the CTR layer uses the AES-NI bulk path iff the block-cipher layer uses AES-NI for single blocks, so both paths apply the same E to the same expanded-key representation"]
}
*/
#include "verif.h"
#define C02_GHOST_DEFINE
#include "c02_aes_ghost.h"
int g_aes_sel;
#include "crypto/crypto_aesctr.c"

void
h_ctr_hwinit(void)
{
	IN(int, hw);
	__CPROVER_assume(hw >= HW_SOFTWARE && hw <= HW_UNSET);
	hwaccel = hw;
	IN(int, sel);
	g_aes_sel = sel;

	hwaccel_init();

	__CPROVER_assert(hwaccel != HW_UNSET && (hw == HW_UNSET || hwaccel == hw), "selection made once, never changed");
	if (hw == HW_UNSET)
		__CPROVER_assert((hwaccel == HW_X86_AESNI) == (g_aes_sel == 1), "CTR bulk path selected iff the block-cipher layer selected AES-NI");
	VCOVER(hw == HW_UNSET && hwaccel == HW_X86_AESNI);
	VCOVER(hw == HW_UNSET && hwaccel == HW_SOFTWARE);
	VCOVER(hw == HW_SOFTWARE);
}
