/* VERIF-GROUP
{
 "property": ["C03", "C02"],
 "entry": "h_disp",
 "enforce": ["crypto_aes_encrypt_block"],
 "replace": [],
 "annotate": ["crypto/crypto_aes.c"],
 "defines": ["VERIF_HALLOC", "AESBUILD=0", "OPENSSL_AES_G3"],
 "loop_contracts": false,
 "timeout": 120,
 "assumptions": ["build with no CPUSUPPORT_* macro: software path only",
                 "OpenSSL AES_encrypt abstracted at the ghost point (G3, models/openssl_aes.c); that it is FIPS-197 is ASSUMED (external code)"]
}
*/
/* reachability markers: the VCOVER(...) lines of aes_dispatch_block.h */
#include "aes_dispatch_block.h"
