/* VERIF-GROUP
{
 "property": ["C03", "C02"],
 "entry": "h_stream",
 "enforce": ["crypto_aesctr_stream"],
 "replace": ["crypto_aesctr_stream_cipherblock_use", "crypto_aesctr_stream_cipherblock_generate",
             "crypto_aesctr_stream_pre_wholeblock", "crypto_aesctr_stream_post_wholeblock", "crypto_aesctr_aesni_stream"],
 "annotate": ["crypto/crypto_aesctr.c", "crypto/crypto_aesctr_shared.c"],
 "defines": ["VERIF_HALLOC", "C02_FIXED_OBJ", "CPUSUPPORT_X86_AESNI=1", "CTR_HAVOC_HWACCEL"],
 "matrix": {"BUFMODE": [0, 1]},
 "timeout": 400,
 "assumptions": ["CPUSUPPORT_X86_AESNI build of crypto_aesctr.c; hwaccel havocked over its whole enum range: calls >= 16 bytes go to the AES-NI bulk path when selected, everything else (and every call when not selected) to the portable path; both are held to CTR_STREAM_CONTRACT, so switching between them inside one stream cannot change a byte",
                 "crypto_aesctr_aesni_stream replaced by the contract enforced in C02/ctr_aesni_stream",
                 "buffer objects <= CTR_MAXLEN bytes"]
}
*/
/* reachability markers: the VCOVER(...) lines of ../C02/ctr_stream.c plus those below */
int g_aes_sel;
#define CTR_EXTRA_MARKERS \
	VCOVER(len >= 16 && hwaccel == HW_X86_AESNI && g_i == 17 && CTR_AT(S, ctr0 + g_i)); \
	VCOVER(len == 15 && hwaccel == HW_X86_AESNI && g_i == 3 && CTR_AT(S, ctr0 + g_i)); \
	VCOVER(len == 20 && hwaccel == HW_SOFTWARE); \
	VCOVER(len == 20 && hwaccel == HW_UNSET)
#include "../C02/ctr_stream.c"
