/* VERIF-GROUP
{
 "property": ["C03"],
 "entry": "h_canuse",
 "enforce": ["crypto_aes_can_use_intrinsics"],
 "replace": ["hwaccel_init"],
 "annotate": ["crypto/crypto_aes.c"],
 "defines": ["VERIF_HALLOC", "AESBUILD=1", "OPENSSL_AES_G3"],
 "loop_contracts": false,
 "timeout": 120,
 "assumptions": ["hwaccel_init replaced by its contract (enforced in C03/aes_hwaccel_init)"]
}
*/
#include "aesd.h"

void
h_canuse(void)
{
	IN(int, hw);
	__CPROVER_assume(hw >= HW_SOFTWARE && hw <= HW_UNSET);
	hwaccel = hw;
	int rc;

	rc = crypto_aes_can_use_intrinsics();

	__CPROVER_assert((rc == 1) == (hwaccel == HW_X86_AESNI) && (rc == 0 || rc == 1), "returns 1 exactly when the block-cipher layer selected AES-NI");
	__CPROVER_assert(hw == HW_UNSET || hwaccel == hw, "stable once selected: every later call returns the same value");
	VCOVER(rc == 1 && hw == HW_UNSET);
	VCOVER(rc == 0 && hw == HW_SOFTWARE);
	VCOVER(rc == 1 && hw == HW_X86_AESNI);
}
