/* body shared by the sha_dispatch_*.c groups (one per CPUSUPPORT subset) */
#include <stdlib.h>
#include <string.h>
#include "verif.h"
#include "c02_x86intrin.h"
#include "sha_ghost.h"
#include "alg/sha256.c"

void
h_shad(void)
{
	uint32_t * state = malloc(32);
	uint8_t * block = malloc(64);
	uint32_t * W = malloc(256);
	uint32_t * S = malloc(32);
	__CPROVER_assume(state != NULL && block != NULL && W != NULL && S != NULL);
#ifdef HWACCEL
	IN(int, hw);
	__CPROVER_assume(hw >= HW_SOFTWARE && hw <= HW_UNSET);
	hwaccel = hw;
#endif
	sha_ghost_run(state, block);

	SHA256_Transform(state, block, W, S);

	for (int k = 0; k < 8; k++)
		__CPROVER_assert(state[k] == g_sha_H1[k], "state' = FIPS 180-4 compress(state, block), whatever path was selected");
#ifdef HWACCEL
	VCOVER(hw == HW_SOFTWARE);
	VCOVER(hw == HW_UNSET);
#if defined(CPUSUPPORT_X86_SHANI) && defined(CPUSUPPORT_X86_SSSE3)
	VCOVER(hw == HW_X86_SHANI);
#endif
#if defined(CPUSUPPORT_X86_SSE2)
	VCOVER(hw == HW_X86_SSE2);
#endif
#else
	VCOVER(block[0] == 0x61);
#endif
}
