/* VERIF-GROUP
{
 "property": ["C03"],
 "entry": "h_crc",
 "enforce": ["CRC32C_Update_SSE42"],
 "replace": [],
 "annotate": ["alg/crc32c_sse42.c"],
 "defines": ["VERIF_HALLOC", "CPUSUPPORT_X86_SSE42=1"],
 "matrix": {"SSE42_64": [0, 1]},
 "cflags": ["-msse4.2"],
 "timeout": 400,
 "assumptions": ["CRC32 instruction modelled from the SDM (models/x86_crc32.c, included by the harness; builtin = SDM text proved in C03/crc_insn_leaf)",
                 "one instance with and one without CPUSUPPORT_X86_SSE42_64 (8-byte / 2x4-byte body loop)",
                 "all 8 alignments: the buffer starts at an arbitrary offset 0..7 of an 8-aligned object (CBMC: (uintptr_t)p mod 8 = offset mod 8)",
                 "buffer object <= CRC_MAXLEN + 7 bytes; the three loops are closed by loop contracts",
                 "the two in-code assert()s are proved"]
}
*/
#include <stdlib.h>
#include "verif.h"
#define C02_WANT_SMMINTRIN
#include "c02_x86intrin.h"
#if SSE42_64 == 1
#define CPUSUPPORT_X86_SSE42_64 1
#endif
uint32_t g_crc;
size_t g_crc_n;
uint32_t g_crc0;
#include "alg/crc32c_sse42.c"
#include "x86_crc32.c"	/* instruction model; included (not linked) because it shares the static spec function */

void
h_crc(void)
{
	IN(size_t, len);
	IN(size_t, a);			/* alignment of the buffer: 0..7 */
	__CPROVER_assume(a < 8 && len <= CRC_MAXLEN);
	uint8_t * obj = malloc(a + len);
	__CPROVER_assume(obj != NULL);
	const uint8_t * buf = obj + a;
	IN(uint32_t, state);
	uint32_t r;
	g_crc = state;
	g_crc_n = 0;
	g_crc0 = state;

	r = CRC32C_Update_SSE42(state, buf, len);

	__CPROVER_assert(g_crc_n == len && r == g_crc, "result = CRC-32C fold of all len bytes in order");
	/* (what g_crc IS is fixed by the ghost hooks inside the loops: each one folds byte number g_crc_n with the
	   specification step and asserts it is the next byte -- a trace contract, G4; the loops themselves are
	   abstracted by their invariants, so the harness cannot re-derive the value here) */
	VCOVER(a == 0 && len == 8);
	VCOVER(a == 1 && len == 8);			/* 7 head bytes, no body, 1 tail byte */
	VCOVER(a == 5 && len == 30);			/* head 3, body 24, tail 3 */
	VCOVER(a == 7 && len == 72);
	VCOVER(a == 3 && len == 13);			/* head 5, body 8, tail 0 */
}
