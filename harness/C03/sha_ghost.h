/*
 * sha_ghost.h -- specification side of the SHA-256 compression-function proofs of C03: runs FIPS 180-4 6.2.2
 * (spec/sha256_spec.h: spec_sha256_round, spec_sha256_sched, K) on the harness's inputs and records every
 * intermediate value the cut-point lemmas refer to.
 */
/* specification-side text: no safety obligations are generated for it (they only enlarge the solver's goal set) */
#pragma CPROVER check push
#pragma CPROVER check disable "bounds"
#pragma CPROVER check disable "pointer"
#pragma CPROVER check disable "pointer-overflow"
#pragma CPROVER check disable "conversion"
#pragma CPROVER check disable "div-by-zero"
#include "sha256_spec.h"
uint32_t g_sha_S[65][8];
uint32_t g_sha_W[64];
uint32_t g_sha_H0[8];
uint32_t g_sha_H1[8];
uint8_t g_sha_blk[64];
unsigned g_sha_lane;
uint32_t g_sha_msgin[16];
uint32_t g_sha_msg[4];

static void
sha_ghost_run(const uint32_t H[8], const uint8_t M[64])
{
	uint32_t ne, na;

	for (int i = 0; i < 8; i++)
		g_sha_H0[i] = H[i];
	for (int i = 0; i < 64; i++)
		g_sha_blk[i] = M[i];
	/* 6.2.2 step 1: message schedule */
	for (int t = 0; t < 16; t++)
		g_sha_W[t] = ((uint32_t)M[4 * t] << 24) | ((uint32_t)M[4 * t + 1] << 16) |
		    ((uint32_t)M[4 * t + 2] << 8) | (uint32_t)M[4 * t + 3];
#ifdef SHA_GHOST_DEFINITIONAL
	/*
	 * Same values, introduced as FRESH ghost variables that are then pinned by definitional assumptions (for every
	 * input exactly one assignment satisfies them, so no input is excluded): keeps every cut-point lemma local for
	 * the SAT solver (the specification side of step t mentions only the variables of steps t - 16 .. t).
	 */
	for (int t = 16; t < 64; t++) {
		uint32_t fresh;

		g_sha_W[t] = fresh;
		__CPROVER_assume(g_sha_W[t] == spec_sha256_sched(g_sha_W[t - 2], g_sha_W[t - 7], g_sha_W[t - 15], g_sha_W[t - 16]));
	}
#else
	for (int t = 16; t < 64; t++)
		g_sha_W[t] = spec_sha256_sched(g_sha_W[t - 2], g_sha_W[t - 7], g_sha_W[t - 15], g_sha_W[t - 16]);
#endif
	/* step 2: working variables; step 3: 64 rounds */
	for (int k = 0; k < 8; k++)
		g_sha_S[0][k] = H[k];
	for (int t = 0; t < 64; t++) {
		const uint32_t * v = g_sha_S[t];

		spec_sha256_round(v[0], v[1], v[2], v[3], v[4], v[5], v[6], v[7], spec_sha256_K[t] + g_sha_W[t], &ne, &na);
#ifdef SHA_GHOST_DEFINITIONAL
		{
			uint32_t fe, fa;

			__CPROVER_assume(fe == ne && fa == na);
			ne = fe;
			na = fa;
		}
#endif
		g_sha_S[t + 1][0] = na;
		g_sha_S[t + 1][1] = v[0];
		g_sha_S[t + 1][2] = v[1];
		g_sha_S[t + 1][3] = v[2];
		g_sha_S[t + 1][4] = ne;
		g_sha_S[t + 1][5] = v[4];
		g_sha_S[t + 1][6] = v[5];
		g_sha_S[t + 1][7] = v[6];
	}
	/* step 4 */
	for (int k = 0; k < 8; k++)
		g_sha_H1[k] = H[k] + g_sha_S[64][k];
}
#pragma CPROVER check pop
