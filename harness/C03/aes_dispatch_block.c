/* VERIF-GROUP
{
 "property": ["C03", "C02"],
 "entry": "h_disp",
 "enforce": ["crypto_aes_encrypt_block"],
 "replace": ["crypto_aes_encrypt_block_aesni"],
 "annotate": ["crypto/crypto_aes.c"],
 "defines": ["VERIF_HALLOC"],
 "matrix": {"AESBUILD": [0, 1]},
 "timeout": 300,
 "assumptions": ["one instance per CPUSUPPORT subset {} / {X86_AESNI}; hwaccel havocked over its whole enum range",
                 "software path = OpenSSL AES_encrypt under the assumed contract models/openssl_aes.c (= FIPS-197 Cipher)",
                 "AES-NI path replaced by AES_BLOCK_CONTRACT, which harness/C02/aesni_block.c + aesni_block_m128i.c enforce on the real code"]
}
*/
#include "aesd.h"

void
h_disp(void)
{
	IN(int, alias);
	uint8_t * in = malloc(16);
	uint8_t * out = alias ? in : malloc(16);
	AES_KEY * K = malloc(sizeof(AES_KEY));		/* an object big enough for either representation's header */
	__CPROVER_assume(in != NULL && out != NULL && K != NULL);
#if AESBUILD == 1
	IN(int, hw);
	__CPROVER_assume(hw >= HW_SOFTWARE && hw <= HW_UNSET);
	hwaccel = hw;
#endif
	/* ghost point: this key object and this input; value: arbitrary on the AES-NI path (contract of the callee),
	   FIPS-197 Cipher over the stored schedule on the software path */
	__CPROVER_havoc_object(g_aes_Y);
	g_aes_key = (const struct crypto_aes_key *)K;
	for (int i = 0; i < 16; i++)
		g_aes_X[i] = in[i];
	int sw = AESD_SW;
	if (sw && (K->rounds == 10 || K->rounds == 14))
		spec_aes_cipher(g_aes_X, g_aes_Y, (const uint8_t *)K->rd_key, K->rounds);

	crypto_aes_encrypt_block(in, out, (const struct crypto_aes_key *)K);

	__CPROVER_assert(B16_EQ(out, g_aes_Y), "dispatcher returns the selected implementation's E(key, in0), same contract on every branch");
	VCOVER(sw && alias && K->rounds == 14);
	VCOVER(sw && !alias && K->rounds == 10);
#if AESBUILD == 1
	VCOVER(!sw && alias);
	VCOVER(hw == HW_UNSET);
#endif
}
