/* VERIF-GROUP
{
 "property": ["C07", "C14"],
 "entry": "h_nw_writbuf",
 "enforce": ["writbuf"],
 "replace": [],
 "annotate": ["netbuf/netbuf_write.c"],
 "defines": ["VERIF_HALLOC"],
 "models": ["models/net_events.c", "models/net_netapi.c", "models/net_os.c"],
 "cbmc": ["--malloc-may-fail", "--malloc-fail-null", "--unwindset", "poke.0:1,poke_wrapped_for_contract_checking.0:1,netbuf_write_consume_wrapped_for_contract_checking.0:4,netbuf_write_consume.0:4"],
 "timeout": 300,
 "assumptions": ["the value reported is any ssize_t (the C06 contract would narrow it to -1 or datalen)", "failure callback = abstract stub h_failcb", "poke inlined", "--unwindset poke.0:1 only bounds the else-branch loop of STAILQ_REMOVE in poke, which is unreachable (the removed buffer is always the head): the unwinding assertions are discharged, so nothing is cut off (not a bounded stand-in)"]
}
*/
#include <stdlib.h>
#include "verif.h"
#include "netbuf/netbuf_write.c"
#include "c07w.h"

/* Completion of the in-flight write: complete, short or failed. */
void
h_nw_writbuf(void)
{
	NW_MK(W, 1);
	IN(ssize_t, writelen);
	int rc;
	unsigned n0, f0;
	size_t clen;

	__CPROVER_assume(inflight && !wfailed);
	/* the network layer has completed (and forgotten) the request before it calls back */
	g_nwr.active = 0;
	n0 = g_nwr.nstart;
	f0 = g_nwf_calls;
	clen = C->datalen;

	rc = writbuf(W, writelen);

	if (writelen < 0 || (size_t)writelen != clen) {
		__CPROVER_assert(W->failed == 1 && g_nwf_calls == f0 + 1 && g_nwr.nstart == n0 && !g_nwr.active,
		    "after a short or failed write: failed, the failure callback fired once, nothing further is sent");
	} else {
		__CPROVER_assert(W->failed == 0 && g_nwf_calls == f0, "complete write: no failure reported");
		__CPROVER_assert(g_nwr.nstart == n0 + ((qn > 0 && rc == 0) ? 1 : 0), "the next queued buffer is started, if there is one");
	}
	VCOVER(writelen == -1 && rc != 0);
	VCOVER(writelen >= 0 && (size_t)writelen < clen);
	VCOVER(writelen >= 0 && (size_t)writelen == clen && qn == 0 && rc == 0);
	VCOVER(writelen >= 0 && (size_t)writelen == clen && qn == 2 && rc == 0 && W->curr == A && W->buffers.stqh_first == L);
	VCOVER(writelen >= 0 && (size_t)writelen == clen && qn == 1 && rc == -1);
}
