/* VERIF-GROUP
{
 "property": ["C07"],
 "entry": "h_nr_callback_read",
 "enforce": ["callback_read"],
 "replace": [],
 "annotate": ["netbuf/netbuf_read.c"],
 "defines": ["VERIF_HALLOC"],
 "models": ["models/net_events.c", "models/net_netapi.c", "models/net_mem.c"],
 "cbmc": ["--malloc-may-fail", "--malloc-fail-null"],
 "timeout": 300,
 "assumptions": ["the value reported by the network layer obeys the C06 contract of the request netbuf_read_wait started (requires clause)", "user callback = abstract stub h_nbcb"]
}
*/
#include <stdlib.h>
#include "verif.h"
#include "netbuf/netbuf_read.c"
#include "c07r.h"
extern size_t g_mm_k;
extern unsigned g_mm_calls;

/* Completion of the network read started by wait(k): data / end of stream / error. */
void
h_nr_callback_read(void)
{
	NR_MK(R);
	IN(ssize_t, lenread);
	IN(size_t, k);
	void * ucookie;
	int rc;
	unsigned calls0;
	uint8_t b0 = 0;

	/* a wait(k) is pending on a read: not enough data, room for k bytes after bufpos (netbuf_read_wait's postcondition) */
	g_nb_waitlen = k;
	__CPROVER_assume(rdatalen - rbufpos < k && rbufpos + k <= rbuflen);
	R->read_cookie = g_nrd_handle;
	R->callback = h_nbcb;
	R->cookie = ucookie;
	/* C06: -1, 0 or minread <= n <= request buflen */
	__CPROVER_assume(lenread == -1 || lenread == 0 ||
	    (lenread >= 1 && (size_t)lenread <= rbuflen - rdatalen && (size_t)lenread >= rbufpos + k - rdatalen));
	calls0 = g_nbu_calls;
	if (gi < rdatalen - rbufpos)
		b0 = rbuf[rbufpos + gi];

	rc = callback_read(R, lenread);

	__CPROVER_assert(g_nbu_calls == calls0 + 1, "exactly one wait callback");
	__CPROVER_assert((g_nbu_status == 0) == (lenread > 0) && (g_nbu_status == 1) == (lenread == 0) &&
	    (g_nbu_status == -1) == (lenread < 0), "status: 0 data, 1 end of stream, -1 error");
	__CPROVER_assert(g_nbu_status != 0 || R->datalen - R->bufpos >= k, "success exactly when k unconsumed bytes are visible");
	__CPROVER_assert(!(gi < rdatalen - rbufpos) || R->buf[R->bufpos + gi] == b0, "old bytes of the view stay where they were");
	VCOVER(lenread > 0 && R->datalen == rbuflen && rc != 0);
	VCOVER(lenread > 0 && R->datalen - R->bufpos == k && R->datalen < rbuflen);
	VCOVER(lenread == 0 && rdatalen > rbufpos);
	VCOVER(lenread == -1);
}
