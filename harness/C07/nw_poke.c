/* VERIF-GROUP
{
 "property": ["C07", "C14"],
 "entry": "h_nw_poke",
 "enforce": ["poke"],
 "replace": [],
 "annotate": ["netbuf/netbuf_write.c"],
 "defines": ["VERIF_HALLOC"],
 "models": ["models/net_events.c", "models/net_netapi.c", "models/net_os.c"],
 "cbmc": ["--malloc-may-fail", "--malloc-fail-null", "--unwindset", "poke.0:1,poke_wrapped_for_contract_checking.0:1,netbuf_write_consume_wrapped_for_contract_checking.0:4,netbuf_write_consume.0:4"],
 "timeout": 300,
 "assumptions": ["network_write / network_ssl_write = their C06 contracts (models/net_netapi.c), may fail", "buffers <= NW_MAXOBJ (16384) bytes", "--unwindset poke.0:1 only bounds the else-branch loop of STAILQ_REMOVE in poke, which is unreachable (the removed buffer is always the head): the unwinding assertions are discharged, so nothing is cut off (not a bounded stand-in)"]
}
*/
#include <stdlib.h>
#include "verif.h"
#include "netbuf/netbuf_write.c"
#include "c07w.h"

/* Poking the queue of any well-formed idle-reservation writer. */
void
h_nw_poke(void)
{
	NW_MK(W, 1);
	int rc;
	unsigned n0 = g_nwr.nstart;
	struct writebuf * next0 = (A != NULL) ? A->entries.stqe_next : NULL;

	rc = poke(W);

	__CPROVER_assert(g_nwr.nstart == n0 || g_nwr.nstart == n0 + 1, "poke starts at most one write");
	__CPROVER_assert(!(g_nwr.nstart == n0 + 1) || (!inflight && !wfailed && W->curr == A && g_nwr.buf == A->buf &&
	    g_nwr.buflen == A->datalen && g_nwr.minlen == A->datalen), "the write is of the whole head buffer, only when idle and not failed");
	__CPROVER_assert(!(g_nwr.nstart == n0 + 1) || W->buffers.stqh_first == next0, "the in-flight buffer is detached from the queue");
	VCOVER(rc == 0 && g_nwr.nstart == n0 + 1 && qn == 1 && STAILQ_EMPTY(&W->buffers));
	VCOVER(rc == 0 && g_nwr.nstart == n0 + 1 && qn == 3 && W->buffers.stqh_first == M && wssl);
	VCOVER(rc == 0 && g_nwr.nstart == n0 + 1 && qn == 2 && W->buffers.stqh_first == L && !wssl);
	VCOVER(rc == -1 && qn == 2);
	VCOVER(rc == 0 && inflight && qn == 2 && g_nwr.nstart == n0);
	VCOVER(rc == 0 && wfailed && !inflight && qn == 1 && g_nwr.nstart == n0);
	VCOVER(rc == 0 && qn == 0);
}
