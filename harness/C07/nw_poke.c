/* VERIF-GROUP
{
 "property": ["C07", "C14"],
 "entry": "h_nw_poke",
 "enforce": ["poke"],
 "replace": [],
 "annotate": ["netbuf/netbuf_write.c"],
 "defines": ["VERIF_HALLOC"],
 "models": ["models/net_events.c", "models/net_netapi.c", "models/net_os.c"],
 "cbmc": ["--malloc-may-fail", "--malloc-fail-null"],
 "unwind": 24,
 "timeout": 300,
 "assumptions": ["network_write / network_ssl_write = their C06 contracts (models/net_netapi.c), may fail", "buffers <= NW_MAXOBJ (16384) bytes", "--unwind 24 only bounds the constant-size loops of the DFCC library and the else-branch loop of STAILQ_REMOVE, which is unreachable here (the removed buffer is always the head): the unwinding assertions are discharged, so nothing is cut off (not a bounded stand-in)"]
}
*/
#include <stdlib.h>
#include "verif.h"
#include "netbuf/netbuf_write.c"
#include "c07w.h"

/* Poking the queue of any well-formed idle-reservation writer. */
void
h_nw_poke(void)
{
	NW_MK(W, 1);
	int rc;
	unsigned n0 = g_nwr.nstart;
	struct writebuf * next0 = (A != NULL) ? A->entries.stqe_next : NULL;

	rc = poke(W);

	__CPROVER_assert(g_nwr.nstart == n0 || g_nwr.nstart == n0 + 1, "poke starts at most one write");
	__CPROVER_assert(!(g_nwr.nstart == n0 + 1) || (!inflight && !wfailed && W->curr == A && g_nwr.buf == A->buf &&
	    g_nwr.buflen == A->datalen && g_nwr.minlen == A->datalen), "the write is of the whole head buffer, only when idle and not failed");
	__CPROVER_assert(!(g_nwr.nstart == n0 + 1) || W->buffers.stqh_first == next0, "the in-flight buffer is detached from the queue");
	VCOVER(rc == 0 && g_nwr.nstart == n0 + 1 && qn == 1 && STAILQ_EMPTY(&W->buffers));
	VCOVER(rc == 0 && g_nwr.nstart == n0 + 1 && qn == 3 && W->buffers.stqh_first == M && wssl);
	VCOVER(rc == 0 && g_nwr.nstart == n0 + 1 && qn == 2 && W->buffers.stqh_first == L && !wssl);
	VCOVER(rc == -1 && qn == 2);
	VCOVER(rc == 0 && inflight && qn == 2 && g_nwr.nstart == n0);
	VCOVER(rc == 0 && wfailed && !inflight && qn == 1 && g_nwr.nstart == n0);
	VCOVER(rc == 0 && qn == 0);
}
