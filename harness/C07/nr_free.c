/* VERIF-GROUP
{
 "property": ["C07"],
 "entry": "h_nr_free",
 "enforce": ["netbuf_read_free"],
 "replace": [],
 "annotate": ["netbuf/netbuf_read.c"],
 "defines": ["VERIF_HALLOC"],
 "models": ["models/net_events.c", "models/net_netapi.c", "models/net_mem.c"],
 "cbmc": ["--malloc-may-fail", "--malloc-fail-null", "--memory-leak-check"],
 "timeout": 300,
 "assumptions": ["leak freedom checked with CBMC --memory-leak-check"]
}
*/
#include <stdlib.h>
#include "verif.h"
#include "netbuf/netbuf_read.c"
#include "c07r.h"
extern size_t g_mm_k;
extern unsigned g_mm_calls;

/* Freeing an idle reader (or NULL). */
void
h_nr_free(void)
{
	IN(int, isnull);

	if (isnull) {
		netbuf_read_free(NULL);
	} else {
		NR_MK(R);
		netbuf_read_free(R);
	}
	VCOVER(isnull);
	VCOVER(!isnull);
}
