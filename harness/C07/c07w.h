/*
 * harness/C07/c07w.h -- shared pieces of the netbuf_write harnesses (included AFTER netbuf/netbuf_write.c):
 * the abstract failure callback and the construction of an arbitrary well-formed writer whose queue has
 * 0, 1, 2 or 3 buffers (head A, middle M, last L) and optionally a write in flight (detached buffer C).
 * The per-step functions never look at M, so for them "3" stands for "3 or more".
 */
#ifndef C07W_H_
#define C07W_H_
#include <stdlib.h>
#include "net_ghost.h"

int nondet_int(void);
unsigned nondet_unsigned(void);
size_t nondet_size_t(void);

size_t g_nw_idx;
unsigned g_nwf_calls;
void * g_nwf_cookie;
int g_nwf_rc, g_nwf_failed_seen;
void * g_nwf_wc_seen;
unsigned g_nwf_nstart_seen;
struct netbuf_write * g_nw_W;
static char h_ssl_ctx[1];
static char h_fail_cookie[1];

/* The application's failure callback: records what it can see of the writer when it runs. */
int
h_failcb(void * cookie)
{

	g_nwf_calls++;
	g_nwf_cookie = cookie;
	g_nwf_failed_seen = g_nw_W->failed;
	g_nwf_wc_seen = g_nw_W->write_cookie;
	g_nwf_nstart_seen = g_nwr.nstart;
	g_nwf_rc = nondet_int();
	return (g_nwf_rc);
}

/* A buffer with at least `mindata` bytes of data. */
static struct writebuf *
h_mkwb(size_t mindata)
{
	struct writebuf * WB = malloc(sizeof(struct writebuf));
	size_t buflen = nondet_size_t();
	size_t datalen = nondet_size_t();

	__CPROVER_assume(WB != NULL);
	__CPROVER_assume(buflen >= 1 && buflen <= NW_MAXOBJ && datalen <= buflen && datalen >= mindata);
	WB->buf = malloc(buflen);
	__CPROVER_assume(WB->buf != NULL);
	WB->buflen = buflen;
	WB->datalen = datalen;
	WB->entries.stqe_next = NULL;
	return (WB);
}

/* NW_MK(W, lastmin): writer W with queue A [M] [L]; every queued buffer non-empty except that the last one holds
   at least `lastmin` bytes (0 while a reservation is open). */
#define NW_MK(W, lastmin) \
	IN(int, qn); IN(int, inflight); IN(int, wssl); IN(int, wfailed); IN(int, ws); \
	__CPROVER_assume(qn >= 0 && qn <= 3); \
	struct netbuf_write * W = malloc(sizeof(struct netbuf_write)); \
	__CPROVER_assume(W != NULL); \
	struct writebuf * A = NULL; struct writebuf * M = NULL; struct writebuf * L = NULL; struct writebuf * C = NULL; \
	W->s = ws; W->ssl = wssl ? (struct network_ssl_ctx *)h_ssl_ctx : NULL; \
	W->reserved = 0; W->failed = wfailed ? 1 : 0; W->fail_callback = h_failcb; W->fail_cookie = h_fail_cookie; \
	STAILQ_INIT(&W->buffers); \
	if (qn == 1) { A = h_mkwb(lastmin); L = A; } \
	if (qn >= 2) { A = h_mkwb(1); L = h_mkwb(lastmin); } \
	if (qn == 3) { M = h_mkwb(1); } \
	if (qn >= 1) { W->buffers.stqh_first = A; W->buffers.stqh_last = &L->entries.stqe_next; } \
	if (qn == 2) A->entries.stqe_next = L; \
	if (qn == 3) { A->entries.stqe_next = M; M->entries.stqe_next = L; } \
	g_nwr.active = 0; g_nwr.nstart = nondet_unsigned(); g_nwr.nfail = nondet_unsigned(); g_nwr.ncancel = nondet_unsigned(); \
	W->write_cookie = NULL; W->curr = NULL; \
	if (inflight) { C = h_mkwb(1); W->curr = C; W->write_cookie = g_nwr_handle; g_nwr.active = 1; g_nwr.ssl = W->ssl; \
		g_nwr.buf = C->buf; g_nwr.buflen = C->datalen; g_nwr.minlen = C->datalen; g_nwr.cookie = W; g_nwr.callback = writbuf; g_nwr.fd = ws; } \
	netbuf_write_ssl_func = h_ssl_write; netbuf_write_ssl_cancel_func = h_ssl_write_cancel; \
	g_nw_W = W; g_nwf_calls = nondet_unsigned(); \
	IN(size_t, gi); g_nw_idx = gi
#endif /* !C07W_H_ */
