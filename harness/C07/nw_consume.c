/* VERIF-GROUP
{
 "property": ["C07", "C14"],
 "entry": "h_nw_consume",
 "enforce": ["netbuf_write_consume"],
 "replace": [],
 "annotate": ["netbuf/netbuf_write.c"],
 "defines": ["VERIF_HALLOC"],
 "models": ["models/net_events.c", "models/net_netapi.c", "models/net_os.c"],
 "cbmc": ["--malloc-may-fail", "--malloc-fail-null", "--unwindset", "poke.0:1,poke_wrapped_for_contract_checking.0:1,netbuf_write_consume_wrapped_for_contract_checking.0:4,netbuf_write_consume.0:4"],
 "timeout": 300,
 "assumptions": ["poke inlined; network_write per models/net_netapi.c (may fail)", "case split: this group covers len > 0 or a non-empty last buffer; the zero-length case is nw_consume_zero", "--unwindset poke.0:1 only bounds the else-branch loop of STAILQ_REMOVE in poke, which is unreachable (the removed buffer is always the head): the unwinding assertions are discharged, so nothing is cut off (not a bounded stand-in)"]
}
*/
#include <stdlib.h>
#include "verif.h"
#include "netbuf/netbuf_write.c"
#include "c07w.h"

/* Consuming a reservation of any well-formed writer. */
void
h_nw_consume(void)
{
	NW_MK(W, 0);
	IN(size_t, len);
	int rc;
	unsigned n0 = g_nwr.nstart;
	size_t d0;

	__CPROVER_assume(qn >= 1);
	W->reserved = 1;
	__CPROVER_assume(L->buflen - L->datalen >= len);
	__CPROVER_assume(len > 0 || L->datalen > 0);
	d0 = L->datalen;

	rc = netbuf_write_consume(W, len);

	__CPROVER_assert(W->reserved == 0, "reservation consumed");
	__CPROVER_assert(L->datalen == d0 + (wfailed ? 0 : len), "len bytes appended to the last queued buffer (none after a failure)");
	__CPROVER_assert(g_nwr.nstart == n0 || (g_nwr.nstart == n0 + 1 && !inflight && !wfailed && W->curr == A &&
	    g_nwr.buf == A->buf && g_nwr.buflen == A->datalen && g_nwr.minlen == A->datalen),
	    "at most one write is started, of the whole head buffer, only when none is in flight");

	VCOVER(rc == 0 && qn == 1 && !inflight && !wfailed && W->curr == A && STAILQ_EMPTY(&W->buffers) && len > 0);
	VCOVER(rc == 0 && qn == 2 && inflight && len > 0);
	VCOVER(rc == -1 && qn == 3);
	VCOVER(rc == 0 && wfailed && len > 0 && L->datalen == d0);
	VCOVER(rc == 0 && len == 0 && d0 > 0);
}
