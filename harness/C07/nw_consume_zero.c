/* VERIF-GROUP
{
 "property": ["C07"],
 "entry": "h_nw_consume_zero",
 "enforce": ["netbuf_write_consume"],
 "replace": [],
 "annotate": ["netbuf/netbuf_write.c"],
 "defines": ["VERIF_HALLOC", "NW_ZERO_CASE"],
 "models": ["models/net_events.c", "models/net_netapi.c", "models/net_os.c"],
 "cbmc": ["--malloc-may-fail", "--malloc-fail-null", "--unwindset", "poke.0:1,poke_wrapped_for_contract_checking.0:1,netbuf_write_consume_wrapped_for_contract_checking.0:4,netbuf_write_consume.0:4"], "bounded": true, "bound": "queue of <= 3 buffers (zero-length case only)",
 "loop_contracts": false,
 "timeout": 300,
 "assumptions": ["the zero-length case of nw_consume: consume(0) into an empty buffer; queue <= 3 buffers", "this group reports the zero-length-write defect on the unmodified tree: poke hands an empty buffer to network_write, whose precondition (in-code assert) is buflen != 0", "--unwindset poke.0:1 only bounds the else-branch loop of STAILQ_REMOVE in poke, which is unreachable (the removed buffer is always the head): the unwinding assertions are discharged, so nothing is cut off (not a bounded stand-in)"]
}
*/
#include <stdlib.h>
#include "verif.h"
#include "netbuf/netbuf_write.c"
#include "c07w.h"

/* consume(0) into an empty last buffer (what reserve(0) on a writer without a queued buffer with room leads to). */
void
h_nw_consume_zero(void)
{
	NW_MK(W, 0);
	int rc;
	unsigned n0 = g_nwr.nstart;

	__CPROVER_assume(qn >= 1);
	W->reserved = 1;
	__CPROVER_assume(L->datalen == 0);

	rc = netbuf_write_consume(W, 0);

	__CPROVER_assert(W->reserved == 0, "reservation consumed");
	__CPROVER_assert(g_nwr.nstart == n0 || (g_nwr.nstart == n0 + 1 && !inflight && g_nwr.buflen >= 1),
	    "at most one write is started, never an empty one");
	VCOVER(rc == 0 && qn == 1 && !inflight && !wfailed);
	VCOVER(rc == 0 && qn == 3 && inflight);
	VCOVER(rc == 0 && qn == 2 && !inflight && !wfailed && g_nwr.nstart == n0 + 1);
}
