/* VERIF-GROUP
{
 "property": ["C07", "C14"],
 "entry": "h_nr_wait",
 "enforce": ["netbuf_read_wait"],
 "replace": [],
 "annotate": ["netbuf/netbuf_read.c"],
 "defines": ["VERIF_HALLOC"],
 "models": ["models/net_events.c", "models/net_netapi.c", "models/net_mem.c"],
 "cbmc": ["--malloc-may-fail", "--malloc-fail-null"],
 "timeout": 300,
 "assumptions": [
  "network_read / network_ssl_read = their C06 contracts (models/net_netapi.c); events_immediate_register per models/net_events.c",
  "memmove = models/net_mem.c: sound over-approximation (arbitrary bytes) exact at the ghost offset g_mm_k = g_nb_idx; memcpy/malloc/free = CBMC built-ins",
  "object-size parameter: reader buffer <= NB_MAXOBJ (2^20) bytes, wait length <= 2*NB_MAXOBJ; the real initial size 4096 only enters through netbuf_read_init2"
 ]
}
*/
#include <stdlib.h>
#include "verif.h"
#include "netbuf/netbuf_read.c"
#include "c07r.h"
extern size_t g_mm_k;
extern unsigned g_mm_calls;

/* wait(k) on any idle well-formed reader; every allocation / registration / request may fail. */
void
h_nr_wait(void)
{
	NR_MK(R);
	IN(size_t, len);
	void * ucookie;
	int rc;
	size_t view0 = rdatalen - rbufpos;
	uint8_t b0 = 0;

	__CPROVER_assume(len <= 2 * NB_MAXOBJ);
	g_mm_k = gi;
	g_mm_calls = 0;
	if (gi < view0)
		b0 = rbuf[rbufpos + gi];

	rc = netbuf_read_wait(R, len, h_nbcb, ucookie);

	__CPROVER_assert(R->datalen - R->bufpos == view0, "wait never changes the length of the view");
	__CPROVER_assert(!(gi < view0) || R->buf[R->bufpos + gi] == b0, "wait never changes the bytes of the view");
	__CPROVER_assert(R->read_cookie == NULL || R->immediate_cookie == NULL, "at most one of read_cookie / immediate_cookie");
	__CPROVER_assert(rc == 0 || (R->read_cookie == NULL && R->immediate_cookie == NULL && !g_nrd.active && !g_imm.active),
	    "failed wait leaves nothing pending");

	VCOVER(rc == 0 && view0 >= len && len > 0);
	VCOVER(rc == -1 && view0 >= len);
	VCOVER(rc == 0 && view0 < len && R->buf == rbuf && R->bufpos == rbufpos && rbufpos > 0);
	VCOVER(rc == 0 && view0 < len && R->buf == rbuf && R->bufpos == 0 && rbufpos > 0 && gi < view0 && view0 > 1 && g_mm_calls == 1);
	VCOVER(rc == 0 && view0 < len && R->buf != rbuf && R->buflen == len && gi < view0 && rbufpos > 0);
	VCOVER(rc == 0 && view0 < len && R->buf != rbuf && R->buflen == 2 * rbuflen && gi < view0);
	VCOVER(rc == -1 && view0 < len && R->buf != rbuf);
	VCOVER(rc == -1 && view0 < len && R->buf == rbuf && rbuflen < len);
	VCOVER(rc == 0 && view0 < len && rssl);
	VCOVER(rc == 0 && view0 < len && g_nrd.minlen == g_nrd.buflen);
	VCOVER(rc == 0 && len == 0);
}
