/* VERIF-GROUP
{
 "property": ["C07", "C14"],
 "entry": "h_nr_resize",
 "enforce": ["netbuf_read_resize_buffer"],
 "replace": [],
 "annotate": ["netbuf/netbuf_read.c"],
 "defines": ["VERIF_HALLOC"],
 "models": ["models/net_events.c", "models/net_netapi.c", "models/net_mem.c"],
 "cbmc": ["--malloc-may-fail", "--malloc-fail-null"],
 "timeout": 300,
 "assumptions": ["reader buffer <= NB_MAXOBJ (2^20) bytes, requested length <= 2*NB_MAXOBJ"]
}
*/
#include <stdlib.h>
#include "verif.h"
#include "netbuf/netbuf_read.c"
#include "c07r.h"
extern size_t g_mm_k;
extern unsigned g_mm_calls;

/* Growing the buffer: view preserved at the start of the new buffer; on allocation failure nothing changes. */
void
h_nr_resize(void)
{
	NR_MK(R);
	IN(size_t, len);
	int rc;
	size_t view0 = rdatalen - rbufpos;
	uint8_t b0 = 0;

	__CPROVER_assume(len <= 2 * NB_MAXOBJ);
	if (gi < view0)
		b0 = rbuf[rbufpos + gi];
	rc = netbuf_read_resize_buffer(R, len);
	__CPROVER_assert(!(gi < view0) || R->buf[R->bufpos + gi] == b0, "resize keeps the view");
	__CPROVER_assert(rc == 0 || (R->buf == rbuf && R->buflen == rbuflen && R->bufpos == rbufpos && R->datalen == rdatalen),
	    "failed resize changes nothing");
	VCOVER(rc == 0 && R->buflen == len && len > 2 * rbuflen && gi < view0 && rbufpos > 0);
	VCOVER(rc == 0 && R->buflen == 2 * rbuflen && len < rbuflen && gi < view0);
	VCOVER(rc == -1);
}
