/* VERIF-GROUP
{
 "property": ["C07", "C14"],
 "entry": "h_nw_init2",
 "enforce": ["netbuf_write_init2"],
 "replace": [],
 "annotate": ["netbuf/netbuf_write.c"],
 "defines": ["VERIF_HALLOC"],
 "models": ["models/net_events.c", "models/net_netapi.c", "models/net_os.c"],
 "cbmc": ["--malloc-may-fail", "--malloc-fail-null", "--memory-leak-check"],
 "timeout": 300,
 "assumptions": ["setsockopt per models/net_os.c (any result, ignored by the code)", "leak freedom with CBMC --memory-leak-check after free()"]
}
*/
#include <stdlib.h>
#include "verif.h"
#include "netbuf/netbuf_write.c"
#include "c07w.h"

static int
h_cb(void * c)
{

	(void)c;
	return (0);
}

/* Creating a writer; the allocation may fail. */
void
h_nw_init2(void)
{
	IN(int, s);
	IN(int, usessl);
	IN(int, usecb);
	struct netbuf_write * W;
	unsigned so0 = g_setsockopt_calls;

	__CPROVER_assume(usessl || s >= 0);
	W = netbuf_write_init2(s, usessl ? (struct network_ssl_ctx *)h_ssl_ctx : NULL, usecb ? h_cb : NULL, h_fail_cookie);
	if (W != NULL) {
		__CPROVER_assert(W->failed == 0 && W->reserved == 0 && W->write_cookie == NULL && W->curr == NULL &&
		    STAILQ_EMPTY(&W->buffers), "new writer: idle, empty, not failed");
		__CPROVER_assert(W->fail_callback != NULL, "a failure callback is always callable");
	}
	VCOVER(W != NULL && usessl && g_setsockopt_calls == so0);
	VCOVER(W != NULL && !usessl && !usecb && g_setsockopt_calls == so0 + 1);
	VCOVER(W == NULL);
	free(W);
}
