/* VERIF-GROUP
{
 "property": ["C07", "C14"],
 "entry": "h_nw_free",
 "enforce": ["netbuf_write_free"],
 "replace": [],
 "annotate": ["netbuf/netbuf_write.c"],
 "defines": ["VERIF_HALLOC"],
 "models": ["models/net_events.c", "models/net_netapi.c", "models/net_os.c"],
 "cbmc": ["--malloc-may-fail", "--malloc-fail-null", "--memory-leak-check", "--unwindset", "netbuf_write_free_wrapped_for_contract_checking.0:5"],
 "bounded": true, "bound": "queue of <= 3 buffers (the free loop walks the queue)",
 "loop_contracts": false,
 "timeout": 300,
 "assumptions": [
  "network_write_cancel / network_ssl_write_cancel per models/net_netapi.c (their requires are checked)",
  "leak freedom with CBMC --memory-leak-check: every buffer of the queue, the in-flight buffer and the writer are freed",
  "loop_contracts off: DFCC (6.11) does not register locals that are assigned inside a loop without contract (WB) and would report them unassignable"
 ]
}
*/
#include <stdlib.h>
#include "verif.h"
#include "netbuf/netbuf_write.c"
#include "c07w.h"

/* Freeing any writer (idle, with queued buffers, with a write in flight, failed), or NULL. */
void
h_nw_free(void)
{
	IN(int, isnull);
	unsigned f0;

	if (isnull) {
		netbuf_write_free(NULL);
		VCOVER(isnull);
	} else {
		NW_MK(W, 1);
		unsigned c0 = g_nwr.ncancel;
		f0 = g_nwf_calls;
		netbuf_write_free(W);
		__CPROVER_assert(g_nwf_calls == f0, "freeing never invokes the failure callback");
		__CPROVER_assert(!g_nwr.active && g_nwr.ncancel == c0 + (inflight ? 1 : 0), "an in-flight write is cancelled");
		VCOVER(qn == 3 && inflight && wssl);
		VCOVER(qn == 0 && !inflight);
		VCOVER(qn == 2 && inflight && !wssl);
	}
}
