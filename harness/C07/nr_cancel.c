/* VERIF-GROUP
{
 "property": ["C07", "C14"],
 "entry": "h_nr_cancel",
 "enforce": ["netbuf_read_wait_cancel"],
 "replace": [],
 "annotate": ["netbuf/netbuf_read.c"],
 "defines": ["VERIF_HALLOC"],
 "models": ["models/net_events.c", "models/net_netapi.c", "models/net_mem.c"],
 "cbmc": ["--malloc-may-fail", "--malloc-fail-null"],
 "timeout": 300,
 "assumptions": ["network_read_cancel / network_ssl_read_cancel / events_immediate_cancel per models (their requires are checked)"]
}
*/
#include <stdlib.h>
#include "verif.h"
#include "netbuf/netbuf_read.c"
#include "c07r.h"
extern size_t g_mm_k;
extern unsigned g_mm_calls;

/* Cancelling a wait in any state (idle, waiting on the network, immediate pending). */
void
h_nr_cancel(void)
{
	NR_MK(R);
	IN(int, st);
	unsigned calls0 = g_nbu_calls;
	size_t view0 = rdatalen - rbufpos;
	uint8_t b0 = 0;

	if (st == 1) {
		R->read_cookie = g_nrd_handle;
		g_nrd.active = 1;
		g_nrd.ssl = R->ssl;
	} else if (st == 2) {
		R->immediate_cookie = g_imm_handle;
		g_imm.active = 1;
	}
	if (gi < view0)
		b0 = rbuf[rbufpos + gi];
	netbuf_read_wait_cancel(R);
	__CPROVER_assert(g_nbu_calls == calls0, "a cancelled wait never calls back");
	__CPROVER_assert(R->read_cookie == NULL && R->immediate_cookie == NULL && !g_nrd.active && !g_imm.active, "nothing pending after cancel");
	__CPROVER_assert(R->datalen - R->bufpos == view0 && (!(gi < view0) || R->buf[R->bufpos + gi] == b0), "cancel keeps the view");
	VCOVER(st == 1 && rssl);
	VCOVER(st == 1 && !rssl);
	VCOVER(st == 2);
	VCOVER(st == 0);
}
