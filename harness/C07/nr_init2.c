/* VERIF-GROUP
{
 "property": ["C07", "C14"],
 "entry": "h_nr_init2",
 "enforce": ["netbuf_read_init2"],
 "replace": [],
 "annotate": ["netbuf/netbuf_read.c"],
 "defines": ["VERIF_HALLOC"],
 "models": ["models/net_events.c", "models/net_netapi.c", "models/net_mem.c"],
 "cbmc": ["--malloc-may-fail", "--malloc-fail-null", "--memory-leak-check"],
 "timeout": 300,
 "assumptions": ["malloc may fail at each of the two calls; leak freedom checked with CBMC --memory-leak-check after the normal netbuf_read_free"]
}
*/
#include <stdlib.h>
#include "verif.h"
#include "netbuf/netbuf_read.c"
#include "c07r.h"
extern size_t g_mm_k;
extern unsigned g_mm_calls;

/* Creating a reader: both allocations may fail; whatever was allocated is released again by netbuf_read_free. */
void
h_nr_init2(void)
{
	IN(int, s);
	IN(int, usessl);
	struct netbuf_read * R;

	R = netbuf_read_init2(s, usessl ? (struct network_ssl_ctx *)h_ssl_ctx : NULL);
	if (R != NULL) {
		__CPROVER_assert(R->bufpos == 0 && R->datalen == 0 && R->buflen == 4096, "new reader: empty view, 4096-byte buffer");
		__CPROVER_assert(R->read_cookie == NULL && R->immediate_cookie == NULL, "new reader is idle");
		R->buf[4095] = 0;
	}
	VCOVER(R != NULL && usessl);
	VCOVER(R == NULL);
	netbuf_read_free(R);
}
