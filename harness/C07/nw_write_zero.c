/* VERIF-GROUP
{
 "property": ["C07"],
 "entry": "h_nw_write_zero",
 "enforce": ["netbuf_write_write"],
 "replace": [],
 "annotate": ["netbuf/netbuf_write.c"],
 "defines": ["VERIF_HALLOC", "NW_ZERO_CASE"],
 "models": ["models/net_events.c", "models/net_netapi.c", "models/net_os.c"],
 "cbmc": ["--malloc-may-fail", "--malloc-fail-null"],
 "unwind": 24,
 "timeout": 300,
 "assumptions": ["the zero-length case of nw_write: netbuf_write_write(W, buf, 0) with an empty queue", "this group reports the zero-length-write defect on the unmodified tree (MODEL-REQUIRES network_write: buflen != 0)", "--unwind 24 only bounds the constant-size loops of the DFCC library and the else-branch loop of STAILQ_REMOVE, which is unreachable here (the removed buffer is always the head): the unwinding assertions are discharged, so nothing is cut off (not a bounded stand-in)"]
}
*/
#include <stdlib.h>
#include "verif.h"
#include "netbuf/netbuf_write.c"
#include "c07w.h"

/* Writing buflen bytes through any well-formed writer. */
void
h_nw_write_zero(void)
{
	NW_MK(W, 1);
	IN(size_t, buflen);
	int rc;
	unsigned n0 = g_nwr.nstart;
	struct writebuf * first0 = W->buffers.stqh_first;
	struct writebuf ** last0 = W->buffers.stqh_last;
	size_t room0 = (L != NULL) ? L->buflen - L->datalen : 0;
	size_t d0 = (L != NULL) ? L->datalen : 0;
	uint8_t b = 0;

	__CPROVER_assume(buflen <= NW_MAXOBJ);
	__CPROVER_assume(buflen == 0 && qn == 0);
	IN_BYTES(src, buflen, NW_MAXOBJ);
	if (gi < buflen)
		b = src[gi];

	rc = netbuf_write_write(W, src, buflen);

	if (wfailed) {
		__CPROVER_assert(rc == 0 && W->buffers.stqh_first == first0 && W->buffers.stqh_last == last0 && g_nwr.nstart == n0 &&
		    (L == NULL || L->datalen == d0), "after a failure writes are discarded silently");
	} else if (rc == 0) {
		/* the tail of the stream: the last queued buffer, or the in-flight one if the queue was empty and idle */
		struct writebuf * T = STAILQ_EMPTY(&W->buffers) ? W->curr : STAILQ_LAST(&W->buffers, writebuf, entries);
		__CPROVER_assert(T != NULL && T->datalen >= buflen, "the data is at the tail of the stream");
		__CPROVER_assert(!(qn > 0 && room0 >= buflen) || (T == L && T->datalen == d0 + buflen), "coalesced behind the earlier data of the last buffer");
		__CPROVER_assert((qn > 0 && room0 >= buflen) || (T != L && T->datalen == buflen && (L == NULL || L->datalen == d0)),
		    "or alone in a fresh buffer queued behind everything else");
		__CPROVER_assert(!(gi < buflen) || T->buf[T->datalen - buflen + gi] == b, "the bytes are the caller's, in order");
		__CPROVER_assert(g_nwr.nstart == n0 || (g_nwr.nstart == n0 + 1 && !inflight), "at most one write in flight");
		__CPROVER_assert(inflight || W->curr == (qn > 0 ? A : T), "an idle writer starts sending the oldest buffer");
	}

	VCOVER(rc == 0 && !wfailed && !inflight);
	VCOVER(rc == 0 && !wfailed && inflight);
	VCOVER(rc == 0 && wfailed);
}
