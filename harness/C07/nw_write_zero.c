/* VERIF-GROUP
{
 "property": ["C07"],
 "entry": "h_nw_write_zero",
 "enforce": ["netbuf_write_write"],
 "replace": [],
 "annotate": ["netbuf/netbuf_write.c"],
 "defines": ["VERIF_HALLOC", "NW_ZERO_CASE"],
 "models": ["models/net_events.c", "models/net_netapi.c", "models/net_os.c"],
 "cbmc": ["--malloc-may-fail", "--malloc-fail-null", "--unwindset", "poke.0:1,poke_wrapped_for_contract_checking.0:1,netbuf_write_consume_wrapped_for_contract_checking.0:4,netbuf_write_consume.0:4"],
 "timeout": 300,
 "assumptions": ["the zero-length case of nw_write: netbuf_write_write(W, buf, 0) with an empty queue", "this group reports the zero-length-write defect on the unmodified tree (MODEL-REQUIRES network_write: buflen != 0)", "--unwindset poke.0:1 only bounds the else-branch loop of STAILQ_REMOVE in poke, which is unreachable (the removed buffer is always the head): the unwinding assertions are discharged, so nothing is cut off (not a bounded stand-in)"]
}
*/
#include <stdlib.h>
#include "verif.h"
#include "netbuf/netbuf_write.c"
#include "c07w.h"

/* netbuf_write_write(W, buf, 0) on a writer with an empty queue (idle or with a write in flight). */
void
h_nw_write_zero(void)
{
	NW_MK(W, 1);
	int rc;
	unsigned n0 = g_nwr.nstart;
	uint8_t src[1];

	__CPROVER_assume(qn == 0);

	rc = netbuf_write_write(W, src, 0);

	__CPROVER_assert(g_nwr.nstart == n0, "a zero-length write sends nothing");
	__CPROVER_assert(rc == -1 || W->reserved == 0, "nothing stays reserved");
	VCOVER(rc == 0 && !wfailed && !inflight);
	VCOVER(rc == 0 && !wfailed && inflight);
	VCOVER(rc == 0 && wfailed);
}
