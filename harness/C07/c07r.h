/*
 * harness/C07/c07r.h -- shared pieces of the netbuf_read harnesses (included AFTER netbuf/netbuf_read.c):
 * the abstract user callback of netbuf_read_wait and the construction of an arbitrary well-formed reader.
 */
#ifndef C07R_H_
#define C07R_H_
#include <stdlib.h>
#include "net_ghost.h"

int nondet_int(void);
unsigned nondet_unsigned(void);
size_t nondet_size_t(void);

size_t g_nb_idx, g_nb_waitlen;
unsigned g_nbu_calls;
void * g_nbu_cookie;
int g_nbu_status, g_nbu_rc;
void * g_nbu_rc_seen;
void * g_nbu_imm_seen;
size_t g_nbu_bufpos_seen, g_nbu_datalen_seen;
struct netbuf_read * g_nb_R;		/* the reader the callback looks at */

/* The application's wait callback: records what it is told and what it can see of the reader at that moment. */
int
h_nbcb(void * cookie, int status)
{

	g_nbu_calls++;
	g_nbu_cookie = cookie;
	g_nbu_status = status;
	g_nbu_rc_seen = g_nb_R->read_cookie;
	g_nbu_imm_seen = g_nb_R->immediate_cookie;
	g_nbu_bufpos_seen = g_nb_R->bufpos;
	g_nbu_datalen_seen = g_nb_R->datalen;
	/* the application may wait again from inside the callback: the reader must be idle */
	__CPROVER_assert(g_nb_R->read_cookie == NULL && g_nb_R->immediate_cookie == NULL,
	    "wait callback runs with the reader idle (a new wait may be started)");
	g_nbu_rc = nondet_int();
	return (g_nbu_rc);
}

/* Any well-formed reader with a buffer of at most NB_MAXOBJ bytes: R, its buffer `rbuf`, sizes in rbuflen etc. */
#define NR_MK(R) \
	IN(size_t, rbuflen); IN(size_t, rbufpos); IN(size_t, rdatalen); IN(int, rs); IN(int, rssl); \
	__CPROVER_assume(rbuflen >= 1 && rbuflen <= NB_MAXOBJ && rbufpos <= rdatalen && rdatalen <= rbuflen); \
	IN_BYTES(rbuf, rbuflen, NB_MAXOBJ); \
	struct netbuf_read * R = malloc(sizeof(struct netbuf_read)); \
	__CPROVER_assume(R != NULL); \
	R->s = rs; R->ssl = rssl ? (struct network_ssl_ctx *)h_ssl_ctx : NULL; \
	R->buf = rbuf; R->buflen = rbuflen; R->bufpos = rbufpos; R->datalen = rdatalen; \
	R->read_cookie = NULL; R->immediate_cookie = NULL; \
	netbuf_read_ssl_func = h_ssl_read; netbuf_read_ssl_cancel_func = h_ssl_read_cancel; \
	g_nb_R = R; \
	IN(size_t, gi); g_nb_idx = gi; \
	g_nrd.active = 0; g_nrd.nstart = nondet_unsigned(); g_nrd.nfail = nondet_unsigned(); g_nrd.ncancel = nondet_unsigned(); \
	g_imm.active = 0; g_imm.nreg = nondet_unsigned(); g_imm.ncancel = nondet_unsigned(); \
	g_nbu_calls = nondet_unsigned()
static char h_ssl_ctx[1];
#endif /* !C07R_H_ */
