/*
 * Native reproduction (not a proof harness: no VERIF-GROUP header, ignored by ./check) of DESIGN 4-F6, reported by
 * the group C07/nw_reserve_fail (property C14): netbuf_write_reserve sets reserved = 1 before allocating and does not
 * clear it when the allocation fails, so the next call on the same writer aborts on assert(W->reserved == 0).
 * Build as harness/C07/repro_zero_native.c, plus -Wl,--wrap=malloc.
 * Observed: write #1 -> -1; write #2: "netbuf_write_reserve: Assertion `W->reserved == 0' failed", SIGABRT.
 */
#include <sys/socket.h>
#include <stdio.h>
#include <stdint.h>
#include <stdlib.h>
#include "netbuf.h"
int failnext = 0;
void * __real_malloc(size_t);
void * __wrap_malloc(size_t n) { if (failnext) { failnext = 0; return NULL; } return __real_malloc(n); }
int main(void) {
	int sv[2];
	struct netbuf_write * W;
	uint8_t b[8] = {0};
	if (socketpair(AF_UNIX, SOCK_STREAM, 0, sv)) return 2;
	W = netbuf_write_init(sv[0], NULL, NULL);
	failnext = 1;
	fprintf(stderr, "write #1 (allocation fails) -> %d\n", netbuf_write_write(W, b, 8));
	fprintf(stderr, "write #2 (memory available again)\n");
	fprintf(stderr, " -> %d\n", netbuf_write_write(W, b, 8));
	return 0;
}
