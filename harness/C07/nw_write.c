/* VERIF-GROUP
{
 "property": ["C07", "C14"],
 "entry": "h_nw_write",
 "enforce": ["netbuf_write_write"],
 "replace": [],
 "annotate": ["netbuf/netbuf_write.c"],
 "defines": ["VERIF_HALLOC"],
 "models": ["models/net_events.c", "models/net_netapi.c", "models/net_os.c"],
 "cbmc": ["--malloc-may-fail", "--malloc-fail-null", "--unwindset", "poke.0:1,poke_wrapped_for_contract_checking.0:1,netbuf_write_consume_wrapped_for_contract_checking.0:4,netbuf_write_consume.0:4"],
 "timeout": 300,
 "assumptions": ["reserve, consume and poke inlined; network_write per models/net_netapi.c (may fail); malloc may fail", "case split: buflen > 0 or a non-empty queue here; the zero-length write into an empty queue is nw_write_zero", "the F6 postcondition of reserve is not part of this contract", "--unwindset poke.0:1 only bounds the else-branch loop of STAILQ_REMOVE in poke, which is unreachable (the removed buffer is always the head): the unwinding assertions are discharged, so nothing is cut off (not a bounded stand-in)"]
}
*/
#include <stdlib.h>
#include "verif.h"
#include "netbuf/netbuf_write.c"
#include "c07w.h"

/* Writing buflen bytes through any well-formed writer. */
void
h_nw_write(void)
{
	NW_MK(W, 1);
	IN(size_t, buflen);
	int rc;
	unsigned n0 = g_nwr.nstart;
	struct writebuf * first0 = W->buffers.stqh_first;
	struct writebuf ** last0 = W->buffers.stqh_last;
	size_t room0 = (L != NULL) ? L->buflen - L->datalen : 0;
	size_t d0 = (L != NULL) ? L->datalen : 0;
	uint8_t b = 0;

	__CPROVER_assume(buflen <= NW_MAXOBJ);
	__CPROVER_assume(buflen > 0 || qn > 0);
	IN_BYTES(src, buflen, NW_MAXOBJ);
	if (gi < buflen)
		b = src[gi];

	rc = netbuf_write_write(W, src, buflen);

	if (wfailed) {
		__CPROVER_assert(rc == 0 && W->buffers.stqh_first == first0 && W->buffers.stqh_last == last0 && g_nwr.nstart == n0 &&
		    (L == NULL || L->datalen == d0), "after a failure writes are discarded silently");
	} else if (rc == 0) {
		/* the tail of the stream: the last queued buffer, or the in-flight one if the queue was empty and idle */
		struct writebuf * T = STAILQ_EMPTY(&W->buffers) ? W->curr : STAILQ_LAST(&W->buffers, writebuf, entries);
		__CPROVER_assert(T != NULL && T->datalen >= buflen, "the data is at the tail of the stream");
		__CPROVER_assert(!(qn > 0 && room0 >= buflen) || (T == L && T->datalen == d0 + buflen), "coalesced behind the earlier data of the last buffer");
		__CPROVER_assert((qn > 0 && room0 >= buflen) || (T != L && T->datalen == buflen && (L == NULL || L->datalen == d0)),
		    "or alone in a fresh buffer queued behind everything else");
		__CPROVER_assert(!(gi < buflen) || T->buf[T->datalen - buflen + gi] == b, "the bytes are the caller's, in order");
		__CPROVER_assert(g_nwr.nstart == n0 || (g_nwr.nstart == n0 + 1 && !inflight), "at most one write in flight");
		__CPROVER_assert(inflight || W->curr == (qn > 0 ? A : T), "an idle writer starts sending the oldest buffer");
	}

	VCOVER(rc == 0 && !wfailed && qn == 0 && !inflight && buflen > 4096 && gi < buflen);
	VCOVER(rc == 0 && !wfailed && qn == 2 && room0 >= buflen && buflen > 0 && inflight && gi < buflen);
	VCOVER(rc == 0 && !wfailed && qn == 1 && room0 < buflen && !inflight && gi < buflen);
	VCOVER(rc == 0 && !wfailed && qn == 0 && inflight && buflen > 0);
	VCOVER(rc == -1 && !wfailed && qn == 0 && W->buffers.stqh_first == NULL);
	VCOVER(rc == -1 && !wfailed && qn == 0 && W->buffers.stqh_first != NULL);
	VCOVER(rc == 0 && wfailed && buflen > 0);
	VCOVER(rc == 0 && !wfailed && buflen == 0 && qn == 1);
}
