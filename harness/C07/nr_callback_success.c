/* VERIF-GROUP
{
 "property": ["C07"],
 "entry": "h_nr_callback_success",
 "enforce": ["callback_success"],
 "replace": [],
 "annotate": ["netbuf/netbuf_read.c"],
 "defines": ["VERIF_HALLOC"],
 "models": ["models/net_events.c", "models/net_netapi.c", "models/net_mem.c"],
 "cbmc": ["--malloc-may-fail", "--malloc-fail-null"],
 "timeout": 300,
 "assumptions": ["user callback = abstract stub h_nbcb"]
}
*/
#include <stdlib.h>
#include "verif.h"
#include "netbuf/netbuf_read.c"
#include "c07r.h"
extern size_t g_mm_k;
extern unsigned g_mm_calls;

/* The immediate event scheduled by wait(k) when k bytes were already buffered. */
void
h_nr_callback_success(void)
{
	NR_MK(R);
	IN(size_t, k);
	void * ucookie;
	int rc;
	unsigned calls0;

	g_nb_waitlen = k;
	__CPROVER_assume(rdatalen - rbufpos >= k);
	R->immediate_cookie = g_imm_handle;	/* the event loop has taken the event out of its queue; the cookie is stale */
	R->callback = h_nbcb;
	R->cookie = ucookie;
	calls0 = g_nbu_calls;
	rc = callback_success(R);
	__CPROVER_assert(g_nbu_calls == calls0 + 1 && g_nbu_status == 0 && g_nbu_cookie == ucookie, "one callback, status 0");
	__CPROVER_assert(R->datalen - R->bufpos >= k && R->immediate_cookie == NULL, "k bytes visible, reader idle");
	VCOVER(rc != 0 && k > 0);
	VCOVER(k == 0 && rdatalen == rbufpos);
}
