/* VERIF-GROUP
{
 "property": ["C07"],
 "entry": "h_nw_reserve",
 "enforce": ["netbuf_write_reserve"],
 "replace": [],
 "annotate": ["netbuf/netbuf_write.c"],
 "defines": ["VERIF_HALLOC"],
 "models": ["models/net_events.c", "models/net_netapi.c", "models/net_os.c"],
 "cbmc": ["--no-malloc-may-fail"],
 "instrument_flags": ["--no-malloc-may-fail"],
 "timeout": 300,
 "assumptions": ["no allocation failure in this group (see nw_reserve_fail)", "buffers and len <= NW_MAXOBJ (16384) bytes: below and above the 4096-byte coalescing buffer"]
}
*/
#include <stdlib.h>
#include "verif.h"
#include "netbuf/netbuf_write.c"
#include "c07w.h"

/* Reserving len bytes in any well-formed writer with nothing reserved. */
void
h_nw_reserve(void)
{
	NW_MK(W, 1);
	IN(size_t, len);
	uint8_t * p;
	struct writebuf * first0 = W->buffers.stqh_first;
	struct writebuf ** last0 = W->buffers.stqh_last;
	size_t room0 = (L != NULL) ? L->buflen - L->datalen : 0;

	__CPROVER_assume(len <= NW_MAXOBJ);

	p = netbuf_write_reserve(W, len);

	if (p != NULL) {
		struct writebuf * T = STAILQ_LAST(&W->buffers, writebuf, entries);
		__CPROVER_assert(T != NULL && T != C && p == T->buf + T->datalen && T->buflen - T->datalen >= len,
		    "reserve returns len bytes at the tail of the last queued buffer, never the in-flight one");
		__CPROVER_assert(len == 0 || __CPROVER_w_ok(p, len), "the reserved space is writable");
		__CPROVER_assert(!(qn > 0 && room0 >= len) || T == L, "small writes coalesce into the last queued buffer");
		__CPROVER_assert((qn > 0 && room0 >= len) || (T != L && T->datalen == 0 && T->buflen == (len > 4096 ? len : 4096)),
		    "otherwise a fresh buffer of max(len, 4096) bytes is appended");
	} else {
		__CPROVER_assert(W->buffers.stqh_first == first0 && W->buffers.stqh_last == last0, "failed reserve leaves the queue alone");
	}

	VCOVER(p != NULL && qn == 2 && room0 >= len && len > 0);
	VCOVER(p != NULL && qn == 2 && room0 < len && len < 4096 && A->entries.stqe_next == L && L->entries.stqe_next != NULL);
	VCOVER(p != NULL && qn == 0 && len > 4096 && W->buffers.stqh_first != NULL);
	VCOVER(p != NULL && qn == 0 && len == 0);
	VCOVER(p != NULL && qn == 1 && inflight && room0 == len);
}
