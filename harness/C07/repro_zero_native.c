/*
 * Native reproduction (not a proof harness: no VERIF-GROUP header, ignored by ./check) of the defect reported by
 * the groups C07/nw_write_zero and C07/nw_consume_zero: a zero-length write through a buffered writer whose queue
 * is empty makes poke() call network_write(..., buflen = 0, ...), which asserts buflen != 0 -> abort.
 * Build (from /verif): R=/repo; gcc -g -D_POSIX_C_SOURCE=200809L -D_XOPEN_SOURCE=700 -I$R/netbuf -I$R/network \
 *   -I$R/events -I$R/datastruct -I$R/util -I$R/external/queue -I$R/cpusupport -I$R/apisupport \
 *   harness/C07/repro_zero_native.c $R/netbuf/netbuf_write.c $R/network/network_write.c $R/events/events.c \
 *   $R/events/events_immediate.c $R/events/events_network.c $R/events/events_network_selectstats.c \
 *   $R/events/events_timer.c $R/datastruct/elasticarray.c $R/datastruct/ptrheap.c $R/datastruct/timerqueue.c \
 *   $R/util/monoclock.c $R/util/warnp.c -o /tmp/repro_zero && /tmp/repro_zero
 * Observed: "network_write: Assertion `buflen != 0' failed", SIGABRT.
 */
#include <sys/socket.h>
#include <stdio.h>
#include <stdint.h>
#include "netbuf.h"
#include "events.h"
int main(int argc, char **argv) {
	int sv[2];
	struct netbuf_write * W;
	uint8_t b[1] = {0};
	if (socketpair(AF_UNIX, SOCK_STREAM, 0, sv)) return 2;
	W = netbuf_write_init(sv[0], NULL, NULL);
