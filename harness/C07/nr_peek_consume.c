/* VERIF-GROUP
{
 "property": ["C07"],
 "entry": "h_nr_peek_consume",
 "enforce": ["netbuf_read_peek", "netbuf_read_consume"],
 "replace": [],
 "annotate": ["netbuf/netbuf_read.c"],
 "defines": ["VERIF_HALLOC"],
 "models": ["models/net_events.c", "models/net_netapi.c", "models/net_mem.c"],
 "cbmc": ["--malloc-may-fail", "--malloc-fail-null"],
 "timeout": 300,
 "assumptions": ["reader buffer <= NB_MAXOBJ (2^20) bytes"]
}
*/
#include <stdlib.h>
#include "verif.h"
#include "netbuf/netbuf_read.c"
#include "c07r.h"
extern size_t g_mm_k;
extern unsigned g_mm_calls;

/* consume(j) drops exactly the first j bytes of the view; peek then shows the rest, starting at the first unconsumed byte. */
void
h_nr_peek_consume(void)
{
	NR_MK(R);
	IN(size_t, j);
	uint8_t * d1;
	size_t n0 = rdatalen - rbufpos;
	size_t n1;
	uint8_t b = 0;

	__CPROVER_assume(j <= n0);
	if (gi < n0 - j)
		b = rbuf[rbufpos + j + gi];
	netbuf_read_consume(R, j);
	netbuf_read_peek(R, &d1, &n1);
	__CPROVER_assert(n1 == n0 - j && d1 == rbuf + rbufpos + j, "consume(j) drops the first j bytes, nothing else; peek = view");
	__CPROVER_assert(!(gi < n1) || d1[gi] == b, "bytes after the consumed ones are unchanged and in order");
	VCOVER(j > 0 && j < n0 && gi < n1);
	VCOVER(j == n0 && n0 > 0);
	VCOVER(j == 0 && n0 == 0);
}
