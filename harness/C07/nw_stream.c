/* VERIF-GROUP
{
 "property": ["C07"],
 "entry": "h_nw_stream",
 "enforce": [],
 "replace": [],
 "annotate": ["netbuf/netbuf_write.c"],
 "defines": ["VERIF_HALLOC", "NW_STEPS=4"],
 "thorough_defines": ["NW_STEPS=5"],
 "models": ["models/net_events.c", "models/net_netapi.c", "models/net_os.c"],
 "cbmc": ["--malloc-may-fail", "--malloc-fail-null", "--memory-leak-check", "--unwindset", "poke.0:1,poke.1:1,netbuf_write_free.0:8,netbuf_write_free.1:8,netbuf_write_consume.0:8,netbuf_write_consume.1:8"],
 "bounded": true, "bound": "all histories of <= NW_STEPS (4 quick, 5 thorough) steps on one writer, each step a write of 1..NW_STREAM_MAXLEN bytes or a completion (success / failure after any prefix) of the in-flight write",
 "loop_contracts": false,
 "timeout": 600,
 "assumptions": [
  "bounded stand-in (DESIGN 3.7): no contract is enforced here; the real netbuf_write_init2/_write/writbuf/poke/_free run on the C06 model of network_write (models/net_netapi.c)",
  "the harness plays the network layer and the peer: a completed request delivers its whole buffer to the peer, a failed one delivers an arbitrary proper prefix of it",
  "writes have length >= 1 (the zero-length write is the defect reported by nw_write_zero / nw_consume_zero)",
  "stream bytes are compared at one arbitrary ghost stream position (G1)"
 ]
}
*/
#include <stdlib.h>
#include "verif.h"
#include "netbuf/netbuf_write.c"
#include "c07w.h"
#ifndef NW_STREAM_MAXLEN
#define NW_STREAM_MAXLEN 9000
#endif

/*
 * Stream-order invariant: the peer receives a prefix of the concatenation of all writes, in call order; all of it
 * once every request has completed successfully; after the first transport failure the failure callback has fired
 * exactly once, nothing further is sent, later writes are accepted and discarded.
 */
void
h_nw_stream(void)
{
	struct netbuf_write * W;
	IN(int, s);
	IN(size_t, p);			/* ghost stream position */
	size_t total = 0;		/* bytes accepted by netbuf_write_write before any failure */
	size_t recvd = 0;		/* bytes the peer has received */
	int have_e = 0;
	uint8_t e = 0;			/* the byte the application wrote at stream position p */
	int transport_failed = 0;
	int stopped = 0;
	unsigned nstart_at_failure = 0;
	int step;

	__CPROVER_assume(s >= 0);
	netbuf_write_ssl_func = h_ssl_write;
	netbuf_write_ssl_cancel_func = h_ssl_write_cancel;
	W = netbuf_write_init2(s, NULL, h_failcb, h_fail_cookie);
	__CPROVER_assume(W != NULL);
	g_nw_W = W;

	for (step = 0; step < NW_STEPS; step++) {
		IN(int, op);
		if (stopped)
			break;
		if (op == 0) {
			/* the application writes len bytes */
			IN(size_t, len);
			int rc;
			__CPROVER_assume(len >= 1 && len <= NW_STREAM_MAXLEN);
			IN_BYTES(src, len, NW_STREAM_MAXLEN);
			uint8_t mine = (p >= total && p - total < len) ? src[p - total] : 0;
			rc = netbuf_write_write(W, src, len);
			free(src);
			if (transport_failed) {
				__CPROVER_assert(rc == 0, "after a transport failure writes are accepted and discarded");
			} else if (rc == 0) {
				if (p >= total && p - total < len) {
					have_e = 1;
					e = mine;
				}
				total += len;
			} else {
				/* out of memory: the application gives up on this connection */
				stopped = 1;
			}
		} else if (g_nwr.active) {
			/* the network layer finishes the in-flight request */
			IN(int, ok);
			IN(size_t, k);
			size_t n = g_nwr.buflen;
			__CPROVER_assert(!transport_failed, "nothing is in flight after a transport failure");
			__CPROVER_assert(g_nwr.minlen == n && n >= 1, "a request is always for a whole, non-empty buffer");
			if (!ok) {
				/* the peer got a proper prefix of the buffer before the transport failed */
				__CPROVER_assume(k < n);
				n = k;
			}
			__CPROVER_assert(recvd + n <= total, "the peer never receives more than was written");
			if (p >= recvd && p - recvd < n)
				__CPROVER_assert(have_e && g_nwr.buf[p - recvd] == e,
				    "the byte at every stream position is the one the application wrote there (order, no loss, no duplication)");
			recvd += n;
			g_nwr.active = 0;
			if (!ok) {
				transport_failed = 1;
				nstart_at_failure = g_nwr.nstart;
			}
			if ((g_nwr.callback)(g_nwr.cookie, ok ? (ssize_t)g_nwr.buflen : -1) != 0 && ok) {
				/* starting the next write failed (out of memory): the event loop stops, the application gives up */
				stopped = 1;
			}
		}
		if (transport_failed) {
			__CPROVER_assert(W->failed == 1 && g_nwf_calls == 1 && g_nwr.nstart == nstart_at_failure && !g_nwr.active,
			    "after the first transport failure: failure callback fired once, nothing further is sent");
		} else {
			__CPROVER_assert(W->failed == 0 && g_nwf_calls == 0, "no failure reported while the transport works");
		}
	}

	if (!transport_failed && !stopped) {
		/* everything written is either with the peer, in flight, or queued (<= NW_STEPS buffers) */
		size_t pending = (W->curr != NULL) ? W->curr->datalen : 0;
		struct writebuf * WB = STAILQ_FIRST(&W->buffers);
		int i;
		for (i = 0; i < NW_STEPS; i++) {
			if (WB == NULL)
				break;
			pending += WB->datalen;
			WB = STAILQ_NEXT(WB, entries);
		}
		__CPROVER_assert(WB == NULL && recvd + pending == total, "nothing is lost: received + in flight + queued == written");
		__CPROVER_assert(total == recvd || g_nwr.active, "while data is pending a write is in flight (the whole stream gets sent)");
	}
	VCOVER(!transport_failed && !stopped && total > 4096 && recvd == total && g_nwr.nstart >= 2);
	VCOVER(!transport_failed && !stopped && recvd > 0 && p < recvd && p >= 4096);
	VCOVER(transport_failed && recvd > 0 && total > recvd);
	VCOVER(!transport_failed && !stopped && W->curr != NULL && !STAILQ_EMPTY(&W->buffers) && STAILQ_NEXT(STAILQ_FIRST(&W->buffers), entries) != NULL);
	netbuf_write_free(W);
}
