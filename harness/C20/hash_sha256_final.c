/* VERIF-GROUP
{
 "property": ["C20", "C01"],
 "entry": "h_sha256_final",
 "enforce": ["libcperciva_SHA256_Final"],
 "replace": ["SHA256_Final_internal"],
 "annotate": ["alg/sha256.c", "util/insecure_memzero.c"],
 "defines": ["VERIF_HALLOC"],
 "loop_contracts": false,
 "timeout": 300,
 "assumptions": ["insecure_memzero_ptr == insecure_memzero_func (its static initialiser; no library code assigns it)",
                 "CBMC sees C semantics: what an optimising compiler does with the stores is outside this proof"]
}
*/
/*
 * SHA256_Final: digest and trace as SHA256_Final_internal (C01), and afterwards every byte of the context
 * object is zero (C20) -- at an arbitrary byte index g256_z, from an arbitrary context.
 */
#include <stdlib.h>
#include "verif.h"
#include "../C01/sha256_ghost.h"
size_t g_mz_idx;
#include "util/insecure_memzero.c"
#include "alg/sha256.c"

void
h_sha256_final(void)
{
	SHA256_CTX * ctx = malloc(sizeof(SHA256_CTX));
	uint8_t * digest = malloc(32);
	__CPROVER_assume(ctx != NULL && digest != NULL);

	insecure_memzero_ptr = insecure_memzero_func;
	G256_HAVOC();
	for (int i = 0; i < 8; i++)
		g256_H[i] = ctx->state[i];
	size_t r = (ctx->count >> 3) & 0x3f;

	SHA256_Final(digest, ctx);

	__CPROVER_assert(((const uint8_t *)ctx)[g256_z] == 0, "C20: SHA256_CTX is all zero after SHA256_Final");
	__CPROVER_assert(ctx->count == 0 && ctx->state[g256_z % 8] == 0 && ctx->buf[g256_z % 64] == 0, "C20: members zero");
	VCOVER(g256_z == 103 && r == 60);
	VCOVER(g256_z == 0 && r == 0 && digest[g256_i] != 0);
}
