/* VERIF-GROUP
{
 "property": ["C20", "C01"],
 "entry": "h_hmac256_final_pub",
 "enforce": ["libcperciva_HMAC_SHA256_Final"],
 "replace": ["HMAC_SHA256_Final_internal"],
 "annotate": ["alg/sha256.c", "util/insecure_memzero.c"],
 "defines": ["VERIF_HALLOC", "VERIF_HASH_ABS", "SHA_MAXOBJ=0xffffffff"],
 "loop_contracts": false,
 "timeout": 300,
 "assumptions": ["hash layer abstracted at the call level (VERIF_HASH_ABS); L-md",
                 "insecure_memzero_ptr == insecure_memzero_func (its static initialiser; no library code assigns it)",
                 "CBMC sees C semantics: what an optimising compiler does with the stores is outside this proof"]
}
*/
/* public HMAC_SHA256_Final: RFC 2104 finalisation (C01) and the whole HMAC context is zero afterwards (C20) */
#include <stdlib.h>
#include "verif.h"
#include "../C01/sha256_ghost.h"
#include "../C01/sha256_abs_ghost.h"
size_t g_mz_idx;
#include "util/insecure_memzero.c"
#include "alg/sha256.c"

void
h_hmac256_final_pub(void)
{
	HMAC_SHA256_CTX * ctx = malloc(sizeof(HMAC_SHA256_CTX));
	uint8_t * digest = malloc(32);
	__CPROVER_assume(ctx != NULL && digest != NULL);
	__CPROVER_assume(ctx->octx.count <= UINT64_MAX - 256);

	insecure_memzero_ptr = insecure_memzero_func;
	GA_HAVOC();
	ga_ctx0 = &ctx->ictx;
	ga_ctx1 = &ctx->octx;
	size_t n0 = ga_nfin;
	uint64_t l1 = ga_len1;

	HMAC_SHA256_Final(digest, ctx);

	__CPROVER_assert(((const uint8_t *)ctx)[g256_zz] == 0, "C20: HMAC_SHA256_CTX is all zero after HMAC_SHA256_Final");
	__CPROVER_assert(ctx->ictx.count == 0 && ctx->octx.count == 0 && ctx->octx.state[g256_zz % 8] == 0 && ctx->ictx.buf[g256_zz % 64] == 0, "C20: members zero");
	VCOVER(g256_zz == 207 && ga_of == n0 + 1 && ga_dig_rec == digest[ga_di]);
	VCOVER(g256_zz == 0 && ga_of == n0 && ga_os == 1 && ga_oe == ga_epoch1 && ga_p == l1 + 5 && ga_di == 5);
}
