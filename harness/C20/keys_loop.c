/* VERIF-GROUP
{
 "property": ["C20", "C14", "C15"],
 "entry": "h_keys_loop",
 "enforce": ["aws_readkeys"],
 "replace": [],
 "annotate": ["aws/aws_readkeys.c", "util/insecure_memzero.c"],
 "specs": {"aws/aws_readkeys.c": "contracts/aws__aws_readkeys.c.C20loop.spec",
           "util/insecure_memzero.c": "contracts/util__insecure_memzero.c.drbg.spec"},
 "defines": ["VERIF_HALLOC", "KEYS_UNBOUNDED", "KEYS_LINEMAX=24", "VERIF_STRMAX=32"],
 "thorough_defines": ["KEYS_LINEMAX=40", "VERIF_STRMAX=48"],
 "models": ["models/libc_string.c", "models/aws_stdio.c"],
 "instrument_flags": ["--nondet-static-exclude", "insecure_memzero_ptr"],
 "timeout": 900,
 "assumptions": ["key files with ANY number of lines (the line loop is closed by a loop contract; termination measure: lines the file still holds); each line at most 24 characters newline included (thorough: 40): bounds only the size of the symbolic line, a line that fills the 1024-byte buffer takes the same path as an unterminated shorter line",
                 "fopen/fgets/ferror/fclose modelled (models/aws_stdio.c): arbitrary lines, arbitrary failures",
                 "strdup is a harness-level model with prophecy blocks (arbitrary pre-allocated strings, the wrapper assumes the duplicated string equals them; may return NULL); strcspn/strcmp/strlen are models/libc_string.c; strchr is the same scan without the uintptr_t round trip",
                 "one inserted statement touches non-ghost state: after err1, *key_id / *key_secret are re-assigned the value the preceding assertion proves they already have (value-set refresh after the loop havoc)",
                 "insecure_memzero is the real code (loop closed by its loop contract), reached through insecure_memzero_ptr holding its initialiser"]
}
*/
#include "keys_loop.h"

void
h_keys_loop(void)
{
	uint8_t fname_o[KEYS_FNMAX + 1];
	const char * fname = (const char *)fname_o;
	char * kid;
	char * ks;
	IN(size_t, gi);
	IN(size_t, idlen);
	IN(size_t, seclen);
	IN(size_t, remaining);
	size_t i;
	int rc;

	fname_o[KEYS_FNMAX] = 0;
	/* the prophecy blocks: arbitrary strings of exactly idlen / seclen characters */
	__CPROVER_assume(idlen <= KEYS_LINEMAX && seclen <= KEYS_LINEMAX);
	g_keys_id_blk = malloc(KEYS_LINEMAX + 1);
	g_keys_secret_blk = malloc(KEYS_LINEMAX + 1);
	__CPROVER_assume(g_keys_id_blk != NULL && g_keys_secret_blk != NULL);
	for (i = 0; i < KEYS_LINEMAX; i++) {
		__CPROVER_assume(i >= idlen || g_keys_id_blk[i] != '\0');
		__CPROVER_assume(i >= seclen || g_keys_secret_blk[i] != '\0');
	}
	g_keys_id_blk[idlen] = '\0';
	g_keys_secret_blk[seclen] = '\0';
	g_keys_secret_size = seclen + 1;
	g_keys.have_id = g_keys.have_secret = g_keys.secret_freed = g_keys.unwiped = 0;
	g_keys.gi = gi;
	g_mz_idx = gi;
	g_keys.l_fname = KEYS_FNMAX;
	g_aws_stdio.open = 0;
	g_aws_stdio.err = 0;
	g_aws_stdio.lines = 0;
	g_aws_stdio.fopen_calls = g_aws_stdio.fgets_calls = g_aws_stdio.fclose_calls = 0;
	g_aws_stdio.remaining = remaining;	/* lines the file holds: arbitrary */

	rc = aws_readkeys(fname, &kid, &ks);

	__CPROVER_assert(!g_keys.unwiped, "C20: the secret-key buffer was wiped before every free()");
	__CPROVER_assert(!(rc == -1 && g_keys.have_secret) || g_keys.secret_freed, "C20: a failed read does not leak the secret-key buffer");
	VCOVER(rc == -1 && g_keys.secret_freed && seclen > 5 && gi == 3 && !g_keys.have_id);	/* missing key id */
	VCOVER(rc == -1 && g_keys.secret_freed && seclen == 0);					/* empty secret */
	VCOVER(rc == -1 && g_keys.secret_freed && g_keys.have_id && remaining > 1000);		/* fails late in a long file */
	VCOVER(rc == -1 && g_keys.secret_freed && g_aws_stdio.err);				/* read error */
	VCOVER(rc == -1 && g_keys.secret_freed && g_keys.have_id && !g_aws_stdio.err && g_aws_stdio.fclose_calls == 1);
	VCOVER(rc == -1 && !g_keys.have_secret && g_keys.have_id);				/* failure before any secret */
	VCOVER(rc == -1 && g_aws_stdio.fopen_calls == 1 && g_aws_stdio.fclose_calls == 0);	/* fopen failed */
	VCOVER(rc == 0);
}
