/* VERIF-GROUP
{
 "property": ["C20", "C01"],
 "entry": "h_sha1_final",
 "enforce": ["libcperciva_SHA1_Final"],
 "replace": ["SHA1_Pad"],
 "annotate": ["alg/sha1.c", "util/insecure_memzero.c"],
 "defines": ["VERIF_HALLOC"],
 "loop_contracts": false,
 "timeout": 300,
 "assumptions": ["insecure_memzero_ptr == insecure_memzero_func (its static initialiser; no library code assigns it)",
                 "CBMC sees C semantics: what an optimising compiler does with the stores is outside this proof"]
}
*/
/*
 * SHA1_Final: padding per SHA1_Pad's contract, digest = big-endian encoding of the final chaining value (C01), and
 * afterwards every byte of the context object is zero (C20) -- arbitrary context, arbitrary observed indices.
 */
#include <stdlib.h>
#include "verif.h"
size_t g_mz_idx;
#include "util/insecure_memzero.c"
#include "alg/sha1.c"
#include "../C01/sha1_ghost.h"

void
h_sha1_final(void)
{
	SHA1_CTX * ctx = malloc(sizeof(SHA1_CTX));
	uint8_t * digest = malloc(20);
	__CPROVER_assume(ctx != NULL && digest != NULL);

	SHA1_STATICS_INIT();
	G1_HAVOC();
	for (int i = 0; i < 5; i++)
		g1_H[i] = ctx->state[i];
	size_t r = (ctx->count[1] >> 3) & 0x3f;
	size_t k0 = g1_k;

	SHA1_Final(digest, ctx);

	__CPROVER_assert(((const uint8_t *)ctx)[g1_z] == 0, "C20: SHA1_CTX is all zero after SHA1_Final");
	__CPROVER_assert(ctx->count[0] == 0 && ctx->count[1] == 0 && ctx->state[g1_z % 5] == 0 && ctx->buf[g1_z % 64] == 0, "C20: members zero");
	__CPROVER_assert(g1_i != 0 || digest[0] == ((g1_H[0] >> 24) & 0xff), "digest[0]");
	__CPROVER_assert(g1_i != 20 - 1 || digest[20 - 1] == (g1_H[4] & 0xff), "last digest byte");
	VCOVER(g1_z == sizeof(SHA1_CTX) - 1 && r == 60 && g1_k == k0 + 2);
	VCOVER(g1_z == 0 && r == 0 && digest[g1_i] != 0 && g1_i == 20 - 1);
}
