/* VERIF-GROUP
{
 "property": ["C20", "C01"],
 "entry": "h_md5_final",
 "enforce": ["libcperciva_MD5_Final"],
 "replace": ["MD5_Pad"],
 "annotate": ["alg/md5.c", "util/insecure_memzero.c"],
 "defines": ["VERIF_HALLOC"],
 "loop_contracts": false,
 "timeout": 300,
 "assumptions": ["insecure_memzero_ptr == insecure_memzero_func (its static initialiser; no library code assigns it)",
                 "CBMC sees C semantics: what an optimising compiler does with the stores is outside this proof"]
}
*/
/*
 * MD5_Final: padding per MD5_Pad's contract, digest = little-endian encoding of the final chaining value (C01), and
 * afterwards every byte of the context object is zero (C20) -- arbitrary context, arbitrary observed indices.
 */
#include <stdlib.h>
#include "verif.h"
size_t g_mz_idx;
#include "util/insecure_memzero.c"
#include "alg/md5.c"
#include "../C01/md5_ghost.h"

void
h_md5_final(void)
{
	MD5_CTX * ctx = malloc(sizeof(MD5_CTX));
	uint8_t * digest = malloc(16);
	__CPROVER_assume(ctx != NULL && digest != NULL);

	MD5_STATICS_INIT();
	G5_HAVOC();
	for (int i = 0; i < 4; i++)
		g5_H[i] = ctx->state[i];
	size_t r = (ctx->count[0] >> 3) & 0x3f;
	size_t k0 = g5_k;

	MD5_Final(digest, ctx);

	__CPROVER_assert(((const uint8_t *)ctx)[g5_z] == 0, "C20: MD5_CTX is all zero after MD5_Final");
	__CPROVER_assert(ctx->count[0] == 0 && ctx->count[1] == 0 && ctx->state[g5_z % 4] == 0 && ctx->buf[g5_z % 64] == 0, "C20: members zero");
	__CPROVER_assert(g5_i != 0 || digest[0] == (g5_H[0] & 0xff), "digest[0]");
	__CPROVER_assert(g5_i != 16 - 1 || digest[16 - 1] == ((g5_H[3] >> 24) & 0xff), "last digest byte");
	VCOVER(g5_z == sizeof(MD5_CTX) - 1 && r == 60 && g5_k == k0 + 2);
	VCOVER(g5_z == 0 && r == 0 && digest[g5_i] != 0 && g5_i == 16 - 1);
}
