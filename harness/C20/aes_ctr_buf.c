/* VERIF-GROUP
{
 "property": ["C20", "C02"],
 "entry": "h_buf",
 "enforce": ["crypto_aesctr_buf"],
 "replace": ["crypto_aesctr_init2", "crypto_aesctr_stream"],
 "annotate": ["crypto/crypto_aesctr.c", "crypto/crypto_aesctr_shared.c", "util/insecure_memzero.c"],
 "specs": {"util/insecure_memzero.c": "contracts/util__insecure_memzero.c.aes.spec"},
 "defines": ["VERIF_HALLOC", "C02_FIXED_OBJ"],
 "matrix": {"BUFMODE": [0, 1]},
 "timeout": 300,
 "assumptions": ["crypto_aesctr_init2 and crypto_aesctr_stream replaced by their contracts (enforced in C02/ctr_init2, C02/ctr_stream*)",
                 "the wipe of the stack object is an assertion inserted after the last statement of the real function (anchor: the insecure_memzero line; if that line disappears the group is undecided, not passed)"]
}
*/
#include "verif.h"
#define C02_GHOST_DEFINE
#include "c02_aes_ghost.h"
#include "util/insecure_memzero.c"
#include "crypto/crypto_aesctr.c"
#include "../C02/ctr.h"

void
h_buf(void)
{
	insecure_memzero_ptr = insecure_memzero_func;
	ctr_ghost();
	IN(size_t, wk);
	g_wipe_idx = wk;
	IN(size_t, len);
	__CPROVER_assume(len <= CTR_MAXLEN);
	CTR_MK_BUFS(in, out, len);
	CTR_CALL(in, out, len);
	IN(uint64_t, nonce);
	const struct crypto_aes_key * key;
	uint8_t inb = (g_i < len) ? in[g_i] : 0;

	crypto_aesctr_buf(key, nonce, in, out, len);

	if (g_i < len && key == g_aes_key && BE64_IS(g_aes_X, nonce) && BE64_IS(g_aes_X + 8, g_i / 16))
		__CPROVER_assert(out[g_i] == (inb ^ g_aes_Y[g_i % 16]), "one-shot: out[i] = in0[i] ^ AES_key(be64(nonce)||be64(i/16))[i%16]");
	VCOVER(len == 33 && g_i == 32 && key == g_aes_key && BE64_IS(g_aes_X, nonce) && BE64_IS(g_aes_X + 8, 2) && wk == 47);
	VCOVER(len == 0 && wk == 0);
	VCOVER(len == 5 && wk == 17);
}
