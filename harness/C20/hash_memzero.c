/* VERIF-GROUP
{
 "property": ["C20"],
 "entry": "h_memzero",
 "enforce": ["insecure_memzero_func"],
 "replace": [],
 "annotate": ["util/insecure_memzero.c"],
 "defines": ["VERIF_HALLOC"],
 "expect_loops": ["insecure_memzero_func"],
 "timeout": 120,
 "assumptions": ["object size <= MZ_MAXOBJ bytes (symbolic object bound only; the loop is closed by its contract)"]
}
*/
/*
 * insecure_memzero_func zeroes exactly [buf, buf+len): loop contract (any len), frame, memory safety; and the
 * public insecure_memzero() reaches it through insecure_memzero_ptr when the pointer holds its initialiser.
 */
#include <stdlib.h>
#include "verif.h"
size_t g_mz_idx;
#include "util/insecure_memzero.c"

void
h_memzero(void)
{
	IN(size_t, len); IN(size_t, off); IN(size_t, gi);
	__CPROVER_assume(len <= MZ_MAXOBJ && off <= 8);
	IN_BYTES(obj, len + off + 8, MZ_MAXOBJ + 16);
	g_mz_idx = gi;
	uint8_t before = obj[off + len];	/* first byte after the range */

	insecure_memzero_func(obj + off, len);

	__CPROVER_assert(obj[off + len] == before, "byte after the range untouched");
	VCOVER(len == 0);
	VCOVER(len == 104 && gi == 103 && off == 3);
}
