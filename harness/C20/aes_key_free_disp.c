/* VERIF-GROUP
{
 "property": ["C20", "C03"],
 "entry": "h_kfree_d",
 "enforce": ["crypto_aes_key_free"],
 "replace": ["free", "crypto_aes_key_free_aesni"],
 "annotate": ["crypto/crypto_aes.c", "util/insecure_memzero.c"],
 "specs": {"util/insecure_memzero.c": "contracts/util__insecure_memzero.c.aes.spec"},
 "defines": ["VERIF_HALLOC", "AESBUILD=1", "OPENSSL_AES_G3"],
 "timeout": 120,
 "assumptions": ["CPUSUPPORT_X86_AESNI build, hwaccel havocked: AES-NI keys are handed to crypto_aes_key_free_aesni exactly once (that function's wiping is C20/aes_key_free_aesni), software keys are zeroed and freed here"]
}
*/
#include "../C03/aesd.h"
#include "aes_wipe.h"
#include "util/insecure_memzero.c"

void
h_kfree_d(void)
{
	insecure_memzero_ptr = insecure_memzero_func;
	IN(int, hw);
	__CPROVER_assume(hw >= HW_SOFTWARE && hw <= HW_UNSET);
	hwaccel = hw;
	IN(int, isnull);
	AES_KEY * K = malloc(sizeof(AES_KEY));
	__CPROVER_assume(K != NULL);
	IN(size_t, k);
	__CPROVER_assume(k < sizeof(AES_KEY));
	WIPE_TRACK(K, sizeof(AES_KEY), k);
	g_aesni_free_calls = 0;
	void * arg = isnull ? NULL : K;

	crypto_aes_key_free((struct crypto_aes_key *)arg);

	if (hw == HW_X86_AESNI) {
		__CPROVER_assert(g_aesni_free_calls == 1 && g_aesni_free_arg == arg && g_wipe_frees == 0,
		    "AES-NI key: released by the AES-NI implementation, exactly once, not by free() here");
	} else {
		__CPROVER_assert(g_aesni_free_calls == 0 && g_wipe_frees == (isnull ? 0 : 1),
		    "software key: zeroed and freed here exactly once");
	}
	VCOVER(hw == HW_X86_AESNI && !isnull);
	VCOVER(hw == HW_X86_AESNI && isnull);
	VCOVER(hw == HW_SOFTWARE && !isnull && k == 243);
	VCOVER(hw == HW_UNSET && !isnull);
}
