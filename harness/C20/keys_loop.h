/*
 * shared by the UNBOUNDED C20 key-file harness: the REAL aws/aws_readkeys.c and util/insecure_memzero.c, with
 * `strdup`, `strchr` and `free` (as used by aws_readkeys.c) re-pointed at the wrappers below; see
 * contracts/aws__aws_readkeys.c.C20loop.spec for the two devices (prophecy blocks, pointer refresh).
 */
#include <stdio.h>
#include <stdlib.h>
#include <string.h>
#include "verif.h"
#include "aws_stdio.h"
size_t g_mz_idx;
#include "util/insecure_memzero.c"

struct keys_ghost;
static char * keys_strdup(const char *);
static void keys_free(void *);
static char * keys_strchr(const char *, int);
#define strdup keys_strdup
#define free keys_free
#define strchr keys_strchr
#include "aws/aws_readkeys.c"
#undef strdup
#undef free
#undef strchr
struct keys_ghost g_keys;
char * g_keys_id_blk;
char * g_keys_secret_blk;
size_t g_keys_secret_size;

int nondet_int(void);

/* strchr without the uintptr_t round trip of models/libc_string.c (see harness/C20/keys_common.h) */
static char *
keys_strchr(const char * s, int c)
{
	size_t i;
	(void)&i;

	for (i = 0; i < VERIF_STRMAX; i++) {
		if (s[i] == (char)c)
			return ((char *)s + i);
		if (s[i] == '\0')
			return (NULL);
	}
	__CPROVER_assert(0, "MODEL-BOUND keys_strchr: scan reached VERIF_STRMAX");
	__CPROVER_assume(0);
	return (NULL);
}

#pragma CPROVER check push
#pragma CPROVER check disable "pointer"
#pragma CPROVER check disable "pointer-overflow"
/*
 * strdup as aws_readkeys.c calls it, with PROPHECY blocks: NULL (allocation failure), or the pre-allocated block
 * whose (arbitrary) content is assumed to be the string being duplicated.  The value of an ACCESS_KEY_SECRET line
 * is recognised by where it sits (the 18 bytes before it are "ACCESS_KEY_SECRET\0").
 */
static char *
keys_strdup(const char * s)
{
	static const char tag[18] = "ACCESS_KEY_SECRET";
	size_t i;
	(void)&i;
	int is_secret = (__CPROVER_POINTER_OFFSET(s) == 18);
	int same = 1;
	char * blk;
	(void)&is_secret;	/* HOWTO trap 12: locals assigned inside un-contracted loops must be address-taken */
	(void)&same;

	for (i = 0; i < 18; i++)
		if (is_secret && (s - 18)[i] != tag[i])
			is_secret = 0;
	if (nondet_int())
		return (NULL);
	blk = is_secret ? g_keys_secret_blk : g_keys_id_blk;
	__CPROVER_assert(is_secret ? !g_keys.have_secret : !g_keys.have_id, "MODEL keys_strdup: each prophecy block is handed out once");
	/* the prophecy: this is the string the block already holds */
	for (i = 0; i <= KEYS_LINEMAX; i++) {
		if (same && blk[i] != s[i])
			same = 0;
		if (blk[i] == '\0' || s[i] == '\0')
			break;
	}
	__CPROVER_assume(same);
	if (is_secret)
		g_keys.have_secret = 1;
	else
		g_keys.have_id = 1;
	return (blk);
}
#pragma CPROVER check pop

/* free as aws_readkeys.c calls it: THE C20 OBLIGATION sits here */
static void
keys_free(void * p)
{

	if (p != NULL && p == (void *)g_keys_secret_blk) {
		int wiped = (g_keys.gi >= g_keys_secret_size) || (((const char *)p)[g_keys.gi] == 0);

		__CPROVER_assert(wiped, "C20: every byte of the secret-key buffer is zero at the moment it is handed to free()");
		if (!wiped)
			g_keys.unwiped = 1;
		g_keys.secret_freed = 1;
	}
	free(p);
}
