/*
 * shared by the C20 key-file harnesses: the REAL aws/aws_readkeys.c and util/insecure_memzero.c, with `strdup`
 * and `free` (as used by aws_readkeys.c) re-pointed at wrappers that call the real models and keep the ghost
 * state declared in contracts/aws__aws_readkeys.c.C20.spec.
 */
#include <stdio.h>
#include <stdlib.h>
#include <string.h>
#include "verif.h"
#include "aws_stdio.h"
#include "util/insecure_memzero.c"

struct keys_ghost;
static char * keys_strdup(const char *);
static void keys_free(void *);
/*
 * strchr as aws_readkeys.c calls it: same semantics (C11 7.24.5.2) and same bounded scan as models/libc_string.c,
 * but the result is formed by a pointer cast, not by a round trip through uintptr_t.  CBMC decodes an integer back
 * into a pointer as "any object", so every later access through the result (`*p++ = 0`, strdup(p), strlen(p))
 * becomes a case split over all objects of the program: measured 11 M clauses for a one-line file, 70 M for two
 * lines, out of memory (16 GB) for three.
 */
static char *
keys_strchr(const char * s, int c)
{
	size_t i;

	for (i = 0; i < VERIF_STRMAX; i++) {
		if (s[i] == (char)c)
			return ((char *)s + i);
		if (s[i] == '\0')
			return (NULL);
	}
	__CPROVER_assert(0, "MODEL-BOUND keys_strchr: scan reached VERIF_STRMAX");
	__CPROVER_assume(0);
	return (NULL);
}
#define strdup keys_strdup
#define free keys_free
#define strchr keys_strchr
#include "aws/aws_readkeys.c"
#undef strdup
#undef free
#undef strchr
struct keys_ghost g_keys;

#pragma CPROVER check push
#pragma CPROVER check disable "pointer"
#pragma CPROVER check disable "pointer-overflow"
/*
 * strdup as aws_readkeys.c calls it.  The value of an ACCESS_KEY_SECRET line is recognised by where it sits: the
 * code duplicates `p`, the character after the '=' it replaced by NUL, so the 18 bytes before it are
 * "ACCESS_KEY_SECRET\0".  (A mutant that duplicated the secret from somewhere else would not be tracked; the
 * contract's success clause `*key_secret == g_keys.secret_obj` would then fail.)
 */
static char *
keys_strdup(const char * s)
{
	static const char tag[18] = "ACCESS_KEY_SECRET";
	char * r;
	size_t i, n;
	int is_secret = (__CPROVER_POINTER_OFFSET(s) == 18);

	/*
	 * strdup (C/POSIX): NULL, or a fresh block holding a copy of s.  The block has the fixed capacity
	 * KEYS_LINEMAX + 1 instead of strlen(s) + 1: blocks of symbolic size (models/libc_string.c's strdup) send every
	 * access through CBMC's array theory, and with up to six of them alive this group ran out of memory
	 * (measured: > 16 GB).  "Every byte of the secret buffer" below therefore means its strlen + 1 meaningful
	 * bytes (g_keys.secret_size), which is all a real strdup block has.
	 */
	n = strlen(s);
	__CPROVER_assert(n <= KEYS_LINEMAX, "MODEL-BOUND keys_strdup: string longer than KEYS_LINEMAX");
	__CPROVER_assume(n <= KEYS_LINEMAX);
	r = malloc(KEYS_LINEMAX + 1);
	if (r != NULL)
		for (i = 0; i <= KEYS_LINEMAX; i++)
			if (i <= n)
				r[i] = s[i];
	for (i = 0; i < 18; i++)
		if (is_secret && (s - 18)[i] != tag[i])
			is_secret = 0;
	if (r != NULL && is_secret) {
		g_keys.secret_lines++;
		g_keys.secret_obj = r;
		g_keys.secret_size = n + 1;
	}
	return (r);
}
#pragma CPROVER check pop

/* free as aws_readkeys.c calls it: THE C20 OBLIGATION sits here */
static void
keys_free(void * p)
{

	if (p != NULL && g_keys.secret_obj != NULL && __CPROVER_same_object(p, g_keys.secret_obj)) {
		int wiped = (g_keys.gi >= g_keys.secret_size) || (((const char *)p)[g_keys.gi] == 0);

		__CPROVER_assert(wiped, "C20: every byte of the secret-key buffer is zero at the moment it is handed to free()");
		if (!wiped)
			g_keys.unwiped = 1;
		g_keys.secret_freed = 1;
	}
	free(p);
}

#define KEYS_PRE() \
	uint8_t fname_o[KEYS_FNMAX + 1]; \
	fname_o[KEYS_FNMAX] = 0; \
	const char * fname = (const char *)fname_o; \
	char * kid; char * ks; \
	IN(size_t, gi); \
	g_keys.secret_obj = NULL; g_keys.secret_size = 0; g_keys.secret_lines = 0; g_keys.secret_freed = 0; \
	g_keys.unwiped = 0; g_keys.gi = gi; g_keys.l_fname = KEYS_FNMAX; \
	g_aws_stdio.open = 0; g_aws_stdio.err = 0; g_aws_stdio.lines = 0; \
	g_aws_stdio.fopen_calls = g_aws_stdio.fgets_calls = g_aws_stdio.fclose_calls = 0
