/* VERIF-GROUP
{
 "property": ["C20", "C01"],
 "entry": "h_hmac_md5_final",
 "enforce": ["libcperciva_HMAC_MD5_Final"],
 "replace": ["libcperciva_MD5_Update", "libcperciva_MD5_Final"],
 "annotate": ["alg/md5.c", "util/insecure_memzero.c"],
 "defines": ["VERIF_HALLOC", "VERIF_HASH_ABS", "SHA_MAXOBJ=0xffffffff"],
 "loop_contracts": false,
 "timeout": 300,
 "assumptions": ["hash layer abstracted at the call level (VERIF_HASH_ABS contracts of MD5_Init/Update/Final; digests uninterpreted); lemma L-md links them to the enforced trace contracts", "insecure_memzero_ptr == insecure_memzero_func (its static initialiser; no library code assigns it)",
                 "CBMC sees C semantics: what an optimising compiler does with the stores is outside this proof"]
}
*/
/*
 * HMAC_MD5_Final: ihash = Final(inner); the outer hash absorbs exactly those 16 bytes; digest = Final(outer)
 * (RFC 2104), and the whole HMAC context is zero afterwards (C20: each half is wiped by its MD5_Final).
 */
#include <stdlib.h>
#include "verif.h"
size_t g_mz_idx;
#include "util/insecure_memzero.c"
#include "alg/md5.c"
#include "../C01/md5_ghost.h"
#include "../C01/hash_abs_ghost.h"

void
h_hmac_md5_final(void)
{
	HMAC_MD5_CTX * ctx = malloc(sizeof(HMAC_MD5_CTX));
	uint8_t * digest = malloc(16);
	__CPROVER_assume(ctx != NULL && digest != NULL);

	MD5_STATICS_INIT();
	GA_HAVOC();
	ga_ctx0 = &ctx->ictx;
	ga_ctx1 = &ctx->octx;
	size_t n0 = ga_nfin;
	uint64_t l1 = ga_len1;

	HMAC_MD5_Final(digest, ctx);

	__CPROVER_assert(((const uint8_t *)ctx)[g256_zz] == 0, "C20: HMAC_MD5_CTX is all zero after HMAC_MD5_Final");
	VCOVER(g256_zz == sizeof(HMAC_MD5_CTX) - 1 && ga_of == n0 + 1 && ga_dig_rec == digest[ga_di] && ga_fin_len == 64 + 16);
	VCOVER(g256_zz == 0 && ga_of == n0 && ga_os == 1 && ga_oe == ga_epoch1 && ga_p == l1 + 5 && ga_di == 5);
}
