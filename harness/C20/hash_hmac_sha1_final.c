/* VERIF-GROUP
{
 "property": ["C20", "C01"],
 "entry": "h_hmac_sha1_final",
 "enforce": ["libcperciva_HMAC_SHA1_Final"],
 "replace": ["libcperciva_SHA1_Update", "libcperciva_SHA1_Final"],
 "annotate": ["alg/sha1.c", "util/insecure_memzero.c"],
 "defines": ["VERIF_HALLOC", "VERIF_HASH_ABS", "SHA_MAXOBJ=0xffffffff"],
 "loop_contracts": false,
 "timeout": 300,
 "assumptions": ["hash layer abstracted at the call level (VERIF_HASH_ABS contracts of SHA1_Init/Update/Final; digests uninterpreted); lemma L-md links them to the enforced trace contracts", "insecure_memzero_ptr == insecure_memzero_func (its static initialiser; no library code assigns it)",
                 "CBMC sees C semantics: what an optimising compiler does with the stores is outside this proof"]
}
*/
/*
 * HMAC_SHA1_Final: ihash = Final(inner); the outer hash absorbs exactly those 20 bytes; digest = Final(outer)
 * (RFC 2104), and the whole HMAC context is zero afterwards (C20: each half is wiped by its SHA1_Final).
 */
#include <stdlib.h>
#include "verif.h"
size_t g_mz_idx;
#include "util/insecure_memzero.c"
#include "alg/sha1.c"
#include "../C01/sha1_ghost.h"
#include "../C01/hash_abs_ghost.h"

void
h_hmac_sha1_final(void)
{
	HMAC_SHA1_CTX * ctx = malloc(sizeof(HMAC_SHA1_CTX));
	uint8_t * digest = malloc(20);
	__CPROVER_assume(ctx != NULL && digest != NULL);

	SHA1_STATICS_INIT();
	GA_HAVOC();
	ga_ctx0 = &ctx->ictx;
	ga_ctx1 = &ctx->octx;
	size_t n0 = ga_nfin;
	uint64_t l1 = ga_len1;

	HMAC_SHA1_Final(digest, ctx);

	__CPROVER_assert(((const uint8_t *)ctx)[g256_zz] == 0, "C20: HMAC_SHA1_CTX is all zero after HMAC_SHA1_Final");
	VCOVER(g256_zz == sizeof(HMAC_SHA1_CTX) - 1 && ga_of == n0 + 1 && ga_dig_rec == digest[ga_di] && ga_fin_len == 64 + 20);
	VCOVER(g256_zz == 0 && ga_of == n0 && ga_os == 1 && ga_oe == ga_epoch1 && ga_p == l1 + 5 && ga_di == 5);
}
