/*
 * aes_wipe.h -- "zero before free" monitor for the AES part of C20.
 * free() is replaced by the contract below (DFCC --replace-call-with-contract free): every call site must
 * establish its `requires`, which says that when the object handed to the allocator is the tracked secret object,
 * its ghost byte (an arbitrary index chosen by the harness, G1) is 0.  Since the index is arbitrary, every byte is.
 */
#ifndef AES_WIPE_H_
#define AES_WIPE_H_
#include <stdlib.h>
void free(void * ptr)
__CPROVER_requires(ptr == NULL || ptr != g_wipe_obj || ((const uint8_t *)ptr)[g_wipe_idx] == 0)
__CPROVER_requires(ptr == NULL || ptr != g_wipe_obj || g_wipe_frees == 0)
__CPROVER_assigns(g_wipe_frees)
__CPROVER_ensures(g_wipe_frees == __CPROVER_old(g_wipe_frees) + ((ptr != NULL && ptr == g_wipe_obj) ? 1 : 0));

#define WIPE_TRACK(p, n, k) do { g_wipe_obj = (p); g_wipe_idx = (k); g_wipe_frees = 0; } while (0)
#endif
