/* VERIF-GROUP
{
 "property": ["C20"],
 "entry": "h_kfree",
 "enforce": ["crypto_aes_key_free"],
 "replace": ["free"],
 "annotate": ["crypto/crypto_aes.c", "util/insecure_memzero.c"],
 "specs": {"util/insecure_memzero.c": "contracts/util__insecure_memzero.c.aes.spec"},
 "defines": ["VERIF_HALLOC", "AESBUILD=0", "OPENSSL_AES_G3"],
 "timeout": 120,
 "assumptions": ["free() replaced by a contract whose requires demands that the ghost byte of the tracked object is 0 at the moment of the call",
                 "build with no CPUSUPPORT_*: the key object is OpenSSL's AES_KEY (244 bytes)"]
}
*/
#include "../C03/aesd.h"
#include "aes_wipe.h"
#include "util/insecure_memzero.c"

void
h_kfree(void)
{
	insecure_memzero_ptr = insecure_memzero_func;	/* the library's own initial value */
	IN(int, isnull);
	AES_KEY * K = malloc(sizeof(AES_KEY));		/* arbitrary content: the expanded key */
	__CPROVER_assume(K != NULL);
	IN(size_t, k);
	__CPROVER_assume(k < sizeof(AES_KEY));
	WIPE_TRACK(K, sizeof(AES_KEY), k);

	crypto_aes_key_free(isnull ? NULL : (struct crypto_aes_key *)K);

	__CPROVER_assert(g_wipe_frees == (isnull ? 0 : 1), "the key object reaches free() exactly once, zeroed (free's requires)");
	VCOVER(!isnull && k == 0);
	VCOVER(!isnull && k == sizeof(AES_KEY) - 1);
	VCOVER(isnull);
}
