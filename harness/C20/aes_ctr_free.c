/* VERIF-GROUP
{
 "property": ["C20"],
 "entry": "h_ctr_free",
 "enforce": ["crypto_aesctr_free"],
 "replace": ["free"],
 "annotate": ["crypto/crypto_aesctr.c", "crypto/crypto_aesctr_shared.c", "util/insecure_memzero.c"],
 "specs": {"util/insecure_memzero.c": "contracts/util__insecure_memzero.c.aes.spec"},
 "defines": ["VERIF_HALLOC"],
 "timeout": 120,
 "assumptions": ["free() replaced by a contract whose requires demands that the ghost byte of the tracked object is 0 at the moment of the call"]
}
*/
#include "verif.h"
#define C02_GHOST_DEFINE
#include "c02_aes_ghost.h"
#include "aes_wipe.h"
#include "util/insecure_memzero.c"
#include "crypto/crypto_aesctr.c"
#include "../C02/ctr.h"

void
h_ctr_free(void)
{
	insecure_memzero_ptr = insecure_memzero_func;	/* the library's own initial value (DFCC does not keep static initialisers of volatile objects) */
	IN(int, isnull);
	CTR_MK_STREAM(S);			/* arbitrary content: key pointer, position, keystream block, counter block */
	IN(size_t, k);
	__CPROVER_assume(k < sizeof(struct crypto_aesctr));
	WIPE_TRACK(S, sizeof(struct crypto_aesctr), k);

	crypto_aesctr_free(isnull ? NULL : S);

	__CPROVER_assert(g_wipe_frees == (isnull ? 0 : 1), "the object is handed to free() exactly once (and free(NULL) is a no-op)");
	VCOVER(!isnull && k == 0);
	VCOVER(!isnull && k == sizeof(struct crypto_aesctr) - 1);
	VCOVER(isnull);
}
