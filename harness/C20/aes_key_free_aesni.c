/* VERIF-GROUP
{
 "property": ["C20"],
 "entry": "h_kfree_ni",
 "enforce": ["crypto_aes_key_free_aesni"],
 "replace": ["free"],
 "annotate": ["crypto/crypto_aes_aesni.c", "util/insecure_memzero.c"],
 "specs": {"util/insecure_memzero.c": "contracts/util__insecure_memzero.c.aes.spec"},
 "defines": ["VERIF_HALLOC", "CPUSUPPORT_X86_AESNI=1"],
 "models": ["models/x86_sse2.c"],
 "cflags": ["-msse2", "-maes"],
 "timeout": 120,
 "assumptions": ["ghost byte restricted to the round-key buffer (all key material); the pointer/nr members behind it: CBMC limitation, see comment in the harness",
                 "free() replaced by a contract whose requires demands that the ghost byte of the tracked object is 0 at the moment of the call"]
}
*/
#include "../C02/aesni.h"
#include "aes_wipe.h"
#include "util/insecure_memzero.c"

void
h_kfree_ni(void)
{
	insecure_memzero_ptr = insecure_memzero_func;
	IN(int, isnull);
	struct crypto_aes_key_aesni * K = malloc(sizeof(struct crypto_aes_key_aesni));	/* arbitrary round keys */
	__CPROVER_assume(K != NULL);
	IN(size_t, k);
	__CPROVER_assume(k < sizeof(struct crypto_aes_key_aesni));
	/*
	 * The ghost byte ranges over the round-key buffer rkeys_buf[0..255): that is ALL the key material of the object.
	 * Not covered (tool limit, measured with a 10-line reduction): for an object whose FIRST member is a byte array,
	 * CBMC resolves ((uint8_t *)obj)[i] as an index into that member, and byte-wise writes to the members behind it
	 * (here the pointer `rkeys`, `nr` and one padding byte -- none of them key material) are not seen by later
	 * reads, so "those 17 bytes are zero as well" is undecided, not refuted.
	 */
	__CPROVER_assume(k < sizeof(((struct crypto_aes_key_aesni *)0)->rkeys_buf));
	WIPE_TRACK(K, sizeof(struct crypto_aes_key_aesni), k);

	crypto_aes_key_free_aesni(isnull ? NULL : K);

	__CPROVER_assert(g_wipe_frees == (isnull ? 0 : 1), "the key object reaches free() exactly once, zeroed (free's requires)");
	VCOVER(!isnull && k == 0);
	VCOVER(!isnull && k == 254);
	VCOVER(isnull);
}
