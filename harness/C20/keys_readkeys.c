/* VERIF-GROUP
{
 "property": ["C20", "C14"],
 "entry": "h_keys_readkeys",
 "enforce": ["aws_readkeys"],
 "replace": [],
 "annotate": ["aws/aws_readkeys.c"],
 "specs": {"aws/aws_readkeys.c": "contracts/aws__aws_readkeys.c.C20.spec"},
 "defines": ["VERIF_HALLOC", "KEYS_NLINES=3", "KEYS_LINEMAX=24", "VERIF_STRMAX=32"],
 "thorough_defines": ["KEYS_LINEMAX=24", "VERIF_STRMAX=32"],
 "models": ["models/libc_string.c", "models/aws_stdio.c"],
 "instrument_flags": ["--nondet-static-exclude", "insecure_memzero_ptr"],
 "cbmc": ["--malloc-may-fail", "--malloc-fail-null"],
 "loop_contracts": false,
 "unwind": 34, "bounded": true,
 "bound": "key files of at most 3 lines (any content, any of them unterminated, read errors and end of file anywhere), each line at most 24 characters newline included -- a line that fills the 1024-byte buffer takes the same path as an unterminated shorter line (no EOL found) but is itself out of reach; the line loop, the zeroing loop and the libc string scans are fully unwound, unwinding assertions on",
 "timeout": 900, "tier": "thorough",
 "assumptions": ["fopen/fgets/ferror/fclose modelled (models/aws_stdio.c): arbitrary lines, arbitrary failures",
                 "strdup/strcspn/strchr/strcmp/strlen are the executable models of models/libc_string.c; malloc may fail",
                 "insecure_memzero is the real code, reached through insecure_memzero_ptr holding its initialiser (the library never reassigns it)",
                 "BOUNDED cross-check of group C20/keys_loop (which closes the line loop with a loop contract, for any number of lines, but models strdup with prophecy blocks): here strdup really copies and nothing is prophesied, at the price of unwinding the line loop"]
}
*/
#include "keys_common.h"

void
h_keys_readkeys(void)
{
	KEYS_PRE();
	int rc;

	rc = aws_readkeys(fname, &kid, &ks);

	__CPROVER_assert(!g_keys.unwiped, "C20: the secret-key buffer was wiped before every free()");
	__CPROVER_assert(!(rc == -1 && g_keys.secret_obj != NULL) || g_keys.secret_freed, "C20: a failed read does not leak the secret-key buffer");
	/* the failing cases of the property, each with a non-empty secret at a ghost index inside it */
	VCOVER(rc == -1 && g_keys.secret_freed && g_keys.secret_size > 5 && gi == 3 && g_aws_stdio.lines == 1);		/* missing key id */
	VCOVER(rc == -1 && g_keys.secret_freed && g_keys.secret_size > 2 && g_keys.secret_lines == 1 && g_aws_stdio.lines == 2);	/* duplicate / malformed 2nd line */
	VCOVER(rc == -1 && g_keys.secret_freed && g_aws_stdio.lines == 3 && g_aws_stdio.fgets_calls == 3);		/* fails on the third line */
	VCOVER(rc == -1 && g_keys.secret_freed && g_aws_stdio.err);							/* read error */
	VCOVER(rc == -1 && g_keys.secret_freed && kid != NULL && g_aws_stdio.fgets_calls == 3 && !g_aws_stdio.err);	/* fclose failed */
	VCOVER(rc == -1 && g_keys.secret_obj == NULL && g_aws_stdio.lines >= 1);					/* failure before any secret */
	VCOVER(rc == -1 && g_aws_stdio.fopen_calls == 1 && g_aws_stdio.fclose_calls == 0);				/* fopen failed */
	VCOVER(rc == 0 && g_aws_stdio.lines == 2);
	VCOVER(rc == 0 && g_aws_stdio.lines == 3);									/* unterminated 3rd line: "Missing EOL", still success */
}
