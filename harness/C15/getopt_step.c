/* VERIF-GROUP
{
 "property": ["C15", "C18"],
 "entry": "h_step",
 "enforce": ["libcperciva_getopt"],
 "expect_loops": ["searchopt"],
 "annotate": ["util/getopt.c"],
 "tier": "thorough",
 "defines": ["VERIF_HALLOC", "GO_NOPTS_MAX=4", "GO_STRMAX=6", "GO_ARGC_MAX=4", "VERIF_STRMAX=8", "GSPEC_NAMEMAX=8"],
 "thorough_timeout": 1800,
 "models": ["models/libc_string.c", "models/libc_misc.c", "models/getopt_stdio.c"],
 "timeout": 600,
 "assumptions": ["option table object <= 4 slots, argv object of exactly argc <= 4 pointers (no argv[argc] sentinel), every string <= 6 characters of arbitrary content in a heap block of exactly strlen + 1 bytes: any read past a NUL, before a string, or of argv[argc] fails a pointer check",
                 "thorough tier only (about 8 minutes): a cross-check of the composition go_step (searchopt replaced by its contract) + go_searchopt, which carry the same obligations in the quick tier",
                 "nothing replaced: getopt() with searchopt() inlined (its loop closed by the loop contract) and strncmp from models/libc_string.c (reads through ordinary dereferences)",
                 "scan state arbitrary within the module invariant (any optind >= 0, pack cursor anywhere inside argv[optind] after its first character)"]
}
*/
#include "../C18/go_pre.h"
#include "util/getopt.c"
#include "../C18/go.h"
#include "../C18/go_state.h"

void
h_step(void)
{
	GO_MK_TABLE();
	GO_MK_ARGV();
	GO_MK_SCAN();
	const char * r;

	r = getopt(a_c, a_v);

	/* documented range of the results (C15): */
	__CPROVER_assert(r == NULL || r == popt || (s_optind < a_c && r == a_v[s_optind]) ||
	    (g_go_F < t_n && opts[g_go_F].os != NULL && r == opts[g_go_F].os),
	    "getopt: returns NULL, the spelled-out short option, the current word or a registered name");
	__CPROVER_assert(optind >= s_optind && (optind <= a_c || optind == s_optind), "getopt: optind stays within [old optind, argc]");
	__CPROVER_assert(optarg == NULL || (s_optind < a_c && __CPROVER_same_object(optarg, a_v[s_optind]) &&
	    __CPROVER_POINTER_OFFSET(optarg) <= a_l[s_optind]) || (s_optind + 1 < a_c && optarg == a_v[s_optind + 1]),
	    "getopt: optarg is NULL, points into the current word, or is the next word");
	GO_STEP_COVER_MIN();
	VCOVER(r != NULL && optarg != NULL && g_go_F == 0 && t_n == 1);	/* (the marker list proper is GO_STEP_COVER_MIN in go_state.h) */
}
