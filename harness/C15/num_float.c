/* VERIF-GROUP
{
 "property": ["C15"],
 "entry": "h_num_float",
 "enforce": ["parsenum_float"],
 "replace": [],
 "loop_contracts": false,
 "annotate": ["util/parsenum.h"],
 "specs": {"util/parsenum.h": "contracts/util__parsenum.h.C15.spec"},
 "defines": ["VERIF_HALLOC", "NUM_MAXLEN=24", "VERIF_STRMAX=26"],
 "thorough_defines": ["NUM_MAXLEN=70", "VERIF_STRMAX=72"],
 "models": ["models/num_strto.c", "models/libc_string.c"],
 "timeout": 300,
 "assumptions": ["strtod reads its argument as C11 7.22.1.3 describes (models/num_strto.c: every byte through an ordinary dereference, left to right, stopping at the first byte that is not part of the numeral; strtod is abstract: it is only known to need a NUL-terminated string and to report an end inside it)",
                 "the string is arbitrary (signs, white space, base prefixes, over-long digit runs, junk), NUL-terminated, in a heap object of exactly strlen + 1 bytes, strlen < NUM_MAXLEN (24 quick, 70 thorough)"]
}
*/
#include <errno.h>
#include <stdlib.h>
#include "verif.h"
#include "parsenum.h"
#include "../C16/pn.h"

void
h_num_float(void)
{
	PN_MKSTR(str);
	IN(double, min);
	IN(double, max);
	IN(int, trailing);
	double rv;

	errno = 0;
	rv = parsenum_float(str, min, max, trailing);
	(void)rv;

	/* (memory safety = the pointer checks inside parsenum_float and the model; markers: the interesting shapes) */
	VCOVER(errno == 0 && g_num_end == slen && slen == NUM_MAXLEN - 1);	/* numeral filling the whole object */
	VCOVER(errno == 0 && trailing && g_num_end < slen);
	VCOVER(errno == EINVAL && !g_num_nd && slen == 0);			/* empty string: only the NUL is read */
	VCOVER(errno == EINVAL && !g_num_nd && slen == NUM_MAXLEN - 1);		/* white space / junk up to the end */
	VCOVER(errno == EINVAL && g_num_nd && g_num_end < slen);
	VCOVER(errno == ERANGE);
}
