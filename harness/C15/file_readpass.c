/* VERIF-GROUP
{
 "property": ["C15", "C14"],
 "entry": "h_readpass_file",
 "enforce": ["readpass_file"],
 "replace": [],
 "annotate": ["util/readpass_file.c", "util/insecure_memzero.c"],
 "specs": {"util/insecure_memzero.c": "contracts/util__insecure_memzero.c.drbg.spec"},
 "expect_loops": ["insecure_memzero_func"],
 "instrument_flags": ["--nondet-static-exclude", "insecure_memzero_ptr"],
 "defines": ["VERIF_HALLOC", "RP_BUFLEN=48", "VERIF_STRMAX=56"],
 "models": ["models/libc_string.c", "models/io_stdio.c", "models/io_warnp.c"],
 "cbmc": ["--malloc-may-fail", "--malloc-fail-null", "--memory-leak-check"],
 "bounded": true, "bound": "line buffer MAXPASSLEN scaled from 2048 to 48 bytes (code parametric in it); files of any length",
 "timeout": 300,
 "assumptions": ["insecure_memzero_func is the real one (loop contract from contracts/util__insecure_memzero.c.drbg.spec); the volatile pointer insecure_memzero_ptr keeps its initialiser",
                 "fopen/fgets/fgetc/ferror/fclose: assumed contracts of models/io_stdio.c (C11 7.21; file = arbitrary finite byte sequence, lines of any length, NULs, no final newline)",
                 "warn/warnx: models/io_warnp.c (no effect); strcspn/strlen/strdup: models/libc_string.c",
                 "file name length <= 8 (bounds the symbolic object only)"]
}
*/
#include <stdlib.h>
#include <string.h>
#include "verif.h"
size_t g_rp_len, g_rp_g, g_rp_fnend, g_mz_idx;
#include "util/insecure_memzero.c"
#include "util/readpass_file.c"

void
h_readpass_file(void)
{
	IN(size_t, fnlen);
	__CPROVER_assume(fnlen <= 8);
	IN_BYTES(fn, fnlen + 1, 9);
	fn[fnlen] = 0;
	g_rp_fnend = fnlen;
	IN(size_t, filesize);
	verif_io_remaining = filesize;
	IN(size_t, nopen);
	__CPROVER_assume(nopen < 1000);
	verif_io_open = nopen;
	IN(size_t, g);
	g_rp_g = g;
	char * junk = (char *)fn;
	char * pw = junk;

	int rc = readpass_file(&pw, (const char *)fn);

	__CPROVER_assert(verif_io_open == nopen, "readpass_file: the file is closed on every path");
	if (rc == 0) {
		__CPROVER_assert(pw != NULL && pw != junk, "readpass_file: a new string is returned");
		__CPROVER_assert(g_rp_len < MAXPASSLEN && pw[g_rp_len] == 0, "readpass_file: NUL-terminated, shorter than the buffer");
		__CPROVER_assert(g >= g_rp_len || (pw[g] != '\n' && pw[g] != '\r'), "readpass_file: no newline characters in the passphrase");
	} else
		__CPROVER_assert(rc == -1 && (pw == junk || pw == NULL), "readpass_file: -1 and no string on failure");
	VCOVER(rc == 0 && g_rp_len == 0 && filesize == 0);
	VCOVER(rc == 0 && g_rp_len == MAXPASSLEN - 1);
	VCOVER(rc == 0 && g_rp_len == 5 && filesize == 7);
	VCOVER(rc == -1 && filesize > 3 * MAXPASSLEN);
	VCOVER(rc == -1 && pw == NULL);
	VCOVER(rc == -1 && filesize == 0);
	/* C14: release what the caller owns; cbmc's leak check then shows that neither the stream nor a copy stayed allocated */
	if (rc == 0)
		free(pw);
	free(fn);
}
